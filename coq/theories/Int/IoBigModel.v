(** C07 (round 3): the non-power-of-two printer and parser with NOTHING left at its meaning on Z
    below the converters: the big operations of the divide-and-conquer paths are the as-is models of
    the other properties -
      Repr::pow / sqr / `*` of UBig  = C01's models (RingOps.ubig_pow_asis / repr_sqr / repr_mul over the
                                       schoolbook / Karatsuba / Toom-3 kernels, thresholds of the source),
      div_rem of two magnitudes      = C02's model (DivSrcInst.s_repr_div_rem: whole size dispatch,
                                       Knuth / Burnikel-Ziegler, num-modular primitives transcribed),
    the word loops are IoWords.v (fast_div_by_word_in_place groups, mul_word_in_place_with_carry
    chunks) and IoDword.v (double-word split).  The fixed-size arrays of the printer
    ([Word; CHUNK_LEN] buffer of repr_to_chunk_buffer, low_groups) are modelled with their bounds
    checks.  Definitions only (proofs: IoBig.v). *)
From Dashu Require Import Base.Prelude Base.Words Int.IoSpec Int.IoModel Int.IoWords Int.IoDword
  Int.RingMul Int.RingOps Int.DivSrcInst.
From DashuGen Require Import Params.
Open Scope Z_scope.

Section BigModel.
Variable w : Z.

Definition c01_Ts : nat := Z.to_nat mul_threshold_simple.
Definition c01_Tk : nat := Z.to_nat mul_threshold_karatsuba.
Definition c01_Ch : nat := Z.to_nat mul_simple_chunk_len.
Definition c01_Sq : nat := Z.to_nat sqr_max_len_simple.

Definition big_mul (a b : Z) : result Z :=
  rmap (repr_value w) (repr_mul w c01_Ts c01_Tk c01_Ch c01_Sq (typed_of_value w a) (typed_of_value w b)).
Definition big_sqr (a : Z) : result Z :=
  rmap (repr_value w) (repr_sqr w c01_Ts c01_Tk c01_Sq (typed_of_value w a)).
Definition big_pow (a e : Z) : result Z :=
  rmap (repr_value w) (ubig_pow_asis w c01_Ts c01_Tk c01_Ch c01_Sq (typed_of_value w a) e).
Definition big_divrem (a b : Z) : result (Z * Z) := s_repr_div_rem w a b.

(* ------------------------------------------------------------------------------------------ *)
(** * printer *)

(** repr_to_chunk_buffer: the words of the magnitude copied into [Word; CHUNK_LEN]
    (`buffer[..buffer_len].copy_from_slice(words)` panics when there are more) *)
Definition chunk_buffer (x : Z) : result (list Z) :=
  match strip_top (to_words w (IoModel.nwords w x) x) with
  | [] => Ok [0]
  | ws => if (len ws >? fmt_chunk_len) then Panic Undocumented else Ok ws
  end.

(** PreparedMedium::new + write; `low_groups[num_low_groups] = rem` is an index into [Word; CHUNK_LEN] *)
Definition medium_of (r x : Z) : result (list Z) :=
  let '(dpw, R) := radix_info w r in
  rbind (chunk_buffer x) (fun buf =>
  rbind (medium_loop w (S (Z.to_nat (w * len buf))) R buf []) (fun tg =>
  if len (snd tg) >? fmt_chunk_len then Panic Undocumented
  else Ok (prepared_word w r (fst tg) 1 ++ flat_map (fun g => prepared_word w r g dpw) (snd tg)))).

Definition chunk_of (r x : Z) : result (list Z) := rbind (chunk_buffer x) (write_chunk_words w r).

Fixpoint write_big_chunk_w (r : Z) (ps : list Z) (x : Z) : result (list Z) :=
  match ps with
  | [] => chunk_of r x
  | p :: rest =>
    rbind (big_divrem x p) (fun qr =>
    rbind (write_big_chunk_w r rest (fst qr)) (fun a =>
    rbind (write_big_chunk_w r rest (snd qr)) (fun b => Ok (a ++ b))))
  end.

Fixpoint fmt_powers_w (fuel : nat) (x : Z) (ps : list Z) : result (list Z) :=
  match fuel, ps with
  | S f, prev :: _ =>
    if 2 * wlen w prev - 1 >? wlen w x then Ok ps
    else rbind (big_sqr prev) (fun new => if new >? x then Ok ps else fmt_powers_w f x (new :: ps))
  | _, _ => Ok ps
  end.

Fixpoint large_split_w (r : Z) (ps : list Z) (first : bool) (x : Z) (tail : list Z) : result (list Z) :=
  match ps with
  | [] => rbind (medium_of r x) (fun t => Ok (t ++ tail))
  | p :: rest =>
    if first || (x >=? p)
    then rbind (big_divrem x p) (fun qr =>
         rbind (write_big_chunk_w r rest (snd qr)) (fun c => large_split_w r rest false (fst qr) (c ++ tail)))
    else large_split_w r rest false x tail
  end.

Definition prepared_large_w (r x : Z) : result (list Z) :=
  let '(dpw, R) := radix_info w r in
  rbind (big_pow R fmt_chunk_len) (fun chunk_power =>
  if chunk_power >? x then medium_of r x
  else rbind (fmt_powers_w (Z.to_nat (blen x)) x [chunk_power]) (fun ps => large_split_w r ps true x [])).

Definition digits_np2_words (r x : Z) : result (list Z) :=
  if x <? Bw w then Ok (prepared_word w r x 1)
  else if x <? Bw w * Bw w then prepared_dword_words w r x
  else let '(dpw, R) := radix_info w r in
       if wlen w x * (dpw + 1) <=? fmt_chunk_len * dpw then medium_of r x else prepared_large_w r x.

(* ------------------------------------------------------------------------------------------ *)
(** * parser *)
Definition parse_chunk_of (r : Z) (s : list Z) : result Z := rmap (value w) (parse_chunk_words w r s).

Fixpoint parse_dc_w (r chunk_bytes : Z) (ps : list Z) (s : list Z) : result Z :=
  match ps with
  | [] => parse_chunk_of r s
  | p :: rest =>
    let lo_len := chunk_bytes * 2 ^ len rest in
    if len s <=? lo_len then parse_dc_w r chunk_bytes rest s
    else
      let k := Z.to_nat (len s - lo_len) in
      rbind (parse_dc_w r chunk_bytes rest (firstn k s)) (fun hi =>
      rbind (parse_dc_w r chunk_bytes rest (skipn k s)) (fun lo =>
      rbind (big_mul hi p) (fun hp => Ok (hp + lo))))
  end.

Fixpoint parse_powers_w (fuel : nat) (chunk_bytes n : Z) (ps : list Z) : result (list Z) :=
  match fuel, ps with
  | S f, prev :: _ =>
    if chunk_bytes <=? (n - 1) / 2 ^ len ps
    then rbind (big_mul prev prev) (fun new => parse_powers_w f chunk_bytes n (new :: ps))
    else Ok ps
  | _, _ => Ok ps
  end.

Definition parse_large_w (r : Z) (s : list Z) : result Z :=
  let '(dpw, R) := radix_info w r in
  let chunk_bytes := parse_chunk_len * dpw in
  rbind (big_pow R parse_chunk_len) (fun cp =>
  rbind (parse_powers_w (Z.to_nat (blen (len s))) chunk_bytes (len s) [cp]) (fun ps => parse_dc_w r chunk_bytes ps s)).

Definition parse_np2_words (r : Z) (s : list Z) : result Z :=
  let '(dpw, R) := radix_info w r in
  let bytes := if existsb (fun c => c =? 95) s then filter (fun c => negb (c =? 95)) s else s in
  if len bytes <=? dpw then parse_word_np2 r bytes
  else if len bytes <=? parse_chunk_len * dpw then parse_chunk_of r bytes
  else parse_large_w r bytes.

(* ------------------------------------------------------------------------------------------ *)
(** * the entry points over the word-level converters *)
Definition fmt_words_asis (k : fkind) (f : fmtflags) (v : Z) : result (list Z) :=
  let r := kind_radix k in
  if radix_valid r then
    let prefix := if f_alt f then kind_prefix k else [] in
    rbind (if is_pow2 r then Ok (digits_p2_asis w r (Z.abs v)) else digits_np2_words r (Z.abs v)) (fun ds =>
    Ok (format_prepared_asis f (v <? 0) prefix (map (digit_char (kind_upper k f)) ds)))
  else Panic InvalidRadix.

Definition body_words_asis (r : Z) (s : list Z) : result Z :=
  if forallb (fun c => c =? 95) s then Err E_NoDigits
  else let s' := strip_zeros s in
       if is_pow2 r then parse_p2 w r s' else parse_np2_words r s'.

End BigModel.
