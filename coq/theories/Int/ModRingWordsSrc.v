(** C13 (round 3) - the word-level multi-word ring with EVERY kernel transcribed and proved, no contract left:
      mul::multiply / sqr::sqr        C01's as-is models (multiply_source_correct, sqr_kernel_exact)
      div::div_rem_in_place           C02's as-is model (div_rem_in_place_correct) over
        num-modular div_rem_3by2      as transcribed (nm3by2_contract) and
        mul::add_signed_mul(Negative) C01's as-is model (c01_mul_sub_contract = add_signed_mul_source_ok)
    for every word size w >= 8.  The only premise that remains anywhere in the multi-word ring is the contract of the
    multi-word extended gcd behind inv (stated where it is used). *)
From Dashu Require Import Base.Prelude Base.Words Int.DivWordModel Int.DivLargeProofs Int.DivContracts
  Int.DivNumModular Int.DivNumModularProofs Int.DivSrcInst Int.DivSrcInstProofs
  Int.ModRingSpec Int.ModRingModel Int.ModRingProofs Int.ModRingNumModularDefs Int.ModRingNumModular
  Int.ModRingWords Int.ModRingWordsProofs Int.ModRingWordsMulProofs Int.ModRingWordsInst
  Int.ModRingConv Int.ModRingConvProofs Int.ModRingGcdSmall Int.ModRingMain.
Open Scope Z_scope.

Section Src.
Variable w : Z.
Hypothesis w_ge : 8 <= w.
Let w2 : 2 <= w. Proof. lia. Qed.
Let wp : 0 < w. Proof. lia. Qed.

(** the division kernel of the source: C02's model over num-modular's 3-by-2 division and C01's multiplier *)
Definition src_div : list Z -> list Z -> result (list Z * bool) := k_div w (nm3by2 w) (c01_mul_sub w).

Lemma src_div_ok lhs rhs : kernel_pre w lhs rhs -> exists res c, src_div lhs rhs = Ok (res, c) /\ kernel_post w lhs rhs res c.
Proof. apply (k_div_ok w w_ge (nm3by2 w) (c01_mul_sub w) (nm3by2_contract w wp) (c01_mul_sub_contract w w_ge)). Qed.

(** mul_in_place / mul_normalized / sqr / pow on reduced word lists: no hypothesis on any kernel *)
Theorem src_mul_pow R r x y a b e : lring_ok w R r -> ring_wf w r -> wrep w R r x a -> wrep w R r y b -> 0 <= e ->
  (exists c, wl_mul_in_place w (k_mul w) (k_sqr w) src_div R a b = Ok c /\ wrep w R r (x * y) c) /\
  (exists c, wl_mul_normalized w (k_mul w) src_div R a b = Ok c /\ wrep w R r (x * y) c) /\
  (exists c, wl_sqr w (k_sqr w) src_div R a = Ok c /\ wrep w R r (x * x) c) /\
  (exists c, wl_pow w (k_mul w) (k_sqr w) src_div R a e = Ok c /\ wrep w R r (x ^ e) c).
Proof.
  intros HR Hwf Ha Hb He.
  destruct (real_mul_ops_nm w (c01_mul_sub w) w_ge (c01_mul_sub_contract w w_ge) R r x y a b HR Hwf Ha Hb) as (H1 & H2 & H3).
  split; [exact H1|]. split; [exact H2|]. split; [exact H3|].
  exact (real_pow_nm w (c01_mul_sub w) w_ge (c01_mul_sub_contract w w_ge) R r x a e HR Hwf Ha He).
Qed.

(** ConstDivisor::new + reduce (UBig / IBig / every primitive through them) + residue + modulus on word lists *)
Theorem src_new_reduce id m a : Words.B w * Words.B w <= m ->
  exists R r l, wl_new w m = Ok R /\ new_ring w id m = Ok r /\ lring_ok w R r /\ ring_wf w r /\ r_m r = m /\
    wl_into_ring_ibig w src_div R a = Ok l /\ wrep w R r a l /\
    (exists c, wl_residue w R l = Ok c /\ Words.wf w c /\ Words.value w c = a mod m) /\
    (exists d, wl_divisor w R = Ok d /\ Words.wf w d /\ Words.value w d = m) /\
    0 <= a mod m < m.
Proof.
  intros Hm. destruct (wl_new_ok w w2 id m Hm) as (R & r & E1 & E2 & HR & Hwf & Em & _).
  destruct (wl_into_ring_ibig_ok w w2 src_div src_div_ok R r a HR Hwf) as (l & El & Hl).
  destruct (wl_ring_ops w w2 R r a a l l HR Hwf Hl Hl) as (_ & _ & _ & _ & Hres & _).
  exists R, r, l. split; [exact E1|]. split; [exact E2|]. split; [exact HR|]. split; [exact Hwf|]. split; [exact Em|].
  split; [exact El|]. split; [exact Hl|]. rewrite <- Em. split; [exact Hres|]. split; [exact (wl_divisor_ok w w2 R r HR Hwf)|].
  apply Z.mod_pos_bound. destruct Hwf; lia.
Qed.

(** an unsigned operand: rem_repr / from_ubig, and the raw form Reducer::transform returns *)
Theorem src_from_ubig R r x : lring_ok w R r -> ring_wf w r -> 0 <= x ->
  (exists l, wl_from_ubig w src_div R x = Ok l /\ wrep w R r x l) /\
  wl_transform w src_div R x = Ok ((x mod r_m r) * 2 ^ r_shift r).
Proof.
  intros HR Hwf Hx. split; [exact (wl_from_ubig_ok w w2 src_div src_div_ok R r x HR Hwf Hx)|].
  exact (proj1 (wl_transform_ok w w2 src_div src_div_ok R r x HR Hwf Hx)).
Qed.

(** the single / double word rings reduce a multi-word operand on its words exactly as the value-level model says *)
Theorem src_small_from_ubig r x : ring_wf w r -> 0 <= x ->
  (r_kind r = KSingle -> ws_from_ubig w (nm1by1 w) (nm2by1 w) r x = s_from_ubig w (nm2by1 w) r x) /\
  (r_kind r = KDouble -> wd_from_ubig w (nm2by2 w) (nm3by2 w) (nm4by2 w) r x = d_from_ubig w (nm3by2 w) r x).
Proof.
  intros Hwf Hx. split; intros K.
  - exact (ws_from_ubig_eq w w2 (nm1by1 w) (nm2by1 w) (nm1by1_contract w) (nm2by1_contract w wp) r x Hwf K Hx).
  - exact (wd_from_ubig_eq w w2 (nm2by2 w) (nm3by2 w) (nm4by2 w) (nm2by2_contract w) (nm3by2_contract w wp) (nm4by2_contract w wp) r x Hwf K Hx).
Qed.

(** Reduced::inv on word lists with gcd_ext_word / gcd_ext_dword TRANSCRIBED (ModRingGcdSmall.v): the only premise
    left is the contract of gcd_ext_in_place (Lehmer) on values of three and more words *)
Theorem src_inv lehmer :
  (forall lhs rhs, 2 ^ w * 2 ^ w <= rhs < lhs ->
     let '(g, b, s) := lehmer lhs rhs in
     g = Z.gcd lhs rhs /\ 0 <= b < lhs /\ (g = 1 -> (rhs * signed s b) mod lhs = 1 mod lhs)) ->
  forall R r x raw, lring_ok w R r -> ring_wf w r -> wrep w R r x raw ->
  exists o, wl_inv w (gcd_ext_dispatch w lehmer) R raw = Ok o /\ winv_post w R r x o.
Proof.
  intros HL R r x raw HR Hwf Hrep.
  exact (wl_inv_ok w w2 (gcd_ext_dispatch w lehmer) (gcd_ext_dispatch_ok w w2 lehmer HL) R r x raw HR Hwf Hrep).
Qed.

(** ... and at value level (inverse / division / expressions of every ring): [externals_ok] from the Lehmer contract alone *)
Theorem src_externals lehmer :
  (forall lhs rhs, 2 ^ w * 2 ^ w <= rhs < lhs ->
     let '(g, b, s) := lehmer lhs rhs in
     g = Z.gcd lhs rhs /\ 0 <= b < lhs /\ (g = 1 -> (rhs * signed s b) mod lhs = 1 mod lhs)) ->
  externals_ok w (nm2by1 w) (nm3by2 w) nm_finv (gcd_ext_dispatch w lehmer).
Proof. intros HL. apply (externals_nm w _ w2). exact (gcd_ext_dispatch_ok w w2 lehmer HL). Qed.

End Src.

(** non-vacuity: a ring, an operand and a run of the whole chain at w = 64 *)
Example src_chain_example :
  match wl_new 64 (2 ^ 130 + 12) with
  | Ok R => lr_shift R = 61 /\ length (lr_nd R) = 3%nat /\
            rbind (wl_into_ring_ibig 64 (src_div 64) R (- (2 ^ 300) - 7)) (wl_residue 64 R) =
              Ok (to_words 64 3 ((- (2 ^ 300) - 7) mod (2 ^ 130 + 12)))
  | _ => False
  end.
Proof. vm_compute. repeat split; reflexivity. Qed.
