(** C01 (scratch memory): how many words of the bump allocator (memory.rs: every allocate_slice_* takes its
    words from the front of the remaining chunk; a block's allocations are released when the block ends) the
    multipliers consume, as functions of the operand lengths - transcribed allocation by allocation from
    karatsuba.rs, toom_3.rs, helpers.rs, mul/mod.rs, sqr/mod.rs.  The amounts ALLOCATED by the callers
    (memory_requirement_up_to / _exact) are regenerated from the source into DashuGen.MulMemory;
    RingScratchProofs.v proves consumed <= allocated for every length.  Lengths are in Z; recursion is by fuel
    (RingScratchProofs: any fuel above the length gives the same value).  Definitions only. *)
From Dashu Require Import Base.Prelude.
From DashuGen Require Import Params MulMemory.
Open Scope Z_scope.

Section Scratch.
Variable T_simple T_kara CHUNK : Z.

(** karatsuba::add_signed_mul_same_len on n words; [rec] = consumption of mul::add_signed_mul_same_len *)
Definition kara_need (rec : Z -> Z) (n : Z) : Z :=
  let mid := (n + 1) / 2 in
  (* { c_lo: 2 mid ; product of mid words } *)
  Z.max (2 * mid + rec mid)
  (* { c_hi: 2 (n - mid) ; product of n - mid words } *)
  (Z.max (2 * (n - mid) + rec (n - mid))
  (* { a_diff: mid ; b_diff: mid ; product of mid words } *)
         (mid + mid + rec mid)).

(** toom_3::add_signed_mul_same_len on n words *)
Definition toom_need (rec : Z -> Z) (n : Z) : Z :=
  let n3 := (n + 2) / 3 in
  let n3s := n - 2 * n3 in
  let t1 := 2 * n3 + 2 in                      (* t1, lives to the end *)
  let evals := (n3 + 1) + (n3 + 1) in          (* a_eval, b_eval, live to the end *)
  let r1 := rec (n3 + 1) in
  (* V(0): only t1 allocated *)
  Z.max (t1 + rec n3)
  (* V(2) *)
  (Z.max (t1 + evals + r1)
  (* { c_eval: 2 n3 + 2 ; V(inf) on n3_short words } *)
  (Z.max (t1 + evals + (2 * n3 + 2) + rec n3s)
  (* t2: 2 n3 + 2, lives to the end ; { a02, b02: n3 + 1 each ; V(1) } *)
  (Z.max (t1 + evals + (2 * n3 + 2) + (n3 + 1) + (n3 + 1) + r1)
  (* c_eval: 2 (n3 + 1) ; V(-1) *)
         (t1 + evals + (2 * n3 + 2) + 2 * (n3 + 1) + r1)))).

(** mul::add_signed_mul_same_len *)
Fixpoint need_same (fuel : nat) (n : Z) : Z :=
  match fuel with
  | O => 0
  | S f =>
      if n <=? T_simple then 0
      else if n <=? T_kara then kara_need (need_same f) n
      else toom_need (need_same f) n
  end.

(** helpers::add_signed_mul_split_into_chunks after its loop: r words of a are left *)
Definition tail_need (rec : Z -> Z -> Z) (r lb : Z) : Z :=
  if lb <=? r then rec r lb else if 0 <? r then rec lb r else 0.

(** mul::add_signed_mul on operands of la and lb words (the chunk multiplier and the tail use the same
    memory one after the other) *)
Fixpoint need_gen (fuel : nat) (la lb : Z) : Z :=
  match fuel with
  | O => 0
  | S f =>
      let '(la, lb) := if la <? lb then (lb, la) else (la, lb) in
      if lb <=? T_simple then
        if la <=? CHUNK then 0 else tail_need (need_gen f) (la mod CHUNK) lb
      else if lb <=? T_kara then
        Z.max (kara_need (need_same (Z.to_nat lb)) lb) (tail_need (need_gen f) (la mod lb) lb)
      else
        Z.max (toom_need (need_same (Z.to_nat lb)) lb) (tail_need (need_gen f) (la mod lb) lb)
  end.

Definition mul_same_need (n : Z) : Z := need_same (S (Z.to_nat n)) n.
Definition mul_need (la lb : Z) : Z := need_gen (S (Z.to_nat (la + lb))) la lb.

(** sqr::sqr *)
Variable SQR_SIMPLE : Z.
Definition sqr_need (n : Z) : Z := if n <=? SQR_SIMPLE then 0 else mul_same_need n.

(** what the callers allocate, for arbitrary thresholds (DashuGen.MulMemory is this at the source's thresholds) *)
Definition alloc_up_to (n : Z) : Z :=
  if n <=? T_simple then 0 else if n <=? T_kara then karatsuba_memory_words n else toom3_memory_words n.

End Scratch.

(** the hook verif_hooks::mul_kernel_mem(which, ..): kernel `which` on (la, lb) words, la >= lb *)
Definition kernel_need (which la lb : Z) : Z :=
  let ts := mul_threshold_simple in let tk := mul_threshold_karatsuba in let ch := mul_simple_chunk_len in
  let gen := need_gen ts tk ch (S (Z.to_nat (la + lb))) in
  let same := need_same ts tk (Z.to_nat lb) in
  if which =? 0 then mul_need ts tk ch la lb
  else if which =? 1 then (if la <=? ch then 0 else tail_need gen (la mod ch) lb)
  else if which =? 2 then Z.max (kara_need same lb) (tail_need gen (la mod lb) lb)
  else Z.max (toom_need same lb) (tail_need gen (la mod lb) lb).
Definition kernel_alloc (which la lb : Z) : Z :=
  if which =? 0 then mul_memory_words_exact (la + lb) (Z.min la lb)
  else if which =? 1 then 0
  else if which =? 2 then karatsuba_memory_words lb
  else toom3_memory_words lb.
