(** C07: PreparedDword::new (fmt/non_power_two.rs) at word level: the double word is shifted left by
    range_per_word.leading_zeros() into three words (math::shl_dword), divided twice by the normalised
    range_per_word with Normalized2by1Divisor::div_rem_2by1, the quotient shifted left again INSIDE a
    double word (`double_word(q0, q1) << shift` - the comment in the source argues informally that no bit
    is lost) and divided a third time.  Proved for every word size and every radix with 2*r*r <= 2^w
    (all of 2..36 for 16/32/64-bit words): every division meets the precondition of div_rem_2by1 (high
    word below the divisor), the shift loses nothing, and the three parts are
    x mod R, (x / R) mod R, x / R / R - so the word-level function equals the value-level model
    prepared_dword (hence the specification digits). *)
From Dashu Require Import Base.Prelude Base.Words Int.IoSpec Int.IoModel Int.IoDigits Int.IoPrint Int.IoRadix
  Int.DivWordModel Int.DivWordProofs.
Open Scope Z_scope.

Section DwordModel.
Variable w : Z.
Notation B := (Words.B w).

(** div_rem_2by1(dword) of a divisor normalised to [d]: precondition = high word below d *)
Definition div_2by1_checked (d a : Z) : result (Z * Z) :=
  if a <? d * B then Ok (a / d, a mod d) else Panic Undocumented.

Definition prepared_dword_parts (R x : Z) : result (Z * Z * Z) :=
  let s := lzw w 1 R in
  let Rn := R * 2 ^ s in
  let v := x * 2 ^ s in
  let lo := v mod B in let mid := (v / B) mod B in let hi := v / (B * B) in            (* shl_dword(dword, shift) *)
  rbind (div_2by1_checked Rn (mid + B * hi)) (fun '(q1, r) =>
  rbind (div_2by1_checked Rn (lo + B * r)) (fun '(q0, p0s) =>
  let q := ((q0 + B * q1) * 2 ^ s) mod (B * B) in                                       (* double_word(q0, q1) << shift *)
  rbind (div_2by1_checked Rn q) (fun '(p2, p1s) =>
  Ok (p0s / 2 ^ s, p1s / 2 ^ s, p2)))).

(** the digit extraction from the three parts (as in IoModel.prepared_dword) *)
Definition dword_digits (r dpw p0 p1 p2 : Z) : list Z :=
  let a0 := digits_pad_acc (Z.to_nat dpw) r p0 [] in
  let '(_, a1) := dword_mid (Z.to_nat dpw) r p1 p2 a0 in
  word_digits (Z.to_nat w) r p2 0 a1 0.

Definition prepared_dword_words (r x : Z) : result (list Z) :=
  let '(dpw, R) := radix_info w r in
  rbind (prepared_dword_parts R x) (fun '(p0, p1, p2) => Ok (dword_digits r dpw p0 p1 p2)).
End DwordModel.

Section DwordProofs.
Variable w : Z.
Hypothesis w_pos : 0 < w.
Notation B := (Words.B w).
Let HB : 0 < B := B_pos w w_pos.

Lemma div_mul_pow a R P : 0 < R -> 0 < P -> (a * P) / (R * P) = a / R /\ (a * P) mod (R * P) = (a mod R) * P.
Proof.
  intros HR HP. split.
  - apply Z.div_mul_cancel_r; lia.
  - rewrite Z.mul_mod_distr_r by lia. reflexivity.
Qed.

Theorem prepared_dword_parts_correct R x : 0 < R < B -> B <= R * R -> 2 * 2 ^ lzw w 1 R * 2 ^ lzw w 1 R <= B ->
  0 <= x < B * B ->
  prepared_dword_parts w R x = Ok (x mod R, (x / R) mod R, x / R / R).
Proof.
  intros HR HRR Hs Hx. unfold prepared_dword_parts.
  pose proof (lzw_spec w w_pos 1 R ltac:(lia) ltac:(rewrite Z.pow_1_r; lia)) as (Hs0 & Hn1 & Hn2).
  rewrite Z.pow_1_r, Z.mul_1_l in *.
  set (s := lzw w 1 R) in *. set (P := 2 ^ s) in *.
  assert (HP : 0 < P) by (apply Z.pow_pos_nonneg; lia).
  set (Rn := R * P) in *. set (v := x * P).
  assert (Hv0 : 0 <= v) by (unfold v; nia).
  (* first division: the upper two words *)
  assert (Ea : (v / B) mod B + B * (v / (B * B)) = v / B).
  { rewrite <- Z.div_div by lia. pose proof (Z.div_mod (v / B) B ltac:(lia)). lia. }
  rewrite Ea. set (a := v / B).
  assert (Ha : 0 <= a < Rn * B).
  { split; [apply Z.div_pos; lia|]. apply Z.div_lt_upper_bound; [lia|]. unfold v, Rn. nia. }
  unfold div_2by1_checked at 1. destruct (Z.ltb_spec a (Rn * B)); [|lia]. cbn [rbind].
  set (q1 := a / Rn). set (r1 := a mod Rn).
  pose proof (Z.div_mod a Rn ltac:(lia)) as Hdm1. pose proof (Z.mod_pos_bound a Rn ltac:(lia)) as Hr1. fold q1 r1 in Hdm1, Hr1.
  (* second division: remainder and low word *)
  set (lo := v mod B). pose proof (Z.mod_pos_bound v B ltac:(lia)) as Hlo. fold lo in Hlo.
  pose proof (Z.div_mod v B ltac:(lia)) as Hdmv. fold a lo in Hdmv.
  unfold div_2by1_checked at 1. destruct (Z.ltb_spec (lo + B * r1) (Rn * B)); [|nia]. cbn [rbind].
  set (q0 := (lo + B * r1) / Rn). set (p0s := (lo + B * r1) mod Rn).
  pose proof (Z.div_mod (lo + B * r1) Rn ltac:(lia)) as Hdm0. pose proof (Z.mod_pos_bound (lo + B * r1) Rn ltac:(lia)) as Hp0. fold q0 p0s in Hdm0, Hp0.
  assert (Hq0 : 0 <= q0 < B) by (split; [apply Z.div_pos; nia | apply Z.div_lt_upper_bound; nia]).
  assert (Hq1 : 0 <= q1) by (apply Z.div_pos; lia).
  (* together: v = Rn * (q0 + B q1) + p0s *)
  assert (Ev : v = Rn * (q0 + B * q1) + p0s) by nia.
  destruct (div_mul_pow x R P ltac:(lia) HP) as [Ed Em]. fold v Rn in Ed, Em.
  assert (EX1 : q0 + B * q1 = x / R).
  { rewrite <- Ed. apply Z.div_unique with p0s; [left; lia | exact Ev]. }
  assert (Ep0 : p0s = (x mod R) * P).
  { rewrite <- Em. apply Z.mod_unique with (q0 + B * q1); [left; lia | exact Ev]. }
  rewrite EX1. set (X1 := x / R).
  assert (HX1 : 0 <= X1 /\ X1 * R <= x).
  { unfold X1. split; [apply Z.div_pos; lia|]. pose proof (Z.mul_div_le x R ltac:(lia)). lia. }
  (* the shift inside the double word loses nothing *)
  assert (Hfit : X1 * P < B * B).
  { destruct (Z.lt_ge_cases (X1 * P) (B * B)) as [C|C]; [exact C|exfalso].
    assert (R < P) by nia. unfold Rn in *. nia. }
  rewrite (Z.mod_small (X1 * P) (B * B)) by nia.
  (* third division *)
  assert (HX1R : X1 < R * B).
  { unfold X1. apply Z.div_lt_upper_bound; [lia|]. nia. }
  unfold div_2by1_checked. destruct (Z.ltb_spec (X1 * P) (Rn * B)); [|unfold Rn in *; nia]. cbn [rbind].
  destruct (div_mul_pow X1 R P ltac:(lia) HP) as [Ed2 Em2]. fold Rn in Ed2, Em2.
  rewrite Ed2, Em2, Ep0. rewrite !Z.div_mul by lia. reflexivity.
Qed.

(** closed form: every even word size, every radix with 2 r^2 <= 2^w *)
Theorem prepared_dword_words_correct r x : w mod 2 = 0 -> 2 <= r -> 2 * r * r <= B -> B <= x < B * B ->
  prepared_dword_words w r x = Ok (prepared_dword w r x).
Proof.
  intros He Hr Hrr Hx. unfold prepared_dword_words, prepared_dword.
  destruct (radix_info_ok w r w_pos He Hr ltac:(change (Bw w) with B; nia)) as (dpw & R & Hinfo & Hd & HR & Hlt & Hle).
  change (Bw w) with B in *. rewrite Hinfo.
  assert (HRpos : 0 < R) by (rewrite HR; apply Z.pow_pos_nonneg; lia).
  pose proof (R_le_mul r Hr dpw R Hd HR) as HRR.
  pose proof (lzw_spec w w_pos 1 R ltac:(lia) ltac:(rewrite Z.pow_1_r; lia)) as (Hs0 & Hn1 & Hn2).
  rewrite Z.pow_1_r, Z.mul_1_l in *.
  assert (HP : 0 < 2 ^ lzw w 1 R) by (apply Z.pow_pos_nonneg; lia).
  assert (Hsmall : 2 ^ lzw w 1 R < r) by nia.
  rewrite prepared_dword_parts_correct; [reflexivity | lia | lia | nia | lia].
Qed.
End DwordProofs.

Example prepared_dword_words_ex : prepared_dword_words 64 10 (2 ^ 127 + 12345) = Ok (digits_spec 10 (2 ^ 127 + 12345)).
Proof. vm_compute. reflexivity. Qed.
Example prepared_dword_words_16 : prepared_dword_words 16 36 (2 ^ 32 - 1) = Ok (digits_spec 36 (2 ^ 32 - 1)).
Proof. vm_compute. reflexivity. Qed.
