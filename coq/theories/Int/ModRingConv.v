(** C13 (round 3) - word-level models of the CONVERSIONS of the multi-word ring and of the buffer handling of
    inv_large (definitions only; proofs in ModRingConvProofs.v):
      div_const.rs  ConstLargeDivisor::new (div::normalize), rem_large, rem_repr, divisor
      convert.rs    ReducedLarge::from_ubig, IntoRing for UBig / IBig on the Large arm (from_large, Neg)
      div.rs        inv_large: unshift modulus and value, locate_top_word_plus_one, the 0 / 1 / 2 / n word dispatch,
                    the `g_len == 1 && raw[0] == 1` test, zero fill, shift back, is_valid, negate
      div_const.rs  ConstSingleDivisor::rem_large / ConstDoubleDivisor::rem_large on the WORDS of the operand
                    (div::fast_rem_by_normalized_word / _dword = C02's rem_word_loop / rem_dword_loop)
    A UBig operand is its value; its TypedRepr is Small(dword) below B^2 and Large(words) with the canonical word
    list [words_of] otherwise (C17's representation invariant).  Debug assertions are [Panic Undocumented]. *)
From Dashu Require Import Base.Prelude Base.Words Int.DivWordModel Int.ModRingSpec Int.ModRingPowModel Int.ModRingModel Int.ModRingWords.
Open Scope Z_scope.

Section WordLevelConv.
Variable w : Z.
Local Notation B := (Words.B w).
Local Notation value := (Words.value w).

(** the division kernel div::div_rem_in_place (C02) *)
Variable divk : list Z -> list Z -> result (list Z * bool).

(** ConstLargeDivisor::new: `shift = words.last().leading_zeros(); debug_assert_zero!(shl_in_place(words, shift))`
    (fast_div_top is only an input of the division kernel) *)
Definition wl_new (m : Z) : result lring :=
  let ws := words_of w m in
  let shift := lzw w 1 (highest_word w ws) in
  let '(ndw, carry) := shl_in_place w ws shift in
  if carry =? 0 then Ok (mklring ndw shift) else Panic Undocumented.

(** ConstLargeDivisor::rem_large: shift left, `push_resizing(carry)` (a zero carry is NOT pushed), and a full
    division only when the buffer is at least as long as the modulus; `truncate(modulus.len())` *)
Definition wl_rem_large (R : lring) (words : list Z) : result (list Z) :=
  let '(ws1, carry) := shl_in_place w words (lr_shift R) in
  let ws2 := if carry =? 0 then ws1 else ws1 ++ [carry] in
  let n := length (lr_nd R) in
  if (n <=? length ws2)%nat then rbind (divk ws2 (lr_nd R)) (fun '(res, _) => Ok (firstn n res))
  else Ok ws2.

(** ConstLargeDivisor::rem_repr: a Small operand is shifted into three words without any division *)
Definition wl_rem_repr (R : lring) (x : Z) : result (list Z) :=
  if x <? B * B then let '(lo, mid, hi) := ModRingModel.shl_dword w x (lr_shift R) in Ok [lo; mid; hi]
  else wl_rem_large R (words_of w x).

(** ReducedLarge::from_ubig: `buffer.push_zeros(modulus_len - buffer.len())` (usize subtraction) *)
Definition wl_from_ubig (R : lring) (x : Z) : result (list Z) :=
  rbind (wl_rem_repr R x) (fun buf =>
    let n := length (lr_nd R) in
    if (length buf <=? n)%nat then Ok (buf ++ repeat 0 (n - length buf)) else Panic Undocumented).

(** IntoRing<ConstDivisor> for UBig on the Large arm: from_ubig, then Reduced::from_large *)
Definition wl_into_ring_ubig (R : lring) (x : Z) : result (list Z) := rbind (wl_from_ubig R x) (wl_from_large R).

(** IntoRing<ConstDivisor> for IBig: the magnitude, then `-modulo` for a negative sign *)
Definition wl_into_ring_ibig (R : lring) (a : Z) : result (list Z) :=
  if 0 <=? a then wl_into_ring_ubig R a else rbind (wl_into_ring_ubig R (- a)) (wl_neg w R).

(** Reducer::transform on the Large arm: Repr::from_buffer(rem_repr(..)) - the value of the buffer *)
Definition wl_transform (R : lring) (x : Z) : result Z := rbind (wl_rem_repr R x) (fun buf => Ok (value buf)).

(** ---------------- div.rs inv_large ---------------- *)
(** gcd::gcd_ext_word / gcd_ext_dword / gcd_ext_in_place by their value: (g, |b|, sign of b) *)
Variable fgcd : Z -> Z -> Z * Z * sign.

Definition wl_inv_large (R : lring) (raw : list Z) : result (option (list Z)) :=
  let n := length (lr_nd R) in
  let '(modulus, c1) := shr_in_place w (lr_nd R) (lr_shift R) in
  if negb (c1 =? 0) then Panic Undocumented else
  let '(raw1, c2) := shr_in_place w raw (lr_shift R) in
  if negb (c2 =? 0) then Panic Undocumented else
  let raw_len := top_plus_one raw1 in
  if Nat.eqb raw_len 0 then Ok None else
  let '(g, b, b_sign) := fgcd (value modulus) (value (firstn raw_len raw1)) in
  let is_g_one :=
    if (raw_len <=? 2)%nat then g =? 1                       (* gcd_ext_word / gcd_ext_dword return g in a register *)
    else let gw := to_words w raw_len g in                   (* gcd_ext_in_place leaves g in raw[..g_len] *)
         Nat.eqb (top_plus_one gw) 1 && (hd 0 gw =? 1) in    (* g_len == 1 && raw[0] == 1 *)
  if negb is_g_one then Ok None else
  let bw := to_words w n b in                                (* |b| in the modulus buffer, zero filled above b_len *)
  let '(inv, _) := shl_in_place w bw (lr_shift R) in         (* the carry of this shift is not looked at *)
  if wl_is_valid R inv then
    match b_sign with
    | Negative => rbind (wl_negate_in_place w R inv) (fun v => Ok (Some v))
    | Positive => Ok (Some inv)
    end
  else Panic Undocumented.

(** Reduced::inv on the Large arm: `.map(|v| Reduced::from_large(v, ring))` *)
Definition wl_inv (R : lring) (raw : list Z) : result (option (list Z)) :=
  rbind (wl_inv_large R raw) (fun o =>
    match o with None => Ok None | Some v => rbind (wl_from_large R v) (fun v' => Ok (Some v')) end).

End WordLevelConv.

(** ---------------- single / double word rings: a multi-word operand ---------------- *)
Section SmallRingsLargeOperand.
Variable w : Z.
Local Notation B := (Words.B w).
Variable f1 : Z -> Z -> Z * Z.          (* div_rem_1by1 *)
Variable f2 : Z -> Z -> Z * Z.          (* div_rem_2by1 *)
Variable f22 : Z -> Z -> Z * Z.         (* div_rem_2by2 *)
Variable f3 : Z -> Z -> Z -> Z * Z.     (* div_rem_3by2 *)
Variable f4 : Z -> Z -> Z -> Z * Z.     (* div_rem_4by2 *)

(** ConstSingleDivisor::rem_large on the word list *)
Definition ws_rem_large (r : ring) (words : list Z) : result Z :=
  let rem := rem_word_loop w f1 f2 (nd r) words in
  if r_shift r =? 0 then Ok rem else call_2by1 w f2 (nd r) (rem * 2 ^ r_shift r).

(** ConstDoubleDivisor::rem_large on the word list *)
Definition wd_rem_large (r : ring) (words : list Z) : result Z :=
  let rem := rem_dword_loop w f22 f3 f4 (nd r) words in
  if r_shift r =? 0 then Ok rem
  else let '(r0, r1, r2) := ModRingModel.shl_dword w rem (r_shift r) in call_3by2 f3 (nd r) r0 (r1 + B * r2).

(** ReducedWord::from_ubig / ReducedDword::from_ubig with the RefLarge arm on words *)
Definition ws_from_ubig (r : ring) (x : Z) : result Z :=
  if x <? B then s_rem_word w f2 r x else if x <? B * B then s_rem_dword w f2 r x else ws_rem_large r (words_of w x).
Definition wd_from_ubig (r : ring) (x : Z) : result Z :=
  if x <? B * B then d_rem_dword w f3 r x else wd_rem_large r (words_of w x).

End SmallRingsLargeOperand.
