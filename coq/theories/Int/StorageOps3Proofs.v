(** C17 (round 4) - proofs about the storage machine of StorageOps3.v, part 1: Box<[Word]> clone / clone_from, the modular
    rings (ConstDivisor::new / value, Reduced from_ubig / one / clone / clone_from / residue / pow / drop, Div and Rem by a
    ConstDivisor), the signed bit operations and shifts of IBig.  Every routine keeps the representation invariant, fails
    no guard, frees every block exactly once with the size it was allocated with - also on the documented panic exits.
    For every word size w > 0 and MAX_CAPACITY >= 8. *)
From Dashu Require Import Base.Prelude Base.Words Int.StorageModel Int.StorageProofs Int.StorageArith Int.StorageHistory
  Int.StorageOps2 Int.StorageOps2Proofs Int.StorageOps3.
From DashuGen Require Import StorageGen StorageGen4.
From Coq Require Import Permutation.
Open Scope Z_scope.

Section Ops3Proofs.
Variable w : Z.
Variable M : Z.
Hypothesis w_pos : 0 < w.
Hypothesis M_big : 8 <= M.

Notation ReprInv := (ReprInv M).
Notation BufOK := (BufOK M).
Notation RQ := (RQ M).
Notation OQ := (OQ M).
Notation TargInv := (TargInv M).

Ltac lens := cbn [setws bws bcap bptr];
  repeat (rewrite len_app || rewrite len_cons || (rewrite len_repeat by lia) || (rewrite (len_tow' w) by lia)); lnil.

(* ------------------------------------------------------------------ Box<[Word]> *)
Definition cdiv_blks (c : cdiv) : list (Z * Z) := match c with CSmall _ => [] | CLarge bx _ => box_blks bx end.
Definition elem_blks (e : relem) : list (Z * Z) := match e with ESmall _ => [] | ELarge bx => box_blks bx end.
(** a large ring has a modulus of at least 3 words that once was a Buffer *)
Definition CdivInv (c : cdiv) : Prop := match c with CSmall _ => True | CLarge bx _ => 3 <= len (snd bx) <= M end.
(** an element of a small ring has no box *)
Definition econs (c : cdiv) (e : relem) : Prop := match e, c with ELarge _, CSmall _ => False | _, _ => True end.

Lemma box_blks_len (p : option Z) (a b : list Z) : len a = len b -> box_blks (p, a) = box_blks (p, b).
Proof. intros E. unfold box_blks. cbn [fst snd]. rewrite E. reflexivity. Qed.

Lemma wp_box_clone bx F m (Q : box -> mem -> Prop) :
  Own F m -> (forall nb m', Own (box_blks nb ++ F) m' -> snd nb = snd bx -> Q nb m') -> safe (box_clone bx) m Q.
Proof.
  intros HO HQ. unfold box_clone. destruct (Z.eqb_spec (len (snd bx)) 0) as [E|E].
  - apply safe_ret. apply HQ; [exact HO|]. cbn [snd]. destruct (snd bx); [reflexivity|]. rewrite len_cons in E. pose proof (len_nonneg l). lia.
  - apply safe_bind. eapply wp_raw_alloc; [exact HO|]. intros p m1 HO1. apply safe_ret. apply HQ; [exact HO1 | reflexivity].
Qed.

Lemma wp_box_clone_from self src F m (Q : box -> mem -> Prop) :
  Own (box_blks self ++ F) m -> (forall nb m', Own (box_blks nb ++ F) m' -> snd nb = snd src -> Q nb m') ->
  safe (box_clone_from self src) m Q.
Proof.
  intros HO HQ. unfold box_clone_from. destruct (Z.eqb_spec (len (snd self)) (len (snd src))) as [E|E].
  - apply safe_ret. apply HQ; [|reflexivity]. destruct self as [p ws]. cbn [fst snd] in *. rewrite (box_blks_len p (snd src) ws) by lia. exact HO.
  - apply safe_bind. eapply wp_box_clone; [exact HO|]. intros nb m1 HO1 E1.
    apply safe_bind. eapply wp_drop_box; [apply Own_swap_app'; exact HO1|]. intros m2 HO2. apply safe_ret. apply HQ; assumption.
Qed.

Lemma wp_ensure_capacity_exact b n F m (Q : buffer -> mem -> Prop) :
  Own (bblk b :: F) m -> len (bws b) <= n -> len (bws b) <= bcap b ->
  (forall b' m', Own (bblk b' :: F) m' -> bws b' = bws b -> (2 < n -> n <= bcap b') -> len (bws b') <= bcap b' -> Q b' m') ->
  safe (ensure_capacity_exact b n) m Q.
Proof.
  intros HO Hn HL HQ. unfold ensure_capacity_exact, gen_ensure_capacity_exact_test.
  destruct (Z.gtb_spec n (bcap b)) as [H1|H1]; destruct (Z.gtb_spec n 2) as [H2|H2]; cbn [andb];
    try (apply safe_ret; apply HQ; auto; lia).
  unfold reallocate_raw. apply safe_bind. apply safe_guard; [apply andb_true_intro; split; [apply Z.ltb_lt | apply Z.leb_le]; lia|].
  apply safe_bind. eapply wp_deallocate_raw; [exact HO|]. intros m1 HO1.
  apply safe_bind. eapply wp_raw_alloc; [exact HO1|]. intros p m2 HO2. apply safe_ret. apply HQ; cbn [bws bcap]; auto; lia.
Qed.

Lemma wp_allocate_exact n F m (Q : buffer -> mem -> Prop) :
  Own F m -> 0 < n -> (forall b m', Own (bblk b :: F) m' -> bws b = [] -> bcap b = n -> Q b m') -> safe (allocate_exact M n) m Q.
Proof.
  intros HO Hn HQ. unfold allocate_exact. destruct (Z.gtb_spec n M) as [H|H]; [reflexivity|].
  apply safe_bind. eapply wp_allocate_raw; [exact HO | lia |]. intros p m1 HO1. apply safe_ret. apply HQ; auto.
Qed.

(* ------------------------------------------------------------------ ConstDivisor *)
Lemma wp_ring_new x F m (Q : option cdiv -> mem -> Prop) :
  Own (tblks x ++ F) m -> TargInv x -> is_ref x = false ->
  (forall oc m', match oc with None => Own F m' | Some c => Own (cdiv_blks c ++ F) m' /\ CdivInv c end -> Q oc m') ->
  safe (ring_new w x) m Q.
Proof.
  intros HO Hx Hr HQ. destruct x as [d|b|d|ws]; cbn [ring_new tblks app is_ref TargInv] in *; try discriminate.
  - apply safe_ret. apply HQ. destruct (d =? 0); cbn [cdiv_blks CdivInv app]; auto.
  - destruct Hx as [[HB1 HB2] H3]. cbv zeta. pose proof (len_nonneg (bws b)) as L0.
    apply safe_bind. eapply wp_into_boxed_slice; [exact HO|]. intros bx m1 HO1 E1.
    apply safe_ret. apply HQ. cbn [cdiv_blks CdivInv]. split; [exact HO1|]. rewrite E1. lens. lia.
  - apply safe_ret. apply HQ. destruct (d =? 0); cbn [cdiv_blks CdivInv app]; auto.
Qed.

Lemma wp_ring_drop c F m (Q : unit -> mem -> Prop) :
  Own (cdiv_blks c ++ F) m -> (forall m', Own F m' -> Q tt m') -> safe (ring_drop c) m Q.
Proof.
  intros HO HQ. destruct c as [d|bx sh]; cbn [ring_drop cdiv_blks app] in *.
  - apply safe_ret. apply HQ. exact HO.
  - eapply wp_drop_box; eauto.
Qed.

Lemma wp_words_value ws v F m Q :
  Own F m -> RQ F Q ->
  safe (nb <- buffer_from M ws ;; from_buffer w M (setws nb (tow w (len (bws nb)) v))) m Q.
Proof.
  intros HO HQ. apply safe_bind. eapply (wp_bfrom M M_big); [exact HO|]. intros nb m1 HO1 E1 HB1.
  eapply (wp_fb_any w M M_big nb); [exact HO1 | exact HB1 | reflexivity | reflexivity | | exact HQ].
  pose proof (len_nonneg (bws nb)). lens. destruct HB1. lia.
Qed.

Lemma wp_ring_value c F m Q : Own F m -> RQ F Q -> safe (ring_value w M c) m Q.
Proof.
  intros HO HQ. destruct c as [d|bx sh]; cbn [ring_value].
  - apply safe_ret. apply HQ; [exact HO | apply ReprInv_from_dword].
  - eapply (wp_words_value _ _ F); assumption.
Qed.

(* ------------------------------------------------------------------ Reduced *)
Lemma wp_elem_drop e F m (Q : unit -> mem -> Prop) :
  Own (elem_blks e ++ F) m -> (forall m', Own F m' -> Q tt m') -> safe (elem_drop e) m Q.
Proof.
  intros HO HQ. destruct e as [v|bx]; cbn [elem_drop elem_blks app] in *.
  - apply safe_ret. apply HQ. exact HO.
  - eapply wp_drop_box; eauto.
Qed.

Lemma wp_elem_clone c e F m (Q : relem -> mem -> Prop) :
  Own F m -> econs c e -> (forall e' m', Own (elem_blks e' ++ F) m' -> econs c e' -> Q e' m') -> safe (elem_clone e) m Q.
Proof.
  intros HO Hc HQ. destruct e as [v|bx]; cbn [elem_clone].
  - apply safe_ret. apply HQ; [exact HO | exact I].
  - apply safe_bind. eapply wp_box_clone; [exact HO|]. intros nb m1 HO1 _. apply safe_ret. apply HQ; [exact HO1 | exact Hc].
Qed.

(** clone_from between elements of any two rings: the destination ends up as an element of the source's ring *)
Lemma wp_elem_clone_from c self src F m (Q : relem -> mem -> Prop) :
  Own (elem_blks self ++ F) m -> econs c src ->
  (forall e' m', Own (elem_blks e' ++ F) m' -> econs c e' -> Q e' m') -> safe (elem_clone_from self src) m Q.
Proof.
  intros HO Hc HQ. unfold elem_clone_from.
  assert (safe (n <- elem_clone src ;; elem_drop self ;;; ret n) m Q) as Hgen.
  { apply safe_bind. eapply (wp_elem_clone c); [exact HO | exact Hc |]. intros n m1 HO1 Hn.
    apply safe_bind. eapply wp_elem_drop; [apply Own_swap_app'; exact HO1|]. intros m2 HO2. apply safe_ret. apply HQ; assumption. }
  destruct self as [v|a]; [exact Hgen|]. destruct src as [v|b]; [exact Hgen|].
  cbn [elem_blks] in HO. apply safe_bind. eapply wp_box_clone_from; [exact HO|]. intros nb m1 HO1 _.
  apply safe_ret. apply HQ; [exact HO1 | exact Hc].
Qed.

Lemma elem_set_blks e c res : elem_blks (elem_set w e c res) = match c with CLarge _ _ => elem_blks e | CSmall _ => [] end.
Proof.
  destruct e as [v|bx]; destruct c as [d|b sh]; cbn [elem_set elem_blks]; try reflexivity.
  destruct bx as [p ws]. cbn [fst snd]. apply box_blks_len. pose proof (len_nonneg ws). lens. reflexivity.
Qed.

Lemma elem_set_ok e c res F m : econs c e -> Own (elem_blks e ++ F) m ->
  Own (elem_blks (elem_set w e c res) ++ F) m /\ econs c (elem_set w e c res).
Proof.
  intros Hc HO. rewrite elem_set_blks. destruct e as [v|bx]; destruct c as [d|b sh]; cbn [econs elem_set elem_blks app] in *; try tauto.
Qed.

Lemma wp_cl_rem_large n nm sh words F m (Q : buffer -> mem -> Prop) :
  Own (bblk words :: F) m -> BufOK words -> 3 <= n ->
  (forall b m', Own (bblk b :: F) m' -> len (bws b) <= n -> len (bws b) <= bcap b -> Q b m') ->
  safe (cl_rem_large w M n nm sh words) m Q.
Proof.
  intros HO HB Hn HQ. unfold cl_rem_large. cbv zeta. pose proof (len_nonneg (bws words)) as L0.
  apply safe_bind. eapply (wp_presize M M_big (setws words _) _ F); [exact HO | apply BufOK_setws; [exact HB | lens; destruct HB; lia] |].
  intros w1 m1 HO1 [HB1 HB2].
  unfold gen4_rem_large_test, gen4_rem_large_div_rhs, gen4_rem_large_div_lhs, gen4_rem_large_trunc.
  destruct (Z.geb_spec (len (bws w1)) n) as [Hge|Hlt].
  - apply safe_bind. apply safe_guard; [apply andb_true_intro; split; apply Z.leb_le; lia|].
    apply safe_bind. apply wp_truncate; [lia|]. apply safe_ret.
    pose proof (len_firstn_le (bws w1) (Z.to_nat n)) as L1. pose proof (len_nonneg (firstn (Z.to_nat n) (bws w1))) as L2.
    apply HQ; [exact HO1 | |]; lens; [rewrite len_firstn by lia; lia | lia].
  - apply safe_ret. apply HQ; [exact HO1 | lia | lia].
Qed.

Theorem wp_reduce c x res F m (Q : relem -> mem -> Prop) :
  Own (tblks x ++ F) m -> CdivInv c -> TargInv x -> is_ref x = false ->
  (forall e m', Own (elem_blks e ++ F) m' -> econs c e -> Q e m') -> safe (reduce w M c x res) m Q.
Proof.
  intros HO Hc Hx Hr HQ. destruct c as [d|bx sh]; cbn [reduce].
  - apply safe_bind. eapply wp_release; [exact HO|]. intros m1 HO1. apply safe_ret. apply HQ; [exact HO1 | exact I].
  - cbn [CdivInv] in Hc. cbv zeta. set (n := len (snd bx)) in *.
    apply safe_bind.
    apply (safe_mono _ _ (fun b m' => Own (bblk b :: F) m' /\ len (bws b) <= n /\ len (bws b) <= bcap b)).
    + destruct x as [dw|words|dw|ws]; cbn [tblks app is_ref TargInv] in *; try discriminate.
      1,3: (cbv zeta; unfold gen4_rem_repr_request; apply safe_bind; (eapply wp_allocate_exact; [exact HO | lia |]); intros b0 m1 HO1 E0 C0;
            apply safe_bind; (apply wp_push; [rewrite E0, C0; lnil; lia|]); apply safe_bind; (apply wp_push; [lens; rewrite E0, C0; lens; lia|]);
            (apply wp_push; [lens; rewrite E0, C0; lens; lia|]); split; [exact HO1|]; lens; rewrite E0, C0; lens; lia).
      destruct Hx as [HB H3]. eapply wp_cl_rem_large; [exact HO | exact HB | lia |]. intros b m1 H1 H2 H4. auto.
    + intros buffer m1 (HO1 & HL1 & HL2). unfold gen4_from_ubig_capacity, gen4_from_ubig_zeros.
      apply safe_bind. eapply wp_ensure_capacity_exact; [exact HO1 | exact HL1 | exact HL2 |]. intros b1 m2 HO2 E2 HC2 HL3.
      apply safe_bind. apply safe_guard; [apply Z.leb_le; rewrite E2; lia|].
      apply safe_bind. apply wp_push_repeat; [rewrite E2; specialize (HC2 ltac:(lia)); lia|].
      apply safe_bind. eapply wp_into_boxed_slice; [exact HO2|]. intros bx' m3 HO3 E3.
      apply safe_ret. apply HQ; [|exact I]. cbn [elem_blks]. destruct bx' as [p ws']. cbn [fst snd] in *.
      rewrite (box_blks_len p _ ws'); [exact HO3|]. pose proof (len_nonneg ws'). lens. reflexivity.
Qed.

Lemma wp_elem_one c F m (Q : relem -> mem -> Prop) :
  Own F m -> CdivInv c -> (forall e m', Own (elem_blks e ++ F) m' -> econs c e -> Q e m') -> safe (elem_one M c) m Q.
Proof.
  intros HO Hc HQ. destruct c as [d|bx sh]; cbn [elem_one CdivInv] in *.
  - apply safe_ret. apply HQ; [exact HO | exact I].
  - cbv zeta. unfold gen4_one_request, gen4_one_zeros.
    apply safe_bind. eapply wp_allocate_exact; [exact HO | lia |]. intros b0 m1 HO1 E0 C0.
    apply safe_bind. apply wp_push; [rewrite E0, C0; lnil; lia|].
    apply safe_bind. apply safe_guard; [apply Z.leb_le; lia|].
    apply safe_bind. apply wp_push_repeat; [lens; rewrite E0, C0; lens; lia|].
    apply safe_bind. eapply wp_into_boxed_slice; [exact HO1|]. intros bx' m2 HO2 _.
    apply safe_ret. apply HQ; [exact HO2 | exact I].
Qed.

Lemma wp_residue c e F m Q : Own F m -> econs c e -> RQ F Q -> safe (residue w M c e) m Q.
Proof.
  intros HO Hc HQ. destruct e as [v|bx]; destruct c as [d|b sh]; cbn [residue econs] in *; try contradiction.
  - apply safe_ret. apply HQ; [exact HO | apply ReprInv_from_dword].
  - apply safe_ret. apply HQ; [exact HO | apply ReprInv_from_dword].
  - eapply (wp_words_value _ _ F); assumption.
Qed.

Lemma wp_elem_pow c e ex res F m (Q : relem -> mem -> Prop) :
  Own F m -> CdivInv c -> econs c e -> (forall e' m', Own (elem_blks e' ++ F) m' -> econs c e' -> Q e' m') ->
  safe (elem_pow w M c e ex res) m Q.
Proof.
  intros HO Hc He HQ. destruct e as [v|bx]; cbn [elem_pow].
  - apply safe_ret. apply HQ; [exact HO | exact I].
  - destruct (ex =? 0); [eapply wp_elem_one; eauto|].
    apply safe_bind. eapply (wp_elem_clone c); [exact HO | exact He |]. intros r m1 HO1 Hr.
    apply safe_ret. destruct (elem_set_ok r c res F m1 Hr HO1). apply HQ; assumption.
Qed.

(* ------------------------------------------------------------------ Div / Rem by a ConstDivisor *)
Theorem wp_rem_const c x F m Q :
  Own (tblks x ++ F) m -> CdivInv c -> TargInv x -> is_ref x = false -> RQ F Q -> safe (rem_const w M c x) m Q.
Proof.
  intros HO Hc Hx Hr HQ. unfold rem_const. cbv zeta.
  destruct c as [d|bx sh]; destruct x as [dw|lhs|dw|ws]; cbn [tblks app is_ref TargInv CdivInv] in *; try discriminate.
  1,3,4,6: (apply safe_ret; apply HQ; [exact HO | apply ReprInv_from_dword]).
  - apply safe_bind. eapply wp_drop; [exact HO|]. intros m1 HO1. apply safe_ret. apply HQ; [exact HO1 | apply ReprInv_from_dword].
  - destruct Hx as [HB H3]. destruct (Z.geb_spec (len (bws lhs)) (len (snd bx))) as [Hge|Hlt].
    + apply safe_bind. apply safe_guard; [apply Z.leb_le; lia|].
      apply safe_bind. apply wp_truncate; [lia|].
      eapply (wp_fb_any w M M_big lhs); [exact HO | exact HB | reflexivity | reflexivity | | exact HQ].
      pose proof (len_firstn_le (bws lhs) (Z.to_nat (len (snd bx)))). pose proof (len_nonneg (firstn (Z.to_nat (len (snd bx))) (bws lhs))).
      lens. destruct HB. lia.
    + eapply (wp_fb w M M_big); eauto.
Qed.

Theorem wp_div_const c x F m Q :
  Own (tblks x ++ F) m -> CdivInv c -> TargInv x -> is_ref x = false -> RQ F Q -> safe (div_const w M c x) m Q.
Proof.
  intros HO Hc Hx Hr HQ. unfold div_const. cbv zeta.
  destruct c as [d|bx sh]; destruct x as [dw|buffer|dw|ws]; cbn [tblks app is_ref TargInv CdivInv] in *; try discriminate.
  1,3: (apply safe_ret; apply HQ; [exact HO | apply ReprInv_from_dword]).
  2,4: (apply safe_ret; apply HQ; [exact HO | apply ReprInv_zero']).
  - destruct Hx as [HB H3]. eapply (wp_fb_any w M M_big buffer); [exact HO | exact HB | reflexivity | reflexivity | | exact HQ].
    pose proof (len_nonneg (bws buffer)). lens. destruct HB. lia.
  - destruct Hx as [HB H3]. destruct (Z.ltb_spec (len (bws buffer)) (len (snd bx))) as [Hlt|Hge].
    + apply safe_bind. eapply wp_drop; [exact HO|]. intros m1 HO1. apply safe_ret. apply HQ; [exact HO1 | apply ReprInv_zero'].
    + apply safe_bind. apply safe_guard; [apply Z.leb_le; lia|].
      apply safe_bind. apply wp_erase_front; [lia|].
      apply safe_bind. eapply (wp_presize M M_big (setws (setws buffer _) _) _ F); [exact HO | |].
      * apply BufOK_setws; [apply BufOK_setws; [exact HB|]|]; lens; destruct HB; [|lia].
        pose proof (len_skipn_le (bws buffer) (Z.to_nat (len (snd bx)))). lia.
      * intros b2 m1 HO1 HB1. eapply (wp_fb w M M_big); eauto.
Qed.

(* ------------------------------------------------------------------ one ring step *)
Lemma Own_rot3 (A B C F : list (Z * Z)) m : Own (A ++ B ++ C ++ F) m -> Own (C ++ A ++ B ++ F) m.
Proof.
  apply Own_perm. rewrite !app_assoc. apply Permutation_app_tail. rewrite <- (app_assoc C A B). apply Permutation_app_comm.
Qed.

Theorem wp_ring_step k sx x sy y md ex F m Q :
  Own (tblks x ++ tblks y ++ tblks md ++ F) m -> TargInv x -> TargInv y -> TargInv md ->
  is_ref x = false -> is_ref y = false -> is_ref md = false -> OQ F Q ->
  safe (ring_step w M k sx x sy y md ex) m Q.
Proof.
  intros HO Hx Hy Hm Rx Ry Rm HQ. unfold ring_step. cbv zeta.
  apply safe_bind. eapply (wp_ring_new md (tblks x ++ tblks y ++ F)); [apply Own_rot3; exact HO | exact Hm | exact Rm |].
  intros [c|] m1 H1.
  2:{ apply safe_bind. eapply wp_release; [exact H1|]. intros m2 HO2.
      apply safe_bind. eapply wp_release; [exact HO2|]. intros m3 HO3. apply safe_ret. apply HQ. exact HO3. }
  destruct H1 as [HO1 Hc].
  set (C := cdiv_blks c) in *.
  apply safe_bind.
  apply (safe_mono _ _ (fun r m' => Own (rblks r ++ C ++ F) m' /\ ReprInv r)).
  2:{ intros r m2 [HO2 HR]. apply safe_bind. eapply wp_ring_drop; [apply Own_swap_app'; exact HO2|]. intros m3 HO3.
      apply safe_ret. apply HQ. split; assumption. }
  assert (forall (A B : list (Z * Z)) m', Own (C ++ A ++ B ++ F) m' -> Own (A ++ B ++ C ++ F) m') as Hrot.
  { intros A B m'. apply Own_perm. rewrite !app_assoc. apply Permutation_app_tail. rewrite <- (app_assoc C A B). apply Permutation_app_comm. }
  pose proof (Hrot _ _ _ HO1) as HO1'.
  destruct k.
  - (* RNew *)
    apply safe_bind. eapply wp_release; [exact HO1'|]. intros m2 HO2.
    apply safe_bind. eapply wp_release; [exact HO2|]. intros m3 HO3.
    eapply wp_ring_value; [exact HO3|]. intros r m4 H4 H5. split; assumption.
  - (* RRes *)
    apply safe_bind. eapply wp_reduce; [exact HO1' | exact Hc | exact Hx | exact Rx |]. intros e m2 HO2 He.
    apply safe_bind. eapply wp_release; [apply Own_swap_app'; exact HO2|]. intros m3 HO3.
    apply safe_bind. eapply wp_residue; [exact HO3 | exact He |]. intros r m4 HO4 HR.
    apply safe_bind. eapply wp_elem_drop; [apply Own_swap_app'; exact HO4|]. intros m5 HO5.
    apply safe_ret. split; assumption.
  - (* RMul *)
    apply safe_bind. eapply wp_reduce; [exact HO1' | exact Hc | exact Hx | exact Rx |]. intros e1 m2 HO2 He1.
    apply safe_bind. eapply wp_reduce; [apply Own_swap_app'; exact HO2 | exact Hc | exact Hy | exact Ry |]. intros e2 m3 HO3 He2.
    apply safe_bind. eapply (wp_elem_clone c); [exact HO3 | exact He1 |]. intros z m4 HO4 Hz.
    destruct (elem_set_ok z c (emod (signed sx (tvalue w x) * signed sy (tvalue w y)) (ring_modulus w c)) _ m4 Hz HO4) as [HO4' Hz'].
    apply safe_bind. eapply (wp_elem_clone c); [exact HO4' | exact Hz' |]. intros z2 m5 HO5 Hz2.
    match goal with |- safe (elem_drop _ ;;; _) _ _ => idtac end.
    set (zz := elem_set w z c _) in *.
    set (z2' := elem_set w z2 c _).
    destruct (elem_set_ok z2 c (emod (signed sx (tvalue w x) * signed sy (tvalue w y) + signed sx (tvalue w x)) (ring_modulus w c)) _ m5 Hz2 HO5) as [HO5' Hz2'].
    fold z2' in HO5', Hz2'.
    apply safe_bind. eapply wp_elem_drop; [apply Own_swap_app'; exact HO5'|]. intros m6 HO6.
    set (t := elem_set w z2' c _).
    destruct (elem_set_ok z2' c (emod (signed sx (tvalue w x) * signed sy (tvalue w y) + signed sx (tvalue w x) - signed sy (tvalue w y)) (ring_modulus w c)) _ m6 Hz2' HO6) as [HO6' Ht].
    fold t in HO6', Ht.
    apply safe_bind. eapply wp_elem_drop; [apply Own_swap_app'; exact HO6'|]. intros m7 HO7.
    apply safe_bind. eapply wp_residue; [exact HO7 | exact Ht |]. intros r m8 HO8 HR.
    apply safe_bind. eapply wp_elem_drop; [apply Own_swap_app'; exact HO8|]. intros m9 HO9.
    apply safe_bind. eapply wp_elem_drop; [apply Own_swap_app'; exact HO9|]. intros m10 HO10.
    apply safe_ret. split; assumption.
  - (* RCloneFrom *)
    apply safe_bind. eapply wp_reduce; [exact HO1' | exact Hc | exact Hx | exact Rx |]. intros e1 m2 HO2 He1.
    apply safe_bind. eapply (wp_ring_new y (elem_blks e1 ++ C ++ F)); [apply Own_swap_app'; exact HO2 | exact Hy | exact Ry |].
    intros [c2|] m3 H3.
    + destruct H3 as [HO3 Hc2].
      apply safe_bind. eapply (wp_reduce c2 (TSmall 0)); [cbn [tblks app]; exact HO3 | exact Hc2 | exact I | reflexivity |]. intros e2 m4 HO4 _.
      apply safe_bind. eapply (wp_elem_clone_from c); [exact HO4 | exact He1 |]. intros e3 m5 HO5 He3.
      apply safe_bind. eapply wp_residue; [exact HO5 | exact He3 |]. intros r m6 HO6 HR.
      apply safe_bind. eapply wp_elem_drop; [apply Own_swap_app'; exact HO6|]. intros m7 HO7.
      apply safe_bind. eapply wp_ring_drop; [apply Own_swap_app'; exact HO7|]. intros m8 HO8.
      apply safe_bind. eapply wp_elem_drop; [apply Own_swap_app'; exact HO8|]. intros m9 HO9.
      apply safe_ret. split; assumption.
    + apply safe_bind. eapply wp_residue; [exact H3 | exact He1 |]. intros r m4 HO4 HR.
      apply safe_bind. eapply wp_elem_drop; [apply Own_swap_app'; exact HO4|]. intros m5 HO5.
      apply safe_ret. split; assumption.
  - (* RRem *)
    apply safe_bind. eapply wp_release; [apply Own_swap_app'; exact HO1'|]. intros m2 HO2.
    apply safe_bind. eapply wp_rem_const; [exact HO2 | exact Hc | exact Hx | exact Rx |]. intros r m3 HO3 HR.
    apply safe_ret. split; [rewrite rblks_with_sign; exact HO3 | apply ReprInv_with_sign; exact HR].
  - (* RDiv *)
    apply safe_bind. eapply wp_release; [apply Own_swap_app'; exact HO1'|]. intros m2 HO2.
    apply safe_bind. eapply wp_div_const; [exact HO2 | exact Hc | exact Hx | exact Rx |]. intros r m3 HO3 HR.
    apply safe_ret. split; [rewrite rblks_with_sign; exact HO3 | apply ReprInv_with_sign; exact HR].
  - (* RPow *)
    apply safe_bind. eapply wp_reduce; [exact HO1' | exact Hc | exact Hx | exact Rx |]. intros e m2 HO2 He.
    apply safe_bind. eapply wp_release; [apply Own_swap_app'; exact HO2|]. intros m3 HO3.
    apply safe_bind. eapply wp_elem_pow; [exact HO3 | exact Hc | exact He |]. intros p m4 HO4 Hp.
    apply safe_bind. eapply wp_residue; [exact HO4 | exact Hp |]. intros r m5 HO5 HR.
    apply safe_bind. eapply wp_elem_drop; [apply Own_swap_app'; exact HO5|]. intros m6 HO6.
    apply safe_bind. eapply wp_elem_drop; [apply Own_swap_app'; exact HO6|]. intros m7 HO7.
    apply safe_ret. split; assumption.
Qed.

(* ------------------------------------------------------------------ pop_zeros as a loop: every read is inside the block *)
Lemma strip_prefix ws : strip ws = firstn (length (strip ws)) ws /\ (forall j, (length (strip ws) <= j)%nat -> nth j ws 0 = 0).
Proof.
  induction ws as [|x r [IH1 IH2]]; cbn [strip]; [split; [reflexivity | intros j _; destruct j; reflexivity]|].
  destruct (strip r) as [|y r'] eqn:E.
  - destruct (Z.eqb_spec x 0) as [->|Hx]; cbn [length firstn].
    + split; [reflexivity|]. intros [|k] _; [reflexivity|]. cbn [nth]. apply IH2. cbn [length]. lia.
    + split; [reflexivity|]. intros [|k] Hk; [lia|]. cbn [nth]. apply IH2. cbn [length]. lia.
  - cbn [length firstn]. split; [f_equal; exact IH1|]. intros [|k] Hk; [lia|]. cbn [nth]. apply IH2. cbn [length] in *. lia.
Qed.

Lemma strip_idem ws : strip (strip ws) = strip ws.
Proof.
  induction ws as [|x r IH]; cbn [strip]; [reflexivity|]. destruct (strip r) as [|y r'] eqn:E.
  - destruct (Z.eqb_spec x 0) as [->|Hx]; cbn [strip]; [reflexivity|]. destruct (Z.eqb_spec x 0); [contradiction | reflexivity].
  - change (strip (x :: y :: r')) with (match strip (y :: r') with [] => if x =? 0 then [] else [x] | r'' => x :: r'' end). rewrite IH. reflexivity.
Qed.

Lemma last_nth (l : list Z) : l <> [] -> last l 0 = nth (length l - 1) l 0.
Proof.
  induction l as [|x r IH]; intros H; [contradiction|]. destruct r as [|y r']; [reflexivity|].
  change (last (x :: y :: r') 0) with (last (y :: r') 0). rewrite IH by discriminate. cbn [length]. replace (S (S (length r')) - 1)%nat with (S (length r' - 0))%nat by lia.
  cbn [nth]. replace (S (length r') - 1)%nat with (length r' - 0)%nat by lia. reflexivity.
Qed.

Lemma nth_firstn_lt (l : list Z) : forall k j, (j < k)%nat -> nth j (firstn k l) 0 = nth j l 0.
Proof.
  induction l as [|x r IH]; intros k j H; [destruct k; destruct j; reflexivity|].
  destruct k; [lia|]. destruct j; [reflexivity|]. cbn [firstn nth]. apply IH. lia.
Qed.

(** the word just above the normalized length is nonzero, every word above it is zero: the scan stops exactly there, and
    (because it leaves when the length reaches 0) never reads index -1 *)
Lemma pop_loop_ok fuel : forall ws ln m,
  len (strip ws) <= ln <= len ws -> 1 <= ln -> ln - len (strip ws) < Z.of_nat fuel ->
  pop_loop fuel ws (ln - 1) ln m = Ok (len (strip ws), m).
Proof.
  induction fuel as [|f IH]; intros ws ln m Hk H1 Hf; [lia|]. cbn [pop_loop]. unfold bind at 1.
  destruct (strip_prefix ws) as [P1 P2]. unfold len in *.
  unfold guard at 1. replace ((0 <=? ln - 1) && (ln - 1 <? Z.of_nat (length ws))) with true
    by (symmetry; apply andb_true_intro; split; [apply Z.leb_le | apply Z.ltb_lt]; lia).
  destruct (Z.eq_dec ln (Z.of_nat (length (strip ws)))) as [E|E].
  - (* the top nonzero word *)
    assert (strip ws <> []) as Hne by (intros E0; rewrite E0 in E; cbn in E; lia).
    destruct (strip_cases ws) as [Hc|Hc]; [contradiction|].
    assert (nth (Z.to_nat (ln - 1)) ws 0 = last (strip ws) 0) as En.
    { rewrite (last_nth _ Hne). rewrite P1 at 2. rewrite nth_firstn_lt by (destruct (strip ws); [contradiction | cbn [length]; lia]).
      f_equal. lia. }
    rewrite En. destruct (Z.eqb_spec (last (strip ws) 0) 0); [contradiction|]. unfold ret. rewrite E. reflexivity.
  - rewrite (P2 (Z.to_nat (ln - 1))) by lia. cbn [Z.eqb]. unfold bind at 1. unfold guard at 1.
    replace (1 <=? ln) with true by (symmetry; apply Z.leb_le; lia). cbv zeta.
    unfold gen4_pop_zeros_break. cbn [andb]. destruct (Z.eqb_spec (ln - 1) 0) as [E0|E0].
    + unfold ret. f_equal. f_equal. lia.
    + replace (ln - 1 - 1) with ((ln - 1) - 1) by lia. apply IH; lia.
Qed.

Theorem pop_zeros_asis_ok ws m : pop_zeros_asis ws m = Ok (strip ws, m).
Proof.
  unfold pop_zeros_asis. destruct (Z.ltb_spec 0 (len ws)) as [H|H].
  - unfold bind. pose proof (strip_len ws) as Hl. pose proof (len_nonneg (strip ws)) as H0.
    rewrite (pop_loop_ok (S (length ws)) ws (len ws) m); [|lia | lia | unfold len in *; lia].
    unfold ret. destruct (strip_prefix ws) as [P1 _]. unfold len. rewrite Nat2Z.id. rewrite <- P1. reflexivity.
  - destruct ws; [reflexivity|]. rewrite len_cons in H. pose proof (len_nonneg ws). lia.
Qed.

(** from_buffer with the scan spelled out is from_buffer *)
Theorem from_buffer_g_ok b m : from_buffer_g w M b m = from_buffer w M b m.
Proof.
  unfold from_buffer_g, bind. rewrite pop_zeros_asis_ok. unfold from_buffer. cbn [setws bws]. rewrite strip_idem.
  destruct (strip (bws b)) as [|x [|y [|z rest]]]; reflexivity.
Qed.

(* ------------------------------------------------------------------ a growth the allocator refuses *)
Lemma wp_reallocate_raw_fail b F m Q : Own (bblk b :: F) m -> OQ F Q -> safe (reallocate_raw_fail b) m Q.
Proof.
  intros HO HQ. unfold reallocate_raw_fail, gen4_realloc_fail_frees.
  apply safe_bind. apply safe_ret. apply safe_bind. eapply wp_drop; [exact HO|]. intros m1 HO1. apply safe_ret. apply HQ. exact HO1.
Qed.

Theorem wp_set_bit_fail a n F m Q :
  Own (tblks a ++ F) m -> TargInv a -> is_ref a = false -> 0 <= n -> OQ F Q -> safe (set_bit_fail w M a n) m Q.
Proof.
  intros HO Ha Hr Hn HQ. destruct a as [d|b|d|ws]; cbn [set_bit_fail is_ref] in *; try discriminate.
  - destruct (n <? 2 * w).
    + eapply wp_done; [|exact HQ]. intros Q' HQ'. eapply (wp_set_bit w M w_pos M_big); eauto.
    + apply safe_ret. apply HQ. exact HO.
  - cbv zeta. destruct (Z.ltb_spec (n / w) (len (bws b))) as [Hlt|Hge].
    + eapply wp_done; [|exact HQ]. intros Q' HQ'. eapply (wp_set_bit w M w_pos M_big); eauto.
    + apply safe_bind. apply safe_guard; [apply Z.leb_le; lia|].
      unfold default_capacity_chk. apply safe_bind. apply safe_bind. apply safe_guard12. intros _. apply safe_ret.
      cbn [tblks app] in HO. eapply wp_reallocate_raw_fail; eauto.
  - destruct (n <? 2 * w).
    + eapply wp_done; [|exact HQ]. intros Q' HQ'. eapply (wp_set_bit w M w_pos M_big); eauto.
    + apply safe_ret. apply HQ. exact HO.
Qed.

End Ops3Proofs.
