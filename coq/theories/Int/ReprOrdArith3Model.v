(** C05, integer part, arithmetic producers, third part (deepening round 4): DEFINITIONS (proofs: ReprOrdArith3.v; kept
    apart so that the oracle still builds when a proof - here or in C01 / C07 / C12 - breaks).
    Rounds 2 and 3 covered + - * sqr cubic, every division form, the bit operators and shifts.  Here the remaining
    producers of integers are composed with the full representation (capacity field, sign, inline / heap layout):
      - gcd and gcd_ext (integer/src/gcd_ops.rs): the dispatch on TypedReprRef (dword / dword: the primitive
        routines of dashu-base; large / dword: reduction by rem_by_word / rem_by_dword resp. gcd_ext_word / gcd_ext_dword
        of gcd/mod.rs; large / large: Lehmer) over C12's as-is models (Int/GrlModel.v prim_gcd_asis, prim_gcd_ext_asis;
        Int/GrlLehmer.v lehmer_gcd_asis, lehmer_gcd_ext_asis), the signs of IBig::gcd_ext;
      - sqrt, sqrt_rem, nth_root of UBig and IBig (root_ops.rs): primitive roots (Int/GrlPrimRoot.v), the Karatsuba
        square root with its pre/post shift (Int/GrlKsqrt.v sqrt_rem_large_asis), Newton (Int/GrlModel.v);
      - pow of UBig and IBig: C01's WORD-LEVEL model (Int/RingPowW.v ubig_pow_w / ibig_pow_w: trailing-zero split,
        word / double-word / large base, squarings through the word-level multiplier), stored through
        Repr::from_typed + with_sign like + - *;
      - from_str_radix (parse/mod.rs): sign front end over C07's word-level body parser (Int/IoBigModel.v
        body_words_asis: power-of-two packing, word Horner, chunks, divide and conquer with C01's pow and mul).
    The value-level models return the integer the library then stores with Repr::from_buffer + with_sign (the
    buffer may be longer than needed: from_buffer pops the zero words); [store_fit] is that last step. *)
From Dashu Require Import Base.Prelude Base.Words.
From Dashu Require Import Int.RingOps.
From Dashu Require Int.RingPowW.
From DashuGen Require Params.
From Dashu Require Int.GrlSpec Int.GrlModel Int.GrlLehmer Int.GrlKsqrt Int.GrlPrimRoot.
From Dashu Require Int.IoSpec Int.IoBigModel.
From Dashu Require Import Int.ReprOrdModel Int.ReprOrdArith2Model.
Open Scope Z_scope.

Section Arith3Model.
Variable w : Z.
Notation B := (Words.B w).
Notation value := (Words.value w).

Definition rmap2 {A C} (f : A -> C) (x : result A) : result C :=
  match x with Ok a => Ok (f a) | Panic p => Panic p | Err e => Err e | OutOfFuel => OutOfFuel end.

(** the magnitude as an integer, read through the typed view (inline double word | heap words) *)
Definition tmag (t : typed) : Z := match t with RefSmall d => d | RefLarge ws => value ws end.

(* ---------------------------------------------------------------- gcd *)

(** gcd_large_dword: the large operand is reduced by the word / double word first (div::rem_by_word, rem_by_dword at
    their Z meaning: C02), then the primitive gcd of that width *)
Definition gcd_large_dword_val (fuel : nat) (big rhs : Z) : result Z :=
  if rhs =? 0 then Ok big
  else
    let rem := big mod rhs in
    if rem =? 0 then Ok rhs
    else GrlModel.prim_gcd_asis fuel (if rhs <? B then w else 2 * w) rem rhs.

(** impl Gcd for TypedReprRef *)
Definition gcd_val (fuel : nat) (a b : typed) : result Z :=
  match a, b with
  | RefSmall d0, RefSmall d1 => GrlModel.prim_gcd_asis fuel (2 * w) d0 d1
  | RefSmall d0, RefLarge ws1 => gcd_large_dword_val fuel (value ws1) d0
  | RefLarge ws0, RefSmall d1 => gcd_large_dword_val fuel (value ws0) d1
  | RefLarge ws0, RefLarge ws1 => GrlLehmer.lehmer_gcd_asis fuel w (value ws0) (value ws1)
  end.

(** UBig::gcd, IBig::gcd and the mixed forms (the signs are dropped: impl_ibig_gcd) *)
Definition repr_gcd (fuel : nat) (c : Z) (a b : repr) : result repr :=
  rmap2 (store_fit w c) (gcd_val fuel (as_typed w a) (as_typed w b)).

(* ---------------------------------------------------------------- gcd_ext *)

(** gcd::gcd_ext_word / gcd_ext_dword: big = q * rhs + rem in place, (r, s, t) = rhs.gcd_ext(rem), then
    a = t, |b| = q * |t| + |s| with the sign of s (of -t when s = 0): r = a * big + b * rhs *)
Definition gcd_ext_small_val (fuel : nat) (big rhs : Z) : result (Z * Z * Z) :=
  if rhs =? 0 then Ok (big, 1, 0)
  else
    let q := big / rhs in
    let rem := big mod rhs in
    if rem =? 0 then Ok (rhs, 0, 1)
    else rbind (GrlModel.prim_gcd_ext_asis fuel rhs rem) (fun rst =>
      let '(r, s, t) := rst in
      let b_sign := if Z.abs s =? 0 then sign_neg (sign_of t) else sign_of s in
      Ok (r, t, signed b_sign (q * Z.abs t + Z.abs s))).

(** impl ExtendedGcd for TypedReprRef: (g, s, t) with g = s * a + t * b *)
Definition gcd_ext_val (fuel : nat) (a b : typed) : result (Z * Z * Z) :=
  match a, b with
  | RefSmall d0, RefSmall d1 => GrlModel.prim_gcd_ext_asis fuel d0 d1
  | RefLarge ws0, RefSmall d1 => gcd_ext_small_val fuel (value ws0) d1
  | RefSmall d0, RefLarge ws1 =>
      rbind (gcd_ext_small_val fuel (value ws1) d0) (fun gst => let '(g, s, t) := gst in Ok (g, t, s))
  | RefLarge ws0, RefLarge ws1 => GrlLehmer.lehmer_gcd_ext_asis fuel w (value ws0) (value ws1)
  end.

(** UBig::gcd_ext; IBig::gcd_ext multiplies the cofactors with the signs of the operands (impl_ibig_gcd_ext) *)
Definition repr_gcd_ext (fuel : nat) (c : Z) (a b : repr) : result (list repr) :=
  rmap2 (fun gst => let '(g, s, t) := gst in
                    [store_fit w c g; store_fit w c (signed (rsign a) s); store_fit w c (signed (rsign b) t)])
        (gcd_ext_val fuel (as_typed w a) (as_typed w b)).

(* ---------------------------------------------------------------- roots *)

(** TypedReprRef::sqrt_rem: u64 / u128 routine for inline values, sqrt_rem_large otherwise *)
Definition sqrt_rem_val (fuel : nat) (a : typed) : result (Z * Z) :=
  match a with
  | RefSmall dw => GrlPrimRoot.prim_sqrt_rem_asis fuel (if dw <? B then w else 2 * w) dw
  | RefLarge ws => GrlKsqrt.sqrt_rem_large_asis w (value ws)
  end.

(** UBig::sqrt, IBig::sqrt (a negative operand panics), UBig::sqrt_rem *)
Definition repr_sqrt (fuel : nat) (c : Z) (a : repr) : result repr :=
  match rsign a with
  | Negative => Panic RootNegative
  | Positive => rmap2 (fun sr => store_fit w c (fst sr)) (sqrt_rem_val fuel (as_typed w a))
  end.
Definition repr_sqrt_rem (fuel : nat) (c : Z) (a : repr) : result (list repr) :=
  rmap2 (fun sr => [store_fit w c (fst sr); store_fit w c (snd sr)]) (sqrt_rem_val fuel (as_typed w a)).

(** TypedReprRef::nth_root: n = 1 copies (Repr::from_ref), n = 2 is sqrt, then the shortcuts and Newton *)
Definition nth_root_val (fuel : nat) (a : typed) (n : Z) : result Z :=
  if n =? 2 then rmap2 fst (sqrt_rem_val fuel a) else GrlModel.nth_root_asis fuel (tmag a) n.

(** UBig::nth_root / IBig::nth_root (the sign is put back with with_sign) *)
Definition repr_nth_root (fuel : nat) (c : Z) (a : repr) (n : Z) : result repr :=
  if n =? 0 then Panic RootZeroth
  else match rsign a with
       | Negative => if Z.even n then Panic RootNegative
                     else rmap2 (fun r => store_fit w c (- r)) (nth_root_val fuel (as_typed w a) n)
       | Positive => rmap2 (store_fit w c) (nth_root_val fuel (as_typed w a) n)
       end.

(* ---------------------------------------------------------------- pow (word level) *)

(** the views of ReprOrdArith.v, repeated here because that file holds proofs *)
Definition to_t3 (r : repr) : trepr :=
  match as_typed w r with RefSmall d => Small d | RefLarge ws => Large ws end.
Definition of_mag3 (c : Z) (s : sign) (t : trepr) : repr :=
  ReprOrdModel.with_sign
    (match t with
     | Small d => ReprOrdModel.from_dword w d
     | Large ws => ReprOrdModel.from_buffer w (Z.max c (len ws)) ws
     end) s.

(** num-modular's 2-by-1 division at its contract (exact division), the thresholds regenerated from the source *)
Definition d21 (d a : Z) : Z * Z := (a / d, a mod d).
Definition thr_simple : nat := Z.to_nat Params.mul_threshold_simple.
Definition thr_kara : nat := Z.to_nat Params.mul_threshold_karatsuba.
Definition thr_chunk : nat := Z.to_nat Params.mul_simple_chunk_len.
Definition thr_sqr : nat := Z.to_nat Params.sqr_max_len_simple.

(** UBig::pow / IBig::pow: [cap] says whether the buffer of the power has room for the final shift *)
Definition repr_ipow (cap : bool) (c : Z) (a : repr) (e : Z) : result repr :=
  rmap2 (fun st => of_mag3 c (fst st) (snd st))
    (RingPowW.ibig_pow_w w d21 thr_simple thr_kara thr_chunk thr_sqr cap (rsign a) (to_t3 a) e).

(* ---------------------------------------------------------------- from_str_radix (word level) *)

(** UBig / IBig::from_str_radix: text as a list of byte values *)
Definition parse_val (is_signed : bool) (r : Z) (s : list Z) : result Z :=
  IoSpec.from_str_radix_gen (IoBigModel.body_words_asis w) is_signed r s.
Definition repr_parse (is_signed : bool) (c r : Z) (s : list Z) : result repr :=
  rmap2 (store_fit w c) (parse_val is_signed r s).

End Arith3Model.
