(** C01 round 4: the shift count `exp * shift` of UBig::pow / IBig::pow (pow.rs) in usize arithmetic.
    pow removes the factor 2^shift of an even base, powers the odd part and shifts back by exp * shift bits.
    [U] = 2^(bits of usize).  Finding F01 (fixed): the product was a plain usize multiplication. *)
From Dashu Require Import Base.Prelude.
Open Scope Z_scope.

Section PowShift.
Variable U : Z.

(** pow.rs pow_shift (after the fix): exp.checked_mul(shift), else the documented panic *)
Definition pow_shift (e shift : Z) : result Z :=
  if e * shift <? U then Ok (e * shift) else Panic AllocateTooMuch.

(** before the fix: `exp * shift` - wraps in builds without overflow checks, panics (undocumented message) with them *)
Definition pow_shift_before_fix (overflow_checks : bool) (e shift : Z) : result Z :=
  if e * shift <? U then Ok (e * shift)
  else if overflow_checks then Panic Undocumented else Ok ((e * shift) mod U).

(** the value pow returns for an odd part [odd]: odd^e shifted left by the count *)
Definition pow_shifted (count : result Z) (odd e : Z) : result Z :=
  match count with
  | Ok n => Ok (odd ^ e * 2 ^ n)
  | Panic p => Panic p | Err x => Err x | OutOfFuel => OutOfFuel
  end.

Theorem pow_shift_exact odd e shift : 0 <= e -> 0 <= shift ->
  match pow_shifted (pow_shift e shift) odd e with
  | Ok v => v = (odd * 2 ^ shift) ^ e
  | Panic r => r = AllocateTooMuch /\ U <= e * shift
  | _ => False
  end.
Proof.
  intros He Hs. unfold pow_shift. destruct (Z.ltb_spec (e * shift) U) as [H|H]; cbn [pow_shifted].
  - rewrite Z.pow_mul_l, <- Z.pow_mul_r by lia. f_equal. f_equal. lia.
  - split; [reflexivity | exact H].
Qed.

(** the panic is justified: the true result has more than usize::MAX bits, no Repr can hold it *)
Theorem pow_shift_panic_justified odd e shift : 0 < odd -> 0 <= e -> 0 <= shift -> U <= e * shift ->
  2 ^ U <= (odd * 2 ^ shift) ^ e.
Proof.
  intros Ho He Hs H. rewrite Z.pow_mul_l, <- Z.pow_mul_r by lia.
  assert (H1 : 0 < odd ^ e) by (apply Z.pow_pos_nonneg; lia).
  assert (H2 : 2 ^ U <= 2 ^ (shift * e)) by (destruct (Z.leb_spec 0 U); [apply Z.pow_le_mono_r; lia | rewrite (Z.pow_neg_r 2 U) by lia; apply Z.pow_nonneg; lia]).
  assert (H3 : 0 < 2 ^ (shift * e)) by (apply Z.pow_pos_nonneg; lia).
  clear - H1 H2 H3. nia.
Qed.
End PowShift.

Lemma pow_ne_1 a b : 1 < a -> 0 < b -> 1 <> (1 * a) ^ b.
Proof. intros Ha Hb. rewrite Z.mul_1_l. pose proof (proj1 (Z.pow_gt_1 a b Ha) Hb). lia. Qed.

(** F01 before the fix, 64-bit usize, no overflow checks: UBig 2^32 .pow(2^59) = 1 *)
Theorem pow_shift_before_fix_refuted :
  exists e shift, 0 <= e < 2 ^ 64 /\ 0 <= shift < 2 ^ 64 /\
    pow_shifted (pow_shift_before_fix (2 ^ 64) false e shift) 1 e = Ok 1 /\ 1 <> (1 * 2 ^ shift) ^ e.
Proof.
  exists (2 ^ 59), 32. split; [lia|]. split; [lia|]. split.
  - unfold pow_shift_before_fix. replace (2 ^ 59 * 32) with (2 ^ 64) by reflexivity.
    rewrite Z.ltb_irrefl, Z.mod_same by lia. cbn [pow_shifted]. rewrite Z.pow_1_l by lia. reflexivity.
  - apply pow_ne_1; lia.
Qed.
