(** C09 (round 3): proofs about the operator forms of Int/BitsForms.v.
    1. The typed view of a magnitude is CANONICAL: two views that satisfy the representation invariant
       and have the same value are the same view, word for word.  Hence every ownership arm
       (val/ref x val/ref), every *Assign form, the in-place and the copying shift build the identical
       Repr - namely [to_brepr] of the two's-complement result.
    2. The primitive-operand forms (big OP prim, prim OP big, OP= prim; by value and by reference) return
       Z.land / Z.lor / Z.lxor of the operand values, and the `.try_into().unwrap()` of the forms declared
       `-> $t` never panics, for every primitive width. *)
From Dashu Require Import Base.Prelude Base.Words Int.BitsSpec Int.BitsSign Int.BitsWords Int.BitsKernels Int.BitsKernelsBase
  Int.BitsLogicProofs Int.BitsShiftProofs Int.BitsMiscProofs Int.BitsCountProofs Int.BitsSignedProofs Int.BitsForms.
Open Scope Z_scope.

Section FormsProofs.
Variable w : Z.
Hypothesis w_pos : 0 < w.
Notation B := (B w).
Notation value := (value w).
Notation wf := (wf w).

(* ------------------------------------------------------------------ canonical representation *)

Lemma large_len_bounds ws : brepr_ok w (BLarge ws) -> B ^ (len ws - 1) <= value ws < B ^ len ws.
Proof.
  intros (W & L & T).
  assert (ws <> []) by (destruct ws; [cbn in L; lia | discriminate]).
  split; [apply (value_last_lower w w_pos); assumption | apply (value_bounds w w_pos); assumption].
Qed.

Lemma large_len_unique a b : brepr_ok w (BLarge a) -> brepr_ok w (BLarge b) -> value a = value b -> length a = length b.
Proof.
  intros Ha Hb E. pose proof (large_len_bounds a Ha) as [La Ua]. pose proof (large_len_bounds b Hb) as [Lb Ub].
  pose proof (B_ge_2 w w_pos) as HB.
  destruct (Nat.lt_trichotomy (length a) (length b)) as [C|[C|C]]; [exfalso | exact C | exfalso].
  - assert (P : B ^ len a <= B ^ (len b - 1)) by (apply Z.pow_le_mono_r; unfold len; lia). lia.
  - assert (P : B ^ len b <= B ^ (len a - 1)) by (apply Z.pow_le_mono_r; unfold len; lia). lia.
Qed.

Theorem brepr_canonical a b : brepr_ok w a -> brepr_ok w b -> bvalue w a = bvalue w b -> a = b.
Proof.
  intros Ha Hb E. destruct a as [d0|a], b as [d1|b]; cbn [bvalue] in E.
  - congruence.
  - pose proof (brepr_large_lower w w_pos b Hb). cbn [brepr_ok] in Ha. lia.
  - pose proof (brepr_large_lower w w_pos a Ha). cbn [brepr_ok] in Hb. lia.
  - f_equal. apply (value_inj w w_pos); [apply Ha | apply Hb | apply large_len_unique; assumption | exact E].
Qed.

Theorem to_brepr_canonical r : brepr_ok w r -> to_brepr w (bvalue w r) = r.
Proof.
  intros H. pose proof (brepr_ok_nonneg w w_pos r H) as N.
  destruct (to_brepr_ok w w_pos (bvalue w r) N) as [V K]. apply brepr_canonical; assumption.
Qed.

(** a normalised result with the right value IS the canonical view of that value *)
Lemma canonical_of r v : bvalue w r = v /\ brepr_ok w r -> r = to_brepr w v.
Proof. intros [V K]. subst v. symmetry. apply to_brepr_canonical. exact K. Qed.

(** the observable layout is a function of the value *)
Theorem brepr_layout_canonical r : brepr_ok w r -> brepr_layout w r = brepr_layout w (to_brepr w (bvalue w r)).
Proof. intros H. rewrite (to_brepr_canonical r H). reflexivity. Qed.

(* ------------------------------------------------------------------ & | ^ of magnitudes: every arm *)

Lemma ubig_op_correct o f a b : brepr_ok w a -> brepr_ok w b ->
  bvalue w (ubig_op w o f a b) = zop f (bvalue w a) (bvalue w b) /\ brepr_ok w (ubig_op w o f a b).
Proof.
  intros Ha Hb. destruct f; cbn [ubig_op zop];
    [apply (repr_bitand_correct w w_pos) | apply (repr_bitor_correct w w_pos) | apply (repr_bitxor_correct w w_pos)]; assumption.
Qed.

Theorem ubig_op_canonical o f a b : brepr_ok w a -> brepr_ok w b ->
  ubig_op w o f a b = to_brepr w (zop f (bvalue w a) (bvalue w b)).
Proof. intros Ha Hb. apply canonical_of. apply ubig_op_correct; assumption. Qed.

(** BitAnd / BitOr / BitXor: TypedRepr x TypedRepr, TypedRepr x Ref, Ref x TypedRepr, Ref x Ref build the same Repr *)
Theorem ubig_op_ownership_irrelevant o o' f a b : brepr_ok w a -> brepr_ok w b -> ubig_op w o f a b = ubig_op w o' f a b.
Proof. intros Ha Hb. rewrite (ubig_op_canonical o), (ubig_op_canonical o'); auto. Qed.

(** ... and so do `a OP= b` and `a OP= &b` *)
Theorem ubig_assign_canonical f rhs_ref a b : brepr_ok w a -> brepr_ok w b ->
  ubig_assign_asis w f rhs_ref a b = to_brepr w (zop f (bvalue w a) (bvalue w b)).
Proof. intros Ha Hb. unfold ubig_assign_asis. apply ubig_op_canonical; assumption. Qed.

Theorem repr_and_not_canonical a b : brepr_ok w a -> brepr_ok w b ->
  repr_and_not w a b = to_brepr w (Z.ldiff (bvalue w a) (bvalue w b)).
Proof. intros Ha Hb. apply canonical_of. apply (repr_and_not_correct w w_pos); assumption. Qed.

(** IBig OP IBig: every ownership arm and both Assign forms return the two's-complement result *)
Lemma ibig_op_correct o f s0 r0 s1 r1 : mag_ok w s0 r0 -> mag_ok w s1 r1 ->
  ibig_op w o f s0 r0 s1 r1 = zop f (signed s0 (bvalue w r0)) (signed s1 (bvalue w r1)).
Proof.
  intros H0 H1. destruct (ibig_bitops_asis_correct w w_pos o s0 r0 s1 r1 H0 H1) as (A & O & X).
  destruct f; cbn [ibig_op zop]; assumption.
Qed.

Theorem ibig_assign_correct f rhs_ref s0 r0 s1 r1 : mag_ok w s0 r0 -> mag_ok w s1 r1 ->
  ibig_assign_asis w f rhs_ref s0 r0 s1 r1 = zop f (signed s0 (bvalue w r0)) (signed s1 (bvalue w r1)).
Proof. intros H0 H1. unfold ibig_assign_asis. apply ibig_op_correct; assumption. Qed.

(* ------------------------------------------------------------------ shifts: every form *)

Theorem ubig_shl_form_canonical by_ref cap r n : 0 <= n -> brepr_ok w r ->
  ubig_shl_form w by_ref cap r n = to_brepr w (Z.shiftl (bvalue w r) n).
Proof.
  intros Hn Hr. apply canonical_of. unfold ubig_shl_form. destruct by_ref;
    [apply (repr_shl_ref_correct w w_pos) | apply (repr_shl_correct w w_pos)]; assumption.
Qed.

Theorem ubig_shr_form_canonical by_ref r n : 0 <= n -> brepr_ok w r ->
  ubig_shr_form w by_ref r n = to_brepr w (Z.shiftr (bvalue w r) n).
Proof.
  intros Hn Hr. apply canonical_of. unfold ubig_shr_form. destruct by_ref;
    [apply (repr_shr_ref_correct w w_pos) | apply (repr_shr_correct w w_pos)]; assumption.
Qed.

(** x << n, &x << n, x <<= n, shifted in place or copied: one Repr *)
Theorem ubig_shl_forms_agree by_ref cap by_ref' cap' r n : 0 <= n -> brepr_ok w r ->
  ubig_shl_form w by_ref cap r n = ubig_shl_form w by_ref' cap' r n.
Proof. intros Hn Hr. rewrite (ubig_shl_form_canonical by_ref cap), (ubig_shl_form_canonical by_ref' cap'); auto. Qed.

Theorem ubig_shr_forms_agree by_ref by_ref' r n : 0 <= n -> brepr_ok w r ->
  ubig_shr_form w by_ref r n = ubig_shr_form w by_ref' r n.
Proof. intros Hn Hr. rewrite (ubig_shr_form_canonical by_ref), (ubig_shr_form_canonical by_ref'); auto. Qed.

Theorem ubig_shift_assign_canonical cap r n : 0 <= n -> brepr_ok w r ->
  ubig_shl_assign_asis w cap r n = to_brepr w (Z.shiftl (bvalue w r) n) /\
  ubig_shr_assign_asis w r n = to_brepr w (Z.shiftr (bvalue w r) n).
Proof.
  intros Hn Hr. unfold ubig_shl_assign_asis, ubig_shr_assign_asis.
  split; [apply ubig_shl_form_canonical | apply ubig_shr_form_canonical]; assumption.
Qed.

Theorem ibig_shift_forms_correct by_ref cap s r n : 0 <= n -> brepr_ok w r ->
  ibig_shl_form w by_ref cap s r n = Z.shiftl (signed s (bvalue w r)) n /\
  ibig_shr_form w by_ref s r n = Z.shiftr (signed s (bvalue w r)) n.
Proof.
  intros Hn Hr. split.
  - unfold ibig_shl_form. rewrite (ubig_shl_form_canonical by_ref cap r n Hn Hr).
    assert (N : 0 <= Z.shiftl (bvalue w r) n).
    { apply Z.shiftl_nonneg. apply (brepr_ok_nonneg w w_pos). exact Hr. }
    rewrite (proj1 (to_brepr_ok w w_pos _ N)).
    unfold signed. rewrite !Z.shiftl_mul_pow2 by exact Hn. ring.
  - destruct (ibig_shr_asis_correct w w_pos s r n Hn Hr) as (A & R & _).
    unfold ibig_shr_form. destruct by_ref; assumption.
Qed.

(* ------------------------------------------------------------------ single bits, masks: canonical too *)

Theorem repr_set_clear_bit_canonical r n : 0 <= n -> brepr_ok w r ->
  repr_set_bit w r n = to_brepr w (set_bit_spec (bvalue w r) n) /\
  repr_clear_bit w r n = to_brepr w (clear_bit_spec (bvalue w r) n) /\
  repr_clear_high_bits w r n = to_brepr w (clear_high_bits_spec (bvalue w r) n).
Proof.
  intros Hn Hr. repeat split; apply canonical_of;
    [apply (repr_set_bit_correct w w_pos) | apply (repr_clear_bit_correct w w_pos) | apply (repr_clear_high_bits_correct w w_pos)];
    assumption.
Qed.

Theorem repr_ones_npt_canonical : (forall n, 0 <= n -> repr_ones w n = to_brepr w (ones_spec n)) /\
  (forall r, brepr_ok w r -> repr_next_power_of_two w r = to_brepr w (next_power_of_two_spec (bvalue w r))).
Proof.
  split; intros; apply canonical_of; [apply (repr_ones_correct w w_pos) | apply (repr_next_power_of_two_correct w w_pos)]; assumption.
Qed.

(* ------------------------------------------------------------------ primitive operands *)

Lemma pty_in_spec t v : pty_in t v = true <-> pty_lo t <= v < pty_hi t.
Proof. unfold pty_in. rewrite andb_true_iff, Z.leb_le, Z.ltb_lt. tauto. Qed.

Lemma ubig_of_prim_ok p : 0 <= p -> bvalue w (ubig_of_prim w p) = p /\ brepr_ok w (ubig_of_prim w p).
Proof. intros Hp. unfold ubig_of_prim. apply (to_brepr_ok w w_pos). exact Hp. Qed.

Lemma ibig_of_prim_ok p : let '(s, r) := ibig_of_prim w p in mag_ok w s r /\ signed s (bvalue w r) = p.
Proof.
  unfold ibig_of_prim. destruct (to_brepr_ok w w_pos (Z.abs p) (Z.abs_nonneg p)) as [V K].
  split; [split; [exact K|] |]; rewrite V; unfold sign_of, signed, sgnz; destruct (Z.ltb_spec p 0); try lia; discriminate.
Qed.

Lemma zop_comm f a b : zop f a b = zop f b a.
Proof. destruct f; cbn [zop]; [apply Z.land_comm | apply Z.lor_comm | apply Z.lxor_comm]. Qed.

(** `x & p` of an unsigned primitive always fits the primitive type *)
Lemma and_fits k x p : 0 <= k -> 0 <= p < 2 ^ k -> pty_in (PUnsigned k) (Z.land x p) = true.
Proof. intros Hk Hp. apply pty_in_spec. cbn [pty_lo pty_hi]. apply land_unsigned_prim_fits; assumption. Qed.

(** the condition under which a macro instance may declare the primitive type as its output:
    bitwise AND with an UNSIGNED primitive (checked against the table regenerated from bits.rs) *)
Definition ret_prim_ok (f : bop) (ret_prim : bool) (t : pty) : Prop :=
  ret_prim = true -> f = OpAnd /\ exists k, 0 <= k /\ t = PUnsigned k.

(** UBig OP unsigned primitive: big OP prim, &big OP prim, prim OP big, prim OP &big (and the &prim
    variants, which dereference first) *)
Theorem ubig_prim_asis_correct pf f ret_prim t x p : brepr_ok w x -> pty_in t p = true -> 0 <= p ->
  ret_prim_ok f ret_prim t ->
  ubig_prim_asis w pf f ret_prim t x p = Ok (zop f (bvalue w x) p).
Proof.
  intros Hx Hin Hp Hret. destruct (ubig_of_prim_ok p Hp) as [V K]. unfold ubig_prim_asis.
  assert (E : bvalue w (match pf with
                        | PF_big_prim _ => ubig_op w (own_of_pform pf) f x (ubig_of_prim w p)
                        | PF_prim_big _ => ubig_op w (own_of_pform pf) f (ubig_of_prim w p) x
                        end) = zop f (bvalue w x) p).
  { destruct pf.
    - rewrite (proj1 (ubig_op_correct _ f x _ Hx K)), V. reflexivity.
    - rewrite (proj1 (ubig_op_correct _ f _ x K Hx)), V. apply zop_comm. }
  rewrite E. destruct ret_prim; [|reflexivity].
  destruct (Hret eq_refl) as (-> & k & Hk & ->). cbn [zop]. unfold try_into_prim.
  apply pty_in_spec in Hin. cbn [pty_lo pty_hi] in Hin. rewrite (and_fits k _ p Hk) by lia. reflexivity.
Qed.

(** IBig OP primitive (unsigned or signed), all forms *)
Theorem ibig_prim_asis_correct pf f ret_prim t s x p : mag_ok w s x -> pty_in t p = true ->
  ret_prim_ok f ret_prim t ->
  ibig_prim_asis w pf f ret_prim t s x p = Ok (zop f (signed s (bvalue w x)) p).
Proof.
  intros Hx Hin Hret. pose proof (ibig_of_prim_ok p) as P. unfold ibig_prim_asis.
  destruct (ibig_of_prim w p) as [sp pb]. destruct P as [Kp Vp].
  assert (E : match pf with
              | PF_big_prim _ => ibig_op w (own_of_pform pf) f s x sp pb
              | PF_prim_big _ => ibig_op w (own_of_pform pf) f sp pb s x
              end = zop f (signed s (bvalue w x)) p).
  { destruct pf.
    - rewrite (ibig_op_correct _ f s x sp pb Hx Kp), Vp. reflexivity.
    - rewrite (ibig_op_correct _ f sp pb s x Kp Hx), Vp. apply zop_comm. }
  rewrite E. destruct ret_prim; [|reflexivity].
  destruct (Hret eq_refl) as (-> & k & Hk & ->). cbn [zop]. unfold try_into_prim.
  apply pty_in_spec in Hin. cbn [pty_lo pty_hi] in Hin. rewrite (and_fits k _ p Hk) by lia. reflexivity.
Qed.

(** OP= primitive *)
Theorem prim_assign_correct f :
  (forall x p, brepr_ok w x -> 0 <= p -> ubig_prim_assign_asis w f x p = to_brepr w (zop f (bvalue w x) p)) /\
  (forall s x p, mag_ok w s x -> ibig_prim_assign_asis w f s x p = zop f (signed s (bvalue w x)) p).
Proof.
  split.
  - intros x p Hx Hp. destruct (ubig_of_prim_ok p Hp) as [V K]. unfold ubig_prim_assign_asis.
    rewrite (ubig_op_canonical VV f x _ Hx K), V. reflexivity.
  - intros s x p Hx. pose proof (ibig_of_prim_ok p) as P. unfold ibig_prim_assign_asis.
    destruct (ibig_of_prim w p) as [sp pb]. destruct P as [Kp Vp].
    rewrite (ibig_op_correct VV f s x sp pb Hx Kp), Vp. reflexivity.
Qed.

(** the `-> $t` declaration is NECESSARY to restrict: `|` / `^` with a primitive, or `&` with a negative
    signed primitive, leave the primitive's range (so an instance that declared `-> $t` there would panic) *)
Lemma or_would_not_fit : try_into_prim (PUnsigned 8) (Z.lor 256 1) = Panic Undocumented.
Proof. reflexivity. Qed.
Lemma and_signed_would_not_fit : try_into_prim (PSigned 8) (Z.land 255 (-1)) = Panic Undocumented.
Proof. reflexivity. Qed.

End FormsProofs.
