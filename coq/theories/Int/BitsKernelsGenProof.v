(** C09 (round 4): the loop kernels of shift.rs / bits.rs / math.rs as REGENERATED from the Rust source on every run
    (coq/gen/BitsKernelsGen.v, tools/translate_c09_r4.py on top of the loop-to-fold translator of
    tools/translate_c01_r4.py) are equal to the hand-written kernels of Int/BitsKernels.v / Int/BitsWords.v, for every
    word size, every word list, every shift / carry / position.  Hence every theorem about the hand-written kernels is a
    theorem about the code as translated, and an edit of a loop body breaks the corresponding obligation here. *)
From Dashu Require Import Base.Prelude Base.Words Int.RingAdd Int.WordPrims Int.BitsSpec Int.BitsWords Int.BitsKernels
  Int.BitsKernelsBase Int.BitsShiftProofs Int.BitsCountProofs.
From DashuGen Require Import BitsKernelsGen.
Open Scope Z_scope.

(* ------------------------------------------------------------------ math.rs *)
Theorem ones_word_gen_ok w n : ones_word_gen w n = ones_word w n.
Proof. reflexivity. Qed.

Theorem shr_word_gen_ok w x s : shr_word_gen w x s = shr_word w x s.
Proof. unfold shr_word_gen, shr_word, wsplit_dword, wdouble_word. rewrite Z.add_0_l. reflexivity. Qed.

(* ------------------------------------------------------------------ shift.rs *)
Lemma shl_loop_gen_ok w s ws : forall c, shl_in_place_loop_gen w s ws c = shl_loop w s ws c.
Proof.
  induction ws as [|x r IH]; intros c; cbn [shl_in_place_loop_gen shl_loop]; [reflexivity|].
  unfold wsplit_dword. rewrite IH. destruct (shl_loop w s r (Z.shiftl x s / B w)). reflexivity.
Qed.

Theorem shl_in_place_gen_ok w ws s : shl_in_place_gen w ws s = shl_in_place w ws s.
Proof.
  unfold shl_in_place_gen, shl_in_place. destruct (s =? 0); [reflexivity|]. rewrite shl_loop_gen_ok.
  destruct (shl_loop w s ws 0). reflexivity.
Qed.

(** the generated loop walks the reversed slice from its head (= the highest word); on `a ++ [x]` it first
    processes a, then x *)
Lemma shr_loop_gen_app w s a : forall x c,
  shr_in_place_with_carry_loop_gen w s (a ++ [x]) c =
  let '(a', c1) := shr_in_place_with_carry_loop_gen w s a c in
  let '(nw, nc) := shr_word w x s in (a' ++ [Z.lor nw c1], nc).
Proof.
  induction a as [|y r IH]; intros x c; cbn [app shr_in_place_with_carry_loop_gen].
  - rewrite shr_word_gen_ok. destruct (shr_word w x s). reflexivity.
  - rewrite shr_word_gen_ok. destruct (shr_word w y s) as [nw nc]. rewrite IH.
    destruct (shr_in_place_with_carry_loop_gen w s r nc) as [a' c1]. destruct (shr_word w x s). reflexivity.
Qed.

Lemma shr_loop_gen_ok w s ws : forall c,
  shr_in_place_with_carry_loop_gen w s (rev ws) c = let '(r, c') := shr_loop w s ws c in (rev r, c').
Proof.
  induction ws as [|x r IH]; intros c; cbn [rev shr_loop]; [reflexivity|].
  rewrite shr_loop_gen_app, IH. destruct (shr_loop w s r c) as [r' c1]. destruct (shr_word w x s). reflexivity.
Qed.

Theorem shr_in_place_with_carry_gen_ok w ws s c :
  shr_in_place_with_carry_gen w ws s c = shr_in_place_with_carry w ws s c.
Proof.
  unfold shr_in_place_with_carry_gen, shr_in_place_with_carry. destruct (s =? 0); [reflexivity|].
  rewrite shr_loop_gen_ok. destruct (shr_loop w s ws c). rewrite rev_involutive. reflexivity.
Qed.

(* ------------------------------------------------------------------ bits.rs: & | ^ and-not over zip *)
Lemma bitand_loop_gen_ok w a : forall b, bitand_large_loop_gen w a b = zip_in_place Z.land a b.
Proof. induction a as [|x r IH]; intros [|y s]; cbn; try reflexivity. rewrite IH. reflexivity. Qed.
Lemma bitor_loop_gen_ok w a : forall b, bitor_large_loop_gen w a b = zip_in_place Z.lor a b.
Proof. induction a as [|x r IH]; intros [|y s]; cbn; try reflexivity. rewrite IH. reflexivity. Qed.
Lemma bitxor_loop_gen_ok w a : forall b, bitxor_large_loop_gen w a b = zip_in_place Z.lxor a b.
Proof. induction a as [|x r IH]; intros [|y s]; cbn; try reflexivity. rewrite IH. reflexivity. Qed.
Lemma and_not_loop_gen_ok w a : forall b, and_not_large_loop_gen w a b = zip_in_place (fun x y => Z.land x (word_not w y)) a b.
Proof. induction a as [|x r IH]; intros [|y s]; cbn; try reflexivity. rewrite IH. reflexivity. Qed.

Theorem bitand_large_gen_ok w buf rhs : bitand_large_gen w buf rhs = bitand_large w buf rhs.
Proof. unfold bitand_large_gen, bitand_large. rewrite bitand_loop_gen_ok. reflexivity. Qed.

Lemma zip_len (f : Z -> Z -> Z) a : forall b, length (zip_in_place f a b) = length a.
Proof. induction a as [|x r IH]; intros [|y s]; cbn; try reflexivity. rewrite IH. reflexivity. Qed.

Theorem bitor_large_gen_ok w buf rhs : bitor_large_gen w buf rhs = bitor_large w buf rhs.
Proof. unfold bitor_large_gen, bitor_large. rewrite bitor_loop_gen_ok. cbv zeta. rewrite zip_len. reflexivity. Qed.

Theorem bitxor_large_gen_ok w buf rhs : bitxor_large_gen w buf rhs = bitxor_large w buf rhs.
Proof. unfold bitxor_large_gen, bitxor_large. rewrite bitxor_loop_gen_ok. cbv zeta. rewrite zip_len. reflexivity. Qed.

Theorem and_not_large_gen_ok w buf rhs : and_not_large_gen w buf rhs = and_not_large w buf rhs.
Proof. unfold and_not_large_gen, and_not_large. rewrite and_not_loop_gen_ok. reflexivity. Qed.

(* ------------------------------------------------------------------ bits.rs: the word scans (while loops) *)

(** number of leading words that satisfy p: where the scan `while i < len && p(words[i]) { i += 1 }` stops *)
Fixpoint lead (p : Z -> bool) (ws : list Z) : nat :=
  match ws with x :: r => if p x then S (lead p r) else O | [] => O end.

Notation pz := (fun x : Z => (x =? 0)%Z).
Notation pm w := (fun x : Z => (x =? Words.B w - 1)%Z).

Lemma lead_le p ws : (lead p ws <= length ws)%nat.
Proof. induction ws as [|x r IH]; cbn [lead length]; [lia|]. destruct (p x); lia. Qed.

Lemma skipn_nth' (ws : list Z) k : (k < length ws)%nat -> skipn k ws = nth k ws 0 :: skipn (S k) ws.
Proof.
  revert k. induction ws as [|x r IH]; intros k Hk; cbn [length] in Hk; [lia|].
  destruct k; [reflexivity|]. cbn [skipn nth]. apply IH. lia.
Qed.

Lemma tz_while_ok w ws : forall fuel k, (length ws - k < fuel)%nat -> (k <= length ws)%nat ->
  trailing_zeros_large_while_gen w ws fuel k = ((k + lead pz (skipn k ws))%nat, false).
Proof.
  induction fuel as [|f IH]; intros k Hf Hk; [lia|]. cbn [trailing_zeros_large_while_gen].
  destruct (Nat.ltb_spec k (length ws)) as [C|C].
  - rewrite (skipn_nth' ws k C). cbn [lead andb]. destruct (nth k ws 0 =? 0); cbn [negb].
    + rewrite Nat.add_1_r, IH by lia. f_equal. lia.
    + f_equal. lia.
  - cbn [andb]. rewrite skipn_all2 by lia. cbn [lead]. f_equal. lia.
Qed.

Lemma to_while_ok w ws : forall fuel k, (length ws - k < fuel)%nat -> (k <= length ws)%nat ->
  trailing_ones_large_while_gen w ws fuel k = ((k + lead (pm w) (skipn k ws))%nat, false).
Proof.
  induction fuel as [|f IH]; intros k Hf Hk; [lia|]. cbn [trailing_ones_large_while_gen].
  destruct (Nat.ltb_spec k (length ws)) as [C|C].
  - rewrite (skipn_nth' ws k C). cbn [lead andb]. destruct (nth k ws 0 =? B w - 1); cbn [negb].
    + rewrite Nat.add_1_r, IH by lia. f_equal. lia.
    + f_equal. lia.
  - cbn [andb]. rewrite skipn_all2 by lia. cbn [lead]. f_equal. lia.
Qed.

Lemma tz1_while_ok w ws fuel k :
  trailing_zeros_large_shifted_by_one_while_gen w ws fuel k = trailing_zeros_large_while_gen w ws fuel k.
Proof.
  revert k. induction fuel as [|f IH]; intros k; [reflexivity|].
  cbn [trailing_zeros_large_shifted_by_one_while_gen trailing_zeros_large_while_gen]. rewrite IH. reflexivity.
Qed.

Section Scans.
Variable w : Z.
Hypothesis w_pos : 0 < w.
Notation B := (B w).
Notation wf := (wf w).

Lemma word_tz_nonneg x : 0 <= x < B -> 0 <= word_tz w x <= w.
Proof.
  intros Hx. destruct (Z.eq_dec x 0) as [->|Hne].
  - unfold word_tz. cbn. lia.
  - pose proof (word_tz_spec w x ltac:(lia)). lia.
Qed.

(** the hand-written scan in terms of the stopping index *)
Lemma tz_large_lead ws : (lead pz ws < length ws)%nat ->
  trailing_zeros_large w ws = Z.of_nat (lead pz ws) * w + word_tz w (nth (lead pz ws) ws 0).
Proof.
  induction ws as [|x r IH]; cbn [lead length trailing_zeros_large]; intros H; [lia|].
  destruct (x =? 0); cbn [nth]; [|lia]. rewrite IH by lia. lia.
Qed.

Lemma lead_zero_all ws : wf ws -> lead pz ws = length ws -> value w ws = 0.
Proof.
  induction ws as [|x r IH]; cbn [lead length Words.value]; intros W H; [reflexivity|].
  apply wf_cons in W. destruct (Z.eqb_spec x 0); [|lia]. rewrite IH by (try apply W; lia). lia.
Qed.

Lemma lead_lt_of_value ws : wf ws -> value w ws <> 0 -> (lead pz ws < length ws)%nat.
Proof.
  intros W V. pose proof (lead_le pz ws). destruct (Nat.eq_dec (lead pz ws) (length ws)) as [E|E]; [|lia].
  exfalso. apply V. apply lead_zero_all; assumption.
Qed.

(** trailing_zeros_large (a RefLarge magnitude is not zero: otherwise words[zero_words] panics) *)
Theorem trailing_zeros_large_gen_ok ws : wf ws -> value w ws <> 0 ->
  Z.of_nat (trailing_zeros_large_gen w ws) = trailing_zeros_large w ws.
Proof.
  intros W V. unfold trailing_zeros_large_gen. rewrite tz_while_ok by lia. cbn [skipn Nat.add].
  pose proof (lead_lt_of_value ws W V) as L. rewrite (tz_large_lead ws L).
  pose proof (word_tz_nonneg _ (wf_nth w w_pos ws (lead pz ws) W)).
  rewrite Nat2Z.inj_add, Nat2Z.inj_mul, !Z2Nat.id by lia. reflexivity.
Qed.

Lemma to_large_lead ws :
  trailing_ones_large w ws = Z.of_nat (lead (pm w) ws) * w +
    (if (lead (pm w) ws =? length ws)%nat then 0 else word_to w (nth (lead (pm w) ws) ws 0)).
Proof.
  induction ws as [|x r IH]; cbn [lead length trailing_ones_large]; [reflexivity|].
  destruct (x =? B - 1); cbn [nth].
  - rewrite IH. cbn [Nat.eqb]. lia.
  - cbn [Nat.eqb]. lia.
Qed.

(** trailing_ones_large, including the all-ones slice (the early `return one_words * WORD_BITS`) *)
Theorem trailing_ones_large_gen_ok ws : wf ws ->
  Z.of_nat (trailing_ones_large_gen w ws) = trailing_ones_large w ws.
Proof.
  intros W. unfold trailing_ones_large_gen. rewrite to_while_ok by lia. cbn [skipn Nat.add].
  rewrite (to_large_lead ws). set (j := lead (pm w) ws).
  destruct (j =? length ws)%nat.
  - rewrite Nat2Z.inj_mul, Z2Nat.id by lia. lia.
  - assert (H : 0 <= word_to w (nth j ws 0) <= w).
    { unfold word_to. apply word_tz_nonneg. pose proof (wf_nth w w_pos ws j W). lia. }
    rewrite Nat2Z.inj_add, Nat2Z.inj_mul, !Z2Nat.id by lia. reflexivity.
Qed.

(** trailing_zeros_large_shifted_by_one (behind trailing_ones_neg): the words above the lowest one are not all zero *)
Theorem trailing_zeros_large_shifted_by_one_gen_ok x r : 2 <= w -> wf (x :: r) -> value w r <> 0 ->
  Z.of_nat (trailing_zeros_large_shifted_by_one_gen w (x :: r)) = trailing_zeros_large_shifted_by_one w (x :: r).
Proof.
  intros W2 W V. apply wf_cons in W. destruct W as [Hx Wr].
  unfold trailing_zeros_large_shifted_by_one_gen, trailing_zeros_large_shifted_by_one. cbn [nth].
  assert (Hs : 0 <= Z.shiftr x 1 < B).
  { rewrite Z.shiftr_div_pow2 by lia. change (2 ^ 1) with 2. split; [apply Z.div_pos; lia|].
    apply Z.div_lt_upper_bound; lia. }
  pose proof (word_tz_nonneg _ Hs) as Hz. set (zb := word_tz w (Z.shiftr x 1)) in *.
  destruct (Z.ltb_spec zb (w - 1)) as [C|C].
  - destruct (Nat.ltb_spec (Z.to_nat zb) (Z.to_nat w - 1)) as [C'|C']; [|lia]. rewrite Z2Nat.id by lia. reflexivity.
  - destruct (Nat.ltb_spec (Z.to_nat zb) (Z.to_nat w - 1)) as [C'|C']; [lia|].
    rewrite tz1_while_ok, tz_while_ok by (cbn [length]; lia). cbn [skipn].
    pose proof (lead_lt_of_value r Wr V) as L. rewrite (tz_large_lead r L).
    set (j := lead pz r) in *. cbn [Nat.add nth].
    pose proof (word_tz_nonneg _ (wf_nth w w_pos r j Wr)) as Hj.
    replace (S j - 1)%nat with j by lia.
    rewrite Nat2Z.inj_sub by lia. rewrite !Nat2Z.inj_add, Nat2Z.inj_mul, !Z2Nat.id by lia. change (Z.of_nat 1) with 1. lia.
Qed.

(* ------------------------------------------------------------------ bits.rs: count_ones (fold) *)
Lemma count_ones_loop_gen_ok ws : forall acc,
  Z.of_nat (count_ones_large_loop_gen w ws acc) = Z.of_nat acc + sum_words count_ones_spec ws.
Proof.
  induction ws as [|x r IH]; intros acc; cbn [count_ones_large_loop_gen sum_words fold_right]; [lia|].
  rewrite IH. fold (sum_words count_ones_spec r). pose proof (pop_nonneg x).
  rewrite Nat2Z.inj_add, Z2Nat.id by lia. lia.
Qed.

Theorem count_ones_large_gen_ok ws : Z.of_nat (count_ones_large_gen w ws) = sum_words count_ones_spec ws.
Proof. unfold count_ones_large_gen. rewrite count_ones_loop_gen_ok. reflexivity. Qed.

(* ------------------------------------------------------------------ bits.rs: are_slice_low_bits_nonzero *)
Lemma slice_any_gen_ok ws : slice_any_gen w ws = existsb (fun x => negb (x =? 0)) ws.
Proof.
  unfold slice_any_gen. induction ws as [|x r IH]; cbn [slice_any_loop_gen existsb]; [reflexivity|].
  destruct (x =? 0); cbn [negb orb]; [exact IH | reflexivity].
Qed.

(** the floor-correction predicate of the negative right shift, for every bit count *)
Theorem are_slice_low_bits_nonzero_gen_ok ws n : 0 <= n ->
  are_slice_low_bits_nonzero_gen w ws (Z.to_nat n) = slice_low_bits_nonzero w ws n.
Proof.
  intros Hn. unfold are_slice_low_bits_nonzero_gen, slice_low_bits_nonzero.
  rewrite <- Z2Nat.inj_div, <- Z2Nat.inj_mod by lia.
  pose proof (Z.div_pos n w Hn w_pos) as Q. pose proof (Z.mod_pos_bound n w w_pos) as Hm.
  rewrite Z2Nat.id by lia. rewrite slice_any_gen_ok, ones_word_gen_ok.
  destruct (Nat.leb_spec (length ws) (Z.to_nat (n / w))) as [C|C]; destruct (Z.geb_spec (n / w) (len ws)) as [D|D];
    unfold len in *; try lia; reflexivity.
Qed.

End Scans.

(** non-vacuity: concrete instances of every hypothesis used above (64-bit words) *)
Example gen_kernels_nonvacuous :
  wf 64 [0; 0; 12; 1] /\ value 64 [0; 0; 12; 1] <> 0 /\ trailing_zeros_large_gen 64 [0; 0; 12; 1] = 130%nat /\
  trailing_ones_large_gen 64 [18446744073709551615; 7; 1] = 67%nat /\
  wf 64 [1; 0; 8] /\ value 64 [0; 8] <> 0 /\ trailing_zeros_large_shifted_by_one_gen 64 [1; 0; 8] = 130%nat /\
  count_ones_large_gen 64 [7; 0; 1] = 4%nat /\
  are_slice_low_bits_nonzero_gen 64 [0; 4; 1] 66%nat = false /\ are_slice_low_bits_nonzero_gen 64 [0; 4; 1] 67%nat = true /\
  shr_in_place_with_carry_gen 64 [5; 3] 1 0 = ([9223372036854775810; 1], 9223372036854775808).
Proof.
  assert (W : forall l, Forall (fun x => 0 <= x < 2 ^ 64) l -> wf 64 l).
  { intros l H. unfold Words.wf, Words.B. exact H. }
  repeat split; try (apply W; repeat constructor; lia); try (vm_compute; congruence); vm_compute; reflexivity.
Qed.
