(** C09 (round 4): shift counts and bit positions BEYOND the operand (the usize range above any storable length:
    2^32 + k, 2^48 + k, 2^63 + k, usize::MAX - k on a 64-bit target).  The specifications are then constants, so the
    oracle can judge such a case without forming 2^n: x >> n is 0 / -1 (floor), bit n is the sign, clear_bit /
    clear_high_bits return x, split_bits returns (x, 0).  The word-level models never form 2^n (they compare n / w with
    the length), so the same cases run through them unchanged. *)
From Dashu Require Import Base.Prelude Int.BitsSpec.
Open Scope Z_scope.

Theorem shr_beyond_len x n : 0 <= n -> Z.abs x < 2 ^ n -> Z.shiftr x n = if x <? 0 then -1 else 0.
Proof.
  intros Hn Hx. rewrite Z.shiftr_div_pow2 by lia. assert (P : 0 < 2 ^ n) by (apply Z.pow_pos_nonneg; lia).
  destruct (Z.ltb_spec x 0) as [C|C].
  - assert (E : x = (-1) * 2 ^ n + (x + 2 ^ n)) by ring. rewrite E at 1.
    rewrite Z.div_add_l by lia. rewrite Z.div_small by lia. reflexivity.
  - apply Z.div_small. lia.
Qed.

Theorem bitops_beyond_len x n : 0 <= n -> 0 <= x < 2 ^ n ->
  Z.testbit x n = false /\ clear_bit_spec x n = x /\ clear_high_bits_spec x n = x /\ split_bits_spec x n = (x, 0).
Proof.
  intros Hn Hx.
  assert (T : forall i, n <= i -> Z.testbit x i = false).
  { intros i Hi. destruct (Z.eq_dec x 0) as [->|Hne]; [apply Z.bits_0|]. apply Z.bits_above_log2; [lia|].
    apply Z.lt_le_trans with n; [apply Z.log2_lt_pow2; lia | exact Hi]. }
  split; [apply T; lia|]. split; [|split].
  - unfold clear_bit_spec. apply Z.bits_inj'. intros i Hi. rewrite Z.ldiff_spec, Z.pow2_bits_eqb by lia.
    destruct (Z.eqb_spec n i) as [->|Hne]; cbn [negb]; [rewrite T by lia; reflexivity | apply andb_true_r].
  - unfold clear_high_bits_spec. apply Z.mod_small. exact Hx.
  - unfold split_bits_spec. rewrite Z.mod_small, Z.div_small by exact Hx. reflexivity.
Qed.

(** negative values: bit n beyond the magnitude is the sign bit *)
Theorem testbit_beyond_len_neg x n : 0 <= n -> - 2 ^ n <= x < 0 -> Z.testbit x n = true.
Proof.
  intros Hn Hx. rewrite Z.testbit_true by lia.
  assert (P : 0 < 2 ^ n) by (apply Z.pow_pos_nonneg; lia).
  assert (E : x = (-1) * 2 ^ n + (x + 2 ^ n)) by ring. rewrite E.
  rewrite Z.div_add_l by lia. rewrite Z.div_small by lia. reflexivity.
Qed.

Example beyond_nonvacuous : Z.shiftr (-5) 200 = -1 /\ Z.abs (-5) < 2 ^ 200 /\ 0 <= 5 < 2 ^ 3 /\ - 2 ^ 3 <= -5 < 0.
Proof.
  assert (H : Z.abs (-5) < 2 ^ 200).
  { change (Z.abs (-5)) with (2 ^ 3 - 3). assert (2 ^ 3 <= 2 ^ 200) by (apply Z.pow_le_mono_r; lia). lia. }
  split; [rewrite (shr_beyond_len (-5) 200); [reflexivity | lia | exact H] | split; [exact H | split; lia]].
Qed.
