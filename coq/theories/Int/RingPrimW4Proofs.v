(** C01 round 4: the word-level Repr::from_unsigned (RingPrimW4.v) returns the canonical representation of the
    primitive's value - it IS the by-value model of round 3 - for every word size that is a whole number of bytes
    (w = 8k, k >= 1) and every primitive width; from_le_bytes_large computes what C07's model of Repr::from_le_bytes
    computes.  Needs: two canonical representations of the same number are equal (twf_unique). *)
From Dashu Require Import Base.Prelude Base.Words Int.RingAdd Int.RingAddProofs Int.RingMul Int.RingOps Int.RingOpsProofs
  Int.RingCanon Int.RingPrim Int.RingPrimProofs Int.IoSpec Int.IoModel Int.IoBytes Int.RingPrimW4.
Open Scope Z_scope.

Section PrimW4Proofs.
Variable w : Z.
Hypothesis w_ge : 8 <= w.
Let w_pos : 0 < w. Proof. lia. Qed.
Notation rv := (repr_value w).

Lemma B_pow_nat n : 0 < B w ^ Z.of_nat n.
Proof. apply Z.pow_pos_nonneg; [apply B_pos; lia | lia]. Qed.

(** canonical representations are unique *)
Theorem twf_unique r1 r2 : twf w r1 -> twf w r2 -> rv r1 = rv r2 -> r1 = r2.
Proof.
  assert (HB : 2 <= B w) by (apply B_ge_2; lia).
  assert (big : forall ws, wf w ws -> (3 <= length ws)%nat -> nth (length ws - 1) ws 0 <> 0 -> B w * B w <= value w ws).
  { intros ws Hw Hl Ht. pose proof (top_lower w w_ge ws Hw ltac:(lia) Ht) as H.
    apply Z.le_trans with (B w ^ Z.of_nat (length ws - 1)); [|exact H].
    replace (B w * B w) with (B w ^ 2) by ring. apply Z.pow_le_mono_r; lia. }
  destruct r1 as [a|u], r2 as [b|v]; cbn [twf repr_value]; intros H1 H2 E.
  - now subst.
  - destruct H2 as (Hw & Hl & Ht). pose proof (big v Hw Hl Ht). lia.
  - destruct H1 as (Hw & Hl & Ht). pose proof (big u Hw Hl Ht). lia.
  - destruct H1 as (Hu & Lu & Tu), H2 as (Hv & Lv & Tv). f_equal.
    assert (L : length u = length v).
    { pose proof (top_lower w w_ge u Hu ltac:(lia) Tu) as A1. pose proof (top_lower w w_ge v Hv ltac:(lia) Tv) as A2.
      pose proof (value_bounds w w_pos u Hu) as B1. pose proof (value_bounds w w_pos v Hv) as B2. unfold len in *.
      destruct (Nat.lt_trichotomy (length u) (length v)) as [C|[C|C]]; [exfalso | exact C | exfalso].
      - assert (B w ^ Z.of_nat (length u) <= B w ^ Z.of_nat (length v - 1)) by (apply Z.pow_le_mono_r; lia). lia.
      - assert (B w ^ Z.of_nat (length v) <= B w ^ Z.of_nat (length u - 1)) by (apply Z.pow_le_mono_r; lia). lia. }
    apply (value_inj w w_pos); auto.
Qed.

(** w = 8k: a word is k bytes *)
Variable k : nat.
Hypothesis k_pos : (1 <= k)%nat.
Hypothesis w_bytes : w = 8 * Z.of_nat k.

Lemma B_256 : B w = 256 ^ Z.of_nat k.
Proof. unfold B. rewrite w_bytes, Z.pow_mul_r by lia. reflexivity. Qed.

Lemma bytes_ok_firstn n : forall bs, bytes_ok bs -> bytes_ok (firstn n bs).
Proof.
  unfold bytes_ok. induction n as [|n IH]; intros [|b t] H; cbn [firstn]; try constructor.
  - inversion H; auto.
  - apply IH. inversion H; auto.
Qed.
Lemma bytes_ok_skipn n : forall bs, bytes_ok bs -> bytes_ok (skipn n bs).
Proof.
  unfold bytes_ok. induction n as [|n IH]; intros [|b t] H; cbn [skipn]; auto. apply IH. inversion H; auto.
Qed.

Lemma chunk_words_ok : forall fuel bs, (length bs <= fuel)%nat -> bytes_ok bs ->
  wf w (chunk_words fuel k bs) /\ value w (chunk_words fuel k bs) = le_value bs.
Proof.
  induction fuel as [|f IH]; intros bs Hf Hb.
  - destruct bs; [|cbn [length] in Hf; lia]. cbn [chunk_words value le_value]. split; [apply wf_nil | reflexivity].
  - cbn [chunk_words]. destruct bs as [|b t] eqn:Ebs; [cbn [value le_value]; split; [apply wf_nil | reflexivity]|].
    rewrite <- Ebs in *. assert (Hne : (1 <= length bs)%nat) by (rewrite Ebs; cbn [length]; lia). clear Ebs b t.
    destruct (IH (skipn k bs)) as (W & V); [rewrite skipn_length; lia | now apply bytes_ok_skipn |].
    pose proof (le_value_bounds (firstn k bs) (bytes_ok_firstn k bs Hb)) as Hc.
    assert (Hlen : len (firstn k bs) <= Z.of_nat k) by (unfold len; rewrite firstn_length; lia).
    assert (Hpw : 256 ^ len (firstn k bs) <= 256 ^ Z.of_nat k) by (apply Z.pow_le_mono_r; [lia | exact Hlen]).
    split.
    + apply wf_cons. split; [rewrite B_256; lia | exact W].
    + cbn [value]. rewrite V. rewrite <- (firstn_skipn k bs) at 3. rewrite le_value_app.
      destruct (Nat.le_gt_cases k (length bs)) as [Hk|Hk].
      * unfold len. rewrite firstn_length_le by lia. rewrite B_256. reflexivity.
      * rewrite (skipn_all2 bs) by lia. cbn [le_value]. lia.
Qed.

(** from_le_bytes_large = what C07's model of Repr::from_le_bytes computes, canonical *)
Theorem from_le_bytes_large_w_ok bs : bytes_ok bs ->
  rv (from_le_bytes_large_w w bs) = from_le_bytes_asis w bs /\ twf w (from_le_bytes_large_w w bs).
Proof.
  intros Hb. unfold from_le_bytes_large_w.
  replace (Z.to_nat (w / 8)) with k by (rewrite w_bytes, Z.mul_comm, Z.div_mul by lia; lia).
  destruct (chunk_words_ok (length bs) bs (le_n _) Hb) as (W & V).
  destruct (from_buffer_spec w w_ge _ W) as (V' & T). rewrite (from_le_bytes_asis_correct w). split; [lia | exact T].
Qed.

(** Repr::from_unsigned::<T>, T of nbytes bytes *)
Theorem repr_from_unsigned_w_eq nbytes x : 0 <= x < 256 ^ Z.of_nat nbytes ->
  repr_from_unsigned_w w nbytes x = repr_from_unsigned w x.
Proof.
  intros Hx. destruct (repr_from_unsigned_ok w w_ge x ltac:(lia)) as (V & T).
  apply twf_unique; [| exact T |].
  - unfold repr_from_unsigned_w. destruct (Z.ltb_spec x (B w * B w)); [cbn [twf]; lia|].
    apply from_le_bytes_large_w_ok, le_bytes_n_ok.
  - rewrite V. unfold repr_from_unsigned_w. destruct (Z.ltb_spec x (B w * B w)); [reflexivity|].
    destruct (from_le_bytes_large_w_ok (le_bytes_n nbytes x) (le_bytes_n_ok nbytes x)) as (V' & _).
    rewrite V', (from_le_bytes_asis_correct w), le_bytes_n_value. apply Z.mod_small. lia.
Qed.
End PrimW4Proofs.
