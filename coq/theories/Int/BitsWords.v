(** C09: word-level as-is models of the scanning kernels of integer/src/bits.rs
    (trailing_zeros_large, trailing_ones_large - as repaired -, bit, are_slice_low_bits_nonzero)
    over little-endian word lists of an arbitrary word size, proved against the specifications. *)
From Dashu Require Import Base.Prelude Base.Words Int.BitsSpec.
Open Scope Z_scope.

Section BitsWords.
Variable w : Z.
Hypothesis w_pos : 0 < w.
Notation B := (B w).
Notation value := (value w).
Notation wf := (wf w).

(** Word::trailing_zeros (w for the zero word) and Word::trailing_ones *)
Definition word_tz (x : Z) : Z := match trailing_zeros_spec x with Some k => k | None => w end.
Definition word_to (x : Z) : Z := word_tz (B - 1 - x).

(** bits.rs trailing_zeros_large: skip zero words, then count in the first non-zero word *)
Fixpoint trailing_zeros_large (ws : list Z) : Z :=
  match ws with
  | [] => 0
  | x :: r => if x =? 0 then w + trailing_zeros_large r else word_tz x
  end.

(** bits.rs trailing_ones_large (after the repair: the scan starts at word 0 and an all-ones
    slice returns len * w) *)
Fixpoint trailing_ones_large (ws : list Z) : Z :=
  match ws with
  | [] => 0
  | x :: r => if x =? B - 1 then w + trailing_ones_large r else word_to x
  end.

(** TypedReprRef::bit for RefLarge *)
Definition bit_large (ws : list Z) (n : Z) : bool :=
  let idx := n / w in
  if idx <? len ws then Z.testbit (nth (Z.to_nat idx) ws 0) (n mod w) else false.

(** are_slice_low_bits_nonzero *)
Definition low_bits_nonzero_large (ws : list Z) (n : Z) : bool :=
  let n_words := n / w in
  if n_words >=? len ws then true
  else existsb (fun x => negb (x =? 0)) (firstn (Z.to_nat n_words) ws)
       || negb (Z.land (nth (Z.to_nat n_words) ws 0) (Z.ones (n mod w)) =? 0).

(* ---------------------------------------------------------------- bit facts *)

Lemma B_eq : B = 2 ^ w. Proof. reflexivity. Qed.

Lemma testbit_low x v i : 0 <= i < w -> Z.testbit (x + B * v) i = Z.testbit x i.
Proof.
  intros Hi. rewrite <- (Z.mod_pow2_bits_low (x + B * v) w i) by lia.
  rewrite <- (Z.mod_pow2_bits_low x w i) by lia. f_equal.
  rewrite B_eq. rewrite Z.mul_comm, Z.mod_add by (apply Z.pow_nonzero; lia). reflexivity.
Qed.

Lemma testbit_high x v i : 0 <= x < B -> w <= i -> Z.testbit (x + B * v) i = Z.testbit v (i - w).
Proof.
  intros Hx Hi. replace i with ((i - w) + w) at 1 by lia.
  rewrite <- Z.div_pow2_bits by lia. f_equal. rewrite B_eq in *.
  rewrite Z.mul_comm, Z.div_add by (apply Z.pow_nonzero; lia). rewrite Z.div_small by lia. lia.
Qed.

Lemma word_bits_above x i : 0 <= x < B -> w <= i -> Z.testbit x i = false.
Proof.
  intros Hx Hi. destruct (Z.eq_dec x 0) as [->|Hne]; [apply Z.bits_0|].
  apply Z.bits_above_log2; [lia|]. apply Z.lt_le_trans with w; [|lia].
  apply Z.log2_lt_pow2; [lia | rewrite <- B_eq; lia].
Qed.

(* ---------------------------------------------------------------- characterisations *)

Lemma tz_char a k : 0 <= k -> Z.testbit a k = true -> (forall i, 0 <= i < k -> Z.testbit a i = false) ->
  trailing_zeros_spec a = Some k.
Proof.
  intros Hk H1 H2. destruct (trailing_zeros_spec a) as [k'|] eqn:E.
  - apply trailing_zeros_spec_ok in E. destruct E as (Hk' & E1 & E2).
    destruct (Z.lt_trichotomy k k') as [C|[C|C]]; [|congruence|].
    + rewrite (E2 k) in H1 by lia. discriminate.
    + rewrite (H2 k') in E1 by lia. discriminate.
  - apply trailing_zeros_spec_none in E. subst a. rewrite Z.bits_0 in H1. discriminate.
Qed.

Lemma to_char a k : 0 <= k -> Z.testbit a k = false -> (forall i, 0 <= i < k -> Z.testbit a i = true) ->
  trailing_ones_spec a = Some k.
Proof.
  intros Hk H1 H2. unfold trailing_ones_spec. apply tz_char; [assumption | |].
  - rewrite Z.lnot_spec by lia. now rewrite H1.
  - intros i Hi. rewrite Z.lnot_spec by lia. now rewrite H2.
Qed.

Lemma word_tz_spec x : 0 < x < B ->
  0 <= word_tz x < w /\ Z.testbit x (word_tz x) = true /\ forall i, 0 <= i < word_tz x -> Z.testbit x i = false.
Proof.
  intros Hx. unfold word_tz. destruct (trailing_zeros_spec x) as [k|] eqn:E.
  - apply trailing_zeros_spec_ok in E. destruct E as (Hk & E1 & E2). split; [|auto]. split; [lia|].
    destruct (Z.lt_ge_cases k w); [assumption|]. rewrite word_bits_above in E1 by lia. discriminate.
  - apply trailing_zeros_spec_none in E. lia.
Qed.

(* ---------------------------------------------------------------- trailing zeros *)

Theorem trailing_zeros_large_correct ws : wf ws -> value ws <> 0 ->
  trailing_zeros_spec (value ws) = Some (trailing_zeros_large ws) /\ 0 <= trailing_zeros_large ws.
Proof.
  induction ws as [|x r IH]; intros Hwf Hv; [cbn in Hv; contradiction|].
  apply wf_cons in Hwf. destruct Hwf as [Hx Hr]. cbn [trailing_zeros_large Words.value].
  destruct (Z.eqb_spec x 0) as [->|Hne].
  - cbn [Words.value] in Hv. rewrite Z.add_0_l in Hv.
    assert (Hvr : value r <> 0) by (intros Z0; rewrite Z0 in Hv; lia).
    destruct (IH Hr Hvr) as [IH1 IH2]. apply trailing_zeros_spec_ok in IH1. destruct IH1 as (_ & T1 & T2).
    split; [|lia]. apply tz_char; [lia | |].
    + rewrite testbit_high by lia. replace (w + trailing_zeros_large r - w) with (trailing_zeros_large r) by lia. exact T1.
    + intros i Hi. destruct (Z.lt_ge_cases i w).
      * rewrite testbit_low by lia. apply Z.bits_0.
      * rewrite testbit_high by lia. apply T2. lia.
  - destruct (word_tz_spec x ltac:(lia)) as (K & K1 & K2). split; [|lia].
    apply tz_char; [lia | |].
    + rewrite testbit_low by lia. exact K1.
    + intros i Hi. rewrite testbit_low by lia. apply K2. lia.
Qed.

(* ---------------------------------------------------------------- trailing ones *)

Lemma complement_bits x i : 0 <= x < B -> 0 <= i < w -> Z.testbit (B - 1 - x) i = negb (Z.testbit x i).
Proof.
  intros Hx Hi. replace (B - 1 - x) with (Z.lnot x + B * 1) by (unfold Z.lnot; rewrite <- Z.sub_1_r; lia).
  rewrite testbit_low by lia. apply Z.lnot_spec. lia.
Qed.

Lemma ones_word_bits i : 0 <= i < w -> Z.testbit (B - 1) i = true.
Proof.
  intros Hi. replace (B - 1) with (Z.ones w) by (rewrite Z.ones_equiv, <- B_eq; lia).
  apply Z.ones_spec_low. lia.
Qed.

Theorem trailing_ones_large_correct ws : wf ws ->
  trailing_ones_spec (value ws) = Some (trailing_ones_large ws) /\ 0 <= trailing_ones_large ws.
Proof.
  induction ws as [|x r IH]; intros Hwf.
  - cbn. split; [reflexivity | lia].
  - apply wf_cons in Hwf. destruct Hwf as [Hx Hr]. cbn [trailing_ones_large Words.value].
    destruct (Z.eqb_spec x (B - 1)) as [->|Hne].
    + destruct (IH Hr) as [IH1 IH2]. apply trailing_ones_spec_ok in IH1. destruct IH1 as (_ & T1 & T2).
      split; [|lia]. apply to_char; [lia | |].
      * rewrite testbit_high by lia. replace (w + trailing_ones_large r - w) with (trailing_ones_large r) by lia. exact T1.
      * intros i Hi. destruct (Z.lt_ge_cases i w).
        -- rewrite testbit_low by lia. apply ones_word_bits. lia.
        -- rewrite testbit_high by lia. apply T2. lia.
    + unfold word_to. destruct (word_tz_spec (B - 1 - x) ltac:(lia)) as (K & K1 & K2). split; [|lia].
      apply to_char; [lia | |].
      * rewrite testbit_low by lia. rewrite complement_bits in K1 by lia. now destruct (Z.testbit x (word_tz (B - 1 - x))).
      * intros i Hi. rewrite testbit_low by lia. specialize (K2 i Hi). rewrite complement_bits in K2 by lia.
        now destruct (Z.testbit x i).
Qed.

(** what the defective version computed (scan from word 1): kept as the refutation witness of the
    repaired finding F01 - it disagrees with the specification on [5; 0; 1] for every word size *)
Definition trailing_ones_large_defective (ws : list Z) : Z :=
  match ws with [] => 0 | _ :: r => w + trailing_ones_large r end.

Lemma trailing_ones_defective_refuted : 3 <= w ->
  trailing_ones_spec (value [5; 0; 1]) <> Some (trailing_ones_large_defective [5; 0; 1]).
Proof.
  intros Hw. assert (H5 : 0 <= 5 < B).
  { rewrite B_eq. split; [lia|]. apply Z.lt_le_trans with (2 ^ 3); [reflexivity | apply Z.pow_le_mono_r; lia]. }
  assert (H1 : 0 <= 1 < B) by lia. assert (H0 : 0 <= 0 < B) by lia.
  assert (Hwf : wf [5; 0; 1]) by (repeat (apply wf_cons; split; [assumption|]); apply wf_nil).
  destruct (trailing_ones_large_correct [5; 0; 1] Hwf) as [E _]. rewrite E. cbn [trailing_ones_large trailing_ones_large_defective].
  assert (B - 1 <> 5) by (rewrite B_eq; assert (2 ^ 3 <= 2 ^ w) by (apply Z.pow_le_mono_r; lia); change (2 ^ 3) with 8 in *; lia).
  destruct (Z.eqb_spec 5 (B - 1)); [lia|].
  assert (B - 1 <> 0) by lia. destruct (Z.eqb_spec 0 (B - 1)); [lia|].
  intros Heq. injection Heq as Heq.
  (* left: word_to 5 < w ; right: w + word_to 0 >= w *)
  unfold word_to in Heq.
  destruct (word_tz_spec (B - 1 - 5) ltac:(lia)) as (K & _ & _).
  destruct (word_tz_spec (B - 1 - 0) ltac:(lia)) as (K' & _ & _). lia.
Qed.

(* ---------------------------------------------------------------- bit test *)

Theorem bit_large_correct ws n : wf ws -> 0 <= n -> bit_large ws n = Z.testbit (value ws) n.
Proof.
  intros Hwf Hn. unfold bit_large. rewrite (value_testbit w w_pos ws n Hwf Hn).
  assert (0 <= n / w) by (apply Z.div_pos; lia).
  destruct (Z.ltb_spec (n / w) (len ws)); [reflexivity|].
  rewrite nth_overflow; [now rewrite Z.bits_0|]. unfold len in *. lia.
Qed.

End BitsWords.
