(** C17 - abstract machine of the hand-managed integer storage (integer/src/buffer.rs, repr.rs) and of
    the buffer handling of a representative set of public operations.  DEFINITIONS ONLY (executable);
    proofs are in StorageProofs.v / StorageHistory.v.

    * ghost heap [mem]: block id -> capacity (words); ids are never reused; [nlive]/[nwords] is the ledger
      the harness' counting allocator is compared with.
    * every [assert!]/[debug_assert!] and every precondition of an unsafe block is an explicit guard:
      [Err k] = guard k failed (would be a panic with an undocumented message, or undefined behaviour)
        1 allocate_raw: 0 < capacity <= MAX_CAPACITY     2 reallocate_raw: capacity >= len
        3 reallocate: num_words >= len                    4 push: len < capacity
        5 push_repeat/push_zeros: n <= capacity - len      6 push_zeros_front     7 push_slice
        8 truncate     9 erase_front    10 free of a block that is not live (double free)
        11 free with a size different from the allocation   12 debug_assert num_words <= MAX_CAPACITY
        13 debug_assert! on the operands of an arithmetic routine (add_large_dword: len >= 3, mul_large:
           both lengths >= 2, shl_dword: dword != 0, shl_one_spilled / with_bit_dword_spilled: n >= DWORD_BITS)
        14 usize subtraction that would underflow (with_bit_dword_spilled: idx - 2, with_bit_large: idx - len)
        15 lowest_dword / lowest_dword_mut: len >= 2      16 slice index out of range (rem_large: lhs[..n])
        20.. preconditions of raw copies / transmutes (UB if they failed)      30 ill-typed operand
      [Panic AllocateTooMuch] = the documented panic.  A documented panic raised by an operation after
      its clean-up (unwinding drops the owned buffers) is the value [Thrown r], the machine goes on.
    * word contents are kept; the arithmetic kernels (add_in_place, mul, shl_in_place ...) enter at
      value level: the words of the exact result with the carry the code tests.  They are the subject
      of C01/C02/C09, here only lengths/capacities/ownership matter. *)
From Dashu Require Import Base.Prelude Base.Words.
Open Scope Z_scope.

Record buffer := mkbuf { bptr : Z; bws : list Z; bcap : Z }.
Record mem := mkmem { blk : Z -> option Z; next : Z; nlive : Z; nwords : Z }.
Definition upd (f : Z -> option Z) (p : Z) (v : option Z) : Z -> option Z := fun q => if q =? p then v else f q.
Definition mem0 : mem := mkmem (fun _ => None) 1 0 0.

Definition M_ (A : Type) := mem -> result (A * mem).
Definition ret {A} (a : A) : M_ A := fun m => Ok (a, m).
Definition bind {A B} (c : M_ A) (f : A -> M_ B) : M_ B :=
  fun m => match c m with Ok (a, m') => f a m' | Panic r => Panic r | Err e => Err e | OutOfFuel => OutOfFuel end.
Definition guard (code : Z) (c : bool) : M_ unit := fun m => if c then Ok (tt, m) else Err code.
Definition throw {A} (r : reason) : M_ A := fun _ => Panic r.
Definition bad {A} (code : Z) : M_ A := fun _ => Err code.
Notation "x <- c ;; f" := (bind c (fun x => f)) (at level 61, c at next level, right associativity).
Notation "c ;;; f" := (bind c (fun _ => f)) (at level 61, right associativity).

(** most significant zero words removed (Buffer::pop_zeros) *)
Fixpoint strip (ws : list Z) : list Z :=
  match ws with
  | [] => []
  | x :: r => match strip r with [] => if x =? 0 then [] else [x] | r' => x :: r' end
  end.

Inductive repr := RInline (s : sign) (lo hi cap : Z) | RHeap (s : sign) (b : buffer).
Inductive outcome := Done (r : repr) | Thrown (why : reason).
Inductive targ := TSmall (dw : Z) | TLarge (b : buffer) | TRefSmall (dw : Z) | TRefLarge (ws : list Z).
(** what clone / clone_from read of their source: [VHeap s ws cap] also stands for a static *)
Inductive view := VInline (s : sign) (lo hi cap : Z) | VHeap (s : sign) (ws : list Z) (cap : Z).

Definition is_pos (s : sign) : bool := match s with Positive => true | Negative => false end.

Section Storage.
Variable w : Z.   (* bits per word *)
Variable M : Z.   (* Buffer::MAX_CAPACITY *)

Definition Bw : Z := 2 ^ w.
Definition val (ws : list Z) : Z := Words.value w ws.
Definition tow (n : Z) (v : Z) : list Z := Words.to_words w (Z.to_nat n) v.

(* ------------------------------------------------------------------ buffer.rs *)
Definition default_capacity (n : Z) : Z := Z.min (n + n / 8 + 2) M.
Definition max_compact_capacity (n : Z) : Z := Z.min (n + n / 4 + 4) M.
Definition default_capacity_chk (n : Z) : M_ Z := guard 12 (n <=? M) ;;; ret (default_capacity n).
Definition max_compact_chk (n : Z) : M_ Z := guard 12 (n <=? M) ;;; ret (max_compact_capacity n).

Definition raw_alloc (cap : Z) : M_ Z :=
  fun m => Ok (next m, mkmem (upd (blk m) (next m) (Some cap)) (next m + 1) (nlive m + 1) (nwords m + cap)).
Definition allocate_raw (cap : Z) : M_ Z := guard 1 ((0 <? cap) && (cap <=? M)) ;;; raw_alloc cap.
Definition deallocate_raw (p cap : Z) : M_ unit :=
  fun m => match blk m p with
           | Some c => if c =? cap then Ok (tt, mkmem (upd (blk m) p None) (next m) (nlive m - 1) (nwords m - cap)) else Err 11
           | None => Err 10
           end.

Definition allocate_exact (cap : Z) : M_ buffer :=
  if cap >? M then throw AllocateTooMuch else p <- allocate_raw cap ;; ret (mkbuf p [] cap).
Definition allocate (n : Z) : M_ buffer := c <- default_capacity_chk n ;; allocate_exact c.
Definition reallocate_raw (b : buffer) (cap : Z) : M_ buffer :=
  guard 2 ((0 <? cap) && (len (bws b) <=? cap)) ;;; deallocate_raw (bptr b) (bcap b) ;;; p <- raw_alloc cap ;; ret (mkbuf p (bws b) cap).
Definition reallocate (b : buffer) (n : Z) : M_ buffer :=
  guard 3 (len (bws b) <=? n) ;;; c <- default_capacity_chk n ;; reallocate_raw b c.
Definition ensure_capacity (b : buffer) (n : Z) : M_ buffer :=
  if (n >? bcap b) && (n >? 2) then reallocate b n else ret b.
Definition shrink_to_fit (b : buffer) : M_ buffer :=
  c <- max_compact_chk (len (bws b)) ;; if bcap b >? c then reallocate b (len (bws b)) else ret b.
Definition setws (b : buffer) (ws : list Z) : buffer := mkbuf (bptr b) ws (bcap b).
Definition push (b : buffer) (x : Z) : M_ buffer := guard 4 (len (bws b) <? bcap b) ;;; ret (setws b (bws b ++ [x])).
Definition push_resizing (b : buffer) (x : Z) : M_ buffer :=
  if x =? 0 then ret b else b' <- ensure_capacity b (len (bws b) + 1) ;; push b' x.
Definition push_repeat (b : buffer) (x n : Z) : M_ buffer :=
  guard 5 (n <=? bcap b - len (bws b)) ;;; ret (setws b (bws b ++ repeat x (Z.to_nat n))).
Definition push_zeros_front (b : buffer) (n : Z) : M_ buffer :=
  guard 6 (n <=? bcap b - len (bws b)) ;;; ret (setws b (repeat 0 (Z.to_nat n) ++ bws b)).
Definition push_slice (b : buffer) (xs : list Z) : M_ buffer :=
  guard 7 (len xs <=? bcap b - len (bws b)) ;;; ret (setws b (bws b ++ xs)).
Definition truncate (b : buffer) (n : Z) : M_ buffer := guard 8 (n <=? len (bws b)) ;;; ret (setws b (firstn (Z.to_nat n) (bws b))).
Definition erase_front (b : buffer) (n : Z) : M_ buffer := guard 9 (n <=? len (bws b)) ;;; ret (setws b (skipn (Z.to_nat n) (bws b))).
Definition drop_buffer (b : buffer) : M_ unit := deallocate_raw (bptr b) (bcap b).
Definition buffer_from (ws : list Z) : M_ buffer := b <- allocate (len ws) ;; push_slice b ws.

(* ------------------------------------------------------------------ repr.rs *)
Definition zero : repr := RInline Positive 0 0 1.
Definition from_word (n : Z) : repr := RInline Positive n 0 1.
Definition from_dword (dw : Z) : repr := RInline Positive (dw mod Bw) (dw / Bw) (if dw / Bw =? 0 then 1 else 2).
Definition is_zero (r : repr) : bool := match r with RInline _ lo _ cap => (cap =? 1) && (lo =? 0) | RHeap _ _ => false end.
Definition set_sign (r : repr) (s : sign) : repr := match r with RInline _ lo hi cap => RInline s lo hi cap | RHeap _ b => RHeap s b end.
Definition rsign (r : repr) : sign := match r with RInline s _ _ _ => s | RHeap s _ => s end.
Definition with_sign (r : repr) (s : sign) : repr := if is_zero r then r else set_sign r s.
Definition neg (r : repr) : repr := if is_zero r then r else set_sign r (sign_neg (rsign r)).
Definition rcap (r : repr) : Z := match r with RInline _ _ _ cap => cap | RHeap _ b => bcap b end.
Definition rwords (r : repr) : list Z :=
  match r with RInline _ lo hi cap => if cap =? 2 then [lo; hi] else if lo =? 0 then [] else [lo] | RHeap _ b => bws b end.
Definition rvalue (r : repr) : Z := signed (rsign r) (val (rwords r)).
Definition signed_cap (r : repr) : Z := signed (rsign r) (rcap r).
Definition repr_drop (r : repr) : M_ unit := match r with RInline _ _ _ _ => ret tt | RHeap _ b => deallocate_raw (bptr b) (bcap b) end.

Definition from_buffer (b : buffer) : M_ repr :=
  let ws := strip (bws b) in
  match ws with
  | [] => drop_buffer b ;;; ret (from_word 0)
  | [x] => drop_buffer b ;;; ret (from_word x)
  | [x; y] => drop_buffer b ;;; ret (from_dword (x + Bw * y))
  | _ => b' <- shrink_to_fit (setws b ws) ;; ret (RHeap Positive b')
  end.

Definition into_buffer (r : repr) : M_ buffer :=
  match r with
  | RInline _ lo hi cap =>
      if cap =? 1 then b <- allocate 1 ;; (if lo =? 0 then ret b else push b lo)
      else b <- allocate 2 ;; b1 <- push b lo ;; push b1 hi
  | RHeap _ b => ret b
  end.

Definition view_of (r : repr) : view :=
  match r with RInline s lo hi cap => VInline s lo hi cap | RHeap s b => VHeap s (bws b) (bcap b) end.
Definition static_view (s : sign) (ws : list Z) : view :=
  match ws with
  | [] => VInline Positive 0 0 1
  | [x] => VInline s x 0 1
  | [x; y] => VInline s x y 2
  | _ => VHeap s ws (len ws)
  end.

Definition repr_clone (v : view) : M_ repr :=
  match v with
  | VInline s lo hi cap => ret (with_sign (RInline Positive lo hi cap) s)
  | VHeap s ws cap => b <- allocate (len ws) ;; b' <- push_slice b ws ;; guard 20 (2 <? bcap b') ;;; ret (with_sign (RHeap Positive b') s)
  end.

Definition repr_clone_from (self : repr) (v : view) : M_ repr :=
  let cap := rcap self in
  match v with
  | VInline s lo hi scap => repr_drop self ;;; ret (RInline s lo hi scap)
  | VHeap s ws scap =>
      let src_len := len ws in
      mc <- max_compact_chk src_len ;;
      pc <- (if (cap <? src_len) || (cap >? mc)
             then repr_drop self ;;; nc <- default_capacity_chk src_len ;; p <- allocate_raw nc ;; ret (p, nc)
             else match self with RHeap _ b => ret (bptr b, bcap b) | RInline _ _ _ _ => bad 21 end) ;;
      guard 22 (src_len <=? snd pc) ;;; ret (RHeap s (mkbuf (fst pc) ws (snd pc)))
  end.

Definition ones (n : Z) : M_ repr :=
  if n <? w then ret (from_word (2 ^ n - 1))
  else if n <=? 2 * w then ret (from_dword (2 ^ n - 1))
  else let lo_words := n / w in let hi_bits := n mod w in
       b <- allocate (lo_words + 1) ;; b1 <- push_repeat b (Bw - 1) lo_words ;;
       b2 <- (if 0 <? hi_bits then push b1 (2 ^ hi_bits - 1) else ret b1) ;;
       guard 23 (2 <? bcap b2) ;;; ret (RHeap Positive b2).

(* ------------------------------------------------------------------ operands *)
Definition typed (r : repr) : targ :=
  match r with RInline _ lo hi _ => TSmall (lo + Bw * hi) | RHeap _ b => TLarge b end.
Definition typed_ref (v : view) : targ :=
  match v with VInline _ lo hi _ => TRefSmall (lo + Bw * hi) | VHeap _ ws _ => TRefLarge ws end.
Definition small_of (a : targ) : option Z := match a with TSmall d | TRefSmall d => Some d | _ => None end.
Definition own_large (a : targ) : M_ buffer :=
  match a with TLarge b => ret b | TRefLarge ws => buffer_from ws | _ => bad 30 end.
Definition release (a : targ) : M_ unit := match a with TLarge b => drop_buffer b | _ => ret tt end.
Definition twords (a : targ) : list Z := match a with TLarge b => bws b | TRefLarge ws => ws | _ => [] end.
Definition is_owned (a : targ) : bool := match a with TLarge _ => true | _ => false end.

(* ------------------------------------------------------------------ add_ops.rs *)
Definition add_dword (a b : Z) : M_ repr :=
  let r := a + b in
  if r >=? Bw * Bw then b0 <- allocate 3 ;; b1 <- push b0 (r mod Bw) ;; b2 <- push b1 ((r / Bw) mod Bw) ;; b3 <- push b2 1 ;; from_buffer b3
  else ret (from_dword r).

Definition add_large_dword (b : buffer) (dw : Z) : M_ repr :=
  let n := len (bws b) in let s := val (bws b) + dw in
  let b' := setws b (tow n s) in
  guard 13 (3 <=? n) ;;;
  b'' <- (if s / Bw ^ n =? 0 then ret b' else push_resizing b' 1) ;; from_buffer b''.

Definition add_large (b : buffer) (rhs : list Z) : M_ repr :=
  let n := Z.min (len (bws b)) (len rhs) in
  let nn := Z.to_nat n in
  let s := val (firstn nn (bws b)) + val (firstn nn rhs) in
  let overflow := negb (s / Bw ^ n =? 0) in
  let b0 := setws b (tow n s ++ skipn nn (bws b)) in
  b1 <- (if len rhs >? n then b' <- ensure_capacity b0 (len rhs) ;; push_slice b' (skipn nn rhs) else ret b0) ;;
  b2 <- (if overflow then
           let hi := skipn nn (bws b1) in let t := val hi + 1 in
           let b' := setws b1 (firstn nn (bws b1) ++ tow (len hi) t) in
           if t / Bw ^ len hi =? 0 then ret b' else push_resizing b' 1
         else ret b1) ;;
  from_buffer b2.

Definition add_mag (a b : targ) : M_ repr :=
  match small_of a, small_of b with
  | Some x, Some y => add_dword x y
  | Some x, None => bb <- own_large b ;; add_large_dword bb x
  | None, Some y => ba <- own_large a ;; add_large_dword ba y
  | None, None =>
      match a, b with
      | TLarge b0, TLarge b1 =>
          if len (bws b1) <=? len (bws b0) then r <- add_large b0 (bws b1) ;; drop_buffer b1 ;;; ret r
          else r <- add_large b1 (bws b0) ;; drop_buffer b0 ;;; ret r
      | TRefLarge w0, TLarge b1 => add_large b1 w0
      | TLarge b0, TRefLarge w1 => add_large b0 w1
      | TRefLarge w0, TRefLarge w1 =>
          if len w1 <=? len w0 then b0 <- buffer_from w0 ;; add_large b0 w1 else b1 <- buffer_from w1 ;; add_large b1 w0
      | _, _ => bad 30
      end
  end.

Definition done (c : M_ repr) : M_ outcome := r <- c ;; ret (Done r).
Definition omap (f : repr -> repr) (o : outcome) : outcome := match o with Done r => Done (f r) | Thrown y => Thrown y end.

Definition sub_large_dword (b : buffer) (dw : Z) : M_ repr :=
  from_buffer (setws b (tow (len (bws b)) (val (bws b) - dw))).

(** repr::sub_large: the buffer is dropped by unwinding when the result would be negative *)
Definition sub_large (lhs : buffer) (rhs : list Z) : M_ outcome :=
  if (len (bws lhs) <? len rhs) || (val (bws lhs) <? val rhs) then drop_buffer lhs ;;; ret (Thrown NegativeUBig)
  else done (from_buffer (setws lhs (tow (len (bws lhs)) (val (bws lhs) - val rhs)))).

Definition sub_large_ref_val (lhs : list Z) (rhs : buffer) : M_ outcome :=
  let n := len (bws rhs) in
  if len lhs <? n then drop_buffer rhs ;;; ret (Thrown NegativeUBig)
  else b1 <- ensure_capacity rhs (len lhs) ;; b2 <- push_slice b1 (skipn (Z.to_nat n) lhs) ;;
       if val lhs <? val (bws rhs) then drop_buffer b2 ;;; ret (Thrown NegativeUBig)
       else done (from_buffer (setws b2 (tow (len lhs) (val lhs - val (bws rhs))))).

Definition sub_mag (a b : targ) : M_ outcome :=
  match small_of a, small_of b with
  | Some x, Some y => if x <? y then ret (Thrown NegativeUBig) else ret (Done (from_dword (x - y)))
  | Some _, None => release b ;;; ret (Thrown NegativeUBig)
  | None, Some y => ba <- own_large a ;; done (sub_large_dword ba y)
  | None, None =>
      match a, b with
      | TLarge b0, TLarge b1 => r <- sub_large b0 (bws b1) ;; drop_buffer b1 ;;; ret r
      | TLarge b0, TRefLarge w1 => sub_large b0 w1
      | TRefLarge w0, TRefLarge w1 => b0 <- buffer_from w0 ;; sub_large b0 w1
      | TRefLarge w0, TLarge b1 => sub_large_ref_val w0 b1
      | _, _ => bad 30
      end
  end.

(** repr_signed::sub_large *)
Definition ssub_large (lhs : buffer) (rhs : list Z) : M_ outcome :=
  if len rhs <=? len (bws lhs) then
    let d := val (bws lhs) - val rhs in
    r <- from_buffer (setws lhs (tow (len (bws lhs)) (Z.abs d))) ;; ret (Done (with_sign r (sign_of d)))
  else o <- sub_large_ref_val rhs lhs ;; ret (omap (fun r => with_sign r Negative) o).

Definition sub_signed (a b : targ) : M_ outcome :=
  match small_of a, small_of b with
  | Some x, Some y => ret (Done (with_sign (from_dword (Z.abs (x - y))) (sign_of (x - y))))
  | Some x, None => bb <- own_large b ;; r <- sub_large_dword bb x ;; ret (Done (neg r))
  | None, Some y => ba <- own_large a ;; done (sub_large_dword ba y)
  | None, None =>
      match a, b with
      | TLarge b0, TLarge b1 =>
          if len (bws b1) <=? len (bws b0) then r <- ssub_large b0 (bws b1) ;; drop_buffer b1 ;;; ret r
          else r <- ssub_large b1 (bws b0) ;; drop_buffer b0 ;;; ret (omap neg r)
      | TLarge b0, TRefLarge w1 => ssub_large b0 w1
      | TRefLarge w0, TLarge b1 => r <- ssub_large b1 w0 ;; ret (omap neg r)
      | TRefLarge w0, TRefLarge w1 =>
          if len w1 <=? len w0 then b0 <- buffer_from w0 ;; ssub_large b0 w1
          else b1 <- buffer_from w1 ;; r <- ssub_large b1 w0 ;; ret (omap neg r)
      | _, _ => bad 30
      end
  end.

(* ------------------------------------------------------------------ mul_ops.rs *)
Definition mul_dword (a b : Z) : M_ repr :=
  if (a <? Bw) && (b <? Bw) then ret (from_dword (a * b))
  else let p := a * b in
       b0 <- allocate 4 ;; b1 <- push b0 (p mod Bw) ;; b2 <- push b1 ((p / Bw) mod Bw) ;;
       b3 <- push b2 ((p / Bw ^ 2) mod Bw) ;; b4 <- push b3 ((p / Bw ^ 3) mod Bw) ;; from_buffer b4.

Definition mul_large_dword (b : buffer) (dw : Z) : M_ repr :=
  if dw =? 0 then drop_buffer b ;;; ret zero
  else if dw =? 1 then from_buffer b
  else let n := len (bws b) in let p := val (bws b) * dw in
       let carry := p / Bw ^ n in let b' := setws b (tow n p) in
       if dw <? Bw then b'' <- push_resizing b' carry ;; from_buffer b''
       else if carry =? 0 then from_buffer b'
       else b1 <- ensure_capacity b' (n + 2) ;; b2 <- push b1 (carry mod Bw) ;; b3 <- push b2 (carry / Bw) ;; from_buffer b3.

(** mul_large / square_large: the result buffer; the scratch MemoryAllocation (memory.rs) is not modelled *)
Definition mul_large (lhs rhs : list Z) : M_ repr :=
  let n := len lhs + len rhs in
  guard 13 ((2 <=? len lhs) && (2 <=? len rhs)) ;;;
  b <- allocate n ;; b1 <- push_repeat b 0 n ;; from_buffer (setws b1 (tow n (val lhs * val rhs))).

Definition mul_mag (a b : targ) : M_ repr :=
  match small_of a, small_of b with
  | Some x, Some y => mul_dword x y
  | Some x, None => bb <- own_large b ;; mul_large_dword bb x
  | None, Some y => ba <- own_large a ;; mul_large_dword ba y
  | None, None => r <- mul_large (twords a) (twords b) ;; release a ;;; release b ;;; ret r
  end.

(* ------------------------------------------------------------------ shift_ops.rs, bits.rs *)
Definition shl_large_ref (ws : list Z) (n : Z) : M_ repr :=
  let sw := n / w in
  b <- allocate (sw + len ws + 1) ;; b1 <- push_repeat b 0 sw ;; b2 <- push_slice b1 ws ;;
  b3 <- push b2 0 ;; from_buffer (setws b3 (tow (len (bws b3)) (val ws * 2 ^ n))).

Definition shl_large (b : buffer) (n : Z) : M_ repr :=
  let sw := n / w in
  if bcap b <? len (bws b) + sw + 1 then r <- shl_large_ref (bws b) n ;; drop_buffer b ;;; ret r
  else b1 <- push b 0 ;; b2 <- push_zeros_front b1 sw ;; from_buffer (setws b2 (tow (len (bws b2)) (val (bws b) * 2 ^ n))).

Definition shl_dword (dw n : Z) : M_ repr :=
  guard 13 (negb (dw =? 0)) ;;;
  if dw * 2 ^ n <? Bw * Bw then ret (from_dword (dw * 2 ^ n))
  else if dw =? 1 then
    let idx := n / w in guard 13 (2 * w <=? n) ;;; b <- allocate (idx + 1) ;; b1 <- push_repeat b 0 idx ;; b2 <- push b1 (2 ^ (n mod w)) ;; from_buffer b2
  else let sw := n / w in let v := dw * 2 ^ (n mod w) in
    b <- allocate (sw + 3) ;; b1 <- push_repeat b 0 sw ;; b2 <- push b1 (v mod Bw) ;; b3 <- push b2 ((v / Bw) mod Bw) ;;
    b4 <- push b3 (v / Bw ^ 2) ;; from_buffer b4.

Definition shl_mag (a : targ) (n : Z) : M_ repr :=
  match a with
  | TSmall d | TRefSmall d => if d =? 0 then ret zero else shl_dword d n
  | TLarge b => shl_large b n
  | TRefLarge ws => shl_large_ref ws n
  end.

Definition shr_large (b : buffer) (n : Z) : M_ repr :=
  let sw := n / w in
  if len (bws b) <=? sw then drop_buffer b ;;; ret zero
  else b1 <- erase_front b sw ;; from_buffer (setws b1 (tow (len (bws b1)) (val (bws b1) / 2 ^ (n mod w)))).

Definition shr_large_ref (ws : list Z) (n : Z) : M_ repr :=
  let sw := n / w in
  let ws' := skipn (Z.to_nat (Z.min sw (len ws))) ws in
  match ws' with
  | [] => ret zero
  | [x] => ret (from_word (x / 2 ^ (n mod w)))
  | [x; y] => ret (from_dword ((x + Bw * y) / 2 ^ (n mod w)))
  | _ => b <- allocate (len ws') ;; b1 <- push_slice b ws' ;; from_buffer (setws b1 (tow (len ws') (val ws' / 2 ^ (n mod w))))
  end.

Definition shr_mag (a : targ) (n : Z) : M_ repr :=
  match a with
  | TSmall d | TRefSmall d => if n <? 2 * w then ret (from_dword (d / 2 ^ n)) else ret zero
  | TLarge b => shr_large b n
  | TRefLarge ws => shr_large_ref ws n
  end.

Definition set_bit (a : targ) (n : Z) : M_ repr :=
  match a with
  | TSmall d | TRefSmall d =>
      if n <? 2 * w then ret (from_dword (Z.lor d (2 ^ n)))
      else let idx := n / w in
           guard 13 (2 * w <=? n) ;;;
           b <- allocate (idx + 1) ;; b1 <- push b (d mod Bw) ;; b2 <- push b1 (d / Bw) ;;
           guard 14 (2 <=? idx) ;;; b3 <- push_repeat b2 0 (idx - 2) ;; b4 <- push b3 (2 ^ (n mod w)) ;; from_buffer b4
  | TLarge b =>
      let idx := n / w in
      if idx <? len (bws b) then from_buffer (setws b (tow (len (bws b)) (Z.lor (val (bws b)) (2 ^ n))))
      else b1 <- ensure_capacity b (idx + 1) ;; guard 14 (len (bws b1) <=? idx) ;;; b2 <- push_repeat b1 0 (idx - len (bws b1)) ;; b3 <- push b2 (2 ^ (n mod w)) ;; from_buffer b3
  | TRefLarge _ => bad 30
  end.

Definition clear_bit (a : targ) (n : Z) : M_ repr :=
  match a with
  | TSmall d | TRefSmall d => if n <? 2 * w then ret (from_dword (Z.ldiff d (2 ^ n))) else ret (from_dword d)
  | TLarge b => from_buffer (setws b (tow (len (bws b)) (Z.ldiff (val (bws b)) (2 ^ n))))
  | TRefLarge _ => bad 30
  end.

(* ------------------------------------------------------------------ bits.rs: and / or / xor of magnitudes *)
Definition lowest_dword_of (ws : list Z) : M_ Z := guard 15 (2 <=? len ws) ;;; ret (nth 0 ws 0 + Bw * nth 1 ws 0).

Definition bitand_large (b : buffer) (rhs : list Z) : M_ repr :=
  b1 <- (if len (bws b) >? len rhs then truncate b (len rhs) else ret b) ;;
  from_buffer (setws b1 (tow (len (bws b1)) (Z.land (val (bws b1)) (val rhs)))).

Definition and_mag (a b : targ) : M_ repr :=
  match small_of a, small_of b with
  | Some x, Some y => ret (from_dword (Z.land x y))
  | Some x, None => d <- lowest_dword_of (twords b) ;; release b ;;; ret (from_dword (Z.land x d))
  | None, Some y => d <- lowest_dword_of (twords a) ;; release a ;;; ret (from_dword (Z.land d y))
  | None, None =>
      match a, b with
      | TLarge b0, TLarge b1 =>
          if len (bws b0) <=? len (bws b1) then r <- bitand_large b0 (bws b1) ;; drop_buffer b1 ;;; ret r
          else r <- bitand_large b1 (bws b0) ;; drop_buffer b0 ;;; ret r
      | TLarge b0, TRefLarge w1 => bitand_large b0 w1
      | TRefLarge w0, TLarge b1 => bitand_large b1 w0
      | TRefLarge w0, TRefLarge w1 =>
          if len w0 <=? len w1 then b0 <- buffer_from w0 ;; bitand_large b0 w1 else b1 <- buffer_from w1 ;; bitand_large b1 w0
      | _, _ => bad 30
      end
  end.

(** bitor / bitxor share their buffer handling; f is Z.lor or Z.lxor *)
Definition bitop_large_dword (f : Z -> Z -> Z) (b : buffer) (dw : Z) : M_ repr :=
  guard 13 (2 <=? len (bws b)) ;;; guard 15 (2 <=? len (bws b)) ;;;
  from_buffer (setws b (tow (len (bws b)) (f (val (bws b)) dw))).

Definition bitop_large (f : Z -> Z -> Z) (b : buffer) (rhs : list Z) : M_ repr :=
  let n := len (bws b) in
  b1 <- (if len rhs >? n then b' <- ensure_capacity b (len rhs) ;; push_slice b' (skipn (Z.to_nat n) rhs) else ret b) ;;
  from_buffer (setws b1 (tow (len (bws b1)) (f (val (bws b)) (val rhs)))).

Definition orx_mag (f : Z -> Z -> Z) (a b : targ) : M_ repr :=
  match small_of a, small_of b with
  | Some x, Some y => ret (from_dword (f x y))
  | Some x, None => bb <- own_large b ;; bitop_large_dword f bb x
  | None, Some y => ba <- own_large a ;; bitop_large_dword f ba y
  | None, None =>
      match a, b with
      | TLarge b0, TLarge b1 =>
          if len (bws b1) <=? len (bws b0) then r <- bitop_large f b0 (bws b1) ;; drop_buffer b1 ;;; ret r
          else r <- bitop_large f b1 (bws b0) ;; drop_buffer b0 ;;; ret r
      | TLarge b0, TRefLarge w1 => bitop_large f b0 w1
      | TRefLarge w0, TLarge b1 => bitop_large f b1 w0
      | TRefLarge w0, TRefLarge w1 =>
          if len w1 <=? len w0 then b0 <- buffer_from w0 ;; bitop_large f b0 w1 else b1 <- buffer_from w1 ;; bitop_large f b1 w0
      | _, _ => bad 30
      end
  end.

(* ------------------------------------------------------------------ div_ops.rs *)
(** div_rem_in_lhs: lhs = [lhs mod rhs (len rhs words), lhs / rhs], the top quotient word is pushed
    (push_resizing); the scratch MemoryAllocation is the subject of ScratchModel.v *)
Definition div_rem_in_lhs (lhs rhs : buffer) : M_ buffer :=
  let n := len (bws rhs) in let k := len (bws lhs) - n in
  let q := val (bws lhs) / val (bws rhs) in let r := val (bws lhs) mod val (bws rhs) in
  push_resizing (setws lhs (tow n r ++ tow k q)) (q / Bw ^ k).

Definition div_large (lhs rhs : buffer) : M_ repr :=
  l1 <- div_rem_in_lhs lhs rhs ;; l2 <- erase_front l1 (len (bws rhs)) ;; r <- from_buffer l2 ;; drop_buffer rhs ;;; ret r.

Definition rem_large (lhs rhs : buffer) : M_ repr :=
  l1 <- div_rem_in_lhs lhs rhs ;; guard 16 (len (bws rhs) <=? len (bws l1)) ;;;
  r <- from_buffer (setws rhs (tow (len (bws rhs)) (val (bws lhs) mod val (bws rhs)))) ;; drop_buffer l1 ;;; ret r.

Definition div_large_dword (b : buffer) (dw : Z) : M_ outcome :=
  if dw =? 0 then drop_buffer b ;;; ret (Thrown DivideBy0)
  else done (from_buffer (setws b (tow (len (bws b)) (val (bws b) / dw)))).

Definition div_mag (a b : targ) : M_ outcome :=
  match small_of a, small_of b with
  | Some x, Some y => if y =? 0 then ret (Thrown DivideBy0) else ret (Done (from_dword (x / y)))
  | Some _, None => release b ;;; ret (Done zero)
  | None, Some y => ba <- own_large a ;; div_large_dword ba y
  | None, None =>
      if len (twords b) <=? len (twords a) then la <- own_large a ;; lb <- own_large b ;; done (div_large la lb)
      else release a ;;; release b ;;; ret (Done zero)
  end.

(** Buffer::clone_from_slice *)
Definition clone_from_slice (b : buffer) (src : list Z) : M_ buffer :=
  if len src <=? bcap b then ret (setws b src) else drop_buffer b ;;; buffer_from src.

Definition rem_mag (a b : targ) : M_ outcome :=
  match small_of a, small_of b with
  | Some x, Some y => if y =? 0 then ret (Thrown DivideBy0) else ret (Done (from_dword (x mod y)))
  | Some x, None => release b ;;; ret (Done (from_dword x))
  | None, Some y => release a ;;; if y =? 0 then ret (Thrown DivideBy0) else ret (Done (from_dword (val (twords a) mod y)))
  | None, None =>
      if len (twords b) <=? len (twords a) then la <- own_large a ;; lb <- own_large b ;; done (rem_large la lb)
      else match a, b with
           | TLarge b0, _ => r <- from_buffer b0 ;; release b ;;; ret (Done r)
           | TRefLarge w0, TLarge b1 => b' <- clone_from_slice b1 w0 ;; done (from_buffer b')
           | TRefLarge w0, _ => b0 <- buffer_from w0 ;; done (from_buffer b0)
           | _, _ => bad 30
           end
  end.

(* ------------------------------------------------------------------ Buffer -> Box<[Word]> (buffer.rs into_boxed_slice) *)
(** Buffer::into_boxed_slice: the block is reallocated to exactly len words - `realloc` is handed the OLD
    layout (capacity words), which must be the layout of the allocation (guard 11) -, the Box<[Word]> owns
    (block, len words) and its drop frees the block with the layout of len words (again guard 11: a block
    is freed with the size it was last (re)allocated with).  An empty buffer is dropped, the box owns nothing.
    Users: ConstLargeDivisor::new, ReducedLarge::{one, from_ubig}, inv_large, convert_from_normalized. *)
Definition into_boxed_slice (b : buffer) : M_ (option Z * list Z) :=
  if len (bws b) =? 0 then drop_buffer b ;;; ret (None, [])
  else deallocate_raw (bptr b) (bcap b) ;;; p <- raw_alloc (len (bws b)) ;; ret (Some p, bws b).
Definition drop_box (bx : option Z * list Z) : M_ unit :=
  match fst bx with Some p => deallocate_raw p (len (snd bx)) | None => ret tt end.

(** ConstDivisor::new(x) followed by ConstDivisor::value() and the drop of the divisor: the buffer of a large x
    becomes the boxed normalized divisor, value() copies it into a fresh buffer *)
Definition divisor_value (x : targ) : M_ outcome :=
  match x with
  | TSmall dw | TRefSmall dw => if dw =? 0 then ret (Thrown DivideBy0) else ret (Done (from_dword dw))
  | TLarge bf => bx <- into_boxed_slice bf ;; nb <- buffer_from (snd bx) ;; r <- from_buffer nb ;; drop_box bx ;;; ret (Done r)
  | _ => bad 30
  end.

(* ------------------------------------------------------------------ the pool machine *)
Inductive opnd := ByVal (i : nat) | ByRef (i : nat) | ByStatic (s : sign) (ws : list Z).
Inductive ctor := CWords (s : sign) (ws : list Z) | CDword (s : sign) (dw : Z) | COnes (n : Z).
Inductive binop := BAdd | BSub | BMul | BIAdd | BISub | BIMul | BAnd | BOr | BXor | BDiv | BRem | BIDiv | BIRem.
Inductive op :=
| OCtor (d : nat) (c : ctor)
| OClone (d : nat) (a : opnd)
| OCloneFrom (d : nat) (a : opnd)
| ODrop (d : nat)
| OMove (d s : nat)
| OSwap (a b : nat)
| ONeg (d : nat)
| OAbs (d : nat)
| OBin (f : binop) (d : nat) (a b : opnd)
| OShl (d : nat) (a : opnd) (n : Z)
| OShr (d : nat) (a : opnd) (n : Z)
| OSetBit (d : nat) (n : Z)
| OClrBit (d : nat) (n : Z)
| ODivisor (d b : nat)
| OInstall (d : nat) (s : sign) (ws : list Z) (cap : Z).

Fixpoint set_nth (i : nat) (x : repr) (l : list repr) : list repr :=
  match l, i with
  | [], _ => []
  | _ :: r, O => x :: r
  | y :: r, S k => y :: set_nth k x r
  end.
Definition get (i : nat) (pool : list repr) : repr := nth i pool zero.

Definition opnd_view (o : opnd) (pool : list repr) : view :=
  match o with ByVal i | ByRef i => view_of (get i pool) | ByStatic s ws => static_view s ws end.
(** (sign, operand) and the pool after a by-value operand was moved out (std::mem::take leaves zero) *)
Definition fetch (o : opnd) (pool : list repr) : (sign * targ) * list repr :=
  match o with
  | ByVal i => let r := get i pool in ((rsign r, typed r), set_nth i zero pool)
  | ByRef i => let r := get i pool in ((rsign r, typed_ref (view_of r)), pool)
  | ByStatic s ws => let v := static_view s ws in ((match v with VInline s' _ _ _ => s' | VHeap s' _ _ => s' end, typed_ref v), pool)
  end.
(** `pool[d] = r`: the old value of the slot is dropped *)
Definition store (d : nat) (r : repr) (pool : list repr) : M_ (list repr) :=
  repr_drop (get d pool) ;;; ret (set_nth d r pool).
Definition store_out (d : nat) (o : outcome) (pool : list repr) : M_ (list repr * option reason) :=
  match o with
  | Done r => p <- store d r pool ;; ret (p, None)
  | Thrown y => ret (pool, Some y)
  end.

Definition run_ctor (c : ctor) : M_ repr :=
  match c with
  | CWords s ws => b <- buffer_from ws ;; r <- from_buffer b ;; ret (with_sign r s)
  | CDword s dw => ret (with_sign (from_dword dw) s)
  | COnes n => ones n
  end.

Definition run_bin (f : binop) (s0 : sign) (a : targ) (s1 : sign) (b : targ) : M_ outcome :=
  match f with
  | BAdd => done (add_mag a b)
  | BSub => sub_mag a b
  | BMul => done (mul_mag a b)
  | BIAdd => match s0, s1 with
             | Positive, Positive => done (add_mag a b)
             | Positive, Negative => sub_signed a b
             | Negative, Positive => sub_signed b a
             | Negative, Negative => r <- add_mag a b ;; ret (Done (with_sign r Negative))
             end
  | BISub => match s0, s1 with
             | Positive, Positive => sub_signed a b
             | Positive, Negative => done (add_mag a b)
             | Negative, Positive => r <- add_mag a b ;; ret (Done (with_sign r Negative))
             | Negative, Negative => sub_signed b a
             end
  | BIMul => r <- mul_mag a b ;; ret (Done (with_sign r (sign_mul s0 s1)))
  | BAnd => done (and_mag a b)
  | BOr => done (orx_mag Z.lor a b)
  | BXor => done (orx_mag Z.lxor a b)
  | BDiv => div_mag a b
  | BRem => rem_mag a b
  | BIDiv => o <- div_mag a b ;; ret (omap (fun r => with_sign r (sign_mul s0 s1)) o)
  | BIRem => o <- rem_mag a b ;; ret (omap (fun r => with_sign r s0) o)
  end.

Definition install (s : sign) (ws : list Z) (cap : Z) : M_ repr :=
  match ws with
  | [] => ret zero
  | [x] => ret (with_sign (from_word x) s)
  | [x; y] => ret (with_sign (from_dword (x + Bw * y)) s)
  | _ => p <- allocate_raw cap ;; ret (RHeap s (mkbuf p ws cap))
  end.

Definition wordb (x : Z) : bool := (0 <=? x) && (x <? Bw).
Definition repr_ok_b (r : repr) : bool :=
  match r with
  | RInline s lo hi cap =>
      wordb lo && wordb hi &&
      (((cap =? 1) && (hi =? 0) && (negb (lo =? 0) || is_pos s)) || ((cap =? 2) && negb (hi =? 0)))
  | RHeap s b =>
      (3 <=? len (bws b)) && Words.wfb w (bws b) && negb (last (bws b) 0 =? 0) &&
      (len (bws b) <=? bcap b) && (bcap b <=? max_compact_capacity (len (bws b)))
  end.

Definition step (o : op) (pool : list repr) : M_ (list repr * option reason) :=
  match o with
  | OCtor d c => r <- run_ctor c ;; p <- store d r pool ;; ret (p, None)
  | OClone d a => r <- repr_clone (opnd_view a pool) ;; p <- store d r pool ;; ret (p, None)
  | OCloneFrom d a => r <- repr_clone_from (get d pool) (opnd_view a pool) ;; ret (set_nth d r pool, None)
  | ODrop d => p <- store d zero pool ;; ret (p, None)
  | OMove d s => let r := get s pool in p <- store d r (set_nth s zero pool) ;; ret (p, None)
  | OSwap a b => let x := get a pool in let y := get b pool in ret (set_nth b x (set_nth a y pool), None)
  | ONeg d => ret (set_nth d (neg (get d pool)) pool, None)
  | OAbs d => ret (set_nth d (with_sign (get d pool) Positive) pool, None)
  | OBin f d a b =>
      let '((s0, x), p1) := fetch a pool in
      let '((s1, y), p2) := fetch b p1 in
      o <- run_bin f s0 x s1 y ;; store_out d o p2
  | OShl d a n => let '((_, x), p1) := fetch a pool in r <- shl_mag x n ;; p <- store d r p1 ;; ret (p, None)
  | OShr d a n => let '((_, x), p1) := fetch a pool in r <- shr_mag x n ;; p <- store d r p1 ;; ret (p, None)
  | OSetBit d n => let '((_, x), p1) := fetch (ByVal d) pool in r <- set_bit x n ;; p <- store d r p1 ;; ret (p, None)
  | OClrBit d n => let '((_, x), p1) := fetch (ByVal d) pool in r <- clear_bit x n ;; p <- store d r p1 ;; ret (p, None)
  | ODivisor d b => let '((_, x), p1) := fetch (ByVal b) pool in o <- divisor_value x ;; store_out d o p1
  | OInstall d s ws cap =>
      r <- install s ws cap ;; guard 100 (repr_ok_b r) ;;; p <- store d r pool ;; ret (p, None)
  end.

Fixpoint run (ops : list op) (pool : list repr) : M_ (list repr) :=
  match ops with
  | [] => ret pool
  | o :: rest => pr <- step o pool ;; run rest (fst pr)
  end.

(** end of a history: every value of the pool is dropped *)
Fixpoint drop_all (pool : list repr) : M_ unit :=
  match pool with [] => ret tt | r :: rest => repr_drop r ;;; drop_all rest end.

(* ------------------------------------------------------------------ the specification of a layout *)
(** number of words of a magnitude *)
Definition nwords_of (a : Z) : Z := if a =? 0 then 0 else Z.log2 a / w + 1.
(** what the property demands of (signed capacity, length) for the value v *)
Definition layout_ok_b (scap ln v : Z) : bool :=
  let n := nwords_of (Z.abs v) in
  let c := Z.abs scap in
  (ln =? n) &&
  (if v =? 0 then scap =? 1 else Bool.eqb (0 <? scap) (0 <? v)) &&
  (if n <=? 1 then c =? 1 else if n =? 2 then c =? 2 else (n <=? c) && (c <=? max_compact_capacity n)).

End Storage.
