(** C07 (round 4): the Debug printer over C12's as-is model of log::repr::log_word_base
    (IoDebugLwbModel.debug_lwb_asis) prints its specification, for EVERY estimate of the exponent that passes
    the code's own `assert!(est_pow <= target)`.  What was a hypothesis on the logarithm in C07_debug is now
    C12's theorem (GrlLogProof.log_word_base_asis_correct); this file adds the termination of the two loops of
    log_word_base within a fuel that can be executed (bit length + 1; C12's bound is linear in the target). *)
From Dashu Require Import Base.Prelude Base.Words Int.IoSpec Int.IoModel Int.IoRadix Int.IoDebugModel Int.IoDebug Int.IoDebugLwbModel.
From Dashu Require Int.GrlModel Int.GrlSpec Int.GrlSpecProof Int.GrlLogProof.
From DashuGen Require Import IoTables3.
Open Scope Z_scope.

Module G := GrlModel.

Lemma p2p k : 0 <= k -> 0 < 2 ^ k.
Proof. intros. apply Z.pow_pos_nonneg; lia. Qed.

Lemma gwlen_mono w a b : 0 < w -> 0 < a <= b -> G.wlen w a <= G.wlen w b.
Proof.
  intros Hw H. unfold G.wlen. destruct (Z.eqb_spec a 0); [lia|]. destruct (Z.eqb_spec b 0); [lia|].
  pose proof (Z.log2_le_mono a b ltac:(lia)). pose proof (Z.div_le_mono (Z.log2 a) (Z.log2 b) w Hw H0). lia.
Qed.

Lemma grow_step p b f t : 1 <= p -> 2 <= b -> 0 <= f -> t < p * (2 * f) -> t < p * b * f.
Proof.
  intros Hp Hb Hf H. assert (p * (2 * f) <= p * b * f); [|lia].
  replace (p * (2 * f)) with ((p * f) * 2) by ring. replace (p * b * f) with ((p * f) * b) by ring.
  apply Z.mul_le_mono_nonneg_l; [apply Z.mul_nonneg_nonneg; lia | lia].
Qed.

(** stage A of log_word_base ends within log2(target / est_pow) + 1 rounds *)
Lemma stage_a_total w target wbase wexp : 0 < w -> 1 <= target -> 2 <= wbase -> forall fuel est est_pow,
  1 <= est_pow -> target < est_pow * 2 ^ Z.of_nat fuel ->
  exists r, G.lwb_stage_a (S fuel) w target wbase wexp est est_pow = Ok r.
Proof.
  intros Hw Ht Hwb. induction fuel as [|f IH]; intros est est_pow Hp Hlt.
  - cbn [Z.of_nat] in Hlt. rewrite Z.pow_0_r, Z.mul_1_r in Hlt. cbn [G.lwb_stage_a].
    pose proof (gwlen_mono w target est_pow Hw ltac:(lia)).
    destruct (Z.ltb_spec (G.wlen w est_pow) (G.wlen w target)); [lia | eauto].
  - remember (S f) as sf. cbn [G.lwb_stage_a]. subst sf.
    destruct (Z.ltb_spec (G.wlen w est_pow) (G.wlen w target)); [|eauto].
    match goal with |- exists r, (if ?c then _ else _) = _ => destruct c end; [eauto|].
    apply IH.
    + assert (1 * 1 <= est_pow * wbase) by (apply Z.mul_le_mono_nonneg; lia). lia.
    + rewrite Nat2Z.inj_succ, Z.pow_succ_r in Hlt by lia. pose proof (p2p (Z.of_nat f) ltac:(lia)). apply grow_step; lia.
Qed.

Lemma stage_b_total target base : 2 <= base -> forall fuel est est_pow,
  1 <= est_pow -> target < est_pow * 2 ^ Z.of_nat fuel ->
  exists r, G.lwb_stage_b (S fuel) target base est est_pow = Ok r.
Proof.
  intros Hb. induction fuel as [|f IH]; intros est est_pow Hp Hlt.
  - cbn [Z.of_nat] in Hlt. rewrite Z.pow_0_r, Z.mul_1_r in Hlt. cbn [G.lwb_stage_b].
    destruct (Z.ltb_spec est_pow target); [lia|]. destruct (est_pow =? target); eauto.
  - remember (S f) as sf. cbn [G.lwb_stage_b]. subst sf.
    destruct (Z.ltb_spec est_pow target); [|destruct (est_pow =? target); eauto].
    apply IH.
    + assert (1 * 1 <= est_pow * base) by (apply Z.mul_le_mono_nonneg; lia). lia.
    + rewrite Nat2Z.inj_succ, Z.pow_succ_r in Hlt by lia. pose proof (p2p (Z.of_nat f) ltac:(lia)). apply grow_step; lia.
Qed.

Lemma blen_cover m : 1 <= m -> m < 1 * 2 ^ Z.of_nat (Z.to_nat (blen m)).
Proof.
  intros Hm. unfold blen. destruct (Z.leb_spec m 0); [lia|]. pose proof (Z.log2_nonneg m).
  rewrite Z2Nat.id by lia. pose proof (Z.log2_spec m ltac:(lia)). replace (Z.log2 m + 1) with (Z.succ (Z.log2 m)) by lia. lia.
Qed.

(** log_word_base: total (no OutOfFuel, the assertion passes) for every estimate with base^est <= target,
    and - C12's theorem - the result is the floor logarithm and its power *)
Theorem lwb_fuel_suffices w target base wexp est : 0 < w -> 2 <= base -> 1 <= target -> 1 <= wexp -> base ^ wexp < 2 ^ w ->
  2 <= G.wlen w target -> 0 <= est -> base ^ est <= target ->
  exists e, G.log_word_base_asis (lwb_fuel target) w est wexp target base = Ok (e, base ^ e) /\
            GrlSpec.ilog_cert target base e = true.
Proof.
  intros Hw Hb Ht Hwe Hwb Hwl He Hle.
  assert (Hep : 1 <= base ^ est) by (pose proof (Z.pow_pos_nonneg base est ltac:(lia) He); lia).
  assert (Hwb2 : 2 <= base ^ wexp).
  { replace 2 with (2 ^ 1) by reflexivity. apply Z.le_trans with (base ^ 1); [apply Z.pow_le_mono_l; lia | apply Z.pow_le_mono_r; lia]. }
  assert (Hcov : forall p, 1 <= p -> target < p * 2 ^ Z.of_nat (Z.to_nat (blen target))).
  { intros p Hp. pose proof (blen_cover target Ht) as C. set (P := 2 ^ Z.of_nat (Z.to_nat (blen target))) in *.
    assert (1 * P <= p * P) by (apply Z.mul_le_mono_nonneg_r; lia). lia. }
  assert (T : exists r, G.log_word_base_asis (lwb_fuel target) w est wexp target base = Ok r).
  { unfold G.log_word_base_asis, lwb_fuel. destruct (Z.ltb_spec target (base ^ est)); [lia|].
    destruct (stage_a_total w target (base ^ wexp) wexp Hw Ht Hwb2 (Z.to_nat (blen target)) est (base ^ est) Hep (Hcov _ Hep)) as ([e1 p1] & A).
    rewrite A. cbn [rbind fst snd].
    destruct (GrlLogProof.lwb_stage_a_correct target base Hb Ht w Hw (base ^ wexp) wexp ltac:(lia) eq_refl Hwb _ est (base ^ est) e1 p1 Hwl He eq_refl Hle A)
      as (A0 & A1 & A2).
    assert (Hp1 : 1 <= p1) by (subst p1; pose proof (Z.pow_pos_nonneg base e1 ltac:(lia) A0); lia).
    apply (stage_b_total target base Hb _ e1 p1 Hp1 (Hcov _ Hp1)). }
  destruct T as ([e p] & E).
  destruct (GrlLogProof.log_word_base_asis_correct target base Hb Ht w Hw (base ^ wexp) wexp ltac:(lia) eq_refl Hwb _ est e p Hwl He E) as [C P].
  exists e. subst p. split; [exact E | exact C].
Qed.

(** below a double word the printer does not call the logarithm *)
Lemma debug_small_indep w L il1 il2 plus alt v : Z.abs v < Bw w * Bw w ->
  debug_asis w L il1 plus alt v = debug_asis w L il2 plus alt v.
Proof.
  intros H. unfold debug_asis. destruct (radix_info w (dl_radix L)) as [dpw R].
  destruct (Z.abs v <? Bw w); [reflexivity|]. destruct (Z.ltb_spec (Z.abs v) (Bw w * Bw w)); [reflexivity | lia].
Qed.

(** above it the tail after the call is debug_asis with the call's result *)
Lemma debug_large_is w L il plus alt v dpw R : radix_info w (dl_radix L) = (dpw, R) -> Bw w <= Z.abs v -> Bw w * Bw w <= Z.abs v ->
  debug_asis w L il plus alt v =
  debug_large_tail w L (v <? 0) plus alt (Z.abs v) dpw R (il (Z.abs v)) (dl_radix L ^ il (Z.abs v)).
Proof.
  intros Hi H1 H2. unfold debug_asis, debug_large_tail. rewrite Hi.
  destruct (Z.ltb_spec (Z.abs v) (Bw w)); [lia|]. destruct (Z.ltb_spec (Z.abs v) (Bw w * Bw w)); [lia|]. reflexivity.
Qed.

Theorem debug_lwb_asis_correct w est plus alt v : 8 <= w -> w mod 2 = 0 ->
  (forall m, Bw w * Bw w <= m -> 0 <= est m /\ 10 ^ est m <= m) ->
  blen (Z.abs v) < Bw w ->
  debug_lwb_asis w gen_dbg_lits est plus alt v = Ok (debug_spec (fst (radix_info w 10)) (Bw w * Bw w) plus alt v).
Proof.
  intros Hw He Hest Hb. unfold debug_lwb_asis. set (m := Z.abs v) in *.
  pose proof (Bw_256 w Hw) as H256.
  destruct (Z.ltb_spec m (Bw w * Bw w)) as [Hs|Hl].
  - rewrite (debug_small_indep w gen_dbg_lits (fun _ => 0) (ilog_exact 10) plus alt v Hs).
    apply debug_asis_exact; assumption.
  - change (dl_radix gen_dbg_lits) with 10.
    destruct (radix_info_ok w 10 ltac:(lia) He ltac:(lia) ltac:(lia)) as (dpw & R & Hinfo & Hd & HR & Hlt & Hle).
    rewrite Hinfo.
    assert (Hm1 : 1 <= m) by nia.
    assert (HBB : Bw w * Bw w = 2 ^ (2 * w)) by (unfold Bw; rewrite <- Z.pow_add_r by lia; f_equal; lia).
    assert (Hwl : 2 <= G.wlen w m).
    { unfold G.wlen. destruct (Z.eqb_spec m 0); [lia|].
      assert (2 * w <= Z.log2 m) by (apply Z.log2_le_pow2; lia).
      pose proof (Z.div_le_mono (2 * w) (Z.log2 m) w ltac:(lia) H). rewrite Z.div_mul in H0 by lia. lia. }
    destruct (Hest m Hl) as [He0 Hele].
    destruct (lwb_fuel_suffices w m 10 dpw (est m) ltac:(lia) ltac:(lia) Hm1 ltac:(lia) ltac:(rewrite <- HR; exact Hlt) Hwl He0 Hele)
      as (e & E & C).
    rewrite E. cbn [rbind fst snd].
    set (il := fun m' => if m' =? m then e else ilog_exact 10 m').
    assert (Eil : il m = e) by (unfold il; rewrite Z.eqb_refl; reflexivity).
    rewrite <- Eil.
    assert (HBm : Bw w <= Z.abs v) by (fold m; nia).
    pose proof (debug_large_is w gen_dbg_lits il plus alt v dpw R Hinfo HBm Hl) as K.
    change (dl_radix gen_dbg_lits) with 10 in K. fold m in K. rewrite <- K.
    change dpw with (fst (dpw, R)). rewrite <- Hinfo.
    apply debug_asis_correct; try assumption.
    intros m' Hm'. unfold il. destruct (Z.eqb_spec m' m) as [->|N].
    + pose proof (GrlSpecProof.ilog_cert_meaning m 10 e C) as K'. rewrite Z.abs_eq in K' by lia. exact K'.
    + apply ilog_exact_ok. nia.
Qed.

(** the estimate the oracle runs with is admissible *)
Lemma est_under_ok m : 1 <= m -> 0 <= est_under m /\ 10 ^ est_under m <= m.
Proof.
  intros Hm. destruct (ilog_exact_ok m Hm) as (H0 & H1 & _). unfold est_under.
  pose proof (Z.mod_pos_bound m 41 ltac:(lia)). split; [lia|].
  apply Z.le_trans with (10 ^ ilog_exact 10 m); [apply Z.pow_le_mono_r; lia | exact H1].
Qed.

Corollary debug_lwb_asis_under w plus alt v : 8 <= w -> w mod 2 = 0 -> blen (Z.abs v) < Bw w ->
  debug_lwb_asis w gen_dbg_lits est_under plus alt v = Ok (debug_spec (fst (radix_info w 10)) (Bw w * Bw w) plus alt v).
Proof.
  intros Hw He Hb. apply debug_lwb_asis_correct; try assumption. intros m Hm. apply est_under_ok.
  pose proof (Bw_256 w Hw). nia.
Qed.

(** non-vacuity: 10^40 + 7 on 64-bit words with a poor estimate (both loops of log_word_base run) and with the exact one *)
Example debug_lwb_asis_ex :
  debug_lwb_asis 64 gen_dbg_lits (fun _ => 3) true true (10 ^ 40 + 7) =
  Ok (debug_spec 19 (2 ^ 128) true true (10 ^ 40 + 7)) /\
  debug_lwb_asis 64 gen_dbg_lits (fun _ => 40) false false (- (10 ^ 40 + 7)) =
  Ok (debug_spec 19 (2 ^ 128) false false (- (10 ^ 40 + 7))).
Proof. split; vm_compute; reflexivity. Qed.
