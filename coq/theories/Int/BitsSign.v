(** C09: the sign-case tables of the IBig bit operators (regenerated from integer/src/bits.rs and
    shift_ops.rs into DashuGen.SignTables on every run) compute the infinite two's-complement
    operations Z.land / Z.lor / Z.lxor / Z.lnot / Z.shiftr on the signed values. *)
From Dashu Require Import Base.Prelude.
From DashuGen Require Import SignTables.
Open Scope Z_scope.

Lemma neg_as_lnot m : - m = Z.lnot (m - 1).
Proof. unfold Z.lnot. rewrite <- Z.sub_1_r. lia. Qed.

Lemma signed_pos m : signed Positive m = m.
Proof. unfold signed; cbn [sgnz]; lia. Qed.
Lemma signed_neg m : signed Negative m = Z.lnot (m - 1).
Proof. unfold signed; cbn [sgnz]. rewrite <- neg_as_lnot. lia. Qed.

Ltac bits := apply Z.bits_inj'; intros i Hi;
  repeat first [ rewrite Z.land_spec | rewrite Z.lor_spec | rewrite Z.lxor_spec
               | rewrite Z.ldiff_spec | rewrite Z.lnot_spec by assumption ];
  repeat match goal with |- context [Z.testbit ?a i] => destruct (Z.testbit a i) end; reflexivity.

Theorem ibig_bitand_correct s0 m0 s1 m1 :
  ibig_bitand_gen s0 m0 s1 m1 = Z.land (signed s0 m0) (signed s1 m1).
Proof. destruct s0, s1; unfold ibig_bitand_gen; rewrite ?signed_pos, ?signed_neg; bits. Qed.

Theorem ibig_bitor_correct s0 m0 s1 m1 :
  ibig_bitor_gen s0 m0 s1 m1 = Z.lor (signed s0 m0) (signed s1 m1).
Proof. destruct s0, s1; unfold ibig_bitor_gen; rewrite ?signed_pos, ?signed_neg; bits. Qed.

Theorem ibig_bitxor_correct s0 m0 s1 m1 :
  ibig_bitxor_gen s0 m0 s1 m1 = Z.lxor (signed s0 m0) (signed s1 m1).
Proof. destruct s0, s1; unfold ibig_bitxor_gen; rewrite ?signed_pos, ?signed_neg; bits. Qed.

(** UBig & IBig and IBig & UBig return a UBig: the unsigned operand is positive by type *)
Theorem ubig_ibig_bitand_correct m0 s1 m1 :
  ubig_ibig_bitand_gen Positive m0 s1 m1 = Z.land m0 (signed s1 m1).
Proof. destruct s1; unfold ubig_ibig_bitand_gen; rewrite ?signed_pos, ?signed_neg; bits. Qed.

Theorem ibig_ubig_bitand_correct s0 m0 m1 :
  ibig_ubig_bitand_gen s0 m0 Positive m1 = Z.land (signed s0 m0) m1.
Proof. destruct s0; unfold ibig_ubig_bitand_gen; rewrite ?signed_pos, ?signed_neg; bits. Qed.

Theorem ubig_ibig_bitand_nonneg m0 s1 m1 : 0 <= m0 -> 0 <= Z.land m0 (signed s1 m1).
Proof. intros H. apply Z.land_nonneg. now left. Qed.

Theorem ibig_not_correct s m : ibig_not_gen s m = Z.lnot (signed s m) /\ ibig_not_ref_gen s m = Z.lnot (signed s m).
Proof. destruct s; unfold ibig_not_gen, ibig_not_ref_gen, signed, Z.lnot; cbn [sgnz]; rewrite <- !Z.sub_1_r; lia. Qed.

(** arithmetic right shift: floor division by 2^n *)
Lemma shr_neg m n : 0 <= n -> 0 <= m ->
  - Z.shiftr m n - Z.b2z (low_bits_nonzero m n) = Z.shiftr (- m) n.
Proof.
  intros Hn Hm. rewrite !Z.shiftr_div_pow2 by assumption. unfold low_bits_nonzero.
  assert (Hp : 0 < 2 ^ n) by (apply Z.pow_pos_nonneg; lia).
  destruct (Z.eqb_spec (m mod 2 ^ n) 0) as [E|E]; simpl.
  - rewrite Z.sub_0_r. symmetry. apply Z_div_zero_opp_full. exact E.
  - rewrite Z_div_nz_opp_full by (try exact E; lia). lia.
Qed.

Theorem ibig_shr_correct s m n : 0 <= n -> 0 <= m ->
  ibig_shr_gen s m n = Z.shiftr (signed s m) n /\ ibig_shr_ref_gen s m n = Z.shiftr (signed s m) n.
Proof.
  intros Hn Hm. destruct s; unfold ibig_shr_gen, ibig_shr_ref_gen, signed; cbn [sgnz].
  - rewrite Z.mul_1_l. split; reflexivity.
  - replace (-1 * m) with (- m) by lia. split; apply shr_neg; assumption.
Qed.

Theorem ibig_shr_floor s m n : 0 <= n -> 0 <= m -> ibig_shr_gen s m n = signed s m / 2 ^ n.
Proof. intros Hn Hm. rewrite (proj1 (ibig_shr_correct s m n Hn Hm)). apply Z.shiftr_div_pow2; assumption. Qed.

(** `big & unsigned primitive` returns the primitive type through try_into().unwrap(): the
    conversion cannot fail, for a big operand of either sign the result fits the k bits of the
    primitive operand *)
Theorem land_unsigned_prim_fits x p k : 0 <= k -> 0 <= p < 2 ^ k -> 0 <= Z.land x p < 2 ^ k.
Proof.
  intros Hk Hp. assert (E : Z.land x p = Z.land x p mod 2 ^ k).
  { rewrite <- Z.land_ones by assumption. rewrite <- Z.land_assoc. rewrite Z.land_ones by assumption.
    rewrite (Z.mod_small p) by assumption. reflexivity. }
  rewrite E. apply Z.mod_pos_bound. apply Z.pow_pos_nonneg; lia.
Qed.
