(** C12 - AS-IS model of the no_std log2 estimator of base/src/math/log.rs (definitions only):
    LOG2_TAB, log2_fp8, ceil_log2_fp8 and EstimatedLog2::log2_bounds for u8 / u16 when the std
    feature is off.  Bounds are dyadic fractions (m, k) = m / 2^k (every f32 operation of the
    source on these values - conversion of an integer <= 4096, division by 256, 4, 2 - is exact). *)
From Dashu Require Import Base.Prelude Int.GrlSpec.
Open Scope Z_scope.

Definition LOG2_TAB : list Z :=
  [0; 2; 5; 8; 11; 14; 16; 19; 22; 25; 27; 30; 33; 35; 38; 40; 43; 46; 48; 51; 53; 56; 58; 61; 63; 65; 68; 70;
   73; 75; 77; 80; 82; 84; 87; 89; 91; 93; 96; 98; 100; 102; 104; 106; 109; 111; 113; 115; 117; 119; 121; 123;
   125; 127; 129; 132; 134; 136; 138; 140; 141; 143; 145; 147; 149; 151; 153; 155; 157; 159; 161; 162; 164;
   166; 168; 170; 172; 173; 175; 177; 179; 181; 182; 184; 186; 188; 189; 191; 193; 194; 196; 198; 200; 201;
   203; 205; 206; 208; 209; 211; 213; 214; 216; 218; 219; 221; 222; 224; 225; 227; 229; 230; 232; 233; 235;
   236; 238; 239; 241; 242; 244; 245; 247; 248; 250; 251; 253; 254].

(** LOG2_TAB[i - 0x80]; an index outside the table is a panic in the source: modelled by -1000000,
    which makes every bound check fail *)
Definition tab (i : Z) : Z :=
  if (0x80 <=? i) && (i <? 0x100) then nth (Z.to_nat (i - 0x80)) LOG2_TAB (-1000000) else -1000000.

Definition b2z (b : bool) : Z := if b then 1 else 0.

Definition log2_fp8 (n : Z) : Z :=
  let nbits := Z.log2 n + 1 in
  if n <? 0x200 then
    tab (n / 2) + (7 + 1) * 256 + b2z ((n <? 354) && Z.odd n)
  else if n <? 0x4000 + 0x80 then
    let shift := nbits - 8 in
    let mask := n / 2 ^ (shift - 2) in
    tab (mask / 4) + (7 + shift) * 256 + b2z (mask mod 4 =? 3)
  else
    let shift := nbits - 8 in
    let mask := n / 2 ^ (shift - 7) in
    tab (mask / 128) + (7 + shift) * 256 + b2z (80 <=? mask mod 128).

Definition ceil_log2_fp8 (n : Z) : Z :=
  let nbits := Z.log2 n + 1 in
  if n <? 0x80 then
    let shift := 8 - nbits in
    tab (n * 2 ^ shift) + (7 - shift) * 256 + 1
  else if n <? 0x200 then
    let shift := nbits - 8 in
    let est := tab (n / 2 ^ shift) + (7 + shift) * 256 + 1 in
    if (0x100 <? n) && Z.odd n then est + 2 else est
  else
    let shift := nbits - 8 in
    let mask10 := n / 2 ^ (shift - 2) in
    let mask8 := mask10 / 4 in
    if mask8 =? 255 then 0x100 + (7 + shift) * 256
    else tab (mask8 + 1) + (7 + shift) * 256 + 1 - b2z (mask10 mod 4 =? 0).

Definition pow2b (n : Z) : bool := (0 <? n) && (n =? 2 ^ Z.log2 n).

(** (lower, upper) as dyadic fractions; None = (-inf, -inf) *)
Definition dy := (Z * nat)%type.

Definition nostd_log2_u8 (i : Z) : option (dy * dy) :=
  if i =? 0 then None
  else if i =? 1 then Some ((0, 0%nat), (0, 0%nat))
  else if pow2b i then Some ((Z.log2 i, 0%nat), (Z.log2 i, 0%nat))
  else if i =? 3 then Some ((13295629, 23%nat), (13295630, 23%nat))   (* 1.5849625f32, 1.5849626f32 *)
  else if i <? 16 then
    let p := i ^ 4 in Some ((log2_fp8 p, 10%nat), (ceil_log2_fp8 p, 10%nat))
  else
    let p := i ^ 2 in Some ((log2_fp8 p, 9%nat), (ceil_log2_fp8 p, 9%nat)).

Definition nostd_log2_u16 (n : Z) : option (dy * dy) :=
  if n <=? 0xff then nostd_log2_u8 n
  else if pow2b n then Some ((Z.log2 n, 0%nat), (Z.log2 n, 0%nat))
  else Some ((log2_fp8 n, 8%nat), (ceil_log2_fp8 n, 8%nat)).

(** the enclosure check of one value, decided with 40-bit brackets (sound by log2_lb_dec_sound) *)
Definition nostd_check (n : Z) : bool :=
  match nostd_log2_u16 n with
  | None => n =? 0
  | Some ((lm, lk), (um, uk)) =>
      match log2_lb_dec 40 lm lk n 1, log2_lb_dec 40 (- um) uk 1 n with
      | Some true, Some true => true
      | _, _ => false
      end
  end.

Fixpoint zrange (lo : Z) (cnt : nat) : list Z :=
  match cnt with O => [] | S k => lo :: zrange (lo + 1) k end.

(** the gap between the two bounds, in units of 1/256 (u16 path) *)
Definition nostd_gap (n : Z) : Z := ceil_log2_fp8 n - log2_fp8 n.
