(** C13 (round 4) - TOTALITY of C12's as-is model of gcd::lehmer::gcd_ext_in_place and the contract the modular inverse
    needs, for every word size w >= 2 and every operand pair 0 < rhs < lhs:
      gcd_ext_in_place_gen returns Ok (g, |b|, sign)  (no debug assertion, no checked word operation, no buffer bound
      of the model can fire; logarithmic fuel suffices),  g = gcd(lhs, rhs),  0 <= |b| < lhs,  lhs | g - b * rhs.
    Partial correctness (g and the congruence, IF the function returns) is C12's theorem
    GrlLehmerProof.gcd_ext_in_place_gen_correct, cited here.  New here: the cofactor invariant
        t1 * x + t0 * y = lhs      (so every cofactor fits the lhs_len + 1 word buffers),
    the order of the cofactors (t0 <= t1, or after a Lehmer step that came out in the order x' <= y' although the
    number of half steps was even: t0 <= (Q+1) t1 with 2Q < y), which is what keeps the final `t0 += q * t1` inside
    its x.len() + t1_len words, |b| * g <= lhs for the last primitive step, and x * y halving in every iteration.
    The aligned leading words are C12 round 4's theorems (GrlLehmerTopProof.v). *)
From Dashu Require Import Base.Prelude Int.GrlSpec Int.GrlModel Int.GrlGcdProof Int.GrlLehmer Int.GrlLehmerProof Int.GrlLehmerTopProof
  Int.ModRingGcdSmall Int.ModRingLehmerGuess.
From Coq Require Import Znumtheory.
Open Scope Z_scope.

(** ---------------- logarithmic fuel for the primitive extended Euclid ---------------- *)
Lemma euclid_ext_total_log : forall fuel last_r r last_s s last_t t, 0 < r <= last_r -> last_r * r < 2 ^ Z.of_nat fuel ->
  exists res, euclid_ext fuel last_r r last_s s last_t t = Ok res.
Proof.
  induction fuel as [|k IH]; intros last_r r last_s s last_t t Hr Hf.
  - exfalso. change (2 ^ Z.of_nat 0) with 1 in Hf. assert (1 * 1 <= last_r * r) by (apply Z.mul_le_mono_nonneg; lia). lia.
  - cbn [euclid_ext].
    pose proof (Z.div_mod last_r r ltac:(lia)) as DM. pose proof (Z.mod_pos_bound last_r r ltac:(lia)) as MB.
    assert (last_r - last_r / r * r = last_r mod r) as EM by lia. rewrite EM.
    destruct (Z.eqb_spec (last_r mod r) 0) as [R0|R0]; [eauto|]. apply IH; [lia|].
    assert (1 <= last_r / r) as Hq by (apply Z.div_le_lower_bound; lia).
    assert (r * 1 <= r * (last_r / r)) by (apply Z.mul_le_mono_nonneg_l; lia).
    set (m := last_r mod r) in *.
    assert (2 * m <= last_r) as H2 by lia.
    assert (r * (2 * m) <= r * last_r) as H3 by (apply Z.mul_le_mono_nonneg_l; lia).
    rewrite Nat2Z.inj_succ, Z.pow_succ_r in Hf by lia. clear - H3 Hf. lia.
Qed.

Lemma prim_gcd_ext_total_log : forall fuel a b, 0 < a -> 0 < b -> a * b < 2 ^ Z.of_nat fuel ->
  exists res, prim_gcd_ext_asis fuel a b = Ok res.
Proof.
  intros fuel a b Pa Pb Hf. unfold prim_gcd_ext_asis.
  destruct (Z.eqb_spec a 0) as [A0|A0]; [lia|]. destruct (Z.eqb_spec b 0) as [B0|B0]; [lia|]. cbn [andb].
  pose proof (tz_lor a b Pa Pb) as TL. destruct (strip2_spec a Pa) as [_ [_ [_ Ta]]]. destruct (strip2_spec b Pb) as [_ [_ [_ Tb]]].
  set (sh := tz (Z.lor a b)) in *.
  destruct (pow2_tz_divides a sh Pa ltac:(lia)) as [Ea Pa1]. destruct (pow2_tz_divides b sh Pb ltac:(lia)) as [Eb Pb1].
  set (a1 := a / 2 ^ sh) in *. set (b1 := b / 2 ^ sh) in *.
  assert (0 < 2 ^ sh) as P2 by (apply Z.pow_pos_nonneg; lia).
  assert (a1 <= a) by (clear - Ea Pa1 P2; nia). assert (b1 <= b) by (clear - Eb Pb1 P2; nia).
  assert (a1 * b1 <= a * b) as Hp by (apply Z.mul_le_mono_nonneg; lia).
  destruct (Z.leb_spec b1 a1).
  - destruct (b1 =? 1); [eauto|].
    destruct (euclid_ext_total_log fuel a1 b1 1 0 0 1 ltac:(lia) ltac:(lia)) as ([[g1 ca] cb] & ->). cbn [rbind]. eauto.
  - destruct (a1 =? 1); [eauto|].
    destruct (euclid_ext_total_log fuel b1 a1 1 0 0 1 ltac:(lia) ltac:(lia)) as ([[g1 cb] ca] & ->). cbn [rbind]. eauto.
Qed.

Lemma log2_fuel_bound : forall v, 0 < v -> v < 2 ^ Z.of_nat (Z.to_nat (Z.log2 v + 1)).
Proof.
  intros v Hv. pose proof (Z.log2_nonneg v). rewrite Z2Nat.id by lia. apply (log2_bounds v Hv).
Qed.

(** gcd_ext_word / gcd_ext_dword with the logarithmic fuel: the statement of ModRingGcdSmall.gcd_ext_small_ok *)
Theorem gcd_ext_small_log_ok cap lhs rhs : 0 < rhs < lhs -> lhs <= cap ->
  exists g b sg, gcd_ext_small_asis (Z.to_nat (Z.log2 (rhs * (lhs mod rhs)) + 1)) cap lhs rhs = Ok (g, b, sg) /\
    g = Z.gcd lhs rhs /\ 0 <= b < lhs /\ (g = 1 -> (rhs * signed sg b) mod lhs = 1 mod lhs).
Proof.
  intros Hr Hcap.
  destruct (gcd_ext_small_ok cap lhs rhs Hr Hcap) as (g & b & sg & E & Hres).
  exists g, b, sg. split; [|exact Hres].
  unfold gcd_ext_small_asis in *. destruct (Z.eqb_spec (lhs mod rhs) 0) as [R0|R0]; [exact E|].
  pose proof (Z.mod_pos_bound lhs rhs ltac:(lia)) as MB.
  assert (0 < rhs * (lhs mod rhs)) as Pp by (apply Z.mul_pos_pos; lia).
  destruct (prim_gcd_ext_total_log _ rhs (lhs mod rhs) ltac:(lia) ltac:(lia) (log2_fuel_bound _ Pp)) as ([[r s] t] & E2).
  (* the result of the primitive algorithm does not depend on the fuel once it suffices *)
  destruct (prim_gcd_ext_asis (small_fuel rhs) rhs (lhs mod rhs)) as [[[r' s'] t']|?|?|] eqn:E1; cbn [rbind] in E; try discriminate.
  assert ((r, s, t) = (r', s', t')) as Eq.
  { clear - E1 E2. revert E1 E2. unfold prim_gcd_ext_asis.
    destruct (_ && _); [discriminate|]. destruct (_ =? 0); [congruence|]. destruct (_ =? 0); [congruence|].
    assert (forall f1 f2 lr r0 ls s0 lt t0 x y, euclid_ext f1 lr r0 ls s0 lt t0 = Ok x -> euclid_ext f2 lr r0 ls s0 lt t0 = Ok y -> x = y) as Det.
    { induction f1 as [|k IH]; intros f2 lr r0 ls s0 lt t0 x y; [discriminate|]. destruct f2 as [|k2]; [discriminate|].
      cbn [euclid_ext]. destruct (_ =? 0); [congruence|]. apply IH. }
    destruct (_ <=? _).
    - destruct (_ =? 1); [congruence|].
      destruct (euclid_ext (small_fuel rhs) _ _ 1 0 0 1) as [[[g1 ca] cb]|?|?|] eqn:X1; cbn [rbind]; try discriminate.
      destruct (euclid_ext (Z.to_nat _) _ _ 1 0 0 1) as [[[g2 ca2] cb2]|?|?|] eqn:X2; cbn [rbind]; try discriminate.
      pose proof (Det _ _ _ _ _ _ _ _ _ _ X1 X2) as Ed. injection Ed as -> -> ->. congruence.
    - destruct (_ =? 1); [congruence|].
      destruct (euclid_ext (small_fuel rhs) _ _ 1 0 0 1) as [[[g1 ca] cb]|?|?|] eqn:X1; cbn [rbind]; try discriminate.
      destruct (euclid_ext (Z.to_nat _) _ _ 1 0 0 1) as [[[g2 ca2] cb2]|?|?|] eqn:X2; cbn [rbind]; try discriminate.
      pose proof (Det _ _ _ _ _ _ _ _ _ _ X1 X2) as Ed. injection Ed as -> -> ->. congruence. }
  injection Eq as -> -> ->. rewrite E2. cbn [rbind]. exact E.
Qed.

(** ---------------- word counts ---------------- *)
Section Lehmer.
Variable w : Z.
Hypothesis Hw : 2 <= w.
Let w1 : 1 <= w. Proof. lia. Qed.
Local Notation L := (coeff_limit w).

Lemma wlen_ge2 : forall y, 0 <= y -> wlen w y <=? 1 = false -> 2 ^ w <= y.
Proof.
  intros y Hy H. apply Z.leb_gt in H. destruct (Z.eq_dec y 0) as [->|n]; [unfold wlen in H; cbn in H; lia|].
  pose proof (wlen_log2 w w1 y ltac:(lia)) as [L1 _]. pose proof (log2_bounds y ltac:(lia)) as [B1 _].
  assert (w * 1 <= w * (wlen w y - 1)) by (apply Z.mul_le_mono_nonneg_l; lia).
  assert (2 ^ w <= 2 ^ Z.log2 y) by (apply Z.pow_le_mono_r; lia). lia.
Qed.

Lemma wlen_small : forall y, 0 <= y -> wlen w y <=? 1 = true -> y < 2 ^ w.
Proof.
  intros y Hy H. apply Z.leb_le in H. pose proof (wlen_upper w w1 y Hy) as U. pose proof (wlen_nonneg w w1 y Hy).
  assert (w * wlen w y <= w * 1) as Hm by (apply Z.mul_le_mono_nonneg_l; lia).
  assert (2 ^ (w * wlen w y) <= 2 ^ w) by (apply Z.pow_le_mono_r; lia). lia.
Qed.

(** wlen x + wlen t <= wlen (x * t) + 1 *)
Lemma wlen_mul : forall x t, 1 <= x -> 1 <= t -> wlen w x + wlen w t <= wlen w (x * t) + 1.
Proof.
  intros x t Hx Ht. assert (1 * 1 <= x * t) as Hp by (apply Z.mul_le_mono_nonneg; lia).
  pose proof (wlen_log2 w w1 x ltac:(lia)) as [X1 _]. pose proof (wlen_log2 w w1 t ltac:(lia)) as [T1 _].
  pose proof (wlen_log2 w w1 (x * t) ltac:(lia)) as [_ P2].
  pose proof (Z.log2_mul_below x t ltac:(lia) ltac:(lia)) as LM.
  assert (w * (wlen w x + wlen w t - 2) < w * wlen w (x * t)) as H by lia.
  apply Z.mul_lt_mono_pos_l in H; lia.
Qed.

(** ---------------- the guess on the aligned leading words ---------------- *)
Lemma guess_for_ok : forall mdl x y, 3 <= mdl -> 0 <= y <= x -> 2 <= wlen w x ->
  exists k a b c d, 0 <= k /\ lehmer_guess_for mdl w x y = Ok (a, b, c, d) /\ guess_post L (x / 2 ^ k) (y / 2 ^ k) a b c d.
Proof.
  intros mdl x y Hm Hyx Hn. unfold lehmer_guess_for. destruct (Z.ltb_spec (wlen w x) mdl).
  - destruct (highest_word_normalized_div w w1 x y Hyx Hn) as (E & Hk & [_ HB]). rewrite E.
    set (k := bit_len x - w) in *. assert (0 < 2 ^ k) by (apply Z.pow_pos_nonneg; lia).
    assert (0 <= y / 2 ^ k <= x / 2 ^ k) as Ho by (split; [apply Z.div_pos; lia | apply Z.div_le_mono; lia]).
    destruct (lehmer_guess_ok w _ _ Hw Ho HB) as (a & b & c & d & Eg & P).
    exists k, a, b, c, d. split; [lia|]. split; assumption.
  - destruct (highest_dword_normalized_div w w1 x y Hyx ltac:(lia)) as (E & Hk & [_ HB]). rewrite E.
    set (k := bit_len x - 2 * w) in *. assert (0 < 2 ^ k) by (apply Z.pow_pos_nonneg; lia).
    assert (0 <= y / 2 ^ k <= x / 2 ^ k) as Ho by (split; [apply Z.div_pos; lia | apply Z.div_le_mono; lia]).
    destruct (lehmer_guess_dword_ok w _ _ Hw Ho HB) as (a & b & c & d & Eg & P).
    exists k, a, b, c, d. split; [lia|]. split; assumption.
Qed.

(** ---------------- one Lehmer step on the full-length operands ---------------- *)
(** x = P X0 + xl, y = P Y0 + yl;  x' = a x - b y,  y' = d y - c x *)
Lemma step_geometry : forall P x y a b c d, 0 < P -> 0 <= y <= x -> 1 <= y -> 1 <= b ->
  guess_post L (x / P) (y / P) a b c d ->
  let x' := a * x - b * y in let y' := d * y - c * x in
  1 <= x' /\ 1 <= y' /\ (c = 0 -> x' <= y') /\
  ((c <= a /\ d <= b /\ x' <= y') \/
   (a <= c /\ b <= d /\ exists Q, 1 <= Q /\ c <= (Q + 1) * a /\ d <= (Q + 1) * b /\ 2 * Q + 1 <= x')).
Proof.
  intros P x y a b c d HP Hyx Hy1 Hb (G & Hbx & Hcy & Sh). cbv zeta.
  pose proof (ginv_pos _ _ _ _ _ G) as [Pa Pd]. destruct G as (Ga & Gb & Gc & Gd & Gdet).
  pose proof (Z.div_mod x P ltac:(lia)) as Dx. pose proof (Z.mod_pos_bound x P HP) as Mx.
  pose proof (Z.div_mod y P ltac:(lia)) as Dy. pose proof (Z.mod_pos_bound y P HP) as My.
  set (X0 := x / P) in *. set (Y0 := y / P) in *. set (xl := x mod P) in *. set (yl := y mod P) in *.
  set (xb := a * X0 - b * Y0) in *. set (yb := d * Y0 - c * X0) in *.
  assert (a * x - b * y = P * xb + a * xl - b * yl) as Ex by (rewrite Dx at 1; rewrite Dy at 1; unfold xb; ring).
  assert (d * y - c * x = P * yb + d * yl - c * xl) as Ey by (rewrite Dx at 1; rewrite Dy at 1; unfold yb; ring).
  assert (0 <= a * xl) as N1 by (apply Z.mul_nonneg_nonneg; lia).
  assert (0 <= d * yl) as N2 by (apply Z.mul_nonneg_nonneg; lia).
  assert (b * yl <= b * (P - 1)) as N3 by (apply Z.mul_le_mono_nonneg_l; lia).
  assert (c * xl <= c * (P - 1)) as N4 by (apply Z.mul_le_mono_nonneg_l; lia).
  assert (a * xl <= a * (P - 1)) as N5 by (apply Z.mul_le_mono_nonneg_l; lia).
  assert (0 <= b * yl) as N6 by (apply Z.mul_nonneg_nonneg; lia).
  assert (0 <= c * xl) as N7 by (apply Z.mul_nonneg_nonneg; lia).
  assert (0 <= P * (xb - b)) as N8 by (apply Z.mul_nonneg_nonneg; lia).
  assert (0 <= P * (yb - c)) as N9 by (apply Z.mul_nonneg_nonneg; lia).
  (* x' >= P (xb - b) + b,  y' >= P (yb - c) + c *)
  assert (P * (xb - b) + b <= a * x - b * y) as Lx.
  { rewrite Ex. replace (P * (xb - b) + b) with (P * xb - b * (P - 1)) by ring. lia. }
  assert (P * (yb - c) + c <= d * y - c * x) as Ly.
  { rewrite Ey. replace (P * (yb - c) + c) with (P * yb - c * (P - 1)) by ring. lia. }
  assert (1 <= d * y - c * x) as Py'.
  { destruct (Z.eq_dec c 0) as [C0|C0]; [|lia]. subst c.
    assert (a = 1 /\ d = 1) as [-> ->].
    { rewrite Z.mul_0_r, Z.sub_0_r in Gdet. assert (a * 1 <= a * d) by (apply Z.mul_le_mono_nonneg_l; lia).
      assert (1 * d <= a * d) by (apply Z.mul_le_mono_nonneg_r; lia). lia. }
    lia. }
  (* the order in the odd shape *)
  assert (forall (Od : odd_shape a b c d xb yb), a * x - b * y <= d * y - c * x) as OrdOdd.
  { intros (O1 & O2 & O3 & O4). rewrite Ex, Ey.
    assert (0 <= P * (yb - xb - a - c)) as N10 by (apply Z.mul_nonneg_nonneg; lia).
    replace (P * (yb - xb - a - c)) with (P * yb - P * xb - a * P - c * P) in N10 by ring.
    assert (0 <= b * yl) by lia. clear - N10 N5 N4 N2 N6 Pa Gc. lia. }
  split; [lia|]. split; [exact Py'|]. split.
  - intros C0. destruct Sh as [B0 | [Od | (E1 & _)]]; [lia | exact (OrdOdd Od) | lia].
  - destruct Sh as [B0 | [Od | (E1 & E2 & E3 & Q & Q1 & Q2 & Q3 & Q4)]]; [lia | left | right].
    + pose proof (OrdOdd Od) as Oo. destruct Od as (O1 & O2 & _). auto.
    + split; [exact E1|]. split; [exact E2|]. exists Q. split; [exact Q1|]. split; [exact Q2|]. split; [exact Q3|].
      assert (P * (2 * Q) <= P * (xb - b)) as M1 by (apply Z.mul_le_mono_nonneg_l; lia).
      assert (1 * (2 * Q) <= P * (2 * Q)) as M2 by (apply Z.mul_le_mono_nonneg_r; lia).
      clear - M1 M2 Lx Hb. lia.
Qed.

(** the cofactors after a unimodular step *)
Lemma step_cofactors : forall lhs a b c d x y t0 t1, ginv L a b c d -> 1 <= b ->
  0 <= t0 -> 1 <= t1 -> t1 * x + t0 * y = lhs -> 1 <= a * x - b * y -> 1 <= d * y - c * x ->
  let t0' := a * t0 + b * t1 in let t1' := c * t0 + d * t1 in
  1 <= t0' /\ 1 <= t1' /\ t1' * (a * x - b * y) + t0' * (d * y - c * x) = lhs /\ t0' < lhs /\ t1' < lhs.
Proof.
  intros lhs a b c d x y t0 t1 G Hb H0 H1 I1 Px Py. cbv zeta.
  pose proof (ginv_pos _ _ _ _ _ G) as [Pa Pd]. destruct G as (Ga & Gb & Gc & Gd & Gdet).
  assert (0 <= a * t0) by (apply Z.mul_nonneg_nonneg; lia). assert (0 <= c * t0) by (apply Z.mul_nonneg_nonneg; lia).
  assert (1 * 1 <= b * t1) by (apply Z.mul_le_mono_nonneg; lia). assert (1 * 1 <= d * t1) by (apply Z.mul_le_mono_nonneg; lia).
  set (x' := a * x - b * y) in *. set (y' := d * y - c * x) in *.
  set (t0' := a * t0 + b * t1). set (t1' := c * t0 + d * t1).
  assert (t1' * x' + t0' * y' = lhs) as I1'.
  { unfold t0', t1', x', y'.
    replace ((c * t0 + d * t1) * (a * x - b * y) + (a * t0 + b * t1) * (d * y - c * x))
      with ((a * d - b * c) * (t1 * x + t0 * y)) by ring. rewrite Gdet, I1. ring. }
  assert (1 <= t0') by (unfold t0'; lia). assert (1 <= t1') by (unfold t1'; lia).
  assert (1 * 1 <= t1' * x') by (apply Z.mul_le_mono_nonneg; lia).
  assert (1 * 1 <= t0' * y') by (apply Z.mul_le_mono_nonneg; lia).
  assert (t0' * 1 <= t0' * y') by (apply Z.mul_le_mono_nonneg_l; lia).
  assert (t1' * 1 <= t1' * x') by (apply Z.mul_le_mono_nonneg_l; lia).
  repeat split; try assumption; lia.
Qed.

(** x * y at least halves *)
Lemma step_measure : forall a b c d x y, ginv L a b c d -> 1 <= b ->
  0 <= a * x - b * y -> 0 <= d * y - c * x -> (c = 0 -> a * x - b * y <= d * y - c * x) ->
  2 * ((a * x - b * y) * (d * y - c * x)) <= x * y.
Proof.
  intros a b c d x y G Hb Px Py Hc.
  pose proof (ginv_pos _ _ _ _ _ G) as [Pa Pd]. destruct G as (Ga & Gb & Gc & Gd & Gdet).
  set (x' := a * x - b * y) in *. set (y' := d * y - c * x) in *.
  assert (x = d * x' + b * y') as Ex.
  { unfold x', y'. replace (d * (a * x - b * y) + b * (d * y - c * x)) with ((a * d - b * c) * x) by ring. rewrite Gdet. ring. }
  assert (y = c * x' + a * y') as Ey.
  { unfold x', y'. replace (c * (a * x - b * y) + a * (d * y - c * x)) with ((a * d - b * c) * y) by ring. rewrite Gdet. ring. }
  assert (0 <= x' * y') as Nxy by (apply Z.mul_nonneg_nonneg; lia).
  assert (0 <= x' * x') as Nxx by (apply Z.mul_nonneg_nonneg; lia).
  assert (0 <= y' * y') as Nyy by (apply Z.mul_nonneg_nonneg; lia).
  rewrite Ex, Ey.
  replace ((d * x' + b * y') * (c * x' + a * y')) with ((a * d + b * c) * (x' * y') + d * c * (x' * x') + a * b * (y' * y')) by ring.
  assert (0 <= d * c * (x' * x')) by (apply Z.mul_nonneg_nonneg; [apply Z.mul_nonneg_nonneg|]; lia).
  destruct (Z.eq_dec c 0) as [C0|C0].
  - specialize (Hc C0). subst c. rewrite Z.mul_0_r, Z.sub_0_r in Gdet. rewrite Z.mul_0_r, Z.add_0_r, Gdet.
    assert (x' * y' <= y' * y') by (apply Z.mul_le_mono_nonneg_r; lia).
    assert (1 * (y' * y') <= a * b * (y' * y')).
    { apply Z.mul_le_mono_nonneg_r; [lia|]. assert (1 * 1 <= a * b) by (apply Z.mul_le_mono_nonneg; lia). lia. }
    lia.
  - assert (1 * 1 <= b * c) by (apply Z.mul_le_mono_nonneg; lia).
    assert (0 <= a * b * (y' * y')) by (apply Z.mul_nonneg_nonneg; [apply Z.mul_nonneg_nonneg|]; lia).
    assert (3 * (x' * y') <= (a * d + b * c) * (x' * y')) by (apply Z.mul_le_mono_nonneg_r; lia).
    lia.
Qed.

(** ---------------- the invariant of the outer loop of gcd_ext_in_place ---------------- *)
Definition ord_ok (x y t0 t1 : Z) : Prop := 1 <= y -> exists Q, 0 <= Q /\ t0 <= (Q + 1) * t1 /\ Q + x / y <= x.

Definition oinv (lhs x y t0 t1 : Z) : Prop :=
  1 <= x /\ 0 <= y <= x /\ 0 <= t0 /\ 1 <= t1 /\ t1 * x + t0 * y = lhs /\ t0 < lhs /\ ord_ok x y t0 t1.

Lemma ord_plain : forall x y t0 t1, 0 <= x -> t0 <= t1 -> 0 <= t1 -> ord_ok x y t0 t1.
Proof.
  intros x y t0 t1 Hx Ht H1 Hy. exists 0. split; [lia|]. split; [lia|].
  assert (x / y <= x) by (apply Z.div_le_upper_bound; [lia|]; assert (1 * x <= y * x) by (apply Z.mul_le_mono_nonneg_r; lia); lia). lia.
Qed.

Lemma ord_even : forall x y t0 t1 Q, 1 <= Q -> 2 * Q + 1 <= y -> y <= x -> t0 <= (Q + 1) * t1 -> ord_ok x y t0 t1.
Proof.
  intros x y t0 t1 Q HQ Hy Hyx Ht _. exists Q. split; [lia|]. split; [exact Ht|].
  assert (x / y <= x / 2) by (apply Z.div_le_compat_l; lia).
  pose proof (Z.mul_div_le x 2 ltac:(lia)). lia.
Qed.

Lemma wlen_le_lhs : forall lhs t, 0 <= t <= lhs -> wlen w t <= wlen w lhs.
Proof. intros. apply (wlen_mono w w1). assumption. Qed.

Theorem ext_loop_ok : forall mdl lhs, 3 <= mdl -> forall fuel x y t0 t1 sw, oinv lhs x y t0 t1 -> x * y < 2 ^ Z.of_nat fuel ->
  exists x' y' t0' t1' sw', lehmer_ext_loop (S fuel) mdl w (wlen w lhs + 1) x y t0 t1 sw = Ok (x', y', t0', t1', sw') /\
    oinv lhs x' y' t0' t1' /\ wlen w y' <=? 1 = true.
Proof.
  intros mdl lhs Hm. induction fuel as [|k IH]; intros x y t0 t1 sw I Hf.
  - (* x * y < 1: y = 0 *)
    change (2 ^ Z.of_nat 0) with 1 in Hf. destruct I as (Hx & Hy & I').
    assert (y = 0) as ->.
    { destruct (Z.eq_dec y 0); [assumption|]. assert (1 * 1 <= x * y) by (apply Z.mul_le_mono_nonneg; lia). lia. }
    cbn [lehmer_ext_loop]. replace (wlen w 0 <=? 1) with true by (unfold wlen; reflexivity).
    exists x, 0, t0, t1, sw. split; [reflexivity|]. split; [unfold oinv; tauto | unfold wlen; reflexivity].
  - remember (S k) as fk. cbn [lehmer_ext_loop]. subst fk.
    destruct (wlen w y <=? 1) eqn:Hl.
    { exists x, y, t0, t1, sw. split; [reflexivity|]. split; assumption. }
    destruct I as (Hx & Hy & H0 & H1 & I1 & Hlt & Ho).
    pose proof (wlen_ge2 y (proj1 Hy) Hl) as Hyw.
    assert (4 <= 2 ^ w) as H4 by (change 4 with (2 ^ 2); apply Z.pow_le_mono_r; lia).
    assert (2 <= wlen w x) as Hnx.
    { apply Z.leb_gt in Hl. pose proof (wlen_mono w w1 y x ltac:(lia)). lia. }
    destruct (guess_for_ok mdl x y Hm Hy Hnx) as (kk & a & b & c & d & Hk & Eg & Post).
    unfold lehmer_iter. rewrite Eg. cbn [rbind].
    assert (0 < 2 ^ kk) as HP by (apply Z.pow_pos_nonneg; lia).
    rewrite Nat2Z.inj_succ, Z.pow_succ_r in Hf by lia.
    destruct (Z.eqb_spec b 0) as [B0|B0].
    + (* Euclidean step *)
      pose proof (Z.div_mod x y ltac:(lia)) as DM. pose proof (Z.mod_pos_bound x y ltac:(lia)) as MB.
      set (q := x / y) in *. set (r := x mod y) in *.
      assert (1 <= q) as Hq by (apply Z.div_le_lower_bound; lia).
      assert (y * 1 <= y * q) as Hyq by (apply Z.mul_le_mono_nonneg_l; lia).
      assert (t1 * 1 <= q * t1) as Hqt by (rewrite (Z.mul_comm q); apply Z.mul_le_mono_nonneg_l; lia).
      assert (t1 * r + (t0 + q * t1) * y = lhs) as I1'.
      { rewrite <- I1. transitivity (t1 * (y * q + r) + t0 * y); [ring | rewrite <- DM; reflexivity]. }
      assert (0 <= t1 * r) as N1 by (apply Z.mul_nonneg_nonneg; lia).
      assert ((t0 + q * t1) * 1 <= (t0 + q * t1) * y) as N2 by (apply Z.mul_le_mono_nonneg_l; lia).
      assert (t1 * 2 <= t1 * x) as N3 by (apply Z.mul_le_mono_nonneg_l; lia).
      assert (0 <= t0 * y) as N4 by (apply Z.mul_nonneg_nonneg; lia).
      assert (wlen w (t0 + q * t1) <= wlen w lhs) as Wl by (apply wlen_le_lhs; lia).
      replace (wlen w lhs + 1 <? wlen w (t0 + q * t1)) with false by (symmetry; apply Z.ltb_ge; lia).
      assert (2 * (y * r) <= x * y) as Hmz.
      { assert (2 * r <= x) by lia. assert (y * (2 * r) <= y * x) by (apply Z.mul_le_mono_nonneg_l; lia). lia. }
      apply IH; [|lia].
      unfold oinv. split; [lia|]. split; [lia|]. split; [lia|]. split; [lia|]. split; [lia|]. split; [lia|].
      apply ord_plain; lia.
    + (* Lehmer step *)
      assert (1 <= b) as Hb by (destruct Post as ((_ & Gb & _) & _); lia).
      destruct (step_geometry (2 ^ kk) x y a b c d HP Hy ltac:(lia) Hb Post) as (Px' & Py' & Hc0 & Sh).
      set (x' := a * x - b * y) in *. set (y' := d * y - c * x) in *.
      replace (x' <? 0) with false by (symmetry; apply Z.ltb_ge; lia).
      replace (y' <? 0) with false by (symmetry; apply Z.ltb_ge; lia). cbn [orb].
      pose proof Post as (G & _).
      destruct (step_cofactors lhs a b c d x y t0 t1 G Hb H0 H1 I1 Px' Py') as (T0 & T1 & I1' & T0l & T1l).
      fold x' y' in I1'. set (t0' := a * t0 + b * t1) in *. set (t1' := c * t0 + d * t1) in *.
      pose proof (wlen_le_lhs lhs t0' ltac:(lia)) as W0. pose proof (wlen_le_lhs lhs t1' ltac:(lia)) as W1.
      replace (wlen w lhs + 1 <? wlen w t0') with false by (symmetry; apply Z.ltb_ge; lia).
      replace (wlen w lhs + 1 <? wlen w t1') with false by (symmetry; apply Z.ltb_ge; lia). cbn [orb].
      pose proof (step_measure a b c d x y G Hb ltac:(fold x'; lia) ltac:(fold y'; lia) Hc0) as Hmz. fold x' y' in Hmz.
      destruct G as (Ga & Gb & Gc & Gd & _).
      destruct (Z.leb_spec x' y') as [Hle|Hgt].
      * apply IH; [|rewrite (Z.mul_comm y' x'); lia].
        unfold oinv. split; [lia|]. split; [lia|]. split; [lia|]. split; [lia|]. split; [lia|]. split; [lia|].
        destruct Sh as [(S1 & S2 & _) | (S1 & S2 & Q & Q1 & Q2 & Q3 & Q4)].
        -- apply ord_plain; [lia| |lia]. unfold t0', t1'.
           assert (c * t0 <= a * t0) by (apply Z.mul_le_mono_nonneg_r; lia).
           assert (d * t1 <= b * t1) by (apply Z.mul_le_mono_nonneg_r; lia). lia.
        -- apply (ord_even y' x' t1' t0' Q Q1 Q4 Hle). unfold t0', t1'.
           assert (c * t0 <= (Q + 1) * a * t0) by (apply Z.mul_le_mono_nonneg_r; lia).
           assert (d * t1 <= (Q + 1) * b * t1) by (apply Z.mul_le_mono_nonneg_r; lia).
           replace ((Q + 1) * (a * t0 + b * t1)) with ((Q + 1) * a * t0 + (Q + 1) * b * t1) by ring. lia.
      * apply IH; [|lia].
        unfold oinv. split; [lia|]. split; [lia|]. split; [lia|]. split; [lia|]. split; [lia|]. split; [lia|].
        destruct Sh as [(_ & _ & S3) | (S1 & S2 & _)]; [lia|].
        apply ord_plain; [lia| |lia]. unfold t0', t1'.
        assert (a * t0 <= c * t0) by (apply Z.mul_le_mono_nonneg_r; lia).
        assert (b * t1 <= d * t1) by (apply Z.mul_le_mono_nonneg_r; lia). lia.
Qed.

(** the single-word ending re-slices t0 to x.len() + t1_len words (`t0_len = x.len() + t1_len`) before `t0 += q * t1`:
    nothing of the old t0 is cut off, the sum fits those words, and they fit the lhs_len + 1 word buffer - the model
    (values) does not check the first fact, so it is stated here *)
Lemma ending_fits : forall lhs x y t0 t1, oinv lhs x y t0 t1 -> 1 <= y ->
  0 <= t0 <= t0 + x / y * t1 /\ t0 + x / y * t1 < 2 ^ (w * (wlen w x + wlen w t1)) /\ wlen w x + wlen w t1 <= wlen w lhs + 1.
Proof.
  intros lhs x y t0 t1 (Hx & Hy & H0 & H1 & I1 & Hlt & Ho) Py.
  assert (0 <= t0 * y) as N0 by (apply Z.mul_nonneg_nonneg; lia).
  pose proof (wlen_mul x t1 Hx H1) as WM.
  pose proof (wlen_le_lhs lhs (x * t1) ltac:(rewrite (Z.mul_comm x t1); split; [apply Z.mul_nonneg_nonneg|]; lia)) as WL.
  set (q := x / y) in *. assert (0 <= q) as Hq by (apply Z.div_pos; lia).
  destruct (Ho Py) as (Q & Q0 & Q1 & Q2). fold q in Q2.
  assert (0 <= q * t1) as Nq by (apply Z.mul_nonneg_nonneg; lia).
  split; [lia|]. split; [|lia].
  pose proof (wlen_upper w w1 x ltac:(lia)) as Ux. pose proof (wlen_upper w w1 t1 ltac:(lia)) as Ut.
  rewrite Z.mul_add_distr_l, Z.pow_add_r by (pose proof (wlen_nonneg w w1 x ltac:(lia)); pose proof (wlen_nonneg w w1 t1 ltac:(lia));
    apply Z.mul_nonneg_nonneg; lia).
  assert ((x + 1) * (t1 + 1) <= 2 ^ (w * wlen w x) * 2 ^ (w * wlen w t1)) as Hb by (apply Z.mul_le_mono_nonneg; lia).
  assert ((Q + 1 + q) * t1 <= (x + 1) * t1) as Hc by (apply Z.mul_le_mono_nonneg_r; lia).
  replace ((Q + 1 + q) * t1) with ((Q + 1) * t1 + q * t1) in Hc by ring.
  replace ((x + 1) * (t1 + 1)) with ((x + 1) * t1 + x + 1) in Hb by ring. clear - Hb Hc Q1 Hx. lia.
Qed.

(** ---------------- gcd_ext_in_place: total, with a cofactor below lhs ---------------- *)
(** |b| * g <= lhs and the congruence make |b| < lhs *)
Lemma cofactor_strict : forall lhs rhs g bm bs, 2 <= lhs -> 1 <= g -> 0 <= bm -> bm * g <= lhs ->
  (lhs | g - signed bs bm * rhs) -> bm < lhs.
Proof.
  intros lhs rhs g bm bs Hl Hg Hb Hle D.
  destruct (Z.eq_dec g 1) as [->|Ng].
  - destruct (Z.eq_dec bm lhs) as [->|]; [exfalso|lia].
    assert (lhs | 1) as D1.
    { replace 1 with ((1 - signed bs lhs * rhs) + sgnz bs * rhs * lhs) by (unfold signed; ring).
      apply Z.divide_add_r; [exact D | apply Z.divide_factor_r]. }
    apply Z.divide_1_r_nonneg in D1; lia.
  - assert (bm * 2 <= bm * g) by (apply Z.mul_le_mono_nonneg_l; lia). lia.
Qed.

Theorem gcd_ext_in_place_total : forall mdl lf pf lhs rhs, 3 <= mdl -> 0 < rhs < lhs ->
  lhs * rhs < 2 ^ Z.of_nat lf -> 2 * w <= Z.of_nat pf ->
  exists g bm bs, gcd_ext_in_place_gen true (S lf) pf mdl w lhs rhs = Ok (g, bm, bs) /\
    g = Z.gcd lhs rhs /\ 0 <= bm < lhs /\ (lhs | g - signed bs bm * rhs).
Proof.
  intros mdl lf pf lhs rhs Hm Hr Hlf Hpf.
  assert (0 <= rhs) as Hr0 by lia.
  assert (forall g bm bs, gcd_ext_in_place_gen true (S lf) pf mdl w lhs rhs = Ok (g, bm, bs) -> 0 <= bm ->
            (bm < lhs \/ bm * g <= lhs) ->
          exists g bm bs, gcd_ext_in_place_gen true (S lf) pf mdl w lhs rhs = Ok (g, bm, bs) /\
            g = Z.gcd lhs rhs /\ 0 <= bm < lhs /\ (lhs | g - signed bs bm * rhs)) as Fin.
  { intros g bm bs E B0 Bg. exists g, bm, bs. split; [exact E|].
    destruct (gcd_ext_in_place_gen_correct (S lf) pf mdl w lhs rhs g bm bs Hw Hr0 E) as [G D]. split; [exact G|]. split; [|exact D].
    split; [exact B0|]. destruct Bg as [|Bg]; [assumption|].
    assert (1 <= g) as Pg.
    { rewrite G. pose proof (Z.gcd_nonneg lhs rhs). destruct (Z.eq_dec (Z.gcd lhs rhs) 0) as [E0|]; [|lia].
      apply Z.gcd_eq_0_l in E0. lia. }
    apply (cofactor_strict lhs rhs g bm bs); try assumption; lia. }
  revert Fin. unfold gcd_ext_in_place_gen. destruct (Z.ltb_spec lhs rhs); [lia|]. intros Fin.
  assert (oinv lhs lhs rhs 0 1) as I0.
  { unfold oinv. split; [lia|]. split; [lia|]. split; [lia|]. split; [lia|]. split; [lia|]. split; [lia|]. apply ord_plain; lia. }
  destruct (ext_loop_ok mdl lhs Hm lf lhs rhs 0 1 false I0 Hlf) as (x & y & t0 & t1 & sw & E & I & Hl).
  revert Fin. rewrite E. cbn [rbind]. intros Fin.
  destruct I as (Hx & Hy & H0 & H1 & I1 & Hlt & Ho).
  pose proof (wlen_small y (proj1 Hy) Hl) as Hyw.
  assert (0 <= t0 * y) as N0 by (apply Z.mul_nonneg_nonneg; lia).
  assert (t1 * 1 <= t1 * x) as N1 by (apply Z.mul_le_mono_nonneg_l; lia).
  revert Fin. destruct (Z.eqb_spec y 0) as [Y0|Y0]; intros Fin.
  - (* the gcd is x, b = t0 *)
    pose proof (wlen_le_lhs lhs t0 ltac:(lia)) as W0.
    revert Fin. replace (wlen w lhs <? wlen w t0) with false by (symmetry; apply Z.ltb_ge; lia). intros Fin.
    apply (Fin x t0 (sign_of_swapped sw) eq_refl H0). left. exact Hlt.
  - (* single-word ending *)
    assert (1 <= y) as Py by lia.
    pose proof (wlen_mul x t1 Hx H1) as WM.
    pose proof (wlen_le_lhs lhs (x * t1) ltac:(rewrite (Z.mul_comm x t1); split; [apply Z.mul_nonneg_nonneg|]; lia)) as WL.
    revert Fin. replace (wlen w lhs + 1 <? wlen w x + wlen w t1) with false by (symmetry; apply Z.ltb_ge; lia). intros Fin.
    pose proof (Z.div_mod x y ltac:(lia)) as DM. pose proof (Z.mod_pos_bound x y ltac:(lia)) as MB.
    set (q := x / y) in *. set (r := x mod y) in *.
    assert (0 <= q) as Hq by (apply Z.div_pos; lia).
    destruct (Ho Py) as (Q & Q0 & Q1 & Q2). fold q in Q2.
    assert (0 <= q * t1) as Nq by (apply Z.mul_nonneg_nonneg; lia).
    assert (t0 + q * t1 < 2 ^ (w * (wlen w x + wlen w t1))) as Carry.
    { pose proof (wlen_upper w w1 x ltac:(lia)) as Ux. pose proof (wlen_upper w w1 t1 ltac:(lia)) as Ut.
      rewrite Z.mul_add_distr_l, Z.pow_add_r by (pose proof (wlen_nonneg w w1 x ltac:(lia)); pose proof (wlen_nonneg w w1 t1 ltac:(lia));
        apply Z.mul_nonneg_nonneg; lia).
      assert ((x + 1) * (t1 + 1) <= 2 ^ (w * wlen w x) * 2 ^ (w * wlen w t1)) as Hb by (apply Z.mul_le_mono_nonneg; lia).
      assert ((Q + 1 + q) * t1 <= (x + 1) * t1) as Hc by (apply Z.mul_le_mono_nonneg_r; lia).
      replace ((Q + 1 + q) * t1) with ((Q + 1) * t1 + q * t1) in Hc by ring.
      replace ((x + 1) * (t1 + 1)) with ((x + 1) * t1 + x + 1) in Hb by ring. clear - Hb Hc Q1 Hx. lia. }
    revert Fin. replace (2 ^ (w * (wlen w x + wlen w t1)) <=? t0 + q * t1) with false by (symmetry; apply Z.leb_gt; exact Carry). intros Fin.
    set (t0' := t0 + q * t1) in *.
    assert (t0' * y + t1 * r = lhs) as I1'.
    { rewrite <- I1. unfold t0'. transitivity (t1 * (y * q + r) + t0 * y); [ring | rewrite <- DM; reflexivity]. }
    assert (0 <= t0') as Nt0 by (unfold t0'; lia).
    pose proof (wlen_upper w w1 lhs ltac:(lia)) as Ul.
    (* the primitive extended gcd on (r, y) *)
    assert (exists g cx cy, prim_gcd_ext_asis pf r y = Ok (g, cx, cy) /\ 1 <= g /\
              (Z.abs cx * t0' + Z.abs cy * t1) * g <= lhs) as (g & cx & cy & Ep & Pg & Bg).
    { destruct (Z.eq_dec r 0) as [R0|R0].
      - exists y, 0, 1. rewrite R0. unfold prim_gcd_ext_asis.
        replace (y =? 0) with false by (symmetry; apply Z.eqb_neq; exact Y0). cbn [Z.eqb andb].
        split; [reflexivity|]. split; [exact Py|]. cbn [Z.abs]. rewrite R0 in I1'.
        assert (t1 * y <= t1 * x) as Hty by (apply Z.mul_le_mono_nonneg_l; lia).
        replace ((0 * t0' + 1 * t1) * y) with (t1 * y) by ring. clear - Hty I1 N0. lia.
      - assert (r * y < 2 ^ Z.of_nat pf) as Hf.
        { assert (r * y < 2 ^ w * 2 ^ w) as Hry.
          { assert (r * y <= r * 2 ^ w) by (apply Z.mul_le_mono_nonneg_l; lia).
            assert (r * 2 ^ w < 2 ^ w * 2 ^ w) by (apply Z.mul_lt_mono_pos_r; lia). lia. }
          rewrite <- Z.pow_add_r in Hry by lia.
          assert (2 ^ (w + w) <= 2 ^ Z.of_nat pf) by (apply Z.pow_le_mono_r; lia). lia. }
        assert (0 < y) as Py0 by lia. assert (0 < r) as Pr0 by lia.
        destruct (prim_gcd_ext_total_log pf r y Pr0 Py0 Hf) as ([[g cx] cy] & Ep).
        destruct (prim_gcd_ext_full pf r y g cx cy Pr0 Py0 Ep) as (G & Bz & Sg & Bs & Bt).
        assert (1 <= g) as Pg.
        { rewrite G. pose proof (Z.gcd_nonneg r y). destruct (Z.eq_dec (Z.gcd r y) 0) as [E0|]; [|lia].
          apply Z.gcd_eq_0_r in E0. lia. }
        exists g, cx, cy. split; [exact Ep|]. split; [exact Pg|].
        pose proof (Z.abs_nonneg cx). pose proof (Z.abs_nonneg cy).
        assert (Z.abs cx * g * t0' <= y * t0') by (apply Z.mul_le_mono_nonneg_r; lia).
        assert (Z.abs cy * g * t1 <= r * t1) by (apply Z.mul_le_mono_nonneg_r; lia).
        replace ((Z.abs cx * t0' + Z.abs cy * t1) * g) with (Z.abs cx * g * t0' + Z.abs cy * g * t1) by ring.
        rewrite <- I1'. rewrite (Z.mul_comm t0' y), (Z.mul_comm t1 r). lia. }
    revert Fin. rewrite Ep. cbn [rbind].
    set (bm := Z.abs cx * t0' + Z.abs cy * t1) in *.
    assert (0 <= bm) as Nb.
    { unfold bm. pose proof (Z.abs_nonneg cx). pose proof (Z.abs_nonneg cy).
      assert (0 <= Z.abs cx * t0') by (apply Z.mul_nonneg_nonneg; lia).
      assert (0 <= Z.abs cy * t1) by (apply Z.mul_nonneg_nonneg; lia). lia. }
    assert (bm * 1 <= bm * g) as Hbg by (apply Z.mul_le_mono_nonneg_l; lia).
    replace (2 ^ (w * wlen w lhs) <=? bm) with false by (symmetry; apply Z.leb_gt; lia). intros Fin.
    apply (Fin g bm _ eq_refl Nb). right. exact Bg.
Qed.

End Lehmer.

(** non-vacuity: a three-word modulus, a three-word value; a Lehmer step, Euclidean steps and the single-word ending run *)
Example gcd_ext_in_place_total_example :
  gcd_ext_in_place_gen true 400 128 300 64 (2 ^ 190 + 7) (2 ^ 170 + 11) =
    Ok (1, 754734920350425750578215823984127115081688326561716722320, Negative) /\
  ((2 ^ 170 + 11) * signed Negative 754734920350425750578215823984127115081688326561716722320) mod (2 ^ 190 + 7) = 1.
Proof. vm_compute. split; reflexivity. Qed.
