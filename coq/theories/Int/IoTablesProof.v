(** C07: the hand-written models are the interpretation of the tables that tools/translate_c07.py
    re-reads from the Rust sources on every run (coq/gen/IoTables.v): byte ranges of
    digit_from_ascii_byte, the 0b/0o/0x prefix table, MIN/MAX_RADIX, the DigitCase letter offsets,
    the constants of max_exp_in_word, the CHUNK_LEN of the converters; and the digit buffers of
    PreparedWord / PreparedDword (MAX_WORD_DIGITS_NON_POW_2 / MAX_DWORD_DIGITS_NON_POW_2 =
    max_exp_in_(d)word(3).0 + 1) are large enough for every radix >= 3 and every (double) word. *)
From Dashu Require Import Base.Prelude Base.Words Int.IoSpec Int.IoModel Int.IoDigits Int.IoPrint Int.IoRadix.
From DashuGen Require Import Params IoTables.
Open Scope Z_scope.

(* ------------------------------------------------------------------------------------------ *)
(** * interpretation of the tables *)
Fixpoint ranges_digit (rs : list (Z * Z * Z)) (c : Z) : option Z :=
  match rs with
  | [] => None
  | (lo, hi, v) :: t => if (lo <=? c) && (c <=? hi) then Some (c - lo + v) else ranges_digit t c
  end.

Definition table_digit_from_ascii (r c : Z) : option Z :=
  match ranges_digit gen_digit_ranges c with Some d => if d <? r then Some d else None | None => None end.

Fixpoint strip_list_prefix (p s : list Z) : option (list Z) :=
  match p, s with
  | [], _ => Some s
  | a :: p', b :: s' => if a =? b then strip_list_prefix p' s' else None
  | _ :: _, [] => None
  end.

Fixpoint table_radix_prefix (tb : list (list Z * Z)) (default : Z) (s : list Z) : Z * list Z :=
  match tb with
  | [] => (default, s)
  | (p, r) :: t => match strip_list_prefix p s with Some rest => (r, rest) | None => table_radix_prefix t default s end
  end.

(* ------------------------------------------------------------------------------------------ *)
(** * the models equal the tables *)
Theorem digit_of_char_table c : digit_of_char c = ranges_digit gen_digit_ranges c.
Proof.
  unfold digit_of_char, gen_digit_ranges. cbn [ranges_digit].
  destruct ((48 <=? c) && (c <=? 57)); [f_equal; lia|].
  destruct ((97 <=? c) && (c <=? 122)); [f_equal; lia|].
  destruct ((65 <=? c) && (c <=? 90)); [f_equal; lia | reflexivity].
Qed.

Theorem digit_from_ascii_table r c : digit_from_ascii r c = table_digit_from_ascii r c.
Proof. unfold digit_from_ascii, table_digit_from_ascii. rewrite digit_of_char_table. reflexivity. Qed.

Lemma Zpos_match_eqb (A : Type) (k : positive) (a : Z) (x y : A) :
  (if a =? Z.pos k then x else y) = (if Z.pos k =? a then x else y).
Proof. rewrite Z.eqb_sym. reflexivity. Qed.

Theorem strip_radix_prefix_table default s : strip_radix_prefix default s = table_radix_prefix gen_prefix_table default s.
Proof.
  unfold gen_prefix_table. cbn [table_radix_prefix strip_list_prefix].
  destruct s as [|a [|b t]].
  - reflexivity.
  - destruct (Z.eqb_spec 48 a) as [<-|NE]; [reflexivity|].
    destruct a as [|p|p]; try reflexivity. repeat (destruct p as [p|p|]; try reflexivity); try (contradiction NE; reflexivity).
  - destruct (Z.eqb_spec 48 a) as [<-|NE].
    + destruct (Z.eqb_spec 98 b) as [<-|N1]; [reflexivity|].
      destruct (Z.eqb_spec 111 b) as [<-|N2]; [reflexivity|].
      destruct (Z.eqb_spec 120 b) as [<-|N3]; [reflexivity|].
      destruct b as [|p|p]; try reflexivity. repeat (destruct p as [p|p|]; try reflexivity);
        try (contradiction N3; reflexivity); try (contradiction N2; reflexivity); try (contradiction N1; reflexivity).
    + destruct a as [|p|p]; try reflexivity. repeat (destruct p as [p|p|]; try reflexivity); try (contradiction NE; reflexivity).
Qed.

Theorem radix_valid_table r : radix_valid r = (gen_min_radix <=? r) && (r <=? gen_max_radix).
Proof. reflexivity. Qed.

(** digit -> ASCII: '0' + digit, plus the DigitCase offset for digits >= 10 (the threshold is the one the
    SWAR writer tests: bias + digit reaches bit [shift] iff digit >= 10) *)
Theorem digit_char_table upper d :
  digit_char upper d = gen_swar_zero + d + (if d <? 2 ^ gen_swar_shift - gen_swar_bias then 0 else if upper then gen_case_upper else gen_case_lower).
Proof.
  unfold digit_char, gen_swar_zero, gen_swar_shift, gen_swar_bias, gen_case_upper, gen_case_lower.
  change (2 ^ 7 - 118) with 10. destruct (d <? 10); [lia|]. destruct upper; lia.
Qed.

Theorem chunk_len_table : fmt_chunk_len = gen_fmt_chunk_len /\ parse_chunk_len = gen_parse_chunk_len.
Proof. split; reflexivity. Qed.

(** math.rs max_exp_in_word: shortcut above ones_word(WORD_BITS / 2), estimate WORD_BITS / bit_len, multiply while it fits *)
Theorem max_exp_in_word_table w base : max_exp_in_word w base =
  if base >? Z.ones (w / gen_max_exp_shortcut_div) then Ok (1, base)
  else let exp := w / blen base in max_exp_loop w (Z.to_nat w) base exp (base ^ exp).
Proof. reflexivity. Qed.

(* ------------------------------------------------------------------------------------------ *)
(** * the digit buffers of PreparedWord / PreparedDword are large enough *)

(** math.rs max_exp_in_dword *)
Definition max_exp_in_dword (w base : Z) : Z * Z :=
  let '(exp, pow) := radix_info w base in
  let exp2 := gen_max_exp_dword_factor * exp in
  let pow2 := pow * pow in
  if pow2 * base <? Bw w * Bw w then (exp2 + 1, pow2 * base) else (exp2, pow2).

(** radix.rs MAX_WORD_DIGITS_NON_POW_2 / MAX_DWORD_DIGITS_NON_POW_2 *)
Definition max_word_digits (w : Z) : Z := fst (radix_info w gen_max_word_digits_base) + gen_max_word_digits_extra.
Definition max_dword_digits (w : Z) : Z := fst (max_exp_in_dword w gen_max_dword_digits_base) + gen_max_dword_digits_extra.

Lemma digits_len_bound r x M e : 3 <= r -> 0 <= x < M -> 0 <= e -> M <= 3 ^ (e + 1) -> len (digits_spec r x) <= e + 1.
Proof.
  intros Hr Hx He HM.
  pose proof (digits_spec_canonical r ltac:(lia) x ltac:(lia)) as [Hrange Hc].
  pose proof (digits_spec_value r ltac:(lia) x ltac:(lia)) as Hv.
  destruct Hc as [E0|(d & t & E & Hd)].
  - rewrite E0. unfold len. cbn [length Z.of_nat]. lia.
  - rewrite E in *. pose proof (value_lower r ltac:(lia) d t Hrange Hd) as Hlow.
    rewrite len_cons. pose proof (len_nonneg t) as Ht.
    assert (3 ^ len t <= r ^ len t) by (apply Z.pow_le_mono_l; lia).
    assert (3 ^ len t < 3 ^ (e + 1)) by lia.
    apply Z.pow_lt_mono_r_iff in H0; lia.
Qed.

Section Buffers.
Variable w : Z.
Hypothesis w_pos : 0 < w.
Hypothesis w_even : w mod 2 = 0.
Hypothesis three_lt_B : 3 < Bw w.

(** PreparedWord: the digits of any word in any radix >= 3 fit into MAX_WORD_DIGITS_NON_POW_2 bytes ... *)
Theorem word_digits_fit r x : 3 <= r -> 0 <= x < Bw w -> len (digits_spec r x) <= max_word_digits w.
Proof.
  intros Hr Hx. unfold max_word_digits, gen_max_word_digits_base, gen_max_word_digits_extra.
  destruct (radix_info_ok w 3 w_pos w_even ltac:(lia) three_lt_B) as (dpw & R & Hinfo & Hd & HR & Hlt & Hle).
  rewrite Hinfo. cbn [fst]. apply (digits_len_bound r x (Bw w)); [lia | lia | lia|].
  rewrite Z.pow_add_r, Z.pow_1_r by lia. rewrite <- HR. exact Hle.
Qed.

(** ... and so does a group padded to digits_per_word of that radix *)
Theorem word_pad_fit r : 3 <= r -> r < Bw w -> fst (radix_info w r) < max_word_digits w.
Proof.
  intros Hr Hlt. unfold max_word_digits, gen_max_word_digits_base, gen_max_word_digits_extra.
  destruct (radix_info_ok w 3 w_pos w_even ltac:(lia) three_lt_B) as (d3 & R3 & Hinfo3 & Hd3 & HR3 & Hlt3 & Hle3).
  destruct (radix_info_ok w r w_pos w_even ltac:(lia) Hlt) as (dr & Rr & Hinfor & Hdr & HRr & Hltr & Hler).
  rewrite Hinfo3, Hinfor. cbn [fst].
  assert (3 ^ dr <= r ^ dr) by (apply Z.pow_le_mono_l; lia).
  assert (3 ^ dr < 3 ^ (d3 + 1)).
  { rewrite (Z.pow_add_r 3 d3 1), Z.pow_1_r by lia. rewrite <- HR3. lia. }
  apply Z.pow_lt_mono_r_iff in H0; lia.
Qed.

(** PreparedDword: the digits of any double word fit into MAX_DWORD_DIGITS_NON_POW_2 bytes *)
Theorem dword_digits_fit r x : 3 <= r -> 0 <= x < Bw w * Bw w -> len (digits_spec r x) <= max_dword_digits w.
Proof.
  intros Hr Hx. unfold max_dword_digits, max_exp_in_dword, gen_max_dword_digits_base, gen_max_dword_digits_extra, gen_max_exp_dword_factor.
  destruct (radix_info_ok w 3 w_pos w_even ltac:(lia) three_lt_B) as (dpw & R & Hinfo & Hd & HR & Hlt & Hle).
  rewrite Hinfo.
  assert (HRpos : 0 < R) by (rewrite HR; apply Z.pow_pos_nonneg; lia).
  assert (HBpos : 0 < Bw w) by lia.
  destruct (Z.ltb_spec (R * R * 3) (Bw w * Bw w)) as [Hfit|Hno]; cbn [fst].
  - apply (digits_len_bound r x (Bw w * Bw w)); [lia | lia | lia|].
    replace (2 * dpw + 1 + 1) with ((dpw + 1) + (dpw + 1)) by lia.
    rewrite Z.pow_add_r by lia. rewrite (Z.pow_add_r 3 dpw 1), Z.pow_1_r by lia. rewrite <- HR. nia.
  - apply (digits_len_bound r x (Bw w * Bw w)); [lia | lia | lia|].
    replace (2 * dpw + 1) with (dpw + dpw + 1) by lia.
    rewrite !Z.pow_add_r, Z.pow_1_r by lia. rewrite <- HR. lia.
Qed.
End Buffers.

(** the three word sizes of the library: the array lengths the Rust constants evaluate to *)
Example max_digits_64 : max_word_digits 64 = 41 /\ max_dword_digits 64 = 81. Proof. vm_compute. split; reflexivity. Qed.
Example max_digits_32 : max_word_digits 32 = 21 /\ max_dword_digits 32 = 41. Proof. vm_compute. split; reflexivity. Qed.
Example max_digits_16 : max_word_digits 16 = 11 /\ max_dword_digits 16 = 21. Proof. vm_compute. split; reflexivity. Qed.
Example word_digits_fit_tight : len (digits_spec 3 (2 ^ 64 - 1)) = max_word_digits 64. Proof. vm_compute. reflexivity. Qed.

(** the scalar constants, in one statement *)
Theorem tables_consts :
  (forall r, radix_valid r = (gen_min_radix <=? r) && (r <=? gen_max_radix)) /\
  (forall upper d, digit_char upper d =
     gen_swar_zero + d + (if d <? 2 ^ gen_swar_shift - gen_swar_bias then 0 else if upper then gen_case_upper else gen_case_lower)) /\
  fmt_chunk_len = gen_fmt_chunk_len /\ parse_chunk_len = gen_parse_chunk_len /\
  (forall w base, max_exp_in_word w base =
     if base >? Z.ones (w / gen_max_exp_shortcut_div) then Ok (1, base)
     else let exp := w / blen base in max_exp_loop w (Z.to_nat w) base exp (base ^ exp)).
Proof.
  split; [exact radix_valid_table|]. split; [exact digit_char_table|].
  split; [reflexivity|]. split; [reflexivity | exact max_exp_in_word_table].
Qed.

Theorem digit_buffers_fit w : 0 < w -> w mod 2 = 0 -> 3 < Bw w ->
  (forall r x, 3 <= r -> 0 <= x < Bw w -> len (digits_spec r x) <= max_word_digits w) /\
  (forall r, 3 <= r -> r < Bw w -> fst (radix_info w r) < max_word_digits w) /\
  (forall r x, 3 <= r -> 0 <= x < Bw w * Bw w -> len (digits_spec r x) <= max_dword_digits w).
Proof.
  intros Hw He H3. split; [|split].
  - intros r x. apply word_digits_fit; assumption.
  - intros r. apply word_pad_fit; assumption.
  - intros r x. apply dword_digits_fit; assumption.
Qed.
