(** C01 round 4: the atoms of the loop-to-fold translator (tools/translate_c01_r4.py).  Every generated kernel of
    coq/gen/WordKernelsGen.v is a composition of these over an arbitrary word size [w] (B w = 2^w):
    primitive word operations of core (overflowing / wrapping add, sub, mul on Word), primitive.rs (split_dword,
    double_word, extend_word = identity), and arch::add::{add_with_carry, sub_with_borrow} (Int/RingAdd.v; tied to
    the source by C19_arch_add_with_carry / C19_arch_sub_with_borrow).  Definitions only. *)
From Dashu Require Import Base.Prelude Base.Words Int.RingAdd.
Open Scope Z_scope.

(** Word::overflowing_add / overflowing_sub: (wrapped result, overflow flag) *)
Definition ov_add (w a b : Z) : Z * bool := ((a + b) mod B w, B w <=? a + b).
Definition ov_sub (w a b : Z) : Z * bool := ((a - b) mod B w, a - b <? 0).
(** Word::wrapping_add / wrapping_sub / wrapping_mul *)
Definition wr_add (w a b : Z) : Z := (a + b) mod B w.
Definition wr_sub (w a b : Z) : Z := (a - b) mod B w.
Definition wr_mul (w a b : Z) : Z := (a * b) mod B w.
(** primitive::split_dword: (dw as Word, (dw >> WORD_BITS) as Word); primitive::double_word: lo | hi << WORD_BITS *)
Definition wsplit_dword (w d : Z) : Z * Z := (d mod B w, d / B w).
Definition wdouble_word (w lo hi : Z) : Z := lo + B w * hi.
(** SignedWord::to_sign_magnitude *)
Definition to_sign_magnitude (x : Z) : sign * Z := (sign_of x, Z.abs x).
(** <[Word]>::is_empty *)
Definition is_empty (l : list Z) : bool := match l with [] => true | _ => false end.
