(** C13 - the property-level statements, assembled from ModRingSpecProofs / ModRingProofs /
    ModRingOpsProofs / ModRingPowProofs.  The contracts of the external functions are bundled in
    [externals_ok]; everything else is proved. *)
From Dashu Require Import Base.Prelude Base.Words Int.ModRingSpec Int.ModRingSpecProofs
  Int.ModRingPowModel Int.ModRingPowProofs Int.ModRingModel Int.ModRingProofs Int.ModRingOpsProofs.
Open Scope Z_scope.

(** value-level contracts of what the modular code calls (num-modular 0.6 documentation; dashu gcd_ext):
    exact quotient/remainder under the documented precondition, inverse iff coprime, Bezout cofactor *)
Record externals_ok (w : Z) (f2 : Z -> Z -> Z * Z) (f3 : Z -> Z -> Z -> Z * Z)
    (finv : Z -> Z -> option Z) (fgcd : Z -> Z -> Z * Z * sign) : Prop := {
  ext_2by1 : forall d a, 2 ^ w / 2 <= d < 2 ^ w -> 0 <= a -> a / 2 ^ w < d -> f2 d a = (a / d, a mod d);
  ext_3by2 : forall d lo hi, 2 ^ w * 2 ^ w / 2 <= d < 2 ^ w * 2 ^ w -> 0 <= lo < 2 ^ w -> 0 <= hi < d ->
    f3 d lo hi = ((lo + 2 ^ w * hi) / d, (lo + 2 ^ w * hi) mod d);
  ext_invm : forall x m, 0 < m -> 0 <= x < m ->
    match finv x m with Some v => is_inverse m x v | None => Z.gcd x m <> 1 end;
  ext_gcd : forall lhs rhs, 0 < rhs < lhs ->
    let '(g, b, s) := fgcd lhs rhs in
    g = Z.gcd lhs rhs /\ 0 <= b < lhs /\ (g = 1 -> (rhs * signed s b) mod lhs = 1 mod lhs)
}.

(** ---------------- specification level ---------------- *)
Theorem spec_homomorphism m a b : 0 < m ->
  add_spec m (reduce_spec m a) (reduce_spec m b) = reduce_spec m (a + b) /\
  sub_spec m (reduce_spec m a) (reduce_spec m b) = reduce_spec m (a - b) /\
  mul_spec m (reduce_spec m a) (reduce_spec m b) = reduce_spec m (a * b) /\
  neg_spec m (reduce_spec m a) = reduce_spec m (- a) /\
  dbl_spec m (reduce_spec m a) = reduce_spec m (2 * a) /\
  sqr_spec m (reduce_spec m a) = reduce_spec m (a * a) /\
  0 <= reduce_spec m a < m.
Proof.
  intros Hm. repeat split; try (apply residue_range; exact Hm).
  - apply add_hom; exact Hm.
  - apply sub_hom; exact Hm.
  - apply mul_hom; exact Hm.
  - apply neg_hom; exact Hm.
  - apply dbl_hom; exact Hm.
  - apply sqr_hom; exact Hm.
Qed.

Theorem spec_pow m a e : 0 < m -> 0 <= e ->
  pow_spec m (reduce_spec m a) e = reduce_spec m (a ^ e) /\ powm m a e = pow_spec m a e.
Proof. intros Hm He. split; [apply pow_hom; assumption | apply powm_correct; assumption]. Qed.

Theorem spec_inverse m a : 0 < m ->
  match inv_spec m a with
  | Some x => 0 <= x < m /\ (a * x) mod m = 1 mod m /\ Z.gcd a m = 1
  | None => Z.gcd a m <> 1
  end.
Proof.
  intros Hm. pose proof (inv_spec_ok m a Hm) as H. destruct (inv_spec m a); [|exact H].
  destruct H as [[Hx Ex] G]. repeat split; try assumption; lia.
Qed.

(** ---------------- as-is model, every word size, every ring ---------------- *)
Section Main.
Variables (w : Z) (f2 : Z -> Z -> Z * Z) (f3 : Z -> Z -> Z -> Z * Z) (finv : Z -> Z -> option Z) (fgcd : Z -> Z -> Z * Z * sign).
Hypothesis w_ge : 2 <= w.
Hypothesis ext : externals_ok w f2 f3 finv fgcd.

Let E2 := ext_2by1 _ _ _ _ _ ext.
Let E3 := ext_3by2 _ _ _ _ _ ext.
Let Ei := ext_invm _ _ _ _ _ ext.
Let Eg := ext_gcd _ _ _ _ _ ext.

(** ConstDivisor::new + reduce + residue: every modulus >= 1, every integer *)
Theorem asis_reduce id m x : 1 <= m ->
  exists r e, new_ring w id m = Ok r /\ ring_wf w r /\ r_m r = m /\ r_id r = id /\
    reduce_asis w f2 f3 r x = Ok e /\ rep r x e /\
    residue_asis e = Ok (x mod m) /\ modulus_asis e = m /\ 0 <= x mod m < m.
Proof.
  intros Hm. destruct (new_ring_ok w w_ge id m Hm) as (r & En & Hwf & Em & Eid).
  destruct (reduce_ok w w_ge f2 f3 E2 E3 r x Hwf) as (e & Ee & He).
  destruct (residue_ok w w_ge r x e Hwf He) as (Er & Hr & Emod). unfold reduce_spec in *. rewrite Em in *.
  exists r, e. split; [exact En|]. split; [exact Hwf|]. split; [exact Em|]. split; [exact Eid|].
  split; [exact Ee|]. split; [exact He|]. split; [exact Er|]. split; [exact Emod | exact Hr].
Qed.

(** + - * neg dbl sqr == on represented residues: the result represents the integer result *)
Theorem asis_ring_ops r x y a b : ring_wf w r -> rep r x a -> rep r y b ->
  (exists c, add_asis w a b = Ok c /\ rep r (x + y) c) /\
  (exists c, sub_asis w a b = Ok c /\ rep r (x - y) c) /\
  (exists c, mul_asis w f2 f3 a b = Ok c /\ rep r (x * y) c) /\
  (exists c, neg_asis a = Ok c /\ rep r (- x) c) /\
  (exists c, dbl_asis w a = Ok c /\ rep r (2 * x) c) /\
  (exists c, sqr_asis w f2 f3 a = Ok c /\ rep r (x * x) c) /\
  eq_asis a b = Ok (x mod r_m r =? y mod r_m r).
Proof.
  intros Hwf Ha Hb.
  split; [apply (add_ok w w_ge); assumption|].
  split; [apply (sub_ok w w_ge); assumption|].
  split; [apply (mul_ok w w_ge f2 f3 E2 E3); assumption|].
  split; [apply (neg_ok w w_ge); assumption|].
  split; [apply (dbl_ok w w_ge); assumption|].
  split; [apply (sqr_ok w w_ge f2 f3 E2 E3); assumption|].
  apply (eq_asis_ok w w_ge r x y a b Hwf Ha Hb).
Qed.

Theorem asis_pow r x a e : ring_wf w r -> rep r x a -> 0 <= e ->
  exists c, pow_asis w f2 f3 a e = Ok c /\ rep r (x ^ e) c.
Proof. apply (pow_ok w w_ge f2 f3 E2 E3). Qed.

Theorem asis_inv r x a : ring_wf w r -> rep r x a ->
  (exists o, inv_asis w finv fgcd a = Ok o /\
     match o with
     | Some c => exists v, rep r v c /\ is_inverse (r_m r) x (v mod r_m r) /\ Z.gcd x (r_m r) = 1
     | None => Z.gcd x (r_m r) <> 1
     end) /\
  ((exists c, inv_asis w finv fgcd a = Ok (Some c)) <-> Z.gcd x (r_m r) = 1).
Proof.
  intros Hwf Ha. split; [exact (inv_asis_ok w w_ge finv fgcd Ei Eg r x a Hwf Ha) | exact (inv_some_iff w w_ge finv fgcd Ei Eg r x a Hwf Ha)].
Qed.

Theorem asis_div r x y a b : ring_wf w r -> rep r x a -> rep r y b ->
  match div_spec (r_m r) x y with
  | Ok q => exists c, div_asis w f2 f3 finv fgcd a b = Ok c /\ rep r q c
  | Panic p => div_asis w f2 f3 finv fgcd a b = Panic p
  | _ => False
  end.
Proof. apply (div_asis_ok w w_ge f2 f3 finv fgcd E2 E3 Ei Eg). Qed.

(** the Reducer implementation on pre-shifted forms *)
Theorem asis_reducer r x y e : ring_wf w r -> 0 <= e ->
  let f v := v mod r_m r * 2 ^ r_shift r in
  (0 <= x -> rd_transform w f2 f3 r x = Ok (f x)) /\
  (forall t, 0 <= t -> rd_check w r t = (t mod 2 ^ r_shift r =? 0) && (t / 2 ^ r_shift r <? r_m r)) /\
  rd_check w r (f x) = true /\
  rd_residue r (f x) = x mod r_m r /\ rd_modulus r = r_m r /\ rd_is_zero (f x) = (x mod r_m r =? 0) /\
  rd_add w r (f x) (f y) = Ok (f (x + y)) /\ rd_sub r (f x) (f y) = Ok (f (x - y)) /\
  rd_dbl w r (f x) = Ok (f (2 * x)) /\ rd_neg r (f x) = Ok (f (- x)) /\
  rd_mul w f2 f3 r (f x) (f y) = Ok (f (x * y)) /\ rd_sqr w f2 f3 r (f x) = Ok (f (x * x)) /\
  rd_pow w f2 f3 r (f x) e = Ok (f (x ^ e)) /\
  exists o, rd_inv w finv fgcd r (f x) = Ok o /\
    match o with
    | Some t => exists v, t = f v /\ is_inverse (r_m r) x (v mod r_m r) /\ Z.gcd x (r_m r) = 1
    | None => Z.gcd x (r_m r) <> 1
    end.
Proof.
  intros Hwf He f. unfold f.
  destruct (rd_residue_ok w w_ge r x Hwf) as (R1 & R2 & R3). unfold reduce_spec in *.
  split; [intros Hx; apply (rd_transform_ok w w_ge f2 f3 E2 E3); assumption|].
  split; [intros t Ht; apply (rd_check_ok w w_ge); assumption|].
  split; [apply (rd_check_rep w w_ge); assumption|].
  split; [exact R1|]. split; [exact R2|]. split; [exact R3|].
  split; [apply (rd_add_ok w w_ge); assumption|].
  split; [apply (rd_sub_ok w w_ge); assumption|].
  split; [apply (rd_dbl_ok w w_ge); assumption|].
  split; [apply (rd_neg_ok w w_ge); assumption|].
  split; [apply (rd_mul_ok w w_ge f2 f3 E2 E3); assumption|].
  split; [apply (rd_sqr_ok w w_ge f2 f3 E2 E3); assumption|].
  split; [apply (rd_pow_ok w w_ge f2 f3 E2 E3); assumption|].
  apply (rd_inv_ok w w_ge finv fgcd Ei Eg); assumption.
Qed.

End Main.

Example externals_nonvacuous :
  externals_ok 64 (fun d a => (a / d, a mod d)) (fun d lo hi => ((lo + 2 ^ 64 * hi) / d, (lo + 2 ^ 64 * hi) mod d))
    (fun x m => inv_spec m x)
    (fun lhs rhs => match inv_spec lhs rhs with Some t => (1, t, Positive) | None => (Z.gcd lhs rhs, 0, Positive) end).
Proof.
  constructor.
  - intros; reflexivity.
  - intros; reflexivity.
  - intros x m Hm Hx. pose proof (inv_spec_ok m x Hm) as H. destruct (inv_spec m x); [apply H | exact H].
  - intros lhs rhs H. pose proof (inv_spec_ok lhs rhs ltac:(lia)) as Hs. destruct (inv_spec lhs rhs) as [t|].
    + destruct Hs as [[Ht Et] G]. split; [rewrite Z.gcd_comm; symmetry; exact G|]. split; [exact Ht|].
      intros _. rewrite <- Et. f_equal; try (unfold signed, sgnz; lia).
    + split; [reflexivity|]. split; [lia|]. intros G. rewrite Z.gcd_comm in G. contradiction.
Qed.
