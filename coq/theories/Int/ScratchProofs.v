(** C17 (round 3) - the scratch memory requested by memory_requirement_* suffices for every nested
    allocate_slice of the multiplication recursion (schoolbook / Karatsuba / Toom-3 at every depth, chunked
    unbalanced products), of squaring and of the squaring loops of pow_word_base / pow_dword_base: no
    `expect("internal error: not enough memory allocated")`, for EVERY operand length, every word size in
    bytes ws > 0 and every usize::MAX, from any aligned base address at which the block fits the address
    space.  All formulas (requirements, thresholds, allocation sizes) are the regenerated ones of
    coq/gen/StorageGen.v. *)
From Dashu Require Import Base.Prelude Int.ScratchModel.
From DashuGen Require Import StorageGen.
Open Scope Z_scope.

(* ------------------------------------------------------------------ the regenerated fragments, as read today *)
Lemma kara_plan_eq n : kara_plan n =
  let mid := (n + 1) / 2 in
  Seq (Alloc (2 * mid) (Call mid)) (Seq (Alloc (2 * (n - mid)) (Call (n - mid))) (Alloc mid (Alloc mid (Call mid)))).
Proof. reflexivity. Qed.

Lemma toom_plan_eq n : toom_plan n =
  let n3 := (n + 2) / 3 in
  Alloc (2 * n3 + 2) (Seq (Call n3)
 (Alloc (n3 + 1) (Alloc (n3 + 1) (Seq (Call (n3 + 1))
 (Seq (Alloc (2 * n3 + 2) (Call (n - 2 * n3)))
 (Alloc (2 * n3 + 2) (Seq (Alloc (n3 + 1) (Alloc (n3 + 1) (Call (n3 + 1))))
                          (Alloc (2 * (n3 + 1)) (Call (n3 + 1)))))))))).
Proof. reflexivity. Qed.

(** one recursive call per `mul::add_signed_mul_same_len` in the source *)
Lemma plan_call_counts : gen_kara_calls = 3%nat /\ gen_toom_calls = 5%nat.
Proof. split; reflexivity. Qed.

Fixpoint calls (p : plan) : list Z :=
  match p with Skip => [] | Call n => [n] | Alloc _ p => calls p | Seq p q => calls p ++ calls q end.
Fixpoint nonneg (p : plan) : Prop :=
  match p with Skip | Call _ => True | Alloc k p => 0 <= k /\ nonneg p | Seq p q => nonneg p /\ nonneg q end.

Lemma plan_facts n : 0 <= n -> nonneg (plan_of n) /\ forall n', In n' (calls (plan_of n)) -> 0 <= n' < n.
Proof.
  intros Hn. unfold plan_of, gen_mul_threshold_simple, gen_mul_threshold_karatsuba.
  destruct (Z.leb_spec n 24) as [H1|H1]; [split; [exact I | intros n' []]|].
  destruct (Z.leb_spec n 192) as [H2|H2].
  - rewrite kara_plan_eq. cbv zeta.
    pose proof (Z.div_mod (n + 1) 2 ltac:(lia)). pose proof (Z.mod_pos_bound (n + 1) 2 ltac:(lia)).
    cbn [nonneg calls app]. split; [repeat split; lia|].
    intros n' Hin. cbn [In] in Hin. repeat (destruct Hin as [<-|Hin]; [lia|]). contradiction.
  - rewrite toom_plan_eq. cbv zeta.
    pose proof (Z.div_mod (n + 2) 3 ltac:(lia)). pose proof (Z.mod_pos_bound (n + 2) 3 ltac:(lia)).
    cbn [nonneg calls app]. split; [repeat split; lia|].
    intros n' Hin. cbn [In] in Hin. repeat (destruct Hin as [<-|Hin]; [lia|]). contradiction.
Qed.

Section Proofs.
Variable ws : Z.
Variable U : Z.
Hypothesis ws_pos : 0 < ws.

(** a chunk that starts at an aligned address, lies inside the address space and has room for a words *)
Definition good (m : memory) (a : Z) : Prop :=
  mstart m mod ws = 0 /\ 0 <= mstart m /\ mend m <= U /\ 0 <= a /\ a * ws <= mend m - mstart m.

Lemma alloc_ok n m a : good m a -> 0 <= n <= a ->
  exists s m', alloc_slice ws U n m = Ok (s, m') /\ good m' (a - n).
Proof.
  intros (H1 & H2 & H3 & H4 & H5) Hn. unfold alloc_slice.
  assert ((- mstart m) mod ws = 0) as -> by (apply Z.mod_opp_l_z; [lia | exact H1]).
  rewrite Z.add_0_r. cbv zeta.
  assert (0 <= n * ws <= a * ws) as Hs by nia.
  destruct (Z.gtb_spec (mstart m) U); [lia|].
  destruct (Z.gtb_spec (n * ws) U); [lia|].
  destruct (Z.gtb_spec (mstart m + n * ws) U); [lia|].
  destruct (Z.leb_spec (mstart m + n * ws) (mend m)); [|lia].
  eexists _, _. split; [reflexivity|]. unfold good. cbn [mstart mend].
  split; [rewrite Z_mod_plus_full; exact H1|]. rewrite Z.mul_sub_distr_r. lia.
Qed.

Lemma demand_nonneg drec p : (forall n, In n (calls p) -> 0 <= drec n) -> nonneg p -> 0 <= demand drec p.
Proof.
  induction p as [|n|k p IH|p IHp q IHq]; cbn [demand calls nonneg]; intros Hc Hp.
  - lia.
  - apply Hc. left. reflexivity.
  - specialize (IH Hc (proj2 Hp)). lia.
  - specialize (IHp (fun n H => Hc n (in_or_app _ _ _ (or_introl H))) (proj1 Hp)).
    specialize (IHq (fun n H => Hc n (in_or_app _ _ _ (or_intror H))) (proj2 Hp)). lia.
Qed.

(** a plan runs without failure in any good chunk with room for its demand *)
Lemma run_plan_ok (rec : Z -> memory -> result unit) (drec : Z -> Z) p :
  (forall n, In n (calls p) -> 0 <= drec n /\ forall m a, good m a -> drec n <= a -> rec n m = Ok tt) ->
  nonneg p -> forall m a, good m a -> demand drec p <= a -> run_plan ws U rec p m = Ok tt.
Proof.
  induction p as [|n|k p IH|p IHp q IHq]; cbn [demand calls nonneg run_plan]; intros Hc Hp m a Hg Hd.
  - reflexivity.
  - apply (proj2 (Hc n (or_introl eq_refl)) m a); assumption.
  - pose proof (demand_nonneg drec p (fun n H => proj1 (Hc n H)) (proj2 Hp)) as H0.
    destruct (alloc_ok k m a Hg ltac:(lia)) as (s & m' & E & Hg'). rewrite E. cbn [rbind snd].
    apply (IH Hc (proj2 Hp) m' (a - k)); [exact Hg' | lia].
  - rewrite (IHp (fun n H => Hc n (in_or_app _ _ _ (or_introl H))) (proj1 Hp) m a Hg ltac:(lia)). cbn [rbind].
    apply (IHq (fun n H => Hc n (in_or_app _ _ _ (or_intror H))) (proj2 Hp) m a Hg). lia.
Qed.

Lemma dsame_nonneg fuel : forall n, 0 <= n -> 0 <= dsame fuel n.
Proof.
  induction fuel as [|f IH]; intros n Hn; cbn [dsame]; [lia|].
  destruct (plan_facts n Hn) as [H1 H2]. apply demand_nonneg; [|exact H1].
  intros n' Hin. apply IH. specialize (H2 n' Hin). lia.
Qed.

(** the recursion of mul::add_signed_mul_same_len never runs out of scratch memory in a chunk with room for dsame *)
Lemma mul_same_ok fuel : forall n m a,
  (Z.to_nat n < fuel)%nat -> 0 <= n -> good m a -> dsame fuel n <= a -> mul_same ws U fuel n m = Ok tt.
Proof.
  induction fuel as [|f IH]; intros n m a Hf Hn Hg Hd; [lia|]. cbn [mul_same dsame] in *.
  destruct (plan_facts n Hn) as [H1 H2].
  apply (run_plan_ok (mul_same ws U f) (dsame f) (plan_of n)) with (a := a); auto.
  intros n' Hin. specialize (H2 n' Hin). split; [apply dsame_nonneg; lia|].
  intros m' a' Hg' Hd'. apply (IH n' m' a'); auto; lia.
Qed.

End Proofs.

(* ------------------------------------------------------------------ the demand is within the requested amount *)
Lemma log2_up_half n : 2 <= n -> Z.log2_up ((n + 1) / 2) = Z.log2_up n - 1.
Proof.
  intros Hn. pose proof (Z.div_mod (n + 1) 2 ltac:(lia)). pose proof (Z.mod_pos_bound (n + 1) 2 ltac:(lia)).
  assert (1 <= Z.log2_up n) as HL by (change 1 with (Z.log2_up 2); apply Z.log2_up_le_mono; lia).
  destruct (Z.log2_up_spec n ltac:(lia)) as [L1 L2].
  replace (Z.log2_up n) with (Z.succ (Z.pred (Z.log2_up n))) in L2 by lia. rewrite Z.pow_succ_r in L2 by lia.
  apply Z.le_antisymm.
  - apply Z.log2_up_le_pow2; [lia|]. replace (Z.log2_up n - 1) with (Z.pred (Z.log2_up n)) by lia. lia.
  - destruct (Z.eq_dec (Z.log2_up n) 1) as [E|E]; [rewrite E; apply Z.log2_up_nonneg|].
    assert (Z.pred (Z.log2_up n - 1) < Z.log2_up ((n + 1) / 2)); [|lia].
    apply Z.log2_up_lt_pow2; [lia|].
    replace (Z.pred (Z.log2_up n)) with (Z.succ (Z.pred (Z.log2_up n - 1))) in L1 by lia. rewrite Z.pow_succ_r in L1 by lia. lia.
Qed.

Lemma log2_up_le_self n : 0 <= n -> Z.log2_up n <= n.
Proof.
  intros H. destruct (Z.eq_dec n 0) as [->|]; [cbn; lia|]. apply Z.log2_up_le_lin. lia.
Qed.

(** Karatsuba (with schoolbook below): f(n) <= 2n + 2 ceil_log2 n *)
Lemma kara_bound fuel : forall n, 0 <= n <= gen_mul_threshold_karatsuba -> dsame fuel n <= gen_kara_requirement n.
Proof.
  unfold gen_kara_requirement, gen_mul_threshold_karatsuba.
  induction fuel as [|f IH]; intros n Hn; cbn [dsame]; pose proof (Z.log2_up_nonneg n) as HL; [lia|].
  unfold plan_of, gen_mul_threshold_simple, gen_mul_threshold_karatsuba.
  destruct (Z.leb_spec n 24) as [H1|H1]; [cbn [demand]; lia|].
  destruct (Z.leb_spec n 192) as [H2|H2]; [|lia].
  rewrite kara_plan_eq. cbv zeta. cbn [demand].
  pose proof (Z.div_mod (n + 1) 2 ltac:(lia)) as D1. pose proof (Z.mod_pos_bound (n + 1) 2 ltac:(lia)) as D2.
  pose proof (log2_up_half n ltac:(lia)) as E.
  pose proof (IH ((n + 1) / 2) ltac:(lia)) as B1. pose proof (IH (n - (n + 1) / 2) ltac:(lia)) as B2.
  assert (Z.log2_up (n - (n + 1) / 2) <= Z.log2_up ((n + 1) / 2)) as M by (apply Z.log2_up_le_mono; lia).
  lia.
Qed.

(** Toom-3 levels: below 3 + 189 * 3^j at most j levels of Toom-3 are stacked, each costing at most 20 words
    beyond four times the length *)
Lemma toom_level j : forall fuel n, 0 <= n <= 3 + 189 * 3 ^ Z.of_nat j -> dsame fuel n <= 4 * n + 20 * Z.of_nat j.
Proof.
  induction j as [|j IH]; intros fuel n Hn.
  - change (3 ^ Z.of_nat 0) with 1 in Hn. pose proof (kara_bound fuel n) as K.
    unfold gen_kara_requirement, gen_mul_threshold_karatsuba in K. pose proof (log2_up_le_self n ltac:(lia)). lia.
  - destruct fuel as [|f]; cbn [dsame]; [lia|].
    unfold plan_of, gen_mul_threshold_simple, gen_mul_threshold_karatsuba.
    destruct (Z.leb_spec n 24) as [H1|H1]; [cbn [demand]; lia|].
    destruct (Z.leb_spec n 192) as [H2|H2].
    + pose proof (kara_bound (S f) n) as K. cbn [dsame] in K.
      unfold plan_of, gen_mul_threshold_simple, gen_mul_threshold_karatsuba, gen_kara_requirement in K.
      destruct (Z.leb_spec n 24); [lia|]. destruct (Z.leb_spec n 192); [|lia].
      pose proof (log2_up_le_self n ltac:(lia)). specialize (K ltac:(lia)). lia.
    + rewrite toom_plan_eq. cbv zeta. cbn [demand].
      rewrite Nat2Z.inj_succ, Z.pow_succ_r in Hn by lia.
      pose proof (Z.div_mod (n + 2) 3 ltac:(lia)) as D1. pose proof (Z.mod_pos_bound (n + 2) 3 ltac:(lia)) as D2.
      assert (0 < 3 ^ Z.of_nat j) as Hp by (apply Z.pow_pos_nonneg; lia).
      pose proof (IH f ((n + 2) / 3) ltac:(lia)) as B1.
      pose proof (IH f ((n + 2) / 3 + 1) ltac:(lia)) as B2.
      pose proof (IH f (n - 2 * ((n + 2) / 3)) ltac:(lia)) as B3.
      lia.
Qed.

Lemma pow_20_13 j : 0 <= j -> 2 ^ (20 * j) <= 3 ^ (13 * j).
Proof.
  intros H. rewrite !Z.pow_mul_r by lia. apply Z.pow_le_mono_l. split; [lia|]. vm_compute. discriminate.
Qed.

(** 20 levels-worth of words are covered by 13 ceil_log2 n as soon as n >= 3^j *)
Lemma levels_vs_log2 j n : 0 <= j -> 3 ^ j <= n -> 20 * j <= 13 * Z.log2_up n.
Proof.
  intros Hj Hn. assert (0 < 3 ^ j) as Hp by (apply Z.pow_pos_nonneg; lia).
  destruct (Z.eq_dec n 1) as [->|Hne].
  { destruct (Z.eq_dec j 0) as [->|]; [cbn; lia|]. assert (3 ^ 1 <= 3 ^ j) by (apply Z.pow_le_mono_r; lia). lia. }
  destruct (Z.log2_up_spec n ltac:(lia)) as [_ L2]. pose proof (Z.log2_up_nonneg n) as L0.
  apply (Z.pow_le_mono_r_iff 2); [lia | lia |].
  eapply Z.le_trans; [apply pow_20_13; exact Hj|].
  rewrite (Z.mul_comm 13 j), Z.pow_mul_r by lia.
  rewrite (Z.mul_comm 13 (Z.log2_up n)), Z.pow_mul_r by lia.
  apply Z.pow_le_mono_l. lia.
Qed.

Lemma exists_level J : forall n, 192 < n <= 3 + 189 * 3 ^ Z.of_nat J ->
  exists j, (1 <= j)%nat /\ 3 + 189 * 3 ^ (Z.of_nat j - 1) < n <= 3 + 189 * 3 ^ Z.of_nat j.
Proof.
  induction J as [|J IH]; intros n Hn.
  - change (3 ^ Z.of_nat 0) with 1 in Hn. lia.
  - destruct (Z.le_gt_cases n (3 + 189 * 3 ^ Z.of_nat J)) as [Hle|Hgt]; [apply IH; lia|].
    exists (S J). split; [lia|]. replace (Z.of_nat (S J) - 1) with (Z.of_nat J) by lia. lia.
Qed.

(** Toom-3 (with Karatsuba and schoolbook below): f(n) <= 4n + 13 ceil_log2 n, for every n *)
Lemma toom_bound fuel n : 0 <= n -> dsame fuel n <= gen_toom_requirement n.
Proof.
  intros Hn. unfold gen_toom_requirement. pose proof (Z.log2_up_nonneg n) as HL.
  destruct (Z.le_gt_cases n 192) as [Hle|Hgt].
  - pose proof (kara_bound fuel n) as K. unfold gen_kara_requirement, gen_mul_threshold_karatsuba in K. lia.
  - assert (n <= 3 + 189 * 3 ^ Z.of_nat (Z.to_nat n)) as Hb.
    { rewrite Z2Nat.id by lia. pose proof (Z.pow_gt_lin_r 3 n ltac:(lia) ltac:(lia)). lia. }
    destruct (exists_level (Z.to_nat n) n ltac:(lia)) as (j & Hj & Hlo & Hhi).
    pose proof (toom_level j fuel n ltac:(lia)) as T.
    assert (0 < 3 ^ (Z.of_nat j - 1)) as Hp by (apply Z.pow_pos_nonneg; lia).
    assert (3 ^ Z.of_nat j <= n) as H3.
    { replace (Z.of_nat j) with (Z.succ (Z.of_nat j - 1)) at 1 by lia. rewrite Z.pow_succ_r by lia. lia. }
    pose proof (levels_vs_log2 (Z.of_nat j) n ltac:(lia) H3). lia.
Qed.

(** mul::memory_requirement_up_to(_, s) covers every same-length product of at most s words *)
Theorem requirement_covers fuel r s : 0 <= r <= s -> dsame fuel r <= gen_mul_requirement s.
Proof.
  intros H. unfold gen_mul_requirement.
  destruct (Z.leb_spec s gen_mul_threshold_simple) as [H1|H1].
  - destruct fuel as [|f]; cbn [dsame]; [lia|]. unfold plan_of. destruct (Z.leb_spec r gen_mul_threshold_simple); [cbn; lia | lia].
  - assert (Z.log2_up r <= Z.log2_up s) as M by (apply Z.log2_up_le_mono; lia).
    destruct (Z.leb_spec s gen_mul_threshold_karatsuba) as [H2|H2].
    + pose proof (kara_bound fuel r ltac:(lia)). unfold gen_kara_requirement in *. lia.
    + pose proof (toom_bound fuel r ltac:(lia)). unfold gen_toom_requirement in *. lia.
Qed.

Section Top.
Variable ws : Z.
Variable U : Z.
Hypothesis ws_pos : 0 < ws.

Lemma chunk_good base words : base mod ws = 0 -> 0 <= base -> 0 <= words -> base + words * ws <= U ->
  good ws U (chunk ws base words) words.
Proof. intros. unfold good, chunk. cbn [mstart mend]. repeat split; auto; lia. Qed.

Lemma requirement_nonneg s : 0 <= s -> 0 <= gen_mul_requirement s.
Proof. intros H. pose proof (requirement_covers 0 0 s ltac:(lia)). cbn [dsame] in *. lia. Qed.

(** the general product (chunks of the shorter length, remainder recursively) in a chunk with room for
    memory_requirement_up_to(_, lb) *)
Lemma mul_gen_ok fuel : forall la lb m a,
  (Z.to_nat lb < fuel)%nat -> 0 < lb -> good ws U m a -> gen_mul_requirement lb <= a -> mul_gen ws U fuel la lb m = Ok tt.
Proof.
  induction fuel as [|f IH]; intros la lb m a Hf Hl Hg Ha; [lia|]. cbn [mul_gen].
  destruct (lb <=? gen_mul_threshold_simple); [reflexivity|].
  rewrite (mul_same_ok ws U ws_pos (S (Z.to_nat lb)) lb m a); [|lia | lia | exact Hg |].
  - cbn [rbind]. destruct (Z.eqb_spec (la mod lb) 0); [reflexivity|].
    pose proof (Z.mod_pos_bound la lb Hl).
    apply (IH lb (la mod lb) m a); [lia | lia | exact Hg |].
    pose proof (requirement_covers 0 0 (la mod lb) ltac:(lia)) as N. cbn [dsame] in N.
    (* the requirement is monotone: it covers dsame of every smaller length, in particular of la mod lb *)
    assert (0 <= a) as Ha0 by (destruct Hg as (_ & _ & _ & Hg4 & _); exact Hg4).
    unfold gen_mul_requirement in *.
    destruct (Z.leb_spec (la mod lb) gen_mul_threshold_simple); [lia|].
    assert (Z.log2_up (la mod lb) <= Z.log2_up lb) by (apply Z.log2_up_le_mono; lia).
    pose proof (Z.log2_up_nonneg (la mod lb)). pose proof (Z.log2_up_nonneg lb).
    destruct (Z.leb_spec lb gen_mul_threshold_simple); [lia|].
    unfold gen_kara_requirement, gen_toom_requirement, gen_mul_threshold_karatsuba, gen_mul_threshold_simple in *.
    destruct (Z.leb_spec (la mod lb) 192); destruct (Z.leb_spec lb 192); lia.
  - eapply Z.le_trans; [apply (requirement_covers _ lb lb); lia | exact Ha].
Qed.

(** mul_ops::mul_large: MemoryAllocation::new(mul::memory_requirement_exact(res_len, min(len lhs, len rhs))) *)
Theorem mul_large_scratch_ok base la lb :
  base mod ws = 0 -> 0 <= base -> 1 <= la -> 1 <= lb ->
  base + gen_mul_requirement (Z.min la lb) * ws <= U ->
  mul_large_scratch ws U base la lb = Ok tt.
Proof.
  intros Hb H0 H1 H2 HU. unfold mul_large_scratch, gen_mul_large_scratch_arg. cbv zeta.
  pose proof (requirement_nonneg (Z.min la lb) ltac:(lia)).
  apply (mul_gen_ok _ _ _ _ (gen_mul_requirement (Z.min la lb))); [lia | lia | apply chunk_good; auto | lia].
Qed.

Lemma sqr_run_ok len m a : 0 <= len -> good ws U m a -> gen_sqr_requirement len <= a \/ (exists c, len <= c /\ gen_sqr_requirement c <= a) ->
  sqr_run ws U len m = Ok tt.
Proof.
  intros Hl Hg Ha. unfold sqr_run. destruct (Z.leb_spec len gen_sqr_max_len_simple) as [H1|H1]; [reflexivity|].
  apply (mul_same_ok ws U ws_pos _ len m a); [lia | lia | exact Hg |].
  destruct Ha as [Ha|(c & Hc & Ha)]; unfold gen_sqr_requirement in Ha.
  - destruct (Z.leb_spec len gen_sqr_max_len_simple); [lia|]. eapply Z.le_trans; [apply (requirement_covers _ len len); lia | exact Ha].
  - destruct (Z.leb_spec c gen_sqr_max_len_simple); [lia|]. eapply Z.le_trans; [apply (requirement_covers _ len c); lia | exact Ha].
Qed.

(** mul_ops::square_large: MemoryAllocation::new(sqr::memory_requirement_exact(len)) *)
Theorem square_large_scratch_ok base len :
  base mod ws = 0 -> 0 <= base -> 0 <= len -> base + gen_sqr_requirement len * ws <= U ->
  square_large_scratch ws U base len = Ok tt.
Proof.
  intros Hb H0 H1 HU. unfold square_large_scratch, gen_square_large_scratch_arg.
  assert (0 <= gen_sqr_requirement len) as Hn.
  { unfold gen_sqr_requirement. destruct (_ <=? _); [lia | apply requirement_nonneg; lia]. }
  apply (sqr_run_ok len _ (gen_sqr_requirement len)); [lia | apply chunk_good; auto | left; lia].
Qed.

(** every `res = square(res)` of the pow loops: res has at most `copy` words (StorageOps2Proofs: len <= exp / 2 for
    pow_word_base, <= exp for pow_dword_base, cf. C17_pow_*_scratch below), copy <= sarg *)
Theorem pow_square_scratch_ok base copy sarg len :
  base mod ws = 0 -> 0 <= base -> 0 <= len <= copy -> copy <= sarg ->
  base + (copy + gen_sqr_requirement sarg) * ws <= U ->
  pow_square_scratch ws U base copy sarg len = Ok tt.
Proof.
  intros Hb H0 Hl Hc HU. unfold pow_square_scratch.
  assert (0 <= gen_sqr_requirement sarg) as Hn.
  { unfold gen_sqr_requirement. destruct (_ <=? _); [lia | apply requirement_nonneg; lia]. }
  destruct (alloc_ok ws U ws_pos len (chunk ws base (copy + gen_sqr_requirement sarg)) (copy + gen_sqr_requirement sarg)) as (s & m' & E & Hg).
  { apply chunk_good; auto; lia. } { lia. }
  rewrite E. cbn [rbind snd].
  apply (sqr_run_ok len m' (copy + gen_sqr_requirement sarg - len)); [lia | exact Hg |].
  right. exists sarg. split; lia.
Qed.

End Top.

(** non-vacuity: 64-bit words (8 bytes), a block at address 4096; the same runs fail with one word less *)
Example scratch_examples :
  mul_large_scratch 8 (2 ^ 64 - 1) 4096 1000 300 = Ok tt /\
  mul_large_scratch 8 (2 ^ 64 - 1) 4096 57 25 = Ok tt /\
  square_large_scratch 8 (2 ^ 64 - 1) 4096 31 = Ok tt /\
  pow_square_scratch 8 (2 ^ 64 - 1) 4096 41 41 40 = Ok tt /\
  dsame 300 193 = 628 /\ gen_mul_requirement 193 = 876 /\ dsame 100 25 = 26 /\ gen_mul_requirement 25 = 60 /\
  mul_same 8 (2 ^ 64 - 1) 300 193 (chunk 8 4096 628) = Ok tt /\
  mul_same 8 (2 ^ 64 - 1) 300 193 (chunk 8 4096 627) = Err 40 /\
  mul_same 8 (2 ^ 64 - 1) 300 193 (mkM 4097 (4097 + 628 * 8)) = Err 40.
Proof. vm_compute. repeat split; reflexivity. Qed.
