(** C05, integer part, arithmetic producers.  The as-is models of the UBig / IBig operators that other
    developments proved exact (C01: + - * sqr cubic, Int/RingTop.v; C09: & | ^ and_not << >> set_bit clear_bit,
    Int/Bits*Proofs.v) work on the typed view of a magnitude (inline double word | heap words).  Here they are
    composed with the full representation of C05 (capacity field, sign, inline / heap layout): the operands are
    read with Repr::as_sign_typed, the result goes through Repr::from_typed (from_dword / from_buffer) and
    with_sign, exactly as integer/src/{add_ops,mul_ops,bits,shift_ops}.rs do.  Proved for every word size
    w >= 8, all operands, all ownership forms: the result is CANONICAL and has the right value - so ==, cmp and
    Hash of C05 apply to it - and this is lifted to all finite histories mixing constructors, copies, sign
    changes and arithmetic. *)
From Dashu Require Import Base.Prelude Base.Words.
From Dashu Require Import Int.RingAdd Int.RingMul Int.RingOps Int.RingOpsProofs Int.RingOpsMulProofs Int.RingDispatchProofs Int.RingTop.
From Dashu Require Import Int.BitsKernels Int.BitsLogicProofs Int.BitsShiftProofs Int.BitsMiscProofs.
From Dashu Require Import Int.ReprOrdNoNegZero.
From Dashu Require Import Int.ReprOrdModel Int.ReprOrdProofs.
Open Scope Z_scope.

Section Arith.
Variable w : Z.
Hypothesis w_ge : 8 <= w.
Let w_pos : 0 < w. Proof. lia. Qed.
Notation B := (Words.B w).
Notation value := (Words.value w).

(* ---------------------------------------------------------------- the typed views of the three developments *)

Definition to_t (r : repr) : trepr :=
  match as_typed w r with RefSmall d => Small d | RefLarge ws => Large ws end.
Definition to_b (r : repr) : brepr :=
  match as_typed w r with RefSmall d => BSmall d | RefLarge ws => BLarge ws end.
Definition of_t (t : trepr) : typed := match t with Small d => RefSmall d | Large ws => RefLarge ws end.
Definition of_b (t : brepr) : typed := match t with BSmall d => RefSmall d | BLarge ws => RefLarge ws end.

Definition tvalue (t : typed) : Z := match t with RefSmall d => d | RefLarge ws => value ws end.
(** all that Repr::from_typed needs of a result: a double word in range, or well-formed words *)
Definition mag_ok (t : typed) : Prop :=
  match t with RefSmall d => 0 <= d < B * B | RefLarge ws => Words.wf w ws end.

(** Repr::from_typed (Small -> from_dword, Large -> from_buffer) followed by with_sign; [c] is the capacity of the
    buffer the operation happened to allocate (any number: at least the length is all that is known of it) *)
Definition of_mag (c : Z) (s : sign) (t : typed) : repr :=
  ReprOrdModel.with_sign
    (match t with
     | RefSmall d => ReprOrdModel.from_dword w d
     | RefLarge ws => ReprOrdModel.from_buffer w (Z.max c (len ws)) ws
     end) s.

Lemma of_mag_ok c s t : mag_ok t ->
  canonical w (of_mag c s t) /\ rvalue w (of_mag c s t) = signed s (tvalue t).
Proof.
  intros H. unfold of_mag.
  assert (exists r, (match t with
     | RefSmall d => ReprOrdModel.from_dword w d
     | RefLarge ws => ReprOrdModel.from_buffer w (Z.max c (len ws)) ws
     end) = r /\ canonical w r /\ rvalue w r = tvalue t /\ 0 <= tvalue t) as (r & -> & C & V & N).
  { destruct t as [d|ws]; cbn [mag_ok tvalue] in *.
    - destruct (from_dword_ok w w_pos d H) as [C V]. eexists. split; [reflexivity|]. split; [exact C|]. split; [exact V | lia].
    - destruct (from_buffer_ok w w_pos (Z.max c (len ws)) ws H ltac:(lia)) as [C V].
      eexists. split; [reflexivity|]. split; [exact C|]. split; [exact V|]. apply (value_nonneg w w_pos). exact H. }
  destruct (with_sign_ok w w_pos r s C) as [C' V']. split; [exact C'|]. rewrite V', V. f_equal. lia.
Qed.

Lemma last_nth (l : list Z) d : last l d = nth (length l - 1) l d.
Proof.
  induction l as [|x l IH]; [reflexivity|]. destruct l as [|y l]; [reflexivity|].
  change (last (x :: y :: l) d) with (last (y :: l) d). rewrite IH. cbn [length].
  replace (S (S (length l)) - 1)%nat with (S (S (length l) - 1)) by lia. reflexivity.
Qed.

(** reading a canonical representation gives a magnitude satisfying the invariants of C01 and of C09 *)
Lemma to_t_ok r : canonical w r -> twf w (to_t r) /\ repr_value w (to_t r) = Z.abs (rvalue w r).
Proof.
  intros C. pose proof (typed_value w w_pos r C) as T. pose proof (slice_value_nonneg w w_pos r C) as N.
  assert (Z.abs (rvalue w r) = value (as_slice r)) as ->.
  { unfold rvalue, signed. destruct (rsign r); cbn [sgnz]; lia. }
  unfold to_t. destruct r as [c lo hi|c ws]; cbn [as_typed] in *.
  - destruct T as [E R]. cbn [twf repr_value]. split; [exact R | exact E].
  - destruct T as [E _]. cbn [as_slice] in *. cbn [twf repr_value]. split; [|reflexivity].
    destruct C as (L3 & _ & W & L). unfold len in L3. repeat split; [exact W | lia |]. rewrite <- last_nth. exact L.
Qed.

Lemma to_b_ok r : canonical w r -> brepr_ok w (to_b r) /\ bvalue w (to_b r) = Z.abs (rvalue w r).
Proof.
  intros C. pose proof (typed_value w w_pos r C) as T. pose proof (slice_value_nonneg w w_pos r C) as N.
  assert (Z.abs (rvalue w r) = value (as_slice r)) as ->.
  { unfold rvalue, signed. destruct (rsign r); cbn [sgnz]; lia. }
  unfold to_b. destruct r as [c lo hi|c ws]; cbn [as_typed] in *.
  - destruct T as [E R]. cbn [brepr_ok bvalue]. split; [exact R | exact E].
  - cbn [as_slice] in *. cbn [brepr_ok bvalue]. split; [|reflexivity].
    destruct C as (L3 & _ & W & L). unfold len in L3. repeat split; [exact W | lia | exact L].
Qed.

Lemma twf_mag_ok t : twf w t -> mag_ok (of_t t) /\ tvalue (of_t t) = repr_value w t.
Proof. destruct t as [d|ws]; cbn [twf of_t mag_ok tvalue repr_value]; [tauto|]. intros (W & _). tauto. Qed.

Lemma bok_mag_ok t : brepr_ok w t -> mag_ok (of_b t) /\ tvalue (of_b t) = bvalue w t.
Proof. destruct t as [d|ws]; cbn [brepr_ok of_b mag_ok tvalue bvalue]; [tauto|]. intros (W & _). tauto. Qed.

Lemma signed_abs_rvalue r : canonical w r -> signed (rsign r) (Z.abs (rvalue w r)) = rvalue w r.
Proof.
  intros C. pose proof (rvalue_sign w w_pos r C) as S. unfold signed. destruct (rsign r); cbn [sgnz]; lia.
Qed.

(* ---------------------------------------------------------------- the operators on full representations *)

(** a signed result (sign, magnitude) of C01's models, stored *)
Definition store_s (c : Z) (x : result (sign * trepr)) : result repr :=
  match x with
  | Ok (s, t) => Ok (of_mag c s (of_t t))
  | Panic p => Panic p | Err e => Err e | OutOfFuel => OutOfFuel
  end.

(** impl Add / Sub / Mul for IBig (integer/src/add_ops.rs, mul_ops.rs), all ownership forms *)
Definition ibig_add (o : own) (c : Z) (a b : repr) : result repr :=
  store_s c (ibig_add_asis w o (rsign a) (to_t a) (rsign b) (to_t b)).
Definition ibig_sub (o : own) (c : Z) (a b : repr) : result repr :=
  store_s c (ibig_sub_asis w o (rsign a) (to_t a) (rsign b) (to_t b)).
Definition ibig_mul (c : Z) (a b : repr) : result repr :=
  store_s c (ibig_mul_asis w src_T_simple src_T_kara src_CHUNK src_SQR (rsign a) (to_t a) (rsign b) (to_t b)).
Definition ibig_cubic (c : Z) (a : repr) : result repr :=
  store_s c (ibig_cubic_asis w src_T_simple src_T_kara src_CHUNK src_SQR (rsign a) (to_t a)).
(** sqr of the magnitude (UBig::sqr, IBig::sqr): the result is positive *)
Definition ibig_sqr (c : Z) (a : repr) : result repr :=
  match repr_sqr w src_T_simple src_T_kara src_SQR (to_t a) with
  | Ok t => Ok (of_mag c Positive (of_t t))
  | Panic p => Panic p | Err e => Err e | OutOfFuel => OutOfFuel
  end.
(** impl Sub for UBig: panics when the result would be negative *)
Definition ubig_sub (o : own) (c : Z) (a b : repr) : result repr :=
  match repr_sub w o (to_t a) (to_t b) with
  | Ok t => Ok (of_mag c Positive (of_t t))
  | Panic p => Panic p | Err e => Err e | OutOfFuel => OutOfFuel
  end.

(** bit operators on magnitudes (UBig & | ^, and_not, << >>, set_bit, clear_bit: integer/src/bits.rs, shift_ops.rs) *)
Inductive bitop :=
| BAnd (o : bown) | BOr (o : bown) | BXor (o : bown) | BAndNot.
Definition bit_fn (f : bitop) : brepr -> brepr -> brepr :=
  match f with
  | BAnd o => repr_bitand w o | BOr o => repr_bitor w o | BXor o => repr_bitxor w o | BAndNot => repr_and_not w
  end.
Definition bit_spec (f : bitop) : Z -> Z -> Z :=
  match f with BAnd _ => Z.land | BOr _ => Z.lor | BXor _ => Z.lxor | BAndNot => Z.ldiff end.
Definition ubig_bit (f : bitop) (c : Z) (a b : repr) : repr := of_mag c Positive (of_b (bit_fn f (to_b a) (to_b b))).

Inductive shiftop := SShl (cap : bool) | SShlRef | SShr | SShrRef | SSetBit | SClearBit.
Definition shift_fn (f : shiftop) : brepr -> Z -> brepr :=
  match f with
  | SShl cap => repr_shl w cap | SShlRef => repr_shl_ref w | SShr => repr_shr w | SShrRef => repr_shr_ref w
  | SSetBit => repr_set_bit w | SClearBit => repr_clear_bit w
  end.
Definition shift_spec (f : shiftop) : Z -> Z -> Z :=
  match f with
  | SShl _ | SShlRef => Z.shiftl | SShr | SShrRef => Z.shiftr
  | SSetBit => BitsSpec.set_bit_spec | SClearBit => BitsSpec.clear_bit_spec
  end.
Definition ubig_shift (f : shiftop) (c : Z) (a : repr) (n : Z) : repr := of_mag c Positive (of_b (shift_fn f (to_b a) n)).

(* ---------------------------------------------------------------- every one returns a canonical representation *)

Lemma store_s_ok c x v : (exists r, x = Ok r /\ srepr_value w r = v /\ twf w (snd r)) ->
  exists r, store_s c x = Ok r /\ canonical w r /\ rvalue w r = v.
Proof.
  intros ([s t] & -> & V & T). cbn [snd] in T. destruct (twf_mag_ok t T) as [M E].
  destruct (of_mag_ok c s (of_t t) M) as [C V']. eexists. split; [reflexivity|]. split; [exact C|].
  rewrite V', E. exact V.
Qed.

(** ... and the sign stored is the sign the model returned: with_sign never has to correct a negative zero *)
Lemma stored_sign c s t : twf w t -> (s = Negative -> RingOps.is_zero t = false) -> rsign (of_mag c s (of_t t)) = s.
Proof.
  intros T Z. destruct (twf_mag_ok t T) as [M E]. destruct (of_mag_ok c s (of_t t) M) as [C V].
  pose proof (rvalue_sign w w_pos _ C) as S. rewrite V, E in S.
  pose proof (twf_nonneg w w_ge t T) as N.
  destruct s.
  - destruct (rsign (of_mag c Positive (of_t t))); [reflexivity|]. unfold signed in S. cbn [sgnz] in S. lia.
  - assert (repr_value w t <> 0) as NZ.
    { specialize (Z eq_refl). destruct t as [d|ws]; cbn [repr_value].
      - destruct d; cbn [RingOps.is_zero] in Z; [discriminate | lia | lia].
      - pose proof (large_ge w w_ge ws T). pose proof (B_pos w w_pos). nia. }
    destruct (rsign (of_mag c Negative (of_t t))); [|reflexivity]. unfold signed in S. cbn [sgnz] in S. lia.
Qed.

Theorem ibig_add_sign_exact o c a b s t : canonical w a -> canonical w b ->
  ibig_add_asis w o (rsign a) (to_t a) (rsign b) (to_t b) = Ok (s, t) -> rsign (of_mag c s (of_t t)) = s.
Proof.
  intros Ca Cb E. destruct (to_t_ok a Ca) as [Ta _]. destruct (to_t_ok b Cb) as [Tb _].
  destruct (ibig_add_exact w w_ge o (rsign a) (to_t a) (rsign b) (to_t b) Ta Tb) as (r & E' & _ & T).
  rewrite E in E'. inversion E'. subst r. cbn [snd] in T. apply stored_sign; [exact T|].
  exact (ibig_add_no_negative_zero w o _ _ _ _ _ E).
Qed.

Theorem ibig_sub_sign_exact o c a b s t : canonical w a -> canonical w b ->
  ibig_sub_asis w o (rsign a) (to_t a) (rsign b) (to_t b) = Ok (s, t) -> rsign (of_mag c s (of_t t)) = s.
Proof.
  intros Ca Cb E. destruct (to_t_ok a Ca) as [Ta _]. destruct (to_t_ok b Cb) as [Tb _].
  destruct (ibig_sub_exact w w_ge o (rsign a) (to_t a) (rsign b) (to_t b) Ta Tb) as (r & E' & _ & T).
  rewrite E in E'. inversion E'. subst r. cbn [snd] in T. apply stored_sign; [exact T|].
  exact (ibig_sub_no_negative_zero w o _ _ _ _ _ E).
Qed.

Theorem ibig_mul_sign_exact c a b s t : canonical w a -> canonical w b ->
  ibig_mul_asis w src_T_simple src_T_kara src_CHUNK src_SQR (rsign a) (to_t a) (rsign b) (to_t b) = Ok (s, t) ->
  rsign (of_mag c s (of_t t)) = s.
Proof.
  intros Ca Cb E. destruct (to_t_ok a Ca) as [Ta _]. destruct (to_t_ok b Cb) as [Tb _].
  destruct (ibig_mul_exact w w_ge (rsign a) (to_t a) (rsign b) (to_t b) (twf_tok w _ Ta) (twf_tok w _ Tb)) as (r & E' & _ & T).
  rewrite E in E'. inversion E'. subst r. cbn [snd] in T. apply stored_sign; [exact T|].
  exact (ibig_mul_no_negative_zero w _ _ _ _ _ _ _ _ _ E).
Qed.

Theorem ibig_add_ok o c a b : canonical w a -> canonical w b ->
  exists r, ibig_add o c a b = Ok r /\ canonical w r /\ rvalue w r = rvalue w a + rvalue w b.
Proof.
  intros Ca Cb. destruct (to_t_ok a Ca) as [Ta Va]. destruct (to_t_ok b Cb) as [Tb Vb].
  apply store_s_ok. destruct (ibig_add_exact w w_ge o (rsign a) (to_t a) (rsign b) (to_t b) Ta Tb) as (r & E & V & T).
  exists r. split; [exact E|]. split; [|exact T]. rewrite V, Va, Vb, !signed_abs_rvalue by assumption. reflexivity.
Qed.

Theorem ibig_sub_ok o c a b : canonical w a -> canonical w b ->
  exists r, ibig_sub o c a b = Ok r /\ canonical w r /\ rvalue w r = rvalue w a - rvalue w b.
Proof.
  intros Ca Cb. destruct (to_t_ok a Ca) as [Ta Va]. destruct (to_t_ok b Cb) as [Tb Vb].
  apply store_s_ok. destruct (ibig_sub_exact w w_ge o (rsign a) (to_t a) (rsign b) (to_t b) Ta Tb) as (r & E & V & T).
  exists r. split; [exact E|]. split; [|exact T]. rewrite V, Va, Vb, !signed_abs_rvalue by assumption. reflexivity.
Qed.

Theorem ibig_mul_ok c a b : canonical w a -> canonical w b ->
  exists r, ibig_mul c a b = Ok r /\ canonical w r /\ rvalue w r = rvalue w a * rvalue w b.
Proof.
  intros Ca Cb. destruct (to_t_ok a Ca) as [Ta Va]. destruct (to_t_ok b Cb) as [Tb Vb].
  apply store_s_ok.
  destruct (ibig_mul_exact w w_ge (rsign a) (to_t a) (rsign b) (to_t b) (twf_tok w _ Ta) (twf_tok w _ Tb)) as (r & E & V & T).
  exists r. split; [exact E|]. split; [|exact T]. rewrite V, Va, Vb, !signed_abs_rvalue by assumption. reflexivity.
Qed.

Theorem ibig_cubic_ok c a : canonical w a ->
  exists r, ibig_cubic c a = Ok r /\ canonical w r /\ rvalue w r = rvalue w a * rvalue w a * rvalue w a.
Proof.
  intros Ca. destruct (to_t_ok a Ca) as [Ta Va].
  apply store_s_ok. destruct (ibig_cubic_exact w w_ge (rsign a) (to_t a) (twf_tok w _ Ta)) as (r & E & V & T).
  exists r. split; [exact E|]. split; [|exact T]. rewrite V, Va, signed_abs_rvalue by assumption. reflexivity.
Qed.

Theorem ibig_sqr_ok c a : canonical w a ->
  exists r, ibig_sqr c a = Ok r /\ canonical w r /\ rvalue w r = rvalue w a * rvalue w a.
Proof.
  intros Ca. destruct (to_t_ok a Ca) as [Ta Va]. unfold ibig_sqr.
  destruct (sqr_exact w w_ge (to_t a) (twf_tok w _ Ta)) as (t & E & V & T). rewrite E.
  destruct (twf_mag_ok t T) as [M Et]. destruct (of_mag_ok c Positive (of_t t) M) as [C V'].
  eexists. split; [reflexivity|]. split; [exact C|]. rewrite V', Et, V, Va. unfold RingSpec.sqr_spec, signed. cbn [sgnz]. lia.
Qed.

Theorem ubig_sub_ok o c a b : canonical w a -> canonical w b -> 0 <= rvalue w a -> 0 <= rvalue w b ->
  if rvalue w a <? rvalue w b then ubig_sub o c a b = Panic NegativeUBig
  else exists r, ubig_sub o c a b = Ok r /\ canonical w r /\ rvalue w r = rvalue w a - rvalue w b.
Proof.
  intros Ca Cb Pa Pb. destruct (to_t_ok a Ca) as [Ta Va]. destruct (to_t_ok b Cb) as [Tb Vb].
  pose proof (ubig_sub_exact w w_ge o (to_t a) (to_t b) Ta Tb) as H. unfold ubig_sub.
  rewrite Va, Vb, !Z.abs_eq in H by assumption. unfold RingSpec.ubig_sub_spec in H.
  destruct (rvalue w a <? rvalue w b).
  - destruct (repr_sub w o (to_t a) (to_t b)) as [t|p|e|]; try contradiction. destruct p; try contradiction. reflexivity.
  - destruct (repr_sub w o (to_t a) (to_t b)) as [t|p|e|]; try contradiction; [|destruct p; contradiction].
    destruct H as [V T]. destruct (twf_mag_ok t T) as [M Et]. destruct (of_mag_ok c Positive (of_t t) M) as [C V'].
    eexists. split; [reflexivity|]. split; [exact C|]. rewrite V', Et, V. unfold signed. cbn [sgnz]. lia.
Qed.

Theorem ubig_bit_ok f c a b : canonical w a -> canonical w b ->
  canonical w (ubig_bit f c a b) /\ rvalue w (ubig_bit f c a b) = bit_spec f (Z.abs (rvalue w a)) (Z.abs (rvalue w b)).
Proof.
  intros Ca Cb. destruct (to_b_ok a Ca) as [Ta Va]. destruct (to_b_ok b Cb) as [Tb Vb].
  assert (bvalue w (bit_fn f (to_b a) (to_b b)) = bit_spec f (bvalue w (to_b a)) (bvalue w (to_b b)) /\
          brepr_ok w (bit_fn f (to_b a) (to_b b))) as [V K].
  { destruct f as [o|o|o|]; cbn [bit_fn bit_spec].
    - exact (repr_bitand_correct w w_pos o _ _ Ta Tb).
    - exact (repr_bitor_correct w w_pos o _ _ Ta Tb).
    - exact (repr_bitxor_correct w w_pos o _ _ Ta Tb).
    - exact (repr_and_not_correct w w_pos _ _ Ta Tb). }
  destruct (bok_mag_ok _ K) as [M E]. destruct (of_mag_ok c Positive _ M) as [C V']. unfold ubig_bit.
  split; [exact C|]. rewrite V', E, V, Va, Vb. unfold signed. cbn [sgnz]. lia.
Qed.

Theorem ubig_shift_ok f c a n : canonical w a -> 0 <= n ->
  canonical w (ubig_shift f c a n) /\ rvalue w (ubig_shift f c a n) = shift_spec f (Z.abs (rvalue w a)) n.
Proof.
  intros Ca Hn. destruct (to_b_ok a Ca) as [Ta Va].
  assert (bvalue w (shift_fn f (to_b a) n) = shift_spec f (bvalue w (to_b a)) n /\
          brepr_ok w (shift_fn f (to_b a) n)) as [V K].
  { destruct f as [cap| | | | |]; cbn [shift_fn shift_spec].
    - exact (repr_shl_correct w w_pos cap _ n Hn Ta).
    - exact (repr_shl_ref_correct w w_pos _ n Hn Ta).
    - exact (repr_shr_correct w w_pos _ n Hn Ta).
    - exact (repr_shr_ref_correct w w_pos _ n Hn Ta).
    - exact (repr_set_bit_correct w w_pos _ n Hn Ta).
    - exact (repr_clear_bit_correct w w_pos _ n Hn Ta). }
  destruct (bok_mag_ok _ K) as [M E]. destruct (of_mag_ok c Positive _ M) as [C V']. unfold ubig_shift.
  split; [exact C|]. rewrite V', E, V, Va. unfold signed. cbn [sgnz]. lia.
Qed.

(** any value computed at the level of integers (quotients and remainders, gcd, roots, powers, parsed digits: the models
    of C02, C07, C12 work on Z) and then stored the way the library stores every result - a buffer of n words handed to
    Repr::from_buffer, the sign applied with with_sign *)
Definition store_value (c n v : Z) : repr :=
  ReprOrdModel.with_sign (ReprOrdModel.from_buffer w (Z.max c n) (words_of w n (Z.abs v))) (sign_of v).

Theorem store_value_ok c n v : 0 <= n -> Z.abs v < B ^ n ->
  canonical w (store_value c n v) /\ rvalue w (store_value c n v) = v.
Proof.
  intros Hn Hv. unfold store_value, words_of.
  pose proof (to_words_wf w w_pos (Z.to_nat n) (Z.abs v)) as W.
  pose proof (to_words_length w (Z.to_nat n) (Z.abs v)) as L.
  assert (len (to_words w (Z.to_nat n) (Z.abs v)) = n) as Ln by (unfold len; rewrite L; lia).
  destruct (from_buffer_ok w w_pos (Z.max c n) _ W ltac:(lia)) as [C V].
  rewrite (value_to_words w w_pos) in V by (rewrite Z2Nat.id by lia; lia).
  destruct (with_sign_ok w w_pos _ (sign_of v) C) as [C' V']. split; [exact C'|]. rewrite V', V.
  unfold signed, sign_of. destruct (Z.ltb_spec v 0); cbn [sgnz]; lia.
Qed.

(* ---------------------------------------------------------------- histories with arithmetic steps *)

Inductive aop :=
| ABase (o : hop)                          (* constructors, copies, sign changes: ReprOrdModel.hop *)
| AAdd (o : own) (c : Z) (i j : nat)
| ASub (o : own) (c : Z) (i j : nat)
| AMul (c : Z) (i j : nat)
| ASqr (c : Z) (i : nat)
| ACubic (c : Z) (i : nat)
| AUSub (o : own) (c : Z) (i j : nat)      (* on the magnitudes; a panic leaves the pool unchanged *)
| ABit (f : bitop) (c : Z) (i j : nat)
| AShift (f : shiftop) (c : Z) (i : nat) (n : Z)
| AValue (c n v : Z).                       (* a value computed on integers, stored through from_buffer / with_sign *)

Definition aop_ok (o : aop) : Prop :=
  match o with
  | ABase h => hop_ok w h
  | AShift _ _ _ n => 0 <= n
  | AValue _ n v => 0 <= n /\ Z.abs v < B ^ n
  | _ => True
  end.

Definition push (p : list repr) (x : result repr) : list repr :=
  match x with Ok r => p ++ [r] | _ => p end.

(** |x| as UBig: IBig::unsigned_abs / with_sign(Positive) *)
Definition mag (r : repr) : repr := ReprOrdModel.with_sign r Positive.

Definition astep (p : list repr) (o : aop) : list repr :=
  let g := pool_get p in
  match o with
  | ABase h => hstep w p h
  | AAdd o c i j => push p (ibig_add o c (g i) (g j))
  | ASub o c i j => push p (ibig_sub o c (g i) (g j))
  | AMul c i j => push p (ibig_mul c (g i) (g j))
  | ASqr c i => push p (ibig_sqr c (g i))
  | ACubic c i => push p (ibig_cubic c (g i))
  | AUSub o c i j => push p (ubig_sub o c (mag (g i)) (mag (g j)))
  | ABit f c i j => p ++ [ubig_bit f c (g i) (g j)]
  | AShift f c i n => p ++ [ubig_shift f c (g i) n]
  | AValue c n v => p ++ [store_value c n v]
  end.

Definition arun (p : list repr) (os : list aop) : list repr := fold_left astep os p.

Lemma push_canonical p x : Forall (canonical w) p ->
  (forall r, x = Ok r -> canonical w r) -> Forall (canonical w) (push p x).
Proof.
  intros Hp H. destruct x as [r| | |]; cbn [push]; try exact Hp.
  apply Forall_app. split; [exact Hp|]. constructor; [apply H; reflexivity | constructor].
Qed.

Lemma mag_ok_pos r : canonical w r -> canonical w (mag r) /\ 0 <= rvalue w (mag r).
Proof.
  intros C. destruct (with_sign_ok w w_pos r Positive C) as [C' V]. split; [exact C'|].
  unfold mag. rewrite V. unfold signed. cbn [sgnz]. lia.
Qed.

Lemma astep_canonical p o : Forall (canonical w) p -> aop_ok o -> Forall (canonical w) (astep p o).
Proof.
  intros Hp Ho.
  assert (G : forall i, canonical w (pool_get p i)) by (intro i; apply (pool_get_canonical w w_pos); exact Hp).
  destruct o as [h|o c i j|o c i j|c i j|c i|c i|o c i j|f c i j|f c i n|c n v]; cbn [astep aop_ok] in *.
  - apply (hstep_canonical w w_pos); assumption.
  - apply push_canonical; [exact Hp|]. intros r E.
    destruct (ibig_add_ok o c _ _ (G i) (G j)) as (r' & E' & C & _). rewrite E in E'. inversion E'. subst. exact C.
  - apply push_canonical; [exact Hp|]. intros r E.
    destruct (ibig_sub_ok o c _ _ (G i) (G j)) as (r' & E' & C & _). rewrite E in E'. inversion E'. subst. exact C.
  - apply push_canonical; [exact Hp|]. intros r E.
    destruct (ibig_mul_ok c _ _ (G i) (G j)) as (r' & E' & C & _). rewrite E in E'. inversion E'. subst. exact C.
  - apply push_canonical; [exact Hp|]. intros r E.
    destruct (ibig_sqr_ok c _ (G i)) as (r' & E' & C & _). rewrite E in E'. inversion E'. subst. exact C.
  - apply push_canonical; [exact Hp|]. intros r E.
    destruct (ibig_cubic_ok c _ (G i)) as (r' & E' & C & _). rewrite E in E'. inversion E'. subst. exact C.
  - apply push_canonical; [exact Hp|]. intros r E.
    destruct (mag_ok_pos _ (G i)) as [Ci Pi]. destruct (mag_ok_pos _ (G j)) as [Cj Pj].
    pose proof (ubig_sub_ok o c _ _ Ci Cj Pi Pj) as H.
    destruct (rvalue w (mag (pool_get p i)) <? rvalue w (mag (pool_get p j))).
    + rewrite E in H. discriminate.
    + destruct H as (r' & E' & C & _). rewrite E in E'. inversion E'. subst. exact C.
  - apply Forall_app. split; [exact Hp|]. constructor; [|constructor]. apply ubig_bit_ok; apply G.
  - apply Forall_app. split; [exact Hp|]. constructor; [|constructor]. apply ubig_shift_ok; [apply G | exact Ho].
  - apply Forall_app. split; [exact Hp|]. constructor; [|constructor]. apply store_value_ok; tauto.
Qed.

(** whatever finite sequence of constructors, copies, sign changes, in-place updates and arithmetic produced the
    values, all of them are canonical *)
Theorem arun_canonical os : forall p, Forall (canonical w) p -> Forall aop_ok os -> Forall (canonical w) (arun p os).
Proof.
  induction os as [|o os IH]; intros p Hp Ho; [exact Hp|].
  inversion Ho; subst. cbn [arun fold_left]. apply IH; [|assumption]. apply astep_canonical; assumption.
Qed.

(** ... hence ==, cmp and the hasher input follow the value for any two of them *)
Theorem arith_history_values_compare os a b : Forall aop_ok os ->
  In a (arun [] os) -> In b (arun [] os) ->
  (repr_eq a b = true <-> rvalue w a = rvalue w b) /\
  ibig_cmp w a b = (rvalue w a ?= rvalue w b) /\
  (ibig_cmp w a b = Eq <-> repr_eq a b = true) /\
  (rvalue w a = rvalue w b -> hash_input a = hash_input b).
Proof.
  intros Ho Ia Ib. pose proof (arun_canonical os [] (Forall_nil _) Ho) as F. rewrite Forall_forall in F.
  pose proof (F a Ia) as Ca. pose proof (F b Ib) as Cb.
  split; [apply (repr_eq_correct w w_pos); assumption|].
  split; [apply (ibig_cmp_correct w w_pos); assumption|].
  split; [apply (cmp_eq_iff_eq w w_pos); assumption|].
  apply (hash_input_eq w w_pos); assumption.
Qed.

End Arith.

(** non-vacuity: 2^128 - 1 built by ones and by (2^64 * 2^64) - 1 through mul and sub, and by a shift, on 64-bit words *)
Example arith_history_example :
  let os := [ABase (HOnes 128); ABase (HFromDword (2 ^ 64)); AMul 0 1 1; ABase (HFromWord 1); ASub OVV 0 2 3;
             AShift (SShl false) 0 3 128; AUSub ORR 7 5 3] in
  Forall (aop_ok 64) os /\
  map (rvalue 64) (arun 64 [] os) = [2 ^ 128 - 1; 2 ^ 64; 2 ^ 128; 1; 2 ^ 128 - 1; 2 ^ 128; 2 ^ 128 - 1] /\
  repr_eq (nth 0 (arun 64 [] os) (from_word 0)) (nth 4 (arun 64 [] os) (from_word 0)) = true /\
  repr_eq (nth 0 (arun 64 [] os) (from_word 0)) (nth 6 (arun 64 [] os) (from_word 0)) = true.
Proof.
  cbv zeta. split.
  - repeat constructor; cbn; try lia.
  - vm_compute. repeat split.
Qed.
