(** C07 (round 3): proofs for IoBigModel.v - the printer and the parser for radices that are not a power
    of two, with the big operations of the divide-and-conquer paths taken as the as-is models of C01
    (pow, sqr, mul) and C02 (div_rem) and the word loops of IoWords.v / IoDword.v underneath, return the
    specification digits / the value-level parser's result for EVERY magnitude and text.  The proofs cite
    C01_ubig_mul / C01_sqr / C01_ubig_pow (RingTop.v) and C02_division_unconditional (DivSrcInstProofs.v).
    The bounds checks of the fixed arrays (repr_to_chunk_buffer, low_groups) and the final
    assert_eq!(buffer_len, 0) of write_chunk never fire. *)
From Dashu Require Import Base.Prelude Base.Words Int.IoSpec Int.IoModel Int.IoDigits Int.IoPrint Int.IoParse Int.IoRadix Int.IoPow2
  Int.IoWords Int.IoDword Int.IoPowers Int.IoTop Int.IoBigModel
  Int.RingSpec Int.RingOps Int.RingTop Int.RingPowProofs Int.RingOpsMulProofs Int.DivSrcInst Int.DivSrcInstProofs Int.RingDispatchProofs.
From DashuGen Require Import Params.
Open Scope Z_scope.

Section Big.
Variable w : Z.
Hypothesis w_ge : 8 <= w.
Let w_pos : 0 < w. Proof. lia. Qed.
Notation B := (Words.B w).
Notation value := (Words.value w).
Notation wf := (Words.wf w).

Let A1 : (1 <= src_T_simple)%nat := proj1 source_thresholds_admissible.
Let A2 : (3 <= src_T_kara)%nat := proj1 (proj2 source_thresholds_admissible).
Let A3 : (1 <= src_CHUNK)%nat := proj1 (proj2 (proj2 source_thresholds_admissible)).

(* ---------------------------------------------------------------- the big operations (C01, C02) *)
Lemma tov v : 0 <= v -> repr_value w (typed_of_value w v) = v /\ tok w (typed_of_value w v).
Proof. apply (typed_of_value_spec w w_ge _ _ _ A1 A2 A3). Qed.

Lemma big_mul_ok a b : 0 <= a -> 0 <= b -> big_mul w a b = Ok (a * b).
Proof.
  intros Ha Hb. destruct (tov a Ha) as (Va & Ta). destruct (tov b Hb) as (Vb & Tb).
  destruct (ubig_mul_exact w w_ge _ _ Ta Tb) as (r & E & V & _).
  unfold big_mul. change c01_Ts with src_T_simple. change c01_Tk with src_T_kara. change c01_Ch with src_CHUNK. change c01_Sq with src_SQR.
  rewrite E. unfold ubig_mul_spec in V. rewrite Va, Vb in V. cbn [rmap rbind]. exact V.
Qed.

Lemma big_sqr_ok a : 0 <= a -> big_sqr w a = Ok (a * a).
Proof.
  intros Ha. destruct (tov a Ha) as (Va & Ta). destruct (sqr_exact w w_ge _ Ta) as (r & E & V & _).
  unfold big_sqr. change c01_Ts with src_T_simple. change c01_Tk with src_T_kara. change c01_Sq with src_SQR.
  rewrite E. unfold sqr_spec in V. rewrite Va in V. cbn [rmap rbind]. rewrite V. reflexivity.
Qed.

Lemma big_pow_ok a e : 0 <= a -> 0 <= e -> big_pow w a e = Ok (a ^ e).
Proof.
  intros Ha He. destruct (tov a Ha) as (Va & Ta). destruct (ubig_pow_exact w w_ge _ e Ta He) as (r & E & V).
  unfold big_pow. change c01_Ts with src_T_simple. change c01_Tk with src_T_kara. change c01_Ch with src_CHUNK. change c01_Sq with src_SQR.
  rewrite E. unfold pow_spec in V. rewrite Va in V. cbn [rmap rbind]. rewrite V. reflexivity.
Qed.

Lemma big_divrem_ok a b : 0 <= a -> 0 < b -> big_divrem w a b = Ok (a / b, a mod b).
Proof. apply (s_repr_div_rem_correct w w_ge). Qed.

(* ---------------------------------------------------------------- word counts *)
Lemma B_is_Bw : B = Bw w. Proof. reflexivity. Qed.

Lemma wlen_le n x : 0 <= n -> 0 <= x < Bw w ^ n -> wlen w x <= n.
Proof.
  intros Hn Hx. destruct (Z.eq_dec x 0) as [->|NZ].
  - unfold wlen. replace (blen 0) with 0 by reflexivity. rewrite Z.div_small by lia. lia.
  - destruct (wlen_spec w w_pos x ltac:(lia)) as [[Hlo _] Hp].
    destruct (Z.le_gt_cases (wlen w x) n) as [L|G]; [exact L|exfalso].
    assert (Bw w ^ n <= Bw w ^ (wlen w x - 1)) by (apply Z.pow_le_mono_r; [unfold Bw; apply Z.pow_pos_nonneg; lia | lia]). lia.
Qed.

Lemma to_words_value x : 0 <= x -> value (to_words w (nwords w x) x) = x.
Proof.
  intros Hx. apply (value_to_words w w_pos). unfold nwords. destruct (Z.eq_dec x 0) as [->|NZ].
  - split; [lia|]. apply Z.pow_pos_nonneg; [apply (B_pos w w_pos) | lia].
  - destruct (wlen_spec w w_pos x ltac:(lia)) as [[_ Hhi] Hp]. rewrite Z2Nat.id by lia. split; [lia | exact Hhi].
Qed.

Lemma chunk_buffer_ok x : 0 <= x -> wlen w x <= fmt_chunk_len ->
  exists buf, chunk_buffer w x = Ok buf /\ wf buf /\ buf <> [] /\ (topnz buf \/ buf = [0]) /\ value buf = x.
Proof.
  intros Hx Hl. unfold chunk_buffer. set (ws := to_words w (nwords w x) x).
  assert (Hwf : wf (strip_top ws)) by (apply strip_top_wf; apply (to_words_wf w w_pos)).
  assert (Hv : value (strip_top ws) = x) by (rewrite strip_top_value; apply to_words_value; exact Hx).
  pose proof (strip_top_length ws) as Hlen. unfold ws in Hlen at 2. rewrite to_words_length in Hlen.
  destruct (strip_top ws) as [|a t] eqn:E.
  - exists [0]. cbn [Words.value] in Hv. split; [reflexivity|]. split; [apply wf_cons; split; [pose proof (B_pos w w_pos); lia | apply wf_nil]|].
    split; [discriminate|]. split; [right; reflexivity | cbn [Words.value]; lia].
  - assert (Hle : len (a :: t) <= fmt_chunk_len).
    { unfold len. unfold nwords in Hlen.
      assert (0 <= wlen w x) by (unfold wlen; apply Z.div_pos; [unfold blen; destruct (x <=? 0); [lia | pose proof (Z.log2_nonneg x); lia] | lia]). lia. }
    destruct (Z.gtb_spec (len (a :: t)) fmt_chunk_len); [lia|].
    exists (a :: t). split; [reflexivity|]. split; [exact Hwf|]. split; [discriminate|].
    split; [left; rewrite <- E; apply strip_top_topnz; rewrite E; discriminate | exact Hv].
Qed.

(* ---------------------------------------------------------------- printer *)
Section WithRadix.
Variables r dpw R : Z.
Hypothesis r_ge_2 : 2 <= r.
Hypothesis Hinfo : radix_info w r = (dpw, R).
Hypothesis dpw_pos : 0 < dpw.
Hypothesis HR : R = r ^ dpw.
Hypothesis R_lt_B : R < Bw w.
Hypothesis B_le_Rr : Bw w <= R * r.

Let R2 : 2 <= R := IoPrint.R_ge_2 r dpw R r_ge_2 dpw_pos HR.
Let B_le_RR : Bw w <= R * R.
Proof. pose proof (R_le_mul r r_ge_2 dpw R dpw_pos HR). lia. Qed.
Let cl_pos : 0 < fmt_chunk_len. Proof. unfold fmt_chunk_len. lia. Qed.
Let Rcl_pos : 0 < R ^ fmt_chunk_len. Proof. apply Z.pow_pos_nonneg; lia. Qed.

Lemma small_wlen x : 0 <= x < R ^ fmt_chunk_len -> wlen w x <= fmt_chunk_len.
Proof.
  intros Hx. apply wlen_le; [lia|]. split; [lia|].
  assert (R ^ fmt_chunk_len <= Bw w ^ fmt_chunk_len) by (apply Z.pow_le_mono_l; lia). lia.
Qed.

(** the number of low groups PreparedMedium::new produces *)
Lemma medium_loop_len f : forall buf gs k top gs', wf buf -> (topnz buf \/ buf = [0]) -> 1 <= k -> value buf < R ^ k ->
  medium_loop w f R buf gs = Ok (top, gs') -> len gs' <= len gs + k - 1.
Proof.
  induction f as [|f IH]; intros buf gs k top gs' Hwf Htop Hk Hv E; [discriminate|].
  destruct buf as [|x [|y t]]; [discriminate | |].
  - cbn [medium_loop] in E. inversion E; subst. lia.
  - destruct Htop as [Ht|Ht]; [|discriminate].
    pose proof (two_words_ge_B w w_ge x y t Hwf Ht) as Hge. set (buf := x :: y :: t) in *.
    change (medium_loop w (S f) R buf gs) with
      (let '(q, rem) := fdiv_R w R buf in
       match strip_top q with [] => Panic Undocumented | q' => medium_loop w f R q' (rem :: gs) end) in E.
    destruct (fdiv_R w R buf) as [q rem] eqn:Eq.
    destruct (fdiv_R_spec w w_ge r dpw R r_ge_2 dpw_pos HR R_lt_B buf Hwf q rem Eq) as (Hq & Hrem & Hwq & Hlq).
    destruct (strip_top q) as [|z q'] eqn:Es; [discriminate|]. rewrite <- Es in E.
    assert (Hk2 : 2 <= k).
    { destruct (Z.eq_dec k 1) as [->|]; [|lia]. rewrite Z.pow_1_r in Hv. rewrite B_is_Bw in Hge. lia. }
    assert (Hv' : value (strip_top q) < R ^ (k - 1)).
    { rewrite strip_top_value, Hq. apply Z.div_lt_upper_bound; [lia|]. rewrite <- Z.pow_succ_r by lia. replace (Z.succ (k - 1)) with k by lia. exact Hv. }
    specialize (IH (strip_top q) (rem :: gs) (k - 1) top gs' (strip_top_wf w q Hwq)
                  ltac:(left; apply strip_top_topnz; rewrite Es; discriminate) ltac:(lia) Hv' E).
    rewrite len_cons in IH. lia.
Qed.

Theorem medium_of_ok x : 0 <= x < R ^ fmt_chunk_len -> medium_of w r x = Ok (prepared_medium w r x).
Proof.
  intros Hx. unfold medium_of. rewrite Hinfo.
  destruct (chunk_buffer_ok x ltac:(lia) (small_wlen x Hx)) as (buf & E & Hwf & Hne & Htop & Hv).
  rewrite E. cbn [rbind].
  pose proof (prepared_medium_words_correct w w_ge r dpw R r_ge_2 Hinfo dpw_pos HR R_lt_B B_le_RR buf Hwf Hne Htop) as Hm.
  unfold prepared_medium_words in Hm. rewrite Hinfo in Hm.
  destruct (medium_loop w (S (Z.to_nat (w * len buf))) R buf []) as [[top gs']|p|e|] eqn:El; cbn [rbind] in Hm; try discriminate.
  cbn [rbind fst snd].
  pose proof (medium_loop_len _ buf [] fmt_chunk_len top gs' Hwf Htop ltac:(lia) ltac:(lia) El) as Hlen.
  change (len (@nil Z)) with 0 in Hlen.
  destruct (Z.gtb_spec (len gs') fmt_chunk_len); [lia|]. cbn [fst snd] in Hm. rewrite Hm, Hv. reflexivity.
Qed.

Theorem chunk_of_ok x : 0 <= x < R ^ fmt_chunk_len -> chunk_of w r x = Ok (write_chunk w r x).
Proof.
  intros Hx. unfold chunk_of.
  destruct (chunk_buffer_ok x ltac:(lia) (small_wlen x Hx)) as (buf & E & Hwf & Hne & Htop & Hv).
  rewrite E. cbn [rbind].
  rewrite (write_chunk_words_correct w w_ge r dpw R r_ge_2 Hinfo dpw_pos HR R_lt_B buf Hwf Htop ltac:(lia)), Hv. reflexivity.
Qed.

(** the cached powers: successive squares down to [b] = range_per_word^CHUNK_LEN *)
Definition tbl_ok (b : Z) (ps : list Z) : Prop :=
  squares_chain ps /\ Forall (fun p => 2 <= p) ps /\ (ps = [] \/ last ps 0 = b).
Definition bound (b : Z) (ps : list Z) : Z := match ps with [] => b | p :: _ => p * p end.

Lemma tbl_tail b p rest : tbl_ok b (p :: rest) -> p = bound b rest /\ 2 <= p /\ tbl_ok b rest.
Proof.
  intros (Hc & Hf & Hl). inversion Hf as [|? ? Hp Hrest]; subst. destruct Hl as [Hl|Hl]; [discriminate|].
  destruct rest as [|q rest'].
  - cbn [last] in Hl. cbn [bound]. split; [exact Hl|]. split; [exact Hp|]. split; [exact I|]. split; [constructor | left; reflexivity].
  - destruct Hc as [Epq Hc']. cbn [bound]. split; [exact Epq|]. split; [exact Hp|].
    split; [exact Hc'|]. split; [exact Hrest | right; exact Hl].
Qed.

Notation b0 := (R ^ fmt_chunk_len).

Theorem write_big_chunk_w_ok ps : forall x, tbl_ok b0 ps -> 0 <= x < bound b0 ps ->
  write_big_chunk_w w r ps x = Ok (write_big_chunk w r ps x).
Proof.
  induction ps as [|p rest IH]; intros x Ht Hx; cbn [write_big_chunk_w write_big_chunk].
  - apply chunk_of_ok. exact Hx.
  - destruct (tbl_tail b0 p rest Ht) as (Ep & Hp & Hrest). cbn [bound] in Hx.
    rewrite (big_divrem_ok x p ltac:(lia) ltac:(lia)). cbn [rbind fst snd].
    assert (Hq : 0 <= x / p < p) by (split; [apply Z.div_pos; lia | apply Z.div_lt_upper_bound; lia]).
    pose proof (Z.mod_pos_bound x p ltac:(lia)) as Hm.
    rewrite (IH (x / p) Hrest ltac:(rewrite <- Ep; exact Hq)). cbn [rbind].
    rewrite (IH (x mod p) Hrest ltac:(rewrite <- Ep; exact Hm)). reflexivity.
Qed.

Theorem large_split_w_ok ps : forall first x tail, tbl_ok b0 ps -> 0 <= x < bound b0 ps ->
  large_split_w w r ps first x tail = Ok (large_split w r ps first x tail).
Proof.
  induction ps as [|p rest IH]; intros first x tail Ht Hx; cbn [large_split_w large_split].
  - cbn [bound] in Hx. rewrite (medium_of_ok x Hx). reflexivity.
  - destruct (tbl_tail b0 p rest Ht) as (Ep & Hp & Hrest). cbn [bound] in Hx.
    destruct (first || (x >=? p)) eqn:Ec.
    + rewrite (big_divrem_ok x p ltac:(lia) ltac:(lia)). cbn [rbind fst snd].
      pose proof (Z.mod_pos_bound x p ltac:(lia)) as Hm.
      rewrite (write_big_chunk_w_ok rest (x mod p) Hrest ltac:(rewrite <- Ep; exact Hm)). cbn [rbind].
      apply IH; [exact Hrest|]. rewrite <- Ep. split; [apply Z.div_pos; lia | apply Z.div_lt_upper_bound; lia].
    + apply IH; [exact Hrest|]. rewrite <- Ep. apply orb_false_iff in Ec. destruct Ec as [_ Ec].
      destruct (Z.geb_spec x p); [discriminate | lia].
Qed.

Lemma fmt_powers_w_ok f : forall x ps, Forall (fun p => 2 <= p) ps ->
  fmt_powers_w w f x ps = Ok (fmt_powers w f x ps).
Proof.
  induction f as [|f IH]; intros x ps Hf; [destruct ps; reflexivity|].
  destruct ps as [|prev rest]; [reflexivity|]. cbn [fmt_powers_w fmt_powers].
  inversion Hf as [|? ? Hp Hrest]; subst.
  destruct (2 * wlen w prev - 1 >? wlen w x); [reflexivity|].
  rewrite (big_sqr_ok prev ltac:(lia)). cbn [rbind].
  destruct (prev * prev >? x); [reflexivity|]. apply IH. constructor; [nia | exact Hf].
Qed.

Theorem prepared_large_w_ok x : 0 < x -> prepared_large_w w r x = Ok (prepared_large w r x).
Proof.
  intros Hx. unfold prepared_large_w, prepared_large. rewrite Hinfo.
  rewrite (big_pow_ok R fmt_chunk_len ltac:(lia) ltac:(lia)). cbn [rbind].
  assert (HP : 2 <= b0).
  { apply Z.le_trans with (R ^ 1); [rewrite Z.pow_1_r; lia | apply Z.pow_le_mono_r; lia]. }
  destruct (Z.gtb_spec b0 x) as [Hgt|Hle].
  - apply medium_of_ok. lia.
  - rewrite (fmt_powers_w_ok _ x [b0] ltac:(constructor; [exact HP | constructor])). cbn [rbind].
    destruct (blen_pos_spec b0 ltac:(lia)) as [_ Hb0].
    pose proof (fmt_powers_table w w_pos (Z.to_nat (blen x)) x [b0] Hx I ltac:(constructor; [exact HP | constructor])
                  ltac:(split; [exact Hle|]; destruct (blen_pos_spec x Hx); lia)) as H.
    cbn zeta in H. destruct H as (Hc & Hl & Hge & Hhd). cbn [last] in Hl.
    set (ps := fmt_powers w (Z.to_nat (blen x)) x [b0]) in *.
    destruct ps as [|p rest] eqn:Eps; [contradiction|].
    apply large_split_w_ok; [split; [exact Hc|]; split; [exact Hge | right; exact Hl] | cbn [bound]; lia].
Qed.

(** below the medium/large switch the magnitude fits CHUNK_LEN groups *)
Lemma medium_switch x : 0 <= x -> wlen w x * (dpw + 1) <= fmt_chunk_len * dpw -> x < R ^ fmt_chunk_len.
Proof.
  intros Hx Hs. destruct (Z.eq_dec x 0) as [->|NZ]; [lia|].
  destruct (wlen_spec w w_pos x ltac:(lia)) as [[_ Hhi] Hn]. set (n := wlen w x) in *.
  assert (HBp : 0 < Bw w) by (unfold Bw; apply Z.pow_pos_nonneg; lia).
  (* B^dpw <= R^(dpw+1) *)
  assert (H1 : Bw w ^ dpw <= R ^ (dpw + 1)).
  { apply Z.le_trans with ((R * r) ^ dpw); [apply Z.pow_le_mono_l; lia|].
    rewrite Z.pow_mul_l, <- HR, Z.pow_add_r, Z.pow_1_r by lia. lia. }
  assert (H2 : (Bw w ^ n) ^ dpw <= (R ^ fmt_chunk_len) ^ dpw).
  { rewrite <- !Z.pow_mul_r by lia. rewrite (Z.mul_comm n dpw), Z.pow_mul_r by lia.
    apply Z.le_trans with ((R ^ (dpw + 1)) ^ n); [apply Z.pow_le_mono_l; split; [apply Z.pow_nonneg; lia | exact H1]|].
    rewrite <- Z.pow_mul_r by lia. apply Z.pow_le_mono_r; lia. }
  assert (H3 : Bw w ^ n <= R ^ fmt_chunk_len).
  { destruct (Z.le_gt_cases (Bw w ^ n) (R ^ fmt_chunk_len)) as [L|G]; [exact L|exfalso].
    assert ((R ^ fmt_chunk_len) ^ dpw < (Bw w ^ n) ^ dpw) by (apply Z.pow_lt_mono_l; lia). lia. }
  lia.
Qed.

Theorem digits_np2_words_ok x : w mod 2 = 0 -> 2 * r * r <= B -> 0 <= x ->
  digits_np2_words w r x = Ok (digits_np2_asis w r x).
Proof.
  intros He Hrr Hx. unfold digits_np2_words, digits_np2_asis.
  destruct (Z.ltb_spec x (Bw w)); [reflexivity|].
  destruct (Z.ltb_spec x (Bw w * Bw w)).
  - apply (prepared_dword_words_correct w w_pos r x He r_ge_2 Hrr). rewrite B_is_Bw. lia.
  - rewrite Hinfo. destruct (Z.leb_spec (wlen w x * (dpw + 1)) (fmt_chunk_len * dpw)) as [Hs|Hs].
    + apply medium_of_ok. split; [lia | apply medium_switch; assumption].
    + apply prepared_large_w_ok. assert (0 < Bw w) by (unfold Bw; apply Z.pow_pos_nonneg; lia). nia.
Qed.
End WithRadix.
End Big.

(* ---------------------------------------------------------------- parser *)
Section BigParse.
Variables w r : Z.
Hypothesis w_ge : 8 <= w.
Hypothesis w_even : w mod 2 = 0.
Hypothesis r_ge_2 : 2 <= r.
Hypothesis r_lt_B : r < Bw w.
Let w_pos : 0 < w. Proof. lia. Qed.

Lemma parse_chunk_of_ok s : parse_chunk_of w r s = parse_chunk w r s /\ (forall v, parse_chunk w r s = Ok v -> 0 <= v).
Proof.
  unfold parse_chunk_of. pose proof (parse_chunk_words_total w r w_ge w_even r_ge_2 r_lt_B s) as H.
  destruct (parse_chunk_words w r s) as [buf|p|e|]; try contradiction.
  - destruct H as (Hwf & E). rewrite E. split; [reflexivity|]. intros v Hv. inversion Hv. apply (Words.value_nonneg w w_pos). exact Hwf.
  - rewrite H. split; [reflexivity | discriminate].
Qed.

Lemma parse_dc_w_ok cb ps : Forall (fun p => 0 <= p) ps -> forall s,
  parse_dc_w w r cb ps s = parse_dc w r cb ps s /\ (forall v, parse_dc w r cb ps s = Ok v -> 0 <= v).
Proof.
  induction ps as [|p rest IH]; intros Hf s; cbn [parse_dc_w parse_dc].
  - apply parse_chunk_of_ok.
  - inversion Hf as [|? ? Hp Hrest]; subst. specialize (IH Hrest).
    destruct (len s <=? cb * 2 ^ len rest); [apply IH|].
    set (k := Z.to_nat (len s - cb * 2 ^ len rest)).
    destruct (IH (firstn k s)) as (E1 & N1). destruct (IH (skipn k s)) as (E2 & N2). rewrite E1, E2.
    destruct (parse_dc w r cb rest (firstn k s)) as [hi|?|?|]; cbn [rbind]; try (split; [reflexivity | discriminate]).
    destruct (parse_dc w r cb rest (skipn k s)) as [lo|?|?|]; cbn [rbind]; try (split; [reflexivity | discriminate]).
    pose proof (N1 hi eq_refl) as Hhi. pose proof (N2 lo eq_refl) as Hlo.
    rewrite (big_mul_ok w w_ge hi p Hhi Hp). cbn [rbind]. split; [reflexivity|].
    intros v Hv. inversion Hv. pose proof (Z.mul_nonneg_nonneg hi p Hhi Hp). lia.
Qed.

Lemma parse_powers_w_ok f cb n : forall ps, Forall (fun p => 0 <= p) ps ->
  parse_powers_w w f cb n ps = Ok (parse_powers f cb n ps) /\ Forall (fun p => 0 <= p) (parse_powers f cb n ps).
Proof.
  induction f as [|f IH]; intros ps Hf; [destruct ps; (split; [reflexivity | exact Hf])|].
  destruct ps as [|prev rest]; [split; [reflexivity | exact Hf]|]. cbn [parse_powers_w parse_powers].
  inversion Hf as [|? ? Hp Hrest]; subst.
  destruct (cb <=? (n - 1) / 2 ^ len (prev :: rest)); [|split; [reflexivity | exact Hf]].
  rewrite (big_mul_ok w w_ge prev prev Hp Hp). cbn [rbind]. apply IH. constructor; [apply Z.mul_nonneg_nonneg; exact Hp | exact Hf].
Qed.

Theorem parse_np2_words_ok s : parse_np2_words w r s = parse_np2 w r s.
Proof.
  destruct (radix_info_ok w r w_pos w_even r_ge_2 r_lt_B) as (dpw & R & Hinfo & Hd & HR & Hlt & Hle).
  assert (HR0 : 0 <= R) by (rewrite HR; apply Z.pow_nonneg; lia).
  unfold parse_np2_words, parse_np2. rewrite Hinfo.
  set (bytes := if existsb (fun c => c =? 95) s then filter (fun c => negb (c =? 95)) s else s).
  destruct (len bytes <=? dpw); [reflexivity|].
  destruct (len bytes <=? parse_chunk_len * dpw); [apply parse_chunk_of_ok|].
  unfold parse_large_w, parse_large_np2. rewrite Hinfo.
  rewrite (big_pow_ok w w_ge R parse_chunk_len HR0 ltac:(unfold parse_chunk_len; lia)). cbn [rbind].
  assert (Hf : Forall (fun p => 0 <= p) [R ^ parse_chunk_len]) by (constructor; [apply Z.pow_nonneg; lia | constructor]).
  destruct (parse_powers_w_ok (Z.to_nat (blen (len bytes))) (parse_chunk_len * dpw) (len bytes) _ Hf) as (E & Hf').
  rewrite E. cbn [rbind]. apply parse_dc_w_ok. exact Hf'.
Qed.
End BigParse.

(* ---------------------------------------------------------------- closed statements *)
Theorem digits_np2_words_total w r x : 8 <= w -> w mod 2 = 0 -> 2 <= r -> 2 * r * r <= Words.B w -> 0 <= x ->
  digits_np2_words w r x = Ok (digits_spec r x).
Proof.
  intros Hw He Hr Hrr Hx.
  assert (r_lt_B : r < Bw w) by (change (Bw w) with (Words.B w); nia).
  destruct (radix_info_ok w r ltac:(lia) He Hr r_lt_B) as (dpw & R & Hinfo & Hd & HR & Hlt & Hle).
  rewrite (digits_np2_words_ok w Hw r dpw R Hr Hinfo Hd HR Hlt Hle x He Hrr Hx).
  rewrite (digits_np2_asis_total w r ltac:(lia) He Hr r_lt_B x Hx). reflexivity.
Qed.

Theorem parse_np2_words_total w r s : 8 <= w -> w mod 2 = 0 -> 2 <= r -> r < Bw w -> parse_np2_words w r s = parse_np2 w r s.
Proof. intros. apply parse_np2_words_ok; assumption. Qed.

(** Display / Binary / Octal / LowerHex / UpperHex / in_radix and the unsigned parser over the word-level converters *)
Theorem fmt_words_asis_correct w k f v : 8 <= w -> w mod 2 = 0 -> 2 * 36 * 36 <= Words.B w -> fmt_words_asis w k f v = fmt_spec k f v.
Proof.
  intros Hw He HB. assert (H36 : 36 < Bw w) by (change (Bw w) with (Words.B w); lia).
  rewrite <- (fmt_asis_correct w k f v ltac:(lia) He H36). unfold fmt_words_asis, fmt_asis.
  destruct (radix_valid (kind_radix k)) eqn:Ev; [|reflexivity].
  assert (Hr : 2 <= kind_radix k <= 36).
  { unfold radix_valid in Ev. apply andb_prop in Ev. destruct Ev as [E1 E2]. apply Z.leb_le in E1. apply Z.leb_le in E2. lia. }
  unfold digits_asis. destruct (is_pow2 (kind_radix k)); [reflexivity|].
  rewrite (digits_np2_words_total w (kind_radix k) (Z.abs v) Hw He ltac:(lia) ltac:(nia) ltac:(lia)).
  rewrite (digits_np2_asis_total w (kind_radix k) ltac:(lia) He ltac:(lia) ltac:(lia) (Z.abs v) ltac:(lia)). reflexivity.
Qed.

Theorem body_words_asis_correct w r s : 8 <= w -> w mod 2 = 0 -> 2 <= r -> r < Bw w -> body_words_asis w r s = body_spec r s.
Proof.
  intros Hw He Hr HB. rewrite <- (body_asis_correct w r s ltac:(lia) He Hr HB). unfold body_words_asis, body_asis.
  destruct (forallb (fun c => c =? 95) s); [reflexivity|]. destruct (is_pow2 r); [reflexivity|].
  apply parse_np2_words_total; assumption.
Qed.

(** non-vacuity: 40 words in decimal go through pow, the squaring loop, two big divisions and the word loops;
    a 600-digit text with 8-bit words (chunks of 512 digits) through the chunk parser, one split and a big multiplication *)
Example digits_np2_words_ex : digits_np2_words 64 10 (7 ^ 900 + 1) = Ok (digits_spec 10 (7 ^ 900 + 1)).
Proof. vm_compute. reflexivity. Qed.
Example parse_np2_words_ex : parse_np2_words 8 10 (repeat 57 600) = Ok (10 ^ 600 - 1).
Proof. vm_compute. reflexivity. Qed.
