(** C01 (L1): pow.rs at word level, including its storage bookkeeping.
    - UBig::pow / IBig::pow: trailing_zeros, `>> shift` on the borrowed magnitude, the power of the odd part,
      `<< exp * shift` on the owned result - the shifts and trailing_zeros are the WORD-LEVEL models of C09
      (Int/BitsKernels.v: repr_trailing_zeros, repr_shr_ref, repr_shl), no longer taken by value;
    - pow_word_base: shortcuts 0 / 1 / 2 / 2^k through TypedRepr::set_bit (C09 repr_set_bit), max_exp_in_word
      lifting, the `exp < wexp` / `exp < 2 wexp` shortcuts, then the square-and-multiply loop ON THE RESULT BUFFER:
      the buffer has the capacity the code asks for (Buffer::allocate(exp + 1); the real capacity is at least
      that), `push` beyond it is the assert!(len < capacity) of Buffer::push (resp. a reallocation in
      push_resizing - "actually never resize"), `push_zeros(len)` before a squaring needs len free words, the
      copy of res and the squaring's own scratch must fit the MemoryAllocation (array_layout(exp / 2 + 1) +
      sqr::memory_requirement_exact(exp / 2 + 1)); any violation is a Panic of the model;
    - pow_dword_base: the same with Buffer::allocate(2 * exp), push(c0); push_resizing(c1) of a non-zero carry;
    - pow_large_base over square_large / mul_large with the word-level kernels.
    The capacities and scratch amounts are regenerated from pow.rs (DashuGen.MulMemory).  Definitions only. *)
From Dashu Require Import Base.Prelude Base.Words Int.RingAdd Int.RingMul Int.RingOps Int.RingMulW Int.RingOpsW Int.RingScratch.
From Dashu Require Int.BitsSpec Int.BitsKernels.
From DashuGen Require Import Params MulMemory.
Open Scope Z_scope.

(** the typed view of C01 (trepr) and of C09 (brepr) are the same thing *)
Definition to_b (r : trepr) : BitsKernels.brepr :=
  match r with Small d => BitsKernels.BSmall d | Large ws => BitsKernels.BLarge ws end.
Definition of_b (r : BitsKernels.brepr) : trepr :=
  match r with BitsKernels.BSmall d => Small d | BitsKernels.BLarge ws => Large ws end.

(** Buffer::push on a buffer of capacity [cap]; Buffer::push_resizing, which must never have to resize *)
Definition bpush (cap : Z) (buf : list Z) (x : Z) : result (list Z) :=
  if len buf <? cap then Ok (buf ++ [x]) else Panic Undocumented.
Definition bpush_resizing (cap : Z) (buf : list Z) (x : Z) : result (list Z) :=
  if x =? 0 then Ok buf else bpush cap buf x.

Section PowW.
Variable w : Z.
Variable div2by1 : Z -> Z -> Z * Z.
Variable T_simple T_kara CHUNK SQR_SIMPLE : nat.
Notation BB := (B w).

(** res = square(res):  let (tmp, memory) = memory.allocate_slice_copy(&res); res.fill(0);
    res.push_zeros(res.len()); sqr::sqr(&mut res, tmp, &mut memory) *)
Definition square_in_buffer (cap mem : Z) (res : list Z) : result (list Z) :=
  let n := len res in
  if mem <? n + sqr_need (Z.of_nat T_simple) (Z.of_nat T_kara) (Z.of_nat SQR_SIMPLE) n then Panic Undocumented
  else if cap - n <? n then Panic Undocumented
  else sqr_w w div2by1 T_simple T_kara SQR_SIMPLE res.

(** loop { if exp & (1 << p) != 0 { multiply } if p == 0 { break } p -= 1; square } *)
Fixpoint powb_loop (p : nat) (e : Z) (mulstep sqstep : list Z -> result (list Z)) (res : list Z) : result (list Z) :=
  rbind (if Z.testbit e (Z.of_nat p) then mulstep res else Ok res) (fun res =>
    match p with
    | O => Ok res
    | S p' => rbind (sqstep res) (powb_loop p' e mulstep sqstep)
    end).

Definition pow_word_base_w (base e : Z) : result trepr :=
  if base =? 0 then Ok (Small 0)
  else if base =? 1 then Ok (Small 1)
  else if base =? 2 then Ok (of_b (BitsKernels.repr_set_bit w (BitsKernels.BSmall 0) e))
  else if is_power_of_two base then Ok (of_b (BitsKernels.repr_set_bit w (BitsKernels.BSmall 0) (e * Z.log2 base)))
  else
    rbind (max_exp_in_word w base) (fun '(wexp, wbase) =>
    if e <? wexp then Ok (Small (base ^ e))
    else if e <? 2 * wexp then Ok (Small (wbase * base ^ (e - wexp)))
    else
      let q := e / wexp in let r := e mod wexp in
      let cap := pow_word_capacity q in
      let mem := pow_word_memory_words q in
      let sq := wbase * wbase in
      rbind (bpush cap [] (sq mod BB)) (fun b0 =>
      rbind (bpush cap b0 (sq / BB)) (fun res0 =>
      let mulstep := fun res => let '(x, c) := mul_word_in_place w res wbase in bpush_resizing cap x c in
      rbind (powb_loop (Z.to_nat (bit_len q - 2)) q mulstep (square_in_buffer cap mem) res0) (fun res =>
      let '(x, c) := mul_word_in_place w res (base ^ r) in
      rbind (bpush_resizing cap x c) (fun res => Ok (from_buffer w res)))))).

Definition pow_dword_base_w (base e : Z) : result trepr :=
  let cap := pow_dword_capacity e in
  let mem := pow_dword_memory_words e in
  let '(lo, hi) := mul_add_carry_dword w base base 0 in
  rbind (bpush cap [] (lo mod BB)) (fun b0 =>
  rbind (bpush cap b0 (lo / BB)) (fun b1 =>
  rbind (bpush cap b1 (hi mod BB)) (fun b2 =>
  rbind (bpush cap b2 (hi / BB)) (fun res0 =>
  let mulstep := fun res =>
    let '(x, c) := mul_dword_in_place w res base in
    if 0 <? c then rbind (bpush cap x (c mod BB)) (fun x1 => bpush_resizing cap x1 (c / BB)) else Ok x in
  rbind (powb_loop (Z.to_nat (bit_len e - 2)) e mulstep (square_in_buffer cap mem) res0) (fun res =>
  Ok (from_buffer w res)))))).

Fixpoint pow_large_loop_w (p : nat) (e : Z) (base : list Z) (res : trepr) : result trepr :=
  rbind (if Z.testbit e (Z.of_nat p)
         then mul_large_w w div2by1 T_simple T_kara CHUNK SQR_SIMPLE (as_slice w res) base else Ok res) (fun res =>
    match p with
    | O => Ok res
    | S p' => rbind (square_large_w w div2by1 T_simple T_kara SQR_SIMPLE (as_slice w res)) (pow_large_loop_w p' e base)
    end).

Definition pow_large_base_w (base : list Z) (e : Z) : result trepr :=
  rbind (square_large_w w div2by1 T_simple T_kara SQR_SIMPLE base)
        (pow_large_loop_w (Z.to_nat (bit_len e - 2)) e base).

(** TypedReprRef::pow *)
Definition repr_pow_w (x : trepr) (e : Z) : result trepr :=
  if e =? 0 then Ok (Small 1)
  else if e =? 1 then Ok x
  else if e =? 2 then repr_sqr_w w div2by1 T_simple T_kara SQR_SIMPLE x
  else match x with
       | Small d => if d <? BB then pow_word_base_w d e else pow_dword_base_w d e
       | Large ws => pow_large_base_w ws e
       end.

(** UBig::pow: shift = trailing_zeros().unwrap_or(0); [cap]: whether the power's buffer has room for the shift *)
Definition ubig_pow_w (cap : bool) (x : trepr) (e : Z) : result trepr :=
  let shift := match BitsKernels.repr_trailing_zeros w (to_b x) with Some k => k | None => 0 end in
  if negb (shift =? 0) then
    rbind (repr_pow_w (of_b (BitsKernels.repr_shr_ref w (to_b x) shift)) e) (fun r =>
      Ok (of_b (BitsKernels.repr_shl w cap (to_b r) (e * shift))))
  else repr_pow_w x e.

Definition ibig_pow_w (cap : bool) (s : sign) (x : trepr) (e : Z) : result (sign * trepr) :=
  let s' := match s with Negative => if Z.odd e then Negative else Positive | Positive => Positive end in
  rbind (ubig_pow_w cap x e) (fun r => Ok (with_sign s' r)).

End PowW.
