(** C13 (round 3) - the second 64-bit instance the oracle runs (ModRingConvInst.v: word lists + real kernels for the
    multi-word rings, num-modular as transcribed for the one- and two-word rings) returns what the specification
    demands, for ALL moduli m >= 1 and all operands - no contract of an external function is assumed (the multi-word
    extended gcd is the exact instance ex_gcd_ext, which meets the contract). *)
From Dashu Require Import Base.Prelude Base.Words Int.RingMul Int.DivWordModel Int.DivWordProofs Int.DivLargeProofs Int.DivContracts
  Int.DivNumModular Int.DivNumModularProofs Int.DivSrcInst Int.DivSrcInstProofs
  Int.ModRingSpec Int.ModRingSpecProofs Int.ModRingPowModel Int.ModRingPowProofs Int.ModRingModel Int.ModRingProofs Int.ModRingOpsProofs
  Int.ModRingMain Int.ModRingInst Int.ModRingInstProofs Int.ModRingNumModularDefs Int.ModRingNumModular
  Int.ModRingWords Int.ModRingWordsProofs Int.ModRingWordsMulProofs Int.ModRingWordsInst
  Int.ModRingConv Int.ModRingConvProofs Int.ModRingConvInst.
From DashuGen Require Import Params.
Open Scope Z_scope.

Local Lemma w64_2 : 2 <= 64. Proof. lia. Qed.
Local Lemma w64_8 : 8 <= 64. Proof. lia. Qed.
Local Lemma w64_pos : 0 < 64. Proof. lia. Qed.

(** the kernels of the instance are the kernels of ModRingWordsInst.v *)
Lemma KM_eq : KM = k_mul 64. Proof. reflexivity. Qed.
Lemma KS_eq : KS = k_sqr 64. Proof. reflexivity. Qed.
Lemma KD_eq : KD = k_div 64 (nm3by2 64) (c01_mul_sub 64). Proof. reflexivity. Qed.

Lemma KD_ok lhs rhs : kernel_pre 64 lhs rhs -> exists res c, KD lhs rhs = Ok (res, c) /\ kernel_post 64 lhs rhs res c.
Proof.
  rewrite KD_eq. apply (k_div_ok 64 w64_8 (nm3by2 64) (c01_mul_sub 64) (nm3by2_contract 64 w64_pos) (c01_mul_sub_contract 64 w64_8)).
Qed.

Definition EXT : externals_ok 64 N2 N3 nm_finv ex_gcd_ext := externals_nm 64 ex_gcd_ext w64_2 ModRingNumModular.ex_gcd_ext_ok.
Local Notation E2 := (ext_2by1 _ _ _ _ _ EXT).
Local Notation E3 := (ext_3by2 _ _ _ _ _ EXT).
Local Notation Ei := (ext_invm _ _ _ _ _ EXT).
Local Notation Eg := (ext_gcd _ _ _ _ _ EXT).

(** ---------------- one- and two-word rings ---------------- *)
Lemma small_kind id m r : 1 <= m -> is_large m = false -> new_ring 64 id m = Ok r -> r_kind r <> KLarge.
Proof.
  intros Hm Hs E. unfold is_large in Hs. apply Z.leb_gt in Hs. unfold new_ring in E.
  destruct (Z.leb_spec m 0); [lia|]. destruct (m <? 2 ^ 64); [inversion E; subst; cbn; discriminate|].
  destruct (Z.ltb_spec m (2 ^ 64 * 2 ^ 64)); [inversion E; subst; cbn; discriminate | lia].
Qed.

Lemma n_from_ubig_eq r x : ring_wf 64 r -> r_kind r <> KLarge -> 0 <= x -> n_from_ubig r x = from_ubig 64 N2 N3 r x.
Proof.
  intros Hwf Hk Hx. unfold n_from_ubig, from_ubig. destruct (r_kind r) eqn:K; [| |contradiction].
  - rewrite (ws_from_ubig_eq 64 w64_2 (nm1by1 64) N2 (nm1by1_contract 64) (nm2by1_contract 64 w64_pos) r x Hwf K Hx). reflexivity.
  - rewrite (wd_from_ubig_eq 64 w64_2 (nm2by2 64) N3 (nm4by2 64) (nm2by2_contract 64) (nm3by2_contract 64 w64_pos)
               (nm4by2_contract 64 w64_pos) r x Hwf K Hx). reflexivity.
Qed.

Lemma n_reduce_ok r a : ring_wf 64 r -> r_kind r <> KLarge -> exists x, n_reduce r a = Ok x /\ rep r a x.
Proof.
  intros Hwf Hk. assert (n_reduce r a = reduce_asis 64 N2 N3 r a) as ->.
  { unfold n_reduce, reduce_asis. destruct (Z.leb_spec 0 a); rewrite n_from_ubig_eq by (try assumption; lia); reflexivity. }
  exact (reduce_ok 64 w64_2 N2 N3 E2 E3 r a Hwf).
Qed.

(** ---------------- multi-word rings ---------------- *)
Lemma w_reduce_ok R r a : lring_ok 64 R r -> ring_wf 64 r -> exists l, w_reduce R a = Ok l /\ wrep 64 R r a l.
Proof. intros HR Hwf. exact (wl_into_ring_ibig_ok 64 w64_2 KD KD_ok R r a HR Hwf). Qed.

Lemma w_residue_ok R r x l : lring_ok 64 R r -> ring_wf 64 r -> wrep 64 R r x l -> w_residue R l = Ok (x mod r_m r).
Proof.
  intros HR Hwf Hl. destruct (wl_ring_ops 64 w64_2 R r x x l l HR Hwf Hl Hl) as (_ & _ & _ & _ & (c & Ec & _ & Ev) & _).
  unfold w_residue. rewrite Ec. cbn [rbind]. rewrite Ev. reflexivity.
Qed.

Lemma w_modulus_ok R r : lring_ok 64 R r -> ring_wf 64 r -> w_modulus R = Ok (r_m r).
Proof.
  intros HR Hwf. destruct (wl_divisor_ok 64 w64_2 R r HR Hwf) as (l & E & _ & Ev). unfold w_modulus. rewrite E. cbn [rbind]. rewrite Ev. reflexivity.
Qed.

Local Ltac small_ring m Hm Hl r Hwf Em Hk :=
  destruct (new_ring_ok 64 w64_2 0 m Hm) as (r & Enew & Hwf & Em & _);
  pose proof (small_kind 0 m r Hm Hl Enew) as Hk; unfold i_new, W64; rewrite Enew; cbn [rbind].
Local Ltac large_ring m Hl R r HR Hwf Em :=
  let H := fresh in
  assert (Words.B 64 * Words.B 64 <= m) as H by (unfold is_large in Hl; apply Z.leb_le in Hl; unfold Words.B; exact Hl);
  destruct (wl_new_ok 64 w64_2 0 m H) as (R & r & Enew & _ & HR & Hwf & Em & _); rewrite Enew; cbn [rbind]; clear H.
Local Ltac nred r a Hwf Hk x Hx := destruct (n_reduce_ok r a Hwf Hk) as (x & Ered & Hx); rewrite Ered; clear Ered; cbn [rbind].
Local Ltac wred R r a HR Hwf x Hx := destruct (w_reduce_ok R r a HR Hwf) as (x & Ered & Hx); rewrite Ered; clear Ered; cbn [rbind].
Local Ltac nres r v c Hwf Hc Em :=
  destruct (residue_ok 64 w64_2 r v c Hwf Hc) as (Eres & _ & Emod); rewrite Eres; cbn [rbind]; rewrite ?Emod, ?Em.

Theorem hrun_reduce_correct m a : 1 <= m -> hrun_reduce m a = Ok (reduce_spec m a, m).
Proof.
  intros Hm. unfold hrun_reduce. destruct (is_large m) eqn:Hl.
  - large_ring m Hl R r HR Hwf Em. wred R r a HR Hwf x Hx.
    rewrite (w_residue_ok R r a x HR Hwf Hx). cbn [rbind]. rewrite (w_modulus_ok R r HR Hwf). cbn [rbind]. rewrite Em. reflexivity.
  - small_ring m Hm Hl r Hwf Em Hk. nred r a Hwf Hk x Hx. nres r a x Hwf Hx Em. reflexivity.
Qed.

Theorem hrun_un_correct o m a : 1 <= m -> hrun_un o m a = Ok (un_spec o m a).
Proof.
  intros Hm. unfold hrun_un. destruct (is_large m) eqn:Hl.
  - large_ring m Hl R r HR Hwf Em. wred R r a HR Hwf x Hx.
    destruct (wl_ring_ops 64 w64_2 R r a a x x HR Hwf Hx Hx) as (_ & _ & (cd & Ed & Hd) & (cn & En & Hn) & _).
    destruct (real_mul_ops_nm 64 (c01_mul_sub 64) w64_8 (c01_mul_sub_contract 64 w64_8) R r a a x x HR Hwf Hx Hx) as (_ & _ & (cs & Es & Hs)).
    destruct o; unfold w_un, un_spec, neg_spec, dbl_spec, sqr_spec, reduce_spec.
    + rewrite En. cbn [rbind]. rewrite (w_residue_ok R r (- a) cn HR Hwf Hn), Em. reflexivity.
    + rewrite Ed. cbn [rbind]. rewrite (w_residue_ok R r (2 * a) cd HR Hwf Hd), Em. reflexivity.
    + rewrite KS_eq, KD_eq, Es. cbn [rbind]. rewrite (w_residue_ok R r (a * a) cs HR Hwf Hs), Em. reflexivity.
  - small_ring m Hm Hl r Hwf Em Hk. nred r a Hwf Hk x Hx.
    destruct o; unfold n_un, un_spec.
    + destruct (neg_ok 64 w64_2 r a x Hwf Hx) as (c & -> & Hc). cbn [rbind]. nres r (- a) c Hwf Hc Em. reflexivity.
    + destruct (dbl_ok 64 w64_2 r a x Hwf Hx) as (c & -> & Hc). cbn [rbind]. nres r (2 * a) c Hwf Hc Em. reflexivity.
    + destruct (sqr_ok 64 w64_2 N2 N3 E2 E3 r a x Hwf Hx) as (c & -> & Hc). cbn [rbind]. nres r (a * a) c Hwf Hc Em. reflexivity.
Qed.

(** inverse on word lists against the specification's inverse *)
Lemma w_inv_spec R r a x : lring_ok 64 R r -> ring_wf 64 r -> wrep 64 R r a x ->
  match inv_spec (r_m r) a with
  | Some iv => exists c, wl_inv 64 ex_gcd_ext R x = Ok (Some c) /\ wrep 64 R r iv c
  | None => wl_inv 64 ex_gcd_ext R x = Ok None
  end.
Proof.
  intros HR Hwf Hx. pose proof (wf_m_pos 64 r Hwf) as Hmp.
  destruct (wl_inv_ok 64 w64_2 ex_gcd_ext ModRingNumModular.ex_gcd_ext_ok R r a x HR Hwf Hx) as (o & Eo & Hp).
  pose proof (inv_spec_ok (r_m r) a Hmp) as Hs.
  destruct o as [c|], (inv_spec (r_m r) a) as [iv|]; cbn [winv_post] in Hp.
  - destruct Hp as (v & Hc & Hinv & _). destruct Hs as [Hiv _]. exists c. split; [exact Eo|].
    assert (v mod r_m r = iv) as E by (apply (inverse_unique (r_m r) a); [lia | exact Hinv | exact Hiv]).
    destruct Hc as (H1 & H2 & H3). split; [exact H1|]. split; [exact H2|]. rewrite H3, E.
    destruct Hiv as [Hr _]. rewrite (Z.mod_small iv) by lia. reflexivity.
  - destruct Hp as (v & _ & _ & G). contradiction.
  - destruct Hs as [_ G]. contradiction.
  - exact Eo.
Qed.

Theorem hrun_bin_correct o m a b : 1 <= m -> hrun_bin o m a b = bin_spec o m a b.
Proof.
  intros Hm. unfold hrun_bin. destruct (is_large m) eqn:Hl.
  - large_ring m Hl R r HR Hwf Em. wred R r a HR Hwf x Hx. wred R r b HR Hwf y Hy.
    destruct (wl_ring_ops 64 w64_2 R r a b x y HR Hwf Hx Hy) as ((ca & Ea & Ha) & (cs & Es & Hs) & _).
    destruct o; unfold w_bin, bin_spec, add_spec, sub_spec, mul_spec, reduce_spec.
    + rewrite Ea. cbn [rbind]. rewrite (w_residue_ok R r (a + b) ca HR Hwf Ha), Em. reflexivity.
    + rewrite Es. cbn [rbind]. rewrite (w_residue_ok R r (a - b) cs HR Hwf Hs), Em. reflexivity.
    + destruct (real_mul_ops_nm 64 (c01_mul_sub 64) w64_8 (c01_mul_sub_contract 64 w64_8) R r a b x y HR Hwf Hx Hy) as ((cm & Emul & Hmul) & _).
      rewrite KM_eq, KS_eq, KD_eq, Emul. cbn [rbind]. rewrite (w_residue_ok R r (a * b) cm HR Hwf Hmul), Em. reflexivity.
    + unfold w_div, div_spec. pose proof (w_inv_spec R r b y HR Hwf Hy) as Hi. rewrite Em in Hi.
      destruct (inv_spec m b) as [iv|].
      * destruct Hi as (c & -> & Hc). cbn [rbind].
        destruct (real_mul_ops_nm 64 (c01_mul_sub 64) w64_8 (c01_mul_sub_contract 64 w64_8) R r iv a c x HR Hwf Hc Hx) as ((cm & Emul & Hmul) & _).
        rewrite KM_eq, KS_eq, KD_eq, Emul. cbn [rbind]. rewrite (w_residue_ok R r (iv * a) cm HR Hwf Hmul), Em.
        unfold mul_spec, reduce_spec. f_equal. f_equal. ring.
      * rewrite Hi. reflexivity.
  - small_ring m Hm Hl r Hwf Em Hk. nred r a Hwf Hk x Hx. nred r b Hwf Hk y Hy.
    destruct o; unfold n_bin, bin_spec.
    + destruct (add_ok 64 w64_2 r a b x y Hwf Hx Hy) as (c & -> & Hc). cbn [rbind]. nres r (a + b) c Hwf Hc Em. reflexivity.
    + destruct (sub_ok 64 w64_2 r a b x y Hwf Hx Hy) as (c & -> & Hc). cbn [rbind]. nres r (a - b) c Hwf Hc Em. reflexivity.
    + destruct (mul_ok 64 w64_2 N2 N3 E2 E3 r a b x y Hwf Hx Hy) as (c & -> & Hc). cbn [rbind]. nres r (a * b) c Hwf Hc Em. reflexivity.
    + pose proof (div_asis_ok 64 w64_2 N2 N3 nm_finv ex_gcd_ext E2 E3 Ei Eg r a b x y Hwf Hx Hy) as Hd.
      rewrite Em in Hd. destruct (div_spec m a b) as [q|p| |] eqn:Eq; try contradiction.
      * destruct Hd as (c & -> & Hc). cbn [rbind]. nres r q c Hwf Hc Em.
        f_equal. unfold reduce_spec. apply Z.mod_small. destruct (div_spec_mul_back m a b q ltac:(lia) Eq) as [Hq _]. exact Hq.
      * rewrite Hd. reflexivity.
Qed.

Theorem hrun_pow_correct m a e : 1 <= m -> 0 <= e -> hrun_pow m a e = Ok (powm m a e).
Proof.
  intros Hm He. rewrite powm_correct by lia. unfold hrun_pow. destruct (is_large m) eqn:Hl.
  - large_ring m Hl R r HR Hwf Em. wred R r a HR Hwf x Hx.
    destruct (real_pow_nm 64 (c01_mul_sub 64) w64_8 (c01_mul_sub_contract 64 w64_8) R r a x e HR Hwf Hx He) as (c & Ec & Hc).
    rewrite KM_eq, KS_eq, KD_eq, Ec. cbn [rbind]. rewrite (w_residue_ok R r (a ^ e) c HR Hwf Hc), Em. reflexivity.
  - small_ring m Hm Hl r Hwf Em Hk. nred r a Hwf Hk x Hx.
    destruct (pow_ok 64 w64_2 N2 N3 E2 E3 r a x e Hwf Hx He) as (c & -> & Hc). cbn [rbind]. nres r (a ^ e) c Hwf Hc Em. reflexivity.
Qed.

Theorem hrun_inv_correct m a : 1 <= m -> hrun_inv m a = Ok (inv_spec m a).
Proof.
  intros Hm. unfold hrun_inv. destruct (is_large m) eqn:Hl.
  - large_ring m Hl R r HR Hwf Em. wred R r a HR Hwf x Hx.
    pose proof (w_inv_spec R r a x HR Hwf Hx) as Hi. rewrite Em in Hi.
    pose proof (inv_spec_ok m a ltac:(lia)) as Hs. destruct (inv_spec m a) as [iv|].
    + destruct Hi as (c & -> & Hc). cbn [rbind]. rewrite (w_residue_ok R r iv c HR Hwf Hc), Em. cbn [rbind].
      destruct Hs as [[Hr _] _]. rewrite Z.mod_small by lia. reflexivity.
    + rewrite Hi. reflexivity.
  - small_ring m Hm Hl r Hwf Em Hk. nred r a Hwf Hk x Hx.
    destruct (inv_asis_ok 64 w64_2 nm_finv ex_gcd_ext Ei Eg r a x Hwf Hx) as (o & -> & Hp).
    cbn [rbind]. pose proof (inv_spec_ok m a ltac:(lia)) as Hs.
    destruct o as [c|], (inv_spec m a) as [iv|]; cbn [inv_post] in Hp; rewrite ?Em in Hp.
    + destruct Hp as (v & Hc & Hinv & _). destruct Hs as [Hiv _].
      nres r v c Hwf Hc Em. do 2 f_equal. unfold reduce_spec. apply (inverse_unique m a); [lia | exact Hinv | exact Hiv].
    + destruct Hp as (v & _ & _ & G). contradiction.
    + destruct Hs as [_ G]. contradiction.
    + reflexivity.
Qed.

Theorem hrun_eq_correct m a b : 1 <= m -> hrun_eq m a b = Ok (reduce_spec m a =? reduce_spec m b).
Proof.
  intros Hm. unfold hrun_eq. destruct (is_large m) eqn:Hl.
  - large_ring m Hl R r HR Hwf Em. wred R r a HR Hwf x Hx. wred R r b HR Hwf y Hy.
    destruct (wl_ring_ops 64 w64_2 R r a b x y HR Hwf Hx Hy) as (_ & _ & _ & _ & _ & ->). rewrite Em. reflexivity.
  - small_ring m Hm Hl r Hwf Em Hk. nred r a Hwf Hk x Hx. nred r b Hwf Hk y Hy.
    rewrite (eq_asis_ok 64 w64_2 r a b x y Hwf Hx Hy), Em. reflexivity.
Qed.

(** Reducer::transform: the raw form is the residue shifted by the normalisation shift of the ring *)
Theorem hrun_transform_correct m a : 1 <= m -> 0 <= a ->
  hrun_transform m a = rbind (i_new 0 m) (fun r => Ok (reduce_spec m a * 2 ^ r_shift r)).
Proof.
  intros Hm Ha. unfold hrun_transform. destruct (is_large m) eqn:Hl.
  - assert (Words.B 64 * Words.B 64 <= m) as H by (unfold is_large in Hl; apply Z.leb_le in Hl; unfold Words.B; exact Hl).
    destruct (wl_new_ok 64 w64_2 0 m H) as (R & r & Enew & Enr & HR & Hwf & Em & _). rewrite Enew. unfold i_new, W64. rewrite Enr. cbn [rbind].
    destruct (wl_transform_ok 64 w64_2 KD KD_ok R r a HR Hwf Ha) as (-> & _). rewrite Em. reflexivity.
  - small_ring m Hm Hl r Hwf Em Hk. unfold n_transform, reduce_spec. rewrite <- Em. destruct (r_kind r) eqn:K; [| |contradiction].
    + rewrite (ws_from_ubig_eq 64 w64_2 (nm1by1 64) N2 (nm1by1_contract 64) (nm2by1_contract 64 w64_pos) r a Hwf K Ha).
      exact (s_from_ubig_ok 64 w64_2 N2 E2 r a Hwf K Ha).
    + rewrite (wd_from_ubig_eq 64 w64_2 (nm2by2 64) N3 (nm4by2 64) (nm2by2_contract 64) (nm3by2_contract 64 w64_pos)
                 (nm4by2_contract 64 w64_pos) r a Hwf K Ha).
      exact (d_from_ubig_ok 64 w64_2 N3 E3 r a Hwf K Ha).
Qed.

(** non-vacuity / regression: runs of the instance inside Coq (multi-word, shifted and aligned; one and two words) *)
Example hrun_examples :
  hrun_bin OMul (2 ^ 130 + 12) (2 ^ 129 + 5) (- (2 ^ 200) - 1) = bin_spec OMul (2 ^ 130 + 12) (2 ^ 129 + 5) (- (2 ^ 200) - 1) /\
  hrun_bin ODiv (2 ^ 192 - 237) 5 (2 ^ 100 + 1) = bin_spec ODiv (2 ^ 192 - 237) 5 (2 ^ 100 + 1) /\
  hrun_bin ODiv (2 ^ 130 + 12) 5 6 = Panic NonInvertible /\
  hrun_pow (2 ^ 130 + 13) (-3) (2 ^ 70 + 5) = Ok (powm (2 ^ 130 + 13) (-3) (2 ^ 70 + 5)) /\
  hrun_reduce 1 5 = Ok (0, 1) /\ hrun_bin ODiv 7 3 5 = Ok 2 /\ hrun_pow (2 ^ 100 + 277) 3 (2 ^ 64 + 1) = Ok (powm (2 ^ 100 + 277) 3 (2 ^ 64 + 1)) /\
  hrun_transform (2 ^ 130 + 12) (2 ^ 131) = Ok ((2 ^ 131 mod (2 ^ 130 + 12)) * 2 ^ 61).
Proof. vm_compute. repeat split; reflexivity. Qed.
