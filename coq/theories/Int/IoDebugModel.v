(** C07 (round 3): the Debug output of UBig / IBig - fmt/mod.rs `DoubleEnd` + fmt/non_power_two.rs
    `DoubleEnd::fmt_non_power_two` + `write_usize_decimals` - specification and as-is model.
    Definitions only (proofs: IoDebug.v).  Text = list of byte values.

    `{:?}` prints the sign and, for magnitudes that fit a double word, all decimal digits; for larger
    ones the digits_per_word(10) most significant digits, "..", and as many least significant digits.
    `{:#?}` appends " (digits: N, bits: M)".  Width, fill, alignment and the zero flag are ignored
    (documented in fmt/mod.rs); `+` is honoured. *)
From Dashu Require Import Base.Prelude Base.Words Int.IoSpec Int.IoModel.
From DashuGen Require Import IoTables3.
Open Scope Z_scope.

(* ------------------------------------------------------------------------------------------ *)
(** * specification: [k] digits at each end once the magnitude reaches [T] *)
Definition dec_text (n : Z) : list Z := map (digit_char false) (digits_spec 10 n).

(** " (digits: N, bits: M)": N = number of decimal digits (0 for the number zero), M = bit length *)
Definition debug_verbose_spec (m : Z) : list Z :=
  [32; 40; 100; 105; 103; 105; 116; 115; 58; 32] ++ dec_text (if m =? 0 then 0 else len (digits_spec 10 m))
  ++ [44; 32; 98; 105; 116; 115; 58; 32] ++ dec_text (blen m) ++ [41].

Definition debug_spec (k T : Z) (plus alt : bool) (v : Z) : list Z :=
  let m := Z.abs v in
  let ds := digits_spec 10 m in
  (if v <? 0 then [45] else if plus then [43] else [])
  ++ (if m <? T then map (digit_char false) ds
      else map (digit_char false) (firstn (Z.to_nat k) ds) ++ [46; 46]
           ++ map (digit_char false) (skipn (length ds - Z.to_nat k) ds))
  ++ (if alt then debug_verbose_spec m else []).

(* ------------------------------------------------------------------------------------------ *)
(** * as-is model.  The literal strings and the radix are parameters: IoDebug.v instantiates them
      with the values regenerated from fmt/mod.rs / fmt/non_power_two.rs (coq/gen/IoTables3.v) *)
Record dbg_lits := mk_dbg_lits {
  dl_radix : Z;               (* the radix of DoubleEnd: PreparedWord::new(word, 10, ..), log_word_base(words, 10) *)
  dl_minus : list Z; dl_plus : list Z;
  dl_dots : list Z; dl_open : list Z; dl_mid : list Z; dl_close : list Z;
  dl_pow_div : Z }.           (* `radix::RADIX10_INFO.range_per_word / 10` *)

Section DebugModel.
Variable w : Z.
Variable L : dbg_lits.
(** log::repr::log_word_base(words, 10).0, by its contract (C12_log_word_base_asis_correct):
    radix^(ilog m) <= m < radix^(ilog m + 1) *)
Variable ilog : Z -> Z.

Let rx := dl_radix L.

(** write_usize_decimals(f, u): PreparedWord::new(u as Word, 10, 1) through a NoLetters DigitWriter *)
Definition write_usize_decimals (u : Z) : list Z :=
  map (digit_char false) (prepared_word w rx (u mod Bw w) 1).

(** DoubleEnd::format_prepared(f, digits, prepared_high, prepared_low) *)
Definition double_end_format (neg plus alt : bool) (digits m : Z) (high : list Z) (low : option (list Z)) : list Z :=
  (if neg then dl_minus L else if plus then dl_plus L else [])
  ++ map (digit_char false) high
  ++ (match low with Some l => dl_dots L ++ map (digit_char false) l | None => [] end)
  ++ (if alt then dl_open L ++ write_usize_decimals digits ++ dl_mid L ++ write_usize_decimals (blen m) ++ dl_close L
      else []).

(** DoubleEnd::fmt_non_power_two.  RefSmall: one word / double word, all digits.  RefLarge:
    low = rem_by_word(words, range_per_word); (exp, pow) = log_word_base(words, 10);
    pow /= range_per_word / 10 (debug_assert_zero! on the remainder, debug_assert!(pow.len() > 1));
    (shift, _) = normalize(pow); words <<= shift (the shifted-out word, or the last word, is lhs_top);
    high = div_rem_highest_word(lhs_top, lhs_lo, pow) - one Knuth step (C02_knuth_step), with its
    debug assertions lhs_lo.len() >= pow.len() and [lhs_top, top of lhs_lo] <= pow *)
Definition debug_asis (plus alt : bool) (v : Z) : result (list Z) :=
  let m := Z.abs v in
  let neg := v <? 0 in
  let '(dpw, R) := radix_info w rx in
  if m <? Bw w then
    let hi := prepared_word w rx m 1 in
    Ok (double_end_format neg plus alt (if m =? 0 then 0 else len hi) m hi None)
  else if m <? Bw w * Bw w then
    let hi := prepared_dword w rx m in
    Ok (double_end_format neg plus alt (len hi) m hi None)
  else
    let plow := prepared_word w rx (m mod R) dpw in
    let exp := ilog m in
    let pow := rx ^ exp in
    let dv := R / dl_pow_div L in
    if negb (pow mod dv =? 0) then Panic Undocumented else
    let pow' := pow / dv in
    if pow' <? Bw w then Panic Undocumented else
    let k := wlen w pow' in
    let shift := w * k - blen pow' in
    let pn := pow' * 2 ^ shift in
    let mn := m * 2 ^ shift in
    let Lm := wlen w m in
    let lo_len := if mn / Bw w ^ Lm =? 0 then Lm - 1 else Lm in
    if lo_len <? k then Panic Undocumented else
    if pn <? mn / Bw w ^ (lo_len + 1 - k) then Panic Undocumented else
    let q := (mn / Bw w ^ (lo_len - k)) / pn in
    Ok (double_end_format neg plus alt (exp + 1) m (prepared_word w rx q dpw) (Some plow)).

End DebugModel.

(** an exact instance of the logarithm for the extraction (number of decimal digits - 1) *)
Definition ilog_exact (r m : Z) : Z := len (digits_spec r m) - 1.

(** the literals and the radix regenerated from fmt/mod.rs / fmt/non_power_two.rs *)
Definition gen_dbg_lits : dbg_lits :=
  mk_dbg_lits gen_dbg_radix gen_dbg_minus gen_dbg_plus gen_dbg_dots gen_dbg_open gen_dbg_mid gen_dbg_close gen_dbg_pow_div.
