(** C01 (L1): as-is models of the Small/Large arms of + - * sqr pow (add_ops.rs, mul_ops.rs,
    pow.rs) on top of the word kernels.  A [Repr] is modelled by its typed view: an inline double
    word or a heap word list; [from_buffer] normalises exactly as repr.rs does.  The ownership of
    the operands (value / reference) only selects which buffer is reused; it is a parameter of
    the operations that look at it.  Shifts used by pow (factor-2 removal, power-of-two shortcuts)
    are modelled by their value (they belong to C09).  Definitions only. *)
From Dashu Require Import Base.Prelude Base.Words Int.RingAdd Int.RingMul.
Open Scope Z_scope.

Inductive trepr := Small (dw : Z) | Large (ws : list Z).
Inductive own := OVV | OVR | ORV | ORR.   (* lhs, rhs: V = by value, R = by reference *)
Definition own_swap (o : own) : own := match o with OVR => ORV | ORV => OVR | x => x end.

Section Ops.
Variable w : Z.
Variable T_simple T_kara CHUNK SQR_SIMPLE : nat.
Notation BB := (B w).
Notation val := (value w).

Definition repr_value (r : trepr) : Z := match r with Small d => d | Large ws => val ws end.

(** Buffer::pop_zeros + Repr::from_buffer *)
Definition pop_zeros (ws : list Z) : list Z := firstn (trim_len ws) ws.
Definition from_buffer (ws : list Z) : trepr :=
  match pop_zeros ws with
  | [] => Small 0
  | [x] => Small x
  | [x; y] => Small (x + BB * y)
  | t => Large t
  end.

Definition is_zero (r : trepr) : bool := match r with Small 0 => true | _ => false end.
(** Repr::with_sign / Repr::neg: zero stays positive *)
Definition with_sign (s : sign) (r : trepr) : sign * trepr := if is_zero r then (Positive, r) else (s, r).
Definition neg (x : sign * trepr) : sign * trepr := let '(s, r) := x in with_sign (sign_neg s) r.
Definition srepr_value (x : sign * trepr) : Z := signed (fst x) (repr_value (snd x)).

(** ------------------------------------------------------------------ add_ops.rs, mod repr *)
Definition add_dword (a b : Z) : trepr :=
  let res := (a + b) mod (BB * BB) in
  if BB * BB <=? a + b then from_buffer [res mod BB; res / BB; 1] else Small res.

Definition add_large_dword (buffer : list Z) (rhs : Z) : trepr :=
  let '(r, c) := add_dword_in_place w buffer rhs in from_buffer (if c then r ++ [1] else r).

Definition add_large (buffer rhs : list Z) : trepr :=
  let n := Nat.min (length buffer) (length rhs) in
  let '(lo, overflow) := add_same_len_in_place w (firstn n buffer) (firstn n rhs) in
  let buffer := lo ++ skipn n buffer in
  let buffer := if (n <? length rhs)%nat then buffer ++ skipn n rhs else buffer in
  if overflow then
    let '(hi, c) := add_one_in_place w (skipn n buffer) in
    let buffer := firstn n buffer ++ hi in
    from_buffer (if c then buffer ++ [1] else buffer)
  else from_buffer buffer.

Definition repr_add (o : own) (x y : trepr) : trepr :=
  match x, y with
  | Small d0, Small d1 => add_dword d0 d1
  | Small d0, Large b1 => add_large_dword b1 d0
  | Large b0, Small d1 => add_large_dword b0 d1
  | Large b0, Large b1 =>
      match o with
      | ORR | OVV => if (length b1 <=? length b0)%nat then add_large b0 b1 else add_large b1 b0
      | ORV => add_large b1 b0
      | OVR => add_large b0 b1
      end
  end.

Definition sub_dword (a b : Z) : result trepr := if a <? b then Panic NegativeUBig else Ok (Small (a - b)).

(** debug_assert!(!overflow) *)
Definition sub_large_dword (lhs : list Z) (rhs : Z) : result trepr :=
  let '(r, c) := sub_dword_in_place w lhs rhs in if c then Panic Undocumented else Ok (from_buffer r).

Definition sub_large (lhs rhs : list Z) : result trepr :=
  if (length lhs <? length rhs)%nat then Panic NegativeUBig
  else let '(r, c) := sub_in_place w lhs rhs in if c then Panic NegativeUBig else Ok (from_buffer r).

Definition sub_large_ref_val (lhs rhs : list Z) : result trepr :=
  let n := length rhs in
  if (length lhs <? n)%nat then Panic NegativeUBig
  else
    let '(r, borrow) := sub_same_len_in_place_swap w (firstn n lhs) rhs in
    let buf := r ++ skipn n lhs in
    if borrow then
      let '(hi, c) := sub_one_in_place w (skipn n buf) in
      if c then Panic NegativeUBig else Ok (from_buffer (firstn n buf ++ hi))
    else Ok (from_buffer buf).

Definition repr_sub (o : own) (x y : trepr) : result trepr :=
  match x, y with
  | Small d0, Small d1 => sub_dword d0 d1
  | Small _, Large _ => Panic NegativeUBig
  | Large b0, Small d1 => sub_large_dword b0 d1
  | Large b0, Large b1 => match o with ORV => sub_large_ref_val b0 b1 | _ => sub_large b0 b1 end
  end.

(** ------------------------------------------------------------------ add_ops.rs, mod repr_signed *)
Definition sub_dword_signed (a b : Z) : sign * trepr :=
  let v := (a - b) mod (BB * BB) in
  if a <? b then neg (Positive, Small ((BB * BB - v) mod (BB * BB))) else (Positive, Small v).

Definition lift (r : result trepr) : result (sign * trepr) :=
  match r with Ok x => Ok (Positive, x) | Panic p => Panic p | Err e => Err e | OutOfFuel => OutOfFuel end.
Definition rneg (r : result (sign * trepr)) : result (sign * trepr) :=
  match r with Ok x => Ok (neg x) | e => e end.

Definition sub_large_signed (lhs rhs : list Z) : result (sign * trepr) :=
  if (length rhs <=? length lhs)%nat then
    let '(r, s) := sub_in_place_with_sign w lhs rhs in Ok (with_sign s (from_buffer r))
  else match sub_large_ref_val rhs lhs with
       | Ok r => Ok (with_sign Negative r)
       | Panic p => Panic p | Err e => Err e | OutOfFuel => OutOfFuel
       end.

Definition repr_sub_signed (o : own) (x y : trepr) : result (sign * trepr) :=
  match x, y with
  | Small d0, Small d1 => Ok (sub_dword_signed d0 d1)
  | Small d0, Large b1 => rneg (lift (sub_large_dword b1 d0))
  | Large b0, Small d1 => lift (sub_large_dword b0 d1)
  | Large b0, Large b1 =>
      match o with
      | ORR | OVV => if (length b1 <=? length b0)%nat then sub_large_signed b0 b1 else rneg (sub_large_signed b1 b0)
      | ORV => rneg (sub_large_signed b1 b0)
      | OVR => sub_large_signed b0 b1
      end
  end.

(** ------------------------------------------------------------------ mul_ops.rs, mod repr *)
Definition mul_dword_spilled (a b : Z) : trepr :=
  let '(lo, hi) := mul_add_carry_dword w a b 0 in
  from_buffer [lo mod BB; lo / BB; hi mod BB; hi / BB].

Definition mul_dword (a b : Z) : trepr :=
  if (a <? BB) && (b <? BB) then Small (a * b) else mul_dword_spilled a b.

Definition is_power_of_two (d : Z) : bool := (0 <? d) && (d =? 2 ^ Z.log2 d).

(** shift::shl_in_place by its value: words <<= k, returns the bits shifted out *)
Definition shl_in_place (ws : list Z) (k : Z) : list Z * Z :=
  let v := val ws * 2 ^ k in
  let m := BB ^ len ws in (to_words w (length ws) (v mod m), v / m).

Definition mul_large_dword (buffer : list Z) (rhs : Z) : trepr :=
  if rhs =? 0 then Small 0
  else if rhs =? 1 then from_buffer buffer
  else if rhs <? BB then
    let '(r, carry) := if is_power_of_two rhs then shl_in_place buffer (Z.log2 rhs)
                       else mul_word_in_place w buffer rhs in
    from_buffer (r ++ [carry])
  else
    let '(r, carry) := mul_dword_in_place w buffer rhs in
    if carry =? 0 then from_buffer r else from_buffer (r ++ [carry mod BB; carry / BB]).

Definition list_eqb (a b : list Z) : bool :=
  (length a =? length b)%nat && forallb (fun p => fst p =? snd p) (combine a b).

Definition square_large (ws : list Z) : result trepr :=
  match sqr w T_simple T_kara SQR_SIMPLE ws with
  | Ok r => Ok (from_buffer r)
  | Panic p => Panic p | Err e => Err e | OutOfFuel => OutOfFuel
  end.

Definition mul_large (lhs rhs : list Z) : result trepr :=
  if list_eqb lhs rhs then square_large lhs
  else match multiply w T_simple T_kara CHUNK lhs rhs with
       | Ok r => Ok (from_buffer r)
       | Panic p => Panic p | Err e => Err e | OutOfFuel => OutOfFuel
       end.

Definition repr_mul (x y : trepr) : result trepr :=
  match x, y with
  | Small d0, Small d1 => Ok (mul_dword d0 d1)
  | Small d0, Large b1 => Ok (mul_large_dword b1 d0)
  | Large b0, Small d1 => Ok (mul_large_dword b0 d1)
  | Large b0, Large b1 => mul_large b0 b1
  end.

Definition repr_sqr (x : trepr) : result trepr :=
  match x with
  | Small d => if d <? BB then Ok (Small (d * d)) else Ok (mul_dword_spilled d d)
  | Large ws => square_large ws
  end.

(** ------------------------------------------------------------------ IBig sign dispatch *)
Definition ibig_add_asis (o : own) (s0 : sign) (x : trepr) (s1 : sign) (y : trepr) : result (sign * trepr) :=
  match s0, s1 with
  | Positive, Positive => Ok (Positive, repr_add o x y)
  | Positive, Negative => repr_sub_signed o x y
  | Negative, Positive => repr_sub_signed (own_swap o) y x
  | Negative, Negative => Ok (with_sign Negative (repr_add o x y))
  end.

Definition ibig_sub_asis (o : own) (s0 : sign) (x : trepr) (s1 : sign) (y : trepr) : result (sign * trepr) :=
  match s0, s1 with
  | Positive, Positive => repr_sub_signed o x y
  | Positive, Negative => Ok (Positive, repr_add o x y)
  | Negative, Positive => Ok (with_sign Negative (repr_add o x y))
  | Negative, Negative => repr_sub_signed (own_swap o) y x
  end.

Definition ibig_mul_asis (s0 : sign) (x : trepr) (s1 : sign) (y : trepr) : result (sign * trepr) :=
  match repr_mul x y with
  | Ok r => Ok (with_sign (sign_mul s0 s1) r)
  | Panic p => Panic p | Err e => Err e | OutOfFuel => OutOfFuel
  end.

(** UBig::cubic / IBig::cubic: self * self.sqr() *)
Definition ubig_cubic_asis (x : trepr) : result trepr :=
  match repr_sqr x with Ok q => repr_mul x q | e => e end.
Definition ibig_cubic_asis (s : sign) (x : trepr) : result (sign * trepr) :=
  match repr_sqr x with
  | Ok q => ibig_mul_asis s x Positive q
  | Panic p => Panic p | Err e => Err e | OutOfFuel => OutOfFuel
  end.

(** ------------------------------------------------------------------ pow.rs *)
(** math::max_exp_in_word: the largest k with base^k < B, and base^k; [fuel] bounds the loop *)
Fixpoint max_exp_loop (fuel : nat) (base e p : Z) : result (Z * Z) :=
  match fuel with
  | O => OutOfFuel
  | S f => if p * base <? BB then max_exp_loop f base (e + 1) (p * base) else Ok (e, p)
  end.
Definition bit_len (x : Z) : Z := if x =? 0 then 0 else Z.log2 x + 1.
Definition max_exp_in_word (base : Z) : result (Z * Z) :=
  if 2 ^ (w / 2) - 1 <? base then Ok (1, base)
  else let e := w / bit_len base in max_exp_loop (Z.to_nat w) base e (base ^ e).

(** the square-and-multiply loop, bit index [p] counting down to 0; [step] multiplies by the base *)
Fixpoint pow_loop (p : nat) (e : Z) (step : list Z -> list Z) (res : list Z) : result (list Z) :=
  let res := if Z.testbit e (Z.of_nat p) then step res else res in
  match p with
  | O => Ok res
  | S p' => match sqr w T_simple T_kara SQR_SIMPLE res with
            | Ok r => pow_loop p' e step r
            | e => e
            end
  end.

Definition pow_word_base (base e : Z) : result trepr :=
  if base =? 0 then Ok (Small 0)
  else if base =? 1 then Ok (Small 1)
  else if base =? 2 then Ok (from_buffer (to_words w (Z.to_nat (e / w + 1)) (2 ^ e)))          (* set_bit(exp) *)
  else if is_power_of_two base then
    Ok (from_buffer (to_words w (Z.to_nat (e * Z.log2 base / w + 1)) (2 ^ (e * Z.log2 base))))
  else
    match max_exp_in_word base with
    | Ok (wexp, wbase) =>
        if e <? wexp then Ok (Small (base ^ e))
        else if e <? 2 * wexp then Ok (Small (wbase * base ^ (e - wexp)))
        else
          let q := e / wexp in let r := e mod wexp in
          let sq := wbase * wbase in
          let step := fun res => let '(x, c) := mul_word_in_place w res wbase in x ++ [c] in
          match pow_loop (Z.to_nat (bit_len q - 2)) q step [sq mod BB; sq / BB] with
          | Ok res => let '(x, c) := mul_word_in_place w res (base ^ r) in Ok (from_buffer (x ++ [c]))
          | Panic p => Panic p | Err er => Err er | OutOfFuel => OutOfFuel
          end
    | Panic p => Panic p | Err er => Err er | OutOfFuel => OutOfFuel
    end.

Definition pow_dword_base (base e : Z) : result trepr :=
  let '(lo, hi) := mul_add_carry_dword w base base 0 in
  let step := fun res => let '(x, c) := mul_dword_in_place w res base in
                         if 0 <? c then x ++ [c mod BB; c / BB] else x in
  match pow_loop (Z.to_nat (bit_len e - 2)) e step [lo mod BB; lo / BB; hi mod BB; hi / BB] with
  | Ok res => Ok (from_buffer res)
  | Panic p => Panic p | Err er => Err er | OutOfFuel => OutOfFuel
  end.

(** Repr::as_slice of a result *)
Definition as_slice (r : trepr) : list Z :=
  match r with Large ws => ws | Small d => pop_zeros [d mod BB; d / BB] end.

Fixpoint pow_large_loop (p : nat) (e : Z) (base : list Z) (res : trepr) : result trepr :=
  let res := if Z.testbit e (Z.of_nat p) then mul_large (as_slice res) base else Ok res in
  match res with
  | Ok res =>
      match p with
      | O => Ok res
      | S p' => match square_large (as_slice res) with
                | Ok r => pow_large_loop p' e base r
                | e => e
                end
      end
  | e => e
  end.

Definition pow_large_base (base : list Z) (e : Z) : result trepr :=
  match square_large base with
  | Ok r => pow_large_loop (Z.to_nat (bit_len e - 2)) e base r
  | e => e
  end.

(** TypedReprRef::pow *)
Definition repr_pow (x : trepr) (e : Z) : result trepr :=
  if e =? 0 then Ok (Small 1)
  else if e =? 1 then Ok x
  else if e =? 2 then repr_sqr x
  else match x with
       | Small d => if d <? BB then pow_word_base d e else pow_dword_base d e
       | Large ws => pow_large_base ws e
       end.

(** a value as a typed view (used after the value-level shifts) *)
Definition typed_of_value (v : Z) : trepr :=
  if v <? BB * BB then Small v else Large (to_words w (Z.to_nat (Z.log2 v / w + 1)) v).

(** the number of trailing zero bits (0 for 0), by the binary structure of the number *)
Fixpoint tz_pos (p : positive) : Z := match p with xO q => 1 + tz_pos q | _ => 0 end.
Definition trailing_zeros (v : Z) : Z := match v with Zpos p => tz_pos p | _ => 0 end.

(** UBig::pow: remove the factor 2^shift, power the odd part, shift back *)
Definition ubig_pow_asis (x : trepr) (e : Z) : result trepr :=
  let v := repr_value x in
  let shift := trailing_zeros v in
  if negb (shift =? 0) then
    match repr_pow (typed_of_value (Z.shiftr v shift)) e with
    | Ok r => Ok (typed_of_value (Z.shiftl (repr_value r) (e * shift)))
    | e => e
    end
  else repr_pow x e.

Definition ibig_pow_asis (s : sign) (x : trepr) (e : Z) : result (sign * trepr) :=
  let s' := match s with Negative => if Z.odd e then Negative else Positive | Positive => Positive end in
  match ubig_pow_asis x e with
  | Ok r => Ok (with_sign s' r)
  | Panic p => Panic p | Err er => Err er | OutOfFuel => OutOfFuel
  end.

End Ops.
