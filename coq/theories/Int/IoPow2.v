(** C07: power-of-two radices (fmt/power_two.rs, parse/power_two.rs).
    The bit-packing parser (digit << bits, a digit may straddle two words) and the printers (shift and
    mask for one / two words, the word walk with straddling digits for large numbers) compute the
    positional specification, for every length, every log_radix <= word size, every word size. *)
From Dashu Require Import Base.Prelude Base.Words Int.IoSpec Int.IoModel Int.IoDigits Int.IoPrint Int.IoParse Int.IoRadix Int.IoBytes.
Open Scope Z_scope.

(* ---------------------------------------------------------------- bit lemmas *)
Lemma lor_disjoint b a e : 0 <= e -> 0 <= b < 2 ^ e -> a mod 2 ^ e = 0 -> Z.lor b a = b + a.
Proof.
  intros He Hb Ha.
  assert (L : Z.land b a = 0).
  { apply Z.bits_inj'. intros i Hi. rewrite Z.land_spec, Z.bits_0.
    destruct (Z.lt_ge_cases i e) as [Hlt|Hge].
    - rewrite <- (Z.mod_pow2_bits_low a e i) by lia. rewrite Ha, Z.bits_0. apply andb_false_r.
    - rewrite <- (Z.mod_small b (2 ^ e)) by lia. rewrite Z.mod_pow2_bits_high by lia. reflexivity. }
  rewrite <- Z.lxor_lor by exact L. symmetry. apply Z.add_nocarry_lxor. exact L.
Qed.

Lemma pow2_pos k : 0 <= k -> 0 < 2 ^ k.
Proof. intros. apply Z.pow_pos_nonneg; lia. Qed.

(** bits s .. s+l-1 of a number only depend on it modulo 2^(s+l) *)
Lemma slice_mod a s l : 0 <= s -> 0 <= l -> ((a mod 2 ^ (s + l)) / 2 ^ s) mod 2 ^ l = (a / 2 ^ s) mod 2 ^ l.
Proof.
  intros Hs Hl. pose proof (pow2_pos s Hs). pose proof (pow2_pos l Hl).
  rewrite Z.pow_add_r by lia. rewrite Z.rem_mul_r by lia.
  rewrite Z.add_comm, Z.mul_comm, Z.div_add_l by lia.
  rewrite (Z.div_small (a mod 2 ^ s)) by (apply Z.mod_pos_bound; lia).
  rewrite Z.add_0_r. apply Z.mod_mod. lia.
Qed.

Lemma mod_mod_pow2 a p q : 0 <= q <= p -> (a mod 2 ^ p) mod 2 ^ q = a mod 2 ^ q.
Proof.
  intros H. symmetry. apply Znumtheory.Zmod_div_mod; try (apply pow2_pos; lia).
  exists (2 ^ (p - q)). rewrite <- Z.pow_add_r by lia. f_equal. lia.
Qed.

Lemma digit_from_ascii_range r c d : digit_from_ascii r c = Some d -> 0 <= d < r.
Proof.
  unfold digit_from_ascii, digit_of_char.
  repeat match goal with |- context [?a <=? ?b] => destruct (Z.leb_spec a b) end; cbn [andb];
  try discriminate;
  match goal with |- context [?a <? r] => destruct (Z.ltb_spec a r); [|discriminate] end;
  intros E; inversion E; lia.
Qed.

(** little-endian positional value of digits of lr bits *)
Fixpoint le_dv (lr : Z) (ds : list Z) : Z := match ds with [] => 0 | d :: t => d + 2 ^ lr * le_dv lr t end.

Lemma le_dv_app lr a b : 0 <= lr -> le_dv lr (a ++ b) = le_dv lr a + 2 ^ (lr * len a) * le_dv lr b.
Proof.
  intros Hl. induction a as [|x t IH]; cbn [app le_dv].
  - unfold len. cbn [length Z.of_nat]. rewrite Z.mul_0_r, Z.pow_0_r. lia.
  - rewrite IH, len_cons. replace (lr * (len t + 1)) with (lr + lr * len t) by ring.
    rewrite Z.pow_add_r by (pose proof (len_nonneg t); nia). ring.
Qed.

Lemma le_dv_rev lr ds : 0 <= lr -> le_dv lr (rev ds) = digits_value (2 ^ lr) ds.
Proof.
  intros Hl. induction ds as [|d t IH]; [reflexivity|]. cbn [rev].
  rewrite le_dv_app by lia. cbn [le_dv]. rewrite IH, (value_cons (2 ^ lr)).
  replace (len (rev t)) with (len t) by (unfold len; rewrite rev_length; reflexivity).
  rewrite <- Z.pow_mul_r by (try apply len_nonneg; lia). ring.
Qed.

Lemma body_digits_app r a : forall b,
  body_digits r (a ++ b) = match body_digits r a, body_digits r b with Some x, Some y => Some (x ++ y) | _, _ => None end.
Proof.
  induction a as [|c t IH]; intros b; cbn [app body_digits].
  - destruct (body_digits r b); reflexivity.
  - destruct (c =? 95); [apply IH|]. rewrite IH. destruct (digit_from_ascii r c); [|reflexivity].
    destruct (body_digits r t); [|reflexivity]. destruct (body_digits r b); reflexivity.
Qed.

Lemma body_digits_rev r s : body_digits r (rev s) = option_map (@rev Z) (body_digits r s).
Proof.
  induction s as [|c t IH]; [reflexivity|]. cbn [rev]. rewrite body_digits_app, IH. cbn [body_digits].
  destruct (c =? 95).
  - destruct (body_digits r t); cbn [option_map]; [rewrite app_nil_r|]; reflexivity.
  - destruct (digit_from_ascii r c); destruct (body_digits r t); reflexivity.
Qed.

(* ------------------------------------------------------------------------------------------ *)
Section P2.
Variables w lr : Z.
Hypothesis lr_pos : 0 < lr.
Hypothesis lr_le_w : lr <= w.
Let r := 2 ^ lr.
Let w_pos : 0 < w. Proof. lia. Qed.

Definition ndig (s : list Z) : Z := len (filter nonus s).

Lemma ndig_nonneg s : 0 <= ndig s. Proof. apply len_nonneg. Qed.
Lemma ndig_us t : ndig (95 :: t) = ndig t. Proof. reflexivity. Qed.
Lemma ndig_other c t : (c =? 95) = false -> ndig (c :: t) = ndig t + 1.
Proof. intros H. unfold ndig. cbn [filter]. unfold nonus at 1. rewrite H. cbn [negb]. apply len_cons. Qed.
Lemma ndig_le_len s : ndig s <= len s.
Proof.
  unfold ndig, len. induction s as [|c t IH]; cbn [filter length]; [lia|].
  destruct (nonus c); cbn [length]; lia.
Qed.

(** one digit ORed in at bit position [bits] *)
Lemma or_digit word d bits : 0 <= bits -> 0 <= word < 2 ^ bits -> 0 <= d ->
  Z.lor word ((d * 2 ^ bits) mod Bw w) = word + (d * 2 ^ bits) mod Bw w.
Proof.
  intros Hb Hw Hd. apply (lor_disjoint word _ bits); [lia | exact Hw|].
  destruct (Z.le_gt_cases bits w) as [Hle|Hgt].
  - unfold Bw. rewrite mod_mod_pow2 by lia. apply Z.mod_mul. pose proof (pow2_pos bits Hb). lia.
  - (* bits > w: d * 2^bits is a multiple of B *)
    unfold Bw. replace bits with ((bits - w) + w) at 1 by lia. rewrite Z.pow_add_r, Z.mul_assoc by lia.
    rewrite Z.mod_mul by (pose proof (pow2_pos w); lia). apply Z.mod_0_l. pose proof (pow2_pos bits Hb). lia.
Qed.

(* ---------------------------------------------------------------- parse_word *)
Lemma p2_parse_word_correct s : forall word bits, 0 <= bits -> 0 <= word < 2 ^ bits -> bits + lr * ndig s <= w ->
  p2_parse_word w r lr s word bits =
  match body_digits r s with Some ds => Ok (word + 2 ^ bits * le_dv lr ds) | None => Err E_InvalidDigit end.
Proof.
  induction s as [|c t IH]; intros word bits Hb Hw Hfit; cbn [p2_parse_word body_digits].
  - cbn [le_dv]. f_equal. lia.
  - destruct (c =? 95) eqn:Ec.
    + apply Z.eqb_eq in Ec. subst c. apply IH; auto.
    + rewrite (ndig_other c t Ec) in Hfit. pose proof (ndig_nonneg t).
      destruct (digit_from_ascii r c) as [d|] eqn:Ed; [|reflexivity].
      pose proof (digit_from_ascii_range r c d Ed) as Hd. unfold r in Hd.
      assert (Hlt : d * 2 ^ bits < 2 ^ (bits + lr)).
      { rewrite Z.pow_add_r by lia. pose proof (pow2_pos bits Hb). nia. }
      assert (Hsm : (d * 2 ^ bits) mod Bw w = d * 2 ^ bits).
      { apply Z.mod_small. split; [pose proof (pow2_pos bits Hb); nia|]. unfold Bw.
        apply Z.lt_le_trans with (2 ^ (bits + lr)); [exact Hlt|]. apply Z.pow_le_mono_r; nia. }
      rewrite or_digit by lia. rewrite Hsm.
      rewrite IH; [| lia | rewrite Z.pow_add_r by lia; pose proof (pow2_pos bits Hb); nia | nia].
      destruct (body_digits r t) as [ds|]; [|reflexivity]. cbn [le_dv]. f_equal.
      rewrite Z.pow_add_r by lia. ring.
Qed.

(* ---------------------------------------------------------------- parse_large *)
Lemma value_snoc ws x : value w (ws ++ [x]) = value w ws + Bw w ^ len ws * x.
Proof. rewrite (Words.value_app w). cbn [value]. unfold Bw, B. ring. Qed.

Lemma p2_parse_large_correct s : forall buf word bits, 0 <= bits < w -> 0 <= word < 2 ^ bits ->
  match body_digits r s with
  | None => p2_parse_large w r lr s buf word bits = Err E_InvalidDigit
  | Some ds => exists ws, p2_parse_large w r lr s buf word bits = Ok ws /\
      value w ws = value w (rev buf) + Bw w ^ len buf * (word + 2 ^ bits * le_dv lr ds)
  end.
Proof.
  induction s as [|c t IH]; intros buf word bits Hb Hw; cbn [p2_parse_large body_digits].
  - eexists. split; [reflexivity|]. unfold rev_fast. rewrite rev_append_rev, app_nil_r. cbn [le_dv].
    destruct (Z.ltb_spec 0 bits).
    + cbn [rev]. rewrite value_snoc. replace (len (rev buf)) with (len buf) by (unfold len; now rewrite rev_length). ring.
    + assert (bits = 0) by lia. subst bits. rewrite Z.pow_0_r in Hw. assert (word = 0) by lia. subst. ring.
  - destruct (c =? 95) eqn:Ec; [apply IH; auto|].
    destruct (digit_from_ascii r c) as [d|] eqn:Ed; [|reflexivity].
    pose proof (digit_from_ascii_range r c d Ed) as Hd. unfold r in Hd.
    pose proof (pow2_pos bits ltac:(lia)) as Hpb. pose proof (pow2_pos lr ltac:(lia)) as Hpl.
    rewrite or_digit by lia.
    set (D := d * 2 ^ bits).
    assert (EB : Bw w = 2 ^ (w - bits) * 2 ^ bits) by (unfold Bw; rewrite <- Z.pow_add_r by lia; f_equal; lia).
    pose proof (pow2_pos (w - bits) ltac:(lia)) as Hpw.
    assert (Hmod : D mod Bw w = (d mod 2 ^ (w - bits)) * 2 ^ bits).
    { unfold D. rewrite EB. apply Z.mul_mod_distr_r; lia. }
    assert (Hdiv : D / Bw w = d / 2 ^ (w - bits)).
    { unfold D. rewrite EB. apply Z.div_mul_cancel_r; lia. }
    assert (HD : D = Bw w * (D / Bw w) + D mod Bw w) by (apply Z.div_mod; unfold Bw; pose proof (pow2_pos w); lia).
    destruct (Z.geb_spec (bits + lr) w) as [Hge|Hlt].
    + (* the word is full: push it, keep the high bits of the digit *)
      assert (Hb2 : 0 <= bits + lr - w < w) by lia.
      assert (Hw2 : 0 <= d / 2 ^ (w - bits) < 2 ^ (bits + lr - w)).
      { split; [apply Z.div_pos; lia|]. apply Z.div_lt_upper_bound; [lia|].
        rewrite <- Z.pow_add_r by lia. replace (w - bits + (bits + lr - w)) with lr by lia. lia. }
      specialize (IH ((word + D mod Bw w) :: buf) (d / 2 ^ (w - bits)) (bits + lr - w) Hb2 Hw2).
      destruct (body_digits r t) as [ds|]; [|exact IH].
      destruct IH as (ws & E & V). exists ws. split; [exact E|]. rewrite V. cbn [rev le_dv].
      rewrite value_snoc. replace (len (rev buf)) with (len buf) by (unfold len; now rewrite rev_length).
      rewrite len_cons, Z.pow_add_r, Z.pow_1_r by (try apply len_nonneg; lia).
      rewrite <- Hdiv.
      assert (E2 : Bw w * 2 ^ (bits + lr - w) = 2 ^ bits * 2 ^ lr).
      { unfold Bw. rewrite <- !Z.pow_add_r by lia. f_equal. lia. }
      replace (Bw w ^ len buf * Bw w * (D / Bw w + 2 ^ (bits + lr - w) * le_dv lr ds))
        with (Bw w ^ len buf * (Bw w * (D / Bw w) + (Bw w * 2 ^ (bits + lr - w)) * le_dv lr ds)) by ring.
      rewrite E2. fold D. nia.
    + assert (Hsm : D mod Bw w = D).
      { apply Z.mod_small. split; [unfold D; nia|]. unfold Bw, D.
        apply Z.lt_le_trans with (2 ^ (bits + lr)); [rewrite Z.pow_add_r by lia; nia | apply Z.pow_le_mono_r; lia]. }
      assert (Hb2 : 0 <= bits + lr < w) by lia.
      assert (Hw2 : 0 <= word + D mod Bw w < 2 ^ (bits + lr)).
      { rewrite Hsm. unfold D. rewrite Z.pow_add_r by lia. nia. }
      specialize (IH buf (word + D mod Bw w) (bits + lr) Hb2 Hw2).
      destruct (body_digits r t) as [ds|]; [|exact IH].
      destruct IH as (ws & E & V). exists ws. split; [exact E|]. rewrite V, Hsm. cbn [le_dv].
      rewrite Z.pow_add_r by lia. unfold D. ring.
Qed.

(** parse/power_two.rs parse: both paths give the positional value of the digits / InvalidDigit *)
Theorem parse_p2_correct s : Z.log2 r = lr -> parse_p2 w r s = pw r (filter nonus s).
Proof.
  intros Hlog. unfold parse_p2, log_radix. rewrite Hlog. unfold rev_fast. rewrite rev_append_rev, app_nil_r.
  unfold pw. rewrite <- body_digits_filter.
  destruct (Z.leb_spec (len s) (w / lr)) as [Hshort|Hlong].
  - rewrite p2_parse_word_correct.
    + rewrite body_digits_rev. destruct (body_digits r s) as [ds|]; cbn [option_map]; [|reflexivity].
      rewrite le_dv_rev by lia. rewrite Z.pow_0_r. f_equal. fold r. lia.
    + lia.
    + rewrite Z.pow_0_r. lia.
    + assert (ndig (rev s) <= len s).
      { pose proof (ndig_le_len (rev s)). unfold len in *. rewrite rev_length in *. lia. }
      pose proof (Z.mul_div_le w lr lr_pos). pose proof (ndig_nonneg (rev s)). nia.
  - pose proof (p2_parse_large_correct (rev s) [] 0 0 ltac:(lia) ltac:(rewrite Z.pow_0_r; lia)) as H.
    rewrite body_digits_rev in H. destruct (body_digits r s) as [ds|]; cbn [option_map] in H.
    + destruct H as (ws & E & V). rewrite E. cbn [rmap rbind]. f_equal. rewrite V.
      cbn [rev value]. unfold len. cbn [length Z.of_nat]. rewrite !Z.pow_0_r, le_dv_rev by lia. fold r. ring.
    + rewrite H. reflexivity.
Qed.

End P2.

(* ------------------------------------------------------------------------------------------ *)
Lemma is_pow2_log r : 2 <= r -> is_pow2 r = true -> r = 2 ^ Z.log2 r /\ 0 < Z.log2 r.
Proof.
  intros Hr H. unfold is_pow2 in H. apply Z.eqb_eq in H. split; [exact H|].
  assert (1 <= Z.log2 r) by (apply Z.log2_le_pow2; cbn; lia). lia.
Qed.

(** from_str_radix_no_sign for a power-of-two radix *)
Theorem body_asis_p2_correct w r s : 2 <= r -> r < Bw w -> is_pow2 r = true -> body_asis w r s = body_spec r s.
Proof.
  intros Hr Hlt Hp. destruct (is_pow2_log r Hr Hp) as [Er Hl].
  assert (Hlw : Z.log2 r <= w).
  { destruct (Z.le_gt_cases (Z.log2 r) w) as [H|H]; [exact H|exfalso].
    unfold Bw in Hlt. assert (2 ^ w <= 2 ^ Z.log2 r) by (apply Z.pow_le_mono_r; lia). lia. }
  unfold body_asis, body_spec. rewrite body_digits_filter, Hp.
  destruct (forallb (fun c => c =? 95) s) eqn:Eu.
  - rewrite all_us_filter by exact Eu. reflexivity.
  - set (lr := Z.log2 r) in *. 
    assert (Elog : Z.log2 (2 ^ lr) = lr) by (apply Z.log2_pow2; lia).
    clearbody lr. subst r.
    rewrite (parse_p2_correct w lr Hl Hlw _ Elog), (pw_strip_zeros (2 ^ lr) Hr). unfold pw.
    destruct (raw_digits (2 ^ lr) (filter nonus s)) as [ds|] eqn:Ed; [|reflexivity].
    destruct ds; [|reflexivity].
    apply raw_digits_length in Ed. apply not_all_us_filter in Eu.
    destruct (filter nonus s); [contradiction | discriminate].
Qed.

(** parse/mod.rs from_str_radix_no_sign, EVERY radix: the specification's value or error kind *)
Theorem body_asis_correct w r s : 0 < w -> w mod 2 = 0 -> 2 <= r -> r < Bw w -> body_asis w r s = body_spec r s.
Proof.
  intros Hw He Hr Hlt. destruct (is_pow2 r) eqn:Hp.
  - apply body_asis_p2_correct; assumption.
  - apply body_asis_np2_total; assumption.
Qed.

(** the public parsers: sign and radix-prefix front ends are shared between model and specification *)
Theorem from_str_radix_asis_correct w sg r s : 0 < w -> w mod 2 = 0 -> 36 < Bw w ->
  from_str_radix_asis w sg r s = from_str_radix_spec sg r s.
Proof.
  intros Hw He HB. unfold from_str_radix_asis, from_str_radix_spec, from_str_radix_gen.
  destruct (radix_valid r) eqn:Ev; [|reflexivity].
  unfold radix_valid in Ev. apply andb_prop in Ev. destruct Ev as [E1 E2]. apply Z.leb_le in E1. apply Z.leb_le in E2.
  destruct (strip_sign sg s) as [sgn b]. rewrite body_asis_correct by lia. reflexivity.
Qed.

Theorem from_str_prefix_asis_correct w sg default s : 0 < w -> w mod 2 = 0 -> 36 < Bw w -> 2 <= default <= 36 ->
  from_str_prefix_asis w sg default s = from_str_prefix_spec sg default s.
Proof.
  intros Hw He HB Hd. unfold from_str_prefix_asis, from_str_prefix_spec, from_str_prefix_gen.
  destruct (strip_sign sg s) as [sgn b].
  assert (Hr : 2 <= fst (strip_radix_prefix default b) <= 36).
  { unfold strip_radix_prefix.
    repeat match goal with |- context [match ?x with _ => _ end] => destruct x; cbn [fst]; try lia end. }
  destruct (strip_radix_prefix default b) as [r b']. cbn [fst] in Hr. rewrite body_asis_correct by lia. reflexivity.
Qed.

(** F03: before the repair only the empty text was refused: "_" parsed as 0 *)
Theorem body_asis_before_fix_refuted :
  body_asis_before_fix 64 10 [95] = Ok 0 /\ body_spec 10 [95] = Err E_NoDigits /\ body_asis 64 10 [95] = Err E_NoDigits /\
  body_asis_before_fix 64 16 [95; 95] = Ok 0 /\ body_asis 64 16 [95; 95] = Err E_NoDigits.
Proof. repeat split; vm_compute; reflexivity. Qed.

(* ------------------------------------------------------------------------------------------ *)
(** * printers *)
Section P2Print.
Variables w lr : Z.
Hypothesis lr_pos : 0 < lr.
Hypothesis lr_le_w : lr <= w.
Let r := 2 ^ lr.

Lemma r_ge_2' : 2 <= r.
Proof. unfold r. replace 2 with (2 ^ 1) at 1 by reflexivity. apply Z.pow_le_mono_r; lia. Qed.

(** digit i (from the least significant) and the j lowest digits, most significant first *)
Definition dig (x i : Z) : Z := (x / 2 ^ (i * lr)) mod 2 ^ lr.
Definition digs (x : Z) (j : nat) : list Z := rev (map (fun i => dig x (Z.of_nat i)) (seq 0 j)).

Lemma digs_S x j : digs x (S j) = dig x (Z.of_nat j) :: digs x j.
Proof. unfold digs. rewrite seq_S, map_app, rev_app_distr. reflexivity. Qed.

Lemma dig_shift x i : 0 <= i -> dig x (i + 1) = dig (x / r) i.
Proof.
  intros Hi. unfold dig, r. replace ((i + 1) * lr) with (lr + i * lr) by ring.
  rewrite Z.pow_add_r by nia. rewrite <- Z.div_div; [reflexivity | pose proof (pow2_pos lr); lia | apply pow2_pos; nia].
Qed.

Lemma digs_low x j : digs x (S j) = digs (x / r) j ++ [x mod r].
Proof.
  unfold digs. cbn [seq map rev]. rewrite <- seq_shift, map_map. f_equal.
  - f_equal. apply map_ext. intros i. rewrite Nat2Z.inj_succ.
    replace (Z.succ (Z.of_nat i)) with (Z.of_nat i + 1) by lia. apply dig_shift. lia.
  - unfold dig. cbn [Z.of_nat]. rewrite Z.mul_0_l, Z.pow_0_r, Z.div_1_r. reflexivity.
Qed.

Lemma digs_pad j : forall x, digs x j = digits_pad j r x.
Proof.
  induction j as [|j IH]; intros x; [reflexivity|]. rewrite digs_low, IH, digits_pad_S. reflexivity.
Qed.

Lemma digits_spec_single q : 0 < q < r -> digits_spec r q = [q].
Proof.
  intros Hq. symmetry. apply (digits_spec_unique r r_ge_2'); [lia | |].
  - split; [constructor; [lia | constructor]|]. right. exists q, []. split; [reflexivity | lia].
  - unfold digits_value. cbn [fold_left]. lia.
Qed.

Lemma pad_is_spec j x : r ^ Z.of_nat j <= x < r ^ Z.of_nat (S j) -> digits_pad (S j) r x = digits_spec r x.
Proof.
  intros Hx. pose proof r_ge_2' as Hr.
  assert (Hp : 0 < r ^ Z.of_nat j) by (apply Z.pow_pos_nonneg; lia).
  rewrite Nat2Z.inj_succ, Z.pow_succ_r in Hx by lia.
  set (q := x / r ^ Z.of_nat j). set (m := x mod r ^ Z.of_nat j).
  assert (Hq : 0 < q < r).
  { unfold q. split; [apply Z.div_str_pos; lia | apply Z.div_lt_upper_bound; lia]. }
  assert (Hm : 0 <= m < r ^ Z.of_nat j) by (apply Z.mod_pos_bound; lia).
  assert (Ex : x = q * r ^ Z.of_nat j + m) by (unfold q, m; pose proof (Z.div_mod x (r ^ Z.of_nat j)); lia).
  replace (S j) with (1 + j)%nat by reflexivity.
  rewrite (digits_pad_split r Hr 1 j x) by lia. fold q m.
  rewrite Ex at 1. rewrite (digits_spec_split r Hr q j m) by lia.
  f_equal. rewrite digits_spec_single by exact Hq.
  unfold digits_pad. cbn [digits_pad_acc]. f_equal. apply Z.mod_small. lia.
Qed.

Lemma p2_width_ok x : 0 <= x -> let j := p2_width lr x in
  1 <= j /\ (x = 0 \/ 0 < x /\ 2 ^ (lr * (j - 1)) <= x < 2 ^ (lr * j)).
Proof.
  intros Hx. unfold p2_width. destruct (Z.eq_dec x 0) as [->|NZ].
  - split; [lia | left; reflexivity].
  - assert (Hpos : 0 < x) by lia. pose proof (blen_spec x Hpos) as [Hlo Hhi]. pose proof (blen_pos x Hpos) as Hb.
    set (c := (blen x + lr - 1) / lr).
    pose proof (Z.div_mod (blen x + lr - 1) lr ltac:(lia)) as D. pose proof (Z.mod_pos_bound (blen x + lr - 1) lr ltac:(lia)) as M.
    fold c in D. assert (Hc : 1 <= c) by nia.
    rewrite Z.max_l by lia. split; [exact Hc | right]. split; [exact Hpos|]. split.
    + apply Z.le_trans with (2 ^ (blen x - 1)); [|exact Hlo]. apply Z.pow_le_mono_r; nia.
    + apply Z.lt_le_trans with (2 ^ blen x); [exact Hhi|]. apply Z.pow_le_mono_r; nia.
Qed.

(** the j = width digits are the specification digits *)
Lemma digs_width x : 0 <= x -> digs x (Z.to_nat (p2_width lr x)) = digits_spec r x.
Proof.
  intros Hx. destruct (p2_width_ok x Hx) as [Hj [->|(Hpos & Hlo & Hhi)]].
  - assert (E : p2_width lr 0 = 1).
    { unfold p2_width, blen. change (0 <=? 0) with true. cbn iota. rewrite Z.div_small by lia. reflexivity. }
    rewrite E. change (Z.to_nat 1) with 1%nat. rewrite digs_pad. unfold digits_pad. cbn [digits_pad_acc].
    rewrite Z.mod_0_l by (pose proof r_ge_2'; lia). reflexivity.
  - set (j := p2_width lr x) in *. rewrite digs_pad.
    destruct (Z.to_nat j) as [|k] eqn:Ek; [lia|]. apply pad_is_spec. unfold r.
    rewrite <- !Z.pow_mul_r by lia. replace (Z.of_nat (S k)) with j by lia. replace (Z.of_nat k) with (j - 1) by lia.
    split; assumption.
Qed.

(** PreparedWord / PreparedDword: shift and mask *)
Theorem p2_small_digits_correct x : 0 <= x -> p2_small_digits lr x = digits_spec r x.
Proof. intros Hx. rewrite <- digs_width by exact Hx. reflexivity. Qed.

(* ---------------------------------------------------------------- PreparedLarge::write *)
Lemma to_words_snoc k : forall x, to_words w (S k) x = to_words w k x ++ [(x / 2 ^ (w * Z.of_nat k)) mod 2 ^ w].
Proof.
  induction k as [|k IH]; intros x.
  - cbn [to_words app Z.of_nat]. rewrite Z.mul_0_r, Z.pow_0_r, Z.div_1_r. reflexivity.
  - change (to_words w (S (S k)) x) with (x mod B w :: to_words w (S k) (x / B w)). rewrite IH.
    change (to_words w (S k) x) with (x mod B w :: to_words w k (x / B w)). cbn [app]. f_equal. f_equal.
    replace (x / B w / 2 ^ (w * Z.of_nat k)) with (x / 2 ^ (w * Z.of_nat (S k))); [reflexivity|].
    unfold B. pose proof (pow2_pos w ltac:(lia)). pose proof (pow2_pos (w * Z.of_nat k) ltac:(nia)).
    rewrite Z.div_div by lia. rewrite <- Z.pow_add_r by nia. f_equal. f_equal. lia.
Qed.

Lemma digit_inword x word k bits j : 0 <= k -> 0 <= j -> lr <= bits -> bits + w * k = lr * (j + 1) ->
  word mod 2 ^ bits = (x / 2 ^ (w * k)) mod 2 ^ bits ->
  (word / 2 ^ (bits - lr)) mod 2 ^ lr = dig x j.
Proof.
  intros Hk Hj Hb Hsum Hinv.
  rewrite <- (slice_mod word (bits - lr) lr) by lia. replace (bits - lr + lr) with bits by lia.
  rewrite Hinv. replace bits with (bits - lr + lr) at 1 by lia. rewrite slice_mod by lia.
  unfold dig. rewrite Z.div_div by (try apply pow2_pos; try (pose proof (pow2_pos (w * k)); nia); nia).
  rewrite <- Z.pow_add_r by nia. f_equal. f_equal. f_equal. lia.
Qed.

Lemma digit_straddle x word k bits j : 0 <= x -> 0 <= k -> 0 <= j -> 0 <= bits < lr ->
  bits + w * (k + 1) = lr * (j + 1) ->
  word mod 2 ^ bits = (x / 2 ^ (w * (k + 1))) mod 2 ^ bits ->
  Z.lor ((word * 2 ^ (lr - bits)) mod Bw w) (((x / 2 ^ (w * k)) mod 2 ^ w) / 2 ^ (w - (lr - bits))) mod 2 ^ lr = dig x j.
Proof.
  intros Hx Hk Hj Hb Hsum Hinv. unfold Bw.
  set (e := lr - bits). set (b' := w - e). set (y := x / 2 ^ (w * k)). set (w' := y mod 2 ^ w).
  assert (He : 0 < e <= w) by (unfold e; lia). assert (Hb' : 0 <= b') by (unfold b'; lia).
  pose proof (pow2_pos e ltac:(lia)) as Pe. pose proof (pow2_pos b' Hb') as Pb. pose proof (pow2_pos w ltac:(lia)) as Pw.
  pose proof (pow2_pos bits ltac:(lia)) as Pbits. pose proof (pow2_pos lr ltac:(lia)) as Plr.
  assert (EW : 2 ^ w = 2 ^ e * 2 ^ b') by (rewrite <- Z.pow_add_r by lia; f_equal; unfold b'; lia).
  assert (EL : 2 ^ lr = 2 ^ bits * 2 ^ e) by (rewrite <- Z.pow_add_r by lia; f_equal; unfold e; lia).
  set (t := w' / 2 ^ b').
  assert (Ht : 0 <= t < 2 ^ e).
  { unfold t. pose proof (Z.mod_pos_bound y (2 ^ w) Pw). fold w' in H.
    split; [apply Z.div_pos; lia | apply Z.div_lt_upper_bound; lia]. }
  set (A := (word * 2 ^ e) mod 2 ^ w).
  assert (HA : A mod 2 ^ e = 0).
  { unfold A. rewrite mod_mod_pow2 by lia. apply Z.mod_mul. lia. }
  rewrite Z.lor_comm, (lor_disjoint t A e) by (try exact HA; lia).
  (* both sides modulo 2^lr *)
  assert (HAl : A mod 2 ^ lr = (word mod 2 ^ bits) * 2 ^ e).
  { unfold A. rewrite mod_mod_pow2 by lia. rewrite EL. apply Z.mul_mod_distr_r; lia. }
  rewrite <- Z.add_mod_idemp_r, HAl by lia.
  (* the specification digit *)
  unfold dig.
  assert (Ediv : x / 2 ^ (j * lr) = y / 2 ^ b').
  { unfold y. rewrite Z.div_div by (try (pose proof (pow2_pos (w * k)); nia); lia).
    rewrite <- Z.pow_add_r by nia. f_equal. f_equal. unfold b', e. lia. }
  rewrite Ediv.
  assert (Ey : y = (y / 2 ^ w * 2 ^ e) * 2 ^ b' + w').
  { pose proof (Z.div_mod y (2 ^ w) ltac:(lia)). unfold w'. rewrite EW in H at 1. lia. }
  rewrite Ey at 1. rewrite Z.div_add_l by lia. fold t.
  assert (HYl : (y / 2 ^ w * 2 ^ e) mod 2 ^ lr = ((y / 2 ^ w) mod 2 ^ bits) * 2 ^ e).
  { rewrite EL. apply Z.mul_mod_distr_r; lia. }
  assert (Eyw : x / 2 ^ (w * (k + 1)) = y / 2 ^ w).
  { unfold y. pose proof (pow2_pos (w * k) ltac:(nia)). rewrite Z.div_div by lia.
    rewrite <- Z.pow_add_r by nia. f_equal. f_equal. lia. }
  rewrite Eyw in Hinv.
  rewrite (Z.add_comm (y / 2 ^ w * 2 ^ e) t), <- (Z.add_mod_idemp_r t (y / 2 ^ w * 2 ^ e)) by lia.
  rewrite HYl, Hinv. reflexivity.
Qed.

Lemma p2_write_correct x : 0 <= x -> forall j f k word bits acc,
  0 <= bits -> bits + w * Z.of_nat k = lr * Z.of_nat j ->
  word mod 2 ^ bits = (x / 2 ^ (w * Z.of_nat k)) mod 2 ^ bits ->
  (j <= f)%nat ->
  p2_write w f lr word (rev (to_words w k x)) bits acc = rev acc ++ digs x j.
Proof.
  intros Hx. induction j as [|j IH]; intros f k word bits acc Hb Hsum Hinv Hf.
  - assert (bits = 0 /\ k = 0%nat) as [-> ->] by nia. cbn [to_words rev]. unfold digs. cbn [seq map rev].
    rewrite app_nil_r. destruct f; cbn [p2_write]; [|destruct (Z.ltb_spec 0 lr); [|lia]];
      unfold rev_fast; rewrite rev_append_rev; apply app_nil_r.
  - destruct f as [|f]; [lia|]. cbn [p2_write].
    destruct (Z.ltb_spec bits lr) as [Hlt|Hge].
    + destruct k as [|k]; [nia|]. rewrite to_words_snoc, rev_app_distr. cbn [rev app].
      rewrite IH; [| lia | lia | | lia].
      * cbn [rev]. rewrite <- app_assoc, digs_S. cbn [app]. f_equal. f_equal.
        apply digit_straddle; try lia.
        all: replace (w * (Z.of_nat k + 1)) with (w * Z.of_nat (S k)) by lia; exact Hinv.
      * apply mod_mod_pow2. lia.
    + rewrite IH; [| lia | lia | | lia].
      * cbn [rev]. rewrite <- app_assoc, digs_S. cbn [app]. f_equal. f_equal.
        apply (digit_inword x word (Z.of_nat k) bits (Z.of_nat j)); try lia. all: exact Hinv.
      * rewrite <- (mod_mod_pow2 word bits (bits - lr)) by lia. rewrite Hinv. apply mod_mod_pow2. lia.
Qed.

Theorem p2_large_digits_correct x : 0 < x -> p2_large_digits w lr x = digits_spec r x.
Proof.
  intros Hx. unfold p2_large_digits.
  pose proof (blen_spec x Hx) as [Hlo Hhi]. pose proof (blen_pos x Hx) as Hb.
  set (n := wlen w x).
  pose proof (Z.div_mod (blen x + w - 1) w ltac:(lia)) as D. pose proof (Z.mod_pos_bound (blen x + w - 1) w ltac:(lia)) as M.
  assert (En : n = (blen x + w - 1) / w) by reflexivity. rewrite <- En in D.
  assert (Hn : 1 <= n) by nia.
  destruct (Z.to_nat n) as [|k] eqn:Ek; [lia|]. assert (Ekz : Z.of_nat k = n - 1) by lia.
  unfold rev_fast at 1. rewrite rev_append_rev, app_nil_r, to_words_snoc, rev_app_distr. cbn [rev app].
  destruct (p2_width_ok x ltac:(lia)) as [Hj [?|(_ & Hwlo & Hwhi)]]; [lia|]. set (jz := p2_width lr x) in *.
  assert (Hjb : blen x <= lr * jz).
  { destruct (Z.le_gt_cases (blen x) (lr * jz)) as [H|H]; [exact H|exfalso].
    assert (2 ^ (lr * jz) <= 2 ^ (blen x - 1)) by (apply Z.pow_le_mono_r; nia). lia. }
  rewrite (p2_write_correct x ltac:(lia) (Z.to_nat jz)).
  - cbn [rev app]. apply digs_width. lia.
  - nia.
  - rewrite Z2Nat.id by lia. lia.
  - f_equal. apply Z.mod_small. split; [apply Z.div_pos; [lia | pose proof (pow2_pos (w * Z.of_nat k)); nia]|].
    apply Z.div_lt_upper_bound; [apply pow2_pos; nia|]. rewrite <- Z.pow_add_r by nia.
    apply Z.lt_le_trans with (2 ^ blen x); [exact Hhi|]. apply Z.pow_le_mono_r; nia.
  - lia.
Qed.

(** InRadixWriter::fmt_power_two: every path prints the specification digits *)
Theorem digits_p2_asis_correct x : 0 <= x -> Z.log2 r = lr -> digits_p2_asis w r x = digits_spec r x.
Proof.
  intros Hx Hlog. unfold digits_p2_asis, log_radix. rewrite Hlog.
  destruct (Z.ltb_spec x (Bw w * Bw w)) as [Hs|Hl].
  - apply p2_small_digits_correct. exact Hx.
  - apply p2_large_digits_correct. pose proof (pow2_pos w ltac:(lia)). unfold Bw in Hl. nia.
Qed.

End P2Print.

(** every radix, every magnitude: the digit generator prints the specification digits *)
Theorem digits_asis_correct w r x : 0 < w -> w mod 2 = 0 -> 2 <= r -> r < Bw w -> 0 <= x ->
  digits_asis w r x = digits_spec r x.
Proof.
  intros Hw He Hr Hlt Hx. unfold digits_asis. destruct (is_pow2 r) eqn:Hp.
  - destruct (is_pow2_log r Hr Hp) as [Er Hl].
    assert (Hlw : Z.log2 r <= w).
    { destruct (Z.le_gt_cases (Z.log2 r) w) as [H|H]; [exact H|exfalso].
      unfold Bw in Hlt. assert (2 ^ w <= 2 ^ Z.log2 r) by (apply Z.pow_le_mono_r; lia). lia. }
    set (lr := Z.log2 r) in *. assert (Elog : Z.log2 (2 ^ lr) = lr) by (apply Z.log2_pow2; lia).
    clearbody lr. subst r. apply digits_p2_asis_correct; assumption.
  - apply digits_np2_asis_total; assumption.
Qed.
