(** C12 round 5 - C12's own value-level nth_root model runs the regenerated match-on-n table of root_ops.rs *)
From Coq Require Import List.
From Dashu Require Import Base.Prelude Int.GrlSpec Int.GrlModel Int.GrlDispatch.
From DashuGen Require Import GrlDispatchGen.
Open Scope Z_scope.

Theorem nth_root_asis_is_table : forall fuel x n,
  nth_root_asis fuel x n =
  run_nth (Ok x) (Ok (Z.sqrt x))
          (if bit_len x =? 0 then Ok 0 else if bit_len x <=? n then Ok 1 else newton_root fuel x n)
          (lookup_n nth_root_dispatch_gen n).
Proof. intros. rewrite <- nth_dispatch_is_source. reflexivity. Qed.
