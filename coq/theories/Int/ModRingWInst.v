(** C13 (round 5) - the runs of the oracle at ANY word size w (the 64-bit instances of ModRingInst.v / ModRingConvInst.v /
    ModRingLehmerInst.v / ModRingReducerWords.v / ModRingClone.v with the word size as a parameter): the correspondence run
    evaluates them at the word size of the build (64, and 32 for force_bits="32").  `g<name> w` is `<name>` with 64 replaced by w
    (g<name> 64 = <name> by computation: ModRingWInstProofs.v).  Definitions only. *)
From Dashu Require Import Base.Prelude Base.Words Int.RingMul Int.DivWordModel Int.DivNumModular Int.DivSrcInst
  Int.ModRingSpec Int.ModRingPowModel Int.ModRingModel Int.ModRingInst Int.ModRingNumModularDefs Int.ModRingWords Int.ModRingConv
  Int.ModRingGcdSmall Int.GrlLehmer Int.ModRingLehmer Int.ModRingReducerWords Int.ModRingClone.
From DashuGen Require Import Params.
Open Scope Z_scope.

Section W.
Variable w : Z.

Definition gex_3by2 (d a_lo a_hi : Z) : Z * Z := ((a_lo + 2 ^ w * a_hi) / d, (a_lo + 2 ^ w * a_hi) mod d).

Definition gi_new := new_ring w.
Definition gi_reduce := reduce_asis w ex_2by1 gex_3by2.
Definition gi_neg := neg_asis.
Definition gi_add := add_asis w.
Definition gi_sub := sub_asis w.
Definition gi_dbl := dbl_asis w.
Definition gi_mul := mul_asis w ex_2by1 gex_3by2.
Definition gi_sqr := sqr_asis w ex_2by1 gex_3by2.
Definition gi_pow := pow_asis w ex_2by1 gex_3by2.
Definition gi_pow_prefix := pow_asis_prefix w ex_2by1 gex_3by2.
Definition gi_inv := inv_asis w ex_invm ex_gcd_ext.
Definition gi_div := div_asis w ex_2by1 gex_3by2 ex_invm ex_gcd_ext.
Definition gi_eq := eq_asis.
Definition gi_residue := residue_asis.

Definition gi_bin (o : binop) : reduced -> reduced -> result reduced :=
  match o with OAdd => gi_add | OSub => gi_sub | OMul => gi_mul | ODiv => gi_div end.
Definition gi_un (o : unop) : reduced -> result reduced :=
  match o with ONeg => gi_neg | ODbl => gi_dbl | OSqr => gi_sqr end.

(** composite runs of the as-is model *)
Definition grun_reduce (m a : Z) : result (Z * Z) :=
  rbind (gi_new 0 m) (fun r => rbind (gi_reduce r a) (fun x =>
  rbind (gi_residue x) (fun v => Ok (v, modulus_asis x)))).

Definition grun_bin (o : binop) (id1 id2 m1 m2 a b : Z) : result Z :=
  rbind (gi_new id1 m1) (fun r1 => rbind (gi_new id2 m2) (fun r2 =>
  rbind (gi_reduce r1 a) (fun x => rbind (gi_reduce r2 b) (fun y =>
  rbind (gi_bin o x y) gi_residue)))).

Definition grun_un (o : unop) (m a : Z) : result Z :=
  rbind (gi_new 0 m) (fun r => rbind (gi_reduce r a) (fun x => rbind (gi_un o x) gi_residue)).

Definition grun_pow (m a e : Z) : result Z :=
  rbind (gi_new 0 m) (fun r => rbind (gi_reduce r a) (fun x => rbind (gi_pow x e) gi_residue)).

Definition grun_pow_prefix (m a e : Z) : result Z :=
  rbind (gi_new 0 m) (fun r => rbind (gi_reduce r a) (fun x => rbind (gi_pow_prefix x e) gi_residue)).

Definition grun_inv (m a : Z) : result (option Z) :=
  rbind (gi_new 0 m) (fun r => rbind (gi_reduce r a) (fun x => rbind (gi_inv x) (fun o =>
  match o with
  | None => Ok None
  | Some y => rbind (gi_residue y) (fun v => Ok (Some v))
  end))).

Definition grun_eq (id1 id2 m1 m2 a b : Z) : result bool :=
  rbind (gi_new id1 m1) (fun r1 => rbind (gi_new id2 m2) (fun r2 =>
  rbind (gi_reduce r1 a) (fun x => rbind (gi_reduce r2 b) (fun y => gi_eq x y)))).

(** the Reducer implementation: results as (residue, check, raw) *)
Definition gi_transform := rd_transform w ex_2by1 gex_3by2.

Definition grd_out (strict : bool) (r : ring) (t : Z) : Z * bool * Z :=
  (rd_residue r t, rd_check_with w strict r t, t).

Definition grun_rd (strict : bool) (o : rdop) (m a b : Z) : result (Z * bool * Z) :=
  rbind (gi_new 0 m) (fun r => rbind (gi_transform r a) (fun x =>
  match o with
  | RTransform => Ok (grd_out strict r x)
  | RAdd => rbind (gi_transform r b) (fun y => rbind (rd_add_with w strict r x y) (fun z => Ok (grd_out strict r z)))
  | RSub => rbind (gi_transform r b) (fun y => rbind (rd_sub r x y) (fun z => Ok (grd_out strict r z)))
  | RMul => rbind (gi_transform r b) (fun y => rbind (rd_mul w ex_2by1 gex_3by2 r x y) (fun z => Ok (grd_out strict r z)))
  | RDbl => rbind (rd_dbl_with w strict r x) (fun z => Ok (grd_out strict r z))
  | RNeg => rbind (rd_neg r x) (fun z => Ok (grd_out strict r z))
  | RSqr => rbind (rd_sqr w ex_2by1 gex_3by2 r x) (fun z => Ok (grd_out strict r z))
  | RPow => rbind (rd_pow w ex_2by1 gex_3by2 r x b) (fun z => Ok (grd_out strict r z))
  end)).

Definition grun_rd_inv (m a : Z) : result (option (Z * bool * Z)) :=
  rbind (gi_new 0 m) (fun r => rbind (gi_transform r a) (fun x =>
  rbind (rd_inv w ex_invm ex_gcd_ext r x) (fun o =>
  Ok (match o with Some z => Some (grd_out true r z) | None => None end)))).

Definition grun_rd_check (strict : bool) (m t : Z) : result bool :=
  rbind (gi_new 0 m) (fun r => Ok (rd_check_with w strict r t)).

(** what [check] has to answer: t is the pre-shifted form of some residue of the ring *)
Definition grd_check_spec (m t : Z) : result bool :=
  rbind (gi_new 0 m) (fun r => Ok ((0 <=? t) && (t mod 2 ^ r_shift r =? 0) && (t / 2 ^ r_shift r <? m))).

Definition grun_rd_modulus (m : Z) : result Z := rbind (gi_new 0 m) (fun r => Ok (rd_modulus r)).

Definition gKM : list Z -> list Z -> result (list Z) :=
  multiply w (Z.to_nat mul_threshold_simple) (Z.to_nat mul_threshold_karatsuba) (Z.to_nat mul_simple_chunk_len).
Definition gKS : list Z -> result (list Z) :=
  sqr w (Z.to_nat mul_threshold_simple) (Z.to_nat mul_threshold_karatsuba) (Z.to_nat sqr_max_len_simple).
Definition gKD (lhs rhs : list Z) : result (list Z * bool) :=
  div_rem_in_place w (nm3by2 w) (c01_mul_sub w) (Z.to_nat div_threshold_simple) (fuel_for lhs) lhs rhs.

(** ---------------- single / double word rings with num-modular as transcribed ---------------- *)
Definition gN2 := nm2by1 w.
Definition gN3 := nm3by2 w.

Definition gn_from_ubig (r : ring) (x : Z) : result reduced :=
  match r_kind r with
  | KSingle => rbind (ws_from_ubig w (nm1by1 w) gN2 r x) (mk r)
  | KDouble => rbind (wd_from_ubig w (nm2by2 w) gN3 (nm4by2 w) r x) (mk r)
  | KLarge => Panic Undocumented          (* not used: multi-word rings run on word lists *)
  end.
Definition gn_reduce (r : ring) (a : Z) : result reduced :=
  if 0 <=? a then gn_from_ubig r a else rbind (gn_from_ubig r (- a)) neg_asis.
Definition gn_transform (r : ring) (x : Z) : result Z :=
  match r_kind r with
  | KSingle => ws_from_ubig w (nm1by1 w) gN2 r x
  | KDouble => wd_from_ubig w (nm2by2 w) gN3 (nm4by2 w) r x
  | KLarge => Panic Undocumented
  end.

Definition gn_bin (o : binop) (x y : reduced) : result reduced :=
  match o with
  | OAdd => add_asis w x y | OSub => sub_asis w x y | OMul => mul_asis w gN2 gN3 x y
  | ODiv => div_asis w gN2 gN3 nm_finv ex_gcd_ext x y
  end.
Definition gn_un (o : unop) (x : reduced) : result reduced :=
  match o with ONeg => neg_asis x | ODbl => dbl_asis w x | OSqr => sqr_asis w gN2 gN3 x end.

(** ---------------- multi-word rings on word lists ---------------- *)
Definition gw_reduce (R : lring) (a : Z) : result (list Z) := wl_into_ring_ibig w gKD R a.

(** `&self / &rhs`: rhs.inv(), then `self * inv_rhs` = inv_rhs.mul_assign(self) *)
Definition gw_div (R : lring) (a b : list Z) : result (list Z) :=
  rbind (wl_inv w ex_gcd_ext R b) (fun o =>
    match o with None => Panic NonInvertible | Some ib => wl_mul_in_place w gKM gKS gKD R ib a end).

Definition gw_bin (o : binop) (R : lring) (x y : list Z) : result (list Z) :=
  match o with
  | OAdd => wl_add_in_place w R x y | OSub => wl_sub_in_place w R x y
  | OMul => wl_mul_in_place w gKM gKS gKD R x y | ODiv => gw_div R x y
  end.
Definition gw_un (o : unop) (R : lring) (x : list Z) : result (list Z) :=
  match o with ONeg => wl_neg w R x | ODbl => wl_dbl w R x | OSqr => wl_sqr w gKS gKD R x end.

Definition gw_residue (R : lring) (x : list Z) : result Z := rbind (wl_residue w R x) (fun l => Ok (Words.value w l)).
Definition gw_modulus (R : lring) : result Z := rbind (wl_divisor w R) (fun l => Ok (Words.value w l)).

Definition gis_large (m : Z) : bool := 2 ^ w * 2 ^ w <=? m.

(** ---------------- composite runs (the same shape as run_* of ModRingInst.v) ---------------- *)
Definition ghrun_reduce (m a : Z) : result (Z * Z) :=
  if gis_large m then
    rbind (wl_new w m) (fun R => rbind (gw_reduce R a) (fun x => rbind (gw_residue R x) (fun v =>
    rbind (gw_modulus R) (fun md => Ok (v, md)))))
  else
    rbind (gi_new 0 m) (fun r => rbind (gn_reduce r a) (fun x => rbind (residue_asis x) (fun v => Ok (v, modulus_asis x)))).

Definition ghrun_bin (o : binop) (m a b : Z) : result Z :=
  if gis_large m then
    rbind (wl_new w m) (fun R => rbind (gw_reduce R a) (fun x => rbind (gw_reduce R b) (fun y =>
    rbind (gw_bin o R x y) (gw_residue R))))
  else
    rbind (gi_new 0 m) (fun r => rbind (gn_reduce r a) (fun x => rbind (gn_reduce r b) (fun y =>
    rbind (gn_bin o x y) residue_asis))).

Definition ghrun_un (o : unop) (m a : Z) : result Z :=
  if gis_large m then
    rbind (wl_new w m) (fun R => rbind (gw_reduce R a) (fun x => rbind (gw_un o R x) (gw_residue R)))
  else
    rbind (gi_new 0 m) (fun r => rbind (gn_reduce r a) (fun x => rbind (gn_un o x) residue_asis)).

Definition ghrun_pow (m a e : Z) : result Z :=
  if gis_large m then
    rbind (wl_new w m) (fun R => rbind (gw_reduce R a) (fun x => rbind (wl_pow w gKM gKS gKD R x e) (gw_residue R)))
  else
    rbind (gi_new 0 m) (fun r => rbind (gn_reduce r a) (fun x => rbind (pow_asis w gN2 gN3 x e) residue_asis)).

Definition ghrun_inv (m a : Z) : result (option Z) :=
  if gis_large m then
    rbind (wl_new w m) (fun R => rbind (gw_reduce R a) (fun x => rbind (wl_inv w ex_gcd_ext R x) (fun o =>
    match o with None => Ok None | Some y => rbind (gw_residue R y) (fun v => Ok (Some v)) end)))
  else
    rbind (gi_new 0 m) (fun r => rbind (gn_reduce r a) (fun x => rbind (inv_asis w nm_finv ex_gcd_ext x) (fun o =>
    match o with None => Ok None | Some y => rbind (residue_asis y) (fun v => Ok (Some v)) end))).

Definition ghrun_eq (m a b : Z) : result bool :=
  if gis_large m then
    rbind (wl_new w m) (fun R => rbind (gw_reduce R a) (fun x => rbind (gw_reduce R b) (fun y => Ok (words_eqb x y))))
  else
    rbind (gi_new 0 m) (fun r => rbind (gn_reduce r a) (fun x => rbind (gn_reduce r b) (fun y => eq_asis x y))).

(** Reducer::transform: the raw (pre-shifted) form *)
Definition ghrun_transform (m a : Z) : result Z :=
  if gis_large m then rbind (wl_new w m) (fun R => wl_transform w gKD R a)
  else rbind (gi_new 0 m) (fun r => gn_transform r a).

Definition gw_div_src (R : lring) (a b : list Z) : result (list Z) :=
  rbind (wl_inv w (gcd_src w) R b) (fun o =>
    match o with None => Panic NonInvertible | Some ib => wl_mul_in_place w gKM gKS gKD R ib a end).

Definition ghrun_inv_src (m a : Z) : result (option Z) :=
  if gis_large m then
    rbind (wl_new w m) (fun R => rbind (gw_reduce R a) (fun x => rbind (wl_inv w (gcd_src w) R x) (fun o =>
    match o with None => Ok None | Some y => rbind (gw_residue R y) (fun v => Ok (Some v)) end)))
  else ghrun_inv m a.

Definition ghrun_div_src (m a b : Z) : result Z :=
  if gis_large m then
    rbind (wl_new w m) (fun R => rbind (gw_reduce R a) (fun x => rbind (gw_reduce R b) (fun y =>
    rbind (gw_div_src R x y) (gw_residue R))))
  else ghrun_bin ODiv m a b.

(** what the gcd code itself returned on (modulus, residue): branch (1 word / 2 words / Lehmer), g, |b|, sign - a Panic
    here is a debug assertion or checked word operation of the gcd code (proved impossible: C13_gcd_ext_src) *)
Definition ghrun_gcd_probe (m a : Z) : result (Z * Z * Z * sign) :=
  let r := a mod m in
  if r =? 0 then Ok (0, m, 0, Positive)
  else rbind (gcd_ext_src w m r) (fun '(g, b, s) => Ok (gcd_src_branch w r, g, b, s)).

Definition gh_reduce_once (R : lring) (r : ring) (t : Z) : result Z :=
  match r_kind r with KLarge => wl_rd_reduce_once w true R r t | _ => rd_reduce_once_with w true r t end.
Definition gh_reduce_negate (R : lring) (r : ring) (t : Z) : result Z :=
  match r_kind r with KLarge => wl_rd_reduce_negate w R t | _ => rd_reduce_negate r t end.

Definition ghrun_rd_lin (o : rdop) (m a b : Z) : result Z :=
  rbind (gi_new 0 m) (fun r =>
  rbind (match r_kind r with KLarge => wl_new w m | _ => Ok (mklring [] 0) end) (fun R =>
  rbind (gi_transform r a) (fun x => rbind (gi_transform r b) (fun y =>
  match o with
  | RAdd => gh_reduce_once R r (x + y)
  | RDbl => gh_reduce_once R r (x * 2)
  | RSub => if y <=? x then Ok (x - y) else gh_reduce_negate R r (y - x)
  | RNeg => if x =? 0 then Ok x else gh_reduce_negate R r x
  | _ => Panic Undocumented
  end)))).

Definition grun_clone_from (m1 m2 a b c : Z) : result (Z * Z * bool * Z) :=
  rbind (gi_new 1 m1) (fun r1 => rbind (gi_new 2 m2) (fun r2 =>
  rbind (gi_reduce r1 a) (fun x => rbind (gi_reduce r2 b) (fun y =>
  let y' := clone_from_asis y x in
  rbind (gi_residue y') (fun res => rbind (gi_eq y' x) (fun e =>
  rbind (gi_reduce r1 c) (fun z => rbind (gi_add y' z) (fun s => rbind (gi_residue s) (fun sv =>
  Ok (modulus_asis y', res, e, sv)))))))))).

End W.
