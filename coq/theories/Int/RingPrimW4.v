(** C01 round 4 (L1): Repr::from_unsigned at word level.  A primitive that fits a double word stays inline
    (x.try_into::<DoubleWord>() -> from_dword); a wider one (u128 with 32-bit words: the only case in the builds) goes
    through its little-endian bytes and Repr::from_le_bytes_large::<false> (convert.rs): one word per full chunk of
    WORD_BYTES bytes (Word::from_le_bytes), one for the zero-padded remainder (word_from_le_bytes_partial::<false>),
    then Repr::from_buffer.  Bytes, their little-endian value and le_bytes_n are those of C07 (Int/IoSpec.v).
    Definitions only. *)
From Dashu Require Import Base.Prelude Base.Words Int.RingAdd Int.RingMul Int.RingOps Int.IoSpec.
Open Scope Z_scope.

Section PrimW4.
Variable w : Z.

(** bytes.chunks_exact(k) followed by chunks.remainder(); [fuel] bounds the number of chunks *)
Fixpoint chunk_words (fuel k : nat) (bs : list Z) : list Z :=
  match fuel with
  | O => []
  | S f => match bs with
           | [] => []
           | _ => le_value (firstn k bs) :: chunk_words f k (skipn k bs)
           end
  end.

Definition from_le_bytes_large_w (bs : list Z) : trepr :=
  from_buffer w (chunk_words (length bs) (Z.to_nat (w / 8)) bs).

(** Repr::from_unsigned::<T> for a primitive type T of [nbytes] bytes *)
Definition repr_from_unsigned_w (nbytes : nat) (x : Z) : trepr :=
  if x <? B w * B w then Small x else from_le_bytes_large_w (le_bytes_n nbytes x).

End PrimW4.
