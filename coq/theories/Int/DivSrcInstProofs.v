(** C02 - unconditional corollaries: with num-modular's primitives replaced by their as-is models
    (proved exact in DivNumModularProofs.v) and mul::add_signed_mul replaced by C01's as-is model
    (proved in RingDispatchProofs.v), the division of two magnitudes through the whole size dispatch
    of div_ops.rs / div_const.rs is floor division - no contract is left as a hypothesis.
    [nm_*]: any word size w > 0, the multiplication kernel still a contract.
    [s_*] : every word size w >= 8 (C01's range), nothing assumed. *)
From Dashu Require Import Base.Prelude Base.Words Int.DivWordModel Int.DivWordProofs Int.DivSimpleProofs
  Int.DivLargeProofs Int.DivDCProofs Int.DivReprProofs Int.DivDCTotal Int.DivConstProofs Int.DivContracts
  Int.DivNumModular Int.DivNumModularProofs Int.RingMul Int.RingMulProofs Int.RingDispatchProofs Int.DivSrcInst.
From DashuGen Require Import Params.
Open Scope Z_scope.

Lemma Ts_ge : (2 <= Ts)%nat.
Proof. unfold Ts, div_threshold_simple. lia. Qed.

(** *** num-modular instantiated, any word size *)
Section NM.
Variable w : Z.
Hypothesis w_pos : 0 < w.
Variable mul_sub : list Z -> list Z -> list Z -> list Z * Z.
Hypothesis mul_sub_ok : contract_mul_sub w mul_sub.
Variable T : nat.
Hypothesis T_ge : (2 <= T)%nat.

Theorem nm_div_rem_in_place_correct fuel lhs rhs : kernel_pre w lhs rhs -> (length rhs < fuel)%nat ->
  exists res c, div_rem_in_place w (nm3by2 w) mul_sub T fuel lhs rhs = Ok (res, c) /\ kernel_post w lhs rhs res c.
Proof. apply (div_rem_in_place_correct w w_pos (nm3by2 w) (nm3by2_contract w w_pos) mul_sub mul_sub_ok T T_ge). Qed.

Theorem nm_repr_div_rem_correct a b : 0 <= a -> 0 < b ->
  repr_div_rem w (nm2by1 w) (nm3by2 w) (nm4by2 w) mul_sub T a b = Ok (a / b, a mod b).
Proof.
  apply (repr_div_rem_correct w w_pos (nm3by2 w) (nm3by2_contract w w_pos) mul_sub mul_sub_ok T T_ge
           (nm2by1 w) (nm4by2 w) (nm2by1_contract w w_pos) (nm4by2_contract w w_pos)).
Qed.

Theorem nm_repr_rem_correct a b : 0 <= a -> 0 < b ->
  repr_rem w (nm1by1 w) (nm2by1 w) (nm2by2 w) (nm3by2 w) (nm4by2 w) mul_sub T a b = Ok (a mod b).
Proof.
  apply (repr_rem_correct w w_pos (nm1by1 w) (nm2by1 w) (nm2by2 w) (nm3by2 w) (nm4by2 w)
           (nm1by1_contract w) (nm2by1_contract w w_pos) (nm2by2_contract w)
           (nm3by2_contract w w_pos) (nm4by2_contract w w_pos) mul_sub mul_sub_ok T T_ge).
Qed.

Theorem nm_const_div_rem_correct a d : 0 <= a -> 0 < d ->
  const_div_rem w (nm2by1 w) (nm3by2 w) (nm4by2 w) mul_sub T a d = Ok (a / d, a mod d).
Proof.
  apply (const_div_rem_correct w w_pos (nm2by1 w) (nm3by2 w) (nm4by2 w) (nm2by1_contract w w_pos)
           (nm3by2_contract w w_pos) (nm4by2_contract w w_pos) mul_sub mul_sub_ok T T_ge).
Qed.

Theorem nm_const_rem_correct a d : 0 <= a -> 0 < d ->
  const_rem w (nm1by1 w) (nm2by1 w) (nm2by2 w) (nm3by2 w) (nm4by2 w) mul_sub T a d = Ok (a mod d).
Proof.
  apply (const_rem_correct w w_pos (nm1by1 w) (nm2by1 w) (nm2by2 w) (nm3by2 w) (nm4by2 w)
           (nm1by1_contract w) (nm2by1_contract w w_pos) (nm2by2_contract w)
           (nm3by2_contract w w_pos) (nm4by2_contract w w_pos) mul_sub mul_sub_ok T T_ge).
Qed.

End NM.

(** *** the multiplication kernel instantiated by C01's model: word sizes w >= 8 *)
Section SRC.
Variable w : Z.
Hypothesis w_ge : 8 <= w.
Let w_pos : 0 < w. Proof. lia. Qed.

Theorem c01_mul_sub_contract : contract_mul_sub w (c01_mul_sub w).
Proof.
  intros c a b c' k Hc Ha Hb L E.
  destruct (add_signed_mul_source_ok w w_ge c Negative a b) as (r & carry & E1 & Lr & Wr & _ & V).
  { repeat split; assumption. }
  unfold c01_mul_sub in E. fold src_T_simple src_T_kara src_CHUNK in E. rewrite E1 in E.
  inversion E; subst c' k; clear E.
  split; [exact Wr|]. split; [exact Lr|]. cbn [sgnz] in V. lia.
Qed.

Theorem s_div_rem_in_place_correct lhs rhs : kernel_pre w lhs rhs ->
  exists res c, s_div_rem_in_place w (S (length lhs)) lhs rhs = Ok (res, c) /\ kernel_post w lhs rhs res c.
Proof.
  intros Hpre. apply (nm_div_rem_in_place_correct w w_pos _ c01_mul_sub_contract Ts Ts_ge); [exact Hpre|].
  destruct Hpre as (_ & _ & _ & Hl & _). lia.
Qed.

Theorem s_repr_div_rem_correct a b : 0 <= a -> 0 < b -> s_repr_div_rem w a b = Ok (a / b, a mod b).
Proof. apply (nm_repr_div_rem_correct w w_pos _ c01_mul_sub_contract Ts Ts_ge). Qed.

Theorem s_repr_div_correct a b : 0 <= a -> 0 < b -> s_repr_div w a b = Ok (a / b).
Proof.
  intros Ha Hb. unfold s_repr_div, repr_div. fold (s_repr_div_rem w a b).
  rewrite (s_repr_div_rem_correct a b Ha Hb). reflexivity.
Qed.

Theorem s_repr_rem_correct a b : 0 <= a -> 0 < b -> s_repr_rem w a b = Ok (a mod b).
Proof. apply (nm_repr_rem_correct w w_pos _ c01_mul_sub_contract Ts Ts_ge). Qed.

Theorem s_const_div_rem_correct a d : 0 <= a -> 0 < d -> s_const_div_rem w a d = Ok (a / d, a mod d).
Proof. apply (nm_const_div_rem_correct w w_pos _ c01_mul_sub_contract Ts Ts_ge). Qed.

Theorem s_const_rem_correct a d : 0 <= a -> 0 < d -> s_const_rem w a d = Ok (a mod d).
Proof. apply (nm_const_rem_correct w w_pos _ c01_mul_sub_contract Ts Ts_ge). Qed.

(** everything at once: DivRem / Div / Rem of two magnitudes and the ConstDivisor paths, as the source
    computes them (every kernel transcribed, nothing assumed), are floor division; in particular a
    prepared ConstDivisor gives the same quotient and remainder as plain division *)
Theorem s_division_unconditional a b : 0 <= a -> 0 < b ->
  s_repr_div_rem w a b = Ok (a / b, a mod b) /\ s_repr_div w a b = Ok (a / b) /\ s_repr_rem w a b = Ok (a mod b) /\
  s_const_div_rem w a b = s_repr_div_rem w a b /\ s_const_rem w a b = s_repr_rem w a b.
Proof.
  intros Ha Hb.
  rewrite (s_repr_div_rem_correct a b Ha Hb), (s_repr_div_correct a b Ha Hb), (s_repr_rem_correct a b Ha Hb),
          (s_const_div_rem_correct a b Ha Hb), (s_const_rem_correct a b Ha Hb).
  repeat split; reflexivity.
Qed.

End SRC.

(** the zero divisor is the DivideBy0 panic at word level too (all instances) *)
Lemma s_zero_divisor w a : s_repr_div_rem w a 0 = Panic DivideBy0 /\ s_repr_rem w a 0 = Panic DivideBy0 /\
  s_const_div_rem w a 0 = Panic DivideBy0 /\ s_const_rem w a 0 = Panic DivideBy0.
Proof. repeat split; reflexivity. Qed.

(** non-vacuity: run inside Coq at w = 64 with a divide-and-conquer sized pair (divisor 40 words,
    quotient 41 words: Burnikel-Ziegler with C01's multiplier and the reciprocal 3-by-2 division) *)
Example s_repr_div_rem_example :
  let b := 2 ^ (64 * 40 - 3) + 2 ^ 448 - 1 in let a := (2 ^ (64 * 41) - 12345) * b + (b - 7) in
  s_repr_div_rem 64 a b = Ok (2 ^ (64 * 41) - 12345, b - 7).
Proof. vm_compute. reflexivity. Qed.
