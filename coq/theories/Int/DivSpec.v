(** C02 - integer division: specifications (what the property demands, as mathematics on Z) and the
    sign layer of the implementation (the macro bodies of integer/src/div_ops.rs, regenerated into
    DashuGen.SignTables on every run, wrapped with the zero-divisor panic of the magnitude layer).
    Definitions only; proofs are in DivSign.v. *)
From Dashu Require Import Base.Prelude.
From DashuGen Require Import SignTables.
Open Scope Z_scope.

(** ** Specifications *)

(** `/`, `%`, div_rem: truncation toward zero, remainder with the sign of the dividend *)
Definition trunc_div_rem_spec (a b : Z) : result (Z * Z) :=
  if b =? 0 then Panic DivideBy0 else Ok (Z.quot a b, Z.rem a b).

(** Euclidean forms: 0 <= r < |b| *)
Definition euclid_rem (a b : Z) : Z := a mod Z.abs b.
Definition euclid_quot (a b : Z) : Z := Z.sgn b * (a / Z.abs b).
Definition euclid_div_rem_spec (a b : Z) : result (Z * Z) :=
  if b =? 0 then Panic DivideBy0 else Ok (euclid_quot a b, euclid_rem a b).

Definition is_multiple_of_spec (a b : Z) : result bool :=
  if b =? 0 then Panic DivideBy0 else Ok (Z.rem a b =? 0).

(** the call forms of the property, with their outputs as a list (quotient first) *)
Inductive form := FDiv | FRem | FDivRem | FDivEuclid | FRemEuclid | FDivRemEuclid | FIsMultipleOf.

Definition form_spec (f : form) (a b : Z) : result (list Z) :=
  match f with
  | FDiv => rbind (trunc_div_rem_spec a b) (fun qr => Ok [fst qr])
  | FRem => rbind (trunc_div_rem_spec a b) (fun qr => Ok [snd qr])
  | FDivRem => rbind (trunc_div_rem_spec a b) (fun qr => Ok [fst qr; snd qr])
  | FDivEuclid => rbind (euclid_div_rem_spec a b) (fun qr => Ok [fst qr])
  | FRemEuclid => rbind (euclid_div_rem_spec a b) (fun qr => Ok [snd qr])
  | FDivRemEuclid => rbind (euclid_div_rem_spec a b) (fun qr => Ok [fst qr; snd qr])
  | FIsMultipleOf => rbind (is_multiple_of_spec a b) (fun x => Ok [Z.b2z x])
  end.

(** ** The implementation's sign layer (as is)

    Every operator splits its operands into sign and magnitude, runs the magnitude operation
    (`Repr / Repr`, `%`, `div_rem`, which panic on a zero divisor: div_dword / rem_dword /
    div_rem_large_dword) and fixes the signs up with the macro body that SignTables.v renders. *)
Definition mag_guard {A} (m1 : Z) (x : A) : result A := if m1 =? 0 then Panic DivideBy0 else Ok x.

Definition ibig_form_asis (f : form) (a b : Z) : result (list Z) :=
  let s0 := sign_of a in let m0 := Z.abs a in
  let s1 := sign_of b in let m1 := Z.abs b in
  mag_guard m1
    match f with
    | FDiv => [ibig_div_gen s0 m0 s1 m1]
    | FRem => [ibig_rem_gen s0 m0 s1 m1]
    | FDivRem => let qr := ibig_divrem_gen s0 m0 s1 m1 in [fst qr; snd qr]
    | FDivEuclid => [ibig_div_euclid_gen s0 m0 s1 m1]
    | FRemEuclid => [ibig_rem_euclid_gen s0 m0 s1 m1]
    | FDivRemEuclid => let qr := ibig_divrem_euclid_gen s0 m0 s1 m1 in [fst qr; snd qr]
    | FIsMultipleOf => [Z.b2z (ibig_rem_gen s0 m0 s1 m1 =? 0)]   (* (self % divisor).is_zero() *)
    end.

(** UBig x UBig: forward_ubig_binop_to_repr, no sign logic; the Euclidean forms forward to div / rem *)
Definition ubig_form_asis (f : form) (m0 m1 : Z) : result (list Z) :=
  mag_guard m1
    match f with
    | FDiv | FDivEuclid => [m0 / m1]
    | FRem | FRemEuclid => [m0 mod m1]
    | FDivRem | FDivRemEuclid => [m0 / m1; m0 mod m1]
    | FIsMultipleOf => [Z.b2z (m0 mod m1 =? 0)]
    end.

(** UBig (op) IBig: Div uses impl_ibig_div with a positive lhs, Rem / DivRem their own macros *)
Definition ubig_ibig_form_asis (f : form) (m0 b : Z) : result (list Z) :=
  let s1 := sign_of b in let m1 := Z.abs b in
  mag_guard m1
    match f with
    | FDiv => [ibig_div_gen Positive m0 s1 m1]
    | FRem => [ubig_ibig_rem_gen Positive m0 s1 m1]
    | _ => let qr := ubig_ibig_divrem_gen Positive m0 s1 m1 in [fst qr; snd qr]
    end.

(** IBig (op) UBig: the IBig macros with a positive rhs *)
Definition ibig_ubig_form_asis (f : form) (a m1 : Z) : result (list Z) :=
  let s0 := sign_of a in let m0 := Z.abs a in
  mag_guard m1
    match f with
    | FDiv => [ibig_div_gen s0 m0 Positive m1]
    | FRem => [ibig_rem_gen s0 m0 Positive m1]
    | _ => let qr := ibig_divrem_gen s0 m0 Positive m1 in [fst qr; snd qr]
    end.

(** division through a ConstDivisor (div_const.rs): `ConstDivisor::new` panics on 0; UBig forms are
    the magnitude operation, IBig forms give BOTH results the sign of the dividend *)
Definition const_ubig_form_asis (f : form) (m0 d : Z) : result (list Z) :=
  mag_guard d
    match f with
    | FDiv => [m0 / d]
    | FRem => [m0 mod d]
    | _ => [m0 / d; m0 mod d]
    end.

Definition const_ibig_form_asis (f : form) (a d : Z) : result (list Z) :=
  let s0 := sign_of a in let m0 := Z.abs a in
  mag_guard d
    match f with
    | FDiv => [signed s0 (m0 / d)]
    | FRem => [signed s0 (m0 mod d)]
    | _ => [signed s0 (m0 / d); signed s0 (m0 mod d)]
    end.
