(** C12 - the Newton n-th root iteration of TypedReprRef::nth_root returns the truncated root, for all
    radicands and degrees; termination (fuel bound); the signed wrappers; the square-root shift algebra. *)
From Dashu Require Import Base.Prelude Int.GrlSpec Int.GrlModel Int.GrlSpecProof.
Open Scope Z_scope.

(** tangent-line (Bernoulli) inequality:  n * b^(n-1) * (a - b) <= a^n - b^n *)
Lemma pow_tangent_nat : forall (k : nat) a b, 0 <= a -> 0 <= b ->
  Z.of_nat (S k) * b ^ Z.of_nat k * (a - b) <= a ^ Z.of_nat (S k) - b ^ Z.of_nat (S k).
Proof.
  induction k as [|k IH]; intros a b Ha Hb.
  - change (Z.of_nat 1) with 1. change (Z.of_nat 0) with 0. rewrite Z.pow_0_r, !Z.pow_1_r. lia.
  - specialize (IH a b Ha Hb).
    rewrite (Nat2Z.inj_succ (S k)). rewrite !(Z.pow_succ_r _ (Z.of_nat (S k))) by lia.
    assert (b ^ Z.of_nat (S k) = b * b ^ Z.of_nat k) as EB by (rewrite Nat2Z.inj_succ, Z.pow_succ_r; lia).
    assert (0 <= b ^ Z.of_nat k) as HC by (apply Z.pow_nonneg; lia).
    set (A := a ^ Z.of_nat (S k)) in *. set (C := b ^ Z.of_nat k) in *.
    set (N := Z.of_nat (S k)) in *. assert (0 <= N) by lia.
    rewrite EB in *.
    assert (a * (N * C * (a - b)) <= a * (A - b * C)) as K1 by (apply Z.mul_le_mono_nonneg_l; lia).
    assert (0 <= N * C * ((a - b) * (a - b))) as K2 by (apply Z.mul_nonneg_nonneg; [apply Z.mul_nonneg_nonneg; lia | apply Z.square_nonneg]).
    nia.
Qed.

Lemma pow_tangent : forall n a b, 1 <= n -> 0 <= a -> 0 <= b ->
  n * b ^ (n - 1) * (a - b) <= a ^ n - b ^ n.
Proof.
  intros n a b Hn Ha Hb. pose proof (pow_tangent_nat (Z.to_nat (n - 1)) a b Ha Hb) as H.
  rewrite Nat2Z.inj_succ, Z2Nat.id in H by lia. replace (Z.succ (n - 1)) with n in H by lia. exact H.
Qed.

Section Newton.
Variables x n : Z.
Hypothesis Hx : 0 < x.
Hypothesis Hn : 2 <= n.

Let next := newton_next x n.

Lemma pow_split : forall g, g ^ n = g * g ^ (n - 1).
Proof. intros g. replace n with (Z.succ (n - 1)) at 1 by lia. rewrite Z.pow_succ_r by lia. reflexivity. Qed.

(** F1: every Newton step lands at or above the root *)
Lemma next_ge_root : forall g r, 0 < g -> 0 <= r -> r ^ n <= x -> r <= next g.
Proof.
  intros g r Hg Hr Hrx. unfold next, newton_next.
  pose proof (pow_tangent n r g ltac:(lia) Hr ltac:(lia)) as T. rewrite (pow_split g) in T.
  assert (0 < g ^ (n - 1)) as HG by (apply Z.pow_pos_nonneg; lia).
  set (G := g ^ (n - 1)) in *.
  assert (n * r - (n - 1) * g <= x / G) as Q.
  { apply Z.div_le_lower_bound; [exact HG|]. nia. }
  apply Z.div_le_lower_bound; [lia|]. nia.
Qed.

(** F2: above the root the step goes strictly down *)
Lemma next_lt_above : forall g, 0 < g -> x < g ^ n -> next g < g.
Proof.
  intros g Hg Hxg. unfold next, newton_next. rewrite (pow_split g) in Hxg.
  assert (0 < g ^ (n - 1)) as HG by (apply Z.pow_pos_nonneg; lia).
  set (G := g ^ (n - 1)) in *.
  assert (x / G < g) as Q by (apply Z.div_lt_upper_bound; [exact HG | nia]).
  apply Z.div_lt_upper_bound; [lia|]. nia.
Qed.

(** F3: strictly below the root the step goes strictly up *)
Lemma next_gt_below : forall g, 0 < g -> (g + 1) ^ n <= x -> g < next g.
Proof.
  intros g Hg Hgx. unfold next, newton_next.
  pose proof (pow_tangent n (g + 1) g ltac:(lia) ltac:(lia) ltac:(lia)) as T. rewrite (pow_split g) in T.
  assert (0 < g ^ (n - 1)) as HG by (apply Z.pow_pos_nonneg; lia).
  set (G := g ^ (n - 1)) in *.
  assert (g + n <= x / G) as Q by (apply Z.div_le_lower_bound; [exact HG | nia]).
  assert (g + 1 <= (x / G + g * (n - 1)) / n); [|lia].
  apply Z.div_le_lower_bound; [lia|]. nia.
Qed.

Definition UB (g : Z) : Prop := forall t, 0 <= t -> t ^ n <= x -> t <= g.

Lemma up_spec : forall fuel g f g' f', 0 < g -> f = next g ->
  newton_up fuel x n g f = Ok (g', f') -> 0 < g' /\ f' = next g' /\ f' <= g'.
Proof.
  induction fuel as [|k IH]; intros g f g' f' Hg Hf H; cbn [newton_up] in H; [discriminate|].
  destruct (Z.ltb_spec g f) as [L|L].
  - apply (IH f (newton_next x n f)); [lia | reflexivity | exact H].
  - injection H as <- <-. auto.
Qed.

Lemma down_spec : forall fuel g f r, 0 < g -> f = next g -> UB g ->
  newton_down fuel x n g f = Ok r -> 0 < r /\ UB r /\ r <= next r.
Proof.
  induction fuel as [|k IH]; intros g f r Hg Hf HU H; cbn [newton_down] in H; [discriminate|].
  destruct (Z.ltb_spec f g) as [L|L].
  - apply (IH f (newton_next x n f)); [| reflexivity | | exact H].
    + subst f. assert (1 <= next g); [|lia]. apply next_ge_root; [lia | lia |]. rewrite Z.pow_1_l by lia. lia.
    + subst f. intros t Ht Htx. apply next_ge_root; assumption.
  - injection H as <-. subst f. auto.
Qed.

(** partial correctness from ANY positive first guess: whatever fuel was given, an answer is the
    truncated root (covers the repaired and the pre-repair first guess) *)
Theorem newton_root_from_correct : forall fuel g0 r, 0 < g0 ->
  newton_root_from fuel x n g0 = Ok r -> 0 < r /\ r ^ n <= x < (r + 1) ^ n.
Proof.
  intros fuel g0 r Hg0 H. unfold newton_root_from in H.
  destruct (newton_up fuel x n g0 (newton_next x n g0)) as [[g f]| | |] eqn:E;
    cbn [rbind fst snd] in H; try discriminate.
  apply up_spec in E; [|exact Hg0 | reflexivity]. destruct E as [Hg [Hf Hfg]].
  assert (UB g) as HU.
  { intros t Ht Htx. destruct (Z_le_gt_dec t g) as [L|L]; [exact L|exfalso].
    assert ((g + 1) ^ n <= t ^ n) by (apply Z.pow_le_mono_l; lia).
    pose proof (next_gt_below g Hg ltac:(lia)). lia. }
  apply down_spec in H; [|exact Hg | exact Hf | exact HU]. destruct H as [Hr [HUr Hnr]].
  split; [exact Hr|]. split.
  - destruct (Z_le_gt_dec (r ^ n) x) as [L|L]; [exact L|exfalso].
    pose proof (next_lt_above r Hr ltac:(lia)). lia.
  - destruct (Z_lt_le_dec x ((r + 1) ^ n)) as [L|L]; [exact L|exfalso].
    specialize (HUr (r + 1) ltac:(lia) L). lia.
Qed.

Lemma g0_pos : 0 < newton_g0 x n.
Proof.
  unfold newton_g0. apply Z.pow_pos_nonneg; [lia|].
  assert (0 <= (bit_len x - 1) / n); [|lia]. apply Z.div_pos; [|lia]. unfold bit_len.
  destruct (Z.eqb_spec x 0); [lia|]. pose proof (Z.log2_nonneg x). lia.
Qed.

Lemma g0_prefix_pos : 0 < newton_g0_prefix x n.
Proof.
  unfold newton_g0_prefix. apply Z.pow_pos_nonneg; [lia|]. apply Z.div_pos; [|lia]. unfold bit_len.
  destruct (x =? 0); [lia|]. pose proof (Z.log2_nonneg x). lia.
Qed.

Theorem newton_root_correct : forall fuel r, newton_root fuel x n = Ok r -> 0 < r /\ r ^ n <= x < (r + 1) ^ n.
Proof. intros fuel r. apply newton_root_from_correct. apply g0_pos. Qed.

Theorem newton_root_prefix_correct : forall fuel r, newton_root_prefix fuel x n = Ok r -> 0 < r /\ r ^ n <= x < (r + 1) ^ n.
Proof. intros fuel r. apply newton_root_from_correct. apply g0_prefix_pos. Qed.

(** the repaired first guess is a strict overestimate: x < g0 ^ n *)
Lemma g0_above : x < newton_g0 x n ^ n.
Proof.
  unfold newton_g0, bit_len. destruct (Z.eqb_spec x 0); [lia|].
  replace (Z.log2 x + 1 - 1) with (Z.log2 x) by lia.
  pose proof (Z.log2_spec x Hx) as [_ U]. pose proof (Z.log2_nonneg x) as L0. unfold Z.succ in U.
  set (l := Z.log2 x) in *.
  assert (0 <= l / n) by (apply Z.div_pos; lia).
  rewrite <- Z.pow_mul_r by lia.
  pose proof (Z.div_mod l n ltac:(lia)) as DM. pose proof (Z.mod_pos_bound l n ltac:(lia)) as MB.
  assert (2 ^ (l + 1) <= 2 ^ ((l / n + 1) * n)) by (apply Z.pow_le_mono_r; nia). lia.
Qed.

(** termination *)
Lemma le_pow_self : forall g, 1 <= g -> g <= g ^ n.
Proof.
  intros g Hg. rewrite pow_split. assert (1 <= g ^ (n - 1)); [|nia].
  replace 1 with (1 ^ (n - 1)) at 1 by (apply Z.pow_1_l; lia). apply Z.pow_le_mono_l; lia.
Qed.

Lemma next_le_x : forall g, 0 < g -> g <= x -> next g <= x.
Proof.
  intros g Hg Hgx. unfold next, newton_next.
  assert (1 <= g ^ (n - 1)) as HG.
  { replace 1 with (1 ^ (n - 1)) at 1 by (apply Z.pow_1_l; lia). apply Z.pow_le_mono_l; lia. }
  assert (x / g ^ (n - 1) <= x) by (apply Z.div_le_upper_bound; nia).
  apply Z.div_le_upper_bound; nia.
Qed.

Lemma up_terminates : forall fuel g f, 0 < g -> g <= x -> f = next g -> x + 1 - g < Z.of_nat fuel ->
  exists g' f', newton_up fuel x n g f = Ok (g', f') /\ g' <= x.
Proof.
  induction fuel as [|k IH]; intros g f Hg Hgx Hf Hfu; [cbn in Hfu; lia|].
  cbn [newton_up]. destruct (Z.ltb_spec g f) as [L|L].
  - apply IH; [lia | subst f; apply next_le_x; assumption | reflexivity | lia].
  - eauto.
Qed.

Lemma down_terminates : forall fuel g f, 0 < g -> f = next g -> g < Z.of_nat fuel ->
  exists r, newton_down fuel x n g f = Ok r.
Proof.
  induction fuel as [|k IH]; intros g f Hg Hf Hfu; [cbn in Hfu; lia|].
  cbn [newton_down]. destruct (Z.ltb_spec f g) as [L|L].
  - apply IH; [| reflexivity | lia].
    subst f. assert (1 <= next g); [|lia]. apply next_ge_root; [lia | lia |]. rewrite Z.pow_1_l by lia. lia.
  - eauto.
Qed.

(** termination of the repaired iteration: the climbing loop is skipped (the first guess is above the
    root) and the descent is strictly decreasing from g0 = 2^ceil(bits/n) < 2 * (root + 1): fuel g0 + 1 is enough *)
Theorem newton_root_terminates : forall fuel, newton_g0 x n < Z.of_nat fuel -> exists r, newton_root fuel x n = Ok r.
Proof.
  intros fuel Hf. unfold newton_root, newton_root_from.
  pose proof g0_pos as G0. pose proof (next_lt_above _ G0 g0_above) as NL. fold next.
  destruct fuel as [|k]; [cbn in Hf; lia|].
  cbn [newton_up]. fold next. destruct (Z.ltb_spec (newton_g0 x n) (next (newton_g0 x n))) as [L|L]; [lia|].
  cbn [rbind fst snd]. apply down_terminates; [exact G0 | reflexivity | lia].
Qed.

(** the climbing loop of the repaired iteration never runs *)
Theorem newton_root_no_overshoot : forall k,
  newton_up (S k) x n (newton_g0 x n) (next (newton_g0 x n)) = Ok (newton_g0 x n, next (newton_g0 x n)) /\
  next (newton_g0 x n) < newton_g0 x n.
Proof.
  intros k. pose proof (next_lt_above _ g0_pos g0_above) as NL. split; [|exact NL].
  cbn [newton_up]. destruct (Z.ltb_spec (newton_g0 x n) (next (newton_g0 x n))) as [L|L]; [lia|reflexivity].
Qed.

(** crude termination from any first guess not above x (what the pre-repair code satisfies) *)
Theorem newton_root_from_terminates : forall fuel g0, 0 < g0 -> g0 <= x -> x + 2 <= Z.of_nat fuel ->
  exists r, newton_root_from fuel x n g0 = Ok r.
Proof.
  intros fuel g0 Hg0 Hle Hf. unfold newton_root_from.
  destruct (up_terminates fuel g0 (newton_next x n g0)) as [g [f [E Hg]]]; [exact Hg0 | exact Hle | reflexivity | lia|].
  rewrite E. cbn [rbind fst snd].
  pose proof (up_spec _ _ _ _ _ Hg0 eq_refl E) as [Hg1 [Hf0 _]].
  apply down_terminates; [exact Hg1 | exact Hf0 | lia].
Qed.

End Newton.

(** the whole of UBig::nth_root *)
Lemma bit_len_spec : forall x, 0 < x -> 2 ^ (bit_len x - 1) <= x < 2 ^ bit_len x.
Proof.
  intros x Hx. unfold bit_len. destruct (Z.eqb_spec x 0); [lia|].
  replace (Z.log2 x + 1 - 1) with (Z.log2 x) by lia. pose proof (Z.log2_spec x Hx). unfold Z.succ in *. lia.
Qed.

Theorem nth_root_asis_correct : forall fuel x n r, 0 <= x -> 0 < n ->
  nth_root_asis fuel x n = Ok r -> root_cert n x r = true.
Proof.
  intros fuel x n r Hx Hn H. unfold nth_root_asis in H.
  assert (forall r, 0 <= r -> r ^ n <= x < (r + 1) ^ n -> root_cert n x r = true) as K.
  { intros r0 H0 [H1 H2]. unfold root_cert. apply andb_true_intro. split; [apply andb_true_intro; split|];
      [apply Z.leb_le | apply Z.leb_le | apply Z.ltb_lt]; assumption. }
  destruct (Z.eqb_spec n 0); [lia|].
  destruct (Z.eqb_spec n 1) as [E1|N1].
  { injection H as <-. subst n. apply K; [exact Hx|]. rewrite !Z.pow_1_r. lia. }
  destruct (Z.eqb_spec n 2) as [E2|N2].
  { injection H as <-. subst n. apply K; [apply Z.sqrt_nonneg|]. rewrite !Z.pow_2_r.
    pose proof (Z.sqrt_spec x Hx) as S. unfold Z.succ in S. exact S. }
  destruct (Z.eqb_spec (bit_len x) 0) as [B0|B0].
  { injection H as <-. unfold bit_len in B0. destruct (Z.eqb_spec x 0) as [->|]; [|pose proof (Z.log2_nonneg x); lia].
    apply K; [lia|]. rewrite Z.pow_0_l, Z.pow_1_l by lia. lia. }
  assert (0 < x) as Hx'.
  { unfold bit_len in B0. destruct (Z.eqb_spec x 0); [contradiction|lia]. }
  destruct (Z.leb_spec (bit_len x) n) as [L|L].
  { injection H as <-. apply K; [lia|]. rewrite Z.pow_1_l by lia. split; [lia|].
    pose proof (bit_len_spec x Hx') as [_ U].
    assert (2 ^ bit_len x <= 2 ^ n) by (apply Z.pow_le_mono_r; lia). simpl (1 + 1). lia. }
  apply newton_root_correct in H; [|exact Hx' | lia]. apply K; lia.
Qed.

Example nth_root_asis_ex : nth_root_asis 100 (10 ^ 30 + 1) 3 = Ok (10 ^ 10) /\ nth_root_asis 100 0 3 = Ok 0.
Proof. split; vm_compute; reflexivity. Qed.

Theorem nth_root_asis_panics : forall fuel x n r, nth_root_asis fuel x n = Panic r -> r = RootZeroth /\ n = 0.
Proof.
  intros fuel x n r H. unfold nth_root_asis in H.
  destruct (Z.eqb_spec n 0); [injection H as <-; auto|].
  destruct (n =? 1); [discriminate|]. destruct (n =? 2); [discriminate|].
  destruct (bit_len x =? 0); [discriminate|]. destruct (bit_len x <=? n); [discriminate|].
  unfold newton_root, newton_root_from in H.
  assert (forall k g f, newton_up k x n g f <> Panic r) as U.
  { induction k; intros g f; cbn [newton_up]; [discriminate|]. destruct (g <? f); [apply IHk|discriminate]. }
  assert (forall k g f, newton_down k x n g f <> Panic r) as D.
  { induction k; intros g f; cbn [newton_down]; [discriminate|]. destruct (f <? g); [apply IHk|discriminate]. }
  destruct (newton_up fuel x n _ _) as [[g f]| | |] eqn:E; cbn [rbind] in H; try discriminate.
  - exfalso. exact (D _ _ _ H).
  - injection H as ->. exfalso. exact (U _ _ _ E).
Qed.

(** the defect repaired by F01, kept as a refuted statement about the pre-repair code *)
Lemma nth_root_prefix_refuted : exists fuel x n r, nth_root_prefix fuel x n = Ok r /\ root_cert n x r = false.
Proof. exists 10%nat, 0, 3, 1. split; reflexivity. Qed.

(** the defect repaired by F08 (performance): from the pre-repair first guess the 33rd root of 7^33
    is not reached within 300 Newton steps; from the repaired one 10 steps are enough *)
Lemma newton_root_prefix_slow_refuted :
  newton_root_prefix 300 (7 ^ 33) 33 = OutOfFuel /\ newton_root 10 (7 ^ 33) 33 = Ok 7.
Proof. split; vm_compute; reflexivity. Qed.

(** IBig::nth_root and IBig::cbrt: truncated toward zero, sign of the radicand *)
Theorem inth_root_asis_correct : forall fuel x n r, 0 <= n -> inth_root_asis fuel x n = Ok r -> iroot_cert n x r = true.
Proof.
  intros fuel x n r Hn0 H. unfold inth_root_asis in H.
  destruct (Z.eqb_spec n 0); [discriminate|]. destruct ((x <? 0) && Z.even n) eqn:E; [discriminate|].
  destruct (nth_root_asis fuel (Z.abs x) n) as [r0| | |] eqn:R; cbn [rbind] in H; try discriminate.
  injection H as <-.
  assert (0 < n) as Hn by lia.
  apply nth_root_asis_correct in R; [|lia|exact Hn].
  pose proof (root_cert_meaning _ _ _ R) as [R0 _].
  unfold iroot_cert. apply andb_true_intro. split.
  - destruct (Z.sgn_spec x) as [[? S]|[[? S]|[? S]]]; rewrite S.
    + match goal with |- root_cert _ _ ?t = true => replace t with r0 by lia end. exact R.
    + subst x. match goal with |- root_cert _ _ ?t = true => replace t with 0 by lia end.
      assert (r0 = 0); [|subst r0; exact R].
      apply root_cert_meaning in R. destruct R as [_ [R1 _]]. cbn [Z.abs] in R1.
      destruct (Z.eq_dec r0 0); [assumption|]. assert (0 < r0 ^ n) by (apply Z.pow_pos_nonneg; lia). lia.
    + match goal with |- root_cert _ _ ?t = true => replace t with r0 by lia end. exact R.
  - apply Z.eqb_eq. destruct (Z.sgn_spec x) as [[? S]|[[? S]|[? S]]]; rewrite S; lia.
Qed.

Example inth_root_asis_ex : inth_root_asis 100 (-1000) 3 = Ok (-10) /\ icbrt_asis 100 (-27) = Ok (-3).
Proof. split; vm_compute; reflexivity. Qed.

Theorem inth_root_asis_panics : forall fuel x n r, inth_root_asis fuel x n = Panic r -> root_panic n x = Some r.
Proof.
  intros fuel x n r H. unfold inth_root_asis in H. unfold root_panic.
  destruct (Z.eqb_spec n 0); [injection H as <-; reflexivity|].
  destruct ((x <? 0) && Z.even n); [injection H as <-; reflexivity|].
  destruct (nth_root_asis fuel (Z.abs x) n) as [r0| | |] eqn:R; cbn [rbind] in H; try discriminate.
  injection H as <-. apply nth_root_asis_panics in R. lia.
Qed.

Theorem icbrt_asis_eq : forall fuel x, icbrt_asis fuel x = inth_root_asis fuel x 3.
Proof. intros. unfold icbrt_asis, inth_root_asis. cbn. rewrite andb_false_r. reflexivity. Qed.

(** the defect repaired by F02 *)
Lemma icbrt_prefix_refuted : exists fuel x, icbrt_prefix fuel x = Panic RootNegative /\ root_panic 3 x = None.
Proof. exists 10%nat, (-27). split; reflexivity. Qed.
