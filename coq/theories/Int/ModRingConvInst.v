(** C13 (round 3) - the 64-bit instance the oracle runs IN ADDITION to the value-level one (ModRingInst.v), with
    nothing exact plugged in except the multi-word extended gcd:
      * multi-word rings: everything on WORD LISTS (ModRingWords.v / ModRingConv.v) with the real kernels - C01's as-is
        mul::multiply / sqr::sqr, C02's as-is div::div_rem_in_place over num-modular's div_rem_3by2 as transcribed and
        C01's add_signed_mul as the subtract-multiply kernel;
      * single / double word rings: the value-level model with num-modular's div_rem_1by1 / 2by1 / 2by2 / 3by2 / 4by2 and
        invm AS TRANSCRIBED (DivNumModular.v, ModRingNumModular.v), multi-word operands reduced on their word lists.
    Composite runs mirror the harness: build the ring, reduce the operands, operate, read residue / raw form.
    Definitions only (proofs in ModRingConvInstProofs.v). *)
From Dashu Require Import Base.Prelude Base.Words Int.RingMul Int.DivWordModel Int.DivNumModular Int.DivSrcInst
  Int.ModRingSpec Int.ModRingPowModel Int.ModRingModel Int.ModRingInst Int.ModRingNumModularDefs Int.ModRingWords Int.ModRingConv.
From DashuGen Require Import Params.
Open Scope Z_scope.

Definition KM : list Z -> list Z -> result (list Z) :=
  multiply 64 (Z.to_nat mul_threshold_simple) (Z.to_nat mul_threshold_karatsuba) (Z.to_nat mul_simple_chunk_len).
Definition KS : list Z -> result (list Z) :=
  sqr 64 (Z.to_nat mul_threshold_simple) (Z.to_nat mul_threshold_karatsuba) (Z.to_nat sqr_max_len_simple).
Definition KD (lhs rhs : list Z) : result (list Z * bool) :=
  div_rem_in_place 64 (nm3by2 64) (c01_mul_sub 64) (Z.to_nat div_threshold_simple) (fuel_for lhs) lhs rhs.

(** ---------------- single / double word rings with num-modular as transcribed ---------------- *)
Definition N2 := nm2by1 64.
Definition N3 := nm3by2 64.

Definition n_from_ubig (r : ring) (x : Z) : result reduced :=
  match r_kind r with
  | KSingle => rbind (ws_from_ubig 64 (nm1by1 64) N2 r x) (mk r)
  | KDouble => rbind (wd_from_ubig 64 (nm2by2 64) N3 (nm4by2 64) r x) (mk r)
  | KLarge => Panic Undocumented          (* not used: multi-word rings run on word lists *)
  end.
Definition n_reduce (r : ring) (a : Z) : result reduced :=
  if 0 <=? a then n_from_ubig r a else rbind (n_from_ubig r (- a)) neg_asis.
Definition n_transform (r : ring) (x : Z) : result Z :=
  match r_kind r with
  | KSingle => ws_from_ubig 64 (nm1by1 64) N2 r x
  | KDouble => wd_from_ubig 64 (nm2by2 64) N3 (nm4by2 64) r x
  | KLarge => Panic Undocumented
  end.

Definition n_bin (o : binop) (x y : reduced) : result reduced :=
  match o with
  | OAdd => add_asis 64 x y | OSub => sub_asis 64 x y | OMul => mul_asis 64 N2 N3 x y
  | ODiv => div_asis 64 N2 N3 nm_finv ex_gcd_ext x y
  end.
Definition n_un (o : unop) (x : reduced) : result reduced :=
  match o with ONeg => neg_asis x | ODbl => dbl_asis 64 x | OSqr => sqr_asis 64 N2 N3 x end.

(** ---------------- multi-word rings on word lists ---------------- *)
Definition w_reduce (R : lring) (a : Z) : result (list Z) := wl_into_ring_ibig 64 KD R a.

(** `&self / &rhs`: rhs.inv(), then `self * inv_rhs` = inv_rhs.mul_assign(self) *)
Definition w_div (R : lring) (a b : list Z) : result (list Z) :=
  rbind (wl_inv 64 ex_gcd_ext R b) (fun o =>
    match o with None => Panic NonInvertible | Some ib => wl_mul_in_place 64 KM KS KD R ib a end).

Definition w_bin (o : binop) (R : lring) (x y : list Z) : result (list Z) :=
  match o with
  | OAdd => wl_add_in_place 64 R x y | OSub => wl_sub_in_place 64 R x y
  | OMul => wl_mul_in_place 64 KM KS KD R x y | ODiv => w_div R x y
  end.
Definition w_un (o : unop) (R : lring) (x : list Z) : result (list Z) :=
  match o with ONeg => wl_neg 64 R x | ODbl => wl_dbl 64 R x | OSqr => wl_sqr 64 KS KD R x end.

Definition w_residue (R : lring) (x : list Z) : result Z := rbind (wl_residue 64 R x) (fun l => Ok (Words.value 64 l)).
Definition w_modulus (R : lring) : result Z := rbind (wl_divisor 64 R) (fun l => Ok (Words.value 64 l)).

Definition is_large (m : Z) : bool := 2 ^ 64 * 2 ^ 64 <=? m.

(** ---------------- composite runs (the same shape as run_* of ModRingInst.v) ---------------- *)
Definition hrun_reduce (m a : Z) : result (Z * Z) :=
  if is_large m then
    rbind (wl_new 64 m) (fun R => rbind (w_reduce R a) (fun x => rbind (w_residue R x) (fun v =>
    rbind (w_modulus R) (fun md => Ok (v, md)))))
  else
    rbind (i_new 0 m) (fun r => rbind (n_reduce r a) (fun x => rbind (residue_asis x) (fun v => Ok (v, modulus_asis x)))).

Definition hrun_bin (o : binop) (m a b : Z) : result Z :=
  if is_large m then
    rbind (wl_new 64 m) (fun R => rbind (w_reduce R a) (fun x => rbind (w_reduce R b) (fun y =>
    rbind (w_bin o R x y) (w_residue R))))
  else
    rbind (i_new 0 m) (fun r => rbind (n_reduce r a) (fun x => rbind (n_reduce r b) (fun y =>
    rbind (n_bin o x y) residue_asis))).

Definition hrun_un (o : unop) (m a : Z) : result Z :=
  if is_large m then
    rbind (wl_new 64 m) (fun R => rbind (w_reduce R a) (fun x => rbind (w_un o R x) (w_residue R)))
  else
    rbind (i_new 0 m) (fun r => rbind (n_reduce r a) (fun x => rbind (n_un o x) residue_asis)).

Definition hrun_pow (m a e : Z) : result Z :=
  if is_large m then
    rbind (wl_new 64 m) (fun R => rbind (w_reduce R a) (fun x => rbind (wl_pow 64 KM KS KD R x e) (w_residue R)))
  else
    rbind (i_new 0 m) (fun r => rbind (n_reduce r a) (fun x => rbind (pow_asis 64 N2 N3 x e) residue_asis)).

Definition hrun_inv (m a : Z) : result (option Z) :=
  if is_large m then
    rbind (wl_new 64 m) (fun R => rbind (w_reduce R a) (fun x => rbind (wl_inv 64 ex_gcd_ext R x) (fun o =>
    match o with None => Ok None | Some y => rbind (w_residue R y) (fun v => Ok (Some v)) end)))
  else
    rbind (i_new 0 m) (fun r => rbind (n_reduce r a) (fun x => rbind (inv_asis 64 nm_finv ex_gcd_ext x) (fun o =>
    match o with None => Ok None | Some y => rbind (residue_asis y) (fun v => Ok (Some v)) end))).

Definition hrun_eq (m a b : Z) : result bool :=
  if is_large m then
    rbind (wl_new 64 m) (fun R => rbind (w_reduce R a) (fun x => rbind (w_reduce R b) (fun y => Ok (words_eqb x y))))
  else
    rbind (i_new 0 m) (fun r => rbind (n_reduce r a) (fun x => rbind (n_reduce r b) (fun y => eq_asis x y))).

(** Reducer::transform: the raw (pre-shifted) form *)
Definition hrun_transform (m a : Z) : result Z :=
  if is_large m then rbind (wl_new 64 m) (fun R => wl_transform 64 KD R a)
  else rbind (i_new 0 m) (fun r => n_transform r a).
