(** C13 - second part of the proofs about the as-is model of ModRingModel.v: exponentiation (the two
    algorithms of pow.rs run on the ring's own multiplication), inverse, division, equality and the
    num_modular::Reducer implementation.  Same setting as ModRingProofs.v: every word size [w >= 2],
    every well-formed ring, the external functions (num-modular, dashu's gcd_ext) by contract. *)
From Dashu Require Import Base.Prelude Base.Words Int.ModRingSpec Int.ModRingSpecProofs
  Int.ModRingPowModel Int.ModRingPowProofs Int.ModRingModel Int.ModRingProofs.
From Coq Require Import Znumtheory.
Open Scope Z_scope.

Lemma gcd_mod_l x m : 0 < m -> Z.gcd (x mod m) m = Z.gcd x m.
Proof. intros Hm. rewrite Z.gcd_mod by lia. apply Z.gcd_comm. Qed.

Lemma rep_congr r q q' c : rep r q c -> q mod r_m r = q' mod r_m r -> rep r q' c.
Proof. intros [E1 E2] E. split; [exact E1 | rewrite <- E; exact E2]. Qed.

Section Ops.
Variable w : Z.
Hypothesis w_ge : 2 <= w.
Variable f2 : Z -> Z -> Z * Z.                 (* num-modular div_rem_2by1 *)
Variable f3 : Z -> Z -> Z -> Z * Z.            (* num-modular div_rem_3by2 *)
Variable finv : Z -> Z -> option Z.            (* num-modular invm *)
Variable fgcd : Z -> Z -> Z * Z * sign.        (* dashu gcd_ext_{word,dword,in_place} *)

Local Notation B := (2 ^ w).

Hypothesis f2_ok : forall d a, B / 2 <= d < B -> 0 <= a -> a / B < d -> f2 d a = (a / d, a mod d).
Hypothesis f3_ok : forall d lo hi, B * B / 2 <= d < B * B -> 0 <= lo < B -> 0 <= hi < d ->
  f3 d lo hi = ((lo + B * hi) / d, (lo + B * hi) mod d).
Hypothesis finv_ok : forall x m, 0 < m -> 0 <= x < m ->
  match finv x m with Some v => is_inverse m x v | None => Z.gcd x m <> 1 end.
(** only what inv_large relies on: the gcd, the size of the cofactor, and Bezout when the gcd is 1 *)
Hypothesis fgcd_ok : forall lhs rhs, 0 < rhs < lhs ->
  let '(g, b, s) := fgcd lhs rhs in
  g = Z.gcd lhs rhs /\ 0 <= b < lhs /\ (g = 1 -> (rhs * signed s b) mod lhs = 1 mod lhs).

Local Notation ring_wf := (ring_wf w).

Lemma wf_m_pos r : ring_wf r -> 0 < r_m r.
Proof. intros (Hm & _). lia. Qed.

(** rings that are not single-word have a modulus of at least one full word *)
Lemma multiword_m_lb r : ring_wf r -> r_kind r <> KSingle -> B <= r_m r.
Proof.
  intros Hwf Hk. pose proof (large_m_lb w w_ge r Hwf) as H. pose proof (B_pos w w_ge) as HB.
  destruct Hwf as (_ & _ & Hn & _).
  assert (1 <= r_n r - 1) as Hn1 by (destruct (r_kind r); [congruence | lia | lia]).
  assert (B ^ 1 <= B ^ (r_n r - 1)) as Hp by (apply Z.pow_le_mono_r; lia).
  rewrite Z.pow_1_r in Hp. lia.
Qed.

(** ---------------- pow.rs ---------------- *)
Lemma raw_one_ok r : ring_wf r -> raw_one w f2 r = Ok (1 mod r_m r * 2 ^ r_shift r).
Proof.
  intros Hwf. pose proof (B_ge4 w w_ge) as HB4. unfold raw_one. destruct (r_kind r) eqn:Hk.
  - rewrite (s_rem_word_ok w w_ge f2 f2_ok r 1 Hwf Hk) by lia. f_equal. unfold nd.
    apply lift_mod; destruct Hwf as (? & ? & _); lia.
  - pose proof (multiword_m_lb r Hwf ltac:(congruence)). rewrite Z.mod_small by lia. f_equal. lia.
  - pose proof (multiword_m_lb r Hwf ltac:(congruence)). rewrite Z.mod_small by lia. f_equal. lia.
Qed.

(** the exponentiation algorithms of the code, run on the ring's squaring and multiplication (which
    may panic: carrier [result Z]), compute the raw form of the power - instance of the generic
    theorems of ModRingPowProofs.v with  R v k := v = Ok (raw form of x^k) *)
Lemma raw_pow_ok r x e : ring_wf r -> 0 <= e ->
  raw_pow_with w f2 f3 (raw_one w f2) r (x mod r_m r * 2 ^ r_shift r) e = Ok ((x ^ e) mod r_m r * 2 ^ r_shift r).
Proof.
  intros Hwf He.
  set (R := fun (v : result Z) (k : Z) => v = Ok ((x ^ k) mod r_m r * 2 ^ r_shift r)).
  assert (R (raw_one w f2 r) 0) as R1 by (unfold R; rewrite Z.pow_0_r; apply raw_one_ok; assumption).
  assert (forall v j, 0 <= j -> R v j -> R (lift1 (raw_sqr w f2 f3 r) v) (2 * j)) as Rs.
  { intros v j Hj ->. unfold R, lift1. cbn [rbind].
    rewrite (raw_sqr_rep w w_ge f2 f3 f2_ok f3_ok r (x ^ j) Hwf).
    replace (2 * j) with (j + j) by lia. rewrite Z.pow_add_r by lia. reflexivity. }
  assert (forall v u j k, 0 <= j -> 0 <= k -> R v j -> R u k -> R (lift2 (pow_mul w f2 f3 r) v u) (j + k)) as Rm.
  { intros v u j k Hj Hk -> ->. unfold R, lift2. cbn [rbind].
    destruct (raw_mul_rep w w_ge f2 f3 f2_ok f3_ok r (x ^ j) (x ^ k) Hwf) as [_ ->].
    rewrite Z.pow_add_r by lia. reflexivity. }
  assert (R (Ok (x mod r_m r * 2 ^ r_shift r)) 1) as Rr by (unfold R; rewrite Z.pow_1_r; reflexivity).
  unfold raw_pow_with. destruct (r_kind r).
  - exact (pow_prim_ok w ltac:(lia) (result Z) _ _ _ R R1 Rs Rm _ e Rr He).
  - exact (pow_prim_ok w ltac:(lia) (result Z) _ _ _ R R1 Rs Rm _ e Rr He).
  - destruct (pow_large_ok w (result Z) _ _ _ R R1 Rs Rm (window_at w) _ e Rr He) as (res & -> & Hres).
    + intros wl bit Hwl Hb. apply window_at_val; lia.
    + lia.
    + cbn [flatten]. exact Hres.
Qed.

Theorem pow_ok r x a e : ring_wf r -> rep r x a -> 0 <= e ->
  exists c, pow_asis w f2 f3 a e = Ok c /\ rep r (x ^ e) c.
Proof.
  intros Hwf [Er Ea] He. unfold pow_asis. rewrite Er, Ea, raw_pow_ok by assumption. cbn [rbind].
  apply (mk_rep w w_ge); assumption.
Qed.

(** ---------------- div.rs ---------------- *)
Definition inv_post (r : ring) (x : Z) (o : option reduced) : Prop :=
  match o with
  | Some c => exists v, rep r v c /\ is_inverse (r_m r) x (v mod r_m r) /\ Z.gcd x (r_m r) = 1
  | None => Z.gcd x (r_m r) <> 1
  end.

Lemma nwords_0 : nwords w 0 = 0.
Proof. unfold nwords, bitlen. cbn [Z.leb Z.compare]. apply Z.div_small. lia. Qed.

Theorem inv_asis_ok r x a : ring_wf r -> rep r x a ->
  exists o, inv_asis w finv fgcd a = Ok o /\ inv_post r x o.
Proof.
  intros Hwf [Er Ea]. pose proof (wf_facts w w_ge r Hwf) as (P & P2 & Pn & PT & Hdiv).
  pose proof (wf_m_pos r Hwf) as Hm. pose proof (Z.mod_pos_bound x (r_m r) Hm) as Hx.
  pose proof (B_ge4 w w_ge) as HB4.
  unfold inv_asis. rewrite Er, Ea. unfold p_inv, l_inv. rewrite Hdiv, Z.div_mul by lia.
  set (xm := x mod r_m r) in *.
  assert (forall v, 0 <= v < r_m r -> (xm * v) mod r_m r = 1 mod r_m r ->
            exists o, rbind (Ok (Some (v * 2 ^ r_shift r)))
                        (fun o => match o with None => Ok None | Some v0 => rbind (mk r v0) (fun e => Ok (Some e)) end) = Ok o /\
                      inv_post r x o) as Hsome.
  { intros v Hv Ev. cbn [rbind]. replace (v * 2 ^ r_shift r) with (v mod r_m r * 2 ^ r_shift r) by (rewrite Z.mod_small by lia; reflexivity).
    destruct (mk_rep w w_ge r v Hwf) as (e & -> & He). cbn [rbind]. exists (Some e). split; [reflexivity|].
    cbn [inv_post]. exists v. rewrite Z.mod_small by lia.
    assert ((x * v) mod r_m r = 1 mod r_m r) as Ev' by (rewrite <- Zmult_mod_idemp_l; exact Ev).
    split; [exact He|]. split; [split; [lia | exact Ev'] | apply (inverse_gcd (r_m r) x v); assumption]. }
  assert (Z.gcd xm (r_m r) <> 1 -> exists o, Ok None = Ok o /\ inv_post r x o) as Hnone.
  { intros G. exists None. split; [reflexivity|]. cbn [inv_post]. unfold xm in G. rewrite gcd_mod_l in G by lia. exact G. }
  destruct (r_kind r) eqn:Hk.
  - pose proof (finv_ok xm (r_m r) Hm Hx) as Hi. destruct (finv xm (r_m r)) as [v|].
    + destruct Hi as [Hv Ev]. apply Hsome; assumption.
    + cbn [rbind]. apply Hnone; assumption.
  - pose proof (finv_ok xm (r_m r) Hm Hx) as Hi. destruct (finv xm (r_m r)) as [v|].
    + destruct Hi as [Hv Ev]. apply Hsome; assumption.
    + cbn [rbind]. apply Hnone; assumption.
  - pose proof (multiword_m_lb r Hwf ltac:(congruence)) as Hlb.
    destruct (Z.eqb_spec (nwords w xm) 0) as [Z0|NZ].
    + cbn [rbind]. apply Hnone. rewrite (nwords_zero w w_ge xm ltac:(lia) Z0).
      rewrite Z.gcd_0_l, Z.abs_eq by lia. lia.
    + assert (0 < xm) as Hxp.
      { destruct (Z.eq_dec xm 0) as [E0|]; [rewrite E0, nwords_0 in NZ; lia | lia]. }
      pose proof (fgcd_ok (r_m r) xm ltac:(lia)) as Hg.
      destruct (fgcd (r_m r) xm) as [[g b] sg]. destruct Hg as (Eg & Hb & Hbez).
      destruct (Z.eqb_spec g 1) as [G1|GN]; cbn [negb].
      * specialize (Hbez G1).
        assert (is_valid r (b * 2 ^ r_shift r) = true) as Hval.
        { rewrite <- (Z.mod_small b (r_m r)) by lia. apply (rep_valid w w_ge); assumption. }
        rewrite Hval. destruct sg.
        -- apply Hsome; [exact Hb|]. rewrite <- Hbez. f_equal; try (unfold signed, sgnz; lia).
        -- replace (b * 2 ^ r_shift r) with (b mod r_m r * 2 ^ r_shift r) by (rewrite Z.mod_small by lia; reflexivity).
           rewrite large_neg_ok by (apply (raw_bounds w w_ge); assumption).
           rewrite (lift_neg w r b Hwf).
           pose proof (Z.mod_pos_bound (- b) (r_m r) Hm) as Hnb.
           cbn [rbind].
           destruct (mk_rep w w_ge r (- b) Hwf) as (e & -> & He). cbn [rbind]. exists (Some e). split; [reflexivity|].
           cbn [inv_post]. exists (- b).
           assert ((x * (- b mod r_m r)) mod r_m r = 1 mod r_m r) as Ev'.
           { rewrite Zmult_mod_idemp_r, <- Zmult_mod_idemp_l. fold xm. rewrite <- Hbez. f_equal; try (unfold signed, sgnz; lia). }
           split; [exact He|]. split; [split; [lia | exact Ev'] | apply (inverse_gcd (r_m r) x (- b mod r_m r)); assumption].
      * cbn [rbind]. apply Hnone. rewrite Z.gcd_comm, <- Eg. exact GN.
Qed.

(** inv(a) is Some exactly when gcd(a, m) = 1 *)
Corollary inv_some_iff r x a : ring_wf r -> rep r x a ->
  (exists c, inv_asis w finv fgcd a = Ok (Some c)) <-> Z.gcd x (r_m r) = 1.
Proof.
  intros Hwf Ha. destruct (inv_asis_ok r x a Hwf Ha) as (o & E & Hp). rewrite E. destruct o as [c|]; cbn [inv_post] in Hp.
  - destruct Hp as (v & _ & _ & G). split; [intros _; exact G | intros _; exists c; reflexivity].
  - split; [intros [c Ec]; discriminate | intros G; contradiction].
Qed.

(** division = multiplication by the inverse, NonInvertible otherwise: exactly [div_spec] *)
Theorem div_asis_ok r x y a b : ring_wf r -> rep r x a -> rep r y b ->
  match div_spec (r_m r) x y with
  | Ok q => exists c, div_asis w f2 f3 finv fgcd a b = Ok c /\ rep r q c
  | Panic p => div_asis w f2 f3 finv fgcd a b = Panic p
  | _ => False
  end.
Proof.
  intros Hwf Ha Hb. pose proof (wf_m_pos r Hwf) as Hm.
  destruct (inv_asis_ok r y b Hwf Hb) as (o & Eo & Hp).
  pose proof (inv_spec_ok (r_m r) y Hm) as Hs.
  unfold div_spec, div_asis. rewrite Eo. cbn [rbind].
  destruct o as [c|], (inv_spec (r_m r) y) as [iv|]; cbn [inv_post] in Hp.
  - destruct Hp as (v & Hc & Hinv & _). destruct Hs as [Hiv _].
    pose proof (inverse_unique (r_m r) y _ _ Hm Hinv Hiv) as E.
    destruct (mul_ok w w_ge f2 f3 f2_ok f3_ok r x v a c Hwf Ha Hc) as (d & Ed & Hd).
    exists d. split; [exact Ed|]. apply (rep_congr r (x * v)); [exact Hd|].
    rewrite Z.mod_mod by lia. rewrite <- E, Zmult_mod_idemp_r. reflexivity.
  - destruct Hp as (v & _ & _ & G). contradiction.
  - destruct Hs as [_ G]. contradiction.
  - reflexivity.
Qed.

(** PartialEq compares residues *)
Theorem eq_asis_ok r x y a b : ring_wf r -> rep r x a -> rep r y b ->
  eq_asis a b = Ok (reduce_spec (r_m r) x =? reduce_spec (r_m r) y).
Proof.
  intros Hwf [Er Ea] [Er' Eb]. pose proof (wf_facts w w_ge r Hwf) as (P & _).
  unfold eq_asis, reduce_spec. rewrite (same_ring_refl a b r) by assumption. rewrite Ea, Eb. f_equal.
  destruct (Z.eqb_spec (x mod r_m r) (y mod r_m r)) as [E|NE].
  - rewrite E. apply Z.eqb_refl.
  - apply Z.eqb_neq. intros E. apply NE. apply Z.mul_cancel_r in E; lia.
Qed.

(** ---------------- reducer.rs: impl Reducer<UBig> for ConstDivisor ---------------- *)
Lemma quot_lt_iff r t : ring_wf r -> 0 <= t -> (t / 2 ^ r_shift r <? r_m r) = (t <? nd r).
Proof.
  intros Hwf Ht. pose proof (wf_facts w w_ge r Hwf) as (P & _).
  pose proof (Z.div_mod t (2 ^ r_shift r) ltac:(lia)) as D. pose proof (Z.mod_pos_bound t (2 ^ r_shift r) P) as Hr.
  unfold nd. destruct (Z.ltb_spec (t / 2 ^ r_shift r) (r_m r)), (Z.ltb_spec t (r_m r * 2 ^ r_shift r)); try reflexivity; exfalso; nia.
Qed.

Lemma large_nd_lb r : ring_wf r -> r_kind r = KLarge -> 2 * (B * B) <= nd r.
Proof.
  intros Hwf Hk. pose proof (tsize_kind w w_ge r Hwf) as T. rewrite Hk in T.
  pose proof (B_ge4 w w_ge). destruct Hwf as (_ & _ & _ & HT & Hd). nia.
Qed.

(** check accepts exactly the pre-shifted forms of the residues *)
Theorem rd_check_ok r t : ring_wf r -> 0 <= t ->
  rd_check w r t = (t mod 2 ^ r_shift r =? 0) && (t / 2 ^ r_shift r <? r_m r).
Proof.
  intros Hwf Ht. rewrite quot_lt_iff by assumption. unfold rd_check, rd_check_with.
  destruct (r_kind r) eqn:Hk.
  - pose proof (single_nd w w_ge r Hwf Hk).
    destruct (Z.ltb_spec t B), (Z.ltb_spec t (nd r)), (t mod 2 ^ r_shift r =? 0); try reflexivity; exfalso; lia.
  - pose proof (double_nd w w_ge r Hwf Hk).
    destruct (Z.ltb_spec t (B * B)), (Z.ltb_spec t (nd r)), (t mod 2 ^ r_shift r =? 0); try reflexivity; exfalso; lia.
  - pose proof (large_nd_lb r Hwf Hk).
    destruct (Z.ltb_spec t (B * B)), (Z.ltb_spec t (nd r)), (t mod 2 ^ r_shift r =? 0); try reflexivity; exfalso; lia.
Qed.

Lemma rd_check_rep r x : ring_wf r -> rd_check w r (x mod r_m r * 2 ^ r_shift r) = true.
Proof.
  intros Hwf. pose proof (wf_facts w w_ge r Hwf) as (P & _). pose proof (wf_m_pos r Hwf) as Hm.
  pose proof (Z.mod_pos_bound x (r_m r) Hm). rewrite rd_check_ok by (try assumption; nia).
  rewrite Z.mod_mul, Z.div_mul by lia. cbn [Z.eqb andb]. apply Z.ltb_lt. lia.
Qed.

Theorem rd_transform_ok r x : ring_wf r -> 0 <= x ->
  rd_transform w f2 f3 r x = Ok (x mod r_m r * 2 ^ r_shift r).
Proof.
  intros Hwf Hx. unfold rd_transform. destruct (r_kind r) eqn:Hk.
  - apply (s_from_ubig_ok w w_ge f2 f2_ok); assumption.
  - apply (d_from_ubig_ok w w_ge f3 f3_ok); assumption.
  - f_equal. apply (l_rem_repr_ok w w_ge); assumption.
Qed.

(** reduce_once: one conditional subtraction of the normalised divisor *)
Lemma rd_reduce_once_ok r v : ring_wf r -> 0 <= v < 2 * r_m r ->
  rd_reduce_once_with w true r (v * 2 ^ r_shift r) = Ok (v mod r_m r * 2 ^ r_shift r).
Proof.
  intros Hwf Hv. pose proof (wf_facts w w_ge r Hwf) as (P & _). pose proof (wf_m_pos r Hwf) as Hm.
  unfold rd_reduce_once_with. fold (rd_check w r (v * 2 ^ r_shift r)).
  rewrite rd_check_ok by (try assumption; nia). rewrite Z.mod_mul, Z.div_mul by lia. cbn [Z.eqb andb].
  destruct (Z.ltb_spec v (r_m r)) as [Hlt|Hge]; cbn [negb].
  - rewrite Z.mod_small by lia. reflexivity.
  - assert (usub (v * 2 ^ r_shift r) (nd r) = Ok (v mod r_m r * 2 ^ r_shift r)) as Hu.
    { unfold usub, nd. replace (v * 2 ^ r_shift r <? r_m r * 2 ^ r_shift r) with false by (symmetry; apply Z.ltb_ge; nia).
      rewrite mod_sub_once by lia. f_equal. ring. }
    destruct (r_kind r) eqn:Hk; try exact Hu.
    pose proof (large_nd_lb r Hwf Hk). unfold nd in *.
    replace (v * 2 ^ r_shift r <? B * B) with false by (symmetry; apply Z.ltb_ge; nia). exact Hu.
Qed.

Theorem rd_add_ok r x y : ring_wf r ->
  rd_add w r (x mod r_m r * 2 ^ r_shift r) (y mod r_m r * 2 ^ r_shift r) = Ok ((x + y) mod r_m r * 2 ^ r_shift r).
Proof.
  intros Hwf. pose proof (wf_m_pos r Hwf) as Hm.
  pose proof (Z.mod_pos_bound x (r_m r) Hm). pose proof (Z.mod_pos_bound y (r_m r) Hm).
  unfold rd_add, rd_add_with. rewrite <- Z.mul_add_distr_r. rewrite rd_reduce_once_ok by (try assumption; lia).
  rewrite <- Zplus_mod. reflexivity.
Qed.

Theorem rd_dbl_ok r x : ring_wf r ->
  rd_dbl w r (x mod r_m r * 2 ^ r_shift r) = Ok ((2 * x) mod r_m r * 2 ^ r_shift r).
Proof.
  intros Hwf. pose proof (wf_m_pos r Hwf) as Hm. pose proof (Z.mod_pos_bound x (r_m r) Hm).
  unfold rd_dbl, rd_dbl_with.
  replace (x mod r_m r * 2 ^ r_shift r * 2) with ((2 * (x mod r_m r)) * 2 ^ r_shift r) by ring.
  rewrite rd_reduce_once_ok by (try assumption; lia). rewrite Zmult_mod_idemp_r. reflexivity.
Qed.

Theorem rd_sub_ok r x y : ring_wf r ->
  rd_sub r (x mod r_m r * 2 ^ r_shift r) (y mod r_m r * 2 ^ r_shift r) = Ok ((x - y) mod r_m r * 2 ^ r_shift r).
Proof.
  intros Hwf. pose proof (wf_facts w w_ge r Hwf) as (P & _). pose proof (wf_m_pos r Hwf) as Hm.
  pose proof (Z.mod_pos_bound x (r_m r) Hm). pose proof (Z.mod_pos_bound y (r_m r) Hm).
  rewrite Zminus_mod. unfold rd_sub, rd_reduce_negate, usub, nd.
  destruct (Z.leb_spec (y mod r_m r * 2 ^ r_shift r) (x mod r_m r * 2 ^ r_shift r)).
  - rewrite (Z.mod_small (x mod r_m r - y mod r_m r)) by nia. f_equal. ring.
  - replace (r_m r * 2 ^ r_shift r <? y mod r_m r * 2 ^ r_shift r - x mod r_m r * 2 ^ r_shift r) with false
      by (symmetry; apply Z.ltb_ge; nia).
    rewrite (mod_add_once (x mod r_m r - y mod r_m r)) by nia. f_equal. ring.
Qed.

Theorem rd_neg_ok r x : ring_wf r ->
  rd_neg r (x mod r_m r * 2 ^ r_shift r) = Ok ((- x) mod r_m r * 2 ^ r_shift r).
Proof.
  intros Hwf. pose proof (wf_facts w w_ge r Hwf) as (P & _). pose proof (wf_m_pos r Hwf) as Hm.
  pose proof (Z.mod_pos_bound x (r_m r) Hm).
  replace (- x) with (0 - x) by lia. rewrite Zminus_mod, Z.mod_0_l by lia. cbn [Z.sub Z.add].
  unfold rd_neg, rd_reduce_negate, usub, nd.
  destruct (Z.eqb_spec (x mod r_m r * 2 ^ r_shift r) 0) as [E|NE].
  - assert (x mod r_m r = 0) as -> by nia. cbn [Z.opp]. rewrite Z.mod_0_l by lia. reflexivity.
  - replace (r_m r * 2 ^ r_shift r <? x mod r_m r * 2 ^ r_shift r) with false by (symmetry; apply Z.ltb_ge; nia).
    rewrite (mod_add_once (- (x mod r_m r))) by nia. f_equal. ring.
Qed.

Lemma rd_from_normalized_rep r x : ring_wf r ->
  exists e, rd_from_normalized w r (x mod r_m r * 2 ^ r_shift r) = Ok e /\ rep r x e.
Proof.
  intros Hwf. pose proof (raw_bounds w w_ge r x Hwf). pose proof Hwf as (_ & _ & _ & _ & Hd).
  unfold rd_from_normalized.
  replace (x mod r_m r * 2 ^ r_shift r <? tsize w r) with true by (symmetry; apply Z.ltb_lt; lia).
  destruct (r_kind r); apply (mk_rep w w_ge); assumption.
Qed.

Theorem rd_mul_ok r x y : ring_wf r ->
  rd_mul w f2 f3 r (x mod r_m r * 2 ^ r_shift r) (y mod r_m r * 2 ^ r_shift r) = Ok ((x * y) mod r_m r * 2 ^ r_shift r).
Proof.
  intros Hwf. unfold rd_mul.
  destruct (rd_from_normalized_rep r x Hwf) as (a & -> & Ha). destruct (rd_from_normalized_rep r y Hwf) as (b & -> & Hb).
  cbn [rbind]. destruct (mul_ok w w_ge f2 f3 f2_ok f3_ok r x y a b Hwf Ha Hb) as (c & -> & [_ Ec]).
  cbn [rbind]. rewrite Ec. reflexivity.
Qed.

Theorem rd_sqr_ok r x : ring_wf r ->
  rd_sqr w f2 f3 r (x mod r_m r * 2 ^ r_shift r) = Ok ((x * x) mod r_m r * 2 ^ r_shift r).
Proof.
  intros Hwf. unfold rd_sqr. destruct (rd_from_normalized_rep r x Hwf) as (a & -> & Ha).
  cbn [rbind]. destruct (sqr_ok w w_ge f2 f3 f2_ok f3_ok r x a Hwf Ha) as (c & -> & [_ Ec]).
  cbn [rbind]. rewrite Ec. reflexivity.
Qed.

Theorem rd_pow_ok r x e : ring_wf r -> 0 <= e ->
  rd_pow w f2 f3 r (x mod r_m r * 2 ^ r_shift r) e = Ok ((x ^ e) mod r_m r * 2 ^ r_shift r).
Proof.
  intros Hwf He. unfold rd_pow. destruct (rd_from_normalized_rep r x Hwf) as (a & -> & Ha).
  cbn [rbind]. destruct (pow_ok r x a e Hwf Ha He) as (c & -> & [_ Ec]).
  cbn [rbind]. rewrite Ec. reflexivity.
Qed.

Theorem rd_inv_ok r x : ring_wf r ->
  exists o, rd_inv w finv fgcd r (x mod r_m r * 2 ^ r_shift r) = Ok o /\
    match o with
    | Some t => exists v, t = v mod r_m r * 2 ^ r_shift r /\ is_inverse (r_m r) x (v mod r_m r) /\ Z.gcd x (r_m r) = 1
    | None => Z.gcd x (r_m r) <> 1
    end.
Proof.
  intros Hwf. unfold rd_inv. destruct (rd_from_normalized_rep r x Hwf) as (a & -> & Ha).
  cbn [rbind]. destruct (inv_asis_ok r x a Hwf Ha) as (o & -> & Hp). cbn [rbind].
  eexists; split; [reflexivity|]. destruct o as [c|]; cbn [inv_post] in Hp; [|exact Hp].
  destruct Hp as (v & [_ Ec] & Hi & G). exists v. split; [exact Ec | split; assumption].
Qed.

Theorem rd_residue_ok r x : ring_wf r ->
  rd_residue r (x mod r_m r * 2 ^ r_shift r) = reduce_spec (r_m r) x /\ rd_modulus r = r_m r /\
  rd_is_zero (x mod r_m r * 2 ^ r_shift r) = (reduce_spec (r_m r) x =? 0).
Proof.
  intros Hwf. pose proof (wf_facts w w_ge r Hwf) as (P & _ & _ & _ & Hdiv).
  unfold rd_residue, rd_modulus, rd_is_zero, reduce_spec. rewrite Z.div_mul by lia.
  split; [reflexivity|]. split; [exact Hdiv|].
  destruct (Z.eqb_spec (x mod r_m r) 0) as [->|NE]; [reflexivity | apply Z.eqb_neq; nia].
Qed.

(** ---------------- the repaired defects stay refuted ---------------- *)
(** F03: before the repair, check accepted the normalised divisor itself in multi-word rings
    (it is not the form of any residue), and a sum equal to it came back unreduced *)
Lemma rd_check_prefix_refuted r : ring_wf r -> r_kind r = KLarge ->
  rd_check_prefix w r (nd r) = true /\ rd_check w r (nd r) = false /\
  forall x y, x + y = nd r -> rd_add_with w false r x y = Ok (nd r).
Proof.
  intros Hwf Hk. pose proof (large_nd_lb r Hwf Hk) as Hlb. pose proof (wf_facts w w_ge r Hwf) as (P & _).
  pose proof (B_pos w w_ge).
  assert (rd_check_prefix w r (nd r) = true) as E1.
  { unfold rd_check_prefix, rd_check_with. rewrite Hk.
    replace (nd r <? B * B) with false by (symmetry; apply Z.ltb_ge; nia).
    rewrite Z.leb_refl. unfold nd. rewrite Z.mod_mul by lia. reflexivity. }
  split; [exact E1|]. split.
  - unfold rd_check, rd_check_with. rewrite Hk.
    replace (nd r <? B * B) with false by (symmetry; apply Z.ltb_ge; nia).
    rewrite Z.ltb_irrefl. reflexivity.
  - intros x y E. unfold rd_add_with, rd_reduce_once_with. rewrite E. fold (rd_check_prefix w r (nd r)). rewrite E1. reflexivity.
Qed.

End Ops.
