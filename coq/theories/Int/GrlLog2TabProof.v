(** C12 - the no_std log2 table estimator encloses the binary logarithm of EVERY u8 / u16 value
    (finite domain 0..65535, decided by computation with the proved-sound bracket decision). *)
From Dashu Require Import Base.Prelude Int.GrlSpec Int.GrlSpecProof Int.GrlLog2Tab.
Open Scope Z_scope.

Lemma zrange_in : forall cnt lo n, lo <= n < lo + Z.of_nat cnt -> In n (zrange lo cnt).
Proof.
  induction cnt as [|k IH]; intros lo n H; [cbn in H; lia|].
  cbn [zrange]. destruct (Z.eq_dec lo n) as [E|NE]; [left; exact E|right]. apply IH. lia.
Qed.

Lemma zrange_in' : forall c lo n, 0 <= c -> lo <= n < lo + c -> In n (zrange lo (Z.to_nat c)).
Proof. intros c lo n Hc H. apply zrange_in. rewrite Z2Nat.id by exact Hc. exact H. Qed.

Lemma nostd_check_all : forallb nostd_check (zrange 0 (Z.to_nat 65536)) = true.
Proof. vm_cast_no_check (eq_refl true). Qed.

(** for every u16 value (this includes every u8 value, which takes the u8 path) the no_std bounds
    satisfy  lower <= log2 n <= upper,  as integer inequalities
    2^lm <= n^(2^lk)  and  n^(2^uk) <= 2^um *)
Theorem nostd_log2_u16_encloses : forall n, 0 <= n <= 65535 ->
  match nostd_log2_u16 n with
  | None => n = 0
  | Some ((lm, lk), (um, uk)) => log2_lb_holds lm lk n 1 /\ log2_ub_holds um uk n 1
  end.
Proof.
  intros n Hn. pose proof nostd_check_all as A. rewrite forallb_forall in A.
  specialize (A n (zrange_in' 65536 0 n ltac:(lia) ltac:(lia))). unfold nostd_check in A.
  destruct (nostd_log2_u16 n) as [[[lm lk] [um uk]]|]; [|apply Z.eqb_eq; exact A].
  destruct (log2_lb_dec 40 lm lk n 1) as [[|]|] eqn:E1; try discriminate.
  destruct (log2_lb_dec 40 (- um) uk 1 n) as [[|]|] eqn:E2; try discriminate.
  split.
  - exact (log2_lb_dec_sound 40 lm lk n 1 true ltac:(lia) ltac:(lia) E1).
  - exact (log2_lb_dec_sound 40 (- um) uk 1 n true ltac:(lia) ltac:(lia) E2).
Qed.

(** the estimate is tight: the two bounds differ by at most 4/256 on the u16 path *)
Lemma nostd_gap_all : forallb (fun n => pow2b n || ((0 <=? nostd_gap n) && (nostd_gap n <=? 4))) (zrange 256 (Z.to_nat 65280)) = true.
Proof. vm_cast_no_check (eq_refl true). Qed.

Theorem nostd_gap_small : forall n, 256 <= n <= 65535 -> pow2b n = false -> 0 <= nostd_gap n <= 4.
Proof.
  intros n Hn P. pose proof nostd_gap_all as A. rewrite forallb_forall in A.
  specialize (A n (zrange_in' 65280 256 n ltac:(lia) ltac:(lia))). rewrite P in A. cbn [orb] in A.
  apply andb_prop in A. destruct A as [A1 A2]. apply Z.leb_le in A1, A2. lia.
Qed.

Example nostd_log2_ex : nostd_log2_u16 1234 = Some ((2628, 8%nat), (2631, 8%nat)) /\
  nostd_log2_u16 12345 = Some ((3478, 8%nat), (3480, 8%nat)) /\
  nostd_log2_u16 0xffff = Some ((4095, 8%nat), (4096, 8%nat)) /\
  nostd_log2_u16 7 = Some ((log2_fp8 2401, 10%nat), (ceil_log2_fp8 2401, 10%nat)).
Proof. repeat split; vm_compute; reflexivity. Qed.
