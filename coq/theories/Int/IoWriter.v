(** C07 (round 3): fmt/digit_writer.rs DigitWriter - the buffer of BUFFER_LEN = round_up(BUFFER_LEN_MIN,
    DIGIT_CHUNK_LEN) raw digits, `write` (copy what fits, flush when full, go on), `flush` (zero-fill to a
    multiple of the chunk length, SWAR-convert chunk by chunk, emit the first buffer_len bytes).
    For EVERY chunk length (word size) and EVERY way the printers cut their digits into `write` calls
    (PreparedWord: one call, PreparedMedium: one per group, the power-of-two walk: one per digit) the
    characters written are the byte-wise map of the digits; BUFFER_LEN_MIN is the regenerated constant. *)
From Dashu Require Import Base.Prelude Base.Words Int.IoSpec Int.IoModel Int.IoSwar.
From DashuGen Require Import IoTables IoTables3.
Open Scope Z_scope.

Lemma Forall_firstn' {A} (P : A -> Prop) k : forall l, Forall P l -> Forall P (firstn k l).
Proof. induction k as [|k IH]; intros l H; [constructor|]. destruct l; [constructor|]. inversion H; subst. cbn [firstn]. constructor; auto. Qed.
Lemma Forall_skipn' {A} (P : A -> Prop) k : forall l, Forall P l -> Forall P (skipn k l).
Proof. induction k as [|k IH]; intros l H; [exact H|]. destruct l; [constructor|]. inversion H; subst. cbn [skipn]. auto. Qed.

Section Writer.
Variable n : nat.    (* arch::digits::DIGIT_CHUNK_LEN = WORD_BYTES *)
Variable off : Z.    (* digit_case as Word *)

Definition round_up_nat (a k : nat) : nat := ((a + k - 1) / k * k)%nat.
Definition buffer_len : nat := round_up_nat (Z.to_nat gen_writer_buffer_min) n.

Fixpoint swar_chunks (fuel : nat) (bs : list Z) : list Z :=
  match fuel with
  | O => []
  | S f => match bs with [] => [] | _ => swar_chunk n off (firstn n bs) ++ swar_chunks f (skipn n bs) end
  end.

Definition dw_flush (buf : list Z) : list Z :=
  let padded := buf ++ repeat 0 (round_up_nat (length buf) n - length buf) in
  firstn (length buf) (swar_chunks (length padded) padded).

(** state: (buffer[..buffer_len], what the underlying writer has received) *)
Fixpoint dw_write (fuel : nat) (buf out data : list Z) : list Z * list Z :=
  match fuel with
  | O => (buf, out)
  | S f =>
    match data with
    | [] => (buf, out)
    | _ =>
      let l := Nat.min (length data) (buffer_len - length buf) in
      let buf' := buf ++ firstn l data in
      if (length buf' =? buffer_len)%nat then dw_write f [] (out ++ dw_flush buf') (skipn l data)
      else dw_write f buf' out (skipn l data)
    end
  end.

(** a DigitWriter::new, the given `write` calls, the final `flush` *)
Definition dw_run (writes : list (list Z)) : list Z :=
  let st := fold_left (fun st d => dw_write (length d) (fst st) (snd st) d) writes ([], []) in
  snd st ++ dw_flush (fst st).

Hypothesis n_pos : (0 < n)%nat.
Hypothesis off_ok : 0 <= off <= 172.
Let valid (d : Z) : Prop := 0 <= d < 36.
Let ch (d : Z) : Z := gen_swar_zero + d + (if d <? 10 then 0 else off).

Lemma round_up_ge a : (a <= round_up_nat a n)%nat.
Proof.
  unfold round_up_nat. pose proof (Nat.mul_succ_div_gt (a + n - 1) n ltac:(lia)) as H.
  rewrite (Nat.mul_comm n) in H. cbn [Nat.mul] in H. lia.
Qed.

Lemma round_up_mult a : exists k, round_up_nat a n = (k * n)%nat.
Proof. eexists. reflexivity. Qed.

Lemma buffer_len_pos : (0 < buffer_len)%nat.
Proof.
  unfold buffer_len. pose proof (round_up_ge (Z.to_nat gen_writer_buffer_min)) as H.
  assert (E : (0 < Z.to_nat gen_writer_buffer_min)%nat) by (unfold gen_writer_buffer_min; lia). lia.
Qed.

Lemma swar_chunks_ok fuel : forall k bs, length bs = (k * n)%nat -> (length bs <= fuel)%nat -> Forall valid bs ->
  swar_chunks fuel bs = map ch bs.
Proof.
  induction fuel as [|f IH]; intros k bs Hl Hf Hv.
  - destruct bs; [reflexivity | cbn [length] in Hf; lia].
  - destruct bs as [|b t]; [reflexivity|]. set (bs := b :: t) in *.
    change (swar_chunks (S f) bs) with (swar_chunk n off (firstn n bs) ++ swar_chunks f (skipn n bs)).
    destruct k as [|k]; [unfold bs in Hl; cbn [length Nat.mul] in Hl; lia|].
    assert (Hn : (n <= length bs)%nat) by (rewrite Hl; cbn [Nat.mul]; lia).
    transitivity (map ch (firstn n bs ++ skipn n bs)); [|rewrite firstn_skipn; reflexivity]. rewrite map_app. f_equal.
    + apply swar_chunk_correct; [rewrite firstn_length; lia | apply Forall_firstn'; exact Hv | exact off_ok].
    + apply (IH k); [rewrite skipn_length, Hl; cbn [Nat.mul]; lia | rewrite skipn_length; lia | apply Forall_skipn'; exact Hv].
Qed.

Lemma dw_flush_ok buf : Forall valid buf -> dw_flush buf = map ch buf.
Proof.
  intros Hv. unfold dw_flush. destruct (round_up_mult (length buf)) as [k Hk]. pose proof (round_up_ge (length buf)) as Hge.
  set (pad := repeat 0 (round_up_nat (length buf) n - length buf)).
  rewrite (swar_chunks_ok _ k); [| rewrite app_length; unfold pad; rewrite repeat_length; lia | lia |].
  - rewrite map_app, firstn_app, map_length, Nat.sub_diag. cbn [firstn]. rewrite app_nil_r.
    rewrite firstn_all2 by (rewrite map_length; lia). reflexivity.
  - apply Forall_app. split; [exact Hv|]. unfold pad. apply Forall_forall. intros x Hx. apply repeat_spec in Hx. subst x. unfold valid. lia.
Qed.

Lemma dw_write_ok fuel : forall buf out data, (length data <= fuel)%nat -> (length buf < buffer_len)%nat ->
  Forall valid buf -> Forall valid data ->
  let st := dw_write fuel buf out data in
  snd st ++ map ch (fst st) = out ++ map ch buf ++ map ch data /\ (length (fst st) < buffer_len)%nat /\ Forall valid (fst st).
Proof.
  induction fuel as [|f IH]; intros buf out data Hf Hb Hvb Hvd.
  - destruct data; [|cbn [length] in Hf; lia]. cbn [dw_write fst snd map]. rewrite app_nil_r. auto.
  - destruct data as [|d t]; [cbn [dw_write fst snd map]; rewrite app_nil_r; auto|].
    set (data := d :: t) in *.
    change (dw_write (S f) buf out data) with
      (let l := Nat.min (length data) (buffer_len - length buf) in
       let buf' := buf ++ firstn l data in
       if (length buf' =? buffer_len)%nat then dw_write f [] (out ++ dw_flush buf') (skipn l data)
       else dw_write f buf' out (skipn l data)).
    cbv zeta. set (l := Nat.min (length data) (buffer_len - length buf)).
    assert (Hl : (1 <= l)%nat) by (unfold l, data; cbn [length]; lia).
    assert (Hlen' : length (buf ++ firstn l data) = (length buf + l)%nat) by (rewrite app_length, firstn_length; unfold l; lia).
    assert (Hv' : Forall valid (buf ++ firstn l data)) by (apply Forall_app; split; [exact Hvb | apply Forall_firstn'; exact Hvd]).
    assert (Hsk : (length (skipn l data) <= f)%nat) by (rewrite skipn_length; lia).
    assert (Hsplit : map ch data = map ch (firstn l data) ++ map ch (skipn l data)) by (rewrite <- map_app, firstn_skipn; reflexivity).
    destruct (Nat.eqb_spec (length (buf ++ firstn l data)) buffer_len) as [E|NE].
    + destruct (IH [] (out ++ dw_flush (buf ++ firstn l data)) (skipn l data) Hsk buffer_len_pos (Forall_nil _) (Forall_skipn' _ _ _ Hvd)) as (H1 & H2 & H3).
      split; [|split; [exact H2 | exact H3]]. rewrite H1. rewrite (dw_flush_ok _ Hv'). cbn [map app]. rewrite map_app, Hsplit, <- !app_assoc. reflexivity.
    + destruct (IH (buf ++ firstn l data) out (skipn l data) Hsk ltac:(unfold l in *; lia) Hv' (Forall_skipn' _ _ _ Hvd)) as (H1 & H2 & H3).
      split; [|split; [exact H2 | exact H3]]. rewrite H1. rewrite map_app, Hsplit, <- !app_assoc. reflexivity.
Qed.

Lemma dw_fold_ok writes : forall buf out, (length buf < buffer_len)%nat -> Forall valid buf -> Forall valid (concat writes) ->
  let st := fold_left (fun st d => dw_write (length d) (fst st) (snd st) d) writes (buf, out) in
  snd st ++ map ch (fst st) = out ++ map ch buf ++ map ch (concat writes) /\ Forall valid (fst st).
Proof.
  induction writes as [|d t IH]; intros buf out Hb Hvb Hv; cbn [fold_left concat].
  - cbn [fst snd map]. rewrite app_nil_r. auto.
  - cbn [concat] in Hv. apply Forall_app in Hv. destruct Hv as [Hvd Hvt]. cbn [fst snd].
    destruct (dw_write_ok (length d) buf out d (le_n _) Hb Hvb Hvd) as (H1 & H2 & H3).
    destruct (dw_write (length d) buf out d) as [b' o'] eqn:E. cbn [fst snd] in *.
    destruct (IH b' o' H2 H3 Hvt) as (K1 & K2). split; [|exact K2]. rewrite K1. rewrite app_assoc, H1, map_app, <- !app_assoc. reflexivity.
Qed.

(** whatever the partition into write calls: the text is the map of the digits *)
Theorem dw_run_ok writes : Forall valid (concat writes) -> dw_run writes = map ch (concat writes).
Proof.
  intros Hv. unfold dw_run. destruct (dw_fold_ok writes [] [] buffer_len_pos (Forall_nil _) Hv) as (H1 & H2).
  rewrite (dw_flush_ok _ H2). exact H1.
Qed.
End Writer.

(** with the DigitCase of the caller: the characters of the specification *)
Theorem digit_writer_text n (upper : bool) writes : (0 < n)%nat -> Forall (fun d => 0 <= d < 36) (concat writes) ->
  dw_run n (if upper then gen_case_upper else gen_case_lower) writes = map (digit_char upper) (concat writes).
Proof.
  intros Hn Hv. rewrite dw_run_ok; [|exact Hn | destruct upper; unfold gen_case_upper, gen_case_lower; lia | exact Hv].
  apply map_ext. intros d. unfold digit_char, gen_swar_zero, gen_case_upper, gen_case_lower. destruct (d <? 10); destruct upper; lia.
Qed.

Theorem digit_writer_text_no_letters n writes : (0 < n)%nat -> Forall (fun d => 0 <= d < 10) (concat writes) ->
  dw_run n 0 writes = map (digit_char false) (concat writes).
Proof.
  intros Hn Hv. rewrite dw_run_ok; [|exact Hn | lia | eapply Forall_impl; [|exact Hv]; cbn beta; intros; lia].
  apply map_ext_in. intros d Hin. rewrite Forall_forall in Hv. specialize (Hv d Hin).
  unfold digit_char, gen_swar_zero. destruct (Z.ltb_spec d 10); lia.
Qed.

(** 8-byte chunks, a 32-byte buffer: 70 digits written as one group of 3, thirty-three single digits and one of 34 *)
Example dw_run_ex : dw_run 8 gen_case_lower ([1; 10; 35] :: map (fun d => [d]) (repeat 7 33) ++ [repeat 11 34])
  = [49; 97; 122] ++ repeat 55 33 ++ repeat 98 34.
Proof. vm_compute. reflexivity. Qed.

(** for the correspondence run: the digits cut into groups of [group] and sent through a writer with [nbytes]-byte chunks *)
Definition dw_text (nbytes case_off group : Z) (ds : list Z) : list Z :=
  dw_run (Z.to_nat nbytes) case_off (chunks_of (length ds) (Z.to_nat group) ds).

Lemma concat_chunks_of k : (0 < k)%nat -> forall fuel s, (length s <= fuel)%nat -> concat (chunks_of fuel k s) = s.
Proof.
  intros Hk. induction fuel as [|f IH]; intros s Hl.
  - destruct s; [reflexivity | cbn [length] in Hl; lia].
  - destruct s as [|a t]; [reflexivity|]. set (s := a :: t) in *.
    change (chunks_of (S f) k s) with (firstn k s :: chunks_of f k (skipn k s)). cbn [concat].
    rewrite IH; [apply firstn_skipn|]. rewrite skipn_length. unfold s in *. cbn [length] in *. lia.
Qed.

Theorem dw_text_ok nbytes (upper : bool) group ds : 0 < nbytes -> 0 < group -> Forall (fun d => 0 <= d < 36) ds ->
  dw_text nbytes (if upper then gen_case_upper else gen_case_lower) group ds = map (digit_char upper) ds.
Proof.
  intros Hn Hg Hv. unfold dw_text.
  pose proof (concat_chunks_of (Z.to_nat group) ltac:(lia) (length ds) ds (le_n _)) as Hc.
  rewrite digit_writer_text; [rewrite Hc; reflexivity | lia | rewrite Hc; exact Hv].
Qed.
