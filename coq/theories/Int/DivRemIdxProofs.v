(** C02 - the index arithmetic of fast_rem_by_normalized_word / _dword never leaves the slice, never wraps, the
    fuel (the slice length) suffices, and the loops compute the list recursions of DivWordModel.v - for every
    slice of at least 1 resp. 2 words, any primitives. *)
From Coq Require Import ZArith List Bool Lia.
From Dashu Require Import Base.Prelude Base.Words Int.DivWordModel Int.DivRemIdx.
Import ListNotations.
Open Scope Z_scope.

Section RemIdxProofs.
Variable w : Z.
Notation B := (Words.B w).
Variable div1by1 div2by1 div2by2 : Z -> Z -> Z * Z.
Variable div3by2 div4by2 : Z -> Z -> Z -> Z * Z.

Lemma idx_ok ws i : 0 <= i < len ws -> idx ws i = Ok (nth (Z.to_nat i) ws 0).
Proof.
  intros H. unfold idx. destruct (Z.leb_spec 0 i); [|lia]. destruct (Z.ltb_spec i (len ws)); [reflexivity|lia].
Qed.

Lemma firstn_snoc {A} (d : A) : forall k l, (k < length l)%nat -> firstn (S k) l = firstn k l ++ [nth k l d].
Proof.
  induction k as [|k IH]; intros [|x l] H; cbn [length] in H; try lia; [reflexivity|].
  cbn [firstn nth app]. f_equal. apply IH. lia.
Qed.

Lemma skipn_cons_nth {A} (d : A) : forall k l, (k < length l)%nat -> skipn k l = nth k l d :: skipn (S k) l.
Proof.
  induction k as [|k IH]; intros [|x l] H; cbn [length] in H; try lia; [reflexivity|].
  cbn [skipn nth]. apply IH. lia.
Qed.

Lemma nth_firstn_lt {A} (d : A) : forall k n l, (n < k)%nat -> nth n (firstn k l) d = nth n l d.
Proof.
  induction k as [|k IH]; intros n l H; [lia|].
  destruct l as [|x l]; [reflexivity|]. cbn [firstn]. destruct n as [|n]; [reflexivity|]. cbn [nth]. apply IH. lia.
Qed.

(** *** double word *)
Definition dword_final (d : Z) (ws : list Z) (ir : Z * Z) : result Z :=
  let '(i, rem) := ir in if i =? 2 then rbind (idx ws 0) (fun x => Ok (snd (div3by2 d x rem))) else Ok rem.

Lemma rem_dword_while_spec d ws : forall n fuel rem, (n <= fuel)%nat -> (1 <= n)%nat -> (n < length ws)%nat ->
  rbind (rem_dword_while w div4by2 fuel d ws (Z.of_nat n) rem) (dword_final d ws) =
  Ok (rem_dword_chunks w div3by2 div4by2 d (rev (firstn (n - 1) ws)) rem).
Proof.
  induction n as [n IH] using lt_wf_ind. intros fuel rem Hf Hn1 HnL.
  destruct fuel as [|f]; [lia|].
  destruct (le_lt_dec n 2) as [Hle|Hgt].
  - cbn [rem_dword_while]. destruct (Z.gtb_spec (Z.of_nat n) 2); [lia|]. cbn [rbind dword_final].
    destruct (Nat.eq_dec n 2) as [->|Hne].
    + cbn [Z.of_nat Pos.of_succ_nat Pos.succ Z.eqb Pos.eqb]. rewrite idx_ok by (unfold len; lia). cbn [rbind].
      destruct ws as [|x t]; [cbn in HnL; lia|]. reflexivity.
    + assert (n = 1%nat) by lia. subst n. reflexivity.
  - cbn [rem_dword_while]. destruct (Z.gtb_spec (Z.of_nat n) 2); [|lia].
    rewrite !idx_ok by (unfold len; lia). cbn [rbind].
    replace (Z.of_nat n - 2) with (Z.of_nat (n - 2)) by lia.
    rewrite (IH (n - 2)%nat ltac:(lia) f _ ltac:(lia) ltac:(lia) ltac:(lia)).
    f_equal.
    replace (n - 1)%nat with (S (S (n - 3))) by lia.
    rewrite (firstn_snoc 0 (S (n - 3))) by lia. rewrite (firstn_snoc 0 (n - 3)) by lia.
    rewrite !rev_app_distr. cbn [rev app rem_dword_chunks].
    replace (Z.to_nat (Z.of_nat (n - 2) - 1)) with (n - 3)%nat by lia.
    replace (Z.to_nat (Z.of_nat (n - 2))) with (S (n - 3)) by lia.
    replace (n - 2 - 1)%nat with (n - 3)%nat by lia. reflexivity.
Qed.

Theorem fast_rem_dword_idx_correct d ws : (2 <= length ws)%nat ->
  fast_rem_dword_idx w div2by2 div3by2 div4by2 d ws = Ok (rem_dword_loop w div2by2 div3by2 div4by2 d ws).
Proof.
  intros HL. unfold fast_rem_dword_idx. destruct (Z.ltb_spec (len ws) 2); [unfold len in *; lia|].
  rewrite (idx_ok ws (len ws - 1 - 1)), (idx_ok ws (len ws - 1)) by (unfold len; lia). cbn [rbind].
  set (L := length ws) in *.
  replace (len ws - 1) with (Z.of_nat (L - 1)) by (unfold len; lia).
  match goal with |- rbind _ ?k = _ => change k with (dword_final d ws) end.
  rewrite (rem_dword_while_spec d ws (L - 1) L _ ltac:(lia) ltac:(lia) ltac:(lia)).
  f_equal. unfold rem_dword_loop.
  pose proof (firstn_snoc 0 (S (L - 2)) ws ltac:(lia)) as H1. rewrite (firstn_snoc 0 (L - 2)) in H1 by lia.
  replace (S (S (L - 2))) with (length ws) in H1 by lia. rewrite firstn_all in H1.
  assert (Hrev : rev ws = nth (S (L - 2)) ws 0 :: nth (L - 2) ws 0 :: rev (firstn (L - 2) ws)).
  { rewrite H1 at 1. rewrite <- app_assoc, rev_app_distr. reflexivity. }
  rewrite Hrev.
  replace (Z.to_nat (Z.of_nat (L - 1) - 1)) with (L - 2)%nat by lia.
  replace (Z.to_nat (Z.of_nat (L - 1))) with (S (L - 2)) by lia.
  replace (L - 1 - 1)%nat with (L - 2)%nat by lia. reflexivity.
Qed.

(** *** single word *)
Lemma rem_word_while_spec d ws lo : lo = firstn (length ws - 1) ws -> (1 <= length ws)%nat ->
  forall n fuel, (n <= fuel)%nat -> (n <= length ws - 1)%nat ->
  rem_word_while w div2by1 fuel d lo (Z.of_nat n) (rem_word_loop w div1by1 div2by1 d (skipn n ws)) =
  Ok (rem_word_loop w div1by1 div2by1 d ws).
Proof.
  intros Hlo HL. induction n as [|n IH]; intros fuel Hf Hn.
  - destruct fuel; reflexivity.
  - destruct fuel as [|f]; [lia|]. cbn [rem_word_while].
    destruct (Z.gtb_spec (Z.of_nat (S n)) 0); [|lia].
    assert (Hll : length lo = (length ws - 1)%nat) by (subst lo; rewrite firstn_length_le; lia).
    rewrite idx_ok by (unfold len; lia). cbn [rbind].
    replace (Z.of_nat (S n) - 1) with (Z.of_nat n) by lia. rewrite Nat2Z.id.
    rewrite <- (IH f ltac:(lia) ltac:(lia)). f_equal.
    rewrite (skipn_cons_nth 0 n ws) by lia.
    assert (Hnth : nth n lo 0 = nth n ws 0).
    { subst lo. apply nth_firstn_lt. lia. }
    rewrite Hnth. cbn [rem_word_loop].
    destruct (skipn (S n) ws) eqn:E; [|reflexivity].
    apply (f_equal (@length Z)) in E. rewrite skipn_length in E. cbn in E. lia.
Qed.

Theorem fast_rem_word_idx_correct d ws : (1 <= length ws)%nat ->
  fast_rem_word_idx w div1by1 div2by1 d ws = Ok (rem_word_loop w div1by1 div2by1 d ws).
Proof.
  intros HL. unfold fast_rem_word_idx. destruct (Z.ltb_spec (len ws) 1); [unfold len in *; lia|].
  rewrite idx_ok by (unfold len; lia). cbn [rbind].
  set (lo := firstn (length ws - 1) ws).
  assert (Hll : length lo = (length ws - 1)%nat) by (unfold lo; rewrite firstn_length_le; lia).
  unfold len. rewrite Hll.
  rewrite <- (rem_word_while_spec d ws lo eq_refl HL (length ws - 1) (length ws) ltac:(lia) ltac:(lia)).
  f_equal.
  rewrite (skipn_cons_nth 0 (length ws - 1) ws) by lia.
  replace (S (length ws - 1)) with (length ws) by lia. rewrite skipn_all. cbn [rem_word_loop].
  replace (Z.to_nat (Z.of_nat (length ws) - 1)) with (length ws - 1)%nat by lia. reflexivity.
Qed.

(** *** rem_by_word / rem_by_dword with the indexed loops are the models the theorems of C02 speak about *)
Theorem rem_by_word_idx_correct ws rhs : (1 <= length ws)%nat ->
  rem_by_word_idx w div1by1 div2by1 ws rhs = Ok (rem_by_word w div1by1 div2by1 ws rhs).
Proof.
  intros HL. unfold rem_by_word_idx, rem_by_word. destruct (is_pow2 rhs).
  - rewrite idx_ok by (unfold len; lia). cbn [rbind]. destruct ws; [cbn in HL; lia|]. reflexivity.
  - rewrite fast_rem_word_idx_correct by exact HL. reflexivity.
Qed.

Theorem rem_by_dword_idx_correct ws rhs : (2 <= length ws)%nat ->
  rem_by_dword_idx w div2by2 div3by2 div4by2 ws rhs = Ok (rem_by_dword w div2by2 div3by2 div4by2 ws rhs).
Proof.
  intros HL. unfold rem_by_dword_idx, rem_by_dword. destruct (is_pow2 rhs).
  - rewrite !idx_ok by (unfold len; lia). reflexivity.
  - rewrite fast_rem_dword_idx_correct by exact HL. reflexivity.
Qed.

End RemIdxProofs.

(** non-vacuity: both parities of the length (the `i == 2` tail and its absence) *)
Example fast_rem_dword_idx_example :
  let x := fun (d a : Z) => (a / d, a mod d) in
  let x3 := fun (d lo hi : Z) => ((lo + 16 * hi) / d, (lo + 16 * hi) mod d) in
  let x4 := fun (d lo hi : Z) => ((lo + 256 * hi) / d, (lo + 256 * hi) mod d) in
  fast_rem_dword_idx 4 x x3 x4 200 [1; 2; 3; 4; 5] = Ok (Words.value 4 [1; 2; 3; 4; 5] mod 200) /\
  fast_rem_dword_idx 4 x x3 x4 200 [1; 2; 3; 4; 5; 6] = Ok (Words.value 4 [1; 2; 3; 4; 5; 6] mod 200) /\
  fast_rem_dword_idx 4 x x3 x4 200 [7] = Panic Undocumented.
Proof. vm_compute. repeat split. Qed.
