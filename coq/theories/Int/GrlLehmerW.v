(** C12 round 4 - WORD-LEVEL as-is models of the two linear-update kernels of integer/src/gcd/lehmer.rs
    (definitions only):
      lehmer_step      (lines 196-223): (x, y) = (a*x - b*y, d*y - c*x) in SignedDoubleWord arithmetic with
                       signed carry words, the extra step for the top word of a longer x, the debug_asserts;
      lehmer_ext_step  (lines 305-331): (x, y) = (a*x + b*y, c*x + d*y) on the first [len] words in DoubleWord
                       arithmetic, returns the two carry words.
    Slices are little-endian lists of words, a word is an integer in [0, W), W = 2^w.  The arithmetic is that
    of the harness build (overflow checks and debug assertions ON): an overflowing intermediate result or a
    failed debug_assert is a [Panic].  GrlLehmerWProof.v proves that on the inputs the callers produce the
    models return the words of the value-level step of GrlLehmer.v and never panic. *)
From Dashu Require Import Base.Prelude Int.GrlSpec Int.GrlModel Int.GrlLehmer.
From Coq Require Import List.
Import ListNotations.
Open Scope Z_scope.

(** the value of a little-endian word list *)
Fixpoint wval (W : Z) (l : list Z) : Z :=
  match l with [] => 0 | x :: r => x + W * wval W r end.

(** the words of a value: [n] words, little endian *)
Fixpoint to_words (W : Z) (n : nat) (v : Z) : list Z :=
  match n with O => [] | S k => (v mod W) :: to_words W k (v / W) end.

(** SignedDoubleWord = [-(W/2)*W, (W/2)*W), DoubleWord = [0, W*W) *)
Definition fits_sd (W v : Z) : bool := (- (W / 2 * W) <=? v) && (v <? W / 2 * W).
Definition fits_ud (W v : Z) : bool := (0 <=? v) && (v <? W * W).

(** [split_signed_dword(p * u - q * v + cr as SignedDoubleWord)] (lines 206, 207): the products, the
    difference and the sum are checked; the low word is unsigned, the high word signed ([>>] on a signed
    type is the arithmetic shift, i.e. the floor division) *)
Definition sd_lin (W p u q v cr : Z) : result (Z * Z) :=
  let t := p * u - q * v + cr in
  if fits_sd W (p * u) && fits_sd W (q * v) && fits_sd W (p * u - q * v) && fits_sd W t
  then Ok (t mod W, t / W) else Panic Undocumented.

(** [for (x_i, y_i) in x.iter_mut().zip(y.iter_mut())] (lines 204-212): zip ends with the shorter slice, the
    other words stay as they are *)
Fixpoint lstep_loop (W a b c d : Z) (xs ys : list Z) (cx cy : Z) : result (list Z * list Z * Z * Z) :=
  match xs, ys with
  | x :: xs', y :: ys' =>
      match sd_lin W a x b y cx, sd_lin W d y c x cy with
      | Ok (xn, cx'), Ok (yn, cy') =>
          match lstep_loop W a b c d xs' ys' cx' cy' with
          | Ok (xr, yr, cxf, cyf) => Ok (xn :: xr, yn :: yr, cxf, cyf)
          | Panic r => Panic r | Err e => Err e | OutOfFuel => OutOfFuel
          end
      | Panic r, _ => Panic r
      | _, _ => Panic Undocumented
      end
  | _, _ => Ok (xs, ys, cx, cy)
  end.

(** [pub(crate) fn lehmer_step(x, y, a, b, c, d)] *)
Definition lstep_words (w a b c d : Z) (xs ys : list Z) : result (list Z * list Z) :=
  let W := 2 ^ w in
  let L := coeff_limit w in
  let m := Z.of_nat (length xs) in
  let n := Z.of_nat (length ys) in
  if negb ((n <=? m) && (m - n <=? 1)) then Panic Undocumented                       (* line 197 *)
  else if negb ((a <=? L) && (b <=? L) && (c <=? L) && (d <=? L)) then Panic Undocumented (* lines 198-199 *)
  else
    match lstep_loop W a b c d xs ys 0 0 with
    | Ok (xs1, ys1, cx, cy) =>
        if cx =? 0 then Ok (xs1, ys1)                                                 (* line 215 *)
        else
          match xs1 with
          | [] => Panic Undocumented                                                  (* x.last_mut().unwrap() *)
          | _ =>
              let xt := last xs1 0 in
              if negb (cy =? c * xt) then Panic Undocumented                          (* line 217 *)
              else
                let t := a * xt + cx in
                if negb (fits_sd W (a * xt) && fits_sd W t) then Panic Undocumented
                else if negb (t / W =? 0) then Panic Undocumented                     (* line 220 *)
                else Ok (removelast xs1 ++ [t mod W], ys1)                            (* line 221 *)
          end
    | Panic r => Panic r | Err e => Err e | OutOfFuel => OutOfFuel
    end.

(** [split_dword(p * u + q * v + extend_word(cr))] (lines 323, 324) *)
Definition ud_lin (W p u q v cr : Z) : result (Z * Z) :=
  let t := p * u + q * v + cr in
  if fits_ud W (p * u) && fits_ud W (q * v) && fits_ud W (p * u + q * v) && fits_ud W t
  then Ok (t mod W, t / W) else Panic Undocumented.

(** [for (x_i, y_i) in x.iter_mut().zip(y.iter_mut()).take(len)] (lines 321-329) *)
Fixpoint lext_loop (W a b c d : Z) (len : nat) (xs ys : list Z) (cx cy : Z) : result (list Z * list Z * Z * Z) :=
  match len, xs, ys with
  | S k, x :: xs', y :: ys' =>
      match ud_lin W a x b y cx, ud_lin W c x d y cy with
      | Ok (xn, cx'), Ok (yn, cy') =>
          match lext_loop W a b c d k xs' ys' cx' cy' with
          | Ok (xr, yr, cxf, cyf) => Ok (xn :: xr, yn :: yr, cxf, cyf)
          | Panic r => Panic r | Err e => Err e | OutOfFuel => OutOfFuel
          end
      | Panic r, _ => Panic r
      | _, _ => Panic Undocumented
      end
  | _, _, _ => Ok (xs, ys, cx, cy)
  end.

(** [fn lehmer_ext_step(x, y, len, a, b, c, d) -> (Word, Word)] *)
Definition lext_words (w a b c d len : Z) (xs ys : list Z) : result (list Z * list Z * Z * Z) :=
  let W := 2 ^ w in
  let L := coeff_limit w in
  if negb ((0 <=? len) && (len <=? Z.of_nat (length xs)) && (len <=? Z.of_nat (length ys))) then Panic Undocumented  (* line 314 *)
  else if negb ((a <=? L) && (b <=? L) && (c <=? L) && (d <=? L)) then Panic Undocumented   (* lines 315-316 *)
  else lext_loop W a b c d (Z.to_nat len) xs ys 0 0.

(** the Lehmer branch of one iteration of gcd_in_place / gcd_ext_in_place on word lists: guess from the
    values (GrlLehmer.lehmer_guess_for), then the word-level step; [None] = the guess failed (b = 0,
    Euclidean step, not a word loop of this file) *)
Definition lehmer_iter_words (mdl w : Z) (xs ys : list Z) : result (option (Z * Z * Z * Z * list Z * list Z)) :=
  let W := 2 ^ w in
  match lehmer_guess_for mdl w (wval W xs) (wval W ys) with
  | Ok (a, b, c, d) =>
      if b =? 0 then Ok None
      else match lstep_words w a b c d xs ys with
           | Ok (xs1, ys1) => Ok (Some (a, b, c, d, xs1, ys1))
           | Panic r => Panic r | Err e => Err e | OutOfFuel => OutOfFuel
           end
  | Panic r => Panic r | Err e => Err e | OutOfFuel => OutOfFuel
  end.
