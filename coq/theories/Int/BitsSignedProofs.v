(** C09: impl_ibig_bitand / impl_ibig_bitor / impl_ibig_bitxor run over the word-level kernels
    (Int/BitsKernels.v) give exactly the sign-case tables regenerated from bits.rs
    (DashuGen.SignTables), hence Z.land / Z.lor / Z.lxor of the signed values. *)
From Dashu Require Import Base.Prelude Base.Words Int.BitsSpec Int.BitsSign Int.BitsWords Int.BitsKernels Int.BitsKernelsBase
  Int.BitsLogicProofs Int.BitsCountProofs.
From DashuGen Require Import SignTables.
Open Scope Z_scope.

Section Signed.
Variable w : Z.
Hypothesis w_pos : 0 < w.

(** the magnitude of a negative number is at least 1 *)
Definition mag_ok (s : sign) (r : brepr) : Prop := brepr_ok w r /\ (s = Negative -> 1 <= bvalue w r).

Lemma sub_one_ok r : brepr_ok w r -> 1 <= bvalue w r ->
  bvalue w (sub_one_typed w r) = bvalue w r - 1 /\ brepr_ok w (sub_one_typed w r).
Proof. intros Hk H1. unfold sub_one_typed. apply (to_brepr_ok w w_pos). lia. Qed.

Theorem ibig_bitand_asis_table o s0 r0 s1 r1 : mag_ok s0 r0 -> mag_ok s1 r1 ->
  ibig_bitand_asis w o s0 r0 s1 r1 = ibig_bitand_gen s0 (bvalue w r0) s1 (bvalue w r1).
Proof.
  intros [K0 N0] [K1 N1]. unfold ibig_bitand_asis, ibig_bitand_gen. destruct s0, s1.
  - apply (repr_bitand_correct w w_pos); assumption.
  - destruct (sub_one_ok r1 K1 (N1 eq_refl)) as [V K].
    rewrite (proj1 (repr_and_not_correct w w_pos _ _ K0 K)), V. reflexivity.
  - destruct (sub_one_ok r0 K0 (N0 eq_refl)) as [V K].
    rewrite (proj1 (repr_and_not_correct w w_pos _ _ K1 K)), V. reflexivity.
  - destruct (sub_one_ok r0 K0 (N0 eq_refl)) as [V0 K0']. destruct (sub_one_ok r1 K1 (N1 eq_refl)) as [V1 K1'].
    rewrite (proj1 (repr_bitor_correct w w_pos VV _ _ K0' K1')), V0, V1. reflexivity.
Qed.

Theorem ibig_bitor_asis_table o s0 r0 s1 r1 : mag_ok s0 r0 -> mag_ok s1 r1 ->
  ibig_bitor_asis w o s0 r0 s1 r1 = ibig_bitor_gen s0 (bvalue w r0) s1 (bvalue w r1).
Proof.
  intros [K0 N0] [K1 N1]. unfold ibig_bitor_asis, ibig_bitor_gen. destruct s0, s1.
  - apply (repr_bitor_correct w w_pos); assumption.
  - destruct (sub_one_ok r1 K1 (N1 eq_refl)) as [V K].
    rewrite (proj1 (repr_and_not_correct w w_pos _ _ K K0)), V. reflexivity.
  - destruct (sub_one_ok r0 K0 (N0 eq_refl)) as [V K].
    rewrite (proj1 (repr_and_not_correct w w_pos _ _ K K1)), V. reflexivity.
  - destruct (sub_one_ok r0 K0 (N0 eq_refl)) as [V0 K0']. destruct (sub_one_ok r1 K1 (N1 eq_refl)) as [V1 K1'].
    rewrite (proj1 (repr_bitand_correct w w_pos VV _ _ K0' K1')), V0, V1. reflexivity.
Qed.

Theorem ibig_bitxor_asis_table o s0 r0 s1 r1 : mag_ok s0 r0 -> mag_ok s1 r1 ->
  ibig_bitxor_asis w o s0 r0 s1 r1 = ibig_bitxor_gen s0 (bvalue w r0) s1 (bvalue w r1).
Proof.
  intros [K0 N0] [K1 N1]. unfold ibig_bitxor_asis, ibig_bitxor_gen. destruct s0, s1.
  - apply (repr_bitxor_correct w w_pos); assumption.
  - destruct (sub_one_ok r1 K1 (N1 eq_refl)) as [V K].
    rewrite (proj1 (repr_bitxor_correct w w_pos _ _ _ K0 K)), V. reflexivity.
  - destruct (sub_one_ok r0 K0 (N0 eq_refl)) as [V K].
    rewrite (proj1 (repr_bitxor_correct w w_pos _ _ _ K K1)), V. reflexivity.
  - destruct (sub_one_ok r0 K0 (N0 eq_refl)) as [V0 K0']. destruct (sub_one_ok r1 K1 (N1 eq_refl)) as [V1 K1'].
    rewrite (proj1 (repr_bitxor_correct w w_pos VV _ _ K0' K1')), V0, V1. reflexivity.
Qed.

Theorem ibig_bitops_asis_table o s0 r0 s1 r1 : mag_ok s0 r0 -> mag_ok s1 r1 ->
  ibig_bitand_asis w o s0 r0 s1 r1 = ibig_bitand_gen s0 (bvalue w r0) s1 (bvalue w r1) /\
  ibig_bitor_asis w o s0 r0 s1 r1 = ibig_bitor_gen s0 (bvalue w r0) s1 (bvalue w r1) /\
  ibig_bitxor_asis w o s0 r0 s1 r1 = ibig_bitxor_gen s0 (bvalue w r0) s1 (bvalue w r1).
Proof.
  intros H0 H1.
  split; [apply ibig_bitand_asis_table | split; [apply ibig_bitor_asis_table | apply ibig_bitxor_asis_table]]; assumption.
Qed.

(** ... and therefore the two's-complement operation on the signed values *)
Theorem ibig_bitops_asis_correct o s0 r0 s1 r1 : mag_ok s0 r0 -> mag_ok s1 r1 ->
  ibig_bitand_asis w o s0 r0 s1 r1 = Z.land (signed s0 (bvalue w r0)) (signed s1 (bvalue w r1)) /\
  ibig_bitor_asis w o s0 r0 s1 r1 = Z.lor (signed s0 (bvalue w r0)) (signed s1 (bvalue w r1)) /\
  ibig_bitxor_asis w o s0 r0 s1 r1 = Z.lxor (signed s0 (bvalue w r0)) (signed s1 (bvalue w r1)).
Proof.
  intros H0 H1.
  rewrite (ibig_bitand_asis_table o s0 r0 s1 r1 H0 H1), (ibig_bitor_asis_table o s0 r0 s1 r1 H0 H1),
    (ibig_bitxor_asis_table o s0 r0 s1 r1 H0 H1).
  split; [apply ibig_bitand_correct | split; [apply ibig_bitor_correct | apply ibig_bitxor_correct]].
Qed.

End Signed.
