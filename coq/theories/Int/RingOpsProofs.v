(** C01 (L1): the Small/Large arms of + and - (add_ops.rs mod repr / repr_signed) and the IBig sign
    dispatch return exactly the sum / difference (UBig subtraction below zero = Panic NegativeUBig,
    never anything else), for every ownership form, every word size w >= 8 and all operand lengths.
    Results are well-formed typed representations again (normalised, inline iff <= 2 words). *)
From Dashu Require Import Base.Prelude Base.Words Int.RingAdd Int.RingAddProofs Int.RingMul Int.RingMulProofs Int.RingOps.
Open Scope Z_scope.

Section OpsProofs.
Variable w : Z.
Hypothesis w_ge : 8 <= w.
Let w_pos : 0 < w. Proof. lia. Qed.
Notation BB := (B w).
Notation val := (value w).
Notation wfw := (wf w).
Notation rv := (repr_value w).
Let HB : 0 < BB := B_pos w w_pos.
Let HB256 : 256 <= BB := B_ge_256 w w_ge.

(** a typed representation as repr.rs keeps it: inline iff it fits a double word, heap buffers
    have >= 3 words and a non-zero top word *)
Definition twf (r : trepr) : Prop :=
  match r with
  | Small d => 0 <= d < BB * BB
  | Large ws => wfw ws /\ (3 <= length ws)%nat /\ nth (length ws - 1) ws 0 <> 0
  end.

Lemma top_lower ws : wfw ws -> (1 <= length ws)%nat -> nth (length ws - 1) ws 0 <> 0 ->
  BB ^ Z.of_nat (length ws - 1) <= val ws.
Proof.
  intros Hw Hl Ht. pose proof (val_lower_bound w w_pos ws (length ws - 1) Hw ltac:(lia)) as H.
  pose proof (wf_nth w (length ws - 1) ws Hw ltac:(lia)) as Hn.
  pose proof (pow_nat_pos w w_ge (length ws - 1)). nia.
Qed.

Lemma large_ge ws : twf (Large ws) -> BB * BB <= val ws.
Proof.
  intros (Hw & Hl & Ht). pose proof (top_lower ws Hw ltac:(lia) Ht).
  assert (BB * BB <= BB ^ Z.of_nat (length ws - 1)).
  { replace (BB * BB) with (BB ^ 2) by ring. apply Z.pow_le_mono_r; lia. }
  lia.
Qed.

Lemma twf_nonneg r : twf r -> 0 <= rv r.
Proof. destruct r; cbn [twf repr_value]; [lia | intros H; pose proof (large_ge _ H); nia]. Qed.

(** a shorter normalised buffer is smaller *)
Lemma shorter_lt a b : wfw a -> wfw b -> (length a < length b)%nat -> nth (length b - 1) b 0 <> 0 -> val a < val b.
Proof.
  intros Ha Hb L Ht. pose proof (top_lower b Hb ltac:(lia) Ht). pose proof (val_lt_pow w w_ge a _ Ha eq_refl).
  assert (BB ^ Z.of_nat (length a) <= BB ^ Z.of_nat (length b - 1)) by (apply Z.pow_le_mono_r; lia). lia.
Qed.

(** ------------------------------------------------------------------ Buffer::pop_zeros / Repr::from_buffer *)
Lemma pop_zeros_spec ws : wfw ws ->
  wfw (pop_zeros ws) /\ val (pop_zeros ws) = val ws /\
  (pop_zeros ws <> [] -> nth (length (pop_zeros ws) - 1) (pop_zeros ws) 0 <> 0).
Proof.
  intros H. unfold pop_zeros. split; [apply wf_firstn; auto|]. split; [apply val_firstn_trim; exact w_pos|].
  intros Hne. pose proof (trim_len_le ws). destruct (trim_len ws) as [|k] eqn:E; [cbn [firstn] in Hne; congruence|].
  rewrite firstn_length_le by lia. replace (S k - 1)%nat with k by lia.
  rewrite nth_firstn_lt by lia. apply (trim_len_top ws k E).
Qed.

Lemma from_buffer_spec ws : wfw ws -> rv (from_buffer w ws) = val ws /\ twf (from_buffer w ws).
Proof.
  intros H. destruct (pop_zeros_spec ws H) as (Wt & Vt & Tt). unfold from_buffer. rewrite <- Vt.
  destruct (pop_zeros ws) as [|x [|y [|z t]]]; cbn [repr_value twf value].
  - split; [reflexivity | nia].
  - apply wf_cons in Wt. destruct Wt as [Hx _]. split; [lia | nia].
  - apply wf_cons in Wt. destruct Wt as [Hx Wt]. apply wf_cons in Wt. destruct Wt as [Hy _]. split; [lia | nia].
  - split; [reflexivity|]. split; [auto|]. split; [cbn [length]; lia|]. apply Tt. discriminate.
Qed.

(** ------------------------------------------------------------------ addition *)
Lemma mod_sq_over x : BB * BB <= x < 2 * (BB * BB) -> x mod (BB * BB) = x - BB * BB.
Proof. intros H. replace x with ((x - BB * BB) + 1 * (BB * BB)) at 1 by ring. rewrite Z.mod_add, Z.mod_small by nia. reflexivity. Qed.

Lemma add_dword_correct a b : 0 <= a < BB * BB -> 0 <= b < BB * BB ->
  rv (add_dword w a b) = a + b /\ twf (add_dword w a b).
Proof.
  intros Ha Hb. unfold add_dword. destruct (Z.leb_spec (BB * BB) (a + b)) as [H|H].
  - rewrite mod_sq_over by lia. set (res := a + b - BB * BB).
    destruct (dword_split w w_pos res ltac:(subst res; lia)) as (D1 & D2 & D3).
    destruct (from_buffer_spec [res mod BB; res / BB; 1]) as (V & T).
    { apply wf_cons; split; [lia|]. apply wf_cons; split; [lia|]. apply wf_cons; split; [nia | apply wf_nil]. }
    split; [|exact T]. rewrite V. cbn [value]. subst res. nia.
  - rewrite Z.mod_small by lia. cbn [repr_value twf]. lia.
Qed.

Lemma val_snoc l x : val (l ++ [x]) = val l + BB ^ len l * x.
Proof. rewrite value_app. cbn [value]. ring. Qed.
Lemma wf_snoc l x : wfw l -> 0 <= x < BB -> wfw (l ++ [x]).
Proof. intros H Hx. apply wf_app. split; [auto|]. apply wf_cons. split; [lia | apply wf_nil]. Qed.

Lemma add_large_dword_correct buffer rhs : twf (Large buffer) -> 0 <= rhs < BB * BB ->
  rv (add_large_dword w buffer rhs) = val buffer + rhs /\ twf (add_large_dword w buffer rhs).
Proof.
  intros (Hw & Hl & _) Hr. unfold add_large_dword.
  destruct buffer as [|x0 [|x1 t]]; try (cbn [length] in Hl; lia).
  destruct (add_dword_in_place w (x0 :: x1 :: t) rhs) as [r c] eqn:E.
  destruct (add_dword_in_place_spec w w_pos x0 x1 t rhs Hw Hr _ _ E) as (Lr & Wr & V).
  destruct c; cbn [b2z] in V.
  - destruct (from_buffer_spec (r ++ [1])) as (V' & T); [apply wf_snoc; auto; nia|].
    split; [|exact T]. rewrite V', val_snoc, (len_eq r _ Lr). lia.
  - destruct (from_buffer_spec r Wr) as (V' & T). split; [|exact T]. rewrite V'. lia.
Qed.

Lemma skipn_app_exact {A} (l1 l2 : list A) n : length l1 = n -> skipn n (l1 ++ l2) = l2.
Proof. intros <-. rewrite skipn_app, skipn_all, Nat.sub_diag. reflexivity. Qed.
Lemma firstn_app_exact {A} (l1 l2 : list A) n : length l1 = n -> firstn n (l1 ++ l2) = l1.
Proof. intros <-. rewrite firstn_app, firstn_all, Nat.sub_diag. cbn [firstn]. apply app_nil_r. Qed.

Lemma add_large_correct buffer rhs : wfw buffer -> wfw rhs ->
  rv (add_large w buffer rhs) = val buffer + val rhs /\ twf (add_large w buffer rhs).
Proof.
  intros Hb Hr. unfold add_large. set (n := Nat.min (length buffer) (length rhs)).
  destruct (add_same_len_in_place w (firstn n buffer) (firstn n rhs)) as [lo ov] eqn:E1. unfold add_same_len_in_place in E1.
  destruct (add_same_len_spec w w_pos (firstn n buffer) (firstn n rhs) false
              ltac:(rewrite !firstn_length_le; lia) (wf_firstn w n _ Hb) (wf_firstn w n _ Hr) _ _ E1) as (Llo & Wlo & Vlo).
  rewrite firstn_length_le in Llo by lia. unfold len in Vlo. rewrite firstn_length_le in Vlo by lia. cbn [b2z] in Vlo.
  set (P := BB ^ Z.of_nat n) in *.
  assert (Htl : exists tl, wfw tl /\
            (if (n <? length rhs)%nat then (lo ++ skipn n buffer) ++ skipn n rhs else lo ++ skipn n buffer) = lo ++ tl /\
            val buffer + val rhs = val (firstn n buffer) + val (firstn n rhs) + P * val tl).
  { pose proof (firstn_skipn_val w n buffer) as Sb. pose proof (firstn_skipn_val w n rhs) as Sr.
    unfold len in Sb, Sr. rewrite firstn_length_le in Sb, Sr by lia. fold P in Sb, Sr.
    destruct (Nat.ltb_spec n (length rhs)) as [H|H].
    - exists (skipn n rhs). split; [apply wf_skipn; auto|]. rewrite (skipn_all2 buffer) in * by lia.
      split; [rewrite app_nil_r; reflexivity|]. cbn [value] in Sb. lia.
    - exists (skipn n buffer). split; [apply wf_skipn; auto|]. split; [reflexivity|].
      rewrite (skipn_all2 rhs) in Sr by lia. cbn [value] in Sr. lia. }
  destruct Htl as (tl & Wtl & Eb & Vsum). rewrite Eb. clear Eb.
  assert (Vcat : forall hi, val (lo ++ hi) = val lo + P * val hi).
  { intros hi. rewrite value_app. unfold len. rewrite Llo. reflexivity. }
  destruct ov; cbn [b2z] in Vlo.
  - rewrite (skipn_app_exact lo tl n Llo), (firstn_app_exact lo tl n Llo).
    destruct (add_one_in_place w tl) as [hi c] eqn:E2.
    destruct (add_one_in_place_spec w w_pos tl Wtl _ _ E2) as (Lhi & Whi & Vhi).
    assert (Wcat : wfw (lo ++ hi)) by (apply wf_app; auto).
    destruct c; cbn [b2z] in Vhi.
    + destruct (from_buffer_spec ((lo ++ hi) ++ [1])) as (V' & T); [apply wf_snoc; auto; nia|].
      split; [|exact T]. rewrite V', val_snoc, Vcat. unfold len in *. rewrite app_length, Llo, Nat2Z.inj_add, Z.pow_add_r by lia.
      fold P. rewrite Lhi. nia.
    + destruct (from_buffer_spec (lo ++ hi) Wcat) as (V' & T). split; [|exact T]. rewrite V', Vcat. nia.
  - assert (Wcat : wfw (lo ++ tl)) by (apply wf_app; auto).
    destruct (from_buffer_spec (lo ++ tl) Wcat) as (V' & T). split; [|exact T]. rewrite V', Vcat. nia.
Qed.

Theorem repr_add_correct o x y : twf x -> twf y ->
  rv (repr_add w o x y) = rv x + rv y /\ twf (repr_add w o x y).
Proof.
  intros Hx Hy. destruct x as [d0|b0], y as [d1|b1]; cbn [repr_add repr_value].
  - apply add_dword_correct; auto.
  - destruct (add_large_dword_correct b1 d0 Hy Hx) as (V & T). split; [lia | exact T].
  - apply add_large_dword_correct; auto.
  - destruct Hx as (W0 & _), Hy as (W1 & _).
    destruct (add_large_correct b0 b1 W0 W1) as (V01 & T01). destruct (add_large_correct b1 b0 W1 W0) as (V10 & T10).
    destruct o; try destruct (length b1 <=? length b0)%nat; auto; split; auto; lia.
Qed.

(** ------------------------------------------------------------------ unsigned subtraction *)
(** what the property demands of a UBig subtraction *)
Definition sub_res (res : result trepr) (x y : Z) : Prop :=
  if x <? y then res = Panic NegativeUBig else exists r, res = Ok r /\ rv r = x - y /\ twf r.

Lemma sub_large_dword_correct lhs rhs : twf (Large lhs) -> 0 <= rhs < BB * BB ->
  exists r, sub_large_dword w lhs rhs = Ok r /\ rv r = val lhs - rhs /\ twf r.
Proof.
  intros Hl Hr. pose proof (large_ge lhs Hl) as Hge. destruct Hl as (Hw & Hlen & _). unfold sub_large_dword.
  destruct lhs as [|x0 [|x1 t]]; try (cbn [length] in Hlen; lia).
  destruct (sub_dword_in_place w (x0 :: x1 :: t) rhs) as [r c] eqn:E.
  pose proof (sub_dword_in_place_spec w w_pos x0 x1 t rhs Hw Hr _ _ E) as U.
  pose proof (value_bounds w w_pos _ Hw) as Bl.
  assert (C0 : - b2z c = 0) by (apply (upd_carry_range w w_pos _ r _ _ Hw U); lia).
  destruct U as (Lr & Wr & V). destruct c; cbn [b2z] in C0; [lia|].
  destruct (from_buffer_spec r Wr) as (V' & T). exists (from_buffer w r). cbn [b2z] in V. repeat split; auto. lia.
Qed.

Lemma sub_large_correct lhs rhs : twf (Large lhs) -> twf (Large rhs) -> sub_res (sub_large w lhs rhs) (val lhs) (val rhs).
Proof.
  intros (Wl & Ll & Tl) (Wr & Lr & Tr). unfold sub_large, sub_res.
  destruct (Nat.ltb_spec (length lhs) (length rhs)) as [H|H].
  - pose proof (shorter_lt lhs rhs Wl Wr H Tr). rewrite (proj2 (Z.ltb_lt _ _)) by lia. reflexivity.
  - destruct (sub_in_place w lhs rhs) as [r c] eqn:E.
    destruct (sub_in_place_spec w w_pos lhs rhs H Wl Wr _ _ E) as (Lr' & Wr' & V).
    pose proof (value_bounds w w_pos r Wr') as Br. rewrite (len_eq r lhs Lr') in Br.
    pose proof (value_bounds w w_pos lhs Wl) as Bl. pose proof (value_bounds w w_pos rhs Wr) as Brh.
    destruct c; cbn [b2z] in V.
    + rewrite (proj2 (Z.ltb_lt _ _)) by lia. reflexivity.
    + rewrite (proj2 (Z.ltb_ge _ _)) by lia. destruct (from_buffer_spec r Wr') as (V' & T).
      exists (from_buffer w r). repeat split; auto. lia.
Qed.

Lemma sub_large_ref_val_correct lhs rhs : twf (Large lhs) -> twf (Large rhs) ->
  sub_res (sub_large_ref_val w lhs rhs) (val lhs) (val rhs).
Proof.
  intros (Wl & Ll & Tl) (Wr & Lr & Tr). unfold sub_large_ref_val, sub_res. set (n := length rhs).
  destruct (Nat.ltb_spec (length lhs) n) as [H|H].
  - pose proof (shorter_lt lhs rhs Wl Wr H Tr). rewrite (proj2 (Z.ltb_lt _ _)) by lia. reflexivity.
  - destruct (sub_same_len_in_place_swap w (firstn n lhs) rhs) as [r borrow] eqn:E. unfold sub_same_len_in_place_swap in E.
    destruct (sub_same_len_swap_spec w w_pos (firstn n lhs) rhs false ltac:(rewrite firstn_length_le; lia)
                (wf_firstn w n lhs Wl) Wr _ _ E) as (Lr' & Wr' & V).
    fold n in Lr'. unfold len in V. fold n in V. cbn [b2z] in V. set (P := BB ^ Z.of_nat n) in *.
    pose proof (firstn_skipn_val w n lhs) as Sl. unfold len in Sl. rewrite firstn_length_le in Sl by lia. fold P in Sl.
    assert (Vcat : forall hi, val (r ++ hi) = val r + P * val hi).
    { intros hi. rewrite value_app. unfold len. rewrite Lr'. reflexivity. }
    assert (Wtl : wfw (skipn n lhs)) by (apply wf_skipn; auto).
    pose proof (value_bounds w w_pos r Wr') as Br. unfold len in Br. rewrite Lr' in Br. fold P in Br.
    pose proof (value_bounds w w_pos rhs Wr) as Brh. unfold len in Brh. fold n P in Brh.
    pose proof (value_bounds w w_pos _ (wf_firstn w n lhs Wl)) as Bfl. unfold len in Bfl. rewrite firstn_length_le in Bfl by lia. fold P in Bfl.
    pose proof (value_nonneg w w_pos _ Wtl) as Btl.
    destruct borrow; cbn [b2z] in V.
    + rewrite (skipn_app_exact r _ n Lr'), (firstn_app_exact r _ n Lr').
      destruct (sub_one_in_place w (skipn n lhs)) as [hi c] eqn:E2.
      destruct (sub_one_in_place_spec w w_pos _ Wtl _ _ E2) as (Lhi & Whi & Vhi).
      pose proof (value_bounds w w_pos hi Whi) as Bhi. rewrite (len_eq hi _ Lhi) in Bhi.
      pose proof (value_bounds w w_pos _ Wtl) as Btl'.
      destruct c; cbn [b2z] in Vhi.
      * rewrite (proj2 (Z.ltb_lt _ _)) by nia. reflexivity.
      * rewrite (proj2 (Z.ltb_ge _ _)) by nia.
        assert (Wcat : wfw (r ++ hi)) by (apply wf_app; auto).
        destruct (from_buffer_spec _ Wcat) as (V' & T). eexists. split; [reflexivity|]. split; [|exact T]. rewrite V', Vcat. nia.
    + rewrite (proj2 (Z.ltb_ge _ _)) by nia.
      assert (Wcat : wfw (r ++ skipn n lhs)) by (apply wf_app; auto).
      destruct (from_buffer_spec _ Wcat) as (V' & T). eexists. split; [reflexivity|]. split; [|exact T]. rewrite V', Vcat. nia.
Qed.

Theorem repr_sub_correct o x y : twf x -> twf y -> sub_res (repr_sub w o x y) (rv x) (rv y).
Proof.
  intros Hx Hy. destruct x as [d0|b0], y as [d1|b1]; cbn [repr_sub repr_value].
  - unfold sub_res, sub_dword. cbn [twf] in Hx, Hy. destruct (Z.ltb_spec d0 d1); [reflexivity|].
    eexists. split; [reflexivity|]. cbn [repr_value twf]. split; lia.
  - unfold sub_res. pose proof (large_ge b1 Hy). cbn [twf] in Hx. rewrite (proj2 (Z.ltb_lt _ _)) by lia. reflexivity.
  - unfold sub_res. pose proof (large_ge b0 Hx). cbn [twf] in Hy. rewrite (proj2 (Z.ltb_ge _ _)) by lia.
    apply sub_large_dword_correct; auto.
  - destruct o; first [apply sub_large_ref_val_correct; auto | apply sub_large_correct; auto].
Qed.

(** ------------------------------------------------------------------ signed subtraction *)
Notation srv := (srepr_value w).

Lemma with_sign_value s r : srv (with_sign s r) = signed s (rv r) /\ snd (with_sign s r) = r.
Proof.
  unfold with_sign, is_zero, srepr_value, signed.
  destruct r as [d|ws]; [destruct d|]; cbn [fst snd repr_value sgnz]; split; auto; lia.
Qed.

Lemma neg_value x : srv (neg x) = - srv x /\ snd (neg x) = snd x.
Proof.
  destruct x as [s r]. unfold neg. destruct (with_sign_value (sign_neg s) r) as (V & S). rewrite V, S.
  unfold srepr_value, signed. cbn [fst snd]. rewrite sgnz_neg. split; [ring | reflexivity].
Qed.

Definition ssub_res (res : result (sign * trepr)) (v : Z) : Prop :=
  exists r, res = Ok r /\ srv r = v /\ twf (snd r).

Lemma ssub_rneg res v : ssub_res res v -> ssub_res (rneg res) (- v).
Proof.
  intros (r & E & V & T). subst res. cbn [rneg]. destruct (neg_value r) as (V' & S).
  exists (neg r). rewrite V', S, V. auto.
Qed.

Lemma ssub_lift res x y : sub_res res x y -> y <= x -> ssub_res (lift res) (x - y).
Proof.
  unfold sub_res. intros H Hle. rewrite (proj2 (Z.ltb_ge _ _)) in H by lia. destruct H as (r & E & V & T).
  subst res. cbn [lift]. exists (Positive, r). unfold srepr_value, signed. cbn [fst snd sgnz]. repeat split; auto. lia.
Qed.

Lemma sub_dword_signed_correct a b : 0 <= a < BB * BB -> 0 <= b < BB * BB ->
  srv (sub_dword_signed w a b) = a - b /\ twf (snd (sub_dword_signed w a b)).
Proof.
  intros Ha Hb. unfold sub_dword_signed. destruct (Z.ltb_spec a b) as [H|H].
  - assert (E1 : (a - b) mod (BB * BB) = a - b + BB * BB).
    { replace (a - b) with ((a - b + BB * BB) + (-1) * (BB * BB)) at 1 by ring. rewrite Z.mod_add, Z.mod_small by nia. reflexivity. }
    rewrite E1. replace (BB * BB - (a - b + BB * BB)) with (b - a) by ring. rewrite Z.mod_small by lia.
    destruct (neg_value (Positive, Small (b - a))) as (V & S). rewrite V, S.
    unfold srepr_value, signed. cbn [fst snd sgnz repr_value twf]. split; lia.
  - rewrite Z.mod_small by lia. unfold srepr_value, signed. cbn [fst snd sgnz repr_value twf]. split; lia.
Qed.

Lemma sub_large_signed_correct lhs rhs : twf (Large lhs) -> twf (Large rhs) ->
  ssub_res (sub_large_signed w lhs rhs) (val lhs - val rhs).
Proof.
  intros Hl Hr. unfold sub_large_signed. destruct (Nat.leb_spec (length rhs) (length lhs)) as [H|H].
  - destruct Hl as (Wl & _), Hr as (Wr & _).
    destruct (sub_in_place_with_sign w lhs rhs) as [r s] eqn:E.
    destruct (sub_in_place_with_sign_spec w w_pos lhs rhs H Wl Wr _ _ E) as (Lr' & Wr' & V).
    destruct (from_buffer_spec r Wr') as (V' & T). destruct (with_sign_value s (from_buffer w r)) as (V'' & S).
    eexists. split; [reflexivity|]. rewrite V'', S, V'. auto.
  - pose proof (sub_large_ref_val_correct rhs lhs Hr Hl) as R. unfold sub_res in R.
    destruct Hl as (Wl & _ & _). destruct Hr as (Wr & Lr & Tr).
    pose proof (shorter_lt lhs rhs Wl Wr H Tr). rewrite (proj2 (Z.ltb_ge _ _)) in R by lia.
    destruct R as (r & E & V & T). rewrite E. destruct (with_sign_value Negative r) as (V' & S).
    eexists. split; [reflexivity|]. rewrite V', S. split; [|exact T]. unfold signed. cbn [sgnz]. lia.
Qed.

Theorem repr_sub_signed_correct o x y : twf x -> twf y -> ssub_res (repr_sub_signed w o x y) (rv x - rv y).
Proof.
  intros Hx Hy. destruct x as [d0|b0], y as [d1|b1]; cbn [repr_sub_signed repr_value].
  - destruct (sub_dword_signed_correct d0 d1 Hx Hy) as (V & T). eexists. split; [reflexivity|]. auto.
  - pose proof (large_ge b1 Hy). cbn [twf] in Hx.
    replace (d0 - val b1) with (- (val b1 - d0)) by ring. apply ssub_rneg. apply ssub_lift; [|lia].
    unfold sub_res. rewrite (proj2 (Z.ltb_ge _ _)) by lia. apply sub_large_dword_correct; auto.
  - pose proof (large_ge b0 Hx). cbn [twf] in Hy. apply ssub_lift; [|lia].
    unfold sub_res. rewrite (proj2 (Z.ltb_ge _ _)) by lia. apply sub_large_dword_correct; auto.
  - assert (R10 : ssub_res (rneg (sub_large_signed w b1 b0)) (val b0 - val b1)).
    { replace (val b0 - val b1) with (- (val b1 - val b0)) by ring. apply ssub_rneg, sub_large_signed_correct; auto. }
    pose proof (sub_large_signed_correct b0 b1 Hx Hy) as R01.
    destruct o; try destruct (length b1 <=? length b0)%nat; auto.
Qed.

(** ------------------------------------------------------------------ IBig + and - : the sign dispatch *)
Lemma srv_pair s r : srv (s, r) = signed s (rv r).
Proof. reflexivity. Qed.

Theorem ibig_add_asis_correct o s0 x s1 y : twf x -> twf y ->
  ssub_res (ibig_add_asis w o s0 x s1 y) (signed s0 (rv x) + signed s1 (rv y)).
Proof.
  intros Hx Hy. destruct (repr_add_correct o x y Hx Hy) as (Va & Ta).
  destruct s0, s1; cbn [ibig_add_asis]; unfold signed; cbn [sgnz].
  - eexists. split; [reflexivity|]. rewrite srv_pair. unfold signed. cbn [sgnz snd]. split; [lia | exact Ta].
  - replace (1 * rv x + -1 * rv y) with (rv x - rv y) by ring. apply repr_sub_signed_correct; auto.
  - replace (-1 * rv x + 1 * rv y) with (rv y - rv x) by ring. apply repr_sub_signed_correct; auto.
  - destruct (with_sign_value Negative (repr_add w o x y)) as (V & S).
    eexists. split; [reflexivity|]. rewrite V, S. unfold signed. cbn [sgnz]. split; [lia | exact Ta].
Qed.

Theorem ibig_sub_asis_correct o s0 x s1 y : twf x -> twf y ->
  ssub_res (ibig_sub_asis w o s0 x s1 y) (signed s0 (rv x) - signed s1 (rv y)).
Proof.
  intros Hx Hy. destruct (repr_add_correct o x y Hx Hy) as (Va & Ta).
  destruct s0, s1; cbn [ibig_sub_asis]; unfold signed; cbn [sgnz].
  - replace (1 * rv x - 1 * rv y) with (rv x - rv y) by ring. apply repr_sub_signed_correct; auto.
  - eexists. split; [reflexivity|]. rewrite srv_pair. unfold signed. cbn [sgnz snd]. split; [lia | exact Ta].
  - destruct (with_sign_value Negative (repr_add w o x y)) as (V & S).
    eexists. split; [reflexivity|]. rewrite V, S. unfold signed. cbn [sgnz]. split; [lia | exact Ta].
  - replace (-1 * rv x - -1 * rv y) with (rv y - rv x) by ring. apply repr_sub_signed_correct; auto.
Qed.

(** the result never depends on the ownership form (value / reference) of the operands *)
Corollary repr_add_forms_agree o o' x y : twf x -> twf y -> rv (repr_add w o x y) = rv (repr_add w o' x y).
Proof. intros Hx Hy. rewrite (proj1 (repr_add_correct o x y Hx Hy)), (proj1 (repr_add_correct o' x y Hx Hy)). reflexivity. Qed.

End OpsProofs.
