(** C01: non-vacuity of the kernel theorems.  With the smallest admissible thresholds
    (T_simple = 1, T_kara = 3, CHUNK = 1) and 8-bit words every multiplier of the model runs on
    tiny operands: Karatsuba at lengths 2 and 3, Toom-3 from length 4 on, the chunk splitter for
    unbalanced operands - with a non-zero accumulator and both signs.  Each instance is computed by
    the kernel (vm_compute) and compared with the contract of the theorems. *)
From Dashu Require Import Base.Prelude Base.Words Int.RingSpec Int.RingAdd Int.RingMul Int.RingOps.
Open Scope Z_scope.

Definition contract_holds (w : Z) (f : mulfn) (c : list Z) (s : sign) (a b : list Z) : bool :=
  match f c s a b with
  | Ok (r, carry) =>
      (length r =? length c)%nat && wfb w r && (-1 <=? carry) && (carry <=? 1) &&
      (value w r + carry * B w ^ len c =? value w c + sgnz s * (value w a * value w b))
  | _ => false
  end.

Definition ex_a : list Z := [255; 254; 1; 0; 77; 128; 255; 255; 3; 200; 13].
Definition ex_b : list Z := [255; 255; 255; 255; 255; 0; 1; 2; 250; 99; 255].
Definition ex_c (n : nat) : list Z := to_words 8 n (2 ^ (8 * Z.of_nat n) - 12345).

(** same-length multipliers at every length 0..11, both signs, accumulator near the top *)
Example same_len_all_algorithms :
  forallb (fun n => let a := firstn n ex_a in let b := firstn n ex_b in
             contract_holds 8 (add_signed_mul_same_len 8 1 3) (ex_c (2 * n)) Positive a b &&
             contract_holds 8 (add_signed_mul_same_len 8 1 3) (ex_c (2 * n)) Negative a b &&
             contract_holds 8 (add_signed_mul_same_len 8 1 3) (repeat 0 (2 * n)) Negative a b)
          (seq 0 12) = true.
Proof. vm_compute. reflexivity. Qed.

(** Karatsuba and Toom-3 called directly at their smallest lengths *)
Example karatsuba_direct :
  contract_holds 8 (karatsuba_same_len 8 (add_signed_mul_same_len 8 1 3)) (ex_c 6) Negative (firstn 3 ex_a) (firstn 3 ex_b) = true /\
  contract_holds 8 (karatsuba_same_len 8 (add_signed_mul_same_len 8 1 3)) (ex_c 4) Positive [255; 255] [255; 255] = true.
Proof. vm_compute. split; reflexivity. Qed.

Example toom3_direct :
  contract_holds 8 (toom3_same_len 8 (add_signed_mul_same_len 8 1 3)) (ex_c 8) Negative (firstn 4 ex_a) (firstn 4 ex_b) = true /\
  contract_holds 8 (toom3_same_len 8 (add_signed_mul_same_len 8 1 3)) (ex_c 22) Positive ex_a ex_b = true /\
  contract_holds 8 (toom3_same_len 8 (add_signed_mul_same_len 8 1 3)) (ex_c 10) Positive (repeat 255 5) (repeat 255 5) = true.
Proof. vm_compute. repeat split; reflexivity. Qed.

(** unbalanced operands: every pair of lengths 0..11 x 0..6 through the general entry point *)
Example unbalanced_all_lengths :
  forallb (fun n => forallb (fun m => let a := firstn n ex_a in let b := firstn m ex_b in
             contract_holds 8 (add_signed_mul 8 1 3 1) (ex_c (n + m)) Positive a b &&
             contract_holds 8 (add_signed_mul 8 1 3 1) (ex_c (n + m)) Negative b a) (seq 0 7)) (seq 0 12) = true.
Proof. vm_compute. reflexivity. Qed.

(** the schoolbook squaring kernel and sub_in_place_with_sign on equal / shorter / leading-zero operands *)
Example square_and_signed_sub :
  value 8 (simple_square 8 (repeat 0 22) ex_a) = value 8 ex_a * value 8 ex_a /\
  sub_in_place_with_sign 8 [5; 7; 9] [6; 7; 9] = ([1; 0; 0], Negative) /\
  sub_in_place_with_sign 8 [5; 7; 0] [6; 7] = ([1; 0; 0], Negative) /\
  sub_in_place_with_sign 8 [5; 7; 9] [6; 7; 9] <> ([1; 0; 0], Positive) /\
  sub_in_place_with_sign 8 [0; 0; 1] [1] = ([255; 255; 0], Positive).
Proof. vm_compute. repeat split; try reflexivity. discriminate. Qed.
