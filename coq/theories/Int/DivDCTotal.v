(** C02 - div/divide_conquer.rs: the fuel of the model suffices.  The quotient estimate of the
    small-quotient step is too large by at most 4 (2 without quotient overflow), so the add-back
    loop ends within dc_fix_fuel = 6 rounds, and the recursion halves the quotient length, so
    fuel > quotient length is enough.  Together with DivDCProofs (soundness) this gives total
    correctness of the Burnikel-Ziegler model relative to the contracts. *)
From Dashu Require Import Base.Prelude Base.Words Int.DivWordModel Int.DivWordProofs Int.DivSimpleProofs
  Int.DivLargeProofs Int.DivDCProofs Int.DivReprProofs.
Open Scope Z_scope.

Section DivDCTotal.
Variable w : Z.
Hypothesis w_pos : 0 < w.
Notation B := (Words.B w).
Notation value := (Words.value w).
Notation wf := (Words.wf w).
Notation normalized_top := (DivSimpleProofs.normalized_top w).
Notation kernel_pre := (DivLargeProofs.kernel_pre w).
Notation kernel_post := (DivLargeProofs.kernel_post w).
Notation Bpow_add := (DivDCProofs.Bpow_add w).
Notation skipn_app_plus := DivDCProofs.skipn_app_plus.
Notation normalized_top_suffix := (DivDCProofs.normalized_top_suffix w w_pos).
Notation same_len_combine := (DivDCProofs.same_len_combine w w_pos).

Local Lemma Bpos : 0 < B. Proof. apply B_pos; lia. Qed.
Local Notation Bpow_pos := (DivWordProofs.Bpow_pos w w_pos).
Local Notation value_lt := (DivSimpleProofs.value_lt w w_pos).
Local Notation value_split := (DivSimpleProofs.value_split w).
Local Notation wf_firstn := (DivSimpleProofs.wf_firstn w).
Local Notation wf_skipn := (DivSimpleProofs.wf_skipn w).

(** the add-back loop ends when the estimate is at most `fuel` too large *)
Lemma dc_fix_loop_total rhs n m X : wf rhs -> length rhs = n -> 0 < value rhs ->
  forall fuel rem q ro qo,
  wf rem -> length rem = n -> wf q -> length q = m ->
  value rem + B ^ Z.of_nat n * ro = X - (value q + B ^ Z.of_nat m * qo) * value rhs ->
  - Z.of_nat fuel * value rhs <= X - (value q + B ^ Z.of_nat m * qo) * value rhs ->
  exists r, dc_fix_loop w fuel rem q rhs ro qo = Ok r.
Proof.
  intros Hwr Hlr HV. pose proof Bpos as HB. set (V := value rhs) in *.
  pose proof (Bpow_pos (Z.of_nat n) ltac:(lia)) as HBn.
  induction fuel as [|f IH]; intros rem q ro qo Hw1 Hl1 Hw2 Hl2 Hinv Hlow; cbn [dc_fix_loop].
  - pose proof (value_lt rem Hw1) as Hr. unfold len in Hr. rewrite Hl1 in Hr.
    destruct (Z.ltb_spec ro 0) as [Hneg|Hnn]; [exfalso; nia | eexists; reflexivity].
  - destruct (Z.ltb_spec ro 0) as [Hneg|Hnn]; [|eexists; reflexivity].
    destruct (add_same_len w rem rhs) as [rem1 c] eqn:Ea.
    destruct (sub_one w q) as [q1 b] eqn:Es.
    destruct (add_same_len_spec w w_pos rem rhs Hw1 Hwr ltac:(lia) _ _ Ea) as (Ha & Hwa & Hla & Hc).
    destruct (sub_one_spec w w_pos q Hw2 _ _ Es) as (Hs & Hws & Hls & Hb).
    unfold len in Ha, Hs. rewrite Hl1 in Ha. rewrite Hl2 in Hs. fold V in Ha.
    apply IH; try assumption; try lia; nia.
Qed.

Variable div3by2 : Z -> Z -> Z -> Z * Z.
Hypothesis div3by2_ok : forall d lo hi, norm2 w d -> 0 <= lo < B -> 0 <= hi < d ->
  div3by2 d lo hi = ((lo + B * hi) / d, (lo + B * hi) mod d).
Variable mul_sub : list Z -> list Z -> list Z -> list Z * Z.
Hypothesis mul_sub_ok : forall c a b c' k, wf c -> wf a -> wf b -> length c = (length a + length b)%nat ->
  mul_sub c a b = (c', k) ->
  wf c' /\ length c' = length c /\ value c' + B ^ len c * k = value c - value a * value b.
Variable T : nat.
Hypothesis T_ge : (2 <= T)%nat.
Notation dsq := (dc_small_quotient w div3by2 mul_sub T).

(** *** div_rem_in_place_small_quotient returns with fuel > quotient length *)
Lemma dc_small_quotient_total : forall fuel lhs rhs x,
  kernel_pre lhs rhs -> (length lhs - length rhs <= length rhs)%nat -> (length lhs - length rhs < fuel)%nat ->
  dsq fuel lhs rhs = x -> exists res o, x = Ok (res, o).
Proof.
  pose proof Bpos as HB.
  induction fuel as [|f IH]; intros lhs rhs x Hpre Hmn Hfuel E; [lia|].
  pose proof Hpre as (Hwl & Hwr & Hn2 & Hnl & Hnorm).
  cbn [dc_small_quotient] in E. cbv zeta in E.
  set (n := length rhs) in *. set (m := (length lhs - n)%nat) in *.
  destruct (Nat.leb_spec m T) as [Hle|Hgt].
  { subst x. destruct (simple_div_rem w div3by2 lhs rhs) as [res' c']. eexists; eexists; reflexivity. }
  set (l := skipn (n - m) lhs) in *. set (r := skipn (n - m) rhs) in *. set (nlo := (m / 2)%nat) in *.
  assert (nlo <= m)%nat as Hnlo by (unfold nlo; apply Nat.div_le_upper_bound; lia).
  assert (length l = (2 * m)%nat) as Hll by (unfold l; rewrite skipn_length; unfold m; lia).
  assert (length r = m) as Hlr by (unfold r; rewrite skipn_length; unfold n; lia).
  assert (wf l) as Hwl' by (apply wf_skipn; exact Hwl).
  assert (wf r) as Hwr' by (apply wf_skipn; exact Hwr).
  assert (normalized_top r) as Hnr by (apply normalized_top_suffix; [exact Hwr | exact Hnorm | fold n; lia]).
  pose proof (DivLargeProofs.normalized_top_pos w w_pos r Hnr) as HVr.
  (* first (3m/2)-by-m division *)
  assert (kernel_pre (skipn nlo l) r) as Hpre1.
  { repeat split; try assumption; try lia. apply wf_skipn; exact Hwl'. rewrite skipn_length. lia. }
  assert (1 <= nlo)%nat as Hnlo1 by (unfold nlo; apply Nat.div_le_lower_bound; lia).
  destruct (IH (skipn nlo l) r _ Hpre1 ltac:(rewrite skipn_length; lia) ltac:(rewrite skipn_length; lia) eq_refl) as (hi & o1 & E1).
  rewrite E1 in E. cbn [rbind] in E.
  pose proof (dc_small_quotient_sound w w_pos div3by2 div3by2_ok mul_sub mul_sub_ok T T_ge _ _ _ _ _ Hpre1 ltac:(rewrite skipn_length; lia) E1) as Hpost1.
  pose proof Hpost1 as (Hwhi & Hlhi & _ & _). rewrite skipn_length in Hlhi.
  (* second one *)
  set (l1 := firstn nlo l ++ hi) in *.
  assert (length l1 = (2 * m)%nat) as Hll1 by (unfold l1; rewrite app_length, firstn_length_le; lia).
  assert (wf l1) as Hwl1 by (unfold l1; apply wf_app; split; [apply wf_firstn; exact Hwl' | exact Hwhi]).
  assert (kernel_pre (firstn (m + nlo) l1) r) as Hpre2.
  { repeat split; try assumption; try lia. apply wf_firstn; exact Hwl1. rewrite firstn_length_le; lia. }
  assert (nlo < m)%nat as Hnlom by (unfold nlo; apply Nat.div_lt; lia).
  destruct (IH (firstn (m + nlo) l1) r _ Hpre2 ltac:(rewrite firstn_length_le; lia) ltac:(rewrite firstn_length_le; lia) eq_refl) as (lo & o2 & E2).
  rewrite E2 in E. cbn [rbind] in E.
  pose proof (dc_small_quotient_sound w w_pos div3by2 div3by2_ok mul_sub mul_sub_ok T T_ge _ _ _ _ _ Hpre2 ltac:(rewrite firstn_length_le; lia) E2) as Hpost2.
  rewrite <- Hlr in Hpost2 at 1.
  pose proof (same_len_combine l r nlo hi o1 lo o2 Hwl' ltac:(lia) ltac:(lia) HVr Hpost1 Hpost2) as Hcomb.
  rewrite Hlr in Hcomb. fold l1 in Hcomb.
  set (l2 := lo ++ skipn (m + nlo) l1) in *.
  destruct Hcomb as (Hwl2 & Hll2 & Hrl2 & Hql2). rewrite Hlr in Hrl2, Hql2. rewrite Hll in Hll2, Hql2.
  replace (2 * m - m)%nat with m in Hql2 by lia.
  (* the multiply-subtract with the low words of the divisor *)
  set (L0 := firstn (n - m) lhs) in *. set (rhs_lo := firstn (n - m) rhs) in *.
  assert (length L0 = (n - m)%nat) as HlL0 by (unfold L0; rewrite firstn_length_le; lia).
  assert (length rhs_lo = (n - m)%nat) as Hlrl by (unfold rhs_lo; rewrite firstn_length_le; lia).
  assert (wf L0) as HwL0 by (apply wf_firstn; exact Hwl).
  assert (wf rhs_lo) as Hwrl by (apply wf_firstn; exact Hwr).
  assert (firstn n (L0 ++ l2) = L0 ++ firstn m l2) as Ef.
  { replace n with (length L0 + m)%nat at 1 by lia. apply firstn_app_2. }
  assert (skipn n (L0 ++ l2) = skipn m l2) as Esk.
  { replace n with (length L0 + m)%nat at 1 by lia. apply skipn_app_plus. }
  rewrite Ef, Esk in E.
  set (rem := L0 ++ firstn m l2) in *. set (q := skipn m l2) in *.
  assert (wf rem) as Hwrem by (unfold rem; apply wf_app; split; [exact HwL0 | apply wf_firstn; exact Hwl2]).
  assert (wf q) as Hwq by (apply wf_skipn; exact Hwl2).
  assert (length rem = n) as Hlrem by (unfold rem; rewrite app_length, firstn_length_le; lia).
  assert (length q = m) as Hlq by (unfold q; rewrite skipn_length; lia).
  destruct (mul_sub rem q rhs_lo) as [rem1 ro] eqn:E3.
  destruct (mul_sub_ok rem q rhs_lo rem1 ro Hwrem Hwq Hwrl ltac:(lia) E3) as (Hwrem1 & Hlrem1 & Hms).
  unfold len in Hms. rewrite Hlrem in Hms, Hlrem1.
  (* values *)
  set (V := value rhs) in *. set (Vr := value r) in *. set (V0 := value rhs_lo) in *.
  set (P := B ^ Z.of_nat (n - m)) in *.
  assert (0 < P) as HP by (apply Bpow_pos; lia).
  pose proof (Bpow_pos (Z.of_nat m) ltac:(lia)) as HBm.
  assert (B ^ Z.of_nat n = B ^ Z.of_nat m * P) as HBnm.
  { unfold P. rewrite <- Bpow_add. f_equal. lia. }
  pose proof (value_split (n - m) rhs ltac:(lia)) as HspV. fold rhs_lo r V V0 Vr P in HspV.
  pose proof (value_split (n - m) lhs ltac:(lia)) as HspL. fold L0 l P in HspL.
  pose proof (value_lt L0 HwL0) as HL0. unfold len in HL0. rewrite HlL0 in HL0. fold P in HL0.
  pose proof (value_lt rhs_lo Hwrl) as HV0. unfold len in HV0. rewrite Hlrl in HV0. fold V0 P in HV0.
  pose proof (value_lt q Hwq) as Hq0. unfold len in Hq0. rewrite Hlq in Hq0.
  assert (value rem = value L0 + P * value (firstn m l2)) as Hvrem.
  { unfold rem. rewrite value_app. unfold len. rewrite HlL0. reflexivity. }
  fold q in Hql2.
  pose proof (Z.div_mod (value l) Vr ltac:(lia)) as Hdm. pose proof (Z.mod_pos_bound (value l) Vr HVr) as Hmb.
  rewrite <- Hrl2, <- Hql2 in Hdm. rewrite <- Hrl2 in Hmb.
  set (Rl := value (firstn m l2)) in *. set (Qh := value q + B ^ Z.of_nat m * Z.b2z o1) in *.
  assert (0 <= Qh) as HQh by (unfold Qh; destruct o1; cbn [Z.b2z]; lia).
  assert (0 < V) as HVpos by (apply (DivLargeProofs.normalized_top_pos w w_pos); exact Hnorm).
  assert (value lhs - Qh * V = value rem - Qh * V0) as Hkey by (rewrite HspL, Hdm, HspV, Hvrem; ring).
  assert (value lhs - Qh * V < V) as Hup by nia.
  assert (-4 * V < value lhs - Qh * V) as Hlow.
  { pose proof (value_lt l Hwl') as Hl. unfold len in Hl. rewrite Hll in Hl.
    replace (2 * m)%nat with (m + m)%nat in Hl by lia. rewrite Bpow_add in Hl.
    unfold DivSimpleProofs.normalized_top in Hnr, Hnorm. unfold len in Hnr. rewrite Hlr in Hnr. fold Vr in Hnr.
    replace (len rhs) with (Z.of_nat n) in Hnorm by reflexivity. fold V in Hnorm.
    assert (Qh < 2 * B ^ Z.of_nat m) as HQlt.
    { apply (Z.mul_lt_mono_pos_l Vr); [lia|].
      assert (B ^ Z.of_nat m * B ^ Z.of_nat m <= (2 * Vr) * B ^ Z.of_nat m) by (apply Z.mul_le_mono_nonneg_r; lia). lia. }
    assert (Qh * V0 <= Qh * P) by (apply Z.mul_le_mono_nonneg_l; lia).
    assert (Qh * P < (2 * B ^ Z.of_nat m) * P) by (apply Z.mul_lt_mono_pos_r; lia).
    pose proof (value_lt rem Hwrem) as Hr0. lia. }
  (* the extra subtraction when the quotient estimate overflowed *)
  assert (exists rem2 ro2, (if o1 then let '(t, b) := sub_same_len w (skipn m rem1) rhs_lo in (firstn m rem1 ++ t, ro - b)
                            else (rem1, ro)) = (rem2, ro2) /\
          wf rem2 /\ length rem2 = n /\ value rem2 + B ^ Z.of_nat n * ro2 = value lhs - Qh * V) as (rem2 & ro2 & E4 & Hwrem2 & Hlrem2 & Hinv).
  { destruct o1.
    - destruct (sub_same_len w (skipn m rem1) rhs_lo) as [t b] eqn:E4.
      assert (wf (skipn m rem1)) as Hws by (apply wf_skipn; exact Hwrem1).
      destruct (sub_same_len_spec w w_pos (skipn m rem1) rhs_lo Hws Hwrl ltac:(rewrite skipn_length; lia) _ _ E4) as (Hsub & Hwt & Hlt & Hb).
      unfold len in Hsub. rewrite skipn_length, Hlrem1 in Hsub. rewrite skipn_length, Hlrem1 in Hlt. fold V0 P in Hsub.
      pose proof (value_split m rem1 ltac:(lia)) as Hsp1.
      exists (firstn m rem1 ++ t), (ro - b). split; [reflexivity|].
      split; [apply wf_app; split; [apply wf_firstn; exact Hwrem1 | exact Hwt]|].
      split; [rewrite app_length, firstn_length_le; lia|].
      rewrite value_app. unfold len. rewrite firstn_length_le by lia.
      rewrite Hkey. unfold Qh in *. cbn [Z.b2z] in *. rewrite HBnm. nia.
    - exists rem1, ro. split; [reflexivity|]. split; [exact Hwrem1|]. split; [exact Hlrem1|].
      rewrite Hkey. unfold Qh in *. cbn [Z.b2z] in *. lia. }
  rewrite E4 in E.
  destruct (dc_fix_loop_total rhs n m (value lhs) Hwr eq_refl HVpos dc_fix_fuel rem2 q ro2 (Z.b2z o1) Hwrem2 Hlrem2 Hwq Hlq Hinv
              ltac:(unfold dc_fix_fuel; lia)) as ([[[rem3 q3] ro3] qo3] & E5).
  rewrite E5 in E. cbn [rbind] in E. subst x. eexists; eexists; reflexivity.
Qed.

Notation dsq_sound := (dc_small_quotient_sound w w_pos div3by2 div3by2_ok mul_sub mul_sub_ok T T_ge).

Lemma dc_same_len_total fuel lhs rhs :
  kernel_pre lhs rhs -> length lhs = (2 * length rhs)%nat -> (length rhs < fuel)%nat ->
  exists res o, dc_same_len w div3by2 mul_sub T fuel lhs rhs = Ok (res, o).
Proof.
  intros Hpre Hll Hfuel. pose proof Hpre as (Hwl & Hwr & Hn2 & Hnl & Hnorm).
  unfold dc_same_len. cbv zeta. set (n := length rhs) in *. set (nlo := (n / 2)%nat) in *.
  assert (nlo <= n)%nat as Hnlo by (unfold nlo; apply Nat.div_le_upper_bound; lia).
  assert (kernel_pre (skipn nlo lhs) rhs) as Hpre1.
  { repeat split; try assumption; try lia. apply wf_skipn; exact Hwl. rewrite skipn_length. fold n. lia. }
  destruct (dc_small_quotient_total fuel (skipn nlo lhs) rhs _ Hpre1 ltac:(rewrite skipn_length; fold n; lia)
              ltac:(rewrite skipn_length; fold n; lia) eq_refl) as (hi & o1 & E1).
  rewrite E1. cbn [rbind].
  pose proof (dsq_sound _ _ _ _ _ Hpre1 ltac:(rewrite skipn_length; fold n; lia) E1) as (Hwhi & Hlhi & _ & _).
  rewrite skipn_length in Hlhi.
  set (l1 := firstn nlo lhs ++ hi) in *.
  assert (length l1 = (2 * n)%nat) as Hll1 by (unfold l1; rewrite app_length, firstn_length_le; lia).
  assert (wf l1) as Hwl1 by (unfold l1; apply wf_app; split; [apply wf_firstn; exact Hwl | exact Hwhi]).
  assert (kernel_pre (firstn (n + nlo) l1) rhs) as Hpre2.
  { repeat split; try assumption; try lia. apply wf_firstn; exact Hwl1. rewrite firstn_length_le; fold n; lia. }
  destruct (dc_small_quotient_total fuel (firstn (n + nlo) l1) rhs _ Hpre2 ltac:(rewrite firstn_length_le; fold n; lia)
              ltac:(rewrite firstn_length_le; fold n; lia) eq_refl) as (lo & o2 & E2).
  rewrite E2. cbn [rbind]. eexists; eexists; reflexivity.
Qed.

Lemma dc_blocks_total fuel rhs m0 X0 : wf rhs -> (2 <= length rhs)%nat -> normalized_top rhs -> (length rhs < fuel)%nat ->
  forall j cur m ov, blocks_inv w rhs m0 X0 cur m ov -> ((j + 1) * length rhs <= m)%nat ->
  exists r, dc_blocks w div3by2 mul_sub T fuel j cur rhs m ov = Ok r.
Proof.
  intros Hwr Hn2 Hnorm Hfuel. induction j as [|j IH]; intros cur m ov Hinv Hjm; cbn [dc_blocks].
  - eexists; reflexivity.
  - cbv zeta. set (n := length rhs) in *.
    pose proof Hinv as (Hwc & Hlc & Hm & _).
    set (X := firstn (2 * n) (skipn (m - 2 * n) cur)) in *.
    assert (wf X) as HwX by (apply wf_firstn, wf_skipn; exact Hwc).
    assert (length X = (2 * n)%nat) as HlX by (unfold X; rewrite firstn_length_le; [reflexivity | rewrite skipn_length; lia]).
    assert (kernel_pre X rhs) as Hpre by (repeat split; try assumption; fold n; lia).
    destruct (dc_same_len_total fuel X rhs Hpre HlX Hfuel) as (blk & o & E1). rewrite E1. cbn [rbind].
    apply IH; [|fold n; lia].
    exact (blocks_step w w_pos div3by2 div3by2_ok mul_sub mul_sub_ok T T_ge fuel rhs m0 X0 cur m ov blk o Hwr Hn2 Hnorm Hinv ltac:(fold n; lia) E1).
Qed.

Theorem dc_div_rem_total fuel lhs rhs :
  kernel_pre lhs rhs -> (length rhs < length lhs)%nat -> (length rhs < fuel)%nat ->
  exists x, dc_div_rem w div3by2 mul_sub T fuel lhs rhs = Ok x.
Proof.
  intros Hpre Hlt Hfuel. pose proof Hpre as (Hwl & Hwr & Hn2 & Hnl & Hnorm).
  unfold dc_div_rem. cbv zeta. set (n := length rhs) in *. set (m0 := length lhs) in *.
  set (d := (m0 / n)%nat) in *.
  pose proof (Nat.div_mod m0 n ltac:(lia)) as Hdm. fold d in Hdm.
  pose proof (Nat.mod_upper_bound m0 n ltac:(lia)) as Hmu.
  assert (1 <= d)%nat as Hd1 by (destruct d; [lia | lia]).
  assert (blocks_inv w rhs m0 (value lhs) lhs m0 false) as Hinv0.
  { unfold blocks_inv. fold n. split; [exact Hwl|]. split; [reflexivity|]. split; [lia|].
    replace (firstn m0 lhs) with lhs by (symmetry; apply firstn_all).
    replace (skipn m0 lhs) with (@nil Z) by (symmetry; apply skipn_all).
    cbn [Words.value Z.b2z]. split; [ring|]. split; [lia | reflexivity]. }
  assert ((d - 1 + 1) * n <= m0)%nat as Hjm.
  { replace (d - 1 + 1)%nat with d by lia. rewrite Hdm. rewrite (Nat.mul_comm d n). lia. }
  destruct (dc_blocks_total fuel rhs m0 (value lhs) Hwr Hn2 Hnorm Hfuel _ _ _ _ Hinv0 Hjm) as ([[lhs1 ov] m] & E1).
  fold n in E1. rewrite E1. cbn [rbind].
  destruct (dc_blocks_sound w w_pos div3by2 div3by2_ok mul_sub mul_sub_ok T T_ge fuel rhs m0 (value lhs) Hwr Hn2 Hnorm _ _ _ _ _ _ _ Hinv0 Hjm E1)
    as (Hinv & Hm). fold n in Hm.
  assert (m = (n + m0 mod n)%nat) as Hm'.
  { assert ((d - 1) * n + n = d * n)%nat as Hx by (destruct d; [lia | cbn; lia]).
    rewrite (Nat.mul_comm n d) in Hdm. lia. }
  destruct Hinv as (Hw1 & Hl1 & Hmr & _).
  destruct (Nat.ltb_spec n m) as [Hnm|Hnm]; [|eexists; reflexivity].
  assert (kernel_pre (firstn m lhs1) rhs) as HpreX.
  { repeat split; try assumption; try (fold n; lia). apply wf_firstn; exact Hw1. rewrite firstn_length_le; fold n; lia. }
  destruct (dc_small_quotient_total fuel (firstn m lhs1) rhs _ HpreX ltac:(rewrite firstn_length_le; fold n; lia)
              ltac:(rewrite firstn_length_le; fold n; lia) eq_refl) as (lo & o & E2).
  rewrite E2. cbn [rbind]. eexists; reflexivity.
Qed.

Theorem div_rem_in_place_total fuel lhs rhs :
  kernel_pre lhs rhs -> (length rhs < fuel)%nat ->
  exists x, div_rem_in_place w div3by2 mul_sub T fuel lhs rhs = Ok x.
Proof.
  intros Hpre Hfuel. unfold div_rem_in_place.
  destruct ((length rhs <=? T)%nat || (length lhs - length rhs <=? T)%nat) eqn:Esw; [eexists; reflexivity|].
  apply orb_false_iff in Esw. destruct Esw as [_ H2]. apply Nat.leb_gt in H2.
  apply dc_div_rem_total; [exact Hpre | lia | exact Hfuel].
Qed.

(** *** total correctness of the kernel behind the switch and of the TypedRepr dispatch *)
Theorem div_rem_in_place_correct fuel lhs rhs :
  kernel_pre lhs rhs -> (length rhs < fuel)%nat ->
  exists res c, div_rem_in_place w div3by2 mul_sub T fuel lhs rhs = Ok (res, c) /\ kernel_post lhs rhs res c.
Proof.
  intros Hpre Hfuel. destruct (div_rem_in_place_total fuel lhs rhs Hpre Hfuel) as ([res c] & E).
  exists res, c. split; [exact E|].
  exact (div_rem_in_place_sound w w_pos div3by2 div3by2_ok mul_sub mul_sub_ok T T_ge fuel lhs rhs res c Hpre E).
Qed.

Theorem div_rem_large_correct fuel lhs rhs :
  wf lhs -> wf rhs -> (2 <= length rhs)%nat -> (length rhs <= length lhs)%nat -> 0 < highest_word w rhs ->
  (length rhs < fuel)%nat ->
  exists q r, div_rem_large w div3by2 mul_sub T fuel lhs rhs = Ok (q, r) /\
    value q = value lhs / value rhs /\ value r = value lhs mod value rhs /\
    wf q /\ wf r /\ length r = length rhs /\ length q = (length lhs - length rhs + 1)%nat.
Proof.
  intros Hwl Hwr Hn2 Hnl Htop Hfuel.
  destruct (div_rem_large_reduce w w_pos div3by2 div3by2_ok mul_sub T fuel lhs rhs Hwl Hwr Hn2 Hnl Htop)
    as (lhs2 & rhs1 & Hpre & Hl2 & Hl1 & Htot & Hsound).
  destruct Htot as ([q r] & E); [apply div_rem_in_place_total; [exact Hpre | lia]|].
  exists q, r. split; [exact E|]. apply Hsound; [|exact E]. intros res c E'.
  exact (div_rem_in_place_sound w w_pos div3by2 div3by2_ok mul_sub mul_sub_ok T T_ge fuel lhs2 rhs1 res c Hpre E').
Qed.

Variable div2by1 : Z -> Z -> Z * Z.
Variable div4by2 : Z -> Z -> Z -> Z * Z.
Hypothesis div2by1_ok : forall d a, norm1 w d -> 0 <= a < d * B -> div2by1 d a = (a / d, a mod d).
Hypothesis div4by2_ok : forall d lo hi, norm2 w d -> 0 <= lo < B * B -> 0 <= hi < d ->
  div4by2 d lo hi = ((lo + B * B * hi) / d, (lo + B * B * hi) mod d).

Theorem repr_div_rem_correct a b : 0 <= a -> 0 < b ->
  repr_div_rem w div2by1 div3by2 div4by2 mul_sub T a b = Ok (a / b, a mod b).
Proof.
  intros Ha Hb.
  assert (exists qr, repr_div_rem w div2by1 div3by2 div4by2 mul_sub T a b = Ok qr) as ([q r] & E).
  { unfold repr_div_rem. destruct (Z.eqb_spec b 0) as [|_]; [lia|].
    destruct (a <? B * B) eqn:Esa; [destruct (b <? B * B); eexists; reflexivity|].
    apply Z.ltb_ge in Esa.
    destruct (b <? B); [destruct (div_by_word w div2by1 (words_of w a) b); eexists; reflexivity|].
    destruct (Z.ltb_spec b (B * B)) as [Hb2|Hb2]; [destruct (div_by_dword w div3by2 div4by2 (words_of w a) b); eexists; reflexivity|].
    destruct (Nat.leb_spec (length (words_of w b)) (length (words_of w a))) as [Hle|Hgt]; [|eexists; reflexivity].
    destruct (words_of_spec w w_pos a Ha) as (Hwa & _ & _).
    destruct (words_of_spec w w_pos b ltac:(lia)) as (Hwb & _ & Hlb).
    pose proof (nwords_ge3 w w_pos b Hb2) as Hnb.
    destruct (div_rem_large_reduce w w_pos div3by2 div3by2_ok mul_sub T (fuel_for (words_of w a)) (words_of w a) (words_of w b)
                Hwa Hwb ltac:(lia) Hle (words_of_top w w_pos b Hb)) as (lhs2 & rhs1 & Hpre & Hl2 & Hl1 & Htot & _).
    destruct Htot as ([ql rl] & E1).
    { apply div_rem_in_place_total; [exact Hpre | unfold fuel_for; lia]. }
    rewrite E1. cbn [rbind]. eexists; reflexivity. }
  destruct (repr_div_rem_sound w w_pos div2by1 div3by2 div4by2 div2by1_ok div3by2_ok div4by2_ok mul_sub mul_sub_ok T T_ge a b q r Ha Hb E)
    as [-> ->]. exact E.
Qed.

End DivDCTotal.
