(** C12 - UBig::remove (remove.rs): squaring stage, binary descent and the final division strip exactly
    the full power of the factor; the power-of-two shortcut; None exactly in the documented cases. *)
From Dashu Require Import Base.Prelude Int.GrlSpec Int.GrlModel Int.GrlSpecProof.
From Coq Require Import Znumtheory.
Open Scope Z_scope.

Section Remove.
Variable f : Z.
Hypothesis Hf : 2 <= f.

Definition P (j : Z) : Z := f ^ (2 ^ j).

Lemma P_pos : forall j, 0 < P j.
Proof. intros j. unfold P. apply Z.pow_pos_nonneg; [lia|]. apply Z.pow_nonneg; lia. Qed.

Lemma P_succ : forall j, 0 <= j -> P (j + 1) = P j * P j.
Proof.
  intros j Hj. unfold P. rewrite Z.pow_add_r, Z.pow_1_r by lia.
  replace (2 ^ j * 2) with (2 ^ j + 2 ^ j) by lia. apply Z.pow_add_r; apply Z.pow_nonneg; lia.
Qed.

Fixpoint pows_ok (l : list Z) : Prop :=
  match l with [] => True | p :: t => p = P (len l) /\ pows_ok t end.

Lemma len_cons : forall (A : Type) (a : A) l, len (a :: l) = len l + 1.
Proof. intros. unfold len. cbn [length]. lia. Qed.
Lemma len_nonneg : forall (A : Type) (l : list A), 0 <= len l.
Proof. intros. unfold len. lia. Qed.

Lemma fpow_pos : forall e, 0 <= e -> 0 < f ^ e.
Proof. intros. apply Z.pow_pos_nonneg; lia. Qed.

(** stage 1: divide by f^2, f^4, f^8, ... while divisible *)
Lemma stage1_spec : forall fuel q exp pows q' exp' pows', pows <> [] -> pows_ok pows -> 0 <= exp ->
  remove_stage1 fuel q exp pows = Ok (q', exp', pows') ->
  pows' <> [] /\ pows_ok pows' /\ exp <= exp' /\ q = q' * f ^ (exp' - exp) /\
  q' mod (hd 1 pows') <> 0.
Proof.
  induction fuel as [|k IH]; intros q exp pows q' exp' pows' Hne Hok Hexp H; cbn [remove_stage1] in H; [discriminate|].
  destruct pows as [|last rest]; [contradiction|].
  destruct (Z.eqb_spec (q mod last) 0) as [E|NE].
  - destruct Hok as [Hl Hr]. pose proof (len_nonneg _ rest) as Hlen. rewrite len_cons in *.
    assert (0 < 2 ^ (len rest + 1)) by (apply Z.pow_pos_nonneg; lia).
    apply IH in H; [| discriminate | | lia].
    + destruct H as [H1 [H2 [H3 [H4 H5]]]]. repeat split; try assumption; [lia|].
      pose proof (P_pos (len rest + 1)) as PP.
      assert (q = last * (q / last)) as Hq by (apply Z_div_exact_full_2; lia).
      rewrite Hq, H4, Hl. unfold P. set (tw := 2 ^ (len rest + 1)) in *.
      replace (exp' - exp) with (tw + (exp' - (exp + tw))) by lia.
      rewrite Z.pow_add_r by lia. ring.
    + cbn [pows_ok]. split; [|split; [rewrite len_cons; exact Hl | exact Hr]].
      rewrite len_cons, len_cons. rewrite P_succ by lia. rewrite Hl. reflexivity.
  - injection H as <- <- <-. split; [discriminate|]. split; [exact Hok|]. split; [lia|].
    split; [rewrite Z.sub_diag, Z.pow_0_r; lia | cbn [hd]; exact NE].
Qed.

Lemma stage1_terminates : forall fuel q exp pows, pows <> [] -> pows_ok pows -> 1 <= q -> q < Z.of_nat fuel ->
  exists r, remove_stage1 fuel q exp pows = Ok r.
Proof.
  induction fuel as [|k IH]; intros q exp pows Hne Hok Hq Hfu; [cbn in Hfu; lia|]. cbn [remove_stage1].
  destruct pows as [|last rest]; [contradiction|].
  destruct (Z.eqb_spec (q mod last) 0) as [E|NE]; [|eauto].
  destruct Hok as [Hl Hr]. pose proof (len_nonneg _ rest) as Hlen. rewrite len_cons in Hl.
  assert (2 <= last).
  { rewrite Hl. unfold P. assert (1 <= 2 ^ (len rest + 1)) by (assert (0 < 2 ^ (len rest + 1)) by (apply Z.pow_pos_nonneg; lia); lia).
    assert (f ^ 1 <= f ^ (2 ^ (len rest + 1))) by (apply Z.pow_le_mono_r; lia). rewrite Z.pow_1_r in *. lia. }
  assert (q = last * (q / last)) as Hd by (apply Z_div_exact_full_2; lia).
  assert (1 <= q / last) by nia. assert (q / last < q) by nia.
  apply IH; [discriminate | | lia | lia].
  cbn [pows_ok]. split; [|split; [rewrite len_cons; exact Hl | exact Hr]].
  rewrite len_cons, len_cons. rewrite P_succ by lia. rewrite Hl. reflexivity.
Qed.

(** stage 2: from the highest power down, divide where divisible (binary digits of the multiplicity) *)
Lemma stage2_spec : forall pows q exp, pows_ok pows -> 0 <= exp -> q mod P (len pows + 1) <> 0 ->
  let '(q2, exp2) := remove_stage2 q exp pows in
  exp <= exp2 /\ q = q2 * f ^ (exp2 - exp) /\ q2 mod P 1 <> 0.
Proof.
  induction pows as [|last rest IH]; intros q exp Hok Hexp Hnd; cbn [remove_stage2].
  - change (len (@nil Z)) with 0 in Hnd. cbn [Z.add] in Hnd. rewrite Z.sub_diag, Z.pow_0_r. split; [lia|]. split; [lia|exact Hnd].
  - destruct Hok as [Hl Hr]. pose proof (len_nonneg _ rest) as Hlen. rewrite len_cons in *.
    pose proof (P_pos (len rest + 1)) as PP. assert (0 < 2 ^ (len rest + 1)) as H2 by (apply Z.pow_pos_nonneg; lia).
    destruct (Z.eqb_spec (q mod last) 0) as [E|NE].
    + assert (q = last * (q / last)) as Hq by (apply Z_div_exact_full_2; lia).
      specialize (IH (q / last) (exp + 2 ^ (len rest + 1)) Hr ltac:(lia)).
      assert ((q / last) mod P (len rest + 1) <> 0) as K.
      { intros C. apply Hnd. rewrite P_succ by lia.
        assert (q / last = P (len rest + 1) * (q / last / P (len rest + 1))) as Hq2 by (apply Z_div_exact_full_2; lia).
        rewrite Hq, Hq2, Hl. replace (P (len rest + 1) * (P (len rest + 1) * (q / P (len rest + 1) / P (len rest + 1))))
          with ((q / P (len rest + 1) / P (len rest + 1)) * (P (len rest + 1) * P (len rest + 1))) by ring.
        apply Z_mod_mult. }
      specialize (IH K). destruct (remove_stage2 (q / last) (exp + 2 ^ (len rest + 1)) rest) as [q2 exp2].
      destruct IH as [I1 [I2 I3]]. split; [lia|]. split; [|exact I3].
      rewrite Hq, I2, Hl. unfold P. set (tw := 2 ^ (len rest + 1)) in *.
      replace (exp2 - exp) with (tw + (exp2 - (exp + tw))) by lia.
      rewrite Z.pow_add_r by lia. ring.
    + specialize (IH q exp Hr Hexp). rewrite <- Hl in IH. specialize (IH NE). exact IH.
Qed.

Lemma P1 : P 1 = f * f.
Proof. unfold P. change (2 ^ 1) with 2. apply Z.pow_2_r. Qed.

Lemma mk_cert : forall x e rest, 0 <= e -> rest * f ^ e = x -> rest mod f <> 0 -> remove_cert x f e rest = true.
Proof.
  intros x e rest H0 H1 H2. unfold remove_cert. apply andb_true_intro. split; [apply andb_true_intro; split|].
  - apply Z.leb_le; exact H0.
  - apply Z.eqb_eq; exact H1.
  - apply negb_true_iff. apply Z.eqb_neq. exact H2.
Qed.

(** the general (non power of two) path *)
Theorem remove_general_correct : forall fuel x e rest, 0 < x ->
  (if negb (x mod f =? 0) then Ok (Some (0, x))
   else match remove_stage1 fuel (x / f) 1 [f * f] with
        | Ok (q, exp, pows) =>
            let '(q2, exp2) := remove_stage2 q exp pows in
            if q2 mod f =? 0 then Ok (Some (exp2 + 1, q2 / f)) else Ok (Some (exp2, q2))
        | Panic r => Panic r | Err e => Err e | OutOfFuel => OutOfFuel
        end) = Ok (Some (e, rest)) ->
  remove_cert x f e rest = true.
Proof.
  intros fuel x e rest Hx H.
  destruct (Z.eqb_spec (x mod f) 0) as [E|NE]; cbn [negb] in H.
  2:{ injection H as <- <-. apply mk_cert; [lia | rewrite Z.pow_0_r; lia | exact NE]. }
  assert (x = f * (x / f)) as Hd by (apply Z_div_exact_full_2; lia).
  destruct (remove_stage1 fuel (x / f) 1 [f * f]) as [[[q exp] pows]| | |] eqn:S1; try discriminate.
  apply stage1_spec in S1; [| discriminate | | lia].
  2:{ cbn [pows_ok]. split; [|exact I]. change (len [f * f]) with 1. symmetry. apply P1. }
  destruct S1 as [S11 [S12 [S13 [S14 S15]]]].
  destruct pows as [|p0 prest]; [contradiction|]. cbn [hd] in S15.
  pose proof (stage2_spec (p0 :: prest) q exp S12 ltac:(lia)) as S2.
  assert (q mod P (len (p0 :: prest) + 1) <> 0) as K.
  { destruct S12 as [Hp0 _]. pose proof (len_nonneg _ (p0 :: prest)). rewrite P_succ by lia. rewrite <- Hp0.
    pose proof (P_pos (len (p0 :: prest))) as PP. rewrite <- Hp0 in PP.
    intros C. apply S15. assert (q = p0 * p0 * (q / (p0 * p0))) as Hq by (apply Z_div_exact_full_2; nia).
    rewrite Hq. replace (p0 * p0 * (q / (p0 * p0))) with (p0 * (q / (p0 * p0)) * p0) by ring. apply Z_mod_mult. }
  specialize (S2 K). destruct (remove_stage2 q exp (p0 :: prest)) as [q2 exp2]. destruct S2 as [T1 [T2 T3]].
  rewrite P1 in T3.
  assert (x = q2 * f ^ exp2) as HX.
  { rewrite Hd, S14, T2. replace exp2 with (1 + (exp - 1) + (exp2 - exp)) at 2 by lia.
    rewrite !Z.pow_add_r, Z.pow_1_r by lia. ring. }
  destruct (Z.eqb_spec (q2 mod f) 0) as [E2|NE2]; injection H as <- <-.
  - assert (q2 = f * (q2 / f)) as Hq2 by (apply Z_div_exact_full_2; lia).
    apply mk_cert; [lia | | ].
    + rewrite HX, Z.pow_add_r, Z.pow_1_r by lia. set (c := q2 / f) in *. rewrite Hq2. ring.
    + intros C. apply T3. assert (q2 / f = f * (q2 / f / f)) as Hq3 by (apply Z_div_exact_full_2; lia).
      rewrite Hq2, Hq3. replace (f * (f * (q2 / f / f))) with (q2 / f / f * (f * f)) by ring. apply Z_mod_mult.
  - apply mk_cert; [lia | lia | exact NE2].
Qed.

End Remove.

(** trailing zeros: x = odd * 2^tz *)
Lemma tz_scan_spec : forall fuel x k, 0 < x -> Z.log2 x < Z.of_nat fuel ->
  exists m, Z.odd m = true /\ 0 < m /\ k <= tz_scan fuel x k /\ x = m * 2 ^ (tz_scan fuel x k - k).
Proof.
  induction fuel as [|n IH]; intros x k Hx Hl; [pose proof (Z.log2_nonneg x); cbn in Hl; lia|].
  cbn [tz_scan]. destruct (Z.odd x) eqn:O.
  - exists x. rewrite Z.sub_diag, Z.pow_0_r. repeat split; try assumption; lia.
  - assert (x = 2 * (x / 2)) as Hd.
    { pose proof (Z.div_mod x 2 ltac:(lia)) as DM. rewrite Zmod_odd, O in DM. lia. }
    assert (0 < x / 2) by lia.
    assert (Z.log2 (x / 2) < Z.of_nat n).
    { assert (Z.log2 (2 * (x / 2)) = Z.succ (Z.log2 (x / 2))) by (apply Z.log2_double; lia). rewrite <- Hd in H0. lia. }
    destruct (IH (x / 2) (k + 1) H H0) as [m [M1 [M2 [M3 M4]]]].
    set (t := tz_scan n (x / 2) (k + 1)) in *.
    exists m. repeat split; try assumption; [lia|].
    replace (t - k) with (1 + (t - (k + 1))) by lia.
    rewrite Z.pow_add_r, Z.pow_1_r by lia. set (y := 2 ^ (t - (k + 1))) in *. rewrite Hd, M4. ring.
Qed.

Lemma tz_spec : forall x, 0 < x -> exists m, Z.odd m = true /\ 0 < m /\ 0 <= tz x /\ x = m * 2 ^ tz x.
Proof.
  intros x Hx. unfold tz. pose proof (Z.log2_nonneg x).
  destruct (tz_scan_spec (Z.to_nat (Z.log2 x + 1)) x 0 Hx ltac:(lia)) as [m [M1 [M2 [M3 M4]]]].
  rewrite Z.sub_0_r in M4. eauto.
Qed.

(** the power-of-two shortcut *)
Theorem remove_pow2_correct : forall x f, 0 < x -> 2 <= f -> is_pow2 f = true ->
  let bits := Z.log2 f in let exp := tz x / bits in
  remove_cert x f exp (Z.shiftr x (exp * bits)) = true.
Proof.
  intros x f Hx Hf Hp. cbv zeta. unfold is_pow2 in Hp. apply andb_prop in Hp. destruct Hp as [_ Hp]. apply Z.eqb_eq in Hp.
  set (b := Z.log2 f) in *. assert (1 <= b).
  { destruct (Z_lt_le_dec b 1); [|assumption]. assert (b = 0) by (pose proof (Z.log2_nonneg f); lia).
    rewrite H in Hp. change (2 ^ 0) with 1 in Hp. lia. }
  destruct (tz_spec x Hx) as [m [M1 [M2 [M3 M4]]]]. set (t := tz x) in *.
  pose proof (Z.div_mod t b ltac:(lia)) as DM. pose proof (Z.mod_pos_bound t b ltac:(lia)) as MB.
  assert (0 <= t / b) by (apply Z.div_pos; lia).
  rewrite Z.shiftr_div_pow2 by nia.
  assert (2 ^ t = 2 ^ (t mod b) * 2 ^ (t / b * b)) as ET.
  { rewrite <- Z.pow_add_r by nia. f_equal. lia. }
  assert (0 < 2 ^ (t / b * b)) by (apply Z.pow_pos_nonneg; nia).
  assert (x / 2 ^ (t / b * b) = m * 2 ^ (t mod b)) as ER.
  { rewrite M4, ET. rewrite Z.mul_assoc. apply Z.div_mul. lia. }
  rewrite ER. apply mk_cert; [lia | | ].
  - rewrite Hp. rewrite <- Z.pow_mul_r by lia. rewrite M4, ET. rewrite (Z.mul_comm b). ring.
  - rewrite Hp. intros C. apply Z.mod_divide in C; [|assert (0 < 2 ^ b) by (apply Z.pow_pos_nonneg; lia); lia].
    destruct C as [c Hc].
    assert (2 ^ b = 2 ^ (b - t mod b - 1) * 2 * 2 ^ (t mod b)) as EB.
    { replace (2 ^ (b - t mod b - 1) * 2) with (2 ^ (b - t mod b - 1 + 1)) by (rewrite Z.pow_add_r by lia; lia).
      rewrite <- Z.pow_add_r by lia. f_equal. lia. }
    rewrite EB in Hc. assert (0 < 2 ^ (t mod b)) by (apply Z.pow_pos_nonneg; lia).
    assert (m = c * 2 ^ (b - t mod b - 1) * 2) as Em by nia.
    rewrite Em in M1. rewrite Z.odd_mul in M1. cbn in M1. rewrite andb_false_r in M1. discriminate.
Qed.

(** the whole of UBig::remove *)
Theorem remove_asis_correct : forall fuel x f e rest, 0 <= x -> 0 <= f ->
  remove_asis fuel x f = Ok (Some (e, rest)) -> remove_cert x f e rest = true.
Proof.
  intros fuel x f e rest Hx Hf H. unfold remove_asis in H.
  destruct (Z.eqb_spec x 0); cbn [orb] in H; [discriminate|].
  destruct (Z.eqb_spec f 0); cbn [orb] in H; [discriminate|].
  destruct (Z.eqb_spec f 1); cbn [orb] in H; [discriminate|].
  destruct (is_pow2 f) eqn:Pw.
  - injection H as <- <-. apply remove_pow2_correct; [lia | lia | exact Pw].
  - eapply remove_general_correct; [| | exact H]; lia.
Qed.

Theorem remove_asis_none : forall fuel x f, 0 <= x -> 0 <= f ->
  (remove_asis fuel x f = Ok None <-> x = 0 \/ f = 0 \/ f = 1).
Proof.
  intros fuel x f Hx Hf. unfold remove_asis.
  destruct (Z.eqb_spec x 0); cbn [orb]; [split; auto|].
  destruct (Z.eqb_spec f 0); cbn [orb]; [split; auto|].
  destruct (Z.eqb_spec f 1); cbn [orb]; [split; auto|].
  split; [|lia]. intros H. exfalso.
  destruct (is_pow2 f); [discriminate|]. destruct (negb (x mod f =? 0)); [discriminate|].
  destruct (remove_stage1 fuel (x / f) 1 [f * f]) as [[[q exp] pows]| | |]; try discriminate.
  destruct (remove_stage2 q exp pows) as [q2 exp2]. destruct (q2 mod f =? 0); discriminate.
Qed.

Theorem remove_asis_terminates : forall fuel x f, 0 < x -> 2 <= f -> x < Z.of_nat fuel ->
  remove_asis fuel x f <> OutOfFuel.
Proof.
  intros fuel x f Hx Hf Hfu. unfold remove_asis.
  destruct ((x =? 0) || (f =? 0) || (f =? 1)); [discriminate|].
  destruct (is_pow2 f); [discriminate|].
  destruct (Z.eqb_spec (x mod f) 0) as [E|NE]; cbn [negb]; [|discriminate].
  assert (x = f * (x / f)) as Hd by (apply Z_div_exact_full_2; lia).
  destruct (stage1_terminates f Hf fuel (x / f) 1 [f * f]) as [[[q exp] pows] S]; [discriminate | | nia | nia |].
  { cbn [pows_ok]. split; [|exact I]. change (len [f * f]) with 1. symmetry. apply P1. }
  rewrite S. destruct (remove_stage2 q exp pows) as [q2 exp2]. destruct (q2 mod f =? 0); discriminate.
Qed.

Example remove_asis_ex : remove_asis 100 (3 ^ 37 * 10) 3 = Ok (Some (37, 10)) /\ remove_asis 100 (2 ^ 70 * 5) 8 = Ok (Some (23, 10)).
Proof. split; vm_compute; reflexivity. Qed.
