(** C01 round 4: the dispatcher over the regenerated kernels equals the dispatcher over the hand-written models, for
    every kernel number, word size and input. *)
From Dashu Require Import Base.Prelude Base.Words Int.RingAdd Int.RingMul Int.WordPrims Int.WordKernelSpec Int.WordKernelRun
  Int.WordKernelsGenProofs Int.RingAddProofs Int.WordKernelSpecProofs.
From DashuGen Require Import WordKernelsGen.
Open Scope Z_scope.

Theorem word_kernel_gen_eq w which lhs rhs x sx : word_kernel_gen w which lhs rhs x sx = word_kernel_hand w which lhs rhs x sx.
Proof.
  unfold word_kernel_gen, word_kernel_hand.
  rewrite ?add_one_in_place_gen_eq, ?sub_one_in_place_gen_eq, ?add_word_in_place_gen_eq, ?sub_word_in_place_gen_eq,
    ?add_dword_in_place_gen_eq, ?sub_dword_in_place_gen_eq, ?add_same_len_in_place_gen_eq, ?sub_same_len_in_place_gen_eq,
    ?add_in_place_gen_eq, ?sub_in_place_gen_eq, ?sub_same_len_in_place_swap_gen_eq, ?sub_in_place_with_sign_gen_eq,
    ?add_signed_word_in_place_gen_eq, ?add_signed_same_len_in_place_gen_eq, ?add_signed_in_place_gen_eq,
    ?mul_word_in_place_with_carry_gen_eq, ?mul_word_in_place_gen_eq, ?mul_dword_in_place_gen_eq,
    ?add_mul_word_same_len_in_place_gen_eq, ?sub_mul_word_same_len_in_place_gen_eq.
  reflexivity.
Qed.

Theorem signed_mul_chunk_gen_eq w c s a b : (length a + length b <= length c)%nat ->
  signed_mul_chunk_gen w c s a b = add_signed_mul_chunk w c s a b.
Proof. apply add_signed_mul_chunk_gen_eq. Qed.

(** the regenerated kernels meet the specification the correspondence run judges them against *)
Theorem word_kernel_gen_meets_spec : forall w, 8 <= w -> forall which lhs rhs x sx, 0 <= which <= 19 -> which <> 11 ->
  word_kernel_pre w which lhs rhs x sx ->
  let '(l, (m, neg)) := word_kernel_gen w which lhs rhs x sx in
  length l = length lhs /\ wf w l /\
  (value w l, m, neg) = word_kernel_spec w which (len lhs) (value w lhs) (value w rhs) x sx.
Proof. intros. rewrite word_kernel_gen_eq. apply word_kernel_hand_meets_spec; auto. Qed.

(** kernel 11 = sub_in_place_with_sign: magnitude and sign of the difference *)
Theorem word_kernel_gen_with_sign : forall w, 8 <= w -> forall lhs rhs x sx, word_kernel_pre w 11 lhs rhs x sx ->
  let '(l, (m, neg)) := word_kernel_gen w 11 lhs rhs x sx in
  length l = length lhs /\ wf w l /\ m = 0 /\ (if neg then - value w l else value w l) = value w lhs - value w rhs.
Proof.
  intros w Hw lhs rhs x sx (Hl & Hr & _ & _ & Hp). rewrite word_kernel_gen_eq.
  cbv beta iota zeta delta [word_kernel_hand]. destruct (sub_in_place_with_sign w lhs rhs) as [l s] eqn:E.
  assert (Hw0 : 0 < w) by lia.
  destruct (sub_in_place_with_sign_spec w Hw0 lhs rhs Hp Hl Hr l s E) as (L & Hwl & V).
  unfold wk_sign. repeat split; auto. unfold signed in V. destruct s; cbn [sgnz] in V; cbv beta iota; lia.
Qed.
