(** C02 round 5 - the regenerated word / double-word ConstDivisor paths (Int/DivConstGenInst.v over coq/gen/DivBodiesGen.v) are the
    hand models const_rem / const_div_rem of Int/DivWordModel.v, for every word size and every instance of the primitives. *)
From Dashu Require Import Base.Prelude Base.Words Int.RingAdd Int.WordPrims Int.DivWordModel Int.DivWordProofs Int.DivReprProofs Int.DivOwn Int.DivKernelsBase
  Int.DivKernelsGenProofs Int.DivKernelsInst Int.DivConstGenInst Int.DivSrcInst Int.DivSrcInstProofs.
From DashuGen Require Import DivKernelsGen DivBodiesGen.
Open Scope Z_scope.

Section ConstGenProofs.
Variable w : Z.
Hypothesis w_pos : 0 < w.
Variable P : div_prims.
Variable T : nat.
Notation B := (Words.B w).

Local Lemma Bpos : 0 < B. Proof. apply B_pos; lia. Qed.

Lemma nwords_large a : B * B <= a -> (3 <= length (words_of w a))%nat.
Proof.
  intros Ha. pose proof Bpos. destruct (words_of_spec w w_pos a ltac:(nia)) as (_ & _ & Hl). rewrite Hl.
  apply (nwords_ge3 w w_pos a Ha).
Qed.

Lemma value_pop_zeros ws : Words.value w (pop_zeros ws) = Words.value w ws.
Proof.
  unfold pop_zeros. rewrite <- (rev_involutive ws) at 2. generalize (rev ws) as be.
  induction be as [|x r IH]; [reflexivity|]. cbn [strip_be]. destruct (Z.eqb_spec x 0) as [->|]; [|reflexivity].
  rewrite IH. cbn [rev]. rewrite value_app. cbn [Words.value]. lia.
Qed.

Lemma tvalue_from_buffer ws : tvalue w (from_buffer w ws) = Words.value w ws.
Proof.
  rewrite <- (value_pop_zeros ws). unfold from_buffer.
  destruct (pop_zeros ws) as [|a [|b [|c l]]]; cbn [tvalue Words.value]; lia.
Qed.

Theorem gc_rem_eq which a d : 0 <= a -> 0 <= d < B * B ->
  gc_rem P w which a d = const_rem w (p1by1 P) (p2by1 P) (p2by2 P) (p3by2 P) (p4by2 P) (pmul_sub P) T a d.
Proof.
  intros Ha Hd. pose proof Bpos as HB. unfold gc_rem, const_rem.
  destruct (Z.eqb_spec d 0) as [|Hz]; [reflexivity|].
  destruct (Z.ltb_spec d B) as [Hd1|Hd1].
  - pose proof (lzw1_nonneg w d ltac:(lia)) as Hs. set (s := lzw w 1 d) in *. set (dn := d * 2 ^ s).
    destruct (Z.ltb_spec a (B * B)) as [Ha1|Ha1].
    + replace (if which =? 0 then crem_small_single_gen P w a s dn else crem_ref_small_single_gen P w a s dn) with (crem_small_single_gen P w a s dn)
        by (destruct (which =? 0); reflexivity).
      unfold crem_small_single_gen, single_rem_dword_gen, wsplit_dword, wdouble_word. cbn [tvalue from_word].
      destruct (s =? 0) eqn:Es.
      * apply Z.eqb_eq in Es. rewrite Es, Z.shiftr_0_r. destruct (p1by1 P dn (a / B)) as [q1 r1]. reflexivity.
      * rewrite shiftr_div by exact Hs. destruct (shl_dword w a s) as [[n0 n1] n2]. destruct (p2by1 P dn (n1 + B * n2)) as [q1 r1]. reflexivity.
    + replace (if which =? 0 then crem_large_single_gen P w (words_of w a) s dn else crem_ref_large_single_gen P w (words_of w a) s dn)
        with (crem_large_single_gen P w (words_of w a) s dn) by (destruct (which =? 0); reflexivity).
      pose proof (nwords_large a Ha1) as Hl.
      unfold crem_large_single_gen, single_rem_large_gen. cbn [tvalue from_word].
      rewrite fast_rem_by_normalized_word_gen_eq by lia. rewrite shiftr_div, shiftl_mul by exact Hs.
      destruct (s =? 0); reflexivity.
  - pose proof (lzw2_nonneg w w_pos d ltac:(lia)) as Hs. set (s := lzw w 2 d) in *. set (dn := d * 2 ^ s).
    destruct (Z.ltb_spec d (B * B)) as [_|]; [|lia].
    destruct (Z.ltb_spec a (B * B)) as [Ha1|Ha1].
    + replace (if which =? 0 then crem_small_double_gen P w a s dn else crem_ref_small_double_gen P w a s dn) with (crem_small_double_gen P w a s dn)
        by (destruct (which =? 0); reflexivity).
      unfold crem_small_double_gen, double_rem_dword_gen, wdouble_word. cbn [tvalue from_dword].
      destruct (s =? 0) eqn:Es.
      * apply Z.eqb_eq in Es. rewrite Es, Z.shiftr_0_r. reflexivity.
      * rewrite shiftr_div by exact Hs. destruct (shl_dword w a s) as [[n0 n1] n2]. reflexivity.
    + replace (if which =? 0 then crem_large_double_gen P w (words_of w a) s dn else crem_ref_large_double_gen P w (words_of w a) s dn)
        with (crem_large_double_gen P w (words_of w a) s dn) by (destruct (which =? 0); reflexivity).
      pose proof (nwords_large a Ha1) as Hl.
      unfold crem_large_double_gen, double_rem_large_gen, wdouble_word. cbn [tvalue from_dword].
      rewrite fast_rem_by_normalized_dword_gen_eq by lia. rewrite shiftr_div by exact Hs.
      destruct (s =? 0); cbn [negb]; [reflexivity|].
      destruct (shl_dword w (rem_dword_loop w (p2by2 P) (p3by2 P) (p4by2 P) dn (words_of w a)) s) as [[r0 r1] r2]. reflexivity.
Qed.

Theorem gc_div_rem_eq a d : 0 <= a -> 0 <= d < B * B ->
  gc_div_rem P w a d = const_div_rem w (p2by1 P) (p3by2 P) (p4by2 P) (pmul_sub P) T a d /\
  gc_div P w a d = rbind (gc_div_rem P w a d) (fun qr => Ok (fst qr)).
Proof.
  intros Ha Hd. pose proof Bpos as HB. unfold gc_div, gc_div_rem, const_div_rem.
  destruct (Z.eqb_spec d 0) as [|Hz]; [split; reflexivity|].
  destruct (Z.ltb_spec d B) as [Hd1|Hd1].
  - pose proof (lzw1_nonneg w d ltac:(lia)) as Hs. set (s := lzw w 1 d) in *. set (dn := d * 2 ^ s).
    destruct (Z.ltb_spec a (B * B)) as [Ha1|Ha1].
    + unfold cdiv_small_single_gen, cdivrem_small_single_gen, div_rem_small_single_gen, wdouble_word.
      destruct (shl_dword w a s) as [[lo mid] hi]. destruct (p2by1 P dn (mid + B * hi)) as [q1 r1]. destruct (p2by1 P dn (lo + B * r1)) as [q0 r0].
      cbn [tvalue from_dword from_word fst rbind]. rewrite shiftr_div by exact Hs. split; reflexivity.
    + unfold cdiv_large_single_gen, cdivrem_large_single_gen. rewrite fast_div_by_word_gen_eq by exact Hs.
      destruct (fast_div_by_word w (p2by1 P) (words_of w a) s dn) as [q r]. cbn [tvalue from_word fst rbind].
      split; [|reflexivity]. f_equal. f_equal. apply tvalue_from_buffer.
  - pose proof (lzw2_nonneg w w_pos d ltac:(lia)) as Hs. set (s := lzw w 2 d) in *. set (dn := d * 2 ^ s).
    destruct (Z.ltb_spec d (B * B)) as [_|]; [|lia].
    destruct (Z.ltb_spec a (B * B)) as [Ha1|Ha1].
    + unfold cdiv_small_double_gen, cdivrem_small_double_gen, div_rem_small_double_gen, wdouble_word.
      destruct (shl_dword w a s) as [[lo mid] hi]. destruct (p3by2 P dn lo (mid + B * hi)) as [q r].
      cbn [tvalue from_dword from_word fst rbind]. rewrite shiftr_div by exact Hs. split; reflexivity.
    + unfold cdiv_large_double_gen, cdivrem_large_double_gen. rewrite fast_div_by_dword_gen_eq by exact Hs.
      destruct (fast_div_by_dword w (p3by2 P) (p4by2 P) (words_of w a) s dn) as [q r]. cbn [tvalue from_dword fst rbind].
      split; [|reflexivity]. f_equal. f_equal. apply tvalue_from_buffer.
Qed.

End ConstGenProofs.

(** with num-modular's reciprocal division and C01's multiplication transcribed (instance Pnm), nothing assumed, w >= 8: the
    regenerated word / double-word ConstDivisor arms return the quotient and the remainder of plain division, and zero panics *)
Theorem gc_unconditional (w : Z) : 8 <= w -> forall which a d, 0 <= a -> 0 <= d < Words.B w * Words.B w ->
  gc_rem (Pnm w) w which a d = (if d =? 0 then Panic DivideBy0 else Ok (a mod d)) /\
  gc_div_rem (Pnm w) w a d = (if d =? 0 then Panic DivideBy0 else Ok (a / d, a mod d)) /\
  gc_div (Pnm w) w a d = (if d =? 0 then Panic DivideBy0 else Ok (a / d)).
Proof.
  intros Hw which a d Ha Hd. assert (Hw0 : 0 < w) by lia.
  destruct (gc_div_rem_eq w Hw0 (Pnm w) Ts a d Ha Hd) as (E1 & E2).
  rewrite E2, E1, (gc_rem_eq w Hw0 (Pnm w) Ts which a d Ha Hd). cbn [Pnm prims_of p1by1 p2by1 p2by2 p3by2 p4by2 pmul_sub].
  destruct (Z.eqb_spec d 0) as [->|Hz].
  - repeat split; reflexivity.
  - fold (s_const_rem w a d). fold (s_const_div_rem w a d).
    rewrite (s_const_rem_correct w Hw a d Ha ltac:(lia)), (s_const_div_rem_correct w Hw a d Ha ltac:(lia)). repeat split; reflexivity.
Qed.

Example gc_examples :
  gc_rem (Pnm 64) 64 0 (2 ^ 200 + 12345) 10 = Ok ((2 ^ 200 + 12345) mod 10) /\
  gc_rem (Pnm 64) 64 1 (2 ^ 100 + 5) (2 ^ 70 + 3) = Ok ((2 ^ 100 + 5) mod (2 ^ 70 + 3)) /\
  gc_div_rem (Pnm 32) 32 (2 ^ 200 + 12345) (2 ^ 40 + 1) = Ok ((2 ^ 200 + 12345) / (2 ^ 40 + 1), (2 ^ 200 + 12345) mod (2 ^ 40 + 1)) /\
  gc_div (Pnm 64) 64 (2 ^ 100) 7 = Ok (2 ^ 100 / 7) /\ gc_div (Pnm 64) 64 5 0 = Panic DivideBy0.
Proof. vm_compute. repeat split. Qed.
