(** C13 - the 64-bit instance of the as-is model that the oracle runs (ModRingInst.v: exact external
    functions, composite runs "build the ring, reduce the operands, operate, read the residue")
    returns what the specification demands, for ALL moduli m >= 1 and all operands.
    Also: the witnesses of the repaired defects F01-F03 stay refuted on the pre-repair models. *)
From Dashu Require Import Base.Prelude Base.Words Int.ModRingSpec Int.ModRingSpecProofs
  Int.ModRingPowModel Int.ModRingPowProofs Int.ModRingModel Int.ModRingProofs Int.ModRingOpsProofs Int.ModRingInst.
Open Scope Z_scope.

Lemma W64_ge : 2 <= W64. Proof. unfold W64. lia. Qed.

(** the exact external functions meet the contracts *)
Lemma ex_2by1_ok : forall d a, 2 ^ W64 / 2 <= d < 2 ^ W64 -> 0 <= a -> a / 2 ^ W64 < d -> ex_2by1 d a = (a / d, a mod d).
Proof. intros. reflexivity. Qed.

Lemma ex_3by2_ok : forall d lo hi, 2 ^ W64 * 2 ^ W64 / 2 <= d < 2 ^ W64 * 2 ^ W64 -> 0 <= lo < 2 ^ W64 -> 0 <= hi < d ->
  ex_3by2 d lo hi = ((lo + 2 ^ W64 * hi) / d, (lo + 2 ^ W64 * hi) mod d).
Proof. intros. reflexivity. Qed.

Lemma ex_invm_ok : forall x m, 0 < m -> 0 <= x < m ->
  match ex_invm x m with Some v => is_inverse m x v | None => Z.gcd x m <> 1 end.
Proof.
  intros x m Hm Hx. unfold ex_invm. pose proof (inv_spec_ok m x Hm) as H.
  destruct (inv_spec m x); [apply H | exact H].
Qed.

Lemma ex_gcd_ext_ok : forall lhs rhs, 0 < rhs < lhs ->
  let '(g, b, s) := ex_gcd_ext lhs rhs in
  g = Z.gcd lhs rhs /\ 0 <= b < lhs /\ (g = 1 -> (rhs * signed s b) mod lhs = 1 mod lhs).
Proof.
  intros lhs rhs H. unfold ex_gcd_ext. pose proof (inv_spec_ok lhs rhs ltac:(lia)) as Hs.
  destruct (inv_spec lhs rhs) as [t|].
  - destruct Hs as [[Ht Et] G]. split; [rewrite Z.gcd_comm; symmetry; exact G|]. split; [exact Ht|].
    intros _. rewrite <- Et. f_equal; try (unfold signed, sgnz; lia).
  - split; [reflexivity|]. split; [lia|]. intros G. rewrite Z.gcd_comm in G. contradiction.
Qed.

Local Ltac new_ring id m Hm r Hwf Em :=
  destruct (new_ring_ok W64 W64_ge id m Hm) as (r & Enew & Hwf & Em & _); unfold i_new; rewrite ?Enew; cbn [rbind].
Local Ltac reduce r a Hwf x Hx :=
  unfold i_reduce;
  destruct (reduce_ok W64 W64_ge ex_2by1 ex_3by2 ex_2by1_ok ex_3by2_ok r a Hwf) as (x & Ered & Hx); rewrite Ered; clear Ered; cbn [rbind].
Local Ltac residue r v c Hwf Hc Em :=
  unfold i_residue; destruct (residue_ok W64 W64_ge r v c Hwf Hc) as (Eres & _ & Emod); rewrite Eres; cbn [rbind]; rewrite ?Emod, ?Em.

Theorem run_reduce_correct m a : 1 <= m -> run_reduce m a = Ok (reduce_spec m a, m).
Proof.
  intros Hm. unfold run_reduce. new_ring 0 m Hm r Hwf Em. reduce r a Hwf x Hx. residue r a x Hwf Hx Em. reflexivity.
Qed.

Theorem run_un_correct o m a : 1 <= m -> run_un o m a = Ok (un_spec o m a).
Proof.
  intros Hm. unfold run_un. new_ring 0 m Hm r Hwf Em. reduce r a Hwf x Hx.
  destruct o; unfold i_un, un_spec, i_neg, i_dbl, i_sqr.
  - destruct (neg_ok W64 W64_ge r a x Hwf Hx) as (c & -> & Hc). cbn [rbind]. residue r (- a) c Hwf Hc Em. reflexivity.
  - destruct (dbl_ok W64 W64_ge r a x Hwf Hx) as (c & -> & Hc). cbn [rbind]. residue r (2 * a) c Hwf Hc Em. reflexivity.
  - destruct (sqr_ok W64 W64_ge ex_2by1 ex_3by2 ex_2by1_ok ex_3by2_ok r a x Hwf Hx) as (c & -> & Hc). cbn [rbind].
    residue r (a * a) c Hwf Hc Em. reflexivity.
Qed.

(** operands of one ring: the four binary operators return what [bin_spec] demands *)
Theorem run_bin_correct o id m a b : 1 <= m -> run_bin o id id m m a b = bin_spec o m a b.
Proof.
  intros Hm. unfold run_bin. new_ring id m Hm r Hwf Em. reduce r a Hwf x Hx. reduce r b Hwf y Hy.
  destruct o; unfold i_bin, bin_spec, i_add, i_sub, i_mul, i_div.
  - destruct (add_ok W64 W64_ge r a b x y Hwf Hx Hy) as (c & -> & Hc). cbn [rbind]. residue r (a + b) c Hwf Hc Em. reflexivity.
  - destruct (sub_ok W64 W64_ge r a b x y Hwf Hx Hy) as (c & -> & Hc). cbn [rbind]. residue r (a - b) c Hwf Hc Em. reflexivity.
  - destruct (mul_ok W64 W64_ge ex_2by1 ex_3by2 ex_2by1_ok ex_3by2_ok r a b x y Hwf Hx Hy) as (c & -> & Hc). cbn [rbind].
    residue r (a * b) c Hwf Hc Em. reflexivity.
  - pose proof (div_asis_ok W64 W64_ge ex_2by1 ex_3by2 ex_invm ex_gcd_ext ex_2by1_ok ex_3by2_ok ex_invm_ok ex_gcd_ext_ok
                  r a b x y Hwf Hx Hy) as Hd.
    rewrite Em in Hd. destruct (div_spec m a b) as [q|p| |] eqn:Eq; try contradiction.
    + destruct Hd as (c & -> & Hc). cbn [rbind]. residue r q c Hwf Hc Em.
      f_equal. unfold reduce_spec. apply Z.mod_small.
      destruct (div_spec_mul_back m a b q ltac:(lia) Eq) as [Hq _]. exact Hq.
    + rewrite Hd. reflexivity.
Qed.

(** operands of two ConstDivisor instances (whatever the moduli): the documented panic; division
    computes the inverse first, so a non-invertible divisor is reported first *)
Theorem run_bin_mixed o id1 id2 m1 m2 a b : 1 <= m1 -> 1 <= m2 -> id1 <> id2 ->
  run_bin o id1 id2 m1 m2 a b =
  match o with
  | ODiv => if inv_spec m2 b then Panic DifferentRings else Panic NonInvertible
  | _ => Panic DifferentRings
  end.
Proof.
  intros Hm1 Hm2 Hid. unfold run_bin.
  destruct (new_ring_ok W64 W64_ge id1 m1 Hm1) as (r1 & E1 & Hwf1 & Em1 & Ei1).
  destruct (new_ring_ok W64 W64_ge id2 m2 Hm2) as (r2 & E2 & Hwf2 & Em2 & Ei2).
  unfold i_new. rewrite E1, E2. cbn [rbind]. reduce r1 a Hwf1 x Hx. reduce r2 b Hwf2 y Hy.
  assert (r_id (e_ring x) <> r_id (e_ring y)) as Hne.
  { destruct Hx as [-> _]. destruct Hy as [-> _]. congruence. }
  destruct (different_rings_panic W64 ex_2by1 ex_3by2 x y Hne) as (Ea & Es & Emul & _).
  destruct o; unfold i_bin, i_add, i_sub, i_mul, i_div; [rewrite Ea | rewrite Es | rewrite Emul |]; try reflexivity.
  destruct (inv_asis_ok W64 W64_ge ex_invm ex_gcd_ext ex_invm_ok ex_gcd_ext_ok r2 b y Hwf2 Hy) as (oi & Eo & Hp).
  pose proof (inv_spec_ok m2 b ltac:(lia)) as Hs.
  unfold div_asis. rewrite Eo. cbn [rbind].
  destruct oi as [c|], (inv_spec m2 b) as [iv|]; cbn [inv_post] in Hp; rewrite ?Em2 in Hp.
  - destruct Hp as (v & [Erc _] & _).
    assert (r_id (e_ring x) <> r_id (e_ring c)) as Hne2.
    { destruct Hx as [-> _]. rewrite Erc. congruence. }
    destruct (different_rings_panic W64 ex_2by1 ex_3by2 x c Hne2) as (_ & _ & -> & _). reflexivity.
  - destruct Hp as (v & _ & _ & G). contradiction.
  - destruct Hs as [_ G]. contradiction.
  - reflexivity.
Qed.

Theorem run_pow_correct m a e : 1 <= m -> 0 <= e -> run_pow m a e = Ok (powm m a e) /\ powm m a e = (a ^ e) mod m.
Proof.
  intros Hm He. split; [|apply powm_correct; lia]. unfold run_pow. new_ring 0 m Hm r Hwf Em. reduce r a Hwf x Hx.
  unfold i_pow.
  destruct (pow_ok W64 W64_ge ex_2by1 ex_3by2 ex_2by1_ok ex_3by2_ok r a x e Hwf Hx He) as (c & -> & Hc). cbn [rbind].
  residue r (a ^ e) c Hwf Hc Em. rewrite powm_correct by lia. reflexivity.
Qed.

Theorem run_inv_correct m a : 1 <= m -> run_inv m a = Ok (inv_spec m a).
Proof.
  intros Hm. unfold run_inv. new_ring 0 m Hm r Hwf Em. reduce r a Hwf x Hx. unfold i_inv.
  destruct (inv_asis_ok W64 W64_ge ex_invm ex_gcd_ext ex_invm_ok ex_gcd_ext_ok r a x Hwf Hx) as (o & -> & Hp).
  cbn [rbind]. pose proof (inv_spec_ok m a ltac:(lia)) as Hs.
  destruct o as [c|], (inv_spec m a) as [iv|]; cbn [inv_post] in Hp; rewrite ?Em in Hp.
  - destruct Hp as (v & Hc & Hinv & _). destruct Hs as [Hiv _].
    residue r v c Hwf Hc Em. do 2 f_equal. unfold reduce_spec. apply (inverse_unique m a); [lia | exact Hinv | exact Hiv].
  - destruct Hp as (v & _ & _ & G). contradiction.
  - destruct Hs as [_ G]. contradiction.
  - reflexivity.
Qed.

Theorem run_eq_correct id m a b : 1 <= m -> run_eq id id m m a b = Ok (reduce_spec m a =? reduce_spec m b).
Proof.
  intros Hm. unfold run_eq. new_ring id m Hm r Hwf Em. reduce r a Hwf x Hx. reduce r b Hwf y Hy.
  unfold i_eq. rewrite (eq_asis_ok W64 W64_ge r a b x y Hwf Hx Hy), Em. reflexivity.
Qed.

(** the Reducer implementation: residue as specified, the result passes [check] *)
Definition rd_spec (o : rdop) (m a b : Z) : Z :=
  match o with
  | RTransform => reduce_spec m a | RAdd => add_spec m a b | RSub => sub_spec m a b | RMul => mul_spec m a b
  | RDbl => dbl_spec m a | RNeg => neg_spec m a | RSqr => sqr_spec m a | RPow => pow_spec m a b
  end.

Theorem run_rd_correct o m a b : 1 <= m -> 0 <= a -> 0 <= b ->
  exists raw, run_rd true o m a b = Ok (rd_spec o m a b, true, raw).
Proof.
  intros Hm Ha Hb. unfold run_rd. new_ring 0 m Hm r Hwf Em. unfold i_transform.
  rewrite (rd_transform_ok W64 W64_ge ex_2by1 ex_3by2 ex_2by1_ok ex_3by2_ok r a Hwf Ha). cbn [rbind].
  assert (forall v, rd_out true r (v mod r_m r * 2 ^ r_shift r) = (v mod m, true, v mod r_m r * 2 ^ r_shift r)) as Hout.
  { intros v. unfold rd_out. fold (rd_check W64 r (v mod r_m r * 2 ^ r_shift r)).
    rewrite (rd_check_rep W64 W64_ge r v Hwf).
    destruct (rd_residue_ok W64 W64_ge r v Hwf) as (-> & _). unfold reduce_spec. rewrite Em. reflexivity. }
  destruct o; cbn [rd_spec];
    try (rewrite (rd_transform_ok W64 W64_ge ex_2by1 ex_3by2 ex_2by1_ok ex_3by2_ok r b Hwf Hb); cbn [rbind]).
  - rewrite Hout. eexists; reflexivity.
  - fold (rd_add W64 r). rewrite (rd_add_ok W64 W64_ge r a b Hwf). cbn [rbind]. rewrite Hout. eexists; reflexivity.
  - rewrite (rd_sub_ok W64 W64_ge r a b Hwf). cbn [rbind]. rewrite Hout. eexists; reflexivity.
  - rewrite (rd_mul_ok W64 W64_ge ex_2by1 ex_3by2 ex_2by1_ok ex_3by2_ok r a b Hwf). cbn [rbind]. rewrite Hout. eexists; reflexivity.
  - fold (rd_dbl W64 r). rewrite (rd_dbl_ok W64 W64_ge r a Hwf). cbn [rbind]. rewrite Hout. eexists; reflexivity.
  - rewrite (rd_neg_ok W64 W64_ge r a Hwf). cbn [rbind]. rewrite Hout. eexists; reflexivity.
  - rewrite (rd_sqr_ok W64 W64_ge ex_2by1 ex_3by2 ex_2by1_ok ex_3by2_ok r a Hwf). cbn [rbind]. rewrite Hout. eexists; reflexivity.
  - rewrite (rd_pow_ok W64 W64_ge ex_2by1 ex_3by2 ex_2by1_ok ex_3by2_ok r a b Hwf Hb). cbn [rbind]. rewrite Hout. eexists; reflexivity.
Qed.

Theorem run_rd_check_correct m t : 1 <= m -> 0 <= t -> run_rd_check true m t = rd_check_spec m t.
Proof.
  intros Hm Ht. unfold run_rd_check, rd_check_spec. new_ring 0 m Hm r Hwf Em. f_equal.
  fold (rd_check W64 r t). rewrite (rd_check_ok W64 W64_ge r t Hwf Ht), Em.
  replace (0 <=? t) with true by (symmetry; apply Z.leb_le; exact Ht). reflexivity.
Qed.

Theorem run_rd_inv_correct m a : 1 <= m -> 0 <= a ->
  exists o, run_rd_inv m a = Ok o /\
    match o, inv_spec m a with
    | Some (res, chk, _), Some iv => res = iv /\ chk = true
    | None, None => True
    | _, _ => False
    end.
Proof.
  intros Hm Ha. unfold run_rd_inv. new_ring 0 m Hm r Hwf Em. unfold i_transform.
  rewrite (rd_transform_ok W64 W64_ge ex_2by1 ex_3by2 ex_2by1_ok ex_3by2_ok r a Hwf Ha). cbn [rbind].
  destruct (rd_inv_ok W64 W64_ge ex_invm ex_gcd_ext ex_invm_ok ex_gcd_ext_ok r a Hwf) as (o & -> & Hp). cbn [rbind].
  eexists; split; [reflexivity|]. pose proof (inv_spec_ok m a ltac:(lia)) as Hs.
  destruct o as [t|], (inv_spec m a) as [iv|].
  - destruct Hp as (v & -> & Hinv & _). destruct Hs as [Hiv _]. rewrite Em in Hinv. unfold rd_out.
    fold (rd_check W64 r (v mod r_m r * 2 ^ r_shift r)). rewrite (rd_check_rep W64 W64_ge r v Hwf).
    destruct (rd_residue_ok W64 W64_ge r v Hwf) as (-> & _). unfold reduce_spec. rewrite Em.
    split; [apply (inverse_unique m a); [lia | exact Hinv | exact Hiv] | reflexivity].
  - destruct Hp as (v & _ & _ & G). rewrite Em in G. contradiction.
  - destruct Hs as [_ G]. rewrite Em in Hp. contradiction.
  - exact I.
Qed.

Theorem run_rd_modulus_correct m : 1 <= m -> run_rd_modulus m = Ok m.
Proof.
  intros Hm. unfold run_rd_modulus. new_ring 0 m Hm r Hwf Em.
  destruct (rd_residue_ok W64 W64_ge r 0 Hwf) as (_ & -> & _). rewrite Em. reflexivity.
Qed.

(** ---------------- the repaired defects, on the pre-repair models (closed witnesses) ---------------- *)
(** F01: the unit of the ring with modulus 1 was 1 << 63 = the normalised divisor: not a valid form *)
Lemma F01_refuted : run_pow_prefix 1 5 0 = Panic Undocumented /\ run_pow 1 5 0 = Ok 0.
Proof. vm_compute. split; reflexivity. Qed.

(** F02: full-width one-word modulus, two-word operand with a high word >= the modulus *)
Lemma F02_refuted :
  match i_new 0 (2 ^ 63) with
  | Ok r => s_rem_dword_prefix W64 ex_2by1 r (2 ^ 128 - 2 ^ 64 + 1) = Panic Undocumented /\
            s_rem_dword W64 ex_2by1 r (2 ^ 128 - 2 ^ 64 + 1) = Ok 1
  | _ => False
  end.
Proof. vm_compute. split; reflexivity. Qed.

(** F03: check accepted the normalised modulus of a multi-word ring; the sum 1 + (m - 1) came back as m *)
Lemma F03_refuted :
  let m := 2 ^ 128 + 1 in
  run_rd false RAdd m 1 (2 ^ 128) = Ok (m, true, m * 2 ^ 63) /\
  run_rd true RAdd m 1 (2 ^ 128) = Ok (0, true, 0) /\
  run_rd_check false m (m * 2 ^ 63) = Ok true /\ rd_check_spec m (m * 2 ^ 63) = Ok false.
Proof. vm_compute. repeat split; reflexivity. Qed.

(** non-vacuity of the hypotheses used above *)
Example ring_wf_ex : exists r, i_new 7 (2 ^ 130 + 12) = Ok r /\ ring_wf W64 r /\ r_kind r = KLarge /\ r_shift r = 61.
Proof.
  destruct (new_ring_ok W64 W64_ge 7 (2 ^ 130 + 12) ltac:(lia)) as (r & E & Hwf & _).
  exists r. split; [exact E|]. split; [exact Hwf|]. unfold i_new in E. vm_compute in E. injection E as <-. split; reflexivity.
Qed.
Example run_examples :
  run_bin ODiv 0 0 7 7 3 5 = Ok 2 /\ run_bin ODiv 0 0 12 12 5 4 = Panic NonInvertible /\
  run_bin OAdd 1 2 7 7 3 5 = Panic DifferentRings /\ run_pow (2 ^ 130 + 12) (-3) (2 ^ 70 + 5) = Ok (powm (2 ^ 130 + 12) (-3) (2 ^ 70 + 5)).
Proof. vm_compute. repeat split; reflexivity. Qed.
