(** C01 (L0): the Toom-3 model (toom_3::add_signed_mul_same_len: five recursive word-level products,
    evaluation at 0, 1, -1, 2, inf and interpolation with the exact divisions by 6 and 2 at value
    level) meets the kernel contract for every word size w >= 8 and every length n >= 4 (the code
    requires n >= MIN_LEN = 16): none of the "never negative" subtractions goes negative, both
    divisions are exact, no intermediate leaves its 2*n3+2 word buffer, and the result is
    c + sign * a * b.  NOT covered: the slice / deferred-carry bookkeeping of toom_3.rs (the model
    adds the interpolated polynomial to c in one step). *)
From Dashu Require Import Base.Prelude Base.Words Int.RingAdd Int.RingAddProofs Int.RingMul Int.RingMulProofs Int.RingKaraProofs.
Open Scope Z_scope.

Section ToomProofs.
Variable w : Z.
Hypothesis w_ge : 8 <= w.
Let w_pos : 0 < w. Proof. lia. Qed.
Notation BB := (B w).
Notation val := (value w).
Notation wfw := (wf w).

(** a product accumulated on top of a non-zero buffer that has room for it: no carry *)
Lemma accum_ok (f : mulfn) c a b : pre w c a b -> mul_ok w f c Positive a b -> val c + val a * val b < BB ^ len c ->
  exists r, assert_zero (f c Positive a b) = Ok r /\ length r = length c /\ wfw r /\ val r = val c + val a * val b.
Proof.
  intros (Hc & Ha & Hb & L) (r & k & E & Lr & Wr & V) Hlt. cbn [sgnz] in V.
  pose proof (value_bounds w w_pos r Wr) as Br. rewrite (len_eq r c Lr) in Br.
  pose proof (value_bounds w w_pos c Hc) as Bc. pose proof (value_bounds w w_pos a Ha) as Ba. pose proof (value_bounds w w_pos b Hb) as Bb.
  assert (k = 0) by nia. subst k. exists r. rewrite E. cbn [assert_zero Z.eqb]. repeat split; auto. lia.
Qed.

Lemma third_facts (n : nat) : (4 <= n)%nat ->
  let n3 := ((n + 2) / 3)%nat in (2 * n3 <= n /\ n <= 3 * n3 /\ n3 + 1 < n /\ 1 <= n3)%nat.
Proof.
  intros Hn n3. subst n3.
  pose proof (Nat.div_mod (n + 2) 3 ltac:(lia)). pose proof (Nat.mod_upper_bound (n + 2) 3 ltac:(lia)). lia.
Qed.

Lemma val_to_words_lt (k : nat) v : 0 <= v < BB ^ Z.of_nat k ->
  length (to_words w k v) = k /\ wfw (to_words w k v) /\ val (to_words w k v) = v.
Proof. intros H. split; [apply to_words_length | split; [apply to_words_wf; exact w_pos | apply value_to_words; auto]]. Qed.

Lemma BB_sq_ge : 65536 <= BB * BB.
Proof. pose proof (B_ge_256 w w_ge). nia. Qed.

Theorem toom3_ok (rec_same : mulfn) c s a b :
  pre w c a b -> length a = length b -> (4 <= length a)%nat -> same_ok w rec_same (length a) ->
  mul_ok w (toom3_same_len w rec_same) c s a b.
Proof.
  intros (Hc & Ha & Hb & L) Lab Hn Hrec. pose proof (B_ge_256 w w_ge) as HB256. pose proof BB_sq_ge as HB2.
  unfold mul_ok, toom3_same_len. cbv zeta.
  destruct (third_facts (length a) Hn) as (M1 & M2 & M3 & M4). cbv zeta in M1, M2, M3, M4.
  set (n := length a) in *. set (n3 := ((n + 2) / 3)%nat) in *.
  set (a0 := firstn n3 a). set (a1 := slice n3 n3 a). set (a2 := skipn (2 * n3) a).
  set (b0 := firstn n3 b). set (b1 := slice n3 n3 b). set (b2 := skipn (2 * n3) b).
  assert (La0 : length a0 = n3) by (subst a0; rewrite firstn_length_le; lia).
  assert (Lb0 : length b0 = n3) by (subst b0; rewrite firstn_length_le; lia).
  assert (La1 : length a1 = n3) by (subst a1; apply slice_length; lia).
  assert (Lb1 : length b1 = n3) by (subst b1; apply slice_length; lia).
  assert (La2 : length a2 = (n - 2 * n3)%nat) by (subst a2; rewrite skipn_length; lia).
  assert (Lb2 : length b2 = (n - 2 * n3)%nat) by (subst b2; rewrite skipn_length; lia).
  assert (Wa0 : wfw a0) by (apply wf_firstn; auto). assert (Wb0 : wfw b0) by (apply wf_firstn; auto).
  assert (Wa1 : wfw a1) by (apply wf_slice; auto). assert (Wb1 : wfw b1) by (apply wf_slice; auto).
  assert (Wa2 : wfw a2) by (apply wf_skipn; auto). assert (Wb2 : wfw b2) by (apply wf_skipn; auto).
  set (X := BB ^ Z.of_nat n3) in *.
  assert (HX : 0 < X) by apply pow_nat_pos, w_ge.
  assert (Sa : val a = val a0 + X * val a1 + X * X * val a2).
  { rewrite (split3 n3 n3 a) at 1. fold a0 a1. replace (n3 + n3)%nat with (2 * n3)%nat by lia. fold a2.
    rewrite !value_app. unfold len. rewrite La0, La1. fold X. ring. }
  assert (Sb : val b = val b0 + X * val b1 + X * X * val b2).
  { rewrite (split3 n3 n3 b) at 1. fold b0 b1. replace (n3 + n3)%nat with (2 * n3)%nat by lia. fold b2.
    rewrite !value_app. unfold len. rewrite Lb0, Lb1. fold X. ring. }
  pose proof (val_lt_pow w w_ge a0 n3 Wa0 La0) as Ba0. pose proof (val_lt_pow w w_ge a1 n3 Wa1 La1) as Ba1.
  pose proof (val_lt_pow w w_ge b0 n3 Wb0 Lb0) as Bb0. pose proof (val_lt_pow w w_ge b1 n3 Wb1 Lb1) as Bb1.
  assert (Ba2 : 0 <= val a2 < X).
  { pose proof (val_lt_pow w w_ge a2 _ Wa2 La2) as H. split; [lia|]. eapply Z.lt_le_trans; [apply H|]. apply Z.pow_le_mono_r; lia. }
  assert (Bb2 : 0 <= val b2 < X).
  { pose proof (val_lt_pow w w_ge b2 _ Wb2 Lb2) as H. split; [lia|]. eapply Z.lt_le_trans; [apply H|]. apply Z.pow_le_mono_r; lia. }
  fold X in Ba0, Ba1, Bb0, Bb1.
  assert (PS : BB ^ Z.of_nat (S n3) = BB * X) by apply pow_nat_S.
  assert (P22 : BB ^ Z.of_nat (2 * n3 + 2) = BB * BB * (X * X)).
  { replace (2 * n3 + 2)%nat with (S n3 + S n3)%nat by lia. rewrite pow_nat_add, PS. ring. }
  set (A0 := val a0) in *. set (A1 := val a1) in *. set (A2 := val a2) in *.
  set (B0 := val b0) in *. set (B1 := val b1) in *. set (B2 := val b2) in *.
  (* V(0) *)
  destruct (product_ok w w_ge rec_same (2 * n3) a0 b0 Wa0 Wb0 ltac:(lia)) as (v0w & E0 & L0 & W0 & V0).
  { apply Hrec; [repeat split; auto; [apply wf_repeat_zero, w_pos | rewrite repeat_length; lia] | lia | lia]. }
  rewrite E0. cbv beta iota. rewrite V0. fold A0 B0.
  (* V(2) on top of 3 V(0) *)
  destruct (val_to_words_lt (S n3) (A0 + 2 * A1 + 4 * A2) ltac:(rewrite PS; nia)) as (Le2a & We2a & Ve2a).
  destruct (val_to_words_lt (S n3) (B0 + 2 * B1 + 4 * B2) ltac:(rewrite PS; nia)) as (Le2b & We2b & Ve2b).
  destruct (val_to_words_lt (2 * n3 + 2) (3 * (A0 * B0)) ltac:(rewrite P22; nia)) as (Lc3 & Wc3 & Vc3).
  set (a_e2 := to_words w (S n3) (A0 + 2 * A1 + 4 * A2)) in *.
  set (b_e2 := to_words w (S n3) (B0 + 2 * B1 + 4 * B2)) in *.
  set (c3v := to_words w (2 * n3 + 2) (3 * (A0 * B0))) in *.
  assert (Pre2 : pre w c3v a_e2 b_e2) by (repeat split; auto; lia).
  destruct (accum_ok rec_same c3v a_e2 b_e2 Pre2) as (t1w & E1 & L1 & W1 & V1).
  { apply Hrec; [exact Pre2 | lia | lia]. }
  { unfold len. rewrite Lc3, P22, Vc3, Ve2a, Ve2b. nia. }
  rewrite E1. cbv beta iota. rewrite V1, Vc3, Ve2a, Ve2b.
  (* V(inf) *)
  destruct (product_ok w w_ge rec_same (2 * (n - 2 * n3)) a2 b2 Wa2 Wb2 ltac:(lia)) as (vinfw & E2 & L2 & W2 & V2).
  { apply Hrec; [repeat split; auto; [apply wf_repeat_zero, w_pos | rewrite repeat_length; lia] | lia | lia]. }
  rewrite E2. cbv beta iota. rewrite V2. fold A2 B2.
  destruct (Z.ltb_spec (3 * (A0 * B0) + (A0 + 2 * A1 + 4 * A2) * (B0 + 2 * B1 + 4 * B2) - 12 * (A2 * B2)) 0) as [Hneg|_]; [nia|].
  (* V(1) *)
  destruct (val_to_words_lt (S n3) (A0 + A2 + A1) ltac:(rewrite PS; nia)) as (Le1a & We1a & Ve1a).
  destruct (val_to_words_lt (S n3) (B0 + B2 + B1) ltac:(rewrite PS; nia)) as (Le1b & We1b & Ve1b).
  set (a_e1 := to_words w (S n3) (A0 + A2 + A1)) in *.
  set (b_e1 := to_words w (S n3) (B0 + B2 + B1)) in *.
  destruct (product_ok w w_ge rec_same (2 * n3 + 2) a_e1 b_e1 We1a We1b ltac:(lia)) as (t2w & E3 & L3 & W3 & V3).
  { apply Hrec; [repeat split; auto; [apply wf_repeat_zero, w_pos | rewrite repeat_length; lia] | lia | lia]. }
  rewrite E3. cbv beta iota. rewrite V3, Ve1a, Ve1b.
  (* |V(-1)| *)
  destruct (val_to_words_lt (S n3) (Z.abs (A0 + A2 - A1)) ltac:(rewrite PS; nia)) as (Lema & Wema & Vema).
  destruct (val_to_words_lt (S n3) (Z.abs (B0 + B2 - B1)) ltac:(rewrite PS; nia)) as (Lemb & Wemb & Vemb).
  set (a_em := to_words w (S n3) (Z.abs (A0 + A2 - A1))) in *.
  set (b_em := to_words w (S n3) (Z.abs (B0 + B2 - B1))) in *.
  destruct (product_ok w w_ge rec_same (2 * (n3 + 1)) a_em b_em Wema Wemb ltac:(lia)) as (cew & E4 & L4 & W4 & V4).
  { apply Hrec; [repeat split; auto; [apply wf_repeat_zero, w_pos | rewrite repeat_length; lia] | lia | lia]. }
  rewrite E4. cbv beta iota. rewrite V4, Vema, Vemb.
  assert (Vm1 : signed (sign_mul (sign_of (A0 + A2 - A1)) (sign_of (B0 + B2 - B1))) (Z.abs (A0 + A2 - A1) * Z.abs (B0 + B2 - B1))
                = (A0 + A2 - A1) * (B0 + B2 - B1)).
  { unfold signed, sign_of. destruct (Z.ltb_spec (A0 + A2 - A1) 0), (Z.ltb_spec (B0 + B2 - B1) 0); cbn [sign_mul sgnz]; nia. }
  rewrite Vm1.
  (* the coefficients of the product polynomial *)
  set (c0 := A0 * B0). set (c1 := A0 * B1 + A1 * B0). set (c2 := A0 * B2 + A1 * B1 + A2 * B0).
  set (c3 := A1 * B2 + A2 * B1). set (c4 := A2 * B2).
  assert (C0 : 0 <= c0 < X * X) by (subst c0; nia). assert (C1 : 0 <= c1 < 2 * (X * X)) by (subst c1; nia).
  assert (C2 : 0 <= c2 < 3 * (X * X)) by (subst c2; nia). assert (C3 : 0 <= c3 < 2 * (X * X)) by (subst c3; nia).
  assert (C4 : 0 <= c4 < X * X) by (subst c4; nia).
  assert (T2 : (A0 + A2 + A1) * (B0 + B2 + B1) + (A0 + A2 - A1) * (B0 + B2 - B1) = (c0 + c2 + c4) * 2) by (subst c0 c2 c4; ring).
  assert (T1 : 3 * c0 + (A0 + 2 * A1 + 4 * A2) * (B0 + 2 * B1 + 4 * B2) - 12 * c4 + 2 * ((A0 + A2 - A1) * (B0 + B2 - B1))
               = (c0 + c2 + c3 + c4) * 6) by (subst c0 c2 c3 c4; ring).
  assert (Vone : (A0 + A2 + A1) * (B0 + B2 + B1) = c0 + c1 + c2 + c3 + c4) by (subst c0 c1 c2 c3 c4; ring).
  rewrite T1, T2, P22. rewrite !Z.mod_mul, !Z.div_mul by lia. rewrite Vone.
  replace ((c0 + c2 + c3 + c4) * 6 <? 0) with false by (symmetry; apply Z.ltb_ge; lia).
  replace ((c0 + c2 + c4) * 2 <? 0) with false by (symmetry; apply Z.ltb_ge; lia).
  replace (BB * BB * (X * X) <=? (c0 + c2 + c3 + c4) * 6) with false by (symmetry; apply Z.leb_gt; nia).
  replace (BB * BB * (X * X) <=? (c0 + c2 + c4) * 2) with false by (symmetry; apply Z.leb_gt; nia).
  cbn [orb negb Z.eqb].
  (* the result *)
  set (total := val c + sgnz s * _).
  assert (Pm : 0 < BB ^ len c) by apply plen_pos, w_ge.
  destruct (val_to_words_lt (length c) (total mod BB ^ len c) ltac:(apply Z.mod_pos_bound; exact Pm)) as (Lr & Wr & Vr).
  eexists _, _. split; [reflexivity|]. split; [exact Lr|]. split; [exact Wr|].
  rewrite Vr. pose proof (Z.div_mod total (BB ^ len c) ltac:(lia)) as DM.
  transitivity total; [lia|]. subst total. f_equal. f_equal. rewrite Sa, Sb. fold A0 A1 A2 B0 B1 B2. subst c0 c1 c2 c3 c4. ring.
Qed.

End ToomProofs.
