(** C07 (round 4): words_to_chunks / to_chunks of a word array (IoToChunksModel.v): for every word size,
    every normalised word array and every chunk width the loops never leave a slice (no copy_from_slice
    length mismatch, no usize underflow, the debug assertion `start < end` holds, the window fits the
    ceil(chunk_bits / WORD_BITS) + 1 words of the buffer) and the buffers denote to_chunks_spec. *)
From Dashu Require Import Base.Prelude Base.Words Int.IoSpec Int.IoModel Int.IoBytes Int.IoBytesAsIs Int.IoChunks Int.IoToChunksModel.
From Dashu Require Int.BitsKernels Int.BitsShiftProofs.
Open Scope Z_scope.

Section W2CProofs.
Variable w : Z.
Hypothesis w_pos : 0 < w.
Notation B := (Words.B w).
Notation value := (Words.value w).
Notation wf := (Words.wf w).
Let HB : 0 < B := B_pos w w_pos.

Lemma p2pos k : 0 <= k -> 0 < 2 ^ k.
Proof. intros. apply Z.pow_pos_nonneg; lia. Qed.

Lemma Bp k : 0 <= k -> B ^ k = 2 ^ (w * k).
Proof. intros. unfold Words.B. rewrite Z.pow_mul_r by lia. reflexivity. Qed.

Lemma wf_firstn' k ws : wf ws -> wf (firstn k ws).
Proof. intros H. rewrite <- (firstn_skipn k ws) in H. apply wf_app in H. tauto. Qed.
Lemma wf_skipn' k ws : wf ws -> wf (skipn k ws).
Proof. intros H. rewrite <- (firstn_skipn k ws) in H. apply wf_app in H. tauto. Qed.

Lemma skipn_repeat0 : forall k n, skipn k (repeat 0 n) = repeat 0 (n - k).
Proof.
  induction k as [|k IH]; intros n; [rewrite Nat.sub_0_r; reflexivity|].
  destruct n as [|n]; [reflexivity|]. cbn [repeat skipn Nat.sub]. apply IH.
Qed.

(** a wf word list is the word list of its value *)
Lemma ws_to_words ws : wf ws -> ws = to_words w (length ws) (value ws).
Proof.
  intros H. apply (value_inj w w_pos); [exact H | apply to_words_wf; exact w_pos | rewrite to_words_length; reflexivity|].
  rewrite value_to_words; [reflexivity | exact w_pos | apply (value_bounds w w_pos ws H)].
Qed.

(** a slice of a word list is a bit field of its value *)
Lemma slice_ws ws a b : wf ws -> value (firstn a (skipn b ws)) = (value ws / B ^ Z.of_nat b) mod B ^ Z.of_nat a.
Proof.
  intros H. rewrite (ws_to_words ws H) at 1. apply (slice_value w w_pos). apply (value_bounds w w_pos ws H).
Qed.

Lemma ceil_div_is a b : 0 <= a -> 0 < b -> ceil_div a b = (a + b - 1) / b.
Proof.
  intros Ha Hb. unfold ceil_div. destruct (Z.eqb_spec a 0) as [->|N].
  - symmetry. apply Z.div_small. lia.
  - replace (a + b - 1) with (a - 1 + 1 * b) by ring. rewrite Z.div_add by lia. reflexivity.
Qed.

Lemma ceil_div_cover a b : 0 <= a -> 0 < b -> a <= b * ceil_div a b /\ 0 <= ceil_div a b.
Proof.
  intros Ha Hb. unfold ceil_div. destruct (Z.eqb_spec a 0) as [->|N]; [lia|].
  pose proof (Z.div_mod (a - 1) b ltac:(lia)) as D. pose proof (Z.mod_pos_bound (a - 1) b Hb) as M.
  assert (0 <= (a - 1) / b) by (apply Z.div_pos; lia).
  replace (b * ((a - 1) / b + 1)) with (b * ((a - 1) / b) + b) by ring. lia.
Qed.

(** words.len() * WORD_BITS - leading_zeros(last) is the bit length of the value *)
Lemma bit_len_ok words : wf words -> words <> [] -> last words 0 <> 0 ->
  words_bit_len w words = blen (value words) /\ 0 < value words.
Proof.
  intros Hwf Hne Hl. destruct (exists_last Hne) as (ini & t & E). subst words.
  rewrite last_last in *. apply wf_app in Hwf. destruct Hwf as [Hi Ht]. apply wf_cons in Ht. destruct Ht as [Ht _].
  pose proof (value_bounds w w_pos ini Hi) as Hb.
  unfold words_bit_len, lzw. rewrite last_last. rewrite Words.value_app. cbn [Words.value]. rewrite Z.mul_0_r, Z.add_0_r.
  assert (Hlen : len (ini ++ [t]) = len ini + 1) by (unfold len; rewrite app_length; cbn [length]; lia).
  rewrite Hlen. assert (Hli : 0 <= len ini) by (unfold len; lia).
  assert (HP : 0 < B ^ len ini) by (apply Z.pow_pos_nonneg; lia).
  assert (Hq : (value ini + B ^ len ini * t) / 2 ^ (w * len ini) = t).
  { rewrite <- Bp by lia. rewrite Z.mul_comm, Z.div_add by lia. rewrite Z.div_small by lia. lia. }
  assert (Hw0 : 0 <= w * len ini) by (apply Z.mul_nonneg_nonneg; lia).
  pose proof (blen_split (value ini + B ^ len ini * t) (w * len ini) Hw0 ltac:(rewrite Hq; lia)) as S.
  rewrite Hq in S. split; [rewrite S; ring|]. assert (0 < B ^ len ini * t) by (apply Z.mul_pos_pos; lia). lia.
Qed.

Lemma blen_words_le words : wf words -> blen (value words) <= w * len words.
Proof.
  intros H. pose proof (value_bounds w w_pos words H) as Hb. rewrite Bp in Hb by (unfold len; lia).
  apply blen_le; [unfold len; apply Z.mul_nonneg_nonneg; lia | exact Hb].
Qed.

(* ------------------------------------------------------------------------------------------ *)
(** * the word-aligned loop body *)
Lemma w2c_aligned_ok words wpc i n : wf words -> 0 < wpc -> 0 <= i -> i * wpc < len words -> wpc <= Z.of_nat n ->
  exists o, w2c_aligned words wpc i (repeat 0 n) = Ok o /\ wf o /\
            value o = (value words / B ^ (i * wpc)) mod B ^ wpc.
Proof.
  intros Hwf Hwpc Hi Hlt Hn. unfold w2c_aligned. set (L := len words) in *.
  set (sp := i * wpc) in *. assert (Hsp : 0 <= sp) by (unfold sp; apply Z.mul_nonneg_nonneg; lia).
  set (ep := Z.min (sp + wpc) L).
  assert (Hep : sp < ep <= sp + wpc /\ ep <= L) by (unfold ep; lia).
  destruct (Z.ltb_spec ep sp); [lia|].
  unfold slice. fold L. destruct (Z.ltb_spec sp 0); [lia|]. destruct (Z.ltb_spec ep sp); [lia|]. destruct (Z.ltb_spec L ep); [lia|].
  cbn [orb rbind]. set (src := firstn (Z.to_nat (ep - sp)) (skipn (Z.to_nat sp) words)).
  assert (Hls : len src = ep - sp).
  { unfold src, len. rewrite firstn_length, skipn_length. unfold L, len in *. lia. }
  unfold store_prefix. rewrite Hls. destruct (Z.ltb_spec (ep - sp) 0); [lia|].
  assert (Hlo : len (repeat 0 n) = Z.of_nat n) by (unfold len; rewrite repeat_length; reflexivity).
  rewrite Hlo. destruct (Z.ltb_spec (Z.of_nat n) (ep - sp)); [lia|]. rewrite Z.eqb_refl. cbn [orb negb].
  eexists. split; [reflexivity|].
  assert (Hws : wf src) by (apply wf_firstn', wf_skipn'; exact Hwf).
  rewrite skipn_repeat0. split; [apply wf_app; split; [exact Hws | apply (wf_repeat_zero w w_pos)]|].
  rewrite Words.value_app, value_repeat_zero, Z.mul_0_r, Z.add_0_r.
  unfold src. rewrite slice_ws by exact Hwf. rewrite !Z2Nat.id by lia.
  destruct (Z.eq_dec ep (sp + wpc)) as [E|N]; [rewrite E; f_equal; f_equal; lia|].
  assert (EL : ep = L) by (unfold ep in *; lia).
  (* the top chunk: fewer than wpc words are left, they are all there is *)
  pose proof (value_bounds w w_pos words Hwf) as Hb. fold L in Hb.
  assert (PS : 0 < B ^ sp) by (apply Z.pow_pos_nonneg; lia).
  assert (Hq : 0 <= value words / B ^ sp < B ^ (ep - sp)).
  { split; [apply Z.div_pos; lia|]. apply Z.div_lt_upper_bound; [lia|]. rewrite <- Z.pow_add_r by lia.
    replace (sp + (ep - sp)) with L by lia. lia. }
  rewrite !Z.mod_small; [reflexivity | | exact Hq]. split; [lia|].
  apply Z.lt_le_trans with (B ^ (ep - sp)); [lia|]. apply Z.pow_le_mono_r; lia.
Qed.

(* ------------------------------------------------------------------------------------------ *)
(** * the general loop body *)
Lemma and_at_app a x t mask k : len a = k -> and_at (a ++ x :: t) k mask = a ++ Z.land x mask :: t.
Proof.
  intros E. unfold and_at. assert (En : Z.to_nat k = length a) by (unfold len in E; lia). rewrite En.
  rewrite firstn_app, Nat.sub_diag, firstn_all. cbn [firstn]. rewrite app_nil_r.
  rewrite skipn_app, Nat.sub_diag, skipn_all. cbn [skipn app]. reflexivity.
Qed.

Lemma firstn_snoc_nth (l : list Z) k : (k < length l)%nat -> firstn (S k) l = firstn k l ++ [nth k l 0].
Proof.
  revert l. induction k as [|k IH]; intros l Hk; destruct l as [|x t]; cbn [length] in Hk; try lia; [reflexivity|].
  cbn [firstn nth app]. f_equal. apply IH. lia.
Qed.

(** lower bits of a field: (Y mod B^ln) + B^ln * ((Y / B^ln) mod 2^eb) = Y mod 2^(w ln + eb) *)
Lemma field_split Y ln eb : 0 <= ln -> 0 <= eb ->
  Y mod B ^ ln + B ^ ln * ((Y / B ^ ln) mod 2 ^ eb) = Y mod 2 ^ (w * ln + eb).
Proof.
  intros Hl He. assert (0 <= w * ln) by (apply Z.mul_nonneg_nonneg; lia).
  rewrite Z.pow_add_r by lia. rewrite <- Bp by lia.
  rewrite Z.rem_mul_r; [reflexivity | apply Z.pow_nonzero; lia | apply p2pos; lia].
Qed.

Lemma w2c_unaligned_ok words cb i : wf words -> 0 < value words -> 0 < cb -> 0 <= i -> i * cb < blen (value words) ->
  let V := value words in
  let start := i * cb in
  let stop := Z.min (blen V) (start + cb) in
  let sp := start / w in
  exists o, w2c_unaligned w words cb (blen V) i (repeat 0 (Z.to_nat (ceil_div cb w + 1))) = Ok o /\ wf o /\
            value o = ((V / 2 ^ (w * sp)) mod 2 ^ (stop - w * sp)) / 2 ^ (start mod w).
Proof.
  intros Hwf HV Hcb Hi Hin V start stop sp. unfold w2c_unaligned. fold V start. fold stop. fold sp.
  set (L := len words). assert (HL : blen V <= w * L) by (apply blen_words_le; exact Hwf).
  assert (Hst : 0 <= start) by (unfold start; apply Z.mul_nonneg_nonneg; lia).
  assert (Hin' : start < blen V) by exact Hin.
  assert (Hss : start < stop <= start + cb /\ stop <= blen V) by (unfold stop; lia).
  destruct (Z.ltb_spec start stop) as [_|C]; [|lia]. cbn [negb].
  set (ep := stop / w). set (eb := stop mod w). set (s := start mod w).
  pose proof (Z.div_mod start w ltac:(lia)) as D1. pose proof (Z.mod_pos_bound start w w_pos) as M1. fold sp s in D1, M1.
  pose proof (Z.div_mod stop w ltac:(lia)) as D2. pose proof (Z.mod_pos_bound stop w w_pos) as M2. fold ep eb in D2, M2.
  assert (Hsp : 0 <= sp) by (unfold sp; apply Z.div_pos; lia).
  assert (Hspep : sp <= ep) by (unfold sp, ep; apply Z.div_le_mono; lia).
  set (wpc := ceil_div cb w). destruct (ceil_div_cover cb w ltac:(lia) w_pos) as [Hcov Hwpc0]. fold wpc in Hcov, Hwpc0.
  (* the window never exceeds wpc + 1 words *)
  assert (Hwin : ep - sp <= wpc).
  { assert (w * ep < w * (sp + 1 + wpc)) by (replace (w * (sp + 1 + wpc)) with (w * sp + w + w * wpc) by ring; lia).
    apply Z.mul_lt_mono_pos_l in H; lia. }
  assert (HepL : w * ep <= w * L) by lia.
  assert (HepL' : ep <= L) by (apply Z.mul_le_mono_pos_l in HepL; lia).
  set (n := Z.to_nat (wpc + 1)).
  assert (Hlo : len (repeat 0 n) = wpc + 1) by (unfold len, n; rewrite repeat_length; lia).
  set (Y := V / B ^ sp).
  assert (EY : V / 2 ^ (w * sp) = Y) by (unfold Y; rewrite Bp by lia; reflexivity).
  rewrite EY.
  (* phase 1: the window of words, its top masked *)
  assert (P1 : exists ln win,
     (if negb (eb =? 0)
      then rbind (slice words sp (ep + 1)) (fun src => rbind (store_prefix (repeat 0 n) src (ep - sp + 1)) (fun o =>
           Ok (ep - sp, and_at o (ep - sp) (Z.ones eb))))
      else if ep - sp - 1 <? 0 then Panic Undocumented
           else rbind (slice words sp ep) (fun src => rbind (store_prefix (repeat 0 n) src (ep - sp - 1 + 1)) (fun o => Ok (ep - sp - 1, o))))
     = Ok (ln, win ++ repeat 0 (n - Z.to_nat (ln + 1))) /\ 0 <= ln /\ len win = ln + 1 /\ wf win /\
     value win = Y mod 2 ^ (stop - w * sp)).
  { destruct (Z.eqb_spec eb 0) as [E0|N0]; cbn [negb].
    - (* the window ends on a word boundary *)
      assert (Hlt : sp < ep).
      { assert (w * sp < w * ep) by lia. apply Z.mul_lt_mono_pos_l in H; lia. }
      destruct (Z.ltb_spec (ep - sp - 1) 0); [lia|].
      unfold slice. fold L. destruct (Z.ltb_spec sp 0); [lia|]. destruct (Z.ltb_spec ep sp); [lia|]. destruct (Z.ltb_spec L ep); [lia|].
      cbn [orb rbind]. set (src := firstn (Z.to_nat (ep - sp)) (skipn (Z.to_nat sp) words)).
      assert (Hls : len src = ep - sp).
      { unfold src, len. rewrite firstn_length, skipn_length. unfold L, len in *. lia. }
      unfold store_prefix. rewrite Hls, Hlo. destruct (Z.ltb_spec (ep - sp - 1 + 1) 0); [lia|].
      destruct (Z.ltb_spec (wpc + 1) (ep - sp - 1 + 1)); [lia|].
      destruct (Z.eqb_spec (ep - sp) (ep - sp - 1 + 1)); [|lia]. cbn [orb negb].
      exists (ep - sp - 1), src. rewrite skipn_repeat0. split; [reflexivity|]. split; [lia|]. split; [lia|].
      split; [apply wf_firstn', wf_skipn'; exact Hwf|].
      unfold src. rewrite slice_ws by exact Hwf. rewrite !Z2Nat.id by lia. fold V Y. f_equal.
      rewrite Bp by lia. f_equal. lia.
    - (* the top word of the window is masked *)
      assert (HepL2 : ep + 1 <= L).
      { assert (w * ep < w * L) by lia. apply Z.mul_lt_mono_pos_l in H; lia. }
      unfold slice. fold L. destruct (Z.ltb_spec sp 0); [lia|]. destruct (Z.ltb_spec (ep + 1) sp); [lia|]. destruct (Z.ltb_spec L (ep + 1)); [lia|].
      cbn [orb rbind]. set (ln := ep - sp). replace (ep + 1 - sp) with (ln + 1) by (unfold ln; lia).
      set (sk := skipn (Z.to_nat sp) words).
      assert (Hlsk : (Z.to_nat ln < length sk)%nat) by (unfold sk; rewrite skipn_length; unfold L, len, ln in *; lia).
      replace (Z.to_nat (ln + 1)) with (S (Z.to_nat ln)) by (unfold ln; lia).
      rewrite (firstn_snoc_nth sk (Z.to_nat ln) Hlsk). set (src0 := firstn (Z.to_nat ln) sk). set (x := nth (Z.to_nat ln) sk 0).
      assert (Hl0 : len src0 = ln) by (unfold src0, len; rewrite firstn_length; unfold ln in *; lia).
      assert (Hls : len (src0 ++ [x]) = ln + 1) by (unfold len in *; rewrite app_length; cbn [length]; lia).
      unfold store_prefix. rewrite Hls, Hlo. destruct (Z.ltb_spec (ln + 1) 0); [unfold ln in *; lia|].
      destruct (Z.ltb_spec (wpc + 1) (ln + 1)); [unfold ln in *; lia|]. rewrite Z.eqb_refl. cbn [orb negb rbind].
      rewrite <- app_assoc. cbn [app]. rewrite (and_at_app src0 x _ (Z.ones eb) ln Hl0).
      exists ln, (src0 ++ [Z.land x (Z.ones eb)]).
      rewrite skipn_repeat0. split; [rewrite <- app_assoc; reflexivity|]. split; [unfold ln; lia|].
      split; [unfold len in *; rewrite app_length; cbn [length]; lia|].
      (* values *)
      assert (Hwsk : wf sk) by (apply wf_skipn'; exact Hwf).
      assert (Hw0 : wf src0) by (apply wf_firstn'; exact Hwsk).
      assert (Hwsx : wf (src0 ++ [x])) by (unfold src0, x; rewrite <- firstn_snoc_nth by exact Hlsk; apply wf_firstn'; exact Hwsk).
      assert (Hx : 0 <= x < B) by (apply wf_app in Hwsx; destruct Hwsx as [_ Hx]; apply wf_cons in Hx; tauto).
      rewrite Z.land_ones by lia.
      pose proof (p2pos eb ltac:(lia)) as Pe.
      assert (Pew : 2 ^ eb <= B) by (unfold Words.B; apply Z.pow_le_mono_r; lia).
      pose proof (Z.mod_pos_bound x (2 ^ eb) Pe) as Mx.
      split; [apply wf_app; split; [exact Hw0 | apply wf_cons; split; [lia | apply wf_nil]]|].
      assert (Hln0 : 0 <= ln) by (unfold ln; lia).
      assert (PL : 0 < B ^ ln) by (apply Z.pow_pos_nonneg; lia).
      assert (V0 : value src0 = Y mod B ^ ln).
      { unfold src0, sk. rewrite slice_ws by exact Hwf. rewrite !Z2Nat.id by lia. reflexivity. }
      assert (V1 : value (src0 ++ [x]) = Y mod B ^ (ln + 1)).
      { unfold src0, x. rewrite <- firstn_snoc_nth by exact Hlsk. unfold sk. rewrite slice_ws by exact Hwf.
        rewrite Z2Nat.id by lia. f_equal. f_equal. lia. }
      rewrite Words.value_app in V1. cbn [Words.value] in V1. rewrite Z.mul_0_r, Z.add_0_r, Hl0, V0 in V1.
      rewrite Z.pow_add_r, Z.pow_1_r in V1 by lia. rewrite Z.rem_mul_r in V1 by lia.
      assert (Ex : x = (Y / B ^ ln) mod B) by (apply (Z.mul_reg_l _ _ (B ^ ln)); lia).
      rewrite Words.value_app. cbn [Words.value]. rewrite Z.mul_0_r, Z.add_0_r, Hl0, V0.
      replace (stop - w * sp) with (w * ln + eb) by (unfold ln; lia).
      rewrite <- field_split by lia. f_equal. f_equal. rewrite Ex.
      (* ((Y / B^ln) mod B) mod 2^eb = (Y / B^ln) mod 2^eb *)
      set (Q := Y / B ^ ln). unfold Words.B. replace w with (eb + (w - eb)) at 1 by lia. rewrite Z.pow_add_r by lia.
      pose proof (p2pos (w - eb) ltac:(lia)). rewrite Z.rem_mul_r by lia.
      rewrite Z.mul_comm, Z.mod_add by lia. apply Z.mod_mod. lia. }
  destruct P1 as (ln & win & E1 & Hln & Hlw & Hww & Vw).
  rewrite E1.
  cbn [rbind fst snd].
  assert (En1 : Z.to_nat (ln + 1) = length win) by (unfold len in Hlw; lia).
  rewrite En1, firstn_app, Nat.sub_diag, firstn_all. cbn [firstn]. rewrite app_nil_r.
  rewrite skipn_app, Nat.sub_diag, skipn_all. cbn [skipn app].
  pose proof (BitsShiftProofs.shr_in_place_correct w w_pos win s ltac:(lia) Hww) as Hs.
  destruct (BitsKernels.shr_in_place w win s) as [sh c]. destruct Hs as (Wsh & Lsh & Vsh).
  eexists. split; [reflexivity|]. split; [apply wf_app; split; [exact Wsh | apply (wf_repeat_zero w w_pos)]|].
  rewrite Words.value_app, value_repeat_zero, Z.mul_0_r, Z.add_0_r, Vsh, Vw. reflexivity.
Qed.

(* ------------------------------------------------------------------------------------------ *)
(** * the loops over the buffers *)
Lemma w2c_loop_ok f g out : forall n i,
  (forall j, i <= j < i + Z.of_nat n -> exists o, f j out = Ok o /\ wf o /\ value o = g j) ->
  exists cs, w2c_loop f i (repeat out n) = Ok cs /\ Forall wf cs /\
             map value cs = map (fun k => g (i + Z.of_nat k)) (seq 0 n).
Proof.
  induction n as [|n IH]; intros i H.
  - exists []. cbn [repeat w2c_loop seq map]. repeat split. constructor.
  - cbn [repeat w2c_loop]. destruct (H i ltac:(lia)) as (o & E & Wo & Vo). rewrite E. cbn [rbind].
    destruct (IH (i + 1) ltac:(intros j Hj; apply H; lia)) as (cs & Ec & Wc & Vc). rewrite Ec. cbn [rbind].
    exists (o :: cs). split; [reflexivity|]. split; [constructor; assumption|].
    cbn [map seq]. rewrite Vo, Vc, Z.add_0_r. f_equal. rewrite <- seq_shift, map_map. apply map_ext. intros k. f_equal. lia.
Qed.

Lemma words_to_chunks_nonempty words outs cb : words <> [] ->
  words_to_chunks w words outs cb =
  if cb mod w =? 0 then w2c_loop (w2c_aligned words (cb / w)) 0 outs
  else w2c_loop (w2c_unaligned w words cb (words_bit_len w words)) 0 outs.
Proof. intros H. destruct words; [congruence | reflexivity]. Qed.

(** TypedReprRef::to_chunks on a normalised word array *)
Theorem to_chunks_large_words_correct words cb : wf words -> words <> [] -> last words 0 <> 0 -> 0 < cb ->
  exists cs, to_chunks_large_words w words cb = Ok cs /\ Forall wf cs /\ map value cs = to_chunks_spec (value words) cb.
Proof.
  intros Hwf Hne Hl Hcb. destruct (bit_len_ok words Hwf Hne Hl) as [Ebl HV]. set (V := value words) in *.
  pose proof (IoBytes.blen_nonneg V) as Hb0. pose proof (blen_lt V ltac:(lia)) as Hlt. pose proof (blen_pos V HV) as Hbp.
  unfold to_chunks_large_words. destruct (Z.leb_spec cb 0); [lia|]. rewrite Ebl.
  rewrite ceil_div_is by lia. fold (chunk_count V cb). unfold to_chunks_spec.
  assert (Hc : 1 <= chunk_count V cb).
  { unfold chunk_count. replace (blen V + cb - 1) with (blen V - 1 + 1 * cb) by ring. rewrite Z.div_add by lia.
    assert (0 <= (blen V - 1) / cb) by (apply Z.div_pos; lia). lia. }
  destruct (Z.eqb_spec (chunk_count V cb) 1) as [E1|N1].
  - exists [words]. split; [reflexivity|]. split; [constructor; [exact Hwf | constructor]|].
    rewrite E1. change (Z.to_nat 1) with 1%nat. cbn [seq map]. change (Z.of_nat 0) with 0. rewrite Z.mul_0_l, Z.pow_0_r, Z.div_1_r.
    f_equal. symmetry. apply Z.mod_small. split; [lia|].
    apply Z.lt_le_trans with (2 ^ blen V); [lia|]. apply Z.pow_le_mono_r; [lia|].
    unfold chunk_count in E1.
    pose proof (Z.div_mod (blen V + cb - 1) cb ltac:(lia)) as D. pose proof (Z.mod_pos_bound (blen V + cb - 1) cb ltac:(lia)) as M.
    rewrite E1 in D. lia.
  - rewrite (words_to_chunks_nonempty words _ cb Hne).
    set (cnt := Z.to_nat (chunk_count V cb)).
    assert (Hidx : forall j, 0 <= j < 0 + Z.of_nat cnt -> j * cb < blen V).
    { intros j Hj. apply chunk_count_pos_index; [lia | unfold cnt in Hj; lia]. }
    destruct (Z.eqb_spec (cb mod w) 0) as [Eal|Nal].
    + (* word aligned *)
      pose proof (Z.div_mod cb w ltac:(lia)) as D. rewrite Eal, Z.add_0_r in D.
      assert (Hwpc : 0 < cb / w).
      { destruct (Z.le_gt_cases (cb / w) 0) as [C|C]; [|exact C]. assert (w * (cb / w) <= 0) by (apply Z.mul_nonneg_nonpos; lia). lia. }
      destruct (ceil_div_cover cb w ltac:(lia) w_pos) as [Hcov _].
      assert (Hn : cb / w <= Z.of_nat (Z.to_nat (ceil_div cb w + 1))).
      { assert (w * (cb / w) <= w * ceil_div cb w) by lia. apply Z.mul_le_mono_pos_l in H0; lia. }
      destruct (w2c_loop_ok (w2c_aligned words (cb / w)) (fun j => (V / B ^ (j * (cb / w))) mod B ^ (cb / w))
                  (repeat 0 (Z.to_nat (ceil_div cb w + 1))) cnt 0) as (cs & E & Wc & Vc).
      { intros j Hj. apply w2c_aligned_ok; try lia; try assumption.
        pose proof (Hidx j Hj) as Hjb. pose proof (blen_words_le words Hwf) as HLw. fold V in HLw.
        assert (w * (j * (cb / w)) < w * len words) by (replace (w * (j * (cb / w))) with (j * (w * (cb / w))) by ring; lia).
        apply Z.mul_lt_mono_pos_l in H0; lia. }
      exists cs. split; [exact E|]. split; [exact Wc|]. rewrite Vc. apply map_ext_in. intros k Hk. apply in_seq in Hk.
      rewrite Z.add_0_l. rewrite !Bp by (try apply Z.mul_nonneg_nonneg; lia).
      replace (w * (Z.of_nat k * (cb / w))) with (Z.of_nat k * (w * (cb / w))) by ring. rewrite <- D. reflexivity.
    + (* general width *)
      rewrite Ebl.
      destruct (w2c_loop_ok (w2c_unaligned w words cb (blen V))
                  (fun j => ((V / 2 ^ (w * (j * cb / w))) mod 2 ^ (Z.min (blen V) (j * cb + cb) - w * (j * cb / w))) / 2 ^ ((j * cb) mod w))
                  (repeat 0 (Z.to_nat (ceil_div cb w + 1))) cnt 0) as (cs & E & Wc & Vc).
      { intros j Hj. apply (w2c_unaligned_ok words cb j Hwf HV Hcb ltac:(lia) (Hidx j Hj)). }
      exists cs. split; [exact E|]. split; [exact Wc|]. rewrite Vc. apply map_ext_in. intros k Hk. apply in_seq in Hk.
      rewrite Z.add_0_l. apply (window_chunk w w_pos V cb (Z.of_nat k)); try lia.
      apply Hidx. unfold cnt in *. lia.
Qed.

(** UBig::to_chunks over the word loops: total and equal to the specification, for every value *)
Theorem to_chunks_words_z_correct v cb : 0 <= v -> 0 < cb -> to_chunks_words_z w v cb = Ok (to_chunks_spec v cb).
Proof.
  intros Hv Hcb. unfold to_chunks_words_z. destruct (Z.ltb_spec v (Bw w * Bw w)) as [Hs|Hl].
  - apply (to_chunks_asis_correct w w_pos); assumption.
  - assert (Hv0 : 0 < v) by (unfold Bw in Hl; pose proof (p2pos w ltac:(lia)); nia).
    set (n := nwords w v). set (words := to_words w n v).
    pose proof (nwords_covers w w_pos v Hv) as Hcov. fold n in Hcov.
    assert (Hwf : wf words) by (apply to_words_wf; exact w_pos).
    assert (Hval : value words = v) by (apply value_to_words; [exact w_pos | lia]).
    assert (Hn : (0 < n)%nat).
    { destruct n; [|lia]. cbn [Z.of_nat] in Hcov. rewrite Z.pow_0_r in Hcov. lia. }
    assert (Hne : words <> []) by (intros E; apply (f_equal (@length Z)) in E; unfold words in E; rewrite to_words_length in E; cbn [length] in E; lia).
    assert (Hlast : last words 0 <> 0).
    { (* otherwise the value would fit n - 1 words, but nwords is minimal *)
      intros E0. destruct (exists_last Hne) as (ini & t & Ew). rewrite Ew in *. rewrite last_last in E0. subst t.
      rewrite Words.value_app in Hval. cbn [Words.value] in Hval. rewrite Z.mul_0_r, Z.add_0_r, Z.mul_0_r, Z.add_0_r in Hval.
      apply wf_app in Hwf. destruct Hwf as [Hwi _]. pose proof (value_bounds w w_pos ini Hwi) as Hbi. rewrite Hval in Hbi.
      assert (Hli : len ini = Z.of_nat n - 1).
      { apply (f_equal (@length Z)) in Ew. unfold words in Ew. rewrite to_words_length, app_length in Ew. cbn [length] in Ew. unfold len. lia. }
      rewrite Hli, Bp in Hbi by lia.
      pose proof (blen_le v (w * (Z.of_nat n - 1)) ltac:(apply Z.mul_nonneg_nonneg; lia) ltac:(lia)) as Hble.
      unfold n, nwords, wlen in Hble. pose proof (IoBytes.blen_nonneg v) as Hb0.
      pose proof (Z.div_mod (blen v + w - 1) w ltac:(lia)) as D. pose proof (Z.mod_pos_bound (blen v + w - 1) w w_pos) as M.
      assert (0 <= (blen v + w - 1) / w) by (apply Z.div_pos; lia). rewrite Z2Nat.id in Hble by lia. lia. }
    destruct (to_chunks_large_words_correct words cb Hwf Hne Hlast Hcb) as (cs & E & _ & Vc).
    fold n. fold words. rewrite E. unfold rmap; cbn [rbind]. rewrite Vc, Hval. reflexivity.
Qed.

End W2CProofs.

(** non-vacuity: a 3-word value (64-bit words) cut into 100-bit chunks (general loop) and into 128-bit chunks (aligned loop,
    the witness of the repaired defect F02) *)
Example to_chunks_words_ex :
  to_chunks_words_z 64 (2 ^ 150 + 12345 * 2 ^ 70 + 99) 100 = Ok (to_chunks_spec (2 ^ 150 + 12345 * 2 ^ 70 + 99) 100) /\
  to_chunks_words_z 64 (2 ^ 150 + 7) 128 = Ok [7; 2 ^ 22].
Proof. split; vm_compute; reflexivity. Qed.
