(** C02 - the primitive-operand division forms equal truncating division (Z.quot / Z.rem) whenever the
    result fits the fixed output type, and are exactly the undocumented unwrap panic otherwise; the
    representable class is characterised for every primitive width.  is_multiple_of_const = (r = 0). *)
From Dashu Require Import Base.Prelude Base.Words Int.DivSpec Int.DivSign Int.DivWordModel Int.DivWordProofs
  Int.DivReprProofs Int.DivConstProofs Int.DivContracts Int.DivNumModular Int.DivNumModularProofs Int.DivPrim.
Open Scope Z_scope.

Lemma big_form_correct t f a b : in_big t a = true -> in_big t b = true ->
  big_form t f a b = form_spec f a b.
Proof.
  destruct t; cbn [in_big big_form]; intros Ha Hb.
  - apply Z.leb_le in Ha. apply Z.leb_le in Hb. apply ubig_form_correct; assumption.
  - apply ibig_form_correct.
Qed.

(** a primitive of an admissible pairing is a value of the big type *)
Lemma prim_in_big t pt p : prim_pairing t pt = true -> in_prim pt p = true -> in_big t p = true.
Proof.
  destruct t; cbn [prim_pairing in_big]; [|reflexivity].
  unfold in_prim. destruct (p_signed pt); cbn [negb]; [discriminate|].
  intros _ H. apply andb_true_iff in H. tauto.
Qed.

(** every primitive-operand form = the specification followed by the representability test *)
Theorem prim_form_correct k t pt x p :
  prim_pairing t pt = true -> in_big t x = true -> in_prim pt p = true ->
  prim_form_asis k t pt x p = prim_form_spec k pt x p.
Proof.
  intros Hpair Hx Hp. pose proof (prim_in_big t pt p Hpair Hp) as Hpb.
  destruct k; cbn [prim_form_asis prim_form_spec]; rewrite big_form_correct by assumption; try reflexivity.
  - destruct (form_spec FRem x p) as [l| | |] eqn:E; cbn [rbind]; try reflexivity.
    unfold unwrap_prim. destruct (in_prim pt (hd 0 l)) eqn:F; cbn [rbind]; [|reflexivity].
    unfold form_spec, trunc_div_rem_spec in E. destruct (p =? 0); cbn [rbind] in E; [discriminate|].
    inversion E; subst l. reflexivity.
  - destruct (form_spec FDivRem x p) as [l| | |] eqn:E; cbn [rbind]; try reflexivity.
    unfold unwrap_prim. destruct (in_prim pt (nth 1 l 0)) eqn:F; cbn [rbind]; [|reflexivity].
    unfold form_spec, trunc_div_rem_spec in E. destruct (p =? 0); cbn [rbind] in E; [discriminate|].
    inversion E; subst l. reflexivity.
  - destruct (form_spec FDiv p x) as [l| | |] eqn:E; cbn [rbind]; try reflexivity.
    unfold unwrap_prim. destruct (in_prim pt (hd 0 l)) eqn:F; cbn [rbind]; [|reflexivity].
    unfold form_spec, trunc_div_rem_spec in E. destruct (x =? 0); cbn [rbind] in E; [discriminate|].
    inversion E; subst l. reflexivity.
Qed.

(** a zero divisor is the documented panic in every primitive form *)
Theorem prim_form_zero k pt x : k <> PRDiv -> prim_form_spec k pt x 0 = Panic DivideBy0.
Proof. intros Hk. destruct k; try reflexivity. congruence. Qed.
Theorem prim_rdiv_zero pt p : prim_form_spec PRDiv pt 0 p = Panic DivideBy0.
Proof. reflexivity. Qed.

(** *** when does the result fit?  (0 < n: every primitive width) *)
Definition uprim (n : Z) : primty := {| p_signed := false; p_bits := n |}.
Definition iprim (n : Z) : primty := {| p_signed := true; p_bits := n |}.

Lemma in_uprim n v : in_prim (uprim n) v = true <-> 0 <= v < 2 ^ n.
Proof. unfold in_prim, uprim. cbn [p_signed p_bits]. rewrite andb_true_iff, Z.leb_le, Z.ltb_lt. tauto. Qed.
Lemma in_iprim n v : in_prim (iprim n) v = true <-> - 2 ^ (n - 1) <= v < 2 ^ (n - 1).
Proof. unfold in_prim, iprim. cbn [p_signed p_bits]. rewrite andb_true_iff, Z.leb_le, Z.ltb_lt. tauto. Qed.

(** big % signed primitive always fits: |r| < |p| <= 2^(n-1) and r = 2^(n-1) is impossible *)
Theorem rem_fits_signed n x p : in_prim (iprim n) p = true -> p <> 0 -> in_prim (iprim n) (Z.rem x p) = true.
Proof.
  rewrite !in_iprim. intros Hp Hz. pose proof (Z.rem_bound_abs x p Hz). lia.
Qed.

(** big % unsigned primitive fits exactly when the remainder is not negative *)
Theorem rem_fits_unsigned_iff n x p : in_prim (uprim n) p = true -> p <> 0 ->
  (in_prim (uprim n) (Z.rem x p) = true <-> (0 <= x \/ Z.rem x p = 0)).
Proof.
  rewrite !in_uprim. intros Hp Hz. pose proof (Z.rem_bound_abs x p Hz) as Hb. split.
  - intros [H0 _]. destruct (Z_le_gt_dec 0 x) as [|Hx]; [left; assumption|right].
    pose proof (Z.rem_nonpos x p ltac:(lia) ltac:(lia)). lia.
  - intros [Hx|Hr]; [|rewrite Hr; lia].
    pose proof (Z.rem_nonneg x p Hz Hx). lia.
Qed.

(** unsigned primitive / UBig always fits; unsigned primitive / IBig fits exactly when the quotient is
    not negative *)
Theorem rdiv_fits_unsigned_iff n p x : in_prim (uprim n) p = true -> x <> 0 ->
  (in_prim (uprim n) (Z.quot p x) = true <-> 0 <= Z.quot p x).
Proof.
  rewrite !in_uprim. intros Hp Hx. split; [tauto|]. intros Hq. split; [assumption|].
  assert (Z.abs (Z.quot p x) <= Z.abs p); [|lia].
  rewrite <- (Z.quot_abs p x) by exact Hx.
  rewrite Z.quot_div_nonneg by lia. apply Z.div_le_upper_bound; [lia|].
  assert (0 <= (Z.abs x - 1) * Z.abs p) by (apply Z.mul_nonneg_nonneg; lia). lia.
Qed.

Theorem rdiv_fits_ubig n p x : in_prim (uprim n) p = true -> 0 < x -> in_prim (uprim n) (Z.quot p x) = true.
Proof.
  intros Hp Hx. apply rdiv_fits_unsigned_iff; [assumption|lia|].
  apply in_uprim in Hp. apply Z.quot_pos; lia.
Qed.

(** signed primitive / IBig fits unless it is iN::MIN / -1 *)
Theorem rdiv_fits_signed_iff n p x : 0 < n -> in_prim (iprim n) p = true -> x <> 0 ->
  (in_prim (iprim n) (Z.quot p x) = true <-> ~ (p = - 2 ^ (n - 1) /\ x = -1)).
Proof.
  intros Hn. rewrite !in_iprim. intros Hp Hx.
  assert (HP : 0 < 2 ^ (n - 1)) by (apply Z.pow_pos_nonneg; lia). split.
  - intros Hq [-> ->]. change (-1) with (- (1)) in Hq. rewrite Z.quot_opp_opp, Z.quot_1_r in Hq by lia. lia.
  - intros Hne.
    assert (Ha : Z.abs (Z.quot p x) <= Z.abs p).
    { rewrite <- (Z.quot_abs p x) by exact Hx. rewrite Z.quot_div_nonneg by lia.
      apply Z.div_le_upper_bound; [lia|].
      assert (0 <= (Z.abs x - 1) * Z.abs p) by (apply Z.mul_nonneg_nonneg; lia). lia. }
    destruct (Z.eq_dec (Z.quot p x) (2 ^ (n - 1))) as [E|E]; [|lia].
    exfalso. assert (Hpm : p = - 2 ^ (n - 1)) by lia.
    (* |q| = |p| forces |x| = 1; x = 1 gives q = p < 0 *)
    assert (Hx1 : Z.abs x = 1).
    { destruct (Z_le_gt_dec (Z.abs x) 1) as [|G]; [lia|]. exfalso.
      assert (Z.abs (Z.quot p x) = Z.abs p / Z.abs x) by (rewrite <- Z.quot_abs by exact Hx; apply Z.quot_div_nonneg; lia).
      assert (Z.abs p / Z.abs x < Z.abs p) by (apply Z.div_lt; lia). lia. }
    destruct (Z.eq_dec x 1) as [->|]; [rewrite Z.quot_1_r in E; lia|].
    apply Hne. split; [assumption|lia].
Qed.

(** consequences in the shape of the call forms: outside the unrepresentable class the forms return the
    truncated quotient / remainder, inside it they are exactly the undocumented panic *)
Theorem prim_rem_signed_exact t n x p : prim_pairing t (iprim n) = true -> in_big t x = true ->
  in_prim (iprim n) p = true -> p <> 0 ->
  prim_form_asis PRem t (iprim n) x p = Ok [Z.rem x p] /\
  prim_form_asis PDivRem t (iprim n) x p = Ok [Z.quot x p; Z.rem x p] /\
  prim_form_asis PDiv t (iprim n) x p = Ok [Z.quot x p].
Proof.
  intros Hpair Hx Hp Hz. rewrite !prim_form_correct by assumption.
  cbn [prim_form_spec]. unfold form_spec, trunc_div_rem_spec.
  destruct (Z.eqb_spec p 0) as [|_]; [contradiction|]. cbn [rbind fst snd hd nth].
  rewrite (rem_fits_signed n x p Hp Hz). repeat split; reflexivity.
Qed.

Theorem prim_rem_unsigned_exact t n x p : prim_pairing t (uprim n) = true -> in_big t x = true ->
  in_prim (uprim n) p = true -> p <> 0 ->
  prim_form_asis PDiv t (uprim n) x p = Ok [Z.quot x p] /\
  ((0 <= x \/ Z.rem x p = 0) ->
     prim_form_asis PRem t (uprim n) x p = Ok [Z.rem x p] /\
     prim_form_asis PDivRem t (uprim n) x p = Ok [Z.quot x p; Z.rem x p]) /\
  (x < 0 /\ Z.rem x p <> 0 ->
     prim_form_asis PRem t (uprim n) x p = Panic Undocumented /\
     prim_form_asis PDivRem t (uprim n) x p = Panic Undocumented).
Proof.
  intros Hpair Hx Hp Hz. rewrite !prim_form_correct by assumption.
  cbn [prim_form_spec]. unfold form_spec, trunc_div_rem_spec.
  destruct (Z.eqb_spec p 0) as [|_]; [contradiction|]. cbn [rbind fst snd hd nth].
  pose proof (rem_fits_unsigned_iff n x p Hp Hz) as F.
  split; [reflexivity|]. split.
  - intros H. rewrite (proj2 F H). split; reflexivity.
  - intros [H1 H2]. destruct (in_prim (uprim n) (Z.rem x p)) eqn:E; [|split; reflexivity].
    exfalso. destruct (proj1 F eq_refl); lia.
Qed.

Theorem prim_rdiv_exact t pt p x : prim_pairing t pt = true -> in_big t x = true -> in_prim pt p = true -> x <> 0 ->
  prim_form_asis PRDiv t pt x p = if in_prim pt (Z.quot p x) then Ok [Z.quot p x] else Panic Undocumented.
Proof.
  intros Hpair Hx Hp Hz. rewrite prim_form_correct by assumption.
  cbn [prim_form_spec]. unfold form_spec, trunc_div_rem_spec.
  destruct (Z.eqb_spec x 0) as [|_]; [contradiction|]. cbn [rbind fst hd]. reflexivity.
Qed.

(** the two classic members of the class, and one representable neighbour each *)
Example prim_unrepresentable_examples :
  prim_form_asis PRem BI (uprim 8) (-7) 3 = Panic Undocumented /\       (* IBig(-7) % 3u8 *)
  prim_form_asis PRem BI (iprim 8) (-7) 3 = Ok [-1] /\
  prim_form_asis PRDiv BI (iprim 8) (-1) (-128) = Panic Undocumented /\ (* i8::MIN / IBig(-1) *)
  prim_form_asis PRDiv BI (iprim 8) (-1) (-127) = Ok [127] /\
  prim_form_asis PDivRem BI (uprim 8) (-6) 3 = Ok [-2; 0] /\
  prim_form_asis PRem BU (uprim 8) 7 0 = Panic DivideBy0.
Proof. vm_compute. repeat split; reflexivity. Qed.

(** *** is_multiple_of_const *)
Section MultConst.
Variable w : Z.
Hypothesis w_pos : 0 < w.
Notation B := (Words.B w).
Variable div1by1 div2by1 div2by2 : Z -> Z -> Z * Z.
Variable div3by2 div4by2 : Z -> Z -> Z -> Z * Z.
Hypothesis div1by1_ok : contract_1by1 w div1by1.
Hypothesis div2by1_ok : contract_2by1 w div2by1.
Hypothesis div2by2_ok : contract_2by2 w div2by2.
Hypothesis div3by2_ok : contract_3by2 w div3by2.
Hypothesis div4by2_ok : contract_4by2 w div4by2.

Theorem is_multiple_of_const_correct m d : 0 <= m -> 0 < d < B * B ->
  is_multiple_of_const_asis w div1by1 div2by1 div2by2 div3by2 div4by2 m d = Ok (m mod d =? 0).
Proof.
  intros Hm Hd. pose proof (B_pos w w_pos) as HB. unfold is_multiple_of_const_asis.
  destruct (Z.eqb_spec d 0) as [|_]; [lia|].
  destruct (Z.ltb_spec d B) as [Hd1|Hd1]; (destruct (Z.ltb_spec m (B * B)) as [Hs|Hl]; [reflexivity|]).
  - destruct (words_of_spec w w_pos m Hm) as (Hwm & Hvm & Hlm).
    pose proof (nwords_ge3 w w_pos m Hl) as Hn.
    rewrite (rem_by_word_correct w w_pos div1by1 div2by1 div1by1_ok div2by1_ok (words_of w m) d Hwm) by
      (try lia; intros E0; rewrite E0 in Hlm; cbn in Hlm; lia).
    rewrite Hvm. reflexivity.
  - destruct (words_of_spec w w_pos m Hm) as (Hwm & Hvm & Hlm).
    pose proof (nwords_ge3 w w_pos m Hl) as Hn.
    rewrite (rem_by_dword_correct w w_pos div2by2 div3by2 div4by2 div2by2_ok div3by2_ok div4by2_ok (words_of w m) d Hwm) by lia.
    rewrite Hvm. reflexivity.
Qed.
End MultConst.

(** with num-modular transcribed: for every word size, UBig / IBig::is_multiple_of_const(d) (the IBig
    form passes its magnitude) is true exactly when the truncated remainder is zero *)
Theorem is_multiple_of_const_unconditional w : 0 < w -> forall a d, 0 < d < Words.B w * Words.B w ->
  is_multiple_of_const_asis w (nm1by1 w) (nm2by1 w) (nm2by2 w) (nm3by2 w) (nm4by2 w) (Z.abs a) d = Ok (Z.rem a d =? 0) /\
  is_multiple_of_spec a d = Ok (Z.rem a d =? 0).
Proof.
  intros Hw a d Hd. split.
  - rewrite (is_multiple_of_const_correct w Hw _ _ _ _ _ (nm1by1_contract w) (nm2by1_contract w Hw) (nm2by2_contract w)
               (nm3by2_contract w Hw) (nm4by2_contract w Hw)) by lia.
    f_equal. rewrite <- Z.rem_mod_nonneg by lia.
    rewrite <- (Z.abs_eq d) at 1 by lia. rewrite Z.rem_abs by lia.
    destruct (Z.eqb_spec (Z.rem a d) 0) as [E|E].
    + rewrite E. reflexivity.
    + apply Z.eqb_neq. lia.
  - unfold is_multiple_of_spec. destruct (Z.eqb_spec d 0); [lia|reflexivity].
Qed.

Lemma is_multiple_of_const_zero w f1 f2 f3 f4 f5 m : is_multiple_of_const_asis w f1 f2 f3 f4 f5 m 0 = Panic Undocumented.
Proof. reflexivity. Qed.
