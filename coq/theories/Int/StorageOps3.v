(** C17 (round 4) - the storage machine extended by the buffer handling of
      sqrt / sqrt_rem      (root_ops.rs: sqrt_rem_large - shifted copy, output buffer, index / truncate guards)
      modular rings        (div_const.rs: ConstLargeDivisor::new / divisor / rem_large / rem_repr, Div / Rem by a ConstDivisor;
                            modular/repr.rs, convert.rs, mul.rs, pow.rs: ReducedLarge one / from_ubig / residue / clone /
                            clone_from / drop - a Reduced value owns a Box<[Word]> of exactly modulus.len() words)
      IBig & | ^ ! >> <<   (bits.rs impl_ibig_bitand / bitor / bitxor sign tables over and_not, sub_one, add_one; shift_ops.rs)
      from_str_radix       (parse/power_two.rs parse_large: the estimated buffer; parse/non_power_two.rs parse_chunk), with the
                            error exits that drop the buffer
      to_chunks / from_chunks (convert.rs)
    DEFINITIONS ONLY (executable); proofs in StorageOps3Proofs.v.  Conventions as in StorageModel.v / StorageOps2.v: every
    assert!/debug_assert!/index/`usize` subtraction is an explicit guard, word contents enter at value level, a documented
    panic is raised after the owned buffers were released (unwinding) and is the outcome [Thrown].
    Capacities, lengths and scratch arguments come from the REGENERATED coq/gen/StorageGen4.v. *)
From Dashu Require Import Base.Prelude Base.Words Int.StorageModel Int.StorageOps2.
From DashuGen Require Import StorageGen StorageGen4.
Open Scope Z_scope.

Definition box := (option Z * list Z)%type.
(** ConstDivisor: one / two words (no storage) or the boxed normalized divisor with its shift *)
Inductive cdiv := CSmall (d : Z) | CLarge (bx : box) (sh : Z).
(** Reduced: ReducedWord / ReducedDword (Copy) or ReducedLarge(Box<[Word]>) *)
Inductive relem := ESmall (v : Z) | ELarge (bx : box).
Inductive rkind := RNew | RRes | RMul | RCloneFrom | RRem | RDiv | RPow.
Inductive sbit := SAnd | SOr | SXor.
(** one byte of the text handed to the power-of-two parser, in the order the loop reads them (last byte first) *)
Inductive pitem := PD (d : Z) | PSep | PBad.

Section Ops3.
Variable w : Z.
Variable M : Z.
Variable gk : list Z -> list Z -> Z * bool.
(** what root::sqrt_rem leaves in the input buffer when only the root is wanted (never read again) *)
Variable jv : list Z -> Z.

Notation Bw := (Bw w).
Notation val := (val w).
Notation tow := (tow w).

(* ------------------------------------------------------------------ buffer.rs, Box<[Word]> *)
Definition ensure_capacity_exact (b : buffer) (n : Z) : M_ buffer :=
  if gen_ensure_capacity_exact_test (bcap b) n then reallocate_raw b n else ret b.

(** <Box<[Word]> as Clone>::clone: a block of exactly len words; clone_from copies in place when the lengths agree,
    otherwise `*self = source.clone()` (the new box is built first, then the old one is dropped) *)
Definition box_clone (bx : box) : M_ box :=
  if len (snd bx) =? 0 then ret (None, []) else p <- raw_alloc (len (snd bx)) ;; ret (Some p, snd bx).
Definition box_clone_from (self src : box) : M_ box :=
  if len (snd self) =? len (snd src) then ret (fst self, snd src)
  else nb <- box_clone src ;; drop_box self ;;; ret nb.

(* ------------------------------------------------------------------ buffer.rs: pop_zeros as the loop it is, a failing realloc *)
(** Buffer::pop_zeros: tail_ptr walks down from the last word while the word read is zero.  Every ptr::read must lie inside
    the allocation (guard 18: 0 <= index < len; index -1 is the word in front of the block), `self.len -= 1` must not
    underflow (guard 14).  Whether the loop leaves when the length reaches 0 is REGENERATED (gen4_pop_zeros_break).
    Returns the new length. *)
Fixpoint pop_loop (fuel : nat) (ws : list Z) (i ln : Z) : M_ Z :=
  match fuel with
  | O => fun _ => OutOfFuel
  | S f =>
      guard 18 ((0 <=? i) && (i <? len ws)) ;;;
      if nth (Z.to_nat i) ws 0 =? 0 then
        guard 14 (1 <=? ln) ;;;
        let ln' := ln - 1 in
        if gen4_pop_zeros_break && (ln' =? 0) then ret ln' else pop_loop f ws (i - 1) ln'
      else ret ln
  end.
Definition pop_zeros_asis (ws : list Z) : M_ (list Z) :=
  if 0 <? len ws then n <- pop_loop (S (length ws)) ws (len ws - 1) (len ws) ;; ret (firstn (Z.to_nat n) ws) else ret ws.
(** Repr::from_buffer with the scan spelled out *)
Definition from_buffer_g (b : buffer) : M_ repr := ws <- pop_zeros_asis (bws b) ;; from_buffer w M (setws b ws).

(** Buffer::reallocate_raw when realloc returns null (a growth the allocator cannot satisfy): the old block is still valid
    and still owned by the Buffer (GlobalAlloc contract); the code panics, unwinding drops the Buffer (its Drop frees the
    block).  Whether the failure path itself releases the block before panicking is REGENERATED (gen4_realloc_fail_frees). *)
Definition reallocate_raw_fail (b : buffer) : M_ outcome :=
  (if gen4_realloc_fail_frees then deallocate_raw (bptr b) (bcap b) else ret tt) ;;;
  drop_buffer b ;;; ret (Thrown Undocumented).
(** UBig::set_bit(n) whose growth fails: a heap value with idx >= len asks ensure_capacity(idx + 1) -> reallocate ->
    reallocate_raw; an inline value asks Buffer::allocate(idx + 1) -> allocate_raw, which panics owning nothing *)
Definition set_bit_fail (a : targ) (n : Z) : M_ outcome :=
  match a with
  | TLarge b =>
      let idx := n / w in
      if idx <? len (bws b) then done (set_bit w M a n)
      else guard 3 (len (bws b) <=? idx + 1) ;;; c <- default_capacity_chk M (idx + 1) ;; reallocate_raw_fail b
  | TSmall _ | TRefSmall _ => if n <? 2 * w then done (set_bit w M a n) else ret (Thrown Undocumented)
  | TRefLarge _ => bad 30
  end.

(* ------------------------------------------------------------------ root_ops.rs *)
(** leading_zeros() & !1 of the top word *)
Definition lz_even (top : Z) : Z := 2 * ((w - 1 - Z.log2 top) / 2).
Definition sqrt_shift (ws : list Z) : Z := w * (len ws mod 2) + lz_even (last ws 0).

Definition sqrt_rem_large (ws : list Z) (root_only : bool) : M_ (repr * repr) :=
  let shift := sqrt_shift ws in
  let n := gen4_sqrt_out_len (len ws) in
  let x := val ws in let s := Z.sqrt x in let r := x - s * s in
  sh <- shl_large_ref w M ws shift ;;
  buffer <- into_buffer M sh ;;
  out0 <- allocate M (gen4_sqrt_out_request n) ;; out1 <- push_repeat out0 0 (gen4_sqrt_out_request n) ;;
  (* root::sqrt_rem: debug_assert!(a.len() == b.len() * 2), debug_assert!(a.len() >= 4) *)
  guard 13 ((len (bws buffer) =? 2 * len (bws out1)) && (4 <=? len (bws buffer))) ;;;
  b2 <- (if root_only then ret (setws buffer (tow (len (bws buffer)) (jv (bws buffer))))
         else
           guard 16 (n <? len (bws buffer)) ;;;                    (* buffer[..n], buffer[n] *)
           b' <- truncate buffer (if shift =? 0 then gen4_sqrt_trunc_noshift n
                                  else if shift >=? w then gen4_sqrt_trunc_word n else gen4_sqrt_trunc_bits n) ;;
           ret (setws b' (tow (len (bws b')) r))) ;;
  q <- from_buffer w M (setws out1 (tow n s)) ;; rr <- from_buffer w M b2 ;; ret (q, rr).

(** TypedReprRef::sqrt / sqrt_rem *)
Definition sqrt_ref (a : targ) : M_ repr :=
  match small_of a with
  | Some d => ret (from_word (Z.sqrt d))
  | None => qr <- sqrt_rem_large (twords a) true ;; repr_drop (snd qr) ;;; ret (fst qr)
  end.
Definition sqrt_rem_ref (a : targ) : M_ (repr * repr) :=
  match small_of a with
  | Some d => ret (from_word (Z.sqrt d), from_dword w (d - Z.sqrt d * Z.sqrt d))
  | None => sqrt_rem_large (twords a) false
  end.
(** <IBig as SquareRoot>::sqrt: panics for a negative operand before anything is allocated *)
Definition isqrt_top (s : sign) (a : targ) : M_ outcome :=
  match s with Negative => ret (Thrown RootNegative) | Positive => done (sqrt_ref a) end.

(* ------------------------------------------------------------------ bits.rs: signed bit operations *)
Definition add_large_one (b : buffer) : M_ repr :=
  let n := len (bws b) in let s := val (bws b) + 1 in
  let b' := setws b (tow n s) in
  b'' <- (if s / Bw ^ n =? 0 then ret b' else push_resizing M b' 1) ;; from_buffer w M b''.
Definition add_one (a : targ) : M_ repr :=
  match a with
  | TSmall d | TRefSmall d => add_dword w M d 1
  | TLarge b => add_large_one b
  | TRefLarge ws => b <- buffer_from M ws ;; add_large_one b
  end.
(** sub_large_one: debug_assert!(!overflow) is a value-level fact (the magnitude of a negative number is >= 1) *)
Definition sub_one (a : targ) : M_ repr :=
  match a with
  | TSmall d | TRefSmall d => ret (from_dword w (d - 1))
  | TLarge b => sub_large_dword w M b 1
  | TRefLarge ws => b <- buffer_from M ws ;; sub_large_dword w M b 1
  end.

Definition and_not (a b : targ) : M_ repr :=
  match small_of a, small_of b with
  | Some x, Some y => ret (from_dword w (Z.ldiff x y))
  | Some x, None => d <- lowest_dword_of w (twords b) ;; release b ;;; ret (from_dword w (Z.ldiff x d))
  | None, Some y => ba <- own_large M a ;; bitop_large_dword w M Z.ldiff ba y
  | None, None =>
      ba <- own_large M a ;;
      r <- from_buffer w M (setws ba (tow (len (bws ba)) (Z.ldiff (val (bws ba)) (val (twords b))))) ;;
      release b ;;; ret r
  end.

(** `!IBig(r)` for the non-negative result r of a magnitude operation *)
Definition not_pos (r : repr) : M_ repr := r' <- add_one (typed w r) ;; ret (with_sign r' Negative).
Definition not_top (s : sign) (a : targ) : M_ repr :=
  match s with
  | Positive => r <- add_one a ;; ret (with_sign r Negative)
  | Negative => r <- sub_one a ;; ret (with_sign r Positive)
  end.

Definition sbit_top (f : sbit) (s0 : sign) (a : targ) (s1 : sign) (b : targ) : M_ repr :=
  match f, s0, s1 with
  | SAnd, Positive, Positive => and_mag w M a b
  | SAnd, Positive, Negative => t <- sub_one b ;; and_not a (typed w t)
  | SAnd, Negative, Positive => t <- sub_one a ;; and_not b (typed w t)
  | SAnd, Negative, Negative => t0 <- sub_one a ;; t1 <- sub_one b ;; r <- orx_mag w M Z.lor (typed w t0) (typed w t1) ;; not_pos r
  | SOr, Positive, Positive => orx_mag w M Z.lor a b
  | SOr, Positive, Negative => t <- sub_one b ;; r <- and_not (typed w t) a ;; not_pos r
  | SOr, Negative, Positive => t <- sub_one a ;; r <- and_not (typed w t) b ;; not_pos r
  | SOr, Negative, Negative => t0 <- sub_one a ;; t1 <- sub_one b ;; r <- and_mag w M (typed w t0) (typed w t1) ;; not_pos r
  | SXor, Positive, Positive => orx_mag w M Z.lxor a b
  | SXor, Positive, Negative => t <- sub_one b ;; r <- orx_mag w M Z.lxor a (typed w t) ;; not_pos r
  | SXor, Negative, Positive => t <- sub_one a ;; r <- orx_mag w M Z.lxor (typed w t) b ;; not_pos r
  | SXor, Negative, Negative => t0 <- sub_one a ;; t1 <- sub_one b ;; orx_mag w M Z.lxor (typed w t0) (typed w t1)
  end.

(** shift_ops.rs: IBig << n, IBig >> n (floor: -(|x| >> n) - [low bits nonzero], a signed subtraction of two values) *)
Definition ishl_top (s : sign) (a : targ) (n : Z) : M_ repr := r <- shl_mag w M a n ;; ret (with_sign r s).
Definition ishr_top (s : sign) (a : targ) (n : Z) : M_ outcome :=
  match s with
  | Positive => done (shr_mag w M a n)
  | Negative =>
      let low := if tvalue w a mod 2 ^ n =? 0 then 0 else 1 in
      q <- shr_mag w M a n ;;
      let nq := neg q in
      run_bin w M BISub (rsign nq) (typed w nq) Positive (TSmall low)
  end.

(* ------------------------------------------------------------------ parse/power_two.rs, parse/non_power_two.rs *)
Definition is_bad (i : pitem) : bool := match i with PBad => true | _ => false end.
Fixpoint p2val (lr : Z) (items : list pitem) : Z :=
  match items with
  | [] => 0
  | PD d :: r => d + 2 ^ lr * p2val lr r
  | _ :: r => p2val lr r
  end.
(** the loop of parse_large: [None] = `?` left the function with ParseError::InvalidDigit, the buffer is dropped *)
Fixpoint parse2_loop (lr : Z) (items : list pitem) (bits word : Z) (b : buffer) : M_ (option buffer) :=
  match items with
  | [] => if 0 <? bits then b' <- push b word ;; ret (Some b') else ret (Some b)
  | PSep :: r => parse2_loop lr r bits word b
  | PBad :: _ => drop_buffer b ;;; ret None
  | PD d :: r =>
      let word' := Z.lor word ((d * 2 ^ bits) mod Bw) in
      let nb := bits + lr in
      if nb >=? w then b' <- push b word' ;; parse2_loop lr r (nb - w) (d / 2 ^ (w - bits)) b'
      else parse2_loop lr r nb word' b
  end.
Definition parse2 (lr : Z) (items : list pitem) : M_ (option repr) :=
  if len items <=? gen4_parse_pow2_digits_per_word w lr then
    ret (if existsb is_bad items then None else Some (from_word (p2val lr items)))
  else
    b <- allocate M (gen4_parse_pow2_request (len items * lr) w) ;;
    ob <- parse2_loop lr items 0 0 b ;;
    match ob with None => ret None | Some b' => r <- from_buffer w M b' ;; ret (Some r) end.

(** parse_chunk: one entry per group of digits_per_word digits, most significant group first: the word parse_word
    returns, or None for an invalid digit *)
Fixpoint parse_chunk_loop (rpw : Z) (gs : list (option Z)) (b : buffer) : M_ (option buffer) :=
  match gs with
  | [] => ret (Some b)
  | None :: _ => drop_buffer b ;;; ret None
  | Some nx :: r =>
      let n := len (bws b) in let v := val (bws b) * rpw + nx in
      let b1 := setws b (tow n v) in
      b2 <- (if v / Bw ^ n =? 0 then ret b1 else push b1 ((v / Bw ^ n) mod Bw)) ;;
      parse_chunk_loop rpw r b2
  end.
Definition parse_n (rpw : Z) (gs : list (option Z)) : M_ (option repr) :=
  match gs with
  | [] => ret (Some zero)
  | [g] => ret (match g with Some x => Some (from_word x) | None => None end)
  | _ => b <- allocate M (gen4_parse_chunk_request (len gs)) ;;
         ob <- parse_chunk_loop rpw gs b ;;
         match ob with None => ret None | Some b' => r <- from_buffer w M b' ;; ret (Some r) end
  end.

(* ------------------------------------------------------------------ convert.rs: to_chunks, from_chunks *)
Definition ceil_div (a b : Z) : Z := (a + b - 1) / b.
Definition bit_len (v : Z) : Z := if v =? 0 then 0 else Z.log2 v + 1.

Fixpoint alloc_chunks (cnt : nat) (wpc : Z) : M_ (list buffer) :=
  match cnt with
  | O => ret []
  | S c => b <- allocate M (gen4_to_chunks_request wpc) ;; b1 <- push_repeat b 0 (gen4_to_chunks_request wpc) ;;
           r <- alloc_chunks c wpc ;; ret (b1 :: r)
  end.
Fixpoint finish_chunks (x k i : Z) (bs : list buffer) : M_ (list repr) :=
  match bs with
  | [] => ret []
  | b :: r => q <- from_buffer w M (setws b (tow (len (bws b)) ((x / 2 ^ (k * i)) mod 2 ^ k))) ;;
              rs <- finish_chunks x k (i + 1) r ;; ret (q :: rs)
  end.
Fixpoint small_chunks (x k i : Z) (cnt : nat) : list repr :=
  match cnt with O => [] | S c => from_dword w ((x / 2 ^ (k * i)) mod 2 ^ k) :: small_chunks x k (i + 1) c end.
Definition to_chunks (a : targ) (k : Z) : M_ (list repr) :=
  let x := tvalue w a in
  let count := ceil_div (bit_len x) k in
  match small_of a with
  | Some d => ret (if count =? 0 then [] else if count =? 1 then [from_dword w d] else small_chunks x k 0 (Z.to_nat count))
  | None =>
      if count =? 1 then b <- buffer_from M (twords a) ;; r <- from_buffer w M b ;; ret [r]
      else bs <- alloc_chunks (Z.to_nat count) (ceil_div k w) ;; finish_chunks x k 0 bs
  end.

(** a by-value operand lent to a routine that takes &self *)
Definition as_borrow (a : targ) : targ :=
  match a with TLarge b => TRefLarge (bws b) | TSmall d => TRefSmall d | o => o end.

Fixpoint max_len (cs : list (list Z)) : Z := match cs with [] => 0 | c :: r => Z.max (len c) (max_len r) end.
Definition from_chunks (cs : list (list Z)) (k x : Z) : M_ repr :=
  match cs with
  | [] => ret zero
  | _ =>
      let rl := gen4_from_chunks_result_len (max_len cs) (len cs) k in
      res <- allocate M rl ;; res1 <- push_repeat res 0 rl ;;
      buf <- allocate_exact M (gen4_from_chunks_buffer (max_len cs)) ;; buf1 <- push_repeat buf 0 (gen4_from_chunks_buffer (max_len cs)) ;;
      r <- from_buffer w M (setws res1 (tow rl x)) ;; drop_buffer buf1 ;;; ret r
  end.
Fixpoint drop_reprs (rs : list repr) : M_ unit :=
  match rs with [] => ret tt | r :: rest => repr_drop r ;;; drop_reprs rest end.
(** x.to_chunks(k) followed by UBig::from_chunks(chunks.iter(), k); the chunks are dropped afterwards *)
Definition chunks_rt (a : targ) (k : Z) : M_ repr :=
  cs <- to_chunks a k ;; r <- from_chunks (map rwords cs) k (tvalue w a) ;; drop_reprs cs ;;; ret r.

(* ------------------------------------------------------------------ div_const.rs, modular/ *)
Definition lzeros (top : Z) : Z := w - 1 - Z.log2 top.
Definition cdiv_blks_len (c : cdiv) : Z := match c with CSmall _ => 0 | CLarge bx _ => len (snd bx) end.

(** ConstDivisor::new(n: UBig): the buffer of a large n is normalized in place and becomes the boxed divisor *)
Definition ring_new (x : targ) : M_ (option cdiv) :=
  match x with
  | TSmall d | TRefSmall d => ret (if d =? 0 then None else Some (CSmall d))
  | TLarge b =>
      let sh := lzeros (last (bws b) 0) in
      bx <- into_boxed_slice (setws b (tow (len (bws b)) (val (bws b) * 2 ^ sh))) ;; ret (Some (CLarge bx sh))
  | _ => bad 30
  end.
Definition ring_drop (c : cdiv) : M_ unit := match c with CSmall _ => ret tt | CLarge bx _ => drop_box bx end.
Definition ring_modulus (c : cdiv) : Z := match c with CSmall d => d | CLarge bx sh => val (snd bx) / 2 ^ sh end.
(** ConstDivisor::value / ConstLargeDivisor::divisor *)
Definition ring_value (c : cdiv) : M_ repr :=
  match c with
  | CSmall d => ret (from_dword w d)
  | CLarge bx sh => nb <- buffer_from M (snd bx) ;; from_buffer w M (setws nb (tow (len (bws nb)) (val (snd bx) / 2 ^ sh)))
  end.

(** ConstLargeDivisor::rem_large: (words << shift) % self, in the buffer of words *)
Definition cl_rem_large (n : Z) (nm sh : Z) (words : buffer) : M_ buffer :=
  let l := len (bws words) in let v := val (bws words) * 2 ^ sh in
  w1 <- push_resizing M (setws words (tow l v)) (v / Bw ^ l) ;;
  if gen4_rem_large_test (len (bws w1)) n then
    (* div::memory_requirement_exact: assert!(lhs_len >= rhs_len && rhs_len >= 2) *)
    guard 13 ((gen4_rem_large_div_rhs (len (bws w1)) n <=? gen4_rem_large_div_lhs (len (bws w1)) n) && (2 <=? gen4_rem_large_div_rhs (len (bws w1)) n)) ;;;
    w2 <- truncate w1 (gen4_rem_large_trunc n) ;; ret (setws w2 (tow (len (bws w2)) (v mod nm)))
  else ret w1.

(** ReducedLarge::from_ubig / IntoRing: x is consumed; [res] is the residue (value level), the box holds res << shift *)
Definition reduce (c : cdiv) (x : targ) (res : Z) : M_ relem :=
  match c with
  | CSmall _ => release x ;;; ret (ESmall res)
  | CLarge bx sh =>
      let n := len (snd bx) in
      buffer <- (match x with
                 | TSmall dw | TRefSmall dw =>
                     let v := dw * 2 ^ sh in
                     b <- allocate_exact M (gen4_rem_repr_request n) ;;
                     b1 <- push b (v mod Bw) ;; b2 <- push b1 ((v / Bw) mod Bw) ;; push b2 (v / Bw ^ 2)
                 | TLarge words => cl_rem_large n (val (snd bx)) sh words
                 | _ => bad 30
                 end) ;;
      b1 <- ensure_capacity_exact buffer (gen4_from_ubig_capacity n) ;;
      guard 14 (0 <=? gen4_from_ubig_zeros n (len (bws b1))) ;;;                 (* modulus_len - buffer.len() *)
      b2 <- push_repeat b1 0 (gen4_from_ubig_zeros n (len (bws b1))) ;;
      bx' <- into_boxed_slice b2 ;;
      ret (ELarge (fst bx', tow (len (snd bx')) (res * 2 ^ sh)))
  end.
Definition elem_drop (e : relem) : M_ unit := match e with ESmall _ => ret tt | ELarge bx => drop_box bx end.
Definition elem_clone (e : relem) : M_ relem :=
  match e with ESmall v => ret (ESmall v) | ELarge bx => nb <- box_clone bx ;; ret (ELarge nb) end.
(** <ReducedRepr as Clone>::clone_from *)
Definition elem_clone_from (self src : relem) : M_ relem :=
  match self, src with
  | ELarge a, ELarge b => nb <- box_clone_from a b ;; ret (ELarge nb)
  | _, _ => n <- elem_clone src ;; elem_drop self ;;; ret n
  end.
(** the arithmetic of Reduced values works in place on the box (scratch memory: ScratchOps3.v); new contents at value level *)
Definition elem_set (e : relem) (c : cdiv) (res : Z) : relem :=
  match e, c with
  | ELarge bx, CLarge _ sh => ELarge (fst bx, tow (len (snd bx)) (res * 2 ^ sh))
  | _, _ => ESmall res
  end.
(** ReducedLarge::one *)
Definition elem_one (c : cdiv) : M_ relem :=
  match c with
  | CSmall d => ret (ESmall (1 mod d))
  | CLarge bx sh =>
      let n := len (snd bx) in
      b <- allocate_exact M (gen4_one_request n) ;; b1 <- push b (2 ^ sh) ;;
      guard 14 (0 <=? gen4_one_zeros n) ;;; b2 <- push_repeat b1 0 (gen4_one_zeros n) ;;
      bx' <- into_boxed_slice b2 ;; ret (ELarge bx')
  end.
(** Reduced::residue *)
Definition residue (c : cdiv) (e : relem) : M_ repr :=
  match e, c with
  | ELarge bx, CLarge _ sh => nb <- buffer_from M (snd bx) ;; from_buffer w M (setws nb (tow (len (bws nb)) (val (snd bx) / 2 ^ sh)))
  | ESmall v, _ => ret (from_dword w v)
  | ELarge _, CSmall _ => bad 31
  end.
(** Reduced::pow(&self, exp): one / clone / pow_nontrivial (val = raw.clone(), everything else in scratch memory) *)
Definition elem_pow (c : cdiv) (e : relem) (ex res : Z) : M_ relem :=
  match e with
  | ESmall _ => ret (ESmall res)
  | ELarge _ => if ex =? 0 then elem_one c else r <- elem_clone e ;; ret (elem_set r c res)
  end.

(** `TypedRepr % &ConstDivisorRepr` (rem_large_large) and `TypedRepr / &ConstDivisorRepr`; x is consumed *)
Definition rem_const (c : cdiv) (x : targ) : M_ repr :=
  let v := tvalue w x in let m := ring_modulus c in
  match c, x with
  | CLarge bx sh, TLarge lhs =>
      let n := len (snd bx) in
      if len (bws lhs) >=? n then
        guard 13 (2 <=? n) ;;; l1 <- truncate lhs n ;; from_buffer w M (setws l1 (tow (len (bws l1)) (v mod m)))
      else from_buffer w M lhs
  | CLarge _ _, (TSmall d | TRefSmall d) => ret (from_dword w d)
  | CSmall d, TLarge lhs => drop_buffer lhs ;;; ret (from_dword w (v mod d))
  | CSmall d, (TSmall dw | TRefSmall dw) => ret (from_dword w (dw mod d))
  | _, _ => bad 30
  end.
Definition div_const (c : cdiv) (x : targ) : M_ repr :=
  let v := tvalue w x in let m := ring_modulus c in
  match c, x with
  | CLarge bx sh, TLarge buffer =>
      let n := len (snd bx) in
      if len (bws buffer) <? n then drop_buffer buffer ;;; ret zero
      else guard 13 (2 <=? n) ;;;
           let k := len (bws buffer) - n in
           b1 <- erase_front buffer n ;;
           b2 <- push_resizing M (setws b1 (tow k (v / m))) ((v / m) / Bw ^ k) ;; from_buffer w M b2
  | CLarge _ _, (TSmall _ | TRefSmall _) => ret zero
  | CSmall d, TLarge buffer => from_buffer w M (setws buffer (tow (len (bws buffer)) (v / d)))
  | CSmall d, (TSmall dw | TRefSmall dw) => ret (from_dword w (dw / d))
  | _, _ => bad 30
  end.

(** one ring step of the machine.  The modulus (slot m) and the operands (slots x, y) are taken BY VALUE; the ring and
    all its elements live and die inside the step.  ConstDivisor::new(0) panics (nothing owned is lost: the operands are
    dropped by unwinding). *)
Definition emod (v m : Z) : Z := if m =? 0 then 0 else v mod m.
Definition ring_step (k : rkind) (sx : sign) (x : targ) (sy : sign) (y : targ) (md : targ) (ex : Z) : M_ outcome :=
  let vx := signed sx (tvalue w x) in let vy := signed sy (tvalue w y) in
  oc <- ring_new md ;;
  match oc with
  | None => release x ;;; release y ;;; ret (Thrown DivideBy0)
  | Some c =>
      let m := ring_modulus c in
      r <- (match k with
            | RNew => release x ;;; release y ;;; ring_value c
            | RRes => e <- reduce c x (emod vx m) ;; release y ;;; r <- residue c e ;; elem_drop e ;;; ret r
            | RMul =>
                ex_ <- reduce c x (emod vx m) ;; ey <- reduce c y (emod vy m) ;;
                z <- elem_clone ex_ ;;                                   (* &x * &y = x.clone() *= &y *)
                let z := elem_set z c (emod (vx * vy) m) in
                z2 <- elem_clone z ;;                                    (* z.clone() + &x *)
                let z2 := elem_set z2 c (emod (vx * vy + vx) m) in
                elem_drop z ;;;
                let t := elem_set z2 c (emod (vx * vy + vx - vy) m) in   (* z2 - y: in place on z2, y is dropped *)
                elem_drop ey ;;;
                r <- residue c t ;; elem_drop t ;;; elem_drop ex_ ;;; ret r
            | RCloneFrom =>
                (* a second ring over |y| (when it is a valid modulus): y2 = ring2.reduce(0); y2.clone_from(&x) *)
                ex_ <- reduce c x (emod vx m) ;;
                oc2 <- ring_new y ;;
                match oc2 with
                | None => r <- residue c ex_ ;; elem_drop ex_ ;;; ret r
                | Some c2 =>
                    e2 <- reduce c2 (TSmall 0) 0 ;;
                    e3 <- elem_clone_from e2 ex_ ;;
                    r <- residue c e3 ;; elem_drop e3 ;;; ring_drop c2 ;;; elem_drop ex_ ;;; ret r
                end
            | RRem => release y ;;; r <- rem_const c x ;; ret (with_sign r sx)
            | RDiv => release y ;;; r <- div_const c x ;; ret (with_sign r sx)
            | RPow =>
                e <- reduce c x (emod vx m) ;; release y ;;;
                p <- elem_pow c e ex (emod (vx ^ ex) m) ;; r <- residue c p ;; elem_drop p ;;; elem_drop e ;;; ret r
            end) ;;
      ring_drop c ;;; ret (Done r)
  end.

(* ------------------------------------------------------------------ the machine of round 4 *)
Inductive op3 :=
| O2 (o : op2)
| OSqrt (d a : nat)
| OSqrtRem (d e a : nat)
| ORing (k : rkind) (d x y m : nat) (ex : Z)
| OSBit (f : sbit) (d : nat) (a b : opnd)
| ONot (d : nat) (a : opnd)
| OIShl (d : nat) (a : opnd) (n : Z)
| OIShr (d : nat) (a : opnd) (n : Z)
| OParse2 (d : nat) (s : sign) (lr : Z) (items : list pitem)
| OParseN (d : nat) (s : sign) (rpw : Z) (gs : list (option Z))
| OChunks (d : nat) (k : Z)
| OGrowFail (d : nat) (n : Z).

Definition store_opt (d : nat) (s : sign) (o : option repr) (pool : list repr) : M_ (list repr * option reason) :=
  match o with
  | Some r => p <- store d (with_sign r s) pool ;; ret (p, None)
  | None => ret (pool, Some Undocumented)      (* Err(ParseError): no panic, the slot keeps its value *)
  end.

Definition step3 (o : op3) (pool : list repr) : M_ (list repr * option reason) :=
  match o with
  | O2 o => step2 w M gk o pool
  | OSqrt d a =>
      let '((s, x), p1) := fetch w (ByRef a) pool in
      o <- isqrt_top s x ;; store_out d o p1
  | OSqrtRem d e a =>
      let '((_, x), p1) := fetch w (ByRef a) pool in
      qr <- sqrt_rem_ref x ;; p <- store d (fst qr) p1 ;; p' <- store e (snd qr) p ;; ret (p', None)
  | ORing k d x y m ex =>
      let '((sx, tx), p1) := fetch w (ByVal x) pool in
      let '((sy, ty), p2) := fetch w (ByVal y) p1 in
      let '((_, tm), p3) := fetch w (ByVal m) p2 in
      o <- ring_step k sx tx sy ty tm ex ;; store_out d o p3
  | OSBit f d a b =>
      let '((s0, x), p1) := fetch w a pool in
      let '((s1, y), p2) := fetch w b p1 in
      r <- sbit_top f s0 x s1 y ;; p <- store d r p2 ;; ret (p, None)
  | ONot d a =>
      let '((s, x), p1) := fetch w a pool in
      r <- not_top s x ;; p <- store d r p1 ;; ret (p, None)
  | OIShl d a n =>
      let '((s, x), p1) := fetch w a pool in
      r <- ishl_top s x n ;; p <- store d r p1 ;; ret (p, None)
  | OIShr d a n =>
      let '((s, x), p1) := fetch w a pool in
      o <- ishr_top s x n ;; store_out d o p1
  | OParse2 d s lr items => o <- parse2 lr items ;; store_opt d s o pool
  | OParseN d s rpw gs => o <- parse_n rpw gs ;; store_opt d s o pool
  | OChunks d k =>
      let '((s, x), p1) := fetch w (ByVal d) pool in
      r <- chunks_rt (as_borrow x) k ;;
      release x ;;; p <- store d (with_sign r s) p1 ;; ret (p, None)
  | OGrowFail d n =>
      let '((_, x), p1) := fetch w (ByVal d) pool in
      o <- set_bit_fail x n ;; store_out d o p1
  end.

Fixpoint run3 (ops : list op3) (pool : list repr) : M_ (list repr) :=
  match ops with
  | [] => ret pool
  | o :: rest => pr <- step3 o pool ;; run3 rest (fst pr)
  end.

End Ops3.
