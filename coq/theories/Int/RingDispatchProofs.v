(** C01 (L0): mul::add_signed_mul_same_len / mul::add_signed_mul / mul::multiply with their size
    dispatch (schoolbook <= T_simple < Karatsuba <= T_kara < Toom-3, chunk splitting for unbalanced
    operands) meet the kernel contract for ALL operand lengths, for every word size w >= 8 and every
    admissible threshold triple (1 <= T_simple, 3 <= T_kara, 1 <= CHUNK); the fuel the definitions
    pass (length + 1) always suffices.  The thresholds of the source (regenerated into
    DashuGen.Params) are admissible. *)
From Dashu Require Import Base.Prelude Base.Words Int.RingAdd Int.RingAddProofs Int.RingMul Int.RingMulProofs
  Int.RingKaraProofs Int.RingToomProofs.
From DashuGen Require Import Params.
Open Scope Z_scope.

Section DispatchProofs.
Variable w : Z.
Hypothesis w_ge : 8 <= w.
Let w_pos : 0 < w. Proof. lia. Qed.
Variable T_simple T_kara CHUNK : nat.
Hypothesis T_simple_ok : (1 <= T_simple)%nat.
Hypothesis T_kara_ok : (3 <= T_kara)%nat.
Hypothesis CHUNK_ok : (1 <= CHUNK)%nat.
Notation BB := (B w).
Notation val := (value w).
Notation wfw := (wf w).
Notation msame := (mul_same w T_simple T_kara).
Notation mgen := (mul_gen w T_simple T_kara CHUNK).

Lemma mul_ok_eq (f g : mulfn) c s a b : f c s a b = g c s a b -> mul_ok w g c s a b -> mul_ok w f c s a b.
Proof. intros E (r & k & Eg & R). exists r, k. rewrite E. split; [exact Eg | exact R]. Qed.

Lemma mul_same_ok : forall fuel c s a b, pre w c a b -> length a = length b -> (length a < fuel)%nat ->
  mul_ok w (msame fuel) c s a b.
Proof.
  induction fuel as [|f IH]; intros c s a b Hpre Lab Hf; [lia|].
  cbn [mul_same].
  assert (Hrec : same_ok w (msame f) (length a)).
  { intros c' s' a' b' Hp' L' Hl'. apply IH; auto. lia. }
  destruct (Nat.leb_spec (length a) T_simple) as [H1|H1].
  { apply (mul_ok_eq _ (simple_chunk_fn w)); [|apply simple_chunk_ok; auto].
    unfold mul_same_step. rewrite (proj2 (Nat.leb_le _ _) H1). reflexivity. }
  destruct (Nat.leb_spec (length a) T_kara) as [H2|H2].
  - apply (mul_ok_eq _ (karatsuba_same_len w (msame f))); [|apply karatsuba_ok; auto; lia].
    unfold mul_same_step. rewrite (proj2 (Nat.leb_gt _ _) H1), (proj2 (Nat.leb_le _ _) H2). reflexivity.
  - apply (mul_ok_eq _ (toom3_same_len w (msame f))); [|apply toom3_ok; auto; lia].
    unfold mul_same_step. rewrite (proj2 (Nat.leb_gt _ _) H1), (proj2 (Nat.leb_gt _ _) H2). reflexivity.
Qed.

Lemma pre_swap c a b : pre w c a b -> pre w c b a.
Proof. intros (Hc & Ha & Hb & L). repeat split; auto. lia. Qed.

(** the body of mul::add_signed_mul once the operands are ordered (len a >= len b) *)
Definition ordered_body (f : nat) : mulfn := fun c s a b =>
  if (length b <=? T_simple)%nat then simple_add_signed_mul w CHUNK (mgen f) c s a b
  else if (length b <=? T_kara)%nat then split_into_chunks w (karatsuba_same_len w (msame f)) (mgen f) (length b) c s a b
  else split_into_chunks w (toom3_same_len w (msame f)) (mgen f) (length b) c s a b.

Lemma mul_gen_ordered f c s a b : pre w c a b -> (length b <= length a)%nat -> (length a + length b <= f)%nat ->
  (forall c s a b, pre w c a b -> (length a + length b < f)%nat -> mul_ok w (mgen f) c s a b) ->
  mul_ok w (ordered_body f) c s a b.
Proof.
  intros Hpre Hab Hf IH.
  assert (Hsame : forall m, (m <= length b)%nat -> same_ok w (msame f) m).
  { intros m Hm c' s' a' b' Hp' L' Hl'. apply mul_same_ok; auto. lia. }
  destruct (Nat.leb_spec (length b) T_simple) as [H1|H1].
  - destruct (Nat.leb_spec (length a) CHUNK) as [H3|H3].
    + apply (mul_ok_eq _ (simple_chunk_fn w)); [|apply simple_chunk_ok; auto].
      unfold ordered_body, simple_add_signed_mul. rewrite (proj2 (Nat.leb_le _ _) H1), (proj2 (Nat.leb_le _ _) H3). reflexivity.
    + apply (mul_ok_eq _ (split_into_chunks w (simple_chunk_fn w) (mgen f) CHUNK)).
      { unfold ordered_body, simple_add_signed_mul. rewrite (proj2 (Nat.leb_le _ _) H1), (proj2 (Nat.leb_gt _ _) H3). reflexivity. }
      apply (split_into_chunks_ok w w_ge _ _ CHUNK (length a + length b)); auto; try lia.
      * intros c' s' a' Hp' _. apply simple_chunk_ok; auto.
      * intros c' s' a' b' Hp' Hl'. apply IH; auto. lia.
  - destruct (Nat.leb_spec (length b) T_kara) as [H2|H2].
    + apply (mul_ok_eq _ (split_into_chunks w (karatsuba_same_len w (msame f)) (mgen f) (length b))).
      { unfold ordered_body. rewrite (proj2 (Nat.leb_gt _ _) H1), (proj2 (Nat.leb_le _ _) H2). reflexivity. }
      apply (split_into_chunks_ok w w_ge _ _ (length b) (length a + length b)); auto; try lia.
      * intros c' s' a' Hp' Hl'. destruct Hp' as (P1 & P2 & P3 & P4).
        apply karatsuba_ok; auto; try lia; [repeat split; auto|]. apply Hsame. lia.
      * intros c' s' a' b' Hp' Hl'. apply IH; auto. lia.
    + apply (mul_ok_eq _ (split_into_chunks w (toom3_same_len w (msame f)) (mgen f) (length b))).
      { unfold ordered_body. rewrite (proj2 (Nat.leb_gt _ _) H1), (proj2 (Nat.leb_gt _ _) H2). reflexivity. }
      apply (split_into_chunks_ok w w_ge _ _ (length b) (length a + length b)); auto; try lia.
      * intros c' s' a' Hp' Hl'. destruct Hp' as (P1 & P2 & P3 & P4).
        apply toom3_ok; auto; try lia; [repeat split; auto|]. apply Hsame. lia.
      * intros c' s' a' b' Hp' Hl'. apply IH; auto. lia.
Qed.

Lemma mul_gen_ok : forall fuel c s a b, pre w c a b -> (length a + length b < fuel)%nat ->
  mul_ok w (mgen fuel) c s a b.
Proof.
  induction fuel as [|f IH]; intros c s a b Hpre Hf; [lia|].
  cbn [mul_gen].
  destruct (Nat.ltb_spec (length a) (length b)) as [Hlt|Hge].
  - destruct (mul_gen_ordered f c s b a (pre_swap c a b Hpre) ltac:(lia) ltac:(lia) IH) as (r & k & E & Lr & Wr & V).
    exists r, k. split; [|repeat split; auto; rewrite V; ring].
    unfold mul_gen_step. rewrite (proj2 (Nat.ltb_lt _ _) Hlt). exact E.
  - destruct (mul_gen_ordered f c s a b Hpre ltac:(lia) ltac:(lia) IH) as (r & k & E & R).
    exists r, k. split; [|exact R].
    unfold mul_gen_step. rewrite (proj2 (Nat.ltb_ge _ _) Hge). exact E.
Qed.

(** ------------------------------------------------------------------ the entry points *)
Theorem add_signed_mul_same_len_ok c s a b : pre w c a b -> length a = length b ->
  mul_ok w (add_signed_mul_same_len w T_simple T_kara) c s a b.
Proof. intros Hp L. unfold add_signed_mul_same_len. apply mul_same_ok; auto. Qed.

Theorem add_signed_mul_ok c s a b : pre w c a b -> mul_ok w (add_signed_mul w T_simple T_kara CHUNK) c s a b.
Proof. intros Hp. unfold add_signed_mul. apply mul_gen_ok; auto. Qed.

(** the carry every multiplier returns is -1, 0 or 1 (the code's debug_assert!(carry.abs() <= 1)) *)
Theorem add_signed_mul_carry c s a b r k : pre w c a b ->
  add_signed_mul w T_simple T_kara CHUNK c s a b = Ok (r, k) -> -1 <= k <= 1.
Proof.
  intros Hp E. destruct (add_signed_mul_ok c s a b Hp) as (r' & k' & E' & Lr & Wr & V).
  rewrite E in E'. inversion E'; subst. eapply contract_carry_range; eauto.
Qed.

(** mul::multiply: the product of two word lists, for all lengths (never out of fuel, never a
    debug panic) *)
Theorem multiply_correct a b : wfw a -> wfw b ->
  exists r, multiply w T_simple T_kara CHUNK a b = Ok r /\ length r = (length a + length b)%nat /\ wfw r /\
            val r = val a * val b.
Proof.
  intros Ha Hb. unfold multiply. apply (product_ok w w_ge); auto.
  apply add_signed_mul_ok. repeat split; auto; [apply wf_repeat_zero, w_pos | apply repeat_length].
Qed.

End DispatchProofs.

(** the thresholds read from the source are admissible *)
Lemma source_thresholds_admissible :
  (1 <= Z.to_nat mul_threshold_simple)%nat /\ (3 <= Z.to_nat mul_threshold_karatsuba)%nat /\
  (1 <= Z.to_nat mul_simple_chunk_len)%nat /\
  (* what the code itself needs: each multiplier is only entered at or above its MIN_LEN *)
  karatsuba_min_len <= mul_threshold_simple + 1 /\ toom3_min_len <= mul_threshold_karatsuba + 1.
Proof. unfold mul_threshold_simple, mul_threshold_karatsuba, mul_simple_chunk_len, karatsuba_min_len, toom3_min_len. lia. Qed.

(** the multipliers as the library is compiled: thresholds and chunk length of the source *)
Definition src_T_simple : nat := Z.to_nat mul_threshold_simple.
Definition src_T_kara : nat := Z.to_nat mul_threshold_karatsuba.
Definition src_CHUNK : nat := Z.to_nat mul_simple_chunk_len.

Theorem add_signed_mul_source_ok w : 8 <= w -> forall c s a b, pre w c a b ->
  exists r carry, add_signed_mul w src_T_simple src_T_kara src_CHUNK c s a b = Ok (r, carry) /\
    length r = length c /\ wf w r /\ -1 <= carry <= 1 /\
    value w r + carry * B w ^ len c = value w c + sgnz s * (value w a * value w b).
Proof.
  intros Hw c s a b Hp. destruct source_thresholds_admissible as (A1 & A2 & A3 & _).
  destruct (add_signed_mul_ok w Hw _ _ _ A1 A2 A3 c s a b Hp) as (r & k & E & Lr & Wr & V).
  exists r, k. repeat split; auto; eapply (add_signed_mul_carry w Hw _ _ _ A1 A2 A3); eauto.
Qed.

Theorem multiply_source_correct w : 8 <= w -> forall a b, wf w a -> wf w b ->
  exists r, multiply w src_T_simple src_T_kara src_CHUNK a b = Ok r /\ length r = (length a + length b)%nat /\ wf w r /\
            value w r = value w a * value w b.
Proof.
  intros Hw a b Ha Hb. destruct source_thresholds_admissible as (A1 & A2 & A3 & _).
  apply (multiply_correct w Hw _ _ _ A1 A2 A3); auto.
Qed.

(** non-vacuity: 64-bit words, a 2-word times a 1-word operand *)
Example multiply_example :
  multiply 64 src_T_simple src_T_kara src_CHUNK [2 ^ 64 - 1; 5] [2 ^ 64 - 1] = Ok [1; 2 ^ 64 - 7; 5].
Proof. vm_compute. reflexivity. Qed.
