(** C13 (round 4) - Clone for Reduced (integer/src/modular/repr.rs): clone and clone_from.
    `x.clone_from(&y)` makes x a copy of y: value AND ring (for two Large elements the source sets `*ring = src_ring`
    and reuses the word buffer, otherwise `*self = source.clone()`); whatever ring x was in before is forgotten.
    The run mirrors the harness op `clx`: source x = r1.reduce(a), destination y = r2.reduce(b) (another ConstDivisor
    instance, any modulus), y.clone_from(&x); observed: y.modulus(), y.residue(), y == x, (y + r1.reduce(c)).residue(). *)
From Dashu Require Import Base.Prelude Int.ModRingSpec Int.ModRingPowModel Int.ModRingModel Int.ModRingInst.
Open Scope Z_scope.

Definition clone_asis (x : reduced) : reduced := x.
Definition clone_from_asis (dst src : reduced) : reduced := clone_asis src.

Definition run_clone_from (m1 m2 a b c : Z) : result (Z * Z * bool * Z) :=
  rbind (i_new 1 m1) (fun r1 => rbind (i_new 2 m2) (fun r2 =>
  rbind (i_reduce r1 a) (fun x => rbind (i_reduce r2 b) (fun y =>
  let y' := clone_from_asis y x in
  rbind (i_residue y') (fun res => rbind (i_eq y' x) (fun e =>
  rbind (i_reduce r1 c) (fun z => rbind (i_add y' z) (fun s => rbind (i_residue s) (fun sv =>
  Ok (modulus_asis y', res, e, sv)))))))))).
