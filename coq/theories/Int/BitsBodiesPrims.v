(** C09 round 5: machine-integer primitives WITH their width, used by the regenerated straight-line bodies
    (coq/gen/BitsBodiesGen.v, tools/translate_c09_r5.py).  A cast `e as u32` / `e as usize` is the truncation it is in Rust;
    `x << n` / `x >> n` on a Word / DoubleWord take the count modulo the width (release build; the debug build panics there) and
    truncate the result to the width.  Definitions only (extracted); the in-range lemmas are in Int/BitsBodiesGenProof.v. *)
From Dashu Require Import Base.Prelude Base.Words Int.BitsSpec Int.BitsWords Int.BitsKernels.
Open Scope Z_scope.

Definition cast_u32 (x : Z) : Z := x mod 2 ^ 32.
Definition cast_usize (uw x : Z) : Z := x mod 2 ^ uw.
Definition word_shl (w x n : Z) : Z := Z.shiftl x (n mod w) mod B w.
Definition dword_shl (w d n : Z) : Z := Z.shiftl d (n mod (2 * w)) mod (B w * B w).
Definition word_shr (w x n : Z) : Z := Z.shiftr x (n mod w).
Definition dword_shr (w d n : Z) : Z := Z.shiftr d (n mod (2 * w)).
(** DoubleWord::checked_shr(n: u32) *)
Definition dword_checked_shr (w d n : Z) : option Z := if n <? 2 * w then Some (Z.shiftr d n) else None.
(** DoubleWord::trailing_zeros / trailing_ones: the word functions of Int/BitsWords.v at the double width (2^(2w) values) *)
Definition dword_tz (w d : Z) : Z := word_tz (2 * w) d.
Definition dword_to (w d : Z) : Z := word_to (2 * w) d.
