(** C13 - the word-level multi-word ring with the REAL kernels plugged in:
      mul::multiply  := the as-is model of C01 (RingMul.v, thresholds read from the source) - proved in RingDispatchProofs.v
      sqr::sqr       := the as-is model of C01 - proved in RingSqrProofs.v / RingTop.v
      div::div_rem_in_place := the as-is model of C02 (DivWordModel.v: schoolbook / Burnikel-Ziegler switch) - proved sound
                        and total in DivDCProofs.v / DivDCTotal.v
    What remains assumed is exactly what C02's division theorems assume: the contract of num-modular's div_rem_3by2
    and of mul::add_signed_mul(c, Negative, a, b) on a longer accumulator (DivContracts.v). *)
From Dashu Require Import Base.Prelude Base.Words Int.RingMul Int.RingDispatchProofs Int.RingTop
  Int.DivWordModel Int.DivWordProofs Int.DivSimpleProofs Int.DivLargeProofs Int.DivDCTotal Int.DivContracts
  Int.DivWordInst Int.DivWordInstProofs Int.DivNumModular Int.DivNumModularProofs
  Int.ModRingSpec Int.ModRingModel Int.ModRingProofs Int.ModRingWords Int.ModRingWordsProofs Int.ModRingWordsMulProofs.
From DashuGen Require Import Params.
Open Scope Z_scope.

Section RealKernels.
Variable w : Z.
Hypothesis w_ge : 8 <= w.
Variable f3 : Z -> Z -> Z -> Z * Z.                                (* num-modular div_rem_3by2 *)
Variable fms : list Z -> list Z -> list Z -> list Z * Z.           (* add_signed_mul(c, Negative, a, b) *)
Hypothesis f3_ok : contract_3by2 w f3.
Hypothesis fms_ok : contract_mul_sub w fms.

Definition k_mul : list Z -> list Z -> result (list Z) := multiply w src_T_simple src_T_kara src_CHUNK.
Definition k_sqr : list Z -> result (list Z) := sqr w src_T_simple src_T_kara src_SQR.
Definition k_div (lhs rhs : list Z) : result (list Z * bool) := div_rem_in_place w f3 fms Tn (fuel_for lhs) lhs rhs.

Lemma k_mul_ok a b : Words.wf w a -> Words.wf w b ->
  exists r, k_mul a b = Ok r /\ length r = (length a + length b)%nat /\ Words.wf w r /\ Words.value w r = Words.value w a * Words.value w b.
Proof. apply (multiply_source_correct w w_ge). Qed.

Lemma k_sqr_ok a : Words.wf w a ->
  exists r, k_sqr a = Ok r /\ length r = (2 * length a)%nat /\ Words.wf w r /\ Words.value w r = Words.value w a * Words.value w a.
Proof. apply (sqr_kernel_exact w w_ge). Qed.

Lemma k_div_ok lhs rhs : kernel_pre w lhs rhs ->
  exists res c, k_div lhs rhs = Ok (res, c) /\ kernel_post w lhs rhs res c.
Proof.
  intros Hpre. unfold k_div.
  apply (div_rem_in_place_correct w ltac:(lia) f3 f3_ok fms fms_ok Tn Tn_ge (fuel_for lhs) lhs rhs Hpre).
  destruct Hpre as (_ & _ & _ & Hl & _). unfold fuel_for. lia.
Qed.

Local Lemma w2 : 2 <= w. Proof. lia. Qed.

Theorem real_mul_ops R r x y a b : lring_ok w R r -> ring_wf w r -> wrep w R r x a -> wrep w R r y b ->
  (exists c, wl_mul_in_place w k_mul k_sqr k_div R a b = Ok c /\ wrep w R r (x * y) c) /\
  (exists c, wl_mul_normalized w k_mul k_div R a b = Ok c /\ wrep w R r (x * y) c) /\
  (exists c, wl_sqr w k_sqr k_div R a = Ok c /\ wrep w R r (x * x) c).
Proof. apply (wl_mul_ops w w2 k_mul k_sqr k_div k_mul_ok k_sqr_ok k_div_ok). Qed.

Theorem real_pow R r x a e : lring_ok w R r -> ring_wf w r -> wrep w R r x a -> 0 <= e ->
  exists c, wl_pow w k_mul k_sqr k_div R a e = Ok c /\ wrep w R r (x ^ e) c.
Proof. apply (wl_pow_ok w w2 k_mul k_sqr k_div k_mul_ok k_sqr_ok k_div_ok). Qed.

End RealKernels.

(** ... and with num-modular's div_rem_3by2 as transcribed and proved by C02 (DivNumModularProofs.v): the only premise
    left is the contract of add_signed_mul(c, Negative, a, b) on an accumulator longer than the product *)
Theorem real_mul_ops_nm w fms : 8 <= w -> contract_mul_sub w fms ->
  forall R r x y a b, lring_ok w R r -> ring_wf w r -> wrep w R r x a -> wrep w R r y b ->
  (exists c, wl_mul_in_place w (k_mul w) (k_sqr w) (k_div w (nm3by2 w) fms) R a b = Ok c /\ wrep w R r (x * y) c) /\
  (exists c, wl_mul_normalized w (k_mul w) (k_div w (nm3by2 w) fms) R a b = Ok c /\ wrep w R r (x * y) c) /\
  (exists c, wl_sqr w (k_sqr w) (k_div w (nm3by2 w) fms) R a = Ok c /\ wrep w R r (x * x) c).
Proof. intros Hw Hms. exact (real_mul_ops w Hw (nm3by2 w) fms (nm3by2_contract w ltac:(lia)) Hms). Qed.

Theorem real_pow_nm w fms : 8 <= w -> contract_mul_sub w fms ->
  forall R r x a e, lring_ok w R r -> ring_wf w r -> wrep w R r x a -> 0 <= e ->
  exists c, wl_pow w (k_mul w) (k_sqr w) (k_div w (nm3by2 w) fms) R a e = Ok c /\ wrep w R r (x ^ e) c.
Proof. intros Hw Hms. exact (real_pow w Hw (nm3by2 w) fms (nm3by2_contract w ltac:(lia)) Hms). Qed.

(** non-vacuity of the two remaining contracts (the exact instance of DivWordInst.v), and a run of the
    word-level multiplication with the real kernels: 5 * (m - 1) = m - 5 (mod m) for m = 2^128 + 1 *)
Example real_kernels_nonvacuous : contract_3by2 64 (x3by2 64) /\ contract_mul_sub 64 (xmul_sub 64).
Proof.
  split.
  - intros d lo hi H1 H2 H3. apply (x3by2_ok 64); assumption.
  - intros c a b c' k H1 H2 H3 H4 E. apply (xmul_sub_ok 64 ltac:(lia) c a b c' k); assumption.
Qed.

Example real_mul_example :
  let R := mklring [2 ^ 63; 0; 2 ^ 63] 63 in
  wl_mul_in_place 64 (k_mul 64) (k_sqr 64) (k_div 64 (x3by2 64) (xmul_sub 64)) R [2 ^ 63; 2; 0] [0; 0; 2 ^ 63]
    = Ok [0; 2 ^ 64 - 2; 2 ^ 63 - 1].
Proof. vm_compute. reflexivity. Qed.
