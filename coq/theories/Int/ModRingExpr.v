(** C13 - "reducing then operating = operating then reducing", compositionally: ANY expression built
    from integer constants with + - * / neg dbl sqr pow, evaluated by the as-is model inside a ring,
    yields the element that represents the value of the expression computed on integers and reduced
    once at the end (division: on residues, with the documented panic).  Induction over expressions,
    i.e. over all finite histories of operations on one ring. *)
From Dashu Require Import Base.Prelude Base.Words Int.ModRingSpec Int.ModRingSpecProofs
  Int.ModRingPowModel Int.ModRingPowProofs Int.ModRingModel Int.ModRingProofs Int.ModRingOpsProofs Int.ModRingMain.
Open Scope Z_scope.

Inductive expr :=
| EConst (a : Z)
| EAdd (x y : expr) | ESub (x y : expr) | EMul (x y : expr) | EDiv (x y : expr)
| ENeg (x : expr) | EDbl (x : expr) | ESqr (x : expr) | EPow (x : expr) (n : Z).

(** exponents are UBig in the code *)
Fixpoint exps_ok (e : expr) : Prop :=
  match e with
  | EConst _ => True
  | EAdd x y | ESub x y | EMul x y | EDiv x y => exps_ok x /\ exps_ok y
  | ENeg x | EDbl x | ESqr x => exps_ok x
  | EPow x n => exps_ok x /\ 0 <= n
  end.

Fixpoint div_free (e : expr) : Prop :=
  match e with
  | EConst _ => True
  | EAdd x y | ESub x y | EMul x y => div_free x /\ div_free y
  | EDiv _ _ => False
  | ENeg x | EDbl x | ESqr x | EPow x _ => div_free x
  end.

(** the value over the integers (division-free expressions) *)
Fixpoint evalZ (e : expr) : Z :=
  match e with
  | EConst a => a
  | EAdd x y => evalZ x + evalZ y
  | ESub x y => evalZ x - evalZ y
  | EMul x y => evalZ x * evalZ y
  | EDiv x y => 0
  | ENeg x => - evalZ x
  | EDbl x => 2 * evalZ x
  | ESqr x => evalZ x * evalZ x
  | EPow x n => evalZ x ^ n
  end.

(** the specification evaluated on residues, left operand first *)
Fixpoint eval_spec (m : Z) (e : expr) : result Z :=
  match e with
  | EConst a => Ok (reduce_spec m a)
  | EAdd x y => rbind (eval_spec m x) (fun u => rbind (eval_spec m y) (fun v => Ok (add_spec m u v)))
  | ESub x y => rbind (eval_spec m x) (fun u => rbind (eval_spec m y) (fun v => Ok (sub_spec m u v)))
  | EMul x y => rbind (eval_spec m x) (fun u => rbind (eval_spec m y) (fun v => Ok (mul_spec m u v)))
  | EDiv x y => rbind (eval_spec m x) (fun u => rbind (eval_spec m y) (fun v => div_spec m u v))
  | ENeg x => rbind (eval_spec m x) (fun u => Ok (neg_spec m u))
  | EDbl x => rbind (eval_spec m x) (fun u => Ok (dbl_spec m u))
  | ESqr x => rbind (eval_spec m x) (fun u => Ok (sqr_spec m u))
  | EPow x n => rbind (eval_spec m x) (fun u => Ok (pow_spec m u n))
  end.

Theorem eval_spec_hom m e : 0 < m -> div_free e -> exps_ok e -> eval_spec m e = Ok (evalZ e mod m).
Proof.
  intros Hm. induction e as [a | x IHx y IHy | x IHx y IHy | x IHx y IHy | x IHx y IHy | x IHx | x IHx | x IHx | x IHx n];
    cbn [div_free exps_ok eval_spec evalZ]; intros Hd He.
  - reflexivity.
  - destruct Hd, He. rewrite IHx, IHy by assumption. cbn [rbind]. f_equal. apply (add_hom m _ _ Hm).
  - destruct Hd, He. rewrite IHx, IHy by assumption. cbn [rbind]. f_equal. apply (sub_hom m _ _ Hm).
  - destruct Hd, He. rewrite IHx, IHy by assumption. cbn [rbind]. f_equal. apply (mul_hom m _ _ Hm).
  - contradiction.
  - rewrite IHx by assumption. cbn [rbind]. f_equal. apply (neg_hom m _ Hm).
  - rewrite IHx by assumption. cbn [rbind]. f_equal. apply (dbl_hom m _ Hm).
  - rewrite IHx by assumption. cbn [rbind]. f_equal. apply (sqr_hom m _ Hm).
  - destruct He as [He Hn]. rewrite IHx by assumption. cbn [rbind]. f_equal. apply (pow_hom m _ _ Hm Hn).
Qed.

Section Expr.
Variables (w : Z) (f2 : Z -> Z -> Z * Z) (f3 : Z -> Z -> Z -> Z * Z) (finv : Z -> Z -> option Z) (fgcd : Z -> Z -> Z * Z * sign).
Hypothesis w_ge : 2 <= w.
Hypothesis ext : externals_ok w f2 f3 finv fgcd.

Fixpoint eval_asis (r : ring) (e : expr) : result reduced :=
  match e with
  | EConst a => reduce_asis w f2 f3 r a
  | EAdd x y => rbind (eval_asis r x) (fun u => rbind (eval_asis r y) (fun v => add_asis w u v))
  | ESub x y => rbind (eval_asis r x) (fun u => rbind (eval_asis r y) (fun v => sub_asis w u v))
  | EMul x y => rbind (eval_asis r x) (fun u => rbind (eval_asis r y) (fun v => mul_asis w f2 f3 u v))
  | EDiv x y => rbind (eval_asis r x) (fun u => rbind (eval_asis r y) (fun v => div_asis w f2 f3 finv fgcd u v))
  | ENeg x => rbind (eval_asis r x) neg_asis
  | EDbl x => rbind (eval_asis r x) (dbl_asis w)
  | ESqr x => rbind (eval_asis r x) (sqr_asis w f2 f3)
  | EPow x n => rbind (eval_asis r x) (fun u => pow_asis w f2 f3 u n)
  end.

Definition agrees (r : ring) (s : result Z) (a : result reduced) : Prop :=
  match s with
  | Ok q => exists c, a = Ok c /\ rep r q c
  | Panic p => a = Panic p
  | _ => False
  end.

Lemma rep_mod r v c : 0 < r_m r -> rep r v c -> rep r (v mod r_m r) c.
Proof. intros Hm H. apply (rep_congr r v); [exact H | rewrite Z.mod_mod by lia; reflexivity]. Qed.

Theorem eval_asis_ok r e : ring_wf w r -> exps_ok e -> agrees r (eval_spec (r_m r) e) (eval_asis r e).
Proof.
  intros Hwf. assert (0 < r_m r) as Hm by (destruct Hwf; lia).
  induction e as [a | x IHx y IHy | x IHx y IHy | x IHx y IHy | x IHx y IHy | x IHx | x IHx | x IHx | x IHx n];
    cbn [exps_ok eval_spec eval_asis]; intros He.
  - destruct (reduce_ok w w_ge f2 f3 (ext_2by1 _ _ _ _ _ ext) (ext_3by2 _ _ _ _ _ ext) r a Hwf) as (c & Ec & Hc).
    exists c. split; [exact Ec | apply rep_mod; assumption].
  - destruct He as [Hx Hy]. specialize (IHx Hx). specialize (IHy Hy). unfold agrees in *.
    destruct (eval_spec (r_m r) x) as [u|p| |]; try contradiction; [|rewrite IHx; reflexivity].
    destruct IHx as (cu & -> & Hu). cbn [rbind].
    destruct (eval_spec (r_m r) y) as [v|p| |]; try contradiction; [|rewrite IHy; reflexivity].
    destruct IHy as (cv & -> & Hv). cbn [rbind].
    destruct (asis_ring_ops w f2 f3 finv fgcd w_ge ext r u v cu cv Hwf Hu Hv) as ((c & Ec & Hc) & _).
    exists c. split; [exact Ec | apply rep_mod; assumption].
  - destruct He as [Hx Hy]. specialize (IHx Hx). specialize (IHy Hy). unfold agrees in *.
    destruct (eval_spec (r_m r) x) as [u|p| |]; try contradiction; [|rewrite IHx; reflexivity].
    destruct IHx as (cu & -> & Hu). cbn [rbind].
    destruct (eval_spec (r_m r) y) as [v|p| |]; try contradiction; [|rewrite IHy; reflexivity].
    destruct IHy as (cv & -> & Hv). cbn [rbind].
    destruct (asis_ring_ops w f2 f3 finv fgcd w_ge ext r u v cu cv Hwf Hu Hv) as (_ & (c & Ec & Hc) & _).
    exists c. split; [exact Ec | apply rep_mod; assumption].
  - destruct He as [Hx Hy]. specialize (IHx Hx). specialize (IHy Hy). unfold agrees in *.
    destruct (eval_spec (r_m r) x) as [u|p| |]; try contradiction; [|rewrite IHx; reflexivity].
    destruct IHx as (cu & -> & Hu). cbn [rbind].
    destruct (eval_spec (r_m r) y) as [v|p| |]; try contradiction; [|rewrite IHy; reflexivity].
    destruct IHy as (cv & -> & Hv). cbn [rbind].
    destruct (asis_ring_ops w f2 f3 finv fgcd w_ge ext r u v cu cv Hwf Hu Hv) as (_ & _ & (c & Ec & Hc) & _).
    exists c. split; [exact Ec | apply rep_mod; assumption].
  - destruct He as [Hx Hy]. specialize (IHx Hx). specialize (IHy Hy). unfold agrees in *.
    destruct (eval_spec (r_m r) x) as [u|p| |]; try contradiction; [|rewrite IHx; reflexivity].
    destruct IHx as (cu & -> & Hu). cbn [rbind].
    destruct (eval_spec (r_m r) y) as [v|p| |]; try contradiction; [|rewrite IHy; reflexivity].
    destruct IHy as (cv & -> & Hv). cbn [rbind].
    exact (asis_div w f2 f3 finv fgcd w_ge ext r u v cu cv Hwf Hu Hv).
  - specialize (IHx He). unfold agrees in *.
    destruct (eval_spec (r_m r) x) as [u|p| |]; try contradiction; [|rewrite IHx; reflexivity].
    destruct IHx as (cu & -> & Hu). cbn [rbind].
    destruct (asis_ring_ops w f2 f3 finv fgcd w_ge ext r u u cu cu Hwf Hu Hu) as (_ & _ & _ & (c & Ec & Hc) & _).
    exists c. split; [exact Ec | apply rep_mod; assumption].
  - specialize (IHx He). unfold agrees in *.
    destruct (eval_spec (r_m r) x) as [u|p| |]; try contradiction; [|rewrite IHx; reflexivity].
    destruct IHx as (cu & -> & Hu). cbn [rbind].
    destruct (asis_ring_ops w f2 f3 finv fgcd w_ge ext r u u cu cu Hwf Hu Hu) as (_ & _ & _ & _ & (c & Ec & Hc) & _).
    exists c. split; [exact Ec | apply rep_mod; assumption].
  - specialize (IHx He). unfold agrees in *.
    destruct (eval_spec (r_m r) x) as [u|p| |]; try contradiction; [|rewrite IHx; reflexivity].
    destruct IHx as (cu & -> & Hu). cbn [rbind].
    destruct (asis_ring_ops w f2 f3 finv fgcd w_ge ext r u u cu cu Hwf Hu Hu) as (_ & _ & _ & _ & _ & (c & Ec & Hc) & _).
    exists c. split; [exact Ec | apply rep_mod; assumption].
  - destruct He as [He Hn]. specialize (IHx He). unfold agrees in *.
    destruct (eval_spec (r_m r) x) as [u|p| |]; try contradiction; [|rewrite IHx; reflexivity].
    destruct IHx as (cu & -> & Hu). cbn [rbind].
    destruct (asis_pow w f2 f3 finv fgcd w_ge ext r u cu n Hwf Hu Hn) as (c & Ec & Hc).
    exists c. split; [exact Ec | apply rep_mod; assumption].
Qed.

(** the homomorphism, end to end: evaluate in the ring = evaluate on integers, reduce once *)
Corollary expr_homomorphism r e : ring_wf w r -> div_free e -> exps_ok e ->
  exists c, eval_asis r e = Ok c /\ residue_asis c = Ok (evalZ e mod r_m r) /\ 0 <= evalZ e mod r_m r < r_m r.
Proof.
  intros Hwf Hd He. assert (0 < r_m r) as Hm by (destruct Hwf; lia).
  pose proof (eval_asis_ok r e Hwf He) as H. rewrite (eval_spec_hom (r_m r) e Hm Hd He) in H.
  destruct H as (c & Ec & Hc). exists c. split; [exact Ec|].
  destruct (residue_ok w w_ge r _ c Hwf Hc) as (Er & _). unfold reduce_spec in Er. rewrite Z.mod_mod in Er by lia.
  split; [exact Er | apply Z.mod_pos_bound; exact Hm].
Qed.

End Expr.

Example expr_ex : let e := EPow (ESub (EMul (EConst 7) (EConst (-3))) (ENeg (EDbl (EConst 5)))) 3 in
  div_free e /\ exps_ok e /\ evalZ e = -1331 /\ eval_spec 10 e = Ok 9 /\
  eval_spec 12 (EDiv (EConst 5) (EConst 4)) = Panic NonInvertible.
Proof. cbn [div_free exps_ok]. repeat split; try lia; vm_compute; reflexivity. Qed.
