(** C09 (round 5): the STRAIGHT-LINE bodies of shift_ops.rs / bits.rs / repr.rs as REGENERATED from the Rust source on every
    run (coq/gen/BitsBodiesGen.v, tools/translate_c09_r5.py) are equal to the hand-written models of Int/BitsKernels.v, for
    every word size w > 0 whose double word width fits a u32 and a usize of uw bits (2w < 2^32, 2w < 2^uw), every word list,
    every count.  Casts (`as u32`, `as usize`) and machine shifts carry their width in the generated text: each equality
    below needs the count to be PROVABLY in range at that point of the code (guards `rhs < DWORD_BITS`, `rhs <= leading_zeros`,
    `% WORD_BITS`), so a truncating cast or a moved guard in the source breaks an obligation here. *)
From Dashu Require Import Base.Prelude Base.Words Int.BitsSpec Int.BitsWords Int.BitsKernels Int.BitsKernelsBase Int.BitsBodiesPrims.
From DashuGen Require Import BitsBodiesGen.
Import ListNotations.
Open Scope Z_scope.

Section BodiesGen.
Variable w uw : Z.
Hypothesis Hw : 0 < w.
Hypothesis H32 : 2 * w < 2 ^ 32.
Hypothesis Huw : 2 * w < 2 ^ uw.
Notation B := (B w).

(* ------------------------------------------------------------------ casts and machine shifts in range *)
Lemma cast_u32_small x : 0 <= x <= 2 * w -> cast_u32 x = x.
Proof. intros H. unfold cast_u32. apply Z.mod_small. lia. Qed.
Lemma cast_usize_small x : 0 <= x <= 2 * w -> cast_usize uw x = x.
Proof. intros H. unfold cast_usize. apply Z.mod_small. lia. Qed.
Lemma modw_range x : 0 <= x mod w < w.
Proof. apply Z.mod_pos_bound. exact Hw. Qed.
Lemma cast_u32_modw x : cast_u32 (x mod w) = x mod w.
Proof. apply cast_u32_small. pose proof (modw_range x). lia. Qed.

Lemma B_pos : 0 < B. Proof. unfold Words.B. apply Z.pow_pos_nonneg; lia. Qed.
Lemma BB_pow' : B * B = 2 ^ (2 * w).
Proof. unfold Words.B. rewrite <- Z.pow_add_r by lia. f_equal. lia. Qed.

Lemma word_shl_one k : 0 <= k < w -> word_shl w 1 k = Z.shiftl 1 k.
Proof.
  intros H. unfold word_shl. rewrite (Z.mod_small k w) by lia. apply Z.mod_small.
  rewrite Z.shiftl_1_l. unfold Words.B. split; [apply Z.pow_nonneg; lia|apply Z.pow_lt_mono_r; lia].
Qed.
Lemma word_shl_one_modw n : word_shl w 1 (n mod w) = Z.shiftl 1 (n mod w).
Proof. apply word_shl_one. apply modw_range. Qed.
Lemma dword_shl_one n : 0 <= n < 2 * w -> dword_shl w 1 n = Z.shiftl 1 n.
Proof.
  intros H. unfold dword_shl. rewrite (Z.mod_small n (2 * w)) by lia. apply Z.mod_small.
  rewrite Z.shiftl_1_l, BB_pow'. split; [apply Z.pow_nonneg; lia|apply Z.pow_lt_mono_r; lia].
Qed.
Lemma dword_shr_small d n : 0 <= n < 2 * w -> dword_shr w d n = Z.shiftr d n.
Proof. intros H. unfold dword_shr. rewrite Z.mod_small by lia. reflexivity. Qed.
Lemma dword_shr_modw d n : dword_shr w d (n mod w) = Z.shiftr d (n mod w).
Proof. apply dword_shr_small. pose proof (modw_range n). lia. Qed.
Lemma word_shr_modw x n : word_shr w x (n mod w) = Z.shiftr x (n mod w).
Proof. unfold word_shr. rewrite Z.mod_mod by lia. reflexivity. Qed.

(** a non-zero double word: 1 <= bit length <= 2w, so leading_zeros fits every cast *)
Lemma dword_bit_len d : 0 < d < B * B -> 1 <= bit_len_spec d <= 2 * w /\ d < 2 ^ bit_len_spec d.
Proof.
  intros H. pose proof (bit_len_spec_ok d ltac:(lia)) as [L U]. rewrite Z.abs_eq in L, U by lia.
  assert (0 <= bit_len_spec d - 1).
  { unfold bit_len_spec. destruct (Z.eqb_spec d 0); [lia|]. pose proof (Z.log2_nonneg (Z.abs d)). lia. }
  split; [|exact U]. split; [lia|].
  destruct (Z_lt_le_dec (2 * w) (bit_len_spec d)) as [G|G]; [|exact G].
  exfalso. assert (2 ^ (2 * w) <= 2 ^ (bit_len_spec d - 1)) by (apply Z.pow_le_mono_r; lia).
  rewrite BB_pow' in H. lia.
Qed.
Lemma dword_lz_range d : 0 < d < B * B -> 0 <= dword_lz w d < 2 * w.
Proof. intros H. destruct (dword_bit_len d H) as [? _]. unfold dword_lz. lia. Qed.
Lemma dword_shl_fits d n : 0 < d < B * B -> 0 <= n <= dword_lz w d -> dword_shl w d n = Z.shiftl d n.
Proof.
  intros H Hn. pose proof (dword_lz_range d H) as R. destruct (dword_bit_len d H) as [L U].
  unfold dword_shl. rewrite (Z.mod_small n (2 * w)) by lia. apply Z.mod_small.
  rewrite Z.shiftl_mul_pow2 by lia. split; [apply Z.mul_nonneg_nonneg; [lia|apply Z.pow_nonneg; lia]|].
  rewrite BB_pow'. unfold dword_lz in Hn.
  apply Z.lt_le_trans with (2 ^ bit_len_spec d * 2 ^ n).
  - apply Z.mul_lt_mono_pos_r; [apply Z.pow_pos_nonneg; lia|exact U].
  - rewrite <- Z.pow_add_r by lia. apply Z.pow_le_mono_r; lia.
Qed.

(* ------------------------------------------------------------------ list facts *)
Lemma skipn_repeat_app {A} (x : A) n l : skipn n (repeat x n ++ l) = l.
Proof. induction n; cbn; auto. Qed.
Lemma firstn_repeat_app {A} (x : A) n l : firstn n (repeat x n ++ l) = repeat x n.
Proof. induction n; cbn; [reflexivity|]. rewrite IHn. reflexivity. Qed.
Lemma upd_last_app (a : list Z) x f : upd (a ++ [x]) (length (a ++ [x]) - 1) f = a ++ [f x].
Proof.
  rewrite app_length. cbn [length]. replace (length a + 1 - 1)%nat with (length a) by lia.
  induction a as [|y r IH]; cbn; [reflexivity|]. rewrite IH. reflexivity.
Qed.

(* ------------------------------------------------------------------ shift_ops.rs *)
Theorem shl_one_spilled_gen_ok rhs : shl_one_spilled_gen w uw rhs = shl_one_spilled w rhs.
Proof. unfold shl_one_spilled_gen, shl_one_spilled. cbn [app]. rewrite word_shl_one_modw. reflexivity. Qed.

Theorem shl_dword_spilled_gen_ok d rhs : shl_dword_spilled_gen w uw d rhs = shl_dword_spilled w d rhs.
Proof.
  unfold shl_dword_spilled_gen, shl_dword_spilled. rewrite cast_u32_modw.
  destruct (math_shl_dword w d (rhs mod w)) as [[n0 n1] n2]. cbn [app]. rewrite <- ?app_assoc. reflexivity.
Qed.

Theorem shl_dword_gen_ok d rhs : 0 < d < B * B -> 0 <= rhs -> shl_dword_gen w uw d rhs = shl_dword w d rhs.
Proof.
  intros Hd Hr. unfold shl_dword_gen, shl_dword. pose proof (dword_lz_range d Hd).
  rewrite cast_usize_small by lia. destruct (Z.leb_spec rhs (dword_lz w d)).
  - rewrite dword_shl_fits by lia. reflexivity.
  - rewrite shl_one_spilled_gen_ok, shl_dword_spilled_gen_ok. reflexivity.
Qed.

Theorem shl_large_ref_gen_ok ws rhs : shl_large_ref_gen w uw ws rhs = shl_large_ref w ws rhs.
Proof.
  unfold shl_large_ref_gen, shl_large_ref. rewrite cast_u32_modw. cbn [app].
  rewrite skipn_repeat_app, firstn_repeat_app. destruct (shl_in_place w ws (rhs mod w)). reflexivity.
Qed.

(** `cap` = buffer.capacity(): the hand model takes the outcome of the capacity test *)
Theorem shl_large_gen_ok cap buf rhs :
  shl_large_gen w uw cap buf rhs = shl_large w (negb (cap <? len buf + rhs / w + 1)) buf rhs.
Proof.
  unfold shl_large_gen, shl_large. rewrite Bool.negb_involutive. destruct (cap <? len buf + rhs / w + 1).
  - apply shl_large_ref_gen_ok.
  - rewrite cast_u32_modw. destruct (shl_in_place w buf (rhs mod w)). reflexivity.
Qed.

Theorem shr_dword_gen_ok d rhs : 0 <= rhs -> shr_dword_gen w uw d rhs = shr_dword w d rhs.
Proof.
  intros Hr. unfold shr_dword_gen, shr_dword. destruct (Z.ltb_spec rhs (2 * w)); [|reflexivity].
  rewrite dword_shr_small by lia. reflexivity.
Qed.

Theorem shr_large_gen_ok buf rhs : shr_large_gen w uw buf rhs = shr_large w buf rhs.
Proof. unfold shr_large_gen, shr_large. rewrite cast_u32_modw. reflexivity. Qed.

Theorem shr_large_ref_gen_ok ws rhs : shr_large_ref_gen w uw ws rhs = shr_large_ref w ws rhs.
Proof.
  unfold shr_large_ref_gen, shr_large_ref. rewrite cast_u32_modw.
  destruct (skipn (Z.to_nat (Z.min (rhs / w) (len ws))) ws) as [|a [|b [|c r]]]; cbn [app];
    rewrite ?word_shr_modw, ?dword_shr_modw; reflexivity.
Qed.

(* ------------------------------------------------------------------ bits.rs *)
Theorem with_bit_dword_spilled_gen_ok d n : with_bit_dword_spilled_gen w uw d n = with_bit_dword_spilled w d n.
Proof.
  unfold with_bit_dword_spilled_gen, with_bit_dword_spilled. cbn [app]. rewrite word_shl_one_modw, <- ?app_assoc.
  reflexivity.
Qed.

Theorem with_bit_large_gen_ok buf n : with_bit_large_gen w uw buf n = with_bit_large w buf n.
Proof.
  unfold with_bit_large_gen, with_bit_large. rewrite word_shl_one_modw.
  destruct (n / w <? len buf); [reflexivity|]. rewrite <- ?app_assoc. reflexivity.
Qed.

Theorem clear_high_bits_large_gen_ok buf n : clear_high_bits_large_gen w uw buf n = clear_high_bits_large w buf n.
Proof.
  unfold clear_high_bits_large_gen, clear_high_bits_large. rewrite cast_u32_modw.
  destruct (ceil_div n w >? len buf); [reflexivity|]. destruct (n mod w =? 0); reflexivity.
Qed.

(** the skip_while idiom (recognised literally by the translator) zeroes every word below the top one *)
Theorem next_power_of_two_large_gen_ok ws : ws <> [] ->
  next_power_of_two_large_gen w uw ws = next_power_of_two_large w ws.
Proof.
  intros Hne. unfold next_power_of_two_large_gen, next_power_of_two_large.
  assert (L : (length ws - 1)%nat = length (removelast ws)).
  { destruct (exists_last Hne) as [a [x ->]]. rewrite removelast_last, app_length. cbn [length]. lia. }
  rewrite L. set (zs := repeat 0 (length (removelast ws))). set (c := if forallb _ _ then 0 else 1).
  rewrite last_last.
  destruct (if last ws 0 + c <? B then checked_npt B (last ws 0 + c) else None) as [p|].
  - rewrite upd_last_app. reflexivity.
  - rewrite upd_last_app, <- ?app_assoc. reflexivity.
Qed.

Theorem typed_next_power_of_two_gen_ok r : brepr_ok w r ->
  typed_next_power_of_two_gen w uw r = repr_next_power_of_two w r.
Proof.
  intros Hr. destruct r as [d|ws]; cbn [typed_next_power_of_two_gen repr_next_power_of_two].
  - destruct (checked_npt (B * B) d); reflexivity.
  - apply next_power_of_two_large_gen_ok. destruct Hr as (_ & L & _). destruct ws; [cbn in L; lia|discriminate].
Qed.

Theorem typed_set_bit_gen_ok r n : 0 <= n -> typed_set_bit_gen w uw r n = repr_set_bit w r n.
Proof.
  intros Hn. destruct r as [d|ws]; cbn [typed_set_bit_gen repr_set_bit].
  - destruct (Z.ltb_spec n (2 * w)); [rewrite dword_shl_one by lia; reflexivity|apply with_bit_dword_spilled_gen_ok].
  - apply with_bit_large_gen_ok.
Qed.

Theorem typed_clear_bit_gen_ok r n : 0 <= n -> typed_clear_bit_gen w uw r n = repr_clear_bit w r n.
Proof.
  intros Hn. destruct r as [d|ws]; cbn [typed_clear_bit_gen repr_clear_bit].
  - destruct (Z.ltb_spec n (2 * w)); [rewrite dword_shl_one by lia|]; reflexivity.
  - rewrite word_shl_one_modw. destruct (n / w <? len ws); reflexivity.
Qed.

Theorem typed_clear_high_bits_gen_ok r n : 0 <= n -> typed_clear_high_bits_gen w uw r n = repr_clear_high_bits w r n.
Proof.
  intros Hn. destruct r as [d|ws]; cbn [typed_clear_high_bits_gen repr_clear_high_bits].
  - destruct (Z.ltb_spec n (2 * w)); [rewrite cast_u32_small by lia|]; reflexivity.
  - apply clear_high_bits_large_gen_ok.
Qed.

Theorem typed_split_bits_gen_ok r n : 0 <= n -> typed_split_bits_gen w uw r n = repr_split_bits w r n.
Proof.
  intros Hn. destruct r as [d|ws]; cbn [typed_split_bits_gen repr_split_bits].
  - destruct (Z.ltb_spec n (2 * w)); [rewrite cast_u32_small, dword_shr_small by lia|]; reflexivity.
  - destruct (n =? 0); [reflexivity|]. rewrite shr_large_ref_gen_ok, clear_high_bits_large_gen_ok. reflexivity.
Qed.

(* ------------------------------------------------------------------ bits.rs: impl TypedReprRef { bit, bit_len, are_low_bits_nonzero } *)
Lemma land_pow2_testbit x k : 0 <= k -> negb (Z.land x (Z.shiftl 1 k) =? 0) = Z.testbit x k.
Proof.
  intros Hk. rewrite Z.shiftl_1_l.
  assert (E : Z.land x (2 ^ k) = if Z.testbit x k then 2 ^ k else 0).
  { apply Z.bits_inj'. intros i Hi. rewrite Z.land_spec, Z.pow2_bits_eqb by lia.
    destruct (Z.eqb_spec k i) as [->|N].
    - rewrite Bool.andb_true_r. destruct (Z.testbit x i); [rewrite Z.pow2_bits_eqb by lia; rewrite Z.eqb_refl|rewrite Z.bits_0]; reflexivity.
    - rewrite Bool.andb_false_r. destruct (Z.testbit x k); [rewrite Z.pow2_bits_eqb by lia; apply Z.eqb_neq in N; rewrite N|rewrite Z.bits_0]; reflexivity. }
  rewrite E. destruct (Z.testbit x k); [|reflexivity].
  assert (0 < 2 ^ k) by (apply Z.pow_pos_nonneg; lia). destruct (Z.eqb_spec (2 ^ k) 0); [lia|reflexivity].
Qed.

Theorem are_dword_low_bits_nonzero_gen_ok d n : 0 <= n ->
  are_dword_low_bits_nonzero_gen w uw d n = dword_low_bits_nonzero w d n.
Proof.
  intros Hn. unfold are_dword_low_bits_nonzero_gen, dword_low_bits_nonzero.
  rewrite cast_u32_small; [reflexivity|]. pose proof (Z.le_min_r n (2 * w)). destruct (Z.min_spec n (2 * w)) as [[? ->]|[? ->]]; lia.
Qed.

Theorem ref_are_low_bits_nonzero_gen_ok r n : 0 <= n -> ref_are_low_bits_nonzero_gen w uw r n = are_low_bits_nonzero w r n.
Proof. intros Hn. destruct r; cbn [ref_are_low_bits_nonzero_gen are_low_bits_nonzero]; [apply are_dword_low_bits_nonzero_gen_ok; exact Hn|reflexivity]. Qed.

Theorem ref_bit_gen_ok r n : 0 <= n -> ref_bit_gen w uw r n = repr_bit w r n.
Proof.
  intros Hn. destruct r as [d|ws]; cbn [ref_bit_gen repr_bit].
  - destruct (Z.ltb_spec n (2 * w)); [rewrite dword_shl_one by lia|]; reflexivity.
  - unfold bit_large. rewrite word_shl_one_modw, land_pow2_testbit by apply modw_range.
    destruct (n / w <? len ws); reflexivity.
Qed.

(** the leading_zeros counts are cast to usize: in range for a magnitude that satisfies the representation invariant *)
Theorem ref_bit_len_gen_ok r : brepr_ok w r -> ref_bit_len_gen w uw r = repr_bit_len w r.
Proof.
  intros Hr. destruct r as [d|ws]; cbn [ref_bit_len_gen repr_bit_len brepr_ok] in *.
  - apply cast_usize_small. destruct (Z.eq_dec d 0) as [->|N].
    + unfold dword_lz, bit_len_spec. rewrite Z.eqb_refl. lia.
    + pose proof (dword_lz_range d ltac:(lia)). lia.
  - destruct Hr as (Hwf & L & Hl). f_equal. apply cast_usize_small.
    assert (R : 0 < last ws 0 < B).
    { assert (In (last ws 0) ws).
      { assert (Hne : ws <> []) by (destruct ws; [cbn in L; lia|discriminate]).
        destruct (exists_last Hne) as [a [x E]]. rewrite E, last_last. apply in_or_app. right. left. reflexivity. }
      pose proof (proj1 (Forall_forall _ _) Hwf _ H) as X. cbv beta in X. lia. }
    assert (R2 : 0 < last ws 0 < B * B).
    { pose proof B_pos as HB. assert (B * 1 <= B * B) by (apply Z.mul_le_mono_nonneg_l; lia). lia. }
    destruct (dword_bit_len _ R2) as [[L1 _] U]. unfold word_lz.
    assert (bit_len_spec (last ws 0) <= w).
    { destruct (Z_lt_le_dec w (bit_len_spec (last ws 0))) as [G|G]; [|exact G]. exfalso.
      pose proof (bit_len_spec_ok (last ws 0) ltac:(lia)) as [Lo _]. rewrite Z.abs_eq in Lo by lia.
      assert (2 ^ w <= 2 ^ (bit_len_spec (last ws 0) - 1)) by (apply Z.pow_le_mono_r; lia).
      unfold Words.B in R. lia. }
    lia.
Qed.

(* ------------------------------------------------------------------ repr.rs *)
Theorem repr_ones_gen_ok n : 0 <= n -> repr_ones_gen w uw n = repr_ones w n.
Proof.
  intros Hn. unfold repr_ones_gen, repr_ones. destruct (Z.ltb_spec n w); [rewrite cast_u32_small by lia; reflexivity|].
  destruct (Z.leb_spec n (2 * w)).
  - unfold cast_u32. rewrite Z.mod_small by lia. reflexivity.
  - rewrite cast_u32_modw. cbn [app]. rewrite Z.gtb_ltb. destruct (0 <? n mod w); [|rewrite app_nil_r]; reflexivity.
Qed.

End BodiesGen.

(** grouped statements for the pins *)
Definition widths_ok (w uw : Z) : Prop := 0 < w /\ 2 * w < 2 ^ 32 /\ 2 * w < 2 ^ uw.

Theorem gen_shl_bodies w uw : widths_ok w uw ->
  (forall rhs, shl_one_spilled_gen w uw rhs = shl_one_spilled w rhs) /\
  (forall d rhs, shl_dword_spilled_gen w uw d rhs = shl_dword_spilled w d rhs) /\
  (forall d rhs, 0 < d < B w * B w -> 0 <= rhs -> shl_dword_gen w uw d rhs = shl_dword w d rhs) /\
  (forall ws rhs, shl_large_ref_gen w uw ws rhs = shl_large_ref w ws rhs) /\
  (forall cap buf rhs, shl_large_gen w uw cap buf rhs = shl_large w (negb (cap <? len buf + rhs / w + 1)) buf rhs).
Proof.
  intros (Hw & H32 & Huw). repeat apply conj.
  - apply shl_one_spilled_gen_ok; assumption.
  - apply shl_dword_spilled_gen_ok; assumption.
  - apply shl_dword_gen_ok; assumption.
  - apply shl_large_ref_gen_ok; assumption.
  - apply shl_large_gen_ok; assumption.
Qed.

Theorem gen_shr_bodies w uw : widths_ok w uw ->
  (forall d rhs, 0 <= rhs -> shr_dword_gen w uw d rhs = shr_dword w d rhs) /\
  (forall buf rhs, shr_large_gen w uw buf rhs = shr_large w buf rhs) /\
  (forall ws rhs, shr_large_ref_gen w uw ws rhs = shr_large_ref w ws rhs).
Proof.
  intros (Hw & H32 & Huw). repeat apply conj.
  - apply shr_dword_gen_ok; assumption.
  - apply shr_large_gen_ok; assumption.
  - apply shr_large_ref_gen_ok; assumption.
Qed.

Theorem gen_bit_bodies w uw : widths_ok w uw ->
  (forall d n, with_bit_dword_spilled_gen w uw d n = with_bit_dword_spilled w d n) /\
  (forall buf n, with_bit_large_gen w uw buf n = with_bit_large w buf n) /\
  (forall buf n, clear_high_bits_large_gen w uw buf n = clear_high_bits_large w buf n) /\
  (forall r n, 0 <= n -> typed_set_bit_gen w uw r n = repr_set_bit w r n) /\
  (forall r n, 0 <= n -> typed_clear_bit_gen w uw r n = repr_clear_bit w r n) /\
  (forall r n, 0 <= n -> typed_clear_high_bits_gen w uw r n = repr_clear_high_bits w r n) /\
  (forall r n, 0 <= n -> typed_split_bits_gen w uw r n = repr_split_bits w r n).
Proof.
  intros (Hw & H32 & Huw). repeat apply conj.
  - apply with_bit_dword_spilled_gen_ok; assumption.
  - apply with_bit_large_gen_ok; assumption.
  - apply clear_high_bits_large_gen_ok; assumption.
  - apply typed_set_bit_gen_ok; assumption.
  - apply typed_clear_bit_gen_ok; assumption.
  - apply typed_clear_high_bits_gen_ok; assumption.
  - apply typed_split_bits_gen_ok; assumption.
Qed.

Theorem gen_npt_ones_bodies w uw : widths_ok w uw ->
  (forall ws, ws <> [] -> next_power_of_two_large_gen w uw ws = next_power_of_two_large w ws) /\
  (forall r, brepr_ok w r -> typed_next_power_of_two_gen w uw r = repr_next_power_of_two w r) /\
  (forall n, 0 <= n -> repr_ones_gen w uw n = repr_ones w n).
Proof.
  intros (Hw & H32 & Huw). repeat apply conj.
  - apply next_power_of_two_large_gen_ok.
  - apply typed_next_power_of_two_gen_ok.
  - apply repr_ones_gen_ok; assumption.
Qed.

Theorem gen_ref_bodies w uw : widths_ok w uw ->
  (forall r n, 0 <= n -> ref_bit_gen w uw r n = repr_bit w r n) /\
  (forall r, brepr_ok w r -> ref_bit_len_gen w uw r = repr_bit_len w r) /\
  (forall d n, 0 <= n -> are_dword_low_bits_nonzero_gen w uw d n = dword_low_bits_nonzero w d n) /\
  (forall r n, 0 <= n -> ref_are_low_bits_nonzero_gen w uw r n = are_low_bits_nonzero w r n).
Proof.
  intros (Hw & H32 & Huw). repeat apply conj.
  - apply ref_bit_gen_ok; assumption.
  - apply ref_bit_len_gen_ok; assumption.
  - apply are_dword_low_bits_nonzero_gen_ok; assumption.
  - apply ref_are_low_bits_nonzero_gen_ok; assumption.
Qed.

(** non-vacuity: the two builds of the run (64-bit words / usize, 32-bit words with a 64-bit usize) and a 16-bit instance *)
Example widths_ok_64 : widths_ok 64 64. Proof. unfold widths_ok. cbn. lia. Qed.
Example widths_ok_32 : widths_ok 32 64. Proof. unfold widths_ok. cbn. lia. Qed.
Example widths_ok_16 : widths_ok 16 16. Proof. unfold widths_ok. cbn. lia. Qed.
Example shl_dword_gen_ok_nonvacuous : 0 < 5 < B 64 * B 64 /\ 0 <= 200. Proof. unfold B. cbn. lia. Qed.

(** the cast matters: with the shift count of shr_dword truncated to 32 bits (the seeded change of round 4,
    `dword.checked_shr(rhs as u32).unwrap_or(0)`) the body is a DIFFERENT function: at rhs = 2^32 it returns the operand *)
Definition shr_dword_trunc32 (w d rhs : Z) : brepr :=
  from_dword (match dword_checked_shr w d (cast_u32 rhs) with Some r => r | None => 0 end).
Theorem shr_dword_trunc32_refuted : shr_dword_trunc32 64 5 (2 ^ 32) <> shr_dword 64 5 (2 ^ 32).
Proof. vm_compute. discriminate. Qed.
