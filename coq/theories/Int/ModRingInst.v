(** C13 - the 64-bit instance of the as-is model that the oracle runs, and the composite runs
    (build the ring, reduce the operands, operate, read the residue) that mirror the harness ops. *)
From Dashu Require Import Base.Prelude Int.ModRingSpec Int.ModRingPowModel Int.ModRingModel.
Open Scope Z_scope.

Definition W64 : Z := 64.

Definition i_new := new_ring W64.
Definition i_reduce := reduce_asis W64 ex_2by1 ex_3by2.
Definition i_neg := neg_asis.
Definition i_add := add_asis W64.
Definition i_sub := sub_asis W64.
Definition i_dbl := dbl_asis W64.
Definition i_mul := mul_asis W64 ex_2by1 ex_3by2.
Definition i_sqr := sqr_asis W64 ex_2by1 ex_3by2.
Definition i_pow := pow_asis W64 ex_2by1 ex_3by2.
Definition i_pow_prefix := pow_asis_prefix W64 ex_2by1 ex_3by2.
Definition i_inv := inv_asis W64 ex_invm ex_gcd_ext.
Definition i_div := div_asis W64 ex_2by1 ex_3by2 ex_invm ex_gcd_ext.
Definition i_eq := eq_asis.
Definition i_residue := residue_asis.

Inductive binop := OAdd | OSub | OMul | ODiv.
Inductive unop := ONeg | ODbl | OSqr.

Definition i_bin (o : binop) : reduced -> reduced -> result reduced :=
  match o with OAdd => i_add | OSub => i_sub | OMul => i_mul | ODiv => i_div end.
Definition i_un (o : unop) : reduced -> result reduced :=
  match o with ONeg => i_neg | ODbl => i_dbl | OSqr => i_sqr end.

Definition bin_spec (o : binop) (m a b : Z) : result Z :=
  match o with
  | OAdd => Ok (add_spec m a b) | OSub => Ok (sub_spec m a b) | OMul => Ok (mul_spec m a b)
  | ODiv => div_spec m a b
  end.
Definition un_spec (o : unop) (m a : Z) : Z :=
  match o with ONeg => neg_spec m a | ODbl => dbl_spec m a | OSqr => sqr_spec m a end.

(** composite runs of the as-is model *)
Definition run_reduce (m a : Z) : result (Z * Z) :=
  rbind (i_new 0 m) (fun r => rbind (i_reduce r a) (fun x =>
  rbind (i_residue x) (fun v => Ok (v, modulus_asis x)))).

Definition run_bin (o : binop) (id1 id2 m1 m2 a b : Z) : result Z :=
  rbind (i_new id1 m1) (fun r1 => rbind (i_new id2 m2) (fun r2 =>
  rbind (i_reduce r1 a) (fun x => rbind (i_reduce r2 b) (fun y =>
  rbind (i_bin o x y) i_residue)))).

Definition run_un (o : unop) (m a : Z) : result Z :=
  rbind (i_new 0 m) (fun r => rbind (i_reduce r a) (fun x => rbind (i_un o x) i_residue)).

Definition run_pow (m a e : Z) : result Z :=
  rbind (i_new 0 m) (fun r => rbind (i_reduce r a) (fun x => rbind (i_pow x e) i_residue)).

Definition run_pow_prefix (m a e : Z) : result Z :=
  rbind (i_new 0 m) (fun r => rbind (i_reduce r a) (fun x => rbind (i_pow_prefix x e) i_residue)).

Definition run_inv (m a : Z) : result (option Z) :=
  rbind (i_new 0 m) (fun r => rbind (i_reduce r a) (fun x => rbind (i_inv x) (fun o =>
  match o with
  | None => Ok None
  | Some y => rbind (i_residue y) (fun v => Ok (Some v))
  end))).

Definition run_eq (id1 id2 m1 m2 a b : Z) : result bool :=
  rbind (i_new id1 m1) (fun r1 => rbind (i_new id2 m2) (fun r2 =>
  rbind (i_reduce r1 a) (fun x => rbind (i_reduce r2 b) (fun y => i_eq x y)))).

(** the Reducer implementation: results as (residue, check, raw) *)
Definition i_transform := rd_transform W64 ex_2by1 ex_3by2.

Definition rd_out (strict : bool) (r : ring) (t : Z) : Z * bool * Z :=
  (rd_residue r t, rd_check_with W64 strict r t, t).

Inductive rdop := RTransform | RAdd | RSub | RMul | RDbl | RNeg | RSqr | RPow.

Definition run_rd (strict : bool) (o : rdop) (m a b : Z) : result (Z * bool * Z) :=
  rbind (i_new 0 m) (fun r => rbind (i_transform r a) (fun x =>
  match o with
  | RTransform => Ok (rd_out strict r x)
  | RAdd => rbind (i_transform r b) (fun y => rbind (rd_add_with W64 strict r x y) (fun z => Ok (rd_out strict r z)))
  | RSub => rbind (i_transform r b) (fun y => rbind (rd_sub r x y) (fun z => Ok (rd_out strict r z)))
  | RMul => rbind (i_transform r b) (fun y => rbind (rd_mul W64 ex_2by1 ex_3by2 r x y) (fun z => Ok (rd_out strict r z)))
  | RDbl => rbind (rd_dbl_with W64 strict r x) (fun z => Ok (rd_out strict r z))
  | RNeg => rbind (rd_neg r x) (fun z => Ok (rd_out strict r z))
  | RSqr => rbind (rd_sqr W64 ex_2by1 ex_3by2 r x) (fun z => Ok (rd_out strict r z))
  | RPow => rbind (rd_pow W64 ex_2by1 ex_3by2 r x b) (fun z => Ok (rd_out strict r z))
  end)).

Definition run_rd_inv (m a : Z) : result (option (Z * bool * Z)) :=
  rbind (i_new 0 m) (fun r => rbind (i_transform r a) (fun x =>
  rbind (rd_inv W64 ex_invm ex_gcd_ext r x) (fun o =>
  Ok (match o with Some z => Some (rd_out true r z) | None => None end)))).

Definition run_rd_check (strict : bool) (m t : Z) : result bool :=
  rbind (i_new 0 m) (fun r => Ok (rd_check_with W64 strict r t)).

(** what [check] has to answer: t is the pre-shifted form of some residue of the ring *)
Definition rd_check_spec (m t : Z) : result bool :=
  rbind (i_new 0 m) (fun r => Ok ((0 <=? t) && (t mod 2 ^ r_shift r =? 0) && (t / 2 ^ r_shift r <? m))).

Definition run_rd_modulus (m : Z) : result Z := rbind (i_new 0 m) (fun r => Ok (rd_modulus r)).
