(** C01 round 4: the specification against which the correspondence run judges every `wk` case (word_kernel_spec: plain
    integer arithmetic mod B^n with the carry as the quotient) is met by the hand-written models - hence, by
    word_kernel_gen_eq, by the kernels regenerated from the source - for every word size w >= 8, every length and every
    input inside the contract boundary (word_kernel_pre).  Kernel 11 (sub_in_place_with_sign) returns a Sign, its
    contract is stated on its own (magnitude and sign of the difference). *)
From Dashu Require Import Base.Prelude Base.Words Int.RingAdd Int.RingAddProofs Int.RingMul Int.RingMulProofs
  Int.WordKernelSpec.
Open Scope Z_scope.

Section WkSpec.
Variable w : Z.
Hypothesis w_ge : 8 <= w.
Let w_pos : 0 < w. Proof. lia. Qed.
Notation M l := (B w ^ @len Z l).

Lemma pow_len_pos' (l : list Z) : 0 < B w ^ len l.
Proof. apply Z.pow_pos_nonneg; [apply B_pos; lia | unfold len; lia]. Qed.

(** r + c * M = v with 0 <= r < M determines r and c *)
Lemma upd_div_mod ws r c v : length r = length ws -> wf w r -> value w r + c * M ws = v ->
  value w r = v mod M ws /\ c = v / M ws.
Proof.
  intros L Hr E. pose proof (value_bounds w w_pos r Hr) as Hb. pose proof (pow_len_pos' ws) as HM.
  replace (len r) with (len ws) in Hb by (unfold len; now rewrite L).
  split.
  - apply (Z.mod_unique_pos v (M ws) c (value w r)); lia.
  - apply (Z.div_unique_pos v (M ws) c (value w r)); lia.
Qed.

Lemma b2z_abs c : Z.abs (b2z c) = b2z c /\ Z.abs (- b2z c) = b2z c.
Proof. destruct c; cbn; lia. Qed.

Ltac flag_pos H :=
  let LL := fresh "LL" in let HWL := fresh "HWL" in let VV := fresh "VV" in let E1 := fresh "E1" in let E2 := fresh "E2" in
  destruct H as (LL & HWL & VV); split; [exact LL | split; [exact HWL|]];
  match type of VV with value w ?r + ?c * _ = ?v =>
    destruct (upd_div_mod _ r c v LL HWL VV) as [E1 E2]; unfold wk_flag;
    match goal with |- _ = (?X mod _, _, _) => replace X with v by lia end; rewrite E1, <- E2;
    first [ rewrite (proj1 (b2z_abs _)) | rewrite (proj2 (b2z_abs _)) ]; reflexivity end.

Theorem word_kernel_hand_meets_spec which lhs rhs x sx : 0 <= which <= 19 -> which <> 11 ->
  word_kernel_pre w which lhs rhs x sx ->
  let '(l, (m, neg)) := word_kernel_hand w which lhs rhs x sx in
  length l = length lhs /\ wf w l /\
  (value w l, m, neg) = word_kernel_spec w which (len lhs) (value w lhs) (value w rhs) x sx.
Proof.
  intros Hrange H11 (Hl & Hr & Hx & Hsx & Hp).
  assert (HB : 0 < B w) by (apply B_pos; lia).
  assert (Hx0 : 0 <= x mod B w < B w) by (apply Z.mod_pos_bound; lia).
  assert (Hx1 : 0 <= x / B w < B w) by (split; [apply Z.div_pos; lia | apply Z.div_lt_upper_bound; lia]).
  assert (C : which = 0 \/ which = 1 \/ which = 2 \/ which = 3 \/ which = 4 \/ which = 5 \/ which = 6 \/ which = 7 \/ which = 8 \/
              which = 9 \/ which = 10 \/ which = 12 \/ which = 13 \/ which = 14 \/ which = 15 \/ which = 16 \/ which = 17 \/
              which = 18 \/ which = 19) by lia.
  clear Hrange H11.
  repeat (destruct C as [C|C]; [subst which; cbv beta iota zeta delta [word_kernel_hand word_kernel_spec] | ]); try subst which;
    cbv beta iota zeta delta [word_kernel_hand word_kernel_spec].
  - (* add_one *) destruct (add_one_in_place w lhs) as [l r] eqn:E.
    pose proof (add_one_in_place_spec w w_pos lhs Hl l r E) as H. flag_pos H.
  - destruct (sub_one_in_place w lhs) as [l r] eqn:E.
    pose proof (sub_one_in_place_spec w w_pos lhs Hl l r E) as H. flag_pos H.
  - destruct (add_word_in_place w lhs (x mod B w)) as [l r] eqn:E.
    pose proof (add_word_in_place_spec w w_pos lhs _ Hl Hp Hx0 l r E) as H. flag_pos H.
  - destruct (sub_word_in_place w lhs (x mod B w)) as [l r] eqn:E.
    pose proof (sub_word_in_place_spec w w_pos lhs _ Hl Hp Hx0 l r E) as H. flag_pos H.
  - destruct lhs as [|x0 [|x1 t]]; cbn [length] in Hp; try lia.
    destruct (add_dword_in_place w (x0 :: x1 :: t) x) as [l r] eqn:E.
    pose proof (add_dword_in_place_spec w w_pos x0 x1 t x Hl Hx l r E) as H. flag_pos H.
  - destruct lhs as [|x0 [|x1 t]]; cbn [length] in Hp; try lia.
    destruct (sub_dword_in_place w (x0 :: x1 :: t) x) as [l r] eqn:E.
    pose proof (sub_dword_in_place_spec w w_pos x0 x1 t x Hl Hx l r E) as H. flag_pos H.
  - unfold add_same_len_in_place. destruct (add_same_len w lhs rhs false) as [l r] eqn:E.
    pose proof (add_same_len_spec w w_pos lhs rhs false Hp Hl Hr l r E) as H. cbn [b2z] in H. rewrite Z.add_0_r in H. flag_pos H.
  - unfold sub_same_len_in_place. destruct (sub_same_len w lhs rhs false) as [l r] eqn:E.
    pose proof (sub_same_len_spec w w_pos lhs rhs false Hp Hl Hr l r E) as H. cbn [b2z] in H. rewrite Z.sub_0_r in H. flag_pos H.
  - destruct (add_in_place w lhs rhs) as [l r] eqn:E.
    pose proof (add_in_place_spec w w_pos lhs rhs Hp Hl Hr l r E) as H. flag_pos H.
  - destruct (sub_in_place w lhs rhs) as [l r] eqn:E.
    pose proof (sub_in_place_spec w w_pos lhs rhs Hp Hl Hr l r E) as H. flag_pos H.
  - (* swap: lhs := rhs - lhs *) unfold sub_same_len_in_place_swap. destruct (sub_same_len_swap w rhs lhs false) as [l r] eqn:E.
    pose proof (sub_same_len_swap_spec w w_pos rhs lhs false (eq_sym Hp) Hr Hl l r E) as (L & Hwl & V).
    cbn [b2z] in V. rewrite Z.sub_0_r in V. split; [exact L | split; [exact Hwl|]].
    assert (V' : value w l + - b2z r * M lhs = value w rhs - value w lhs) by lia.
    destruct (upd_div_mod lhs l _ _ L Hwl V') as [E1 E2]. unfold wk_flag. rewrite E1, <- E2, (proj2 (b2z_abs _)). reflexivity.
  - (* add_signed_word *) destruct (add_signed_word_in_place w lhs sx) as [l r] eqn:E.
    pose proof (add_signed_word_in_place_spec w w_pos lhs sx Hl ltac:(lia) l r E) as ((L & Hwl & V) & _ & _).
    split; [exact L | split; [exact Hwl|]].
    destruct (upd_div_mod lhs l _ _ L Hwl V) as [E1 E2]. unfold wk_signed. rewrite E1, <- E2. reflexivity.
  - unfold wk_sign_of. destruct (sx <? 0).
    + destruct (add_signed_same_len_in_place w lhs Negative rhs) as [l r] eqn:E.
      pose proof (add_signed_same_len_in_place_spec w w_pos lhs _ rhs Hp Hl Hr l r E) as ((L & Hwl & V) & _).
      split; [exact L | split; [exact Hwl|]]. cbn [sgnz] in V.
      assert (V' : value w l + r * M lhs = value w lhs - value w rhs) by lia.
      destruct (upd_div_mod lhs l _ _ L Hwl V') as [E1 E2]. unfold wk_signed. rewrite E1, <- E2. reflexivity.
    + destruct (add_signed_same_len_in_place w lhs Positive rhs) as [l r] eqn:E.
      pose proof (add_signed_same_len_in_place_spec w w_pos lhs _ rhs Hp Hl Hr l r E) as ((L & Hwl & V) & _).
      split; [exact L | split; [exact Hwl|]]. cbn [sgnz] in V.
      assert (V' : value w l + r * M lhs = value w lhs + value w rhs) by lia.
      destruct (upd_div_mod lhs l _ _ L Hwl V') as [E1 E2]. unfold wk_signed. rewrite E1, <- E2. reflexivity.
  - unfold wk_sign_of. destruct (sx <? 0).
    + destruct (add_signed_in_place w lhs Negative rhs) as [l r] eqn:E.
      pose proof (add_signed_in_place_spec w w_pos lhs _ rhs Hp Hl Hr l r E) as ((L & Hwl & V) & _).
      split; [exact L | split; [exact Hwl|]]. cbn [sgnz] in V.
      assert (V' : value w l + r * M lhs = value w lhs - value w rhs) by lia.
      destruct (upd_div_mod lhs l _ _ L Hwl V') as [E1 E2]. unfold wk_signed. rewrite E1, <- E2. reflexivity.
    + destruct (add_signed_in_place w lhs Positive rhs) as [l r] eqn:E.
      pose proof (add_signed_in_place_spec w w_pos lhs _ rhs Hp Hl Hr l r E) as ((L & Hwl & V) & _).
      split; [exact L | split; [exact Hwl|]]. cbn [sgnz] in V.
      assert (V' : value w l + r * M lhs = value w lhs + value w rhs) by lia.
      destruct (upd_div_mod lhs l _ _ L Hwl V') as [E1 E2]. unfold wk_signed. rewrite E1, <- E2. reflexivity.
  - (* mul_word_in_place_with_carry *) unfold mul_word_in_place_with_carry.
    destruct (Z.eqb_spec (x mod B w) 0) as [E0|NE]; [cbv beta iota in Hp; lia|].
    destruct (mul_word_loop w lhs (x mod B w) (x / B w)) as [l r] eqn:E.
    pose proof (mul_word_loop_spec w w_ge lhs _ _ Hl Hx0 Hx1 l r E) as (L & Hwl & Hc & V).
    split; [exact L | split; [exact Hwl|]].
    destruct (upd_div_mod lhs l _ _ L Hwl V) as [E1 E2]. rewrite E1, <- E2. rewrite Z.abs_eq by lia. reflexivity.
  - destruct (mul_word_in_place w lhs (x mod B w)) as [l r] eqn:E.
    assert (Hm : 0 < x mod B w < B w) by (cbv beta iota in Hp; lia).
    pose proof (mul_word_in_place_spec w w_ge lhs (x mod B w) Hl Hm l r E) as (L & Hwl & Hc & V).
    split; [exact L | split; [exact Hwl|]].
    destruct (upd_div_mod lhs l _ _ L Hwl V) as [E1 E2]. rewrite E1, <- E2. rewrite Z.abs_eq by lia. reflexivity.
  - destruct (mul_dword_in_place w lhs x) as [l r] eqn:E.
    pose proof (mul_dword_in_place_spec w w_ge lhs _ Hl Hx l r E) as (L & Hwl & Hc & V).
    split; [exact L | split; [exact Hwl|]].
    destruct (upd_div_mod lhs l _ _ L Hwl V) as [E1 E2]. rewrite E1, <- E2. rewrite Z.abs_eq by lia. reflexivity.
  - destruct (add_mul_word_same_len_in_place w lhs (x mod B w) rhs) as [l r] eqn:E.
    pose proof (add_mul_word_same_len_spec w w_ge lhs _ rhs Hp Hl Hr Hx0 l r E) as (L & Hwl & Hc & V).
    split; [exact L | split; [exact Hwl|]].
    destruct (upd_div_mod lhs l _ _ L Hwl V) as [E1 E2]. rewrite E1, <- E2. rewrite Z.abs_eq by lia. reflexivity.
  - destruct (sub_mul_word_same_len_in_place w lhs (x mod B w) rhs) as [l r] eqn:E.
    pose proof (sub_mul_word_same_len_spec w w_ge lhs _ rhs Hp Hl Hr Hx0 l r E) as (L & Hwl & Hc & V).
    split; [exact L | split; [exact Hwl|]].
    assert (V' : value w l + - r * M lhs = value w lhs - x mod B w * value w rhs) by lia.
    destruct (upd_div_mod lhs l _ _ L Hwl V') as [E1 E2]. rewrite E1, <- E2. rewrite Z.abs_opp, Z.abs_eq by lia. reflexivity.
Qed.
End WkSpec.
