(** C12 - the std-feature [EstimatedLog2::log2_bounds] (libm [f32::log2]): MODEL (definitions only).

    Values of [f32] variables are real numbers in the binary32 format (Flocq: [generic_format radix2
    (FLT_exp (-149) 24)]); every arithmetic operation rounds to nearest even.  +-infinity only occurs
    for a zero input (returned before any arithmetic) and is not modelled; overflow cannot occur
    (all intermediate values are below 2^70, see the remarks at the definitions).

    The libm routine is a Section variable [flog2]; what is assumed about it is stated as named
    hypotheses in GrlLog2StdProof.v (never here).

    Also here: executable bit-level [next_up] / [next_down] on IEEE bit patterns (Z), which the
    proof file ties to Flocq's [succ] / [pred]. *)
From Coq Require Import ZArith Reals.
From Flocq Require Import Core.
From Dashu Require Import Base.Prelude Int.GrlSpec Int.GrlLog2Real.

(** * binary32 arithmetic over R *)
Definition fexp32 : Z -> Z := FLT_exp (-149) 24.
Definition format32 (x : R) : Prop := generic_format radix2 fexp32 x.
Definition rnd32 (x : R) : R := round radix2 fexp32 ZnearestE x.
Definition ulp32 (x : R) : R := ulp radix2 fexp32 x.

Definition fadd (x y : R) : R := rnd32 (x + y).
Definition fsub (x y : R) : R := rnd32 (x - y).
Definition fmul (x y : R) : R := rnd32 (x * y).
(** [z as f32] for an integer type (usize / isize / u128 / u32) *)
Definition of_int (z : Z) : R := rnd32 (IZR z).
(** base/src/math/log.rs:98-136 [next_up] / [next_down] on finite values
    (the bit-level definition is [next_up_bits] / [next_down_bits] below) *)
Definition next_up (x : R) : R := succ radix2 fexp32 x.
Definition next_down (x : R) : R := pred radix2 fexp32 x.

(** * bit-level next_up / next_down (base/src/math/log.rs:98-136), executable *)
Definition f32_abs_bits (bits : Z) : Z := bits mod 2 ^ 31.
Definition next_up_bits (bits : Z) : Z :=
  let abs := f32_abs_bits bits in
  if abs =? 0 then 1 (* TINY_BITS *)
  else if bits =? abs then bits + 1 else bits - 1.
Definition next_down_bits (bits : Z) : Z :=
  let abs := f32_abs_bits bits in
  if abs =? 0 then 2 ^ 31 + 1 (* NEG_TINY_BITS *)
  else if bits =? abs then bits - 1 else bits + 1.

(** the real value of a finite bit pattern (through [GrlSpec.f32_decode]); 0 for nan / inf *)
Definition f32_real (bits : Z) : R :=
  match f32_decode bits with
  | FFin m e => IZR m * bpow radix2 e
  | _ => 0%R
  end.
Definition f32_finite (bits : Z) : bool :=
  (0 <=? bits)%Z && (bits <? 2 ^ 32)%Z && negb ((bits / 2 ^ 23) mod 256 =? 255)%Z.

(** * integer helpers *)
Definition nbits (n : Z) : Z := Z.log2 n + 1.                  (* BITS - leading_zeros, n > 0 *)
Definition is_pow2 (n : Z) : bool := (n =? 2 ^ Z.log2 n)%Z.    (* is_power_of_two, n > 0 *)

Section Std.
  (** libm's [f32::log2] on positive finite arguments *)
  Variable flog2 : R -> R.

  (** base/src/math/log.rs:224-259, std [impl_log2_bounds_for_uint] for u8..u128/usize, n > 0
      (n = 0 returns (-inf, -inf) before anything else):
      - power of two: [trailing_zeros as f32] twice;
      - nbits <= 24: [log = (n as f32).log2()], (next_down log, next_up log);
      - else shifted = (n >> (nbits - 24)) as f32, est_lb = shifted.log2(),
        est_ub = (shifted + 1.).log2(), shift = (nbits - 24) as f32,
        (next_down (est_lb + shift), next_up (est_ub + shift)). *)
  Definition std_log2_uint (n : Z) : R * R :=
    if is_pow2 n then (of_int (Z.log2 n), of_int (Z.log2 n))
    else if (nbits n <=? 24)%Z then
      let log := flog2 (of_int n) in (next_down log, next_up log)
    else
      let sh := (nbits n - 24)%Z in
      let shifted := of_int (Z.shiftr n sh) in
      let est_lb := flog2 shifted in
      let est_ub := flog2 (fadd shifted 1) in
      let shift := of_int sh in
      (next_down (fadd est_lb shift), next_up (fadd est_ub shift)).

  (** integer/src/log.rs:267-280 [log2_bounds_large], for a magnitude [n] stored in [len] words of
      [wb] bits: hi = highest double word = n / 2^rem_bits, rem_bits = (len - 2) * WORD_BITS,
      ADJUST = 2 * f32::EPSILON = 2^-22; [1. - ADJUST] and [1. + ADJUST] are f32 operations
      (exact), [rem_bits as f32] rounds above 2^24.
      rem_bits < 2^64 so nothing overflows in f32. *)
  Definition adjust32 : R := fmul 2 (bpow radix2 (-23)).
  Definition std_log2_large (wb n len : Z) : R * R :=
    let rem_bits := ((len - 2) * wb)%Z in
    let hi := (n / 2 ^ rem_bits)%Z in
    let '(hi_lb, hi_ub) := std_log2_uint hi in
    let r := of_int rem_bits in
    (fmul (fadd hi_lb r) (fsub 1 adjust32), fmul (fadd hi_ub r) (fadd 1 adjust32)).

  (** number of words of a positive magnitude *)
  Definition word_len (wb n : Z) : Z := Z.log2 n / wb + 1.

  (** integer/src/log.rs:140-145 [TypedReprRef::log2_bounds]: RefSmall (at most a double word) ->
      the primitive routine on the double word, RefLarge -> log2_bounds_large.  n > 0. *)
  Definition std_log2_ubig (wb n : Z) : R * R :=
    if (n <? 2 ^ (2 * wb))%Z then std_log2_uint n else std_log2_large wb n (word_len wb n).

  (** float/src/log.rs:17-39 [Repr<B>::log2_bounds], significand s <> 0 (IBig: the bounds of the
      magnitude), exponent e (isize), base B (a Word).  For B a power of two the source takes
      [B.trailing_zeros() as f32] twice, which is what [std_log2_uint B] returns in that case. *)
  Definition std_log2_repr (wb B s e : Z) : R * R :=
    let '(logs_lb, logs_ub) := std_log2_ubig wb (Z.abs s) in
    let '(logb_lb, logb_ub) := std_log2_uint B in
    let ef := of_int e in
    let '(lb, ub) :=
      if (0 <=? e)%Z then (fadd logs_lb (fmul ef logb_lb), fadd logs_ub (fmul ef logb_ub))
      else (fadd logs_lb (fmul ef logb_ub), fadd logs_ub (fmul ef logb_lb)) in
    (next_down lb, next_up ub).

  (** rational/src/repr.rs:134-143 [Repr::log2_bounds] (numerator <> 0, denominator > 0),
      as repaired by 9b4fb4f *)
  Definition std_log2_ratio (wb num den : Z) : R * R :=
    let '(n_lb, n_ub) := std_log2_ubig wb (Z.abs num) in
    let '(d_lb, d_ub) := std_log2_ubig wb den in
    (next_down (fsub n_lb d_ub), next_up (fsub n_ub d_lb)).

  (** the same before 9b4fb4f: no widening *)
  Definition std_log2_ratio_old (wb num den : Z) : R * R :=
    let '(n_lb, n_ub) := std_log2_ubig wb (Z.abs num) in
    let '(d_lb, d_ub) := std_log2_ubig wb den in
    (fsub n_lb d_ub, fsub n_ub d_lb).
End Std.

(** the enclosure statement *)
Definition encloses (b : R * R) (x : R) : Prop := (fst b <= log2R x /\ log2R x <= snd b)%R.

(** a correctly rounded log2 (one admissible libm) *)
Definition flog2_cr (x : R) : R := rnd32 (log2R x).
