(** C17 (round 5) - proofs for StorageOps5.v: the parser of texts of ANY length (word / chunk / divide and conquer) fails
    no guard - no checked word operation of parse_word overflows, every debug_assert holds, `bytes.len() - 1` and the
    shift amounts are in range, `chunk_bytes << k` never wraps, split_at is inside the slice -, every estimated buffer holds
    what is pushed into it, every intermediate value (the radix powers, the partial results) is freed exactly once, also
    on the error exits; lifted to the machine step and to all finite histories.
    Premises on the text: its digits are digits of the radix, radix^digits_per_word fits a word, and the slice is shorter
    than 2^(w-1) bytes (isize::MAX, what every Rust slice satisfies). *)
From Dashu Require Import Base.Prelude Base.Words Int.StorageModel Int.StorageProofs Int.StorageArith Int.StorageHistory
  Int.StorageOps2 Int.StorageOps2Proofs Int.StorageOps3 Int.StorageOps3Proofs Int.StorageOps3Bits Int.StorageOps3Sqrt
  Int.StorageOps3History Int.StorageOps5.
From DashuGen Require Import StorageGen StorageGen4 StorageGen5.
From Coq Require Import Permutation.
Open Scope Z_scope.

Definition digit_ok (radix : Z) (o : option Z) : Prop := match o with Some d => 0 <= d < radix | None => True end.
Definition digits_ok (radix : Z) (bs : list (option Z)) : Prop := Forall (digit_ok radix) bs.

Lemma len_firstn_le {A} k (l : list A) : len (firstn k l) <= Z.of_nat k /\ len (firstn k l) <= len l.
Proof. unfold len. pose proof (firstn_le_length k l). rewrite firstn_length. lia. Qed.
Lemma len_firstn_eq {A} k (l : list A) : Z.of_nat k <= len l -> len (firstn k l) = Z.of_nat k.
Proof. unfold len. intros H. rewrite firstn_length. lia. Qed.
Lemma len_skipn_eq {A} k (l : list A) : Z.of_nat k <= len l -> len (skipn k l) = len l - Z.of_nat k.
Proof. unfold len. intros H. rewrite skipn_length. lia. Qed.
Lemma digits_ok_split radix k bs : digits_ok radix bs -> digits_ok radix (firstn k bs) /\ digits_ok radix (skipn k bs).
Proof. unfold digits_ok. intros H. rewrite <- (firstn_skipn k bs) in H. apply Forall_app in H. exact H. Qed.

Section Ops5Proofs.
Variable w : Z.
Variable M : Z.
Hypothesis w_big : 2 <= w.
Hypothesis M_big : 8 <= M.
Variable gk : list Z -> list Z -> Z * bool.
Hypothesis gk_ok : forall l r, 0 <= fst (gk l r) <= len (if snd (gk l r) then r else l).
Variable jv : list Z -> Z.

Let w_pos : 0 < w. Proof. lia. Qed.

Notation ReprInv := (ReprInv M).
Notation TargInv := (TargInv M).
Notation StateInv := (StateInv M).
Notation Bw := (Bw w).
Notation RQ := (RQ M).
Notation OptQ := (OptQ M).

Variable radix dpw : Z.
Hypothesis radix_big : 2 <= radix.
Hypothesis dpw_pos : 1 <= dpw.
Hypothesis range_fits : radix ^ dpw < Bw.

(* ------------------------------------------------------------------ parse_word: no checked operation overflows *)
Lemma parse_word_loop_safe bs : forall word k m,
  digits_ok radix bs -> 0 <= k -> 0 <= word < radix ^ k -> k + len bs <= dpw ->
  safe (parse_word_loop w radix bs word) m (fun _ m' => m' = m).
Proof.
  induction bs as [|[d|] r IH]; intros word k m Hd Hk Hw Hl; cbn [parse_word_loop].
  - apply safe_ret. reflexivity.
  - rewrite len_cons in Hl. pose proof (len_nonneg r) as L0. inversion Hd as [|? ? Hd1 Hdr]; subst. cbn [digit_ok] in Hd1.
    assert (radix ^ (k + 1) = radix ^ k * radix) as E by (rewrite Z.pow_add_r by lia; rewrite Z.pow_1_r; reflexivity).
    assert (word * radix + d < radix ^ (k + 1)) as Hlt by (rewrite E; clear - Hw Hd1 radix_big; nia).
    assert (radix ^ (k + 1) <= radix ^ dpw) as Hle by (apply Z.pow_le_mono_r; lia).
    apply safe_bind. apply safe_guard; [apply Z.ltb_lt; lia|].
    apply (IH _ (k + 1)); [exact Hdr | lia | split; [clear - Hw Hd1 radix_big; nia | exact Hlt] | lia].
  - apply safe_ret. reflexivity.
Qed.

Lemma parse_word5_safe bs m :
  digits_ok radix bs -> len bs <= dpw -> safe (parse_word5 w radix dpw bs) m (fun _ m' => m' = m).
Proof.
  intros Hd Hl. unfold parse_word5, gen5_parse_word_pre.
  apply safe_bind. apply safe_guard; [apply Z.leb_le; exact Hl|].
  apply (parse_word_loop_safe bs 0 0); [exact Hd | lia | rewrite Z.pow_0_r; lia | lia].
Qed.

(* ------------------------------------------------------------------ rchunks *)
Lemma groups_msf_ok fuel : forall bs, digits_ok radix bs ->
  Forall (fun g => digits_ok radix g /\ len g <= dpw) (groups_msf fuel dpw bs).
Proof.
  induction fuel as [|f IH]; intros bs Hd; cbn [groups_msf]; [constructor|].
  destruct bs as [|b r]; [constructor|].
  set (k := Z.to_nat _). destruct (digits_ok_split radix k (b :: r) Hd) as [H1 H2].
  constructor; [|apply IH; exact H2]. split; [exact H1|].
  pose proof (len_firstn_le k (b :: r)) as [L1 _].
  assert (Z.of_nat k <= dpw); [|lia]. subst k.
  pose proof (Z.mod_pos_bound (len (b :: r)) dpw ltac:(lia)) as Hm.
  destruct (_ =? 0); lia.
Qed.

Lemma parse_groups_safe gs : forall m,
  Forall (fun g => digits_ok radix g /\ len g <= dpw) gs -> safe (parse_groups w radix dpw gs) m (fun _ m' => m' = m).
Proof.
  induction gs as [|g r IH]; intros m H; cbn [parse_groups].
  - apply safe_ret. reflexivity.
  - inversion H as [|? ? [H1 H2] Hr]; subst.
    apply safe_bind. eapply safe_mono; [apply parse_word5_safe; assumption|]. intros x m' ->.
    apply safe_bind. eapply safe_mono; [apply IH; exact Hr|]. intros xs m' ->. apply safe_ret. reflexivity.
Qed.

(* ------------------------------------------------------------------ parse_chunk *)
Theorem wp_parse_chunk5 rpw bs F m Q :
  Own F m -> digits_ok radix bs -> len bs <= gen5_parse_chunk_len * dpw -> OptQ F Q -> safe (parse_chunk5 w M radix dpw rpw bs) m Q.
Proof.
  intros HO Hd Hl HQ. unfold parse_chunk5, gen5_parse_chunk_pre, gen4_parse_chunk_request.
  apply safe_bind. apply safe_guard; [apply Z.leb_le; exact Hl|].
  apply safe_bind. eapply safe_mono; [apply parse_groups_safe; apply groups_msf_ok; exact Hd|]. intros gs m' ->.
  pose proof (len_nonneg gs) as L0.
  apply safe_bind. eapply (wp_alloc M M_big); [exact HO | lia |]. intros b m1 HO1 E1 E2 HB.
  apply safe_bind. eapply (wp_parse_chunk_loop w M rpw gs b F); [exact HO1 | exact HB | rewrite E1; lnil; lia |].
  intros [b'|] m2 H2.
  - destruct H2 as [HO2 HB2]. apply safe_bind. eapply (wp_fb w M M_big); [exact HO2 | exact HB2 |]. intros r' m3 HO3 HR.
    apply safe_ret. apply HQ. split; assumption.
  - apply safe_ret. apply HQ. exact H2.
Qed.

(* ------------------------------------------------------------------ the radix powers *)
Lemma ref_of_inv r : ReprInv r -> TargInv (ref_of w r) /\ tblks (ref_of w r) = [].
Proof. intros H. unfold ref_of. apply typed_ref_inv. apply ViewInv_view_of. exact H. Qed.

Lemma shiftr_ge_1 a k : 0 <= k -> 1 <= Z.shiftr a k -> 2 ^ k <= a.
Proof.
  intros Hk H. rewrite Z.shiftr_div_pow2 in H by lia. pose proof (Z.pow_pos_nonneg 2 k ltac:(lia) Hk) as Hp.
  pose proof (Z.mul_div_le a (2 ^ k) Hp). nia.
Qed.

Lemma pow2_lt_mono a b : 0 <= a -> 2 ^ a < 2 ^ b -> a < b.
Proof. intros Ha H. destruct (Z_lt_le_dec a b) as [|Hle]; [assumption|]. destruct (Z_lt_le_dec b 0) as [Hb|Hb]; [rewrite (Z.pow_neg_r 2 b Hb) in H; pose proof (Z.pow_pos_nonneg 2 a ltac:(lia) Ha); lia|]. pose proof (Z.pow_le_mono_r 2 b a ltac:(lia) Hle). lia. Qed.

Lemma wp_powers_loop cb blen fuel : forall powers F m (Q : list repr -> mem -> Prop),
  1 <= cb < blen -> blen < 2 ^ (w - 1) ->
  Forall ReprInv powers -> 1 <= len powers < w -> w <= Z.of_nat fuel + len powers -> cb * 2 ^ len powers < Bw ->
  Own (reprs_blks powers ++ F) m ->
  (forall ps m', Forall ReprInv ps -> 1 <= len ps < w -> blen <= cb * 2 ^ len ps -> cb * 2 ^ len ps < Bw ->
                 Own (reprs_blks ps ++ F) m' -> Q ps m') ->
  safe (powers_loop w M fuel cb blen powers) m Q.
Proof.
  induction fuel as [|f IH]; intros powers F m Q Hcb Hbl HI Hk Hf Hw HO HQ;
    (destruct powers as [|prev rest]; [unfold len in Hk; cbn [length] in Hk; lia|]); cbn [powers_loop]; set (ps := prev :: rest) in *;
    (apply safe_bind; [apply safe_guard; [apply Z.leb_le; lia|]]);
    (apply safe_bind; [apply safe_guard; [apply Z.ltb_lt; lia|]]);
    unfold gen5_powers_test; destruct (Z.leb_spec cb (Z.shiftr (blen - 1) (len ps))) as [Ht|Ht].
  - exfalso. pose proof (shiftr_ge_1 (blen - 1) (len ps) ltac:(lia) ltac:(lia)) as H2.
    assert (2 ^ len ps < 2 ^ (w - 1)) as H3 by lia. apply pow2_lt_mono in H3; lia.
  - apply safe_ret. apply HQ; auto.
    rewrite Z.shiftr_div_pow2 in Ht by lia. pose proof (Z.pow_pos_nonneg 2 (len ps) ltac:(lia) ltac:(lia)) as Hp.
    pose proof (Z.mul_succ_div_gt (blen - 1) (2 ^ len ps) Hp). clear - Ht H Hp. nia.
  - pose proof (shiftr_ge_1 (blen - 1) (len ps) ltac:(lia) ltac:(lia)) as H2.
    assert (2 ^ len ps < 2 ^ (w - 1)) as H3 by lia. apply pow2_lt_mono in H3; [|lia].
    assert (ReprInv prev) as Hprev by (exact (Forall_inv HI)). destruct (ref_of_inv prev Hprev) as [T1 T2].
    apply safe_bind. eapply (wp_mul_mag w M M_big (ref_of w prev) (ref_of w prev) (reprs_blks ps ++ F)); [rewrite T2; exact HO | exact T1 | exact T1 |].
    intros nw m1 HO1 HR1.
    assert (len (nw :: ps) = len ps + 1) as EL by (rewrite len_cons; lia).
    assert (cb * 2 ^ (len ps + 1) < Bw) as Hw'.
    { rewrite Z.pow_add_r by lia. rewrite Z.pow_1_r. rewrite Z.shiftr_div_pow2 in Ht by lia.
      pose proof (Z.pow_pos_nonneg 2 (len ps) ltac:(lia) ltac:(lia)) as Hp.
      pose proof (Z.mul_div_le (blen - 1) (2 ^ len ps) Hp) as Hm.
      assert (cb * 2 ^ len ps <= blen - 1) as Hc by (clear - Ht Hm Hp; nia).
      unfold StorageModel.Bw. replace w with ((w - 1) + 1) at 1 by lia. rewrite Z.pow_add_r by lia. rewrite Z.pow_1_r. lia. }
    eapply (IH (nw :: ps) F); [exact Hcb | exact Hbl | constructor; [exact HR1 | exact HI] | rewrite EL; lia | rewrite EL; lia
      | rewrite EL; exact Hw' | change (reprs_blks (nw :: ps)) with (rblks nw ++ reprs_blks ps); rewrite <- app_assoc; exact HO1 | exact HQ].
  - apply safe_ret. apply HQ; auto.
    rewrite Z.shiftr_div_pow2 in Ht by lia. pose proof (Z.pow_pos_nonneg 2 (len ps) ltac:(lia) ltac:(lia)) as Hp.
    pose proof (Z.mul_succ_div_gt (blen - 1) (2 ^ len ps) Hp). clear - Ht H Hp. nia.
Qed.

Lemma wp_drop_reprs5 rs : forall F m (Q : unit -> mem -> Prop),
  Own (reprs_blks rs ++ F) m -> (forall m', Own F m' -> Q tt m') -> safe (drop_reprs5 rs) m Q.
Proof.
  induction rs as [|r rest IH]; intros F m Q HO HQ; cbn [drop_reprs5].
  - apply safe_ret. apply HQ. exact HO.
  - cbn [reprs_blks flat_map] in HO. rewrite <- app_assoc in HO.
    apply safe_bind. eapply wp_repr_drop; [exact HO|]. intros m1 HO1. eapply IH; [exact HO1 | exact HQ].
Qed.

(* ------------------------------------------------------------------ divide and conquer *)
Lemma ushl_exact a k : 0 <= a -> 0 <= k -> a * 2 ^ k < Bw -> ushl w a k = a * 2 ^ k.
Proof.
  intros Ha Hk H. unfold ushl. rewrite Z.shiftl_mul_pow2 by lia. apply Z.mod_small.
  pose proof (Z.pow_pos_nonneg 2 k ltac:(lia) Hk). split; [nia | exact H].
Qed.

Theorem wp_parse_dc rpw cb powers : forall bs F m Q,
  cb = gen5_chunk_bytes dpw ->
  Forall ReprInv powers -> len powers < w -> cb * 2 ^ len powers < Bw ->
  digits_ok radix bs -> len bs <= cb * 2 ^ len powers ->
  Own F m -> OptQ F Q -> safe (parse_dc w M radix dpw rpw cb powers bs) m Q.
Proof.
  induction powers as [|p rest IH]; intros bs F m Q Ecb HI Hk Hw Hd Hl HO HQ; cbn [parse_dc];
    pose proof (len_nonneg bs) as L0;
    assert (1 <= cb) as Hcb1 by (subst cb; unfold gen5_chunk_bytes, gen5_parse_chunk_len; lia).
  - change (len (@nil repr)) with 0 in *. rewrite Z.pow_0_r, Z.mul_1_r in *.
    apply safe_bind. apply safe_guard; [apply Z.ltb_lt; lia|].
    apply safe_bind. apply safe_guard; [unfold gen5_dc_pre; apply Z.leb_le; rewrite Z.shiftl_mul_pow2 by lia; rewrite Z.pow_0_r; lia|].
    apply (wp_parse_chunk5 rpw bs F); auto. subst cb. unfold gen5_chunk_bytes in Hl. exact Hl.
  - pose proof (len_nonneg rest) as L1. rewrite len_cons in *.
    replace (1 + len rest) with (len rest + 1) in * by lia. rewrite Z.pow_add_r in * by lia. rewrite Z.pow_1_r in *.
    pose proof (Z.pow_pos_nonneg 2 (len rest) ltac:(lia) L1) as Hp.
    pose proof (Forall_inv HI) as Hp0. pose proof (Forall_inv_tail HI) as Hrest.
    apply safe_bind. apply safe_guard; [apply Z.ltb_lt; lia|].
    apply safe_bind. apply safe_guard; [unfold gen5_dc_pre; apply Z.leb_le; rewrite Z.shiftl_mul_pow2 by lia; rewrite Z.pow_add_r by lia; rewrite Z.pow_1_r; lia|].
    assert (cb * 2 ^ len rest < Bw) as Hw1 by (clear - Hw Hp Hcb1; nia).
    cbv zeta. rewrite (ushl_exact cb (len rest)) by lia.
    unfold gen5_dc_test, gen5_dc_split. set (lo := cb * 2 ^ len rest) in *.
    destruct (Z.leb_spec (len bs) lo) as [Hs|Hs].
    + apply (IH bs F); [exact Ecb | exact Hrest | lia | exact Hw1 | exact Hd | lia | exact HO | exact HQ].
    + apply safe_bind. apply safe_guard; [apply andb_true_intro; split; apply Z.leb_le; lia|].
      destruct (digits_ok_split radix (Z.to_nat (len bs - lo)) bs Hd) as [Dh Dl].
      assert (Z.of_nat (Z.to_nat (len bs - lo)) <= len bs) as Hc by lia.
      apply safe_bind. eapply (IH _ F); [exact Ecb | exact Hrest | lia | exact Hw1 | exact Dh | rewrite (len_firstn_eq _ _ Hc); lia | exact HO |].
      intros [hi|] m1 H1; [|apply safe_ret; apply HQ; exact H1]. destruct H1 as [HO1 HR1].
      apply safe_bind. eapply (IH _ (rblks hi ++ F)); [exact Ecb | exact Hrest | lia | exact Hw1 | exact Dl | rewrite (len_skipn_eq _ _ Hc); lia | exact HO1 |].
      intros [lw|] m2 H2.
      * destruct H2 as [HO2 HR2]. destruct (typed_inv w M hi HR1) as (Th1 & Th2 & _). destruct (ref_of_inv p Hp0) as [Tp1 Tp2].
        apply safe_bind. eapply (wp_mul_mag w M M_big (typed w hi) (ref_of w p) (rblks lw ++ F)); [| exact Th1 | exact Tp1 |].
        { rewrite Th2, Tp2. cbn [app]. apply Own_swap_app'. exact HO2. }
        intros prod m3 HO3 HR3. destruct (typed_inv w M prod HR3) as (Tq1 & Tq2 & _). destruct (typed_inv w M lw HR2) as (Tl1 & Tl2 & _).
        apply safe_bind. eapply (wp_add_mag w M M_big (typed w prod) (typed w lw) F); [| exact Tq1 | exact Tl1 |].
        { rewrite Tq2, Tl2. exact HO3. }
        intros r m4 HO4 HR4. apply safe_ret. apply HQ. split; assumption.
      * apply safe_bind. eapply wp_repr_drop; [exact H2|]. intros m3 HO3. apply safe_ret. apply HQ. exact HO3.
Qed.

(* ------------------------------------------------------------------ parse_large, parse *)
Theorem wp_parse_large5 rpw bs F m Q :
  Own F m -> digits_ok radix bs -> gen5_chunk_bytes dpw < len bs < 2 ^ (w - 1) -> OptQ F Q ->
  safe (parse_large5 w M radix dpw rpw bs) m Q.
Proof.
  intros HO Hd Hl HQ. unfold parse_large5. cbv zeta. set (cb := gen5_chunk_bytes dpw) in *.
  assert (1 <= cb) as Hcb1 by (subst cb; unfold gen5_chunk_bytes, gen5_parse_chunk_len; lia).
  apply safe_bind. apply safe_guard; [apply Z.ltb_lt; lia|].
  apply safe_bind. eapply (wp_pow_ref w M w_pos M_big (TRefSmall rpw) gen5_first_power_exp F); [exact HO | exact I | unfold gen5_first_power_exp, gen5_parse_chunk_len; lia |].
  intros p0 m1 HO1 HR1.
  assert (2 ^ (w - 1) * 2 = Bw) as EB by (unfold StorageModel.Bw; replace w with ((w - 1) + 1) at 2 by lia; rewrite Z.pow_add_r by lia; rewrite Z.pow_1_r; reflexivity).
  apply safe_bind. eapply (wp_powers_loop cb (len bs) (Z.to_nat w) [p0] F); try exact HO1.
  - lia.
  - lia.
  - constructor; [exact HR1 | constructor].
  - change (len [p0]) with 1. lia.
  - change (len [p0]) with 1. lia.
  - change (len [p0]) with 1. change (2 ^ 1) with 2. lia.
  - cbn [reprs_blks flat_map]. rewrite app_nil_r. exact HO1.
  - intros ps m2 HI Hk Hb Hw HO2.
    apply safe_bind. eapply (wp_parse_dc rpw cb ps bs (reprs_blks ps ++ F)); [reflexivity | exact HI | lia | exact Hw | exact Hd | exact Hb | exact HO2 |].
    intros o m3 H3.
    apply safe_bind. eapply (wp_drop_reprs5 ps (match o with Some r => rblks r ++ F | None => F end)).
    + destruct o as [r|]; [destruct H3 as [H3 _]; apply Own_swap_app'; exact H3 | exact H3].
    + intros m4 HO4. apply safe_ret. apply HQ. destruct o as [r|]; [split; [exact HO4 | exact (proj2 H3)] | exact HO4].
Qed.

Theorem wp_parse5 rpw bs F m Q :
  Own F m -> digits_ok radix bs -> len bs < 2 ^ (w - 1) -> OptQ F Q -> safe (parse5 w M radix dpw rpw bs) m Q.
Proof.
  intros HO Hd Hl HQ. unfold parse5, gen5_parse_word_test, gen5_parse_chunk_test.
  destruct (Z.leb_spec (len bs) dpw) as [H1|H1].
  - apply safe_bind. eapply safe_mono; [apply parse_word5_safe; assumption|]. intros o m' ->.
    apply safe_ret. destruct o; apply HQ; [split; [exact HO | apply ReprInv_from_word] | exact HO].
  - destruct (Z.leb_spec (len bs) (gen5_parse_chunk_len * dpw)) as [H2|H2].
    + apply (wp_parse_chunk5 rpw bs F); assumption.
    + apply (wp_parse_large5 rpw bs F); auto; unfold gen5_chunk_bytes; lia.
Qed.

End Ops5Proofs.

(* ------------------------------------------------------------------ the machine step and all finite histories *)
Section Ops5History.
Variable w : Z.
Variable M : Z.
Hypothesis w_big : 2 <= w.
Hypothesis M_big : 8 <= M.
Variable gk : list Z -> list Z -> Z * bool.
Hypothesis gk_ok : forall l r, 0 <= fst (gk l r) <= len (if snd (gk l r) then r else l).
Variable jv : list Z -> Z.

Notation StateInv := (StateInv M).

Definition op5_ok (n : nat) (o : op5) : Prop :=
  match o with
  | O3 o => op3_ok w M n o
  | OParseL d _ radix dpw _ bs =>
      (d < n)%nat /\ 2 <= radix /\ 1 <= dpw /\ radix ^ dpw < Bw w /\ digits_ok radix bs /\ len bs < 2 ^ (w - 1)
  end.
Definition op5_pre (o : op5) (pool : list repr) : Prop := match o with O3 o => op3_pre w o pool | _ => True end.

Theorem step5_safe o pool m :
  op5_ok (length pool) o -> op5_pre o pool -> StateInv pool m ->
  safe (step5 w M gk jv o pool) m (fun pr m' => StateInv (fst pr) m' /\ length (fst pr) = length pool).
Proof.
  intros Hok Hpre HS. destruct o as [o|d s radix dpw rpw bs]; cbn [op5_ok op5_pre step5] in *.
  - apply step3_safe; assumption.
  - destruct HS as [HI HO]. destruct Hok as (Hd & Hr & Hp & Hf & Hdg & Hl).
    apply safe_bind. eapply (wp_parse5 w M w_big M_big radix dpw Hr Hp Hf rpw bs (blocks pool)); [exact HO | exact Hdg | exact Hl |].
    intros o m1 Ho. apply (wp_store_opt M); auto.
Qed.

Fixpoint pre_along5 (n : nat) (ops : list op5) (pool : list repr) (m : mem) : Prop :=
  match ops with
  | [] => True
  | o :: rest => op5_ok n o /\ op5_pre o pool /\
                 forall pr m', step5 w M gk jv o pool m = Ok (pr, m') -> pre_along5 n rest (fst pr) m'
  end.

Theorem run5_safe ops : forall pool m,
  pre_along5 (length pool) ops pool m -> StateInv pool m ->
  safe (run5 w M gk jv ops pool) m (fun pool' m' => StateInv pool' m' /\ length pool' = length pool).
Proof.
  induction ops as [|o rest IH]; intros pool m Hpre HS; cbn [run5].
  - apply safe_ret. auto.
  - destruct Hpre as (Hok & Hp & Hnext).
    pose proof (step5_safe o pool m Hok Hp HS) as Hstep.
    unfold safe, bind in *. destruct (step5 w M gk jv o pool m) as [[pr m1]| | |] eqn:E; try exact Hstep.
    destruct Hstep as [HS1 HL1]. specialize (Hnext pr m1 eq_refl). rewrite <- HL1 in Hnext.
    specialize (IH (fst pr) m1 Hnext HS1). cbn beta.
    destruct (run5 w M gk jv rest (fst pr) m1) as [[pool' m']| | |]; try exact IH. destruct IH as [H1 H2]. split; [exact H1 | lia].
Qed.

Corollary history5_safe n ops :
  pre_along5 n ops (repeat zero n) mem0 ->
  safe (run5 w M gk jv ops (repeat zero n)) mem0
       (fun pool m => StateInv pool m /\ safe (drop_all pool) m (fun _ m' => forall p, blk m' p = None)).
Proof.
  intros H. eapply safe_mono.
  - apply run5_safe; [rewrite repeat_length; exact H | apply StateInv_init].
  - intros pool m [HS _]. split; [exact HS|]. apply drop_all_safe. exact (proj2 HS).
Qed.

Definition no_sqrt5 (o : op5) : Prop := match o with O3 o => no_sqrt o | _ => True end.

Lemma pre_along5_static n ops : forall pool m,
  length pool = n -> StateInv pool m -> Forall (fun o => op5_ok n o /\ no_sqrt5 o) ops -> pre_along5 n ops pool m.
Proof.
  induction ops as [|o rest IH]; intros pool m Hn HS Hops; cbn [pre_along5]; [exact I|].
  inversion Hops as [|? ? [Ho Hns] Hrest]; subst.
  assert (op5_pre o pool) as Hp by (destruct o as [o|]; [destruct o; cbn in *; tauto | exact I]).
  split; [exact Ho|]. split; [exact Hp|].
  intros pr m' E.
  pose proof (step5_safe o pool m Ho Hp HS) as Hs. unfold safe in Hs. rewrite E in Hs. destruct Hs as [HS1 HL1].
  apply IH; [exact HL1 | exact HS1 | exact Hrest].
Qed.

Corollary history5_static_safe n ops :
  Forall (fun o => op5_ok n o /\ no_sqrt5 o) ops ->
  safe (run5 w M gk jv ops (repeat zero n)) mem0
       (fun pool m => StateInv pool m /\ safe (drop_all pool) m (fun _ m' => forall p, blk m' p = None)).
Proof.
  intros H. apply history5_safe. apply pre_along5_static; [apply repeat_length | apply StateInv_init | exact H].
Qed.

End Ops5History.
