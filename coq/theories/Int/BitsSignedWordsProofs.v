(** C09 (round 4): the word-level IBig tables of Int/BitsSignedWords.v equal the two's-complement operations, by
    CITING C01: add_one_in_place_spec / sub_one_in_place_spec (Int/RingAddProofs.v), add_dword_correct,
    ibig_sub_asis_correct, neg_value (Int/RingOpsProofs.v).  In particular `sub_one().into_typed()` of the tables of
    Int/BitsKernels.v (there: the canonical view of value - 1) IS the word-level sub_one, so the round-2 theorems
    about ibig_bit*_asis are theorems about tables that never leave the word level. *)
From Dashu Require Import Base.Prelude Base.Words Int.RingAdd Int.RingAddProofs Int.BitsSpec Int.BitsSign Int.BitsWords
  Int.BitsKernels Int.BitsKernelsBase Int.BitsLogicProofs Int.BitsShiftProofs Int.BitsCountProofs Int.BitsSignedProofs
  Int.BitsForms Int.BitsFormsProofs Int.BitsSignedWords.
From Dashu Require Int.RingOpsProofs.
Open Scope Z_scope.

Section Proofs.
Variable w : Z.
Hypothesis w8 : 8 <= w.
Let w_pos : 0 < w. Proof. lia. Qed.
Notation B := (B w).
Notation value := (value w).
Notation wf := (wf w).

Lemma B_ge2 : 2 <= B.
Proof. unfold Words.B. change 2 with (2 ^ 1) at 1. apply Z.pow_le_mono_r; lia. Qed.

Lemma nth_last_eq (ws : list Z) : nth (length ws - 1) ws 0 = last ws 0.
Proof.
  destruct ws as [|x t]; [reflexivity|]. cbn [length]. rewrite Nat.sub_succ, Nat.sub_0_r.
  revert x. induction t as [|y t IH]; intros x; [reflexivity|].
  change (nth (length (y :: t)) (x :: y :: t) 0) with (nth (length t) (y :: t) 0). rewrite IH. reflexivity.
Qed.

(** C01's representation invariant is C09's *)
Lemma twf_iff r : RingOpsProofs.twf w (t_of_b r) <-> brepr_ok w r.
Proof. destruct r as [d|ws]; cbn [t_of_b RingOpsProofs.twf brepr_ok]; [tauto|]. rewrite nth_last_eq. tauto. Qed.
Lemma twf_b t : RingOpsProofs.twf w t -> brepr_ok w (b_of_t t) /\ bvalue w (b_of_t t) = RingOps.repr_value w t.
Proof. destruct t as [d|ws]; cbn [b_of_t RingOpsProofs.twf brepr_ok bvalue RingOps.repr_value]; [tauto|]. rewrite nth_last_eq. tauto. Qed.
Lemma t_of_b_value r : RingOps.repr_value w (t_of_b r) = bvalue w r.
Proof. destruct r; reflexivity. Qed.

(* ------------------------------------------------------------------ add_one / sub_one on words *)
Theorem repr_add_one_correct r : brepr_ok w r ->
  bvalue w (repr_add_one w r) = bvalue w r + 1 /\ brepr_ok w (repr_add_one w r).
Proof.
  intros K. pose proof (B_pos w w_pos) as HB. destruct r as [d|ws]; cbn [repr_add_one bvalue brepr_ok] in *.
  - pose proof B_ge2 as H2. assert (H1 : 0 <= 1 < B * B) by nia.
    destruct (RingOpsProofs.add_dword_correct w w8 d 1 K H1) as [V T]. destruct (twf_b _ T) as [K' V']. rewrite V', V. tauto.
  - destruct K as (W & L3 & T). unfold add_large_one. destruct (add_one_in_place w ws) as [r c] eqn:E.
    destruct (add_one_in_place_spec w w_pos ws W r c E) as (L & Wr & V).
    assert (Wb : wf (if c then r ++ [1] else r)).
    { destruct c; [|exact Wr]. apply Forall_app. split; [exact Wr | apply Forall_cons; [pose proof B_ge2; lia | apply Forall_nil]]. }
    destruct (from_buffer_ok w w_pos _ Wb) as [V' K']. split; [|exact K']. rewrite V'.
    destruct c; cbn [b2z] in V.
    + rewrite value_app. cbn [Words.value]. unfold len in *. rewrite L. lia.
    + lia.
Qed.

Theorem repr_sub_one_correct r : brepr_ok w r -> 1 <= bvalue w r ->
  bvalue w (repr_sub_one w r) = bvalue w r - 1 /\ brepr_ok w (repr_sub_one w r).
Proof.
  intros K H1. pose proof (B_pos w w_pos) as HB. destruct r as [d|ws]; cbn [repr_sub_one bvalue brepr_ok from_dword] in *.
  - split; [reflexivity | lia].
  - destruct K as (W & L3 & T). unfold sub_large_one. destruct (sub_one_in_place w ws) as [r c] eqn:E. cbn [fst].
    destruct (sub_one_in_place_spec w w_pos ws W r c E) as (L & Wr & V).
    destruct (from_buffer_ok w w_pos _ Wr) as [V' K']. split; [|exact K']. rewrite V'.
    pose proof (value_bounds w w_pos r Wr) as Hb. unfold len in *. rewrite L in Hb.
    destruct c; cbn [b2z] in V; lia.
Qed.

(** the `sub_one().into_typed()` of the tables of Int/BitsKernels.v is the word-level sub_one *)
Theorem sub_one_typed_is_words r : brepr_ok w r -> 1 <= bvalue w r -> sub_one_typed w r = repr_sub_one w r.
Proof.
  intros K H1. unfold sub_one_typed. symmetry. apply (canonical_of w w_pos).
  destruct (repr_sub_one_correct r K H1) as [V K']. split; assumption.
Qed.

(* ------------------------------------------------------------------ Not *)
Lemma with_sign_b_value s r : sval w (with_sign_b s r) = signed s (bvalue w r) /\ snd (with_sign_b s r) = r.
Proof.
  destruct r as [[|p|p]|ws]; unfold sval; cbn [with_sign_b fst snd bvalue]; split; try reflexivity.
  destruct s; reflexivity.
Qed.

Theorem ibig_not_words_correct s r : mag_ok w s r ->
  sval w (ibig_not_words w s r) = Z.lnot (signed s (bvalue w r)) /\ brepr_ok w (snd (ibig_not_words w s r)).
Proof.
  intros [K N]. unfold ibig_not_words, Z.lnot. destruct s.
  - destruct (repr_add_one_correct r K) as [V K']. destruct (with_sign_b_value Negative (repr_add_one w r)) as [A Bq].
    rewrite A, Bq, V. split; [unfold signed; cbn [sgnz]; lia | exact K'].
  - destruct (repr_sub_one_correct r K (N eq_refl)) as [V K']. destruct (with_sign_b_value Positive (repr_sub_one w r)) as [A Bq].
    rewrite A, Bq, V. split; [unfold signed; cbn [sgnz]; lia | exact K'].
Qed.

Lemma not_pos_value x : brepr_ok w x -> sval w (ibig_not_words w Positive x) = Z.lnot (bvalue w x) /\
  brepr_ok w (snd (ibig_not_words w Positive x)).
Proof.
  intros K. destruct (ibig_not_words_correct Positive x) as [V K']; [split; [exact K | discriminate]|].
  rewrite V. unfold signed. cbn [sgnz]. split; [rewrite Z.mul_1_l; reflexivity | exact K'].
Qed.

(* ------------------------------------------------------------------ the tables, closed at word level *)
Ltac sub1 r K N :=
  let V := fresh "V" in let K' := fresh "K" in
  destruct (repr_sub_one_correct r K (N eq_refl)) as [V K']; rewrite <- (sub_one_typed_is_words r K (N eq_refl)) in *.

Theorem ibig_bitand_words_is_asis o s0 r0 s1 r1 : mag_ok w s0 r0 -> mag_ok w s1 r1 ->
  sval w (ibig_bitand_words w o s0 r0 s1 r1) = ibig_bitand_asis w o s0 r0 s1 r1 /\
  brepr_ok w (snd (ibig_bitand_words w o s0 r0 s1 r1)).
Proof.
  intros [K0 N0] [K1 N1]. unfold ibig_bitand_words, ibig_bitand_asis. destruct s0, s1.
  - unfold sval; cbn [fst snd]. unfold signed. cbn [sgnz]. split; [lia | apply (repr_bitand_correct w w_pos); assumption].
  - sub1 r1 K1 N1. unfold sval; cbn [fst snd]. unfold signed. cbn [sgnz]. split; [lia | apply (repr_and_not_correct w w_pos); assumption].
  - sub1 r0 K0 N0. unfold sval; cbn [fst snd]. unfold signed. cbn [sgnz]. split; [lia | apply (repr_and_not_correct w w_pos); assumption].
  - sub1 r0 K0 N0. sub1 r1 K1 N1. apply not_pos_value. apply (repr_bitor_correct w w_pos); assumption.
Qed.

Theorem ibig_bitor_words_is_asis o s0 r0 s1 r1 : mag_ok w s0 r0 -> mag_ok w s1 r1 ->
  sval w (ibig_bitor_words w o s0 r0 s1 r1) = ibig_bitor_asis w o s0 r0 s1 r1 /\
  brepr_ok w (snd (ibig_bitor_words w o s0 r0 s1 r1)).
Proof.
  intros [K0 N0] [K1 N1]. unfold ibig_bitor_words, ibig_bitor_asis. destruct s0, s1.
  - unfold sval; cbn [fst snd]. unfold signed. cbn [sgnz]. split; [lia | apply (repr_bitor_correct w w_pos); assumption].
  - sub1 r1 K1 N1. apply not_pos_value. apply (repr_and_not_correct w w_pos); assumption.
  - sub1 r0 K0 N0. apply not_pos_value. apply (repr_and_not_correct w w_pos); assumption.
  - sub1 r0 K0 N0. sub1 r1 K1 N1. apply not_pos_value. apply (repr_bitand_correct w w_pos); assumption.
Qed.

Theorem ibig_bitxor_words_is_asis o s0 r0 s1 r1 : mag_ok w s0 r0 -> mag_ok w s1 r1 ->
  sval w (ibig_bitxor_words w o s0 r0 s1 r1) = ibig_bitxor_asis w o s0 r0 s1 r1 /\
  brepr_ok w (snd (ibig_bitxor_words w o s0 r0 s1 r1)).
Proof.
  intros [K0 N0] [K1 N1]. unfold ibig_bitxor_words, ibig_bitxor_asis. destruct s0, s1.
  - unfold sval; cbn [fst snd]. unfold signed. cbn [sgnz]. split; [lia | apply (repr_bitxor_correct w w_pos); assumption].
  - sub1 r1 K1 N1. apply not_pos_value. apply (repr_bitxor_correct w w_pos); assumption.
  - sub1 r0 K0 N0. apply not_pos_value. apply (repr_bitxor_correct w w_pos); assumption.
  - sub1 r0 K0 N0. sub1 r1 K1 N1. unfold sval; cbn [fst snd]. unfold signed. cbn [sgnz].
    split; [lia | apply (repr_bitxor_correct w w_pos); assumption].
Qed.

(** every IBig & | ^ as ONE function on (sign, words): the two's-complement operation, result normalised *)
Theorem ibig_bitops_words_correct o s0 r0 s1 r1 : mag_ok w s0 r0 -> mag_ok w s1 r1 ->
  let x := signed s0 (bvalue w r0) in let y := signed s1 (bvalue w r1) in
  (sval w (ibig_bitand_words w o s0 r0 s1 r1) = Z.land x y /\ brepr_ok w (snd (ibig_bitand_words w o s0 r0 s1 r1))) /\
  (sval w (ibig_bitor_words w o s0 r0 s1 r1) = Z.lor x y /\ brepr_ok w (snd (ibig_bitor_words w o s0 r0 s1 r1))) /\
  (sval w (ibig_bitxor_words w o s0 r0 s1 r1) = Z.lxor x y /\ brepr_ok w (snd (ibig_bitxor_words w o s0 r0 s1 r1))).
Proof.
  intros H0 H1 x y. destruct (ibig_bitops_asis_correct w w_pos o s0 r0 s1 r1 H0 H1) as (A & O & X).
  destruct (ibig_bitand_words_is_asis o s0 r0 s1 r1 H0 H1) as [A1 A2].
  destruct (ibig_bitor_words_is_asis o s0 r0 s1 r1 H0 H1) as [O1 O2].
  destruct (ibig_bitxor_words_is_asis o s0 r0 s1 r1 H0 H1) as [X1 X2].
  unfold x, y. rewrite A1, O1, X1, A, O, X. tauto.
Qed.

(* ------------------------------------------------------------------ >> on IBig with C01's negation and subtraction *)
Theorem ibig_shr_words_correct by_ref s r n : 0 <= n -> mag_ok w s r ->
  exists res, ibig_shr_words w by_ref s r n = Ok res /\
    sval w res = Z.shiftr (signed s (bvalue w r)) n /\ brepr_ok w (snd res).
Proof.
  intros Hn [K N]. unfold ibig_shr_words.
  set (q := if by_ref then repr_shr_ref w r n else repr_shr w r n).
  assert (Q : bvalue w q = Z.shiftr (bvalue w r) n /\ brepr_ok w q).
  { unfold q. destruct by_ref; [apply (repr_shr_ref_correct w w_pos) | apply (repr_shr_correct w w_pos)]; assumption. }
  destruct Q as [Vq Kq]. destruct s.
  - eexists. split; [reflexivity|]. unfold sval; cbn [fst snd]. rewrite Vq. unfold signed. cbn [sgnz].
    split; [rewrite !Z.mul_1_l; reflexivity | exact Kq].
  - destruct (RingOpsProofs.neg_value w (Positive, t_of_b q)) as [NV NS].
    destruct (RingOps.neg (Positive, t_of_b q)) as [sq tq] eqn:E. cbn [snd] in NS. subst tq.
    assert (Tq : RingOpsProofs.twf w (t_of_b q)) by (apply twf_iff; exact Kq).
    assert (Tb : RingOpsProofs.twf w (RingOps.Small (Z.b2z (are_low_bits_nonzero w r n)))).
    { cbn [RingOpsProofs.twf]. pose proof B_ge2. destruct (are_low_bits_nonzero w r n); cbn [Z.b2z]; nia. }
    destruct (RingOpsProofs.ibig_sub_asis_correct w w8 RingOps.OVV sq (t_of_b q) Positive _ Tq Tb) as ([s' t] & E2 & V2 & T2).
    rewrite E2. eexists. split; [reflexivity|]. cbn [snd] in T2. destruct (twf_b _ T2) as [K' V'].
    unfold sval; cbn [fst snd]. rewrite V'. split; [|exact K'].
    unfold RingOps.srepr_value in V2, NV. cbn [fst snd] in V2, NV. rewrite V2. cbn [RingOps.repr_value].
    rewrite NV, t_of_b_value, Vq. unfold signed at 1 2. cbn [sgnz].
    destruct (ibig_shr_asis_correct w w_pos Negative r n Hn K) as (A & _ & _).
    unfold ibig_shr_asis in A. rewrite <- A. rewrite (proj1 (repr_shr_correct w w_pos r n Hn K)). lia.
Qed.

End Proofs.

(** non-vacuity (64-bit words): a borrow through a zero word, Not of -1 (zero stays Positive), a negative shift *)
Example signed_words_nonvacuous :
  mag_ok 64 Negative (BLarge [0; 0; 1]) /\ mag_ok 64 Negative (BSmall 1) /\
  repr_sub_one 64 (BLarge [0; 0; 1]) = BSmall (2 ^ 128 - 1) /\
  repr_add_one 64 (BSmall (2 ^ 128 - 1)) = BLarge [0; 0; 1] /\
  ibig_not_words 64 Negative (BSmall 1) = (Positive, BSmall 0) /\
  ibig_bitand_words 64 VV Negative (BLarge [0; 0; 1]) Negative (BSmall 1) = (Negative, BLarge [0; 0; 1]) /\
  ibig_shr_words 64 false Negative (BLarge [1; 0; 1]) 130 = Ok (Negative, BSmall 1).
Proof.
  assert (W : forall l, Forall (fun x => 0 <= x < 2 ^ 64) l -> wf 64 l) by (intros l H; exact H).
  repeat split; try discriminate; try (apply W; repeat constructor; lia); try (cbn; lia); vm_compute; reflexivity.
Qed.
