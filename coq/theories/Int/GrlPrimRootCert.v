(** C12 round 5 - definitions (no proofs) of the class certificates for the table + Newton estimates of
    base/src/ring/root.rs: the estimates of GrlPrimRoot.v cut into stages, the interval checks and the interval cover.
    Proofs: GrlPrimRootTotal.v (u32, all classes), GrlPrimRootTotal64.v (u64, per class). *)
From Coq Require Import List.
From Dashu Require Import Base.Prelude Int.GrlKsqrt Int.GrlLog2Tab Int.GrlPrimRoot.
Import ListNotations.
Open Scope Z_scope.

Fixpoint cover (leaf : Z -> Z -> bool) (split : Z -> Z -> Z) (fuel : nat) (lo hi : Z) : bool :=
  if leaf lo hi then true else
  match fuel with
  | O => false
  | S k => let b := split lo hi in
           if lo <? b then if b <=? hi then if cover leaf split k lo (b - 1) then cover leaf split k b hi else false
           else false else false
  end.

Definition sq32_a (n16 : Z) : result (Z * Z) :=
  t <- tab RSQRT_TAB (n16 / 2 ^ 9 - 32) ;;
  let r := Z.lor 256 t in
  a <- chk T16 (3 * (r mod T16)) ;;
  rr <- chk T32 (r * r) ;;
  rrr <- chk T32 (rr * r) ;;
  Ok (a, rrr).

Definition sq32_b (n16 a q2 : Z) : result (Z * Z) :=
  r <- chk T16 ((a * 2 ^ 5) mod T16 - q2 mod T16) ;;
  let r := (r * 2) mod T16 in
  let s := Z.min (wmul_hi T16 r n16 * 2) (T16 - 1) in
  s <- chk T16 (s - fst (fst (fst ROOT_GUARDS))) ;;
  Ok (r, s).

Definition sq32_c (r s e16 : Z) : result Z := chk T16 (s + wmul_hi T16 (e16 mod T16) r).

Definition sq32_iv (F lo hi : Z) : bool :=
  (2 ^ 30 <=? lo) && (lo <=? hi) && (hi <? T32) && (lo / T16 =? hi / T16) &&
  match sq32_a (lo / T16) with
  | Ok (a, rrr) =>
      let q2 := wmul_hi T32 lo rrr / 2 ^ 11 in
      (0 <=? rrr) && (q2 =? wmul_hi T32 hi rrr / 2 ^ 11) &&
      match sq32_b (lo / T16) a q2 with
      | Ok (r, s0) =>
          let e16 := (lo - s0 * s0) / T16 in
          (s0 * s0 <=? lo) && (hi - s0 * s0 <? T32) && (e16 =? (hi - s0 * s0) / T16) &&
          match sq32_c r s0 e16 with
          | Ok s => (0 <=? s) && (s * s <=? lo) && (hi <? (s + F) * (s + F))
          | _ => false
          end
      | _ => false
      end
  | _ => false
  end.

Definition sq32_split (lo hi : Z) : Z :=
  if negb (lo / T16 =? hi / T16) then (hi / T16) * T16 else
  match sq32_a (lo / T16) with
  | Ok (a, rrr) =>
      let q2 := wmul_hi T32 lo rrr / 2 ^ 11 in
      let q2h := wmul_hi T32 hi rrr / 2 ^ 11 in
      if negb (q2 =? q2h) then (q2h * 2 ^ 43 + rrr - 1) / rrr else
      match sq32_b (lo / T16) a q2 with
      | Ok (r, s0) => s0 * s0 + ((hi - s0 * s0) / T16) * T16
      | _ => lo
      end
  | _ => lo
  end.

Definition sq32_class (c : Z) : bool := cover (sq32_iv 3) sq32_split 8 (c * T16) (c * T16 + 65535).

Definition cb32_est (k : Z) : result Z :=
  let adjust := GrlKsqrt.b2z (2 ^ 14 <=? k) in
  let n16 := (k / 2 ^ (3 * adjust)) mod T16 in
  t <- tab RCBRT_TAB (n16 / 2 ^ 8 - 8) ;;
  let r := Z.lor 256 t in
  rr <- chk T32 (r * r) ;;
  rrr <- chk T32 (rr * r) ;;
  let r3 := rrr / 2 ^ 11 in
  t <- chk T16 (4 * 2 ^ 11 - wmul_hi T16 n16 (r3 mod T16)) ;;
  p <- chk T32 (r * t) ;;
  let r := ((p / 3) / 2 ^ 4) mod T16 in
  let r := r / 2 ^ adjust in
  r <- chk T16 (r - snd (fst ROOT_GUARDS)) ;;
  Ok (wmul_hi T16 r (wmul_hi T16 r (k mod T16)) / 2 ^ 2).

Definition cb32_class (k : Z) : bool :=
  match cb32_est k with
  | Ok c => (0 <=? c) && (c ^ 3 <=? k * T16) && (k * T16 + 65535 <? (c + 4) ^ 3)
  | _ => false
  end.

Definition sq64_a (n32 : Z) : result (Z * Z) :=
  t <- tab RSQRT_TAB (n32 / 2 ^ 25 - 32) ;;
  let r := Z.lor 256 t in
  a <- chk T32 (3 * r) ;;
  rr <- chk T32 (r * r) ;;
  rrr <- chk T32 (rr * r) ;;
  r <- chk T32 ((a * 2 ^ 21) mod T32 - wmul_hi T32 n32 ((rrr * 2 ^ 5) mod T32)) ;;
  t <- chk T32 (3 * 2 ^ 28 - wmul_hi T32 r (wmul_hi T32 r n32)) ;;
  let r := wmul_hi T32 r t in
  let r := (r * 2 ^ 4) mod T32 in
  let s := (wmul_hi T32 r n32 * 2) mod T32 in
  s <- chk T32 (s - snd (fst (fst ROOT_GUARDS))) ;;
  Ok (r, s).

Definition sq64_c (r s e32 : Z) : result Z := chk T32 (s + wmul_hi T32 (e32 mod T32) r).

Definition sq64_iv (F lo hi : Z) : bool :=
  (2 ^ 62 <=? lo) && (lo <=? hi) && (hi <? T64) && (lo / T32 =? hi / T32) &&
  match sq64_a (lo / T32) with
  | Ok (r, s0) =>
      let e32 := (lo - s0 * s0) / T32 in
      (s0 * s0 <=? lo) && (hi - s0 * s0 <? T64) && (e32 =? (hi - s0 * s0) / T32) &&
      match sq64_c r s0 e32 with
      | Ok s => (0 <=? s) && (s * s <=? lo) && (hi <? (s + F) * (s + F))
      | _ => false
      end
  | _ => false
  end.

Definition sq64_split (lo hi : Z) : Z :=
  match sq64_a (lo / T32) with
  | Ok (r, s0) => s0 * s0 + ((hi - s0 * s0) / T32) * T32
  | _ => lo
  end.

Definition sq64_cert (X : Z) : bool := cover (sq64_iv 3) sq64_split 4 (X * T32) (X * T32 + (T32 - 1)).

Definition sample_classes (lo stride : Z) (cnt : nat) : list Z := map (fun j => lo + j * stride) (zrange 0 cnt).

Definition cb64_est (X : Z) : result Z :=
  let adjust := GrlKsqrt.b2z (2 ^ 31 <=? X) in
  let n32 := (X / 2 ^ (3 * adjust)) mod T32 in
  t <- tab RCBRT_TAB (n32 / 2 ^ 25 - 8) ;;
  let r := Z.lor 256 t in
  rr <- chk T32 (r * r) ;;
  rrr <- chk T32 (rr * r) ;;
  t <- chk T32 (4 * 2 ^ 23 - wmul_hi T32 n32 rrr) ;;
  r <- chk T32 (r * (t / 3)) ;;
  t <- chk T32 (4 * 2 ^ 28 - wmul_hi T32 r (wmul_hi T32 r (wmul_hi T32 r n32))) ;;
  let r := wmul_hi T32 r t / 3 in
  let r := r / 2 ^ adjust in
  r <- chk T32 (r - snd ROOT_GUARDS) ;;
  Ok (wmul_hi T32 r (wmul_hi T32 r (X mod T32))).

Definition cb64_cert (X : Z) : bool :=
  match cb64_est X with
  | Ok c => (0 <=? c) && (c ^ 3 <=? X * T32) && (X * T32 + (T32 - 1) <? (c + 8) ^ 3)
  | _ => false
  end.
