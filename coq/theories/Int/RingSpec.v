(** C01 - what the property demands, as mathematics on Z.  Definitions only. *)
From Dashu Require Import Base.Prelude.
Open Scope Z_scope.

(** UBig operators: operands are magnitudes (0 <= a, b) *)
Definition ubig_add_spec (a b : Z) : result Z := Ok (a + b).
Definition ubig_sub_spec (a b : Z) : result Z := if a <? b then Panic NegativeUBig else Ok (a - b).
Definition ubig_mul_spec (a b : Z) : result Z := Ok (a * b).

(** IBig operators (and the mixed UBig/IBig ones): total *)
Definition ibig_add_spec (a b : Z) : Z := a + b.
Definition ibig_sub_spec (a b : Z) : Z := a - b.
Definition ibig_mul_spec (a b : Z) : Z := a * b.

Definition sqr_spec (a : Z) : Z := a * a.
Definition cubic_spec (a : Z) : Z := a * a * a.
Definition pow_spec (a n : Z) : Z := a ^ n.

(** contract of the word-slice kernel [c += sign * a * b] over [n] words of [w] bits:
    returns (new contents of c as a number, carry) *)
Definition mul_kernel_spec (w n : Z) (s : sign) (c a b : Z) : Z * Z :=
  let t := c + sgnz s * (a * b) in (t mod 2 ^ (w * n), t / 2 ^ (w * n)).
