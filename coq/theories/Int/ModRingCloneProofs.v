(** C13 (round 4) - clone_from: afterwards the destination IS the source (modulus, residue, ring identity), whatever ring
    it was in before - every pair of moduli m1, m2 >= 1 (same or different representation, word count, shift). *)
From Dashu Require Import Base.Prelude Base.Words Int.ModRingSpec Int.ModRingSpecProofs
  Int.ModRingPowModel Int.ModRingPowProofs Int.ModRingModel Int.ModRingProofs Int.ModRingOpsProofs Int.ModRingInst Int.ModRingInstProofs
  Int.ModRingClone.
Open Scope Z_scope.

Theorem run_clone_from_correct m1 m2 a b c : 1 <= m1 -> 1 <= m2 ->
  run_clone_from m1 m2 a b c = Ok (m1, reduce_spec m1 a, true, reduce_spec m1 (a + c)).
Proof.
  intros H1 H2. unfold run_clone_from.
  destruct (new_ring_ok W64 W64_ge 1 m1 H1) as (r1 & E1 & Hwf1 & Em1 & _). unfold i_new. rewrite E1. cbn [rbind].
  destruct (new_ring_ok W64 W64_ge 2 m2 H2) as (r2 & E2 & Hwf2 & Em2 & _). rewrite E2. cbn [rbind].
  unfold i_reduce.
  destruct (reduce_ok W64 W64_ge ex_2by1 ex_3by2 ex_2by1_ok ex_3by2_ok r1 a Hwf1) as (x & -> & Hx). cbn [rbind].
  destruct (reduce_ok W64 W64_ge ex_2by1 ex_3by2 ex_2by1_ok ex_3by2_ok r2 b Hwf2) as (y & -> & Hy). cbn [rbind].
  unfold clone_from_asis, clone_asis, i_residue.
  destruct (residue_ok W64 W64_ge r1 a x Hwf1 Hx) as (-> & _ & Emod). cbn [rbind].
  unfold i_eq. rewrite (eq_asis_ok W64 W64_ge r1 a a x x Hwf1 Hx Hx). cbn [rbind].
  destruct (reduce_ok W64 W64_ge ex_2by1 ex_3by2 ex_2by1_ok ex_3by2_ok r1 c Hwf1) as (z & -> & Hz). cbn [rbind].
  unfold i_add. destruct (add_ok W64 W64_ge r1 a c x z Hwf1 Hx Hz) as (s & -> & Hs). cbn [rbind].
  destruct (residue_ok W64 W64_ge r1 (a + c) s Hwf1 Hs) as (-> & _ & _). cbn [rbind].
  rewrite Emod, Em1, Z.eqb_refl. reflexivity.
Qed.

Example run_clone_from_example :
  run_clone_from (2 ^ 255 - 19) (2 ^ 256 - 189) 5 7 (-6) = Ok (2 ^ 255 - 19, 5, true, 2 ^ 255 - 20).
Proof. vm_compute. reflexivity. Qed.
