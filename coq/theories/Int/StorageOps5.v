(** C17 (round 5) - the storage machine extended by the divide-and-conquer parser of texts beyond 256 groups
      parse/non_power_two.rs: parse (dispatch), parse_word (checked word arithmetic), parse_chunk (rchunks, the estimated
      buffer), parse_large (the vector of radix powers: range_per_word^256 and its repeated squares, the loop test with its
      `usize` subtraction and shift), parse_large_divide_conquer (debug_assert, bytes_lo_len, split_at, hi * power + lo, the
      `?` exits that drop what was built so far), the drop of the powers at the end.
    DEFINITIONS ONLY (executable); proofs in StorageOps5Proofs.v.  Conventions as in StorageOps3.v: every debug_assert! /
    slice split / `usize` subtraction / shift amount / checked word operation is an explicit guard
      150 parse_word: word * radix + digit overflows     151 parse_word: src.len() <= digits_per_word
      152 parse_chunk: bytes.len() <= CHUNK_LEN * digits_per_word     153 shift amount >= usize::BITS
      154 bytes.len() - 1 underflows     155 divide_conquer: bytes.len() <= chunk_bytes << powers     156 split_at beyond the end
      157 parse_large: bytes.len() > chunk_bytes
    `usize` = one word (w bits): shifts to the left are taken modulo 2^w as the code does (no overflow check on `<<`).
    A text is the list of its bytes after the underscores were filtered out: [Some d] a digit of the radix, [None] any
    other byte (digit_from_ascii_byte = None -> ParseError::InvalidDigit).
    Tests, lengths and exponents come from the REGENERATED coq/gen/StorageGen5.v. *)
From Dashu Require Import Base.Prelude Base.Words Int.StorageModel Int.StorageOps2 Int.StorageOps3.
From DashuGen Require Import StorageGen StorageGen4 StorageGen5.
Open Scope Z_scope.

Section Ops5.
Variable w : Z.
Variable M : Z.
Variable gk : list Z -> list Z -> Z * bool.
Variable jv : list Z -> Z.

Notation Bw := (Bw w).

Definition ushl (a k : Z) : Z := (Z.shiftl a k) mod Bw.

(* ------------------------------------------------------------------ parse_word *)
Fixpoint parse_word_loop (radix : Z) (bs : list (option Z)) (word : Z) : M_ (option Z) :=
  match bs with
  | [] => ret (Some word)
  | None :: _ => ret None
  | Some d :: r => guard 150 (word * radix + d <? Bw) ;;; parse_word_loop radix r (word * radix + d)
  end.
Definition parse_word5 (radix dpw : Z) (bs : list (option Z)) : M_ (option Z) :=
  guard 151 (gen5_parse_word_pre (len bs) dpw) ;;; parse_word_loop radix bs 0.

(* ------------------------------------------------------------------ parse_chunk *)
(** bytes.rchunks(dpw) .rev(): the groups, most significant first - the first one holds the remainder *)
Fixpoint groups_msf (fuel : nat) (dpw : Z) (bs : list (option Z)) : list (list (option Z)) :=
  match fuel, bs with
  | S f, _ :: _ =>
      let k := Z.to_nat (let r := len bs mod dpw in if r =? 0 then dpw else r) in
      firstn k bs :: groups_msf f dpw (skipn k bs)
  | _, _ => []
  end.
Definition rgroups (dpw : Z) (bs : list (option Z)) : list (list (option Z)) := groups_msf (length bs) dpw bs.
Fixpoint parse_groups (radix dpw : Z) (gs : list (list (option Z))) : M_ (list (option Z)) :=
  match gs with
  | [] => ret []
  | g :: r => x <- parse_word5 radix dpw g ;; xs <- parse_groups radix dpw r ;; ret (x :: xs)
  end.
(** the words of the groups are computed first (parse_word touches no memory), then the loop of StorageOps3.v runs *)
Definition parse_chunk5 (radix dpw rpw : Z) (bs : list (option Z)) : M_ (option repr) :=
  guard 152 (gen5_parse_chunk_pre (len bs) dpw) ;;;
  gs <- parse_groups radix dpw (rgroups dpw bs) ;;
  b <- allocate M (gen4_parse_chunk_request (len gs)) ;;
  ob <- parse_chunk_loop w rpw gs b ;;
  match ob with None => ret None | Some b' => r <- from_buffer w M b' ;; ret (Some r) end.

(* ------------------------------------------------------------------ parse_large *)
Definition ref_of (r : repr) : targ := typed_ref w (view_of r).
(** the while loop: [powers] has the last pushed power first *)
Fixpoint powers_loop (fuel : nat) (chunk_bytes blen : Z) (powers : list repr) : M_ (list repr) :=
  let k := len powers in
  guard 154 (1 <=? blen) ;;; guard 153 (k <? w) ;;;
  if gen5_powers_test chunk_bytes blen k then
    match fuel, powers with
    | S f, prev :: _ => nw <- mul_mag w M (ref_of prev) (ref_of prev) ;; powers_loop f chunk_bytes blen (nw :: powers)
    | O, _ :: _ => fun _ => OutOfFuel
    | _, [] => bad 30
    end
  else ret powers.

Fixpoint drop_reprs5 (rs : list repr) : M_ unit :=
  match rs with [] => ret tt | r :: rest => repr_drop r ;;; drop_reprs5 rest end.

(** parse_large_divide_conquer: structural in the slice of powers ([powers]: the last element of the Rust slice first) *)
Fixpoint parse_dc (radix dpw rpw chunk_bytes : Z) (powers : list repr) (bs : list (option Z)) : M_ (option repr) :=
  guard 153 (len powers <? w) ;;;
  guard 155 (gen5_dc_pre chunk_bytes (len bs) (len powers)) ;;;
  match powers with
  | [] => parse_chunk5 radix dpw rpw bs
  | p :: rest =>
      let lo_len := ushl chunk_bytes (len rest) in
      if gen5_dc_test (len bs) lo_len then parse_dc radix dpw rpw chunk_bytes rest bs
      else
        let cut := gen5_dc_split (len bs) lo_len in
        guard 156 ((0 <=? cut) && (cut <=? len bs)) ;;;
        ohi <- parse_dc radix dpw rpw chunk_bytes rest (firstn (Z.to_nat cut) bs) ;;
        match ohi with
        | None => ret None
        | Some hi =>
            olo <- parse_dc radix dpw rpw chunk_bytes rest (skipn (Z.to_nat cut) bs) ;;
            match olo with
            | None => repr_drop hi ;;; ret None
            | Some lo =>
                prod <- mul_mag w M (typed w hi) (ref_of p) ;;
                r <- add_mag w M (typed w prod) (typed w lo) ;;
                ret (Some r)
            end
        end
  end.

Definition parse_large5 (radix dpw rpw : Z) (bs : list (option Z)) : M_ (option repr) :=
  let chunk_bytes := gen5_chunk_bytes dpw in
  guard 157 (chunk_bytes <? len bs) ;;;
  p0 <- pow_ref w M (TRefSmall rpw) gen5_first_power_exp ;;
  powers <- powers_loop (Z.to_nat w) chunk_bytes (len bs) [p0] ;;
  o <- parse_dc radix dpw rpw chunk_bytes powers bs ;;
  drop_reprs5 powers ;;; ret o.

(** non_power_two::parse after the underscores were removed *)
Definition parse5 (radix dpw rpw : Z) (bs : list (option Z)) : M_ (option repr) :=
  if gen5_parse_word_test (len bs) dpw then
    o <- parse_word5 radix dpw bs ;; ret (match o with Some x => Some (from_word x) | None => None end)
  else if gen5_parse_chunk_test (len bs) dpw then parse_chunk5 radix dpw rpw bs
  else parse_large5 radix dpw rpw bs.

(* ------------------------------------------------------------------ the machine of round 5 *)
Inductive op5 :=
| O3 (o : op3)
| OParseL (d : nat) (s : sign) (radix dpw rpw : Z) (bs : list (option Z)).

Definition step5 (o : op5) (pool : list repr) : M_ (list repr * option reason) :=
  match o with
  | O3 o => step3 w M gk jv o pool
  | OParseL d s radix dpw rpw bs => o <- parse5 radix dpw rpw bs ;; store_opt d s o pool
  end.

Fixpoint run5 (ops : list op5) (pool : list repr) : M_ (list repr) :=
  match ops with
  | [] => ret pool
  | o :: rest => pr <- step5 o pool ;; run5 rest (fst pr)
  end.

End Ops5.
