(** C01 (L1): the Small/Large arms of * and sqr (mul_ops.rs mod repr) return exactly the product /
    square for all operand lengths, every word size w >= 8 and every admissible threshold triple:
    mul_dword and its spilled variant, mul_large_dword with the power-of-two shift shortcut,
    mul_large with the square shortcut for equal operands, the IBig sign rule. *)
From Dashu Require Import Base.Prelude Base.Words Int.RingAdd Int.RingAddProofs Int.RingMul Int.RingMulProofs
  Int.RingKaraProofs Int.RingToomProofs Int.RingDispatchProofs Int.RingSqrProofs Int.RingOps Int.RingOpsProofs.
Open Scope Z_scope.

Section OpsMulProofs.
Variable w : Z.
Hypothesis w_ge : 8 <= w.
Let w_pos : 0 < w. Proof. lia. Qed.
Variable T_simple T_kara CHUNK SQR_SIMPLE : nat.
Hypothesis T_simple_ok : (1 <= T_simple)%nat.
Hypothesis T_kara_ok : (3 <= T_kara)%nat.
Hypothesis CHUNK_ok : (1 <= CHUNK)%nat.
Notation BB := (B w).
Notation val := (value w).
Notation wfw := (wf w).
Notation rv := (repr_value w).
Notation srv := (srepr_value w).
Let HB : 0 < BB := B_pos w w_pos.
Let HB256 : 256 <= BB := B_ge_256 w w_ge.

(** operands of the multiplicative operations only need well-formed words *)
Definition tok (r : trepr) : Prop :=
  match r with Small d => 0 <= d < BB * BB | Large ws => wfw ws end.

Lemma twf_tok r : twf w r -> tok r.
Proof. destruct r; cbn [twf tok]; tauto. Qed.

Lemma tok_nonneg r : tok r -> 0 <= rv r.
Proof. destruct r; cbn [tok repr_value]; [lia | apply value_nonneg; exact w_pos]. Qed.

Lemma wf4 a b c d : 0 <= a < BB -> 0 <= b < BB -> 0 <= c < BB -> 0 <= d < BB -> wfw [a; b; c; d].
Proof. intros. repeat (apply wf_cons; split; [lia|]). apply wf_nil. Qed.

Lemma mul_dword_spilled_correct a b : 0 <= a < BB * BB -> 0 <= b < BB * BB ->
  rv (mul_dword_spilled w a b) = a * b /\ twf w (mul_dword_spilled w a b).
Proof.
  intros Ha Hb. unfold mul_dword_spilled.
  destruct (mul_add_carry_dword w a b 0) as [lo hi] eqn:E.
  destruct (mul_add_carry_dword_spec w w_ge a b 0 lo hi Ha Hb ltac:(nia) E) as (Blo & Bhi & V).
  destruct (dword_split w w_pos lo Blo) as (L1 & L2 & L3). destruct (dword_split w w_pos hi Bhi) as (H1 & H2 & H3).
  destruct (from_buffer_spec w w_ge [lo mod BB; lo / BB; hi mod BB; hi / BB] (wf4 _ _ _ _ L1 L2 H1 H2)) as (V' & T).
  split; [|exact T]. rewrite V'. cbn [value]. nia.
Qed.

Lemma mul_dword_correct a b : 0 <= a < BB * BB -> 0 <= b < BB * BB ->
  rv (mul_dword w a b) = a * b /\ twf w (mul_dword w a b).
Proof.
  intros Ha Hb. unfold mul_dword. destruct (Z.ltb_spec a BB), (Z.ltb_spec b BB); cbn [andb];
    try (apply mul_dword_spilled_correct; auto). cbn [repr_value twf]. split; [reflexivity | nia].
Qed.

Lemma is_power_of_two_spec d : is_power_of_two d = true -> 0 < d /\ d = 2 ^ Z.log2 d.
Proof. unfold is_power_of_two. intros H. apply andb_prop in H. destruct H as [H1 H2]. apply Z.ltb_lt in H1. apply Z.eqb_eq in H2. auto. Qed.

Lemma shl_in_place_spec ws k : wfw ws -> 0 <= k -> 2 ^ k < BB ->
  forall r c, shl_in_place w ws k = (r, c) ->
  length r = length ws /\ wfw r /\ 0 <= c < BB /\ val r + c * BB ^ len ws = val ws * 2 ^ k.
Proof.
  intros Hw Hk Hlt r c E. unfold shl_in_place in E. inversion E; subst r c; clear E.
  pose proof (value_bounds w w_pos ws Hw) as Bv. set (m := BB ^ len ws) in *.
  assert (Hp : 0 < 2 ^ k) by (apply Z.pow_pos_nonneg; lia).
  assert (Hm : 0 < m) by lia.
  split; [apply to_words_length|]. split; [apply to_words_wf; exact w_pos|].
  split.
  - split; [apply Z.div_pos; nia | apply Z.div_lt_upper_bound; nia].
  - rewrite value_to_words; [|exact w_pos | apply Z.mod_pos_bound; exact Hm].
    pose proof (Z.div_mod (val ws * 2 ^ k) m ltac:(lia)). lia.
Qed.

Lemma mul_large_dword_correct buffer rhs : wfw buffer -> 0 <= rhs < BB * BB ->
  rv (mul_large_dword w buffer rhs) = val buffer * rhs /\ twf w (mul_large_dword w buffer rhs).
Proof.
  intros Hw Hr. unfold mul_large_dword.
  destruct (Z.eqb_spec rhs 0) as [->|N0]; [cbn [repr_value twf]; split; [ring | nia]|].
  destruct (Z.eqb_spec rhs 1) as [->|N1].
  { destruct (from_buffer_spec w w_ge buffer Hw) as (V & T). split; [rewrite V; ring | exact T]. }
  destruct (Z.ltb_spec rhs BB) as [Hlt|Hge].
  - assert (Hcore : forall r carry, length r = length buffer -> wfw r -> 0 <= carry < BB ->
                      val r + carry * BB ^ len buffer = val buffer * rhs ->
                      rv (from_buffer w (r ++ [carry])) = val buffer * rhs /\ twf w (from_buffer w (r ++ [carry]))).
    { intros r carry Lr Wr Bc V. destruct (from_buffer_spec w w_ge (r ++ [carry]) (wf_snoc w r carry Wr Bc)) as (V' & T).
      split; [|exact T]. rewrite V', val_snoc, (len_eq r buffer Lr). lia. }
    destruct (is_power_of_two rhs) eqn:Ep.
    + destruct (is_power_of_two_spec rhs Ep) as (Hpos & Hpow).
      destruct (shl_in_place w buffer (Z.log2 rhs)) as [r carry] eqn:E.
      destruct (shl_in_place_spec buffer (Z.log2 rhs) Hw (Z.log2_nonneg _) ltac:(lia) _ _ E) as (Lr & Wr & Bc & V).
      apply Hcore; auto. rewrite V, <- Hpow. reflexivity.
    + destruct (mul_word_in_place w buffer rhs) as [r carry] eqn:E.
      destruct (mul_word_in_place_spec w w_ge buffer rhs Hw ltac:(lia) _ _ E) as (Lr & Wr & Bc & V).
      apply Hcore; auto.
  - destruct (mul_dword_in_place w buffer rhs) as [r carry] eqn:E.
    destruct (mul_dword_in_place_spec w w_ge buffer rhs Hw Hr _ _ E) as (Lr & Wr & Bc & V).
    destruct (Z.eqb_spec carry 0) as [->|Nc].
    + destruct (from_buffer_spec w w_ge r Wr) as (V' & T). split; [rewrite V'; lia | exact T].
    + destruct (dword_split w w_pos carry Bc) as (C1 & C2 & C3).
      assert (Wcat : wfw (r ++ [carry mod BB; carry / BB])).
      { apply wf_app. split; [auto|]. apply wf_cons; split; [lia|]. apply wf_cons; split; [lia | apply wf_nil]. }
      destruct (from_buffer_spec w w_ge _ Wcat) as (V' & T). split; [|exact T].
      rewrite V', value_app. cbn [value]. rewrite (len_eq r buffer Lr). nia.
Qed.

Lemma list_eqb_eq : forall a b, list_eqb a b = true -> a = b.
Proof.
  unfold list_eqb. induction a as [|x a IH]; intros [|y b] H; try reflexivity; try discriminate.
  cbn [length Nat.eqb combine forallb fst snd] in H.
  apply andb_prop in H. destruct H as [H1 H2]. apply andb_prop in H2. destruct H2 as [H2 H3].
  apply Z.eqb_eq in H2. subst y. f_equal. apply IH. rewrite H1, H3. reflexivity.
Qed.

Lemma square_large_correct ws : wfw ws ->
  exists r, square_large w T_simple T_kara SQR_SIMPLE ws = Ok r /\ rv r = val ws * val ws /\ twf w r.
Proof.
  intros Hw. unfold square_large.
  destruct (sqr_correct w w_ge T_simple T_kara CHUNK SQR_SIMPLE T_simple_ok T_kara_ok CHUNK_ok ws Hw) as (r & E & Lr & Wr & V).
  rewrite E. destruct (from_buffer_spec w w_ge r Wr) as (V' & T). eexists. split; [reflexivity|]. split; [lia | exact T].
Qed.

Lemma mul_large_correct lhs rhs : wfw lhs -> wfw rhs ->
  exists r, mul_large w T_simple T_kara CHUNK SQR_SIMPLE lhs rhs = Ok r /\ rv r = val lhs * val rhs /\ twf w r.
Proof.
  intros Hl Hr. unfold mul_large. destruct (list_eqb lhs rhs) eqn:Eq.
  - apply list_eqb_eq in Eq. subst rhs. apply square_large_correct; auto.
  - destruct (multiply_correct w w_ge T_simple T_kara CHUNK T_simple_ok T_kara_ok CHUNK_ok lhs rhs Hl Hr) as (r & E & Lr & Wr & V).
    rewrite E. destruct (from_buffer_spec w w_ge r Wr) as (V' & T). eexists. split; [reflexivity|]. split; [lia | exact T].
Qed.

Theorem repr_mul_correct x y : tok x -> tok y ->
  exists r, repr_mul w T_simple T_kara CHUNK SQR_SIMPLE x y = Ok r /\ rv r = rv x * rv y /\ twf w r.
Proof.
  intros Hx Hy. destruct x as [d0|b0], y as [d1|b1]; cbn [repr_mul repr_value tok] in *.
  - destruct (mul_dword_correct d0 d1 Hx Hy) as (V & T). eexists. split; [reflexivity|]. auto.
  - destruct (mul_large_dword_correct b1 d0 Hy Hx) as (V & T). eexists. split; [reflexivity|]. split; [lia | exact T].
  - destruct (mul_large_dword_correct b0 d1 Hx Hy) as (V & T). eexists. split; [reflexivity|]. auto.
  - apply mul_large_correct; auto.
Qed.

Theorem repr_sqr_correct x : tok x ->
  exists r, repr_sqr w T_simple T_kara SQR_SIMPLE x = Ok r /\ rv r = rv x * rv x /\ twf w r.
Proof.
  intros Hx. destruct x as [d|ws]; cbn [repr_sqr repr_value tok] in *.
  - destruct (Z.ltb_spec d BB).
    + eexists. split; [reflexivity|]. cbn [repr_value twf]. split; [reflexivity | nia].
    + destruct (mul_dword_spilled_correct d d Hx Hx) as (V & T). eexists. split; [reflexivity|]. auto.
  - apply square_large_correct; auto.
Qed.

Theorem ibig_mul_asis_correct s0 x s1 y : tok x -> tok y ->
  exists r, ibig_mul_asis w T_simple T_kara CHUNK SQR_SIMPLE s0 x s1 y = Ok r /\
            srv r = signed s0 (rv x) * signed s1 (rv y) /\ twf w (snd r).
Proof.
  intros Hx Hy. unfold ibig_mul_asis. destruct (repr_mul_correct x y Hx Hy) as (r & E & V & T). rewrite E.
  destruct (with_sign_value w (sign_mul s0 s1) r) as (V' & S). eexists. split; [reflexivity|].
  rewrite V', S, V. split; [|exact T]. unfold signed. rewrite sgnz_mul. ring.
Qed.

End OpsMulProofs.
