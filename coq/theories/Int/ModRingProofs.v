(** C13 - the as-is model of ModRingModel.v computes what ModRingSpec.v demands, for every word size
    [w >= 2], every modulus [m >= 1] and all operands; no debug assertion fires and every call into
    num-modular meets that function's precondition (the model would answer [Panic Undocumented]). *)
From Dashu Require Import Base.Prelude Base.Words Int.ModRingSpec Int.ModRingSpecProofs
  Int.ModRingPowModel Int.ModRingPowProofs Int.ModRingModel.
Open Scope Z_scope.

(** ---------------- arithmetic helpers ---------------- *)
Lemma mod_sub_once a T : T <= a < 2 * T -> a mod T = a - T.
Proof. intros H. symmetry. apply (Z.mod_unique a T 1 (a - T)); lia. Qed.

Lemma mod_add_once a T : - T <= a < 0 -> a mod T = a + T.
Proof. intros H. symmetry. apply (Z.mod_unique a T (-1) (a + T)); lia. Qed.

Lemma lift_mod m s v : 0 < m -> 0 <= s -> (v * 2 ^ s) mod (m * 2 ^ s) = (v mod m) * 2 ^ s.
Proof. intros Hm Hs. apply Z.mul_mod_distr_r; [lia | apply Z.pow_nonzero; lia]. Qed.

Lemma bitlen_spec x : 0 < x -> 2 ^ (bitlen x - 1) <= x < 2 ^ bitlen x.
Proof.
  intros Hx. unfold bitlen. destruct (Z.leb_spec x 0); [lia|].
  pose proof (Z.log2_spec x Hx) as [L U]. replace (Z.log2 x + 1 - 1) with (Z.log2 x) by lia.
  rewrite <- Z.add_1_r in U. lia.
Qed.

Lemma bitlen_pos x : 0 < x -> 1 <= bitlen x.
Proof. intros Hx. unfold bitlen. destruct (Z.leb_spec x 0); [lia|]. pose proof (Z.log2_nonneg x). lia. Qed.

Lemma bitlen_le x k : 0 <= k -> 0 <= x < 2 ^ k -> bitlen x <= k.
Proof.
  intros Hk Hx. destruct (Z.eq_dec x 0) as [->|N]; [cbn; lia|].
  pose proof (bitlen_spec x ltac:(lia)) as [L _]. pose proof (bitlen_pos x ltac:(lia)).
  destruct (Z.leb_spec (bitlen x) k); [assumption|].
  assert (2 ^ k <= 2 ^ (bitlen x - 1)) by (apply Z.pow_le_mono_r; lia). lia.
Qed.

Lemma bitlen_gt x k : 0 <= k -> 2 ^ k <= x -> k < bitlen x.
Proof.
  intros Hk Hx. assert (0 < 2 ^ k) by (apply Z.pow_pos_nonneg; lia).
  pose proof (bitlen_spec x ltac:(lia)) as [_ U].
  destruct (Z.ltb_spec k (bitlen x)); [assumption|].
  assert (2 ^ bitlen x <= 2 ^ k) by (apply Z.pow_le_mono_r; [lia | lia]). lia.
Qed.

Section Proofs.
Variable w : Z.
Hypothesis w_ge : 2 <= w.
Variable nm_div_rem_2by1 : Z -> Z -> Z * Z.
Variable nm_div_rem_3by2 : Z -> Z -> Z -> Z * Z.
Variable nm_invm : Z -> Z -> option Z.
Variable big_gcd_ext : Z -> Z -> Z * Z * sign.

Local Notation B := (2 ^ w).

(** the contracts of the external functions (documentation of num-modular 0.6 / dashu gcd) *)
Hypothesis nm_2by1_ok : forall d a, B / 2 <= d < B -> 0 <= a -> a / B < d ->
  nm_div_rem_2by1 d a = (a / d, a mod d).
Hypothesis nm_3by2_ok : forall d lo hi, B * B / 2 <= d < B * B -> 0 <= lo < B -> 0 <= hi < d ->
  nm_div_rem_3by2 d lo hi = ((lo + B * hi) / d, (lo + B * hi) mod d).
Hypothesis nm_invm_ok : forall x m, 0 < m -> 0 <= x < m ->
  match nm_invm x m with Some v => is_inverse m x v | None => Z.gcd x m <> 1 end.
Hypothesis big_gcd_ext_ok : forall lhs rhs, 0 < rhs < lhs ->
  let '(g, b, s) := big_gcd_ext lhs rhs in
  g = Z.gcd lhs rhs /\ 0 <= b < lhs /\ (rhs * signed s b) mod lhs = g mod lhs.

Local Notation nwords := (nwords w).
Local Notation tsize := (tsize w).
Local Notation new_ring := (new_ring w).
Local Notation call_2by1 := (call_2by1 w nm_div_rem_2by1).
Local Notation call_3by2 := (call_3by2 nm_div_rem_3by2).
Local Notation call_4by2 := (call_4by2 w nm_div_rem_3by2).
Local Notation shl_dword := (shl_dword w).

Lemma B_pos : 0 < B. Proof. apply Z.pow_pos_nonneg; lia. Qed.
Lemma B_ge4 : 4 <= B.
Proof. replace 4 with (2 ^ 2) by reflexivity. apply Z.pow_le_mono_r; lia. Qed.
Lemma B_even : B = 2 * (B / 2).
Proof.
  replace w with ((w - 1) + 1) at 1 2 by lia. rewrite Z.pow_add_r, Z.pow_1_r by lia.
  rewrite Z.div_mul by lia. ring.
Qed.
Lemma BB_half : B * B / 2 = B * (B / 2).
Proof. rewrite B_even at 2. replace (B * (2 * (B / 2))) with (B * (B / 2) * 2) by ring. apply Z.div_mul. lia. Qed.

(** ---------------- word counts ---------------- *)
Lemma nwords_bound x : 0 <= x -> 0 <= nwords x /\ x < B ^ nwords x.
Proof.
  intros Hx. unfold ModRingModel.nwords.
  assert (0 <= bitlen x) as Hb.
  { unfold bitlen. destruct (x <=? 0); [lia | pose proof (Z.log2_nonneg x); lia]. }
  set (n := (bitlen x + w - 1) / w).
  assert (0 <= n) as Hn by (apply Z.div_pos; lia).
  assert (bitlen x <= w * n) as Hc.
  { pose proof (Z.div_mod (bitlen x + w - 1) w ltac:(lia)) as D.
    pose proof (Z.mod_pos_bound (bitlen x + w - 1) w ltac:(lia)). fold n in D. lia. }
  split; [exact Hn|]. rewrite <- Z.pow_mul_r by lia.
  destruct (Z.eq_dec x 0) as [->|N]; [apply Z.pow_pos_nonneg; nia|].
  pose proof (bitlen_spec x ltac:(lia)) as [_ U].
  apply Z.lt_le_trans with (2 ^ bitlen x); [exact U | apply Z.pow_le_mono_r; lia].
Qed.

Lemma nwords_le x k : 0 <= k -> 0 <= x < B ^ k -> nwords x <= k.
Proof.
  intros Hk Hx. unfold ModRingModel.nwords. rewrite <- Z.pow_mul_r in Hx by lia.
  pose proof (bitlen_le x (w * k) ltac:(nia) Hx) as Hb.
  apply Z.lt_succ_r. apply Z.div_lt_upper_bound; [lia|]. nia.
Qed.

Lemma nwords_zero x : 0 <= x -> nwords x = 0 -> x = 0.
Proof. intros Hx E. pose proof (nwords_bound x Hx) as [_ U]. rewrite E, Z.pow_0_r in U. lia. Qed.

(** ---------------- well-formed rings ---------------- *)
Definition ring_wf (r : ring) : Prop :=
  1 <= r_m r /\ 0 <= r_shift r < w /\
  match r_kind r with
  | KSingle => r_n r = 1
  | KDouble => r_n r = 2
  | KLarge => 3 <= r_n r
  end /\
  tsize r = 2 * (tsize r / 2) /\ tsize r / 2 <= nd r < tsize r.

Lemma norm_bounds m S : 1 <= m -> bitlen m <= S ->
  2 ^ S = 2 * (2 ^ S / 2) /\ 2 ^ S / 2 <= m * 2 ^ (S - bitlen m) < 2 ^ S.
Proof.
  intros Hm HS. pose proof (bitlen_spec m ltac:(lia)) as [L U]. pose proof (bitlen_pos m ltac:(lia)) as Hb.
  assert (2 ^ S = 2 * 2 ^ (S - 1)) as E1 by (rewrite <- Z.pow_succ_r by lia; f_equal; lia).
  assert (2 ^ S / 2 = 2 ^ (S - 1)) as E2 by (rewrite E1, Z.mul_comm, Z.div_mul by lia; reflexivity).
  rewrite E2. split; [exact E1|].
  assert (0 < 2 ^ (S - bitlen m)) as P by (apply Z.pow_pos_nonneg; lia).
  assert (2 ^ (S - 1) = 2 ^ (bitlen m - 1) * 2 ^ (S - bitlen m)) as E3 by (rewrite <- Z.pow_add_r by lia; f_equal; lia).
  assert (2 ^ S = 2 ^ bitlen m * 2 ^ (S - bitlen m)) as E4 by (rewrite <- Z.pow_add_r by lia; f_equal; lia).
  rewrite E3, E4. nia.
Qed.

Theorem new_ring_ok id m : 1 <= m ->
  exists r, new_ring id m = Ok r /\ ring_wf r /\ r_m r = m /\ r_id r = id.
Proof.
  intros Hm. unfold ModRingModel.new_ring. pose proof B_pos as HB.
  pose proof (bitlen_pos m ltac:(lia)) as Hbl.
  destruct (Z.leb_spec m 0); [lia|].
  destruct (Z.ltb_spec m B) as [H1|H1].
  { eexists; split; [reflexivity|]. split; [|split; reflexivity].
    pose proof (bitlen_le m w ltac:(lia) ltac:(lia)) as Hle.
    unfold ring_wf, nd, ModRingModel.tsize; cbn [r_m r_shift r_kind r_n]. rewrite Z.pow_1_r.
    split; [lia|]. split; [lia|]. split; [reflexivity|]. apply norm_bounds; lia. }
  destruct (Z.ltb_spec m (B * B)) as [H2|H2].
  { eexists; split; [reflexivity|]. split; [|split; reflexivity].
    rewrite <- Z.pow_add_r in H2 by lia.
    pose proof (bitlen_le m (w + w) ltac:(lia) ltac:(lia)) as Hle.
    pose proof (bitlen_gt m w ltac:(lia) H1) as Hgt.
    unfold ring_wf, nd, ModRingModel.tsize; cbn [r_m r_shift r_kind r_n].
    rewrite <- Z.pow_mul_r by lia. replace (w * 2) with (2 * w) by lia.
    split; [lia|]. split; [lia|]. split; [reflexivity|]. apply norm_bounds; lia. }
  eexists; split; [reflexivity|]. split; [|split; reflexivity].
  rewrite <- Z.pow_add_r in H2 by lia.
  pose proof (bitlen_gt m (w + w) ltac:(lia) H2) as Hgt.
  unfold ring_wf, nd, ModRingModel.tsize; cbn [r_m r_shift r_kind r_n].
  unfold ModRingModel.nwords. set (n := (bitlen m + w - 1) / w).
  pose proof (Z.div_mod (bitlen m + w - 1) w ltac:(lia)) as D.
  pose proof (Z.mod_pos_bound (bitlen m + w - 1) w ltac:(lia)) as Hr. fold n in D.
  assert (3 <= n) as Hn by nia.
  rewrite <- Z.pow_mul_r by lia. replace (w * n) with (n * w) by lia.
  split; [lia|]. split; [lia|]. split; [exact Hn|]. apply norm_bounds; lia.
Qed.

(** consequences of well-formedness used everywhere *)
Lemma wf_facts r : ring_wf r ->
  0 < 2 ^ r_shift r /\ 2 * 2 ^ r_shift r <= B /\ 0 < nd r /\ 0 < tsize r /\
  nd r / 2 ^ r_shift r = r_m r.
Proof.
  intros (Hm & Hs & _ & HT & Hd). unfold nd in *.
  assert (0 < 2 ^ r_shift r) as P by (apply Z.pow_pos_nonneg; lia).
  assert (2 * 2 ^ r_shift r <= B) as P2.
  { rewrite <- Z.pow_succ_r by lia. apply Z.pow_le_mono_r; lia. }
  assert (0 < r_m r * 2 ^ r_shift r) as Pn by nia.
  split; [exact P|]. split; [exact P2|]. split; [exact Pn|]. split; [lia|]. apply Z.div_mul; lia.
Qed.

Lemma tsize_kind r : ring_wf r ->
  match r_kind r with KSingle => tsize r = B | KDouble => tsize r = B * B | KLarge => B * B * B <= tsize r end.
Proof.
  intros (_ & _ & Hk & _). unfold ModRingModel.tsize. pose proof B_pos.
  destruct (r_kind r).
  - rewrite Hk. apply Z.pow_1_r.
  - rewrite Hk. replace 2 with (1 + 1) by lia. rewrite Z.pow_add_r, Z.pow_1_r by lia. reflexivity.
  - replace (B * B * B) with (B ^ 3) by ring. apply Z.pow_le_mono_r; lia.
Qed.

(** the representation relation: raw = (x mod m) * 2^shift *)
Definition rep (r : ring) (x : Z) (e : reduced) : Prop :=
  e_ring e = r /\ e_raw e = (x mod r_m r) * 2 ^ r_shift r.

Lemma rep_valid r x : ring_wf r -> is_valid r ((x mod r_m r) * 2 ^ r_shift r) = true.
Proof.
  intros Hwf. pose proof (wf_facts r Hwf) as (P & _ & _ & _ & _). destruct Hwf as (Hm & Hs & _).
  pose proof (Z.mod_pos_bound x (r_m r) ltac:(lia)) as Hx.
  unfold is_valid, nd. rewrite Z.mod_mul by lia.
  replace (0 <=? x mod r_m r * 2 ^ r_shift r) with true by (symmetry; apply Z.leb_le; nia).
  replace (x mod r_m r * 2 ^ r_shift r <? r_m r * 2 ^ r_shift r) with true by (symmetry; apply Z.ltb_lt; nia).
  reflexivity.
Qed.

Lemma mk_rep r x : ring_wf r -> exists e, mk r ((x mod r_m r) * 2 ^ r_shift r) = Ok e /\ rep r x e.
Proof.
  intros Hwf. unfold mk. rewrite rep_valid by assumption. eexists; split; [reflexivity|]. split; reflexivity.
Qed.

Lemma raw_bounds r x : ring_wf r -> 0 <= (x mod r_m r) * 2 ^ r_shift r < nd r.
Proof.
  intros Hwf. pose proof (wf_facts r Hwf) as (P & _). destruct Hwf as (Hm & _).
  pose proof (Z.mod_pos_bound x (r_m r) ltac:(lia)). unfold nd. nia.
Qed.

(** residues are read back exactly, and lie in [0, m) *)
Theorem residue_ok r x e : ring_wf r -> rep r x e ->
  residue_asis e = Ok (reduce_spec (r_m r) x) /\ 0 <= reduce_spec (r_m r) x < r_m r /\ modulus_asis e = r_m r.
Proof.
  intros Hwf [Er Ev]. pose proof (wf_facts r Hwf) as (P & _ & _ & _ & Hdiv).
  unfold residue_asis, modulus_asis, reduce_spec. rewrite Er, Ev, rep_valid by assumption.
  rewrite Z.div_mul by lia. split; [reflexivity|]. split; [apply Z.mod_pos_bound; destruct Hwf; lia | exact Hdiv].
Qed.

(** ---------------- calls into num-modular: the precondition holds, the result is the remainder ---------------- *)
Lemma call_2by1_ok d a : B / 2 <= d < B -> 0 <= a -> a / B < d -> call_2by1 d a = Ok (a mod d).
Proof.
  intros Hd Ha Hpre. unfold ModRingModel.call_2by1.
  replace (a / B <? d) with true by (symmetry; apply Z.ltb_lt; exact Hpre).
  rewrite nm_2by1_ok by assumption. reflexivity.
Qed.

Lemma call_3by2_ok d lo hi : B * B / 2 <= d < B * B -> 0 <= lo < B -> 0 <= hi < d ->
  call_3by2 d lo hi = Ok ((lo + B * hi) mod d).
Proof.
  intros Hd Hlo Hhi. unfold ModRingModel.call_3by2.
  replace (hi <? d) with true by (symmetry; apply Z.ltb_lt; lia).
  rewrite nm_3by2_ok by assumption. reflexivity.
Qed.

Lemma call_4by2_ok d a : B * B / 2 <= d < B * B -> 0 <= a -> a / (B * B) < d -> call_4by2 d a = Ok (a mod d).
Proof.
  intros Hd Ha Hpre. pose proof B_pos as HB. unfold ModRingModel.call_4by2.
  assert (0 < B * B) as HBB by nia.
  assert (0 < d) as Hdp by (pose proof B_ge4; rewrite BB_half in Hd; pose proof B_even; nia).
  pose proof (Z.mod_pos_bound a (B * B) HBB) as Hlo.
  pose proof (Z.div_mod a (B * B) ltac:(lia)) as D.
  pose proof (Z.mod_pos_bound (a mod (B * B)) B HB) as H0.
  pose proof (Z.div_mod (a mod (B * B)) B ltac:(lia)) as D0.
  assert (0 <= a mod (B * B) / B < B) as H1.
  { split; [apply Z.div_pos; lia | apply Z.div_lt_upper_bound; lia]. }
  assert (0 <= a / (B * B)) as Hhi by (apply Z.div_pos; lia).
  rewrite call_3by2_ok by (try assumption; lia). cbn [rbind].
  pose proof (Z.mod_pos_bound (a mod (B * B) / B + B * (a / (B * B))) d Hdp) as Hr1.
  rewrite call_3by2_ok by (try assumption; lia). f_equal.
  rewrite Zplus_mod, Zmult_mod_idemp_r, <- Zplus_mod. f_equal. lia.
Qed.

Lemma shl_dword_ok dw s : 0 <= dw < B * B -> 0 <= s -> 2 ^ s <= B ->
  let '(n0, n1, n2) := shl_dword dw s in
  n0 + B * (n1 + B * n2) = dw * 2 ^ s /\ 0 <= n0 < B /\ 0 <= n1 < B /\ 0 <= n2 < 2 ^ s.
Proof.
  intros Hdw Hs Hsb. pose proof B_pos as HB. unfold ModRingModel.shl_dword.
  assert (0 < 2 ^ s) as P by (apply Z.pow_pos_nonneg; lia).
  pose proof (Z.mod_pos_bound dw B HB) as Hlo. pose proof (Z.div_mod dw B ltac:(lia)) as D.
  assert (0 <= dw / B < B) as Hhi by (split; [apply Z.div_pos; lia | apply Z.div_lt_upper_bound; lia]).
  set (lo := dw mod B) in *. set (hi := dw / B) in *.
  set (t := lo * 2 ^ s). assert (0 <= t < B * 2 ^ s) as Ht by (unfold t; nia).
  assert (0 <= t / B < 2 ^ s) as Htq by (split; [apply Z.div_pos; lia | apply Z.div_lt_upper_bound; lia]).
  set (u := hi * 2 ^ s + t / B). assert (0 <= u < B * 2 ^ s) as Hu by (unfold u; nia).
  pose proof (Z.div_mod t B ltac:(lia)) as Dt. pose proof (Z.div_mod u B ltac:(lia)) as Du.
  pose proof (Z.mod_pos_bound t B HB). pose proof (Z.mod_pos_bound u B HB).
  assert (0 <= u / B < 2 ^ s) by (split; [apply Z.div_pos; lia | apply Z.div_lt_upper_bound; lia]).
  repeat split; try lia; unfold u, t in *; nia.
Qed.

(** ---------------- div_const.rs: (x << shift) % normalized divisor, for every size class ---------------- *)
Lemma shift_le_nd r : ring_wf r -> 2 ^ r_shift r <= nd r.
Proof. intros Hwf. pose proof (wf_facts r Hwf) as (P & _). destruct Hwf as (Hm & _). unfold nd. nia. Qed.

Lemma single_nd r : ring_wf r -> r_kind r = KSingle -> B / 2 <= nd r < B.
Proof. intros Hwf Hk. pose proof (tsize_kind r Hwf) as T. rewrite Hk in T. destruct Hwf as (_ & _ & _ & _ & H). rewrite T in H. exact H. Qed.

Lemma double_nd r : ring_wf r -> r_kind r = KDouble -> B * B / 2 <= nd r < B * B.
Proof. intros Hwf Hk. pose proof (tsize_kind r Hwf) as T. rewrite Hk in T. destruct Hwf as (_ & _ & _ & _ & H). rewrite T in H. exact H. Qed.

Lemma div_rem_1by1_mod T d a : T = 2 * (T / 2) -> T / 2 <= d < T -> 0 <= a < T -> snd (div_rem_1by1 d a) = a mod d.
Proof.
  intros HT Hd Ha. unfold div_rem_1by1. destruct (Z.ltb_spec a d); cbn [snd].
  - rewrite Z.mod_small by lia. reflexivity.
  - rewrite mod_sub_once by lia. reflexivity.
Qed.

Lemma s_rem_word_ok r x : ring_wf r -> r_kind r = KSingle -> 0 <= x < B ->
  s_rem_word w nm_div_rem_2by1 r x = Ok ((x * 2 ^ r_shift r) mod nd r).
Proof.
  intros Hwf Hk Hx. pose proof (single_nd r Hwf Hk) as Hd. pose proof (shift_le_nd r Hwf) as Hsd.
  pose proof (wf_facts r Hwf) as (P & P2 & Pn & _). pose proof B_pos as HB.
  unfold s_rem_word. destruct (Z.eqb_spec (r_shift r) 0) as [S0|SN].
  - rewrite S0, Z.pow_0_r, Z.mul_1_r. f_equal. apply (div_rem_1by1_mod B); [apply B_even | exact Hd | exact Hx].
  - apply call_2by1_ok; [exact Hd | nia |]. apply Z.div_lt_upper_bound; [lia | nia].
Qed.

Lemma s_rem_dword_ok r x : ring_wf r -> r_kind r = KSingle -> 0 <= x < B * B ->
  s_rem_dword w nm_div_rem_2by1 r x = Ok ((x * 2 ^ r_shift r) mod nd r).
Proof.
  intros Hwf Hk Hx. pose proof (single_nd r Hwf Hk) as Hd. pose proof (shift_le_nd r Hwf) as Hsd.
  pose proof (wf_facts r Hwf) as (P & P2 & Pn & _). pose proof B_pos as HB.
  unfold s_rem_dword. destruct (Z.eqb_spec (r_shift r) 0) as [S0|SN].
  - rewrite S0, Z.pow_0_r, Z.mul_1_r.
    assert (0 <= x / B < B) as Hhi by (split; [apply Z.div_pos; lia | apply Z.div_lt_upper_bound; lia]).
    rewrite (div_rem_1by1_mod B) by (try apply B_even; assumption).
    pose proof (Z.mod_pos_bound (x / B) (nd r) Pn) as Hr1. pose proof (Z.mod_pos_bound x B HB) as Hlo.
    rewrite call_2by1_ok; [| exact Hd | nia | apply Z.div_lt_upper_bound; [lia | nia]].
    f_equal. rewrite Zplus_mod, Zmult_mod_idemp_r, <- Zplus_mod. f_equal.
    pose proof (Z.div_mod x B ltac:(lia)). lia.
  - pose proof (shl_dword_ok x (r_shift r) Hx ltac:(destruct Hwf; lia) ltac:(lia)) as Hsh.
    destruct (shl_dword x (r_shift r)) as [[n0 n1] n2]. destruct Hsh as (E & H0 & H1 & H2).
    rewrite call_2by1_ok; [| exact Hd | nia | apply Z.div_lt_upper_bound; [lia | nia]]. cbn [rbind].
    pose proof (Z.mod_pos_bound (n1 + B * n2) (nd r) Pn) as Hr1.
    rewrite call_2by1_ok; [| exact Hd | nia | apply Z.div_lt_upper_bound; [lia | nia]].
    f_equal. rewrite Zplus_mod, Zmult_mod_idemp_r, <- Zplus_mod. f_equal. exact E.
Qed.

Lemma s_rem_large_ok r x : ring_wf r -> r_kind r = KSingle -> 0 <= x ->
  s_rem_large w nm_div_rem_2by1 r x = Ok ((x * 2 ^ r_shift r) mod nd r).
Proof.
  intros Hwf Hk Hx. pose proof (single_nd r Hwf Hk) as Hd. pose proof (shift_le_nd r Hwf) as Hsd.
  pose proof (wf_facts r Hwf) as (P & P2 & Pn & _). pose proof B_pos as HB.
  pose proof (Z.mod_pos_bound x (nd r) Pn) as Hrem.
  unfold s_rem_large. destruct (Z.eqb_spec (r_shift r) 0) as [S0|SN].
  - rewrite S0, Z.pow_0_r, Z.mul_1_r. reflexivity.
  - rewrite call_2by1_ok; [| exact Hd | nia | apply Z.div_lt_upper_bound; [lia | nia]].
    rewrite Zmult_mod_idemp_l. reflexivity.
Qed.

Lemma s_from_ubig_ok r x : ring_wf r -> r_kind r = KSingle -> 0 <= x ->
  s_from_ubig w nm_div_rem_2by1 r x = Ok ((x mod r_m r) * 2 ^ r_shift r).
Proof.
  intros Hwf Hk Hx. rewrite <- lift_mod by (destruct Hwf; lia). fold (nd r). unfold s_from_ubig.
  destruct (Z.ltb_spec x B); [apply s_rem_word_ok; [assumption | assumption | lia]|].
  destruct (Z.ltb_spec x (B * B)); [apply s_rem_dword_ok; [assumption | assumption | lia]|].
  apply s_rem_large_ok; assumption.
Qed.

(** before the repair (F02): a full-width modulus and a high word >= modulus violate the precondition *)
Lemma s_rem_dword_prefix_refuted r x : ring_wf r -> r_kind r = KSingle -> r_shift r = 0 ->
  0 <= x -> nd r <= x / B -> s_rem_dword_prefix w nm_div_rem_2by1 r x = Panic Undocumented.
Proof.
  intros Hwf Hk S0 Hx Hhi. unfold s_rem_dword_prefix, ModRingModel.call_2by1. rewrite S0. cbn [Z.eqb].
  replace (x / B <? nd r) with false by (symmetry; apply Z.ltb_ge; exact Hhi). reflexivity.
Qed.

Lemma d_rem_dword_ok r x : ring_wf r -> r_kind r = KDouble -> 0 <= x < B * B ->
  d_rem_dword w nm_div_rem_3by2 r x = Ok ((x * 2 ^ r_shift r) mod nd r).
Proof.
  intros Hwf Hk Hx. pose proof (double_nd r Hwf Hk) as Hd.
  pose proof (wf_facts r Hwf) as (P & P2 & Pn & _). pose proof B_pos as HB.
  unfold d_rem_dword. destruct (Z.eqb_spec (r_shift r) 0) as [S0|SN].
  - rewrite S0, Z.pow_0_r, Z.mul_1_r. f_equal.
    apply (div_rem_1by1_mod (B * B)); [rewrite BB_half; pose proof B_even; nia | exact Hd | exact Hx].
  - pose proof (shl_dword_ok x (r_shift r) Hx ltac:(destruct Hwf; lia) ltac:(lia)) as Hsh.
    destruct (shl_dword x (r_shift r)) as [[n0 n1] n2]. destruct Hsh as (E & H0 & H1 & H2).
    rewrite call_3by2_ok; [rewrite E; reflexivity | exact Hd | exact H0 |].
    rewrite BB_half in Hd. pose proof B_even. nia.
Qed.

Lemma d_rem_large_ok r x : ring_wf r -> r_kind r = KDouble -> 0 <= x ->
  d_rem_large w nm_div_rem_3by2 r x = Ok ((x * 2 ^ r_shift r) mod nd r).
Proof.
  intros Hwf Hk Hx. pose proof (double_nd r Hwf Hk) as Hd.
  pose proof (wf_facts r Hwf) as (P & P2 & Pn & _). pose proof B_pos as HB.
  pose proof (Z.mod_pos_bound x (nd r) Pn) as Hrem.
  unfold d_rem_large. destruct (Z.eqb_spec (r_shift r) 0) as [S0|SN].
  - rewrite S0, Z.pow_0_r, Z.mul_1_r. reflexivity.
  - pose proof (shl_dword_ok (x mod nd r) (r_shift r) ltac:(lia) ltac:(destruct Hwf; lia) ltac:(lia)) as Hsh.
    destruct (shl_dword (x mod nd r) (r_shift r)) as [[n0 n1] n2]. destruct Hsh as (E & H0 & H1 & H2).
    rewrite call_3by2_ok; [rewrite E, Zmult_mod_idemp_l; reflexivity | exact Hd | exact H0 |].
    pose proof B_even. nia.
Qed.

Lemma d_from_ubig_ok r x : ring_wf r -> r_kind r = KDouble -> 0 <= x ->
  d_from_ubig w nm_div_rem_3by2 r x = Ok ((x mod r_m r) * 2 ^ r_shift r).
Proof.
  intros Hwf Hk Hx. rewrite <- lift_mod by (destruct Hwf; lia). fold (nd r). unfold d_from_ubig.
  destruct (Z.ltb_spec x (B * B)); [apply d_rem_dword_ok; [assumption | assumption | lia]|].
  apply d_rem_large_ok; assumption.
Qed.

(** multi-word rings: the modulus has at least three words, so it exceeds B^(n-1) *)
Lemma large_m_lb r : ring_wf r -> B ^ (r_n r - 1) <= r_m r.
Proof.
  intros Hwf. pose proof (wf_facts r Hwf) as (P & P2 & Pn & PT & _).
  destruct Hwf as (Hm & Hs & Hk & HT & Hd). unfold nd, ModRingModel.tsize in *.
  assert (1 <= r_n r) as Hn by (destruct (r_kind r); lia).
  assert (B ^ r_n r = B * B ^ (r_n r - 1)) as E by (rewrite <- Z.pow_succ_r by lia; f_equal; lia).
  assert (0 < B ^ (r_n r - 1)) by (apply Z.pow_pos_nonneg; [apply B_pos | lia]).
  rewrite E in *. nia.
Qed.

Lemma l_rem_repr_ok r x : ring_wf r -> r_kind r = KLarge -> 0 <= x ->
  l_rem_repr w r x = (x mod r_m r) * 2 ^ r_shift r.
Proof.
  intros Hwf Hk Hx. pose proof (wf_facts r Hwf) as (P & P2 & Pn & PT & _). pose proof B_pos as HB.
  pose proof (large_m_lb r Hwf) as Hlb. pose proof Hwf as (Hm & Hs & Hkn & _). rewrite Hk in Hkn.
  unfold l_rem_repr. destruct (Z.ltb_spec x (B * B)) as [Hsmall|Hbig].
  - pose proof (shl_dword_ok x (r_shift r) ltac:(lia) ltac:(lia) ltac:(lia)) as Hsh.
    destruct (shl_dword x (r_shift r)) as [[n0 n1] n2]. destruct Hsh as (E & _).
    assert (B * B <= B ^ (r_n r - 1)) as H2.
    { replace (B * B) with (B ^ 2) by ring. apply Z.pow_le_mono_r; lia. }
    rewrite Z.mod_small by lia. lia.
  - destruct (Z.leb_spec (r_n r) (nwords x + 1)) as [Hlong|Hshort].
    + fold (nd r). unfold nd. apply lift_mod; lia.
    + pose proof (nwords_bound x Hx) as [Hn0 Hub].
      assert (B ^ nwords x <= B ^ (r_n r - 1)) by (apply Z.pow_le_mono_r; lia).
      rewrite Z.mod_small by lia. reflexivity.
Qed.

Theorem from_ubig_ok r x : ring_wf r -> 0 <= x ->
  exists e, from_ubig w nm_div_rem_2by1 nm_div_rem_3by2 r x = Ok e /\ rep r x e.
Proof.
  intros Hwf Hx. unfold from_ubig. destruct (r_kind r) eqn:Hk.
  - rewrite s_from_ubig_ok by assumption. cbn [rbind]. apply mk_rep; assumption.
  - rewrite d_from_ubig_ok by assumption. cbn [rbind]. apply mk_rep; assumption.
  - rewrite l_rem_repr_ok by assumption. apply mk_rep; assumption.
Qed.

(** ---------------- add.rs: the carry/borrow logic computes the sum / difference modulo the divisor ---------------- *)
Lemma vanilla_add_ok T d l r : T = 2 * (T / 2) -> T / 2 <= d < T -> 0 <= l < d -> 0 <= r < d ->
  vanilla_add T d l r = Ok ((l + r) mod d).
Proof.
  intros HT Hd Hl Hr. unfold vanilla_add.
  destruct (Z.leb_spec T (l + r)) as [Hov|Hno]; cbn [orb].
  - rewrite (mod_sub_once (l + r) T) by lia.
    replace (l + r - T <? d) with true by (symmetry; apply Z.ltb_lt; lia). cbn [Bool.eqb].
    rewrite (mod_add_once (l + r - T - d) T) by lia. rewrite (mod_sub_once (l + r) d) by lia. f_equal. lia.
  - rewrite (Z.mod_small (l + r) T) by lia. destruct (Z.leb_spec d (l + r)) as [Hge|Hlt].
    + replace (l + r <? d) with false by (symmetry; apply Z.ltb_ge; lia). cbn [Bool.eqb].
      rewrite (Z.mod_small (l + r - d) T) by lia. rewrite (mod_sub_once (l + r) d) by lia. reflexivity.
    + rewrite (Z.mod_small (l + r) d) by lia. reflexivity.
Qed.

Lemma vanilla_sub_ok d l r : 0 <= l < d -> 0 <= r < d -> vanilla_sub d l r = (l - r) mod d.
Proof.
  intros Hl Hr. unfold vanilla_sub. destruct (Z.leb_spec r l).
  - rewrite Z.mod_small by lia. reflexivity.
  - rewrite mod_add_once by lia. lia.
Qed.

Lemma vanilla_neg_ok d x : 0 <= x < d -> vanilla_neg d x = (- x) mod d.
Proof.
  intros Hx. unfold vanilla_neg. destruct (Z.eqb_spec x 0) as [->|N].
  - rewrite Z.mod_0_l by lia. reflexivity.
  - rewrite mod_add_once by lia. lia.
Qed.

Lemma large_sub_ok T d l r : T / 2 <= d < T -> 0 <= l < d -> 0 <= r < d ->
  large_sub T d l r = Ok ((l - r) mod d).
Proof.
  intros Hd Hl Hr. unfold large_sub. destruct (Z.ltb_spec l r).
  - rewrite (mod_add_once (l - r) T) by lia.
    replace (T <=? l - r + T + d) with true by (symmetry; apply Z.leb_le; lia).
    rewrite (mod_sub_once (l - r + T + d) T) by lia. rewrite (mod_add_once (l - r) d) by lia. f_equal. lia.
  - rewrite (Z.mod_small (l - r) T) by lia. rewrite (Z.mod_small (l - r) d) by lia. reflexivity.
Qed.

Lemma large_neg_ok d x : 0 <= x < d -> large_neg d x = Ok ((- x) mod d).
Proof.
  intros Hx. unfold large_neg. destruct (Z.eqb_spec x 0) as [->|N].
  - rewrite Z.mod_0_l by lia. reflexivity.
  - replace (d <? x) with false by (symmetry; apply Z.ltb_ge; lia). rewrite mod_add_once by lia. f_equal. lia.
Qed.

(** raw-level modular arithmetic lifts to the residues *)
Lemma lift_add r x y : ring_wf r ->
  ((x mod r_m r) * 2 ^ r_shift r + (y mod r_m r) * 2 ^ r_shift r) mod nd r = ((x + y) mod r_m r) * 2 ^ r_shift r.
Proof.
  intros (Hm & Hs & _). rewrite <- Z.mul_add_distr_r. unfold nd. rewrite lift_mod by lia.
  rewrite <- Zplus_mod. reflexivity.
Qed.
Lemma lift_sub r x y : ring_wf r ->
  ((x mod r_m r) * 2 ^ r_shift r - (y mod r_m r) * 2 ^ r_shift r) mod nd r = ((x - y) mod r_m r) * 2 ^ r_shift r.
Proof.
  intros (Hm & Hs & _). rewrite <- Z.mul_sub_distr_r. unfold nd. rewrite lift_mod by lia.
  rewrite <- Zminus_mod. reflexivity.
Qed.
Lemma lift_neg r x : ring_wf r ->
  (- ((x mod r_m r) * 2 ^ r_shift r)) mod nd r = ((- x) mod r_m r) * 2 ^ r_shift r.
Proof.
  intros Hwf. pose proof (lift_sub r 0 x Hwf) as H. destruct Hwf as (Hm & _).
  rewrite Z.mod_0_l, Z.mul_0_l in H by lia. cbn [Z.sub Z.add] in H.
  replace (- (x mod r_m r * 2 ^ r_shift r)) with (0 - x mod r_m r * 2 ^ r_shift r) by lia.
  replace (- x) with (0 - x) by lia. exact H.
Qed.

Lemma same_ring_refl a b r : e_ring a = r -> e_ring b = r -> same_ring a b = true.
Proof.
  intros E1 E2. unfold same_ring. rewrite E1, E2, Z.eqb_refl. destruct (r_kind r); reflexivity.
Qed.

Lemma valid2_rep r x y a b : ring_wf r -> rep r x a -> rep r y b -> valid2 r a b = true.
Proof.
  intros Hwf [_ Ea] [_ Eb]. unfold valid2. rewrite Ea, Eb, !rep_valid by assumption. reflexivity.
Qed.

Theorem neg_ok r x a : ring_wf r -> rep r x a -> exists c, neg_asis a = Ok c /\ rep r (- x) c.
Proof.
  intros Hwf [Er Ea]. unfold neg_asis. rewrite Er, Ea. pose proof (raw_bounds r x Hwf) as Hb.
  destruct (r_kind r).
  - rewrite vanilla_neg_ok, lift_neg by assumption. apply mk_rep; assumption.
  - rewrite vanilla_neg_ok, lift_neg by assumption. apply mk_rep; assumption.
  - rewrite rep_valid, large_neg_ok, lift_neg by assumption. cbn [rbind]. apply mk_rep; assumption.
Qed.

Theorem add_ok r x y a b : ring_wf r -> rep r x a -> rep r y b ->
  exists c, add_asis w a b = Ok c /\ rep r (x + y) c.
Proof.
  intros Hwf Ha Hb. pose proof Ha as [Er Ea]. pose proof Hb as [Er' Eb].
  pose proof (raw_bounds r x Hwf) as Bx. pose proof (raw_bounds r y Hwf) as By.
  pose proof Hwf as (_ & _ & _ & HT & Hd).
  unfold add_asis. rewrite (same_ring_refl a b r) by assumption. rewrite Er.
  rewrite (valid2_rep r x y a b) by assumption. rewrite Ea, Eb.
  rewrite vanilla_add_ok, lift_add by assumption. cbn [rbind].
  destruct (r_kind r); (eexists; split; [reflexivity | split; reflexivity]).
Qed.

Theorem sub_ok r x y a b : ring_wf r -> rep r x a -> rep r y b ->
  exists c, sub_asis w a b = Ok c /\ rep r (x - y) c.
Proof.
  intros Hwf Ha Hb. pose proof Ha as [Er Ea]. pose proof Hb as [Er' Eb].
  pose proof (raw_bounds r x Hwf) as Bx. pose proof (raw_bounds r y Hwf) as By.
  pose proof Hwf as (_ & _ & _ & HT & Hd).
  unfold sub_asis. rewrite (same_ring_refl a b r) by assumption. rewrite Er.
  rewrite (valid2_rep r x y a b) by assumption. rewrite Ea, Eb.
  rewrite vanilla_sub_ok, large_sub_ok, lift_sub by assumption. cbn [rbind].
  destruct (r_kind r); (eexists; split; [reflexivity | split; reflexivity]).
Qed.

Theorem dbl_ok r x a : ring_wf r -> rep r x a -> exists c, dbl_asis w a = Ok c /\ rep r (2 * x) c.
Proof.
  intros Hwf [Er Ea]. pose proof (raw_bounds r x Hwf) as Bx. pose proof Hwf as (_ & _ & _ & HT & Hd).
  unfold dbl_asis. rewrite Er, Ea. rewrite rep_valid, vanilla_add_ok, lift_add by assumption. cbn [rbind].
  replace (x + x) with (2 * x) by lia.
  destruct (r_kind r); apply mk_rep; assumption.
Qed.

(** ConstDivisor::reduce for every integer *)
Theorem reduce_ok r x : ring_wf r ->
  exists e, reduce_asis w nm_div_rem_2by1 nm_div_rem_3by2 r x = Ok e /\ rep r x e.
Proof.
  intros Hwf. unfold reduce_asis. destruct (Z.leb_spec 0 x).
  - apply from_ubig_ok; assumption.
  - destruct (from_ubig_ok r (- x) Hwf ltac:(lia)) as (e & -> & He). cbn [rbind].
    destruct (neg_ok r (- x) e Hwf He) as (c & Hc & Hrep). rewrite Z.opp_involutive in Hrep.
    exists c. split; assumption.
Qed.

(** operands of different ConstDivisor instances: the documented panic, whatever the moduli *)
Theorem different_rings_panic a b : r_id (e_ring a) <> r_id (e_ring b) ->
  add_asis w a b = Panic DifferentRings /\ sub_asis w a b = Panic DifferentRings /\
  mul_asis w nm_div_rem_2by1 nm_div_rem_3by2 a b = Panic DifferentRings /\ eq_asis a b = Panic DifferentRings.
Proof.
  intros Hne. unfold add_asis, sub_asis, mul_asis, eq_asis, same_ring.
  replace (r_id (e_ring a) =? r_id (e_ring b)) with false by (symmetry; apply Z.eqb_neq; exact Hne).
  rewrite andb_false_r. repeat split; reflexivity.
Qed.

(** ---------------- mul.rs ---------------- *)
Lemma l_mul_normalized_ok r a b : ring_wf r -> 0 <= a < nd r -> 0 <= b < nd r ->
  l_mul_normalized w r a b = (a * b / 2 ^ r_shift r) mod nd r.
Proof.
  intros Hwf Ha Hb. pose proof (wf_facts r Hwf) as (P & P2 & Pn & PT & _).
  pose proof Hwf as (_ & _ & Hk & HT & Hd). pose proof B_pos as HB.
  pose proof (nwords_bound a ltac:(lia)) as [Hna Ua]. pose proof (nwords_bound b ltac:(lia)) as [Hnb Ub].
  unfold l_mul_normalized.
  destruct ((nwords a =? 0) && (nwords b =? 0)) eqn:Ez.
  - apply andb_prop in Ez. destruct Ez as [Za _]. apply Z.eqb_eq in Za.
    rewrite (nwords_zero a) by lia. rewrite Z.mul_0_l, Z.div_0_l, Z.mod_0_l by lia. reflexivity.
  - assert (0 <= a * b / 2 ^ r_shift r <= a * b) as Hp
      by (split; [apply Z.div_pos; nia | pose proof (Z.mul_div_le (a * b) (2 ^ r_shift r) P); nia]).
    destruct (Z.ltb_spec (r_n r) (nwords a + nwords b)) as [Hlong|Hshort]; [reflexivity|].
    assert (a * b < tsize r) as Hlt.
    { unfold ModRingModel.tsize.
      assert (B ^ (nwords a + nwords b) <= B ^ r_n r) by (apply Z.pow_le_mono_r; lia).
      rewrite Z.pow_add_r in * by lia.
      assert (0 < B ^ nwords a) by (apply Z.pow_pos_nonneg; lia).
      assert (0 < B ^ nwords b) by (apply Z.pow_pos_nonneg; lia). nia. }
    destruct (Z.leb_spec (nd r) (a * b / 2 ^ r_shift r));
      [rewrite mod_sub_once by lia; reflexivity | rewrite Z.mod_small by lia; reflexivity].
Qed.

Lemma l_sqr_normalized_ok r a : ring_wf r -> 0 <= a < nd r ->
  l_sqr_normalized w r a = (a * a / 2 ^ r_shift r) mod nd r.
Proof.
  intros Hwf Ha. pose proof (wf_facts r Hwf) as (P & P2 & Pn & PT & _).
  pose proof Hwf as (_ & _ & Hk & HT & Hd). pose proof B_pos as HB.
  pose proof (nwords_bound a ltac:(lia)) as [Hna Ua].
  unfold l_sqr_normalized. destruct (Z.eqb_spec (nwords a) 0) as [Za|Na].
  - rewrite (nwords_zero a) by lia. rewrite Z.mul_0_l, Z.div_0_l, Z.mod_0_l by lia. reflexivity.
  - assert (0 <= a * a / 2 ^ r_shift r <= a * a) as Hp
      by (split; [apply Z.div_pos; nia | pose proof (Z.mul_div_le (a * a) (2 ^ r_shift r) P); nia]).
    destruct (Z.ltb_spec (r_n r) (nwords a * 2)) as [Hlong|Hshort]; [reflexivity|].
    assert (a * a < tsize r) as Hlt.
    { unfold ModRingModel.tsize.
      assert (B ^ (nwords a + nwords a) <= B ^ r_n r) by (apply Z.pow_le_mono_r; lia).
      rewrite Z.pow_add_r in * by lia. assert (0 < B ^ nwords a) by (apply Z.pow_pos_nonneg; lia). nia. }
    destruct (Z.leb_spec (nd r) (a * a / 2 ^ r_shift r));
      [rewrite mod_sub_once by lia; reflexivity | rewrite Z.mod_small by lia; reflexivity].
Qed.

Lemma lift_mul r x y : ring_wf r ->
  ((x mod r_m r) * ((y mod r_m r) * 2 ^ r_shift r)) mod nd r = ((x * y) mod r_m r) * 2 ^ r_shift r.
Proof.
  intros (Hm & Hs & _). rewrite Z.mul_assoc. unfold nd. rewrite lift_mod by lia. rewrite <- Zmult_mod. reflexivity.
Qed.

Lemma m_le_nd r : ring_wf r -> r_m r <= nd r.
Proof. intros Hwf. pose proof (wf_facts r Hwf) as (P & _). destruct Hwf as (Hm & _). unfold nd. nia. Qed.

Lemma raw_mul_rep r x y : ring_wf r ->
  raw_mul w nm_div_rem_2by1 nm_div_rem_3by2 r ((x mod r_m r) * 2 ^ r_shift r) ((y mod r_m r) * 2 ^ r_shift r)
  = Ok (((x * y) mod r_m r) * 2 ^ r_shift r) /\
  pow_mul w nm_div_rem_2by1 nm_div_rem_3by2 r ((x mod r_m r) * 2 ^ r_shift r) ((y mod r_m r) * 2 ^ r_shift r)
  = Ok (((x * y) mod r_m r) * 2 ^ r_shift r).
Proof.
  intros Hwf. pose proof (wf_facts r Hwf) as (P & P2 & Pn & PT & _). pose proof B_pos as HB.
  pose proof (raw_bounds r x Hwf) as Bx. pose proof (raw_bounds r y Hwf) as By.
  pose proof (m_le_nd r Hwf) as Hmd. pose proof Hwf as (Hm & Hs & _).
  pose proof (Z.mod_pos_bound x (r_m r) ltac:(lia)) as Hx. pose proof (Z.mod_pos_bound y (r_m r) ltac:(lia)) as Hy.
  set (xm := x mod r_m r) in *. set (ym := y mod r_m r) in *.
  assert (xm * 2 ^ r_shift r * (ym * 2 ^ r_shift r) / 2 ^ r_shift r = xm * (ym * 2 ^ r_shift r)) as Eprod.
  { replace (xm * 2 ^ r_shift r * (ym * 2 ^ r_shift r)) with (xm * (ym * 2 ^ r_shift r) * 2 ^ r_shift r) by ring.
    apply Z.div_mul. lia. }
  unfold pow_mul, raw_mul, s_mul, d_mul, l_mul. destruct (r_kind r) eqn:Hk.
  - pose proof (single_nd r Hwf Hk) as Hd. rewrite Z.div_mul by lia.
    rewrite call_2by1_ok; [unfold xm, ym; rewrite (lift_mul r x y Hwf); split; reflexivity | exact Hd | nia |].
    apply Z.div_lt_upper_bound; [lia | nia].
  - pose proof (double_nd r Hwf Hk) as Hd. rewrite Z.div_mul by lia.
    rewrite call_4by2_ok; [unfold xm, ym; rewrite (lift_mul r x y Hwf); split; reflexivity | exact Hd | nia |].
    apply Z.div_lt_upper_bound; [nia | nia].
  - rewrite l_mul_normalized_ok, l_sqr_normalized_ok by assumption.
    destruct (Z.eqb_spec (xm * 2 ^ r_shift r) (ym * 2 ^ r_shift r)) as [E|NE].
    + rewrite E at 2. rewrite Eprod. unfold xm, ym. rewrite (lift_mul r x y Hwf). split; reflexivity.
    + rewrite Eprod. unfold xm, ym. rewrite (lift_mul r x y Hwf). split; reflexivity.
Qed.

Lemma raw_sqr_rep r x : ring_wf r ->
  raw_sqr w nm_div_rem_2by1 nm_div_rem_3by2 r ((x mod r_m r) * 2 ^ r_shift r) = Ok (((x * x) mod r_m r) * 2 ^ r_shift r).
Proof.
  intros Hwf. pose proof (wf_facts r Hwf) as (P & P2 & Pn & PT & _). pose proof B_pos as HB.
  pose proof (raw_bounds r x Hwf) as Bx. pose proof (m_le_nd r Hwf) as Hmd. pose proof Hwf as (Hm & Hs & _).
  pose proof (Z.mod_pos_bound x (r_m r) ltac:(lia)) as Hx. set (xm := x mod r_m r) in *.
  assert (xm * 2 ^ r_shift r * (xm * 2 ^ r_shift r) / 2 ^ r_shift r = xm * (xm * 2 ^ r_shift r)) as Eprod.
  { replace (xm * 2 ^ r_shift r * (xm * 2 ^ r_shift r)) with (xm * (xm * 2 ^ r_shift r) * 2 ^ r_shift r) by ring.
    apply Z.div_mul. lia. }
  unfold raw_sqr, s_sqr, d_sqr. destruct (r_kind r) eqn:Hk.
  - pose proof (single_nd r Hwf Hk) as Hd. rewrite Eprod.
    rewrite call_2by1_ok; [unfold xm; rewrite (lift_mul r x x Hwf); reflexivity | exact Hd | nia |].
    apply Z.div_lt_upper_bound; [lia | nia].
  - pose proof (double_nd r Hwf Hk) as Hd. rewrite Eprod.
    rewrite call_4by2_ok; [unfold xm; rewrite (lift_mul r x x Hwf); reflexivity | exact Hd | nia |].
    apply Z.div_lt_upper_bound; [nia | nia].
  - rewrite l_sqr_normalized_ok by assumption. rewrite Eprod. unfold xm. rewrite (lift_mul r x x Hwf). reflexivity.
Qed.

Theorem mul_ok r x y a b : ring_wf r -> rep r x a -> rep r y b ->
  exists c, mul_asis w nm_div_rem_2by1 nm_div_rem_3by2 a b = Ok c /\ rep r (x * y) c.
Proof.
  intros Hwf [Er Ea] [Er' Eb]. unfold mul_asis. rewrite (same_ring_refl a b r) by assumption.
  rewrite Er, Ea, Eb. destruct (raw_mul_rep r x y Hwf) as [-> _]. cbn [rbind].
  eexists; split; [reflexivity | split; reflexivity].
Qed.

Theorem sqr_ok r x a : ring_wf r -> rep r x a ->
  exists c, sqr_asis w nm_div_rem_2by1 nm_div_rem_3by2 a = Ok c /\ rep r (x * x) c.
Proof.
  intros Hwf [Er Ea]. unfold sqr_asis. rewrite Er, Ea, raw_sqr_rep by assumption. cbn [rbind]. apply mk_rep; assumption.
Qed.

End Proofs.
