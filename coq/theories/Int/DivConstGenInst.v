(** C02 round 5 - division through a prepared word / double-word ConstDivisor built from the REGENERATED arms of
    div_const.rs::repr (coq/gen/DivBodiesGen.v: methods of ConstSingleDivisor / ConstDoubleDivisor, div_rem_small_single/_double and
    the Single / Double arms of the Div / Rem / DivRem impls).  The only hand-written part is the selection of the arm by the
    variants of dividend and divisor and the stored fields (shift = leading zeros, divisor << shift: C02_const_new).
    Definitions only. *)
From Dashu Require Import Base.Prelude Base.Words Int.DivWordModel Int.DivOwn Int.DivKernelsBase.
From DashuGen Require Import DivKernelsGen DivBodiesGen.
Open Scope Z_scope.

Section ConstGen.
Variable P : div_prims.
Variable w : Z.
Notation B := (Words.B w).

(** which = 0: Rem for TypedRepr, 1: Rem for TypedReprRef *)
Definition gc_rem (which : Z) (a d : Z) : result Z :=
  if d =? 0 then Panic DivideBy0
  else if d <? B then
    let s := lzw w 1 d in let dn := d * 2 ^ s in
    Ok (tvalue w (if a <? B * B then (if which =? 0 then crem_small_single_gen P w a s dn else crem_ref_small_single_gen P w a s dn)
                  else (if which =? 0 then crem_large_single_gen P w (words_of w a) s dn else crem_ref_large_single_gen P w (words_of w a) s dn)))
  else
    let s := lzw w 2 d in let dn := d * 2 ^ s in
    Ok (tvalue w (if a <? B * B then (if which =? 0 then crem_small_double_gen P w a s dn else crem_ref_small_double_gen P w a s dn)
                  else (if which =? 0 then crem_large_double_gen P w (words_of w a) s dn else crem_ref_large_double_gen P w (words_of w a) s dn))).

Definition gc_div_rem (a d : Z) : result (Z * Z) :=
  if d =? 0 then Panic DivideBy0
  else if d <? B then
    let s := lzw w 1 d in let dn := d * 2 ^ s in
    let '(q, r) := if a <? B * B then cdivrem_small_single_gen P w a s dn else cdivrem_large_single_gen P w (words_of w a) s dn in
    Ok (tvalue w q, tvalue w r)
  else
    let s := lzw w 2 d in let dn := d * 2 ^ s in
    let '(q, r) := if a <? B * B then cdivrem_small_double_gen P w a s dn else cdivrem_large_double_gen P w (words_of w a) s dn in
    Ok (tvalue w q, tvalue w r).

Definition gc_div (a d : Z) : result Z :=
  if d =? 0 then Panic DivideBy0
  else if d <? B then
    let s := lzw w 1 d in let dn := d * 2 ^ s in
    Ok (tvalue w (if a <? B * B then cdiv_small_single_gen P w a s dn else cdiv_large_single_gen P w (words_of w a) s dn))
  else
    let s := lzw w 2 d in let dn := d * 2 ^ s in
    Ok (tvalue w (if a <? B * B then cdiv_small_double_gen P w a s dn else cdiv_large_double_gen P w (words_of w a) s dn)).
End ConstGen.
