(** C12 - AS-IS models of the primitive square / cube roots of base/src/ring/root.rs and base/src/math/root.rs
    (definitions only): the lookup tables RSQRT_TAB / RCBRT_TAB, the fixed Newton iterations of
    NormalizedRootRem for u16, u32, u64, the Karatsuba-style u128 variants, the correction loops
    fix_sqrt_error / fix_cbrt_error and the normalising wrappers.
    Unsigned machine arithmetic is modelled as the debug build behaves: an overflow / underflow / index out of
    range / failed debug_assert is [Panic Undocumented]; shifts drop the bits shifted out; [as] casts truncate. *)
From Dashu Require Import Base.Prelude Int.GrlKsqrt.
Open Scope Z_scope.

(** hand copies of the tables; GrlPrimRootProof.root_tabs_are_source ties them to the copies regenerated from the source *)
Definition RSQRT_TAB : list Z := [252; 244; 237; 230; 223; 217; 211; 205; 199; 194; 188; 183; 178; 173; 169; 164; 160; 156; 152; 148; 144; 140; 136; 133; 129; 126; 123; 119; 116; 113; 110; 107; 105; 102; 99; 97; 94; 91; 89; 87; 84; 82; 80; 77; 75; 73; 71; 69; 67; 65; 63; 61; 59; 57; 55; 54; 52; 50; 48; 47; 45; 44; 42; 40; 39; 37; 36; 34; 33; 31; 30; 29; 27; 26; 25; 23; 22; 21; 20; 18; 17; 16; 15; 13; 12; 11; 10; 9; 8; 7; 6; 5; 4; 3; 2; 1].
Definition RCBRT_TAB : list Z := [246; 228; 212; 198; 185; 174; 164; 155; 146; 138; 131; 124; 118; 112; 107; 102; 97; 92; 87; 83; 79; 75; 72; 68; 65; 62; 59; 56; 53; 50; 47; 45; 42; 40; 37; 35; 33; 31; 29; 27; 25; 23; 21; 19; 17; 16; 14; 12; 11; 9; 8; 6; 5; 3; 2; 1].
(** the guard constants subtracted to make the estimates underestimates: u32 sqrt [s -= 4], u64 sqrt [s -= 10],
    u32 cbrt [r - 10], u64 cbrt [r - 1] *)
Definition ROOT_GUARDS : Z * Z * Z * Z := (4, 10, 10, 1).

Notation "x <- e ;; k" := (rbind e (fun x => k)) (at level 61, e at next level, right associativity).

(** [tab[i]] with the bounds check of slice indexing ([usize] subtraction underflow included) *)
Definition tab (t : list Z) (i : Z) : result Z :=
  if (i <? 0) || (len t <=? i) then Panic Undocumented else Ok (nth (Z.to_nat i) t 0).
(** the result of an arithmetic operation of an unsigned type with [B] values *)
Definition chk (B v : Z) : result Z := if (0 <=? v) && (v <? B) then Ok v else Panic Undocumented.
Definition T8 := 2 ^ 8. Definition T16 := 2 ^ 16. Definition T32 := 2 ^ 32. Definition T64 := 2 ^ 64. Definition T128 := 2 ^ 128.

(** * fix_sqrt_error!(t, n, s) / fix_cbrt_error!(t, n, c); [HB] = number of values of the type of the root *)
Fixpoint fix_sqrt_loop (fuel : nat) (HB s e elim : Z) : result (Z * Z) :=
  match fuel with
  | O => OutOfFuel
  | S k =>
      if elim <=? e then
        if HB <=? s + 1 then Panic Undocumented else fix_sqrt_loop k HB (s + 1) (e - elim) (elim + 2)
      else Ok (s, e)
  end.
Definition fix_sqrt (fuel : nat) (HB n s : Z) : result (Z * Z) :=
  if n <? s * s then Panic Undocumented else fix_sqrt_loop fuel HB s (n - s * s) (2 * s + 1).

Fixpoint fix_cbrt_loop (fuel : nat) (HB c e elim : Z) : result (Z * Z) :=
  match fuel with
  | O => OutOfFuel
  | S k =>
      if elim <=? e then
        if HB <=? c + 1 then Panic Undocumented else fix_cbrt_loop k HB (c + 1) (e - elim) (elim + 6 * (c + 1))
      else Ok (c, e)
  end.
Definition fix_cbrt (fuel : nat) (HB n c : Z) : result (Z * Z) :=
  if n <? c * c * c then Panic Undocumented else fix_cbrt_loop fuel HB c (n - c * c * c) (3 * (c * c + c) + 1).

(** u8: brute force from 0 *)
Definition sqrt_rem_u8 (fuel : nat) (n : Z) : result (Z * Z) := fix_sqrt fuel T8 n 0.
Definition cbrt_rem_u8 (fuel : nat) (n : Z) : result (Z * Z) := fix_cbrt fuel T8 n 0.

(** * impl NormalizedRootRem for u16 *)
Definition nsqrt16 (fuel : nat) (n : Z) : result (Z * Z) :=
  if n <? 2 ^ 14 then Panic Undocumented else            (* debug_assert!(self.leading_zeros() <= 1) *)
  t <- tab RSQRT_TAB (n / 2 ^ 9 - 32) ;;
  let r := Z.lor 256 t in
  p <- chk T32 (r * n) ;;
  s <- chk T32 (p / 2 ^ 16 - 1) ;;
  fix_sqrt fuel T8 n (s mod T8).

Definition ncbrt16 (fuel : nat) (n : Z) : result (Z * Z) :=
  if n <? 2 ^ 13 then Panic Undocumented else            (* debug_assert!(self.leading_zeros() <= 2) *)
  let adjust := b2z (2 ^ 15 <=? n) in
  t <- tab RCBRT_TAB (n / 2 ^ (9 + 3 * adjust) - 8) ;;
  let r := Z.lor 256 t in
  rr <- chk T32 (r * r) ;;
  let r2 := rr / 2 ^ (2 + 2 * adjust) in
  p <- chk T32 (r2 * n) ;;
  c <- chk T32 (p / 2 ^ 24 - 1) ;;
  fix_cbrt fuel T8 n (c mod T8).

(** * impl NormalizedRootRem for u32 *)
Definition wmul_hi (B a b : Z) : Z := (a * b) / B.

Definition nsqrt32 (fuel : nat) (n : Z) : result (Z * Z) :=
  if n <? 2 ^ 30 then Panic Undocumented else
  let n16 := n / T16 in
  t <- tab RSQRT_TAB (n16 / 2 ^ 9 - 32) ;;
  let r := Z.lor 256 t in
  a <- chk T16 (3 * (r mod T16)) ;;
  rr <- chk T32 (r * r) ;;
  rrr <- chk T32 (rr * r) ;;
  r <- chk T16 ((a * 2 ^ 5) mod T16 - (wmul_hi T32 n rrr / 2 ^ 11) mod T16) ;;
  let r := (r * 2) mod T16 in
  let s := Z.min (wmul_hi T16 r n16 * 2) (T16 - 1) in     (* saturating_mul(2) *)
  s <- chk T16 (s - fst (fst (fst ROOT_GUARDS))) ;;
  e <- chk T32 (n - s * s) ;;
  s <- chk T16 (s + wmul_hi T16 ((e / T16) mod T16) r) ;;
  fix_sqrt fuel T16 n s.

Definition ncbrt32 (fuel : nat) (n : Z) : result (Z * Z) :=
  if n <? 2 ^ 29 then Panic Undocumented else
  let adjust := b2z (2 ^ 30 <=? n) in
  let n16 := (n / 2 ^ (16 + 3 * adjust)) mod T16 in
  t <- tab RCBRT_TAB (n16 / 2 ^ 8 - 8) ;;
  let r := Z.lor 256 t in
  rr <- chk T32 (r * r) ;;
  rrr <- chk T32 (rr * r) ;;
  let r3 := rrr / 2 ^ 11 in
  t <- chk T16 (4 * 2 ^ 11 - wmul_hi T16 n16 (r3 mod T16)) ;;
  p <- chk T32 (r * t) ;;
  let r := ((p / 3) / 2 ^ 4) mod T16 in
  let r := r / 2 ^ adjust in
  r <- chk T16 (r - snd (fst ROOT_GUARDS)) ;;
  let c := wmul_hi T16 r (wmul_hi T16 r ((n / T16) mod T16)) / 2 ^ 2 in
  fix_cbrt fuel T16 n c.

(** * impl NormalizedRootRem for u64 *)
Definition nsqrt64 (fuel : nat) (n : Z) : result (Z * Z) :=
  if n <? 2 ^ 62 then Panic Undocumented else
  let n32 := n / T32 in
  t <- tab RSQRT_TAB (n32 / 2 ^ 25 - 32) ;;
  let r := Z.lor 256 t in
  a <- chk T32 (3 * r) ;;
  rr <- chk T32 (r * r) ;;
  rrr <- chk T32 (rr * r) ;;
  r <- chk T32 ((a * 2 ^ 21) mod T32 - wmul_hi T32 n32 ((rrr * 2 ^ 5) mod T32)) ;;
  t <- chk T32 (3 * 2 ^ 28 - wmul_hi T32 r (wmul_hi T32 r n32)) ;;
  let r := wmul_hi T32 r t in
  let r := (r * 2 ^ 4) mod T32 in
  let s := (wmul_hi T32 r n32 * 2) mod T32 in
  s <- chk T32 (s - snd (fst (fst ROOT_GUARDS))) ;;
  e <- chk T64 (n - s * s) ;;
  s <- chk T32 (s + wmul_hi T32 ((e / T32) mod T32) r) ;;
  fix_sqrt fuel T32 n s.

Definition ncbrt64 (fuel : nat) (n : Z) : result (Z * Z) :=
  if n <? 2 ^ 61 then Panic Undocumented else
  let adjust := b2z (2 ^ 63 <=? n) in
  let n32 := (n / 2 ^ (32 + 3 * adjust)) mod T32 in
  t <- tab RCBRT_TAB (n32 / 2 ^ 25 - 8) ;;
  let r := Z.lor 256 t in
  rr <- chk T32 (r * r) ;;
  rrr <- chk T32 (rr * r) ;;
  t <- chk T32 (4 * 2 ^ 23 - wmul_hi T32 n32 rrr) ;;
  r <- chk T32 (r * (t / 3)) ;;
  t <- chk T32 (4 * 2 ^ 28 - wmul_hi T32 r (wmul_hi T32 r (wmul_hi T32 r n32))) ;;
  let r := wmul_hi T32 r t / 3 in
  let r := r / 2 ^ adjust in
  r <- chk T32 (r - snd ROOT_GUARDS) ;;
  let c := wmul_hi T32 r (wmul_hi T32 r ((n / T32) mod T32)) in
  fix_cbrt fuel T32 n c.

(** * impl NormalizedRootRem for u128: one Karatsuba step on top of the u64 routine (KBITS = 32) *)
Definition nsqrt128 (fuel : nat) (n : Z) : result (Z * Z) :=
  if n <? 2 ^ 126 then Panic Undocumented else
  let a := n / T64 in
  let b := n mod T64 in
  sr <- nsqrt64 fuel a ;;
  let '(s1, r1) := sr in
  let r0 := Z.lor ((r1 * 2 ^ 31) mod T64) (b / 2 ^ 33) in
  if s1 =? 0 then Panic DivideBy0 else
  let q := r0 / s1 in
  let u := r0 mod s1 in
  let '(q, u) := if 0 <? q / 2 ^ 32 then (q - 1, u + s1) else (q, u) in
  if T64 <=? u then Panic Undocumented else
  let s := Z.lor ((s1 * 2 ^ 32) mod T64) q in
  let r := Z.lor ((u * 2 ^ 33) mod T64) (b mod 2 ^ 33) in
  q2 <- chk T64 (q * q) ;;
  let c := as_i8 (u / 2 ^ 31) - b2z (r <? q2) in
  let r := (r - q2) mod T64 in
  if c <? 0 then
    let '(r, c1) := add_ip T64 r s in
    if s =? 0 then Panic Undocumented else
    let s := s - 1 in
    let '(r, c2) := add_ip T64 r s in
    let c := c + b2z c1 + b2z c2 in
    Ok (s, ((c mod T128) * T64) mod T128 + r)
  else Ok (s, ((c mod T128) * T64) mod T128 + r).

(** the cube root variant (KBITS = 22); the adjustment loop is fuelled *)
Fixpoint cbrt128_adjust (fuel : nat) (c r : Z) : result (Z * Z) :=
  match fuel with
  | O => OutOfFuel
  | S k => if r <? 0 then
             if c =? 0 then Panic Undocumented else cbrt128_adjust k (c - 1) (r + (3 * (c - 1) * c + 1))
           else Ok (c, r)
  end.

Definition ncbrt128 (fuel : nat) (n : Z) : result (Z * Z) :=
  if n <? 2 ^ 125 then Panic Undocumented else
  cr <- (if n <? 2 ^ 127 then
           let a := (n / 2 ^ 63) mod T64 in
           cr <- ncbrt64 fuel a ;;
           let c := fst cr / 2 in
           c3 <- chk T64 (c * c * c) ;;
           r1 <- chk T64 (a / 2 ^ 3 - c3) ;;
           Ok (c, r1)
         else ncbrt64 fuel (n / 2 ^ 66)) ;;
  let '(c1, r1) := cr in
  let r0 := Z.lor ((r1 * 2 ^ 22) mod T128) ((n / 2 ^ 44) mod 2 ^ 22) in
  let den := 3 * (c1 * c1) in
  if den =? 0 then Panic DivideBy0 else
  let q := r0 / den in
  let u := r0 mod den in
  c <- chk T64 ((c1 * 2 ^ 22) mod T64 + q mod T64) ;;
  let t1 := Z.lor ((u * 2 ^ 44) mod T128) (n mod 2 ^ 44) in
  t2 <- chk T128 ((((3 * c1) * 2 ^ 22) mod T128 + q) * (q * q)) ;;
  if (2 ^ 127 <=? t1) || (2 ^ 127 <=? t2) then Panic Undocumented else
  cbrt128_adjust fuel c (t1 - t2).

(** * impl_rootrem_using_normalized!: normalise, call, shift back; [bits] = width of the type *)
Definition lzeros (bits n : Z) : Z := bits - (Z.log2 n + 1).

Definition prim_sqrt_rem (norm : Z -> result (Z * Z)) (bits n : Z) : result (Z * Z) :=
  if n =? 0 then Ok (0, 0) else
  let shift := 2 * (lzeros bits n / 2) in                  (* leading_zeros() & !1 *)
  sr <- norm (n * 2 ^ shift) ;;
  if shift =? 0 then Ok sr else
  let root := fst sr / 2 ^ (shift / 2) in
  Ok (root, n - root * root).

Definition prim_cbrt_rem (norm : Z -> result (Z * Z)) (bits n : Z) : result (Z * Z) :=
  if n =? 0 then Ok (0, 0) else
  let lz := lzeros bits n in
  let shift := lz - lz mod 3 in
  cr <- norm (n * 2 ^ shift) ;;
  if shift =? 0 then Ok cr else
  let root := fst cr / 2 ^ (shift / 3) in
  Ok (root, n - root * root * root).

(** the entry points by type width *)
Definition prim_sqrt_rem_asis (fuel : nat) (bits n : Z) : result (Z * Z) :=
  if bits =? 8 then sqrt_rem_u8 fuel n
  else if bits =? 16 then prim_sqrt_rem (nsqrt16 fuel) 16 n
  else if bits =? 32 then prim_sqrt_rem (nsqrt32 fuel) 32 n
  else if bits =? 64 then prim_sqrt_rem (nsqrt64 fuel) 64 n
  else prim_sqrt_rem (nsqrt128 fuel) 128 n.

Definition prim_cbrt_rem_asis (fuel : nat) (bits n : Z) : result (Z * Z) :=
  if bits =? 8 then cbrt_rem_u8 fuel n
  else if bits =? 16 then prim_cbrt_rem (ncbrt16 fuel) 16 n
  else if bits =? 32 then prim_cbrt_rem (ncbrt32 fuel) 32 n
  else if bits =? 64 then prim_cbrt_rem (ncbrt64 fuel) 64 n
  else prim_cbrt_rem (ncbrt128 fuel) 128 n.
