(** C13 (round 4) - Reducer::reduce_once / reduce_negate of the multi-word ring on word lists (ModRingReducerWords.v, C01's
    carry / borrow kernels) = the value-level model (ModRingModel.rd_reduce_once_with / rd_reduce_negate), every word
    size w >= 2, every non-negative target: the NegativeUBig panic exactly when the value-level subtraction is negative,
    the debug assertion of sub_large_dword cannot fire. *)
From Dashu Require Import Base.Prelude Base.Words Int.RingAdd Int.RingAddProofs Int.DivWordModel Int.DivReprProofs
  Int.ModRingSpec Int.ModRingPowModel Int.ModRingModel Int.ModRingProofs Int.ModRingOpsProofs Int.ModRingInst Int.ModRingInstProofs
  Int.ModRingWords Int.ModRingWordsProofs Int.ModRingConv Int.ModRingConvProofs Int.ModRingReducerWords.
Open Scope Z_scope.

Section Proofs.
Variable w : Z.
Hypothesis w_ge : 2 <= w.
Let w_pos : 0 < w. Proof. lia. Qed.
Local Notation B := (Words.B w).
Local Notation value := (Words.value w).
Local Notation wf := (Words.wf w).

Lemma Bpos' : 0 < B. Proof. apply B_pos; lia. Qed.

Lemma value_lt_pow ws : wf ws -> 0 <= value ws < B ^ len ws.
Proof. intros H. exact (value_bounds w w_pos ws H). Qed.

Theorem wl_rd_reduce_once_ok strict R r t : lring_ok w R r -> ring_wf w r -> 0 <= t ->
  wl_rd_reduce_once w strict R r t = rd_reduce_once_with w strict r t.
Proof.
  intros HR Hwf Ht. pose proof HR as (Hk & Hwn & En & El & Es).
  destruct (lring_facts w w_ge R r HR Hwf) as (Hn3 & N1 & N2 & _).
  unfold wl_rd_reduce_once, rd_reduce_once_with. rewrite Hk. change (2 ^ w) with B.
  destruct (negb _); [|reflexivity]. destruct (Z.ltb_spec t (B * B)); [reflexivity|].
  destruct (words_of_spec w w_pos t Ht) as (Hws & Hwv & Hwl).
  pose proof Bpos' as HB.
  assert (B * B <= B ^ 2) as HB2 by (rewrite Z.pow_2_r; lia).
  set (s := words_of w t) in *. set (n := length (lr_nd R)) in *.
  pose proof (value_lt_pow s Hws) as Vs. rewrite Hwv in Vs. unfold len in Vs.
  unfold usub. destruct (Nat.ltb_spec (length s) n) as [Hlt|Hge].
  - (* fewer words than the divisor: t < nd *)
    assert (B ^ Z.of_nat (length s) <= B ^ (Z.of_nat n - 1)) by (apply Z.pow_le_mono_r; lia).
    assert (B ^ Z.of_nat n = B * B ^ (Z.of_nat n - 1)) as E by (rewrite <- Z.pow_succ_r by lia; f_equal; lia).
    assert (2 <= B) by (unfold Words.B; change 2 with (2 ^ 1); apply Z.pow_le_mono_r; lia).
    assert (0 < B ^ (Z.of_nat n - 1)) by (apply Z.pow_pos_nonneg; lia).
    assert (2 * B ^ (Z.of_nat n - 1) <= B * B ^ (Z.of_nat n - 1)) by (apply Z.mul_le_mono_nonneg_r; lia).
    replace (t <? nd r) with true by (symmetry; apply Z.ltb_lt; lia). reflexivity.
  - destruct (sub_in_place w s (lr_nd R)) as [res c] eqn:E.
    destruct (sub_in_place_spec w w_pos s (lr_nd R) Hge Hws Hwn res c E) as (Lr & Wr & Ev).
    pose proof (value_lt_pow res Wr) as Vr. unfold len in Vr, Ev. rewrite Lr in Vr. rewrite Hwv, En in Ev.
    destruct c; cbn [b2z] in Ev.
    + replace (t <? nd r) with true by (symmetry; apply Z.ltb_lt; lia). reflexivity.
    + replace (t <? nd r) with false by (symmetry; apply Z.ltb_ge; lia). f_equal. lia.
Qed.

Theorem wl_rd_reduce_negate_ok R r t : lring_ok w R r -> ring_wf w r -> 0 <= t ->
  wl_rd_reduce_negate w R t = rd_reduce_negate r t.
Proof.
  intros HR Hwf Ht. pose proof HR as (Hk & Hwn & En & El & Es).
  destruct (lring_facts w w_ge R r HR Hwf) as (Hn3 & N1 & N2 & _).
  pose proof Bpos' as HB.
  unfold wl_rd_reduce_negate, rd_reduce_negate, usub.
  set (n := length (lr_nd R)) in *.
  assert (B * B <= nd r) as Hnd.
  { assert (B ^ 3 <= B ^ Z.of_nat n) by (apply Z.pow_le_mono_r; lia).
    replace (B ^ 3) with (B * B * B) in * by ring.
    assert (2 <= B) by (unfold Words.B; change 2 with (2 ^ 1); apply Z.pow_le_mono_r; lia).
    assert (B * B * 2 <= B * B * B) by (apply Z.mul_le_mono_nonneg_l; nia). lia. }
  destruct (Z.ltb_spec t (B * B)).
  - (* Small: the divisor has at least three words *)
    destruct (lr_nd R) as [|x0 [|x1 tl]] eqn:End; try (cbn [length] in n; unfold n in Hn3; cbn in Hn3; lia).
    destruct (sub_dword_in_place w (x0 :: x1 :: tl) t) as [res c] eqn:E.
    destruct (sub_dword_in_place_spec w w_pos x0 x1 tl t Hwn ltac:(lia) res c E) as (Lr & Wr & Ev).
    pose proof (value_lt_pow res Wr) as Vr. unfold len in Vr, Ev. rewrite Lr in Vr. rewrite En in Ev.
    destruct c; cbn [b2z] in Ev; [exfalso; lia|].
    replace (nd r <? t) with false by (symmetry; apply Z.ltb_ge; lia). f_equal. lia.
  - destruct (words_of_spec w w_pos t Ht) as (Hws & Hwv & Hwl).
    set (s := words_of w t) in *. set (k := length s) in *.
    pose proof (value_lt_pow s Hws) as Vs. rewrite Hwv in Vs. unfold len in Vs. fold k in Vs.
    destruct (nwords_spec w w_pos t ltac:(lia)) as (_ & Hlo & _). rewrite <- Hwl in Hlo. fold k in Hlo.
    destruct (Nat.ltb_spec n k) as [Hlt|Hge].
    + assert (B ^ Z.of_nat n <= B ^ (Z.of_nat k - 1)) by (apply Z.pow_le_mono_r; lia).
      replace (nd r <? t) with true by (symmetry; apply Z.ltb_lt; lia). reflexivity.
    + set (lo0 := firstn k (lr_nd R)) in *. set (hi := skipn k (lr_nd R)) in *.
      assert (length lo0 = k) as Llo by (unfold lo0; apply firstn_length_le; exact Hge).
      assert (wf lo0) as Wlo by (apply wf_firstn; exact Hwn). assert (wf hi) as Whi by (apply wf_skipn; exact Hwn).
      assert (nd r = value lo0 + B ^ Z.of_nat k * value hi) as Esplit.
      { rewrite <- En. rewrite <- (firstn_skipn k (lr_nd R)) at 1. fold lo0 hi. rewrite value_app. unfold len. rewrite Llo. reflexivity. }
      unfold sub_same_len_in_place_swap.
      destruct (sub_same_len_swap w lo0 s false) as [lo c] eqn:E.
      destruct (sub_same_len_swap_spec w w_pos lo0 s false ltac:(lia) Wlo Hws lo c E) as (Ll & Wl & Ev).
      unfold len in Ev. fold k in Ev. rewrite Hwv in Ev. cbn [b2z] in Ev.
      pose proof (value_lt_pow lo Wl) as Vl. unfold len in Vl. rewrite Ll in Vl. fold k in Vl.
      pose proof (value_lt_pow hi Whi) as Vh.
      assert (0 < B ^ Z.of_nat k) as Pk by (apply Z.pow_pos_nonneg; lia).
      destruct c; cbn [b2z] in Ev.
      * destruct (sub_one_in_place w hi) as [hi' b2] eqn:E2.
        destruct (sub_one_in_place_spec w w_pos hi Whi hi' b2 E2) as (Lh & Wh & Ev2).
        pose proof (value_lt_pow hi' Wh) as Vh'. unfold len in Vh', Ev2, Vh. rewrite Lh in Vh'.
        destruct b2; cbn [b2z] in Ev2.
        -- assert (value hi = 0) as H0 by lia. rewrite H0, Z.mul_0_r, Z.add_0_r in Esplit.
           replace (nd r <? t) with true by (symmetry; apply Z.ltb_lt; lia). reflexivity.
        -- rewrite value_app. unfold len. rewrite Ll. fold k.
           assert (value hi' = value hi - 1) as Eh by lia.
           assert (value lo + B ^ Z.of_nat k * value hi' = nd r - t) as Er.
           { rewrite Eh, Esplit. ring_simplify. lia. }
           assert (0 <= B ^ Z.of_nat k * value hi') by (apply Z.mul_nonneg_nonneg; lia).
           replace (nd r <? t) with false by (symmetry; apply Z.ltb_ge; lia). f_equal. exact Er.
      * rewrite value_app. unfold len. rewrite Ll. fold k.
        assert (0 <= B ^ Z.of_nat k * value hi) by (apply Z.mul_nonneg_nonneg; lia).
        replace (nd r <? t) with false by (symmetry; apply Z.ltb_ge; lia). f_equal. lia.
Qed.
End Proofs.

(** ---------------- the 64-bit run = the value-level run of the Reducer operations ---------------- *)
Local Lemma w64_2 : 2 <= 64. Proof. lia. Qed.

Theorem hrun_rd_lin_correct o m a b : 1 <= m -> 0 <= a -> 0 <= b -> (o = RAdd \/ o = RDbl \/ o = RSub \/ o = RNeg) ->
  hrun_rd_lin o m a b = rbind (run_rd true o m a b) (fun t => Ok (snd t)).
Proof.
  intros Hm Ha Hb Ho. unfold hrun_rd_lin, run_rd.
  destruct (new_ring_ok 64 w64_2 0 m Hm) as (r & Enew & Hwf & Em & _). unfold i_new, W64. rewrite Enew. cbn [rbind].
  unfold i_transform.
  rewrite (rd_transform_ok W64 W64_ge ex_2by1 ex_3by2 ex_2by1_ok ex_3by2_ok r a Hwf Ha).
  rewrite (rd_transform_ok W64 W64_ge ex_2by1 ex_3by2 ex_2by1_ok ex_3by2_ok r b Hwf Hb).
  pose proof (wf_m_pos 64 r Hwf) as Hmp.
  assert (0 < 2 ^ r_shift r) as Ps by (destruct Hwf as (_ & Hs & _); apply Z.pow_pos_nonneg; lia).
  pose proof (Z.mod_pos_bound a (r_m r) Hmp) as Ma. pose proof (Z.mod_pos_bound b (r_m r) Hmp) as Mb.
  set (x := a mod r_m r * 2 ^ r_shift r). set (y := b mod r_m r * 2 ^ r_shift r).
  assert (0 <= x) as Hx by (unfold x; apply Z.mul_nonneg_nonneg; lia).
  assert (0 <= y) as Hy by (unfold y; apply Z.mul_nonneg_nonneg; lia).
  assert (forall R t, (r_kind r = KLarge -> lring_ok 64 R r) -> 0 <= t ->
            h_reduce_once R r t = rd_reduce_once_with W64 true r t /\ h_reduce_negate R r t = rd_reduce_negate r t) as Hh.
  { intros R t HR Ht0. unfold h_reduce_once, h_reduce_negate. destruct (r_kind r) eqn:Hk; try (split; reflexivity).
    split; [apply (wl_rd_reduce_once_ok 64 w64_2); auto | apply (wl_rd_reduce_negate_ok 64 w64_2); auto]. }
  assert (exists R, match r_kind r with KLarge => wl_new 64 m | _ => Ok (mklring [] 0) end = Ok R /\ (r_kind r = KLarge -> lring_ok 64 R r)) as (R & ER & HR).
  { destruct (r_kind r) eqn:Hk; try (eexists; split; [reflexivity | discriminate]).
    assert (Words.B 64 * Words.B 64 <= m) as Hl.
    { unfold new_ring in Enew. destruct (m <=? 0); [discriminate|]. fold (Words.B 64) in Enew.
      destruct (m <? Words.B 64); [injection Enew as <-; discriminate|].
      destruct (m <? Words.B 64 * Words.B 64) eqn:E2; [injection Enew as <-; discriminate|]. apply Z.ltb_ge in E2. exact E2. }
    destruct (wl_new_ok 64 w64_2 0 m Hl) as (R & r' & E1 & E2 & HR' & _). rewrite Enew in E2. injection E2 as <-.
    exists R. split; [exact E1 | intros _; exact HR']. }
  rewrite ER. cbn [rbind]. unfold W64 in *.
  destruct Ho as [-> | [-> | [-> | ->]]]; cbn [rbind].
  - unfold rd_add_with. rewrite (proj1 (Hh R (x + y) HR ltac:(lia))).
    match goal with |- ?l = rbind (rbind ?m _) _ => change m with l; destruct l; reflexivity end.
  - unfold rd_dbl_with. rewrite (proj1 (Hh R (x * 2) HR ltac:(lia))).
    match goal with |- ?l = rbind (rbind ?m _) _ => change m with l; destruct l; reflexivity end.
  - unfold rd_sub. destruct (Z.leb_spec y x); [reflexivity|]. rewrite (proj2 (Hh R (y - x) HR ltac:(lia))).
    match goal with |- ?l = rbind (rbind ?m _) _ => change m with l; destruct l; reflexivity end.
  - unfold rd_neg. destruct (Z.eqb_spec x 0); [reflexivity|]. rewrite (proj2 (Hh R x HR Hx)).
    match goal with |- ?l = rbind (rbind ?m _) _ => change m with l; destruct l; reflexivity end.
Qed.

Example hrun_rd_lin_example :
  hrun_rd_lin RSub (2 ^ 130 + 12) 5 (2 ^ 129) = Ok (((5 - 2 ^ 129) mod (2 ^ 130 + 12)) * 2 ^ 61) /\
  hrun_rd_lin RNeg (2 ^ 130 + 12) 7 0 = Ok ((2 ^ 130 + 5) * 2 ^ 61) /\
  hrun_rd_lin RAdd (2 ^ 130 + 12) (2 ^ 130) (2 ^ 130 + 3) = Ok ((2 ^ 130 - 9) * 2 ^ 61).
Proof. vm_compute. repeat split; reflexivity. Qed.
