(** C12 round 4 - the aligned leading bits used by the Lehmer guess (integer/src/gcd/lehmer.rs
    highest_word_normalized lines 96-107, highest_dword_normalized lines 173-190; models in GrlLehmer.v):
    for 0 <= y <= x both functions return (floor(x / 2^k), floor(y / 2^k)) with the SAME k
    (k = bit_len x - w for the word version, bit_len x - 2w for the double word version), for every word
    size - the three length cases of y, the shifts, the [|] of the double word version and the bits shifted
    out are all covered. *)
From Dashu Require Import Base.Prelude Int.GrlSpec Int.GrlModel Int.GrlLehmer.
Open Scope Z_scope.

Lemma p2pos : forall e, 0 < 2 ^ e \/ e < 0.
Proof. intros e. destruct (Z.lt_ge_cases e 0); [right; assumption|left; apply Z.pow_pos_nonneg; lia]. Qed.

Lemma p2p : forall e, 0 <= e -> 0 < 2 ^ e.
Proof. intros. apply Z.pow_pos_nonneg; lia. Qed.

Lemma div_p2_p2 : forall v a b, 0 <= a -> 0 <= b -> v / 2 ^ a / 2 ^ b = v / 2 ^ (a + b).
Proof.
  intros v a b Ha Hb. pose proof (p2p a Ha). pose proof (p2p b Hb).
  rewrite Z.div_div by lia. rewrite <- Z.pow_add_r by lia. reflexivity.
Qed.

Lemma log2_bounds : forall v, 0 < v -> 2 ^ Z.log2 v <= v < 2 ^ (Z.log2 v + 1).
Proof. intros v Hv. pose proof (Z.log2_spec v Hv). replace (Z.log2 v + 1) with (Z.succ (Z.log2 v)) by lia. lia. Qed.

Lemma lt_p2_div0 : forall v e, 0 <= v < 2 ^ e -> v / 2 ^ e = 0.
Proof. intros. apply Z.div_small. assumption. Qed.

Section Top.
Variable w : Z.
Hypothesis Hw : 1 <= w.

Lemma wlen_log2 : forall v, 0 < v -> w * (wlen w v - 1) <= Z.log2 v < w * wlen w v.
Proof.
  intros v Hv. unfold wlen. destruct (Z.eqb_spec v 0); [lia|].
  pose proof (Z.log2_nonneg v). pose proof (Z.div_mod (Z.log2 v) w ltac:(lia)).
  pose proof (Z.mod_pos_bound (Z.log2 v) w ltac:(lia)).
  replace (Z.log2 v / w + 1 - 1) with (Z.log2 v / w) by ring. lia.
Qed.

Lemma wlen_nonneg : forall v, 0 <= v -> 0 <= wlen w v.
Proof.
  intros v Hv. unfold wlen. destruct (Z.eqb_spec v 0); [lia|].
  pose proof (Z.log2_nonneg v). assert (0 <= Z.log2 v / w) by (apply Z.div_pos; lia). lia.
Qed.

Lemma wlen_mono : forall u v, 0 <= u <= v -> wlen w u <= wlen w v.
Proof.
  intros u v Huv. unfold wlen. destruct (Z.eqb_spec u 0).
  - destruct (Z.eqb_spec v 0); [lia|]. pose proof (Z.log2_nonneg v). assert (0 <= Z.log2 v / w) by (apply Z.div_pos; lia). lia.
  - destruct (Z.eqb_spec v 0); [lia|].
    assert (Z.log2 u <= Z.log2 v) by (apply Z.log2_le_mono; lia).
    assert (Z.log2 u / w <= Z.log2 v / w) by (apply Z.div_le_mono; lia). lia.
Qed.

Lemma wlen_upper : forall v, 0 <= v -> v < 2 ^ (w * wlen w v).
Proof.
  intros v Hv. destruct (Z.eq_dec v 0) as [->|n].
  - unfold wlen. cbn. rewrite Z.mul_0_r. cbn. lia.
  - pose proof (wlen_log2 v ltac:(lia)) as [_ H2]. pose proof (log2_bounds v ltac:(lia)) as [_ H3].
    assert (2 ^ (Z.log2 v + 1) <= 2 ^ (w * wlen w v)) by (apply Z.pow_le_mono_r; lia). lia.
Qed.

(** * highest_word_normalized *)
Theorem highest_word_normalized_div : forall x y, 0 <= y <= x -> 2 <= wlen w x ->
  highest_word_normalized w x y = (x / 2 ^ (bit_len x - w), y / 2 ^ (bit_len x - w))
  /\ w <= bit_len x /\ 2 ^ (w - 1) <= x / 2 ^ (bit_len x - w) < 2 ^ w.
Proof.
  intros x y Hyx Hn.
  assert (0 < x) as Hx.
  { destruct (Z.eq_dec x 0) as [e|e]; [|lia]. subst x. unfold wlen in Hn. cbn in Hn. lia. }
  pose proof (wlen_log2 x Hx) as [L1 L2]. pose proof (log2_bounds x Hx) as [B1 B2].
  set (n := wlen w x) in *. set (lx := Z.log2 x) in *.
  assert (bit_len x = lx + 1) as Ebl by (unfold bit_len; destruct (Z.eqb_spec x 0); [lia|reflexivity]).
  set (e := w * (n - 2)). assert (0 <= e) as He by (unfold e; apply Z.mul_nonneg_nonneg; lia).
  assert (w * (n - 1) = e + w) as E1 by (unfold e; ring).
  assert (w * n = e + 2 * w) as E2 by (unfold e; ring).
  pose proof (p2p e He) as Pe.
  (* the top two words of x *)
  set (hx := x / 2 ^ e).
  assert (Z.log2 hx = lx - e) as Lhx.
  { unfold hx. rewrite <- Z.shiftr_div_pow2 by lia. rewrite Z.log2_shiftr by lia. fold lx. lia. }
  assert (0 < hx) as Phx.
  { unfold hx. apply Z.div_str_pos. split; [exact Pe|].
    assert (2 ^ e <= 2 ^ lx) by (apply Z.pow_le_mono_r; lia). lia. }
  pose proof (log2_bounds hx Phx) as [H1 H2]. rewrite Lhx in H1, H2.
  set (shift := 2 * w - (lx - e + 1)).
  assert (0 <= shift <= w - 1) as Hs by (unfold shift; lia).
  assert (leading_zeros (2 * w) hx = shift) as Elz.
  { unfold leading_zeros, bit_len, shift. destruct (Z.eqb_spec hx 0); [lia|]. rewrite Lhx. ring. }
  pose proof (p2p shift ltac:(lia)) as Ps. pose proof (p2p (w - shift) ltac:(lia)) as Pws.
  assert (2 ^ w = 2 ^ (w - shift) * 2 ^ shift) as Ew by (rewrite <- Z.pow_add_r by lia; f_equal; lia).
  assert (2 ^ (2 * w) = 2 ^ (lx - e + 1) * 2 ^ shift) as E2w by (rewrite <- Z.pow_add_r by lia; f_equal; unfold shift; lia).
  (* any value below hx is aligned the same way *)
  assert (forall v, 0 <= v <= hx -> ((v * 2 ^ shift) mod 2 ^ (2 * w)) / 2 ^ w = v / 2 ^ (w - shift)) as Al.
  { intros v Hv. rewrite Z.mod_small.
    - rewrite Ew. apply Z.div_mul_cancel_r; lia.
    - split; [apply Z.mul_nonneg_nonneg; lia|]. rewrite E2w. apply Z.mul_lt_mono_pos_r; lia. }
  assert (e + (w - shift) = bit_len x - w) as Ek by (unfold shift; lia).
  (* the top words of y at the same position *)
  assert ((if n - wlen w y =? 0 then highest_dword w y else if n - wlen w y =? 1 then top_word w y else 0) = y / 2 ^ e) as Ey.
  { pose proof (wlen_mono y x Hyx) as Hm. fold n in Hm.
    destruct (Z.eqb_spec (n - wlen w y) 0) as [d0|d0].
    - unfold highest_dword. replace (wlen w y) with n by lia. reflexivity.
    - destruct (Z.eqb_spec (n - wlen w y) 1) as [d1|d1].
      + unfold top_word. replace (wlen w y - 1) with (n - 2) by lia. reflexivity.
      + symmetry. apply lt_p2_div0. split; [lia|].
        pose proof (wlen_upper y ltac:(lia)).
        assert (2 ^ (w * wlen w y) <= 2 ^ e).
        { apply Z.pow_le_mono_r; [lia|]. unfold e. apply Z.mul_le_mono_nonneg_l; lia. } lia. }
  split; [|split].
  - unfold highest_word_normalized. fold n. rewrite Ey.
    change (highest_dword w x) with hx. rewrite Elz.
    rewrite (Al hx) by lia. rewrite (Al (y / 2 ^ e)).
    + unfold hx. rewrite !div_p2_p2 by lia. rewrite Ek. reflexivity.
    + split; [apply Z.div_pos; lia|]. unfold hx. apply Z.div_le_mono; lia.
  - lia.
  - rewrite <- Ek, <- div_p2_p2 by lia. fold hx.
    assert (lx - e = (w - 1) + (w - shift)) as E3 by (unfold shift; lia).
    assert (lx - e + 1 = w + (w - shift)) as E4 by (unfold shift; lia).
    rewrite E3 in H1. rewrite E4 in H2. rewrite Z.pow_add_r in H1, H2 by lia.
    split.
    + apply Z.div_le_lower_bound; [lia|]. rewrite Z.mul_comm. exact H1.
    + apply Z.div_lt_upper_bound; [lia|]. rewrite Z.mul_comm. exact H2.
Qed.

(** * highest_dword_normalized *)
Lemma lor_disjoint' : forall hi lo k, 0 <= k -> 0 <= lo < 2 ^ k -> Z.lor (hi * 2 ^ k) lo = hi * 2 ^ k + lo.
Proof.
  intros hi lo k Hk Hlo.
  assert (Z.land (hi * 2 ^ k) lo = 0) as E.
  { apply Z.bits_inj'. intros n Hn. rewrite Z.land_spec, Z.bits_0.
    destruct (Z.lt_ge_cases n k).
    - rewrite Z.mul_pow2_bits_low by lia. reflexivity.
    - rewrite <- (Z.mod_small lo (2 ^ k)) by lia. rewrite Z.mod_pow2_bits_high by lia. apply andb_false_r. }
  rewrite <- Z.lxor_lor by exact E. symmetry. apply Z.add_nocarry_lxor. exact E.
Qed.

(** [extend_word(v0) << (shift + WORD_BITS) | v12 >> (WORD_BITS - shift)] is the double word
    (v0*W^2 + v12) >> (WORD_BITS - shift) when v0 has at most WORD_BITS - shift bits *)
Lemma hi_join : forall shift v0 v12, 0 <= shift <= w - 1 -> 0 <= v0 < 2 ^ (w - shift) -> 0 <= v12 < 2 ^ (2 * w) ->
  Z.lor ((v0 * 2 ^ (shift + w)) mod 2 ^ (2 * w)) (Z.shiftr v12 (w - shift)) = (v0 * 2 ^ (2 * w) + v12) / 2 ^ (w - shift).
Proof.
  intros shift v0 v12 Hs H0 H12.
  pose proof (p2p (w - shift) ltac:(lia)) as Pws. pose proof (p2p (shift + w) ltac:(lia)) as Psw.
  assert (2 ^ (2 * w) = 2 ^ (w - shift) * 2 ^ (shift + w)) as E2w by (rewrite <- Z.pow_add_r by lia; f_equal; lia).
  rewrite Z.mod_small.
  2:{ split; [apply Z.mul_nonneg_nonneg; lia|]. rewrite E2w. apply Z.mul_lt_mono_pos_r; lia. }
  rewrite Z.shiftr_div_pow2 by lia.
  rewrite lor_disjoint'.
  - replace (v0 * 2 ^ (2 * w) + v12) with (v0 * 2 ^ (shift + w) * 2 ^ (w - shift) + v12) by (rewrite E2w; ring).
    rewrite Z.div_add_l by lia. reflexivity.
  - lia.
  - split; [apply Z.div_pos; lia|]. apply Z.div_lt_upper_bound; [lia|]. rewrite <- E2w. lia.
Qed.

Theorem highest_dword_normalized_div : forall x y, 0 <= y <= x -> 3 <= wlen w x ->
  highest_dword_normalized w x y = (x / 2 ^ (bit_len x - 2 * w), y / 2 ^ (bit_len x - 2 * w))
  /\ 2 * w <= bit_len x /\ 2 ^ (2 * w - 1) <= x / 2 ^ (bit_len x - 2 * w) < 2 ^ (2 * w).
Proof.
  intros x y Hyx Hn.
  assert (0 < x) as Hx.
  { destruct (Z.eq_dec x 0) as [e|e]; [|lia]. subst x. unfold wlen in Hn. cbn in Hn. lia. }
  pose proof (wlen_log2 x Hx) as [L1 L2]. pose proof (log2_bounds x Hx) as [B1 B2].
  set (n := wlen w x) in *. set (lx := Z.log2 x) in *.
  assert (bit_len x = lx + 1) as Ebl by (unfold bit_len; destruct (Z.eqb_spec x 0); [lia|reflexivity]).
  set (e := w * (n - 3)). assert (0 <= e) as He by (unfold e; apply Z.mul_nonneg_nonneg; lia).
  assert (w * (n - 1) = e + 2 * w) as E1 by (unfold e; ring).
  assert (w * n = e + 3 * w) as E2 by (unfold e; ring).
  pose proof (p2p e He) as Pe. pose proof (p2p (2 * w) ltac:(lia)) as P2w.
  (* the top word of x *)
  set (x0 := top_word w x).
  assert (x0 = x / 2 ^ (e + 2 * w)) as Ex0 by (unfold x0, top_word; fold n; rewrite E1; reflexivity).
  assert (Z.log2 x0 = lx - (e + 2 * w)) as Lx0.
  { rewrite Ex0. rewrite <- Z.shiftr_div_pow2 by lia. rewrite Z.log2_shiftr by lia. fold lx. lia. }
  assert (0 < x0) as Px0.
  { rewrite Ex0. apply Z.div_str_pos. split; [apply p2p; lia|].
    assert (2 ^ (e + 2 * w) <= 2 ^ lx) by (apply Z.pow_le_mono_r; lia). lia. }
  pose proof (log2_bounds x0 Px0) as [H1 H2]. rewrite Lx0 in H1, H2.
  set (shift := w - (lx - (e + 2 * w) + 1)).
  assert (0 <= shift <= w - 1) as Hs by (unfold shift; lia).
  assert (leading_zeros w x0 = shift) as Elz.
  { unfold leading_zeros, bit_len, shift. destruct (Z.eqb_spec x0 0); [lia|]. rewrite Lx0. ring. }
  assert (lx - (e + 2 * w) + 1 = w - shift) as E3 by (unfold shift; lia).
  rewrite E3 in H2.
  pose proof (p2p (w - shift) ltac:(lia)) as Pws.
  assert (e + (w - shift) = bit_len x - 2 * w) as Ek by (unfold shift; lia).
  (* a value v <= x below: its three leading words at the position of x *)
  assert (forall v, 0 <= v <= x -> 0 <= v / 2 ^ (e + 2 * w) < 2 ^ (w - shift)) as Top.
  { intros v Hv. split; [apply Z.div_pos; [lia|apply p2p; lia]|].
    assert (v / 2 ^ (e + 2 * w) <= x0) by (rewrite Ex0; apply Z.div_le_mono; [apply p2p; lia|lia]). lia. }
  assert (forall v, 0 <= v <= x ->
    Z.lor (((v / 2 ^ (e + 2 * w)) * 2 ^ (shift + w)) mod 2 ^ (2 * w)) (Z.shiftr ((v / 2 ^ e) mod 2 ^ (2 * w)) (w - shift))
    = v / 2 ^ (bit_len x - 2 * w)) as Join.
  { intros v Hv. rewrite hi_join; [|exact Hs|apply Top; exact Hv|apply Z.mod_pos_bound; exact P2w].
    rewrite <- div_p2_p2 by lia.
    rewrite (Z.mul_comm _ (2 ^ (2 * w))), <- Z.div_mod by lia.
    rewrite div_p2_p2 by lia. rewrite Ek. reflexivity. }
  assert (forall v, 0 <= v < 2 ^ (2 * w) -> Z.lor ((0 * 2 ^ (shift + w)) mod 2 ^ (2 * w)) (Z.shiftr v (w - shift)) = v / 2 ^ (w - shift)) as Join0.
  { intros v Hv. rewrite hi_join; [|exact Hs|lia|exact Hv]. rewrite Z.mul_0_l, Z.add_0_l. reflexivity. }
  split; [|split].
  - unfold highest_dword_normalized. fold n. fold x0. rewrite Elz.
    pose proof (wlen_mono y x Hyx) as Hm. fold n in Hm.
    assert (slice_dword w x (n - 3) = (x / 2 ^ e) mod 2 ^ (2 * w)) as Sx by reflexivity.
    destruct (Z.eqb_spec (n - wlen w y) 0) as [d0|d0].
    { f_equal.
      - rewrite Sx, Ex0. apply Join. lia.
      - assert (top_word w y = y / 2 ^ (e + 2 * w)) as -> by (unfold top_word; replace (wlen w y) with n by lia; rewrite E1; reflexivity).
        change (slice_dword w y (n - 3)) with ((y / 2 ^ e) mod 2 ^ (2 * w)). apply Join. lia. }
    destruct (Z.eqb_spec (n - wlen w y) 1) as [d1|d1].
    { f_equal.
      - rewrite Sx, Ex0. apply Join. lia.
      - assert (highest_dword w y = y / 2 ^ e) as -> by (unfold highest_dword; replace (wlen w y - 2) with (n - 3) by lia; reflexivity).
        pose proof (wlen_upper y ltac:(lia)) as U. replace (w * wlen w y) with (e + 2 * w) in U by lia.
        rewrite Join0.
        + rewrite div_p2_p2 by lia. rewrite Ek. reflexivity.
        + split; [apply Z.div_pos; lia|]. apply Z.div_lt_upper_bound; [lia|]. rewrite <- Z.pow_add_r by lia. exact U. }
    destruct (Z.eqb_spec (n - wlen w y) 2) as [d2|d2].
    { f_equal.
      - rewrite Sx, Ex0. apply Join. lia.
      - assert (top_word w y = y / 2 ^ e) as -> by (unfold top_word; replace (wlen w y - 1) with (n - 3) by lia; reflexivity).
        pose proof (wlen_upper y ltac:(lia)) as U. replace (w * wlen w y) with (e + w) in U by lia.
        assert (2 ^ (e + w) <= 2 ^ (e + 2 * w)) by (apply Z.pow_le_mono_r; lia).
        rewrite Join0.
        + rewrite div_p2_p2 by lia. rewrite Ek. reflexivity.
        + split; [apply Z.div_pos; lia|]. apply Z.div_lt_upper_bound; [lia|]. rewrite <- Z.pow_add_r by lia. lia. }
    f_equal.
    + rewrite Sx, Ex0. apply Join. lia.
    + rewrite Join0 by lia. rewrite Z.div_0_l by lia. symmetry. apply lt_p2_div0. split; [lia|].
      pose proof (wlen_upper y ltac:(lia)) as U.
      assert (2 ^ (w * wlen w y) <= 2 ^ e).
      { apply Z.pow_le_mono_r; [lia|]. unfold e. apply Z.mul_le_mono_nonneg_l; lia. }
      assert (2 ^ e <= 2 ^ (bit_len x - 2 * w)) by (apply Z.pow_le_mono_r; lia). lia.
  - lia.
  - assert (bit_len x - 2 * w = lx - (2 * w - 1)) as E5 by lia.
    assert (lx = (2 * w - 1) + (bit_len x - 2 * w)) as E6 by lia.
    assert (lx + 1 = 2 * w + (bit_len x - 2 * w)) as E7 by lia.
    pose proof (p2p (bit_len x - 2 * w) ltac:(lia)).
    rewrite E6 in B1 at 1. rewrite E7 in B2. rewrite Z.pow_add_r in B1, B2 by lia.
    split.
    + apply Z.div_le_lower_bound; [lia|]. rewrite Z.mul_comm. exact B1.
    + apply Z.div_lt_upper_bound; [lia|]. rewrite Z.mul_comm. exact B2.
Qed.
End Top.
