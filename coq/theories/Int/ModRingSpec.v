(** C13 - what the property demands of the reduced ring Z/mZ, as mathematics on Z.  Definitions only
    (proofs in ModRingSpecProofs.v).  Every specification is executable so that the oracle can run it:
    [powm] is square-and-multiply on the binary digits of the exponent and [inv_spec] is the extended
    Euclidean algorithm on explicit fuel; both are proved equal to their declarative meaning. *)
From Dashu Require Import Base.Prelude.
Open Scope Z_scope.

Definition reduce_spec (m a : Z) : Z := a mod m.
Definition add_spec (m a b : Z) : Z := (a + b) mod m.
Definition sub_spec (m a b : Z) : Z := (a - b) mod m.
Definition mul_spec (m a b : Z) : Z := (a * b) mod m.
Definition neg_spec (m a : Z) : Z := (- a) mod m.
Definition dbl_spec (m a : Z) : Z := (2 * a) mod m.
Definition sqr_spec (m a : Z) : Z := (a * a) mod m.
Definition pow_spec (m a e : Z) : Z := (a ^ e) mod m.

(** executable power: binary method on [positive] *)
Fixpoint powm_pos (m a : Z) (e : positive) : Z :=
  match e with
  | xH => a mod m
  | xO p => let t := powm_pos m a p in (t * t) mod m
  | xI p => let t := powm_pos m a p in ((t * t) mod m * a) mod m
  end.

Definition powm (m a e : Z) : Z :=
  match e with
  | Z0 => 1 mod m
  | Zpos p => powm_pos m a p
  | Zneg _ => 0
  end.

(** extended Euclid exactly as a textbook writes it (and as num-modular's [invm] does):
    invariants  last_t * x = last_r  and  t * x = r  (mod m) *)
Fixpoint egcd_loop (fuel : nat) (m last_r r last_t t : Z) : result (Z * Z) :=
  match fuel with
  | O => OutOfFuel
  | S f =>
      if r =? 0 then Ok (last_r, last_t)
      else egcd_loop f m r (last_r mod r) t ((last_t - (last_r / r) * t) mod m)
  end.

Definition egcd_fuel (m : Z) : nat := S (Z.to_nat (Z.log2 (m * m) + 1)).

Definition inv_euclid (m a : Z) : result (option Z) :=
  match egcd_loop (egcd_fuel m) m m (a mod m) 0 (1 mod m) with
  | Ok (g, t) => Ok (if g =? 1 then Some t else None)
  | Panic r => Panic r
  | Err e => Err e
  | OutOfFuel => OutOfFuel
  end.

(** the declarative side: [x] is THE inverse of [a] modulo [m] *)
Definition is_inverse (m a x : Z) : Prop := 0 <= x < m /\ (a * x) mod m = 1 mod m.

Definition inv_ok (m a : Z) (r : option Z) : bool :=
  match r with
  | Some x => (0 <=? x) && (x <? m) && ((a * x) mod m =? 1 mod m) && (Z.gcd a m =? 1)
  | None => negb (Z.gcd a m =? 1)
  end.

Definition inv_spec (m a : Z) : option Z :=
  match inv_euclid m a with Ok r => r | _ => None end.

(** division is multiplication by the inverse; a non-invertible divisor is the documented panic *)
Definition div_spec (m a b : Z) : result Z :=
  match inv_spec m b with
  | Some x => Ok ((a * x) mod m)
  | None => Panic NonInvertible
  end.

(** ring identity: every ConstDivisor instance has its own identity (its address); two operands
    belong together iff the identities coincide - equal moduli are not enough *)
Definition same_ring_spec {A} (id1 id2 : Z) (v : A) : result A :=
  if id1 =? id2 then Ok v else Panic DifferentRings.
