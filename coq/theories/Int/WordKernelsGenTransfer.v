(** C01 round 4: the value contracts of the kernels, restated over the functions REGENERATED from the Rust source
    (coq/gen/WordKernelsGen.v) - each follows from the contract of the hand-written model and `generated = hand`. *)
From Dashu Require Import Base.Prelude Base.Words Int.RingAdd Int.RingAddProofs Int.RingMul Int.RingMulProofs
  Int.WordPrims Int.WordKernelsGenProofs.
From DashuGen Require Import WordKernelsGen.
Open Scope Z_scope.

Theorem gen_add_in_place_contract : forall w, 0 < w -> forall lhs rhs, (length rhs <= length lhs)%nat -> wf w lhs -> wf w rhs ->
  forall r c, add_in_place_gen w lhs rhs = (r, c) ->
  length r = length lhs /\ wf w r /\ value w r + b2z c * B w ^ len lhs = value w lhs + value w rhs.
Proof. intros w Hw lhs rhs L Hl Hr r c E. rewrite add_in_place_gen_eq in E. eapply add_in_place_spec; eauto. Qed.

Theorem gen_sub_in_place_contract : forall w, 0 < w -> forall lhs rhs, (length rhs <= length lhs)%nat -> wf w lhs -> wf w rhs ->
  forall r c, sub_in_place_gen w lhs rhs = (r, c) ->
  length r = length lhs /\ wf w r /\ value w r + - b2z c * B w ^ len lhs = value w lhs + - value w rhs.
Proof. intros w Hw lhs rhs L Hl Hr r c E. rewrite sub_in_place_gen_eq in E. eapply sub_in_place_spec; eauto. Qed.

Theorem gen_sub_in_place_with_sign_contract : forall w, 0 < w -> forall lhs rhs, (length rhs <= length lhs)%nat -> wf w lhs -> wf w rhs ->
  forall r s, sub_in_place_with_sign_gen w lhs rhs = (r, s) ->
  length r = length lhs /\ wf w r /\ signed s (value w r) = value w lhs - value w rhs.
Proof. intros w Hw lhs rhs L Hl Hr r s E. rewrite sub_in_place_with_sign_gen_eq in E. eapply sub_in_place_with_sign_spec; eauto. Qed.

Theorem gen_mul_word_in_place_contract : forall w, 8 <= w -> forall ws rhs, wf w ws -> 0 < rhs < B w ->
  forall r c, mul_word_in_place_gen w ws rhs = (r, c) ->
  length r = length ws /\ wf w r /\ 0 <= c < B w /\ value w r + c * B w ^ len ws = value w ws * rhs.
Proof. intros w Hw ws rhs H1 H2 r c E. rewrite mul_word_in_place_gen_eq in E. eapply mul_word_in_place_spec; eauto. Qed.

Theorem gen_mul_dword_in_place_contract : forall w, 8 <= w -> forall ws rhs, wf w ws -> 0 <= rhs < B w * B w ->
  forall r c, mul_dword_in_place_gen w ws rhs = (r, c) ->
  length r = length ws /\ wf w r /\ 0 <= c < B w * B w /\ value w r + c * B w ^ len ws = value w ws * rhs.
Proof. intros w Hw ws rhs H1 H2 r c E. rewrite mul_dword_in_place_gen_eq in E. eapply mul_dword_in_place_spec; eauto. Qed.

(** the schoolbook kernel built from the regenerated rows meets the multiplication contract *)
Theorem gen_schoolbook_contract : forall w, 8 <= w -> forall c s a b,
  wf w c /\ wf w a /\ wf w b /\ length c = (length a + length b)%nat ->
  exists r carry, add_signed_mul_chunk_gen w c s a b = (r, carry) /\ length r = length c /\ wf w r /\
    value w r + carry * B w ^ len c = value w c + sgnz s * (value w a * value w b).
Proof.
  intros w Hw c s a b H. destruct (simple_chunk_ok w Hw c s a b H) as (r & carry & E & R).
  exists r, carry. split; [|exact R]. rewrite add_signed_mul_chunk_gen_eq by (destruct H as (_ & _ & _ & L); lia).
  unfold simple_chunk_fn in E. injection E as E. exact E.
Qed.
