(** C02 round 4 - the helpers of div_ops.rs::repr REGENERATED from the source (coq/gen/DivReprGen.v: div_rem_in_lhs, div_rem_large,
    div_large, rem_large over the generated kernels) are the transcriptions of Int/DivOwn.v (about which C02_typed_* speak),
    for every word size and every instance of the primitives. *)
From Dashu Require Import Base.Prelude Base.Words Int.RingAdd Int.WordPrims Int.DivWordModel Int.DivWordProofs Int.DivKernelsBase
  Int.DivKernelsGenProofs Int.DivOwn.
From DashuGen Require Import DivKernelsGen DivReprGen.
Open Scope Z_scope.

Section ReprGen.
Variable w : Z.
Hypothesis w_pos : 0 < w.
Variable P : div_prims.
Notation Tn := div_threshold_simple_nat.

Theorem div_rem_in_lhs_gen_eq lhs rhs r : rhs <> [] -> (length rhs <= length lhs)%nat ->
  div_rem_in_lhs w (p3by2 P) (pmul_sub P) Tn (fuel_for lhs) lhs rhs = Ok r ->
  div_rem_in_lhs_gen P w lhs rhs = r.
Proof.
  intros Hne HL. unfold div_rem_in_lhs, div_rem_in_lhs_gen. rewrite normalize_gen_eq. cbv zeta.
  pose proof (shl_in_place_length w rhs (lzw w 1 (highest_word w rhs))) as Hl.
  destruct (shl_in_place w rhs (lzw w 1 (highest_word w rhs))) as [rhs1 c]. cbn [fst] in *.
  assert (Hne1 : rhs1 <> []) by (destruct rhs1; [destruct rhs; [contradiction | discriminate] | discriminate]).
  destruct (div_rem_unshifted w (p3by2 P) (pmul_sub P) Tn (fuel_for lhs) lhs rhs1 (lzw w 1 (highest_word w rhs))) as [[lhs3 qt]| | |] eqn:E;
    cbn [rbind]; intros E2; try discriminate.
  rewrite (div_rem_unshifted_gen_eq w P lhs rhs1 _ _ _ Hne1 ltac:(lia) eq_refl E). congruence.
Qed.

Theorem div_rem_large_gen_eq lhs rhs r : rhs <> [] -> (length rhs <= length lhs)%nat ->
  t_div_rem_large w (p3by2 P) (pmul_sub P) Tn lhs rhs = Ok r -> div_rem_large_gen P w lhs rhs = r.
Proof.
  intros Hne HL. unfold t_div_rem_large, div_rem_large_gen.
  destruct (div_rem_in_lhs w (p3by2 P) (pmul_sub P) Tn (fuel_for lhs) lhs rhs) as [[[l rhs1] s]| | |] eqn:E; cbn [rbind]; intros E2; try discriminate.
  rewrite (div_rem_in_lhs_gen_eq lhs rhs _ Hne HL E). unfold k_shr_in_place.
  destruct (shr_in_place w (firstn (length rhs1) l) s). congruence.
Qed.

Theorem div_large_gen_eq lhs rhs r : rhs <> [] -> (length rhs <= length lhs)%nat ->
  t_div_large w (p3by2 P) (pmul_sub P) Tn lhs rhs = Ok r -> div_large_gen P w lhs rhs = r.
Proof.
  intros Hne HL. unfold t_div_large, div_large_gen.
  destruct (div_rem_in_lhs w (p3by2 P) (pmul_sub P) Tn (fuel_for lhs) lhs rhs) as [[[l rhs1] s]| | |] eqn:E; cbn [rbind]; intros E2; try discriminate.
  rewrite (div_rem_in_lhs_gen_eq lhs rhs _ Hne HL E). congruence.
Qed.

Theorem rem_large_gen_eq lhs rhs r : rhs <> [] -> (length rhs <= length lhs)%nat ->
  t_rem_large w (p3by2 P) (pmul_sub P) Tn lhs rhs = Ok r -> rem_large_gen P w lhs rhs = r.
Proof.
  intros Hne HL. unfold t_rem_large, rem_large_gen.
  destruct (div_rem_in_lhs w (p3by2 P) (pmul_sub P) Tn (fuel_for lhs) lhs rhs) as [[[l rhs1] s]| | |] eqn:E; cbn [rbind]; intros E2; try discriminate.
  rewrite (div_rem_in_lhs_gen_eq lhs rhs _ Hne HL E). unfold k_shr_in_place.
  destruct (shr_in_place w (firstn (length rhs1) l) s). congruence.
Qed.

End ReprGen.
