(** C02 - the instance of the word-level models that the oracle runs: the reciprocal-division
    primitives of num-modular and the multiplication kernel are instantiated by exact arithmetic
    (an admissible instance: the contracts assumed by the theorems are proved for it here). *)
From Dashu Require Import Base.Prelude Base.Words Int.DivWordModel.
From DashuGen Require Import Params.
Open Scope Z_scope.

Section Inst.
Variable w : Z.
Notation B := (Words.B w).

Definition x1by1 (d a : Z) : Z * Z := (a / d, a mod d).
Definition x2by1 (d a : Z) : Z * Z := (a / d, a mod d).
Definition x2by2 (d a : Z) : Z * Z := (a / d, a mod d).
Definition x3by2 (d lo hi : Z) : Z * Z := let a := lo + B * hi in (a / d, a mod d).
Definition x4by2 (d lo hi : Z) : Z * Z := let a := lo + B * B * hi in (a / d, a mod d).
Definition xmul_sub (c a b : list Z) : list Z * Z :=
  let n := length c in let v := Words.value w c - Words.value w a * Words.value w b in
  (to_words w n (v mod B ^ Z.of_nat n), v / B ^ Z.of_nat n).

Definition Tn : nat := Z.to_nat div_threshold_simple.

Definition i_div_by_word := div_by_word w x2by1.
Definition i_rem_by_word := rem_by_word w x1by1 x2by1.
Definition i_div_by_dword := div_by_dword w x3by2 x4by2.
Definition i_rem_by_dword := rem_by_dword w x2by2 x3by2 x4by2.
Definition i_simple_div_rem := simple_div_rem w x3by2.
Definition i_dc_div_rem := dc_div_rem w x3by2 xmul_sub Tn.
Definition i_div_rem_in_place := div_rem_in_place w x3by2 xmul_sub Tn.
Definition i_div_rem_large := div_rem_large w x3by2 xmul_sub Tn.
Definition i_repr_div_rem := repr_div_rem w x2by1 x3by2 x4by2 xmul_sub Tn.
Definition i_repr_div := repr_div w x2by1 x3by2 x4by2 xmul_sub Tn.
Definition i_repr_rem := repr_rem w x1by1 x2by1 x2by2 x3by2 x4by2 xmul_sub Tn.
Definition i_const_div_rem := const_div_rem w x2by1 x3by2 x4by2 xmul_sub Tn.
Definition i_const_rem := const_rem w x1by1 x2by1 x2by2 x3by2 x4by2 xmul_sub Tn.

(** hook level (verif_hooks::div_kernel): which = 0 dispatch, 1 schoolbook, 2 divide and conquer;
    lhs given as a value + its length in words; answer (carry, quotient, remainder) *)
Definition kernel_asis (which : Z) (lhs rhs : Z) (m : Z) : result (Z * Z * Z) :=
  let l := to_words w (Z.to_nat m) lhs in let r := words_of w rhs in
  let n := length r in
  let res := if which =? 1 then Ok (i_simple_div_rem l r)
             else if which =? 2 then i_dc_div_rem (fuel_for l) l r
             else i_div_rem_in_place (fuel_for l) l r in
  rbind res (fun '(l', c) => Ok (Z.b2z c, Words.value w (skipn n l'), Words.value w (firstn n l'))).

(** the kernel's contract (what `lhs = [lhs % rhs, lhs / rhs]` + carry means) *)
Definition kernel_spec (lhs rhs : Z) (m : Z) : Z * Z * Z :=
  let n := Z.of_nat (nwords w rhs) in
  let q := lhs / rhs in (q / B ^ (m - n), q mod B ^ (m - n), lhs mod rhs).

End Inst.
