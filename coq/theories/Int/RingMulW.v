(** C01 (L0): the size dispatch of integer/src/mul/mod.rs at WORD level - every multiplier it reaches is
    the word-level transcription of its Rust kernel:
      mul::add_signed_mul_same_len  ->  simple::add_signed_mul_same_len (n <= THRESHOLD_SIMPLE)
                                        karatsuba::add_signed_mul_same_len (n <= THRESHOLD_KARATSUBA)
                                        toom_3::add_signed_mul_same_len
      mul::add_signed_mul           ->  operand swap (longer first), then on the SHORTER length
                                        simple::add_signed_mul (one chunk, or CHUNK_LEN pieces of the longer operand)
                                        karatsuba::add_signed_mul / toom_3::add_signed_mul
                                        (= helpers::add_signed_mul_split_into_chunks with chunk = len b and
                                           the multiplier's own add_signed_mul_same_len; the tail goes back
                                           to mul::add_signed_mul)
      mul::multiply, sqr::sqr
    The Toom-3 step is [toom3g_same_len] of RingToomW.v (slices, scratch buffers, deferred carries) and its
    two foreign calls are the word-level models of C02: div::div_by_word_in_place(t1, 6) =
    [DivWordModel.div_by_word] (shift left by leading_zeros(6), one 2-by-1 reciprocal division per word from the
    top, remainder shifted back) and shift::shr_in_place(t2, 1) = [DivWordModel.shr_in_place].  The primitive
    [div2by1] (num-modular's Normalized2by1Divisor::div_rem_2by1) is a parameter with the same contract as in C02.

    Recursion is by fuel; the functions take all their arguments (so that the extracted OCaml passes partial
    applications instead of rebuilding a tower of closures: the oracle runs this model up to thousands of
    words).  RingMulWProofs.v: fuel = length + 1 suffices.  Definitions only. *)
From Dashu Require Import Base.Prelude Base.Words Int.RingAdd Int.RingMul Int.RingToomW Int.DivWordModel.
Open Scope Z_scope.

Section MulG.
Variable w : Z.
(** the Toom-3 step, given mul::add_signed_mul_same_len for the recursive products *)
Variable toom : mulfn -> mulfn.
Variable T_simple T_kara CHUNK : nat.

Fixpoint mulg_same (fuel : nat) (c : list Z) (s : sign) (a b : list Z) {struct fuel} : mulres :=
  match fuel with
  | O => OutOfFuel
  | S f =>
      let n := length a in
      if (n <=? T_simple)%nat then simple_chunk_fn w c s a b
      else if (n <=? T_kara)%nat then karatsuba_same_len w (mulg_same f) c s a b
      else toom (mulg_same f) c s a b
  end.

Fixpoint mulg_gen (fuel : nat) (c : list Z) (s : sign) (a b : list Z) {struct fuel} : mulres :=
  match fuel with
  | O => OutOfFuel
  | S f =>
      (* if a.len() < b.len() { mem::swap(&mut a, &mut b) } *)
      let '(a, b) := if (length a <? length b)%nat then (b, a) else (a, b) in
      if (length b <=? T_simple)%nat then
        (* simple::add_signed_mul *)
        if (length a <=? CHUNK)%nat then simple_chunk_fn w c s a b
        else split_into_chunks w (simple_chunk_fn w) (mulg_gen f) CHUNK c s a b
      else if (length b <=? T_kara)%nat then
        (* karatsuba::add_signed_mul *)
        split_into_chunks w (karatsuba_same_len w (mulg_same f)) (mulg_gen f) (length b) c s a b
      else
        (* toom_3::add_signed_mul *)
        split_into_chunks w (toom (mulg_same f)) (mulg_gen f) (length b) c s a b
  end.

Definition add_signed_mul_same_len_g : mulfn := fun c s a b => mulg_same (S (length a)) c s a b.
Definition add_signed_mul_g : mulfn := fun c s a b => mulg_gen (S (length a + length b)) c s a b.
Definition multiply_g (a b : list Z) : result (list Z) :=
  assert_zero (add_signed_mul_g (repeat 0 (length a + length b)) Positive a b).

(** sqr::sqr: simple::square up to MAX_LEN_SIMPLE words, else mul::add_signed_mul_same_len(b, Positive, a, a) *)
Variable SQR_SIMPLE : nat.
Definition sqr_g (a : list Z) : result (list Z) :=
  let b := repeat 0 (2 * length a) in
  if (length a <=? SQR_SIMPLE)%nat then Ok (simple_square w b a)
  else assert_zero (add_signed_mul_same_len_g b Positive a a).

End MulG.

Section MulW.
Variable w : Z.
Variable div2by1 : Z -> Z -> Z * Z.

(** div::div_by_word_in_place(t1, 6) and shift::shr_in_place(t2, 1) *)
Definition toom_div6 (t : list Z) : list Z * Z := div_by_word w div2by1 t 6.
Definition toom_shr1 (t : list Z) : list Z * Z := shr_in_place w t 1.

(** toom_3::add_signed_mul_same_len, all of it at word level *)
Definition toom3x_same_len : mulfn -> mulfn := toom3g_same_len w toom_div6 toom_shr1.

Variable T_simple T_kara CHUNK SQR_SIMPLE : nat.

Definition add_signed_mul_same_len_w : mulfn := add_signed_mul_same_len_g w toom3x_same_len T_simple T_kara.
Definition add_signed_mul_w : mulfn := add_signed_mul_g w toom3x_same_len T_simple T_kara CHUNK.
Definition multiply_w : list Z -> list Z -> result (list Z) := multiply_g w toom3x_same_len T_simple T_kara CHUNK.
Definition sqr_w : list Z -> result (list Z) := sqr_g w toom3x_same_len T_simple T_kara SQR_SIMPLE.

(** the three entry points verif_hooks::mul_kernel reaches besides the dispatch (which = 1, 2, 3) *)
Definition simple_add_signed_mul_w : mulfn := fun c s a b =>
  if (length a <=? CHUNK)%nat then simple_chunk_fn w c s a b
  else split_into_chunks w (simple_chunk_fn w) add_signed_mul_w CHUNK c s a b.
Definition karatsuba_add_signed_mul_w : mulfn := fun c s a b =>
  split_into_chunks w (karatsuba_same_len w add_signed_mul_same_len_w) add_signed_mul_w (length b) c s a b.
Definition toom3_add_signed_mul_w : mulfn := fun c s a b =>
  split_into_chunks w (toom3x_same_len add_signed_mul_same_len_w) add_signed_mul_w (length b) c s a b.

End MulW.
