(** C01 round 5: the multipliers passed to helpers::add_signed_mul_split_into_chunks keep the length of the slice they
    write to - elementary length facts about the hand models (no well-formedness of the words needed), used to discharge
    the [keeps_len] premises of Int/MulBodiesGenProofs.v. *)
From Dashu Require Import Base.Prelude Base.Words Int.RingAdd Int.RingMul Int.RingToomW Int.DivWordModel Int.RingMulW
  Int.WordKernelsGenProofs Int.MulBodiesGenProofs.
Open Scope Z_scope.

Section Len.
Variable w : Z.

Lemma add_same_len_length ws : forall rhs c, length (fst (RingAdd.add_same_len w ws rhs c)) = length ws.
Proof.
  induction ws as [|a ws IH]; intros [|b rhs] c; cbn [RingAdd.add_same_len]; try reflexivity.
  destruct (add_with_carry w a b c) as [s c1]. specialize (IH rhs c1).
  destruct (RingAdd.add_same_len w ws rhs c1) as [r c2]. cbn [fst length] in *. now rewrite IH.
Qed.

Lemma sub_same_len_length ws : forall rhs c, length (fst (RingAdd.sub_same_len w ws rhs c)) = length ws.
Proof.
  induction ws as [|a ws IH]; intros [|b rhs] c; cbn [RingAdd.sub_same_len]; try reflexivity.
  destruct (sub_with_borrow w a b c) as [s c1]. specialize (IH rhs c1).
  destruct (RingAdd.sub_same_len w ws rhs c1) as [r c2]. cbn [fst length] in *. now rewrite IH.
Qed.

Lemma add_in_place_length lhs rhs : length (fst (add_in_place w lhs rhs)) = length lhs.
Proof.
  unfold add_in_place, add_same_len_in_place. cbv zeta.
  pose proof (add_same_len_length (firstn (length rhs) lhs) rhs false) as L1.
  destruct (RingAdd.add_same_len w (firstn (length rhs) lhs) rhs false) as [lo' c]. cbn [fst] in L1.
  pose proof (add_one_in_place_length w (skipn (length rhs) lhs)) as L2.
  destruct c.
  - destruct (add_one_in_place w (skipn (length rhs) lhs)) as [hi' c']. cbn [fst] in *.
    rewrite app_length, L1, L2, <- app_length, firstn_skipn. reflexivity.
  - cbn [fst]. rewrite app_length, L1, <- app_length, firstn_skipn. reflexivity.
Qed.

Lemma sub_in_place_length lhs rhs : length (fst (sub_in_place w lhs rhs)) = length lhs.
Proof.
  unfold sub_in_place, sub_same_len_in_place. cbv zeta.
  pose proof (sub_same_len_length (firstn (length rhs) lhs) rhs false) as L1.
  destruct (RingAdd.sub_same_len w (firstn (length rhs) lhs) rhs false) as [lo' c]. cbn [fst] in L1.
  pose proof (sub_one_in_place_length' w (skipn (length rhs) lhs)) as L2.
  destruct c.
  - destruct (sub_one_in_place w (skipn (length rhs) lhs)) as [hi' c']. cbn [fst] in *.
    rewrite app_length, L1, L2, <- app_length, firstn_skipn. reflexivity.
  - cbn [fst]. rewrite app_length, L1, <- app_length, firstn_skipn. reflexivity.
Qed.

Lemma add_signed_same_len_in_place_length ws s rhs : length (fst (add_signed_same_len_in_place w ws s rhs)) = length ws.
Proof.
  unfold add_signed_same_len_in_place, add_same_len_in_place, sub_same_len_in_place. destruct s.
  - pose proof (add_same_len_length ws rhs false). destruct (RingAdd.add_same_len w ws rhs false). assumption.
  - pose proof (sub_same_len_length ws rhs false). destruct (RingAdd.sub_same_len w ws rhs false). assumption.
Qed.

Lemma add_signed_in_place_length ws s rhs : length (fst (add_signed_in_place w ws s rhs)) = length ws.
Proof.
  unfold add_signed_in_place. destruct s.
  - pose proof (add_in_place_length ws rhs). destruct (add_in_place w ws rhs). assumption.
  - pose proof (sub_in_place_length ws rhs). destruct (sub_in_place w ws rhs). assumption.
Qed.

Lemma trim_len_le_len (ws : list Z) : (trim_len ws <= length ws)%nat.
Proof.
  induction ws as [|x r IH]; cbn [trim_len length]; [lia|].
  destruct (trim_len r); [destruct (x =? 0); lia|lia].
Qed.

Lemma set_nth_len k v (l : list Z) : (k < length l)%nat -> length (set_nth k v l) = length l.
Proof. intros H. unfold set_nth. rewrite app_length, firstn_length. cbn [length]. rewrite skipn_length. lia. Qed.

Lemma sub_sign_eq_length : forall n lhs rhs, (n <= length lhs)%nat -> length (fst (sub_sign_eq w n lhs rhs)) = length lhs.
Proof.
  induction n as [|k IH]; intros lhs rhs L; cbn [sub_sign_eq]; [reflexivity|].
  destruct (nth k lhs 0 ?= nth k rhs 0).
  - rewrite IH; rewrite set_nth_len; lia.
  - unfold sub_same_len_in_place_swap.
    pose proof (sub_same_len_swap_length w (firstn (S k) rhs) (firstn (S k) lhs) false) as L1.
    destruct (sub_same_len_swap w (firstn (S k) rhs) (firstn (S k) lhs) false) as [r c]. cbn [fst] in *.
    rewrite app_length, L1, <- app_length, firstn_skipn. reflexivity.
  - unfold sub_same_len_in_place.
    pose proof (sub_same_len_length (firstn (S k) lhs) (firstn (S k) rhs) false) as L1.
    destruct (RingAdd.sub_same_len w (firstn (S k) lhs) (firstn (S k) rhs) false) as [r c]. cbn [fst] in *.
    rewrite app_length, L1, <- app_length, firstn_skipn. reflexivity.
Qed.

Lemma sub_in_place_with_sign_length lhs rhs : (length rhs <= length lhs)%nat ->
  length (fst (sub_in_place_with_sign w lhs rhs)) = length lhs.
Proof.
  intros L. unfold sub_in_place_with_sign. cbv zeta.
  pose proof (trim_len_le_len lhs) as Tl. pose proof (trim_len_le_len rhs) as Tr.
  destruct (Nat.compare_spec (trim_len lhs) (trim_len rhs)) as [E|Lt|Gt].
  - apply sub_sign_eq_length. lia.
  - unfold sub_same_len_in_place_swap.
    pose proof (sub_same_len_swap_length w (firstn (trim_len lhs) rhs) (firstn (trim_len lhs) lhs) false) as L1.
    destruct (sub_same_len_swap w (firstn (trim_len lhs) rhs) (firstn (trim_len lhs) lhs) false) as [r borrow]. cbn [fst] in *.
    set (mid := firstn (trim_len rhs - trim_len lhs) (skipn (trim_len lhs) rhs)).
    assert (Lm : length (if borrow then fst (sub_one_in_place w mid) else mid) = (trim_len rhs - trim_len lhs)%nat).
    { destruct borrow; [rewrite sub_one_in_place_length'|]; unfold mid; rewrite firstn_length, skipn_length; lia. }
    rewrite !app_length, L1, Lm, firstn_length, skipn_length. lia.
  - pose proof (sub_in_place_length (firstn (trim_len lhs) lhs) (firstn (trim_len rhs) rhs)) as L1.
    destruct (sub_in_place w (firstn (trim_len lhs) lhs) (firstn (trim_len rhs) rhs)) as [r c]. cbn [fst] in *.
    rewrite app_length, L1, <- app_length, firstn_skipn. reflexivity.
Qed.


(** the schoolbook chunk writes len a + 1 words per row: inside its contract the output has the length of c *)
Lemma add_mul_chunk_length a : forall b c carry, (length a + length b <= length c)%nat ->
  length (fst (add_mul_chunk w c a b carry)) = length c.
Proof.
  induction b as [|m b IH]; intros c carry L; cbn [add_mul_chunk]; [reflexivity|]. cbv zeta. cbn [length] in L.
  pose proof (add_mul_word_same_len_length w (firstn (length a) c) m a) as L1.
  destruct (add_mul_word_same_len_in_place w (firstn (length a) c) m a) as [lo cw]. cbn [fst] in L1.
  destruct (add_with_carry w (nth (length a) c 0) cw carry) as [top cn].
  assert (L2 : length (lo ++ top :: skipn (S (length a)) c) = length c).
  { rewrite app_length, L1, firstn_length. cbn [length]. rewrite skipn_length. lia. }
  destruct (lo ++ top :: skipn (S (length a)) c) as [|x c1]; [cbn [length] in L2; lia|].
  cbn [length] in L2. specialize (IH c1 cn ltac:(lia)).
  destruct (add_mul_chunk w c1 a b cn) as [r cf]. cbn [fst length] in *. lia.
Qed.

Lemma sub_mul_chunk_length a : forall b c borrow, (length a + length b <= length c)%nat ->
  length (fst (sub_mul_chunk w c a b borrow)) = length c.
Proof.
  induction b as [|m b IH]; intros c borrow L; cbn [sub_mul_chunk]; [reflexivity|]. cbv zeta. cbn [length] in L.
  pose proof (sub_mul_word_same_len_length w (firstn (length a) c) m a) as L1.
  destruct (sub_mul_word_same_len_in_place w (firstn (length a) c) m a) as [lo bw]. cbn [fst] in L1.
  destruct (sub_with_borrow w (nth (length a) c 0) bw borrow) as [top bn].
  assert (L2 : length (lo ++ top :: skipn (S (length a)) c) = length c).
  { rewrite app_length, L1, firstn_length. cbn [length]. rewrite skipn_length. lia. }
  destruct (lo ++ top :: skipn (S (length a)) c) as [|x c1]; [cbn [length] in L2; lia|].
  cbn [length] in L2. specialize (IH c1 bn ltac:(lia)).
  destruct (sub_mul_chunk w c1 a b bn) as [r cf]. cbn [fst length] in *. lia.
Qed.

Theorem simple_chunk_keeps_len la lb : keeps_len (simple_chunk_fn w) la lb.
Proof.
  intros c s a b r k La Lb Lc E. unfold simple_chunk_fn, add_signed_mul_chunk in E.
  destruct s.
  - pose proof (add_mul_chunk_length a b c false ltac:(lia)) as L.
    destruct (add_mul_chunk w c a b false) as [r' k']. inversion E; subst. exact L.
  - pose proof (sub_mul_chunk_length a b c false ltac:(lia)) as L.
    destruct (sub_mul_chunk w c a b false) as [r' k']. inversion E; subst. exact L.
Qed.


Lemma slice_len lo n (l : list Z) : (lo + n <= length l)%nat -> length (slice lo n l) = n.
Proof. intros H. unfold slice. rewrite firstn_length, skipn_length. lia. Qed.

Ltac len_step :=
  match goal with
  | |- context [add_signed_same_len_in_place w ?x ?s ?y] =>
      let L := fresh "L" in pose proof (add_signed_same_len_in_place_length x s y) as L;
      destruct (add_signed_same_len_in_place w x s y) as [? ?]; cbn [fst] in L
  | |- context [add_signed_in_place w ?x ?s ?y] =>
      let L := fresh "L" in pose proof (add_signed_in_place_length x s y) as L;
      destruct (add_signed_in_place w x s y) as [? ?]; cbn [fst] in L
  | |- context [add_signed_word_in_place w ?x ?y] =>
      let L := fresh "L" in pose proof (add_signed_word_in_place_length w x y) as L;
      destruct (add_signed_word_in_place w x y) as [? ?]; cbn [fst] in L
  end.

(** the Karatsuba step keeps the length of c when the products it requests do *)
Theorem karatsuba_keeps_len (rec_same : mulfn) : (forall m, keeps_len rec_same m m) ->
  forall n, (2 <= n)%nat -> keeps_len (karatsuba_same_len w rec_same) n n.
Proof.
  intros Hrec n Hn c s a b r k La Lb Lc. unfold karatsuba_same_len. cbv zeta. rewrite La.
  set (mid := ((n + 1) / 2)%nat). assert (Hmid : (mid <= n /\ n - mid <= mid /\ 3 * mid <= 2 * n)%nat).
  { unfold mid. pose proof (Nat.div_mod (n + 1) 2 ltac:(lia)). pose proof (Nat.mod_upper_bound (n + 1) 2 ltac:(lia)). lia. }
  destruct (assert_zero (rec_same (repeat 0 (2 * mid)) Positive (firstn mid a) (firstn mid b))) as [c_lo|?|?|]; try discriminate.
  do 2 len_step.
  destruct (assert_zero (rec_same (repeat 0 (2 * (n - mid))) Positive (skipn mid a) (skipn mid b))) as [c_hi|?|?|]; try discriminate.
  do 2 len_step.
  pose proof (sub_in_place_with_sign_length (firstn mid a) (skipn mid a) ltac:(rewrite firstn_length, skipn_length; lia)) as La'.
  pose proof (sub_in_place_with_sign_length (firstn mid b) (skipn mid b) ltac:(rewrite firstn_length, skipn_length; lia)) as Lb'.
  destruct (sub_in_place_with_sign w (firstn mid a) (skipn mid a)) as [a_diff sa].
  destruct (sub_in_place_with_sign w (firstn mid b) (skipn mid b)) as [b_diff sb]. cbn [fst] in La', Lb'.
  rewrite firstn_length in La', Lb'.
  match goal with |- context [splice mid ?x (splice (2 * mid) ?y (splice mid ?z (splice 0 ?t c)))] =>
    set (c4 := splice mid x (splice (2 * mid) y (splice mid z (splice 0 t c)))) in * end.
  assert (Lc4 : length c4 = length c).
  { unfold c4. repeat (erewrite splice_len_pres; [|eassumption]). reflexivity. }
  destruct (rec_same (slice mid (2 * mid) c4) (sign_mul (sign_neg s) (sign_mul sa sb)) a_diff b_diff) as [[x4 k4]|?|?|] eqn:E4;
    try discriminate.
  assert (L4 : length x4 = length (slice mid (2 * mid) c4)).
  { eapply (Hrec mid); [| |  |exact E4]; [lia|lia|rewrite slice_len; lia]. }
  do 2 len_step.
  intros E. inversion E; subst r.
  repeat (erewrite splice_len_pres; [|eassumption]). exact Lc4.
Qed.


(** the Toom-3 step only writes to c through in-place additions into slices of c: it keeps the length of c whatever
    the products it requests return *)
Theorem toom3g_keeps_len (div6 shr1 : list Z -> list Z * Z) (rec_same : mulfn) c s a b r k :
  toom3g_same_len w div6 shr1 rec_same c s a b = Ok (r, k) -> length r = length c.
Proof.
  unfold toom3g_same_len. cbv zeta.
  repeat first
    [ len_step
    | match goal with |- context [rbind ?X _] => destruct X; cbn [rbind]; try discriminate end
    | match goal with |- context [match ?X with pair _ _ => _ end] => destruct X as [? ?] end
    | match goal with |- context [match ?X with Positive => _ | Negative => _ end] => destruct X end
    | match goal with |- context [if ?X then _ else _] => destruct X; try discriminate end ].
  all: intros E; inversion E; subst r; repeat (erewrite splice_len_pres; [|eassumption]); reflexivity.
Qed.

End Len.
