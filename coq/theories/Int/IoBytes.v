(** C07: byte and bit-chunk encodings (convert.rs).
    - specification level: encode then decode is the identity for every integer (unsigned bytes,
      two's complement bytes, bit chunks of any width), decode then encode at the same length gives
      the bytes back;
    - as-is models: from_le_bytes / from_signed_le_bytes (word padding, negation of the flipped
      words) and chunks_to_words (shift into place and add) equal the specification, for any word
      size; the pre-repair models of F01 / F02 are refuted on their witnesses. *)
From Dashu Require Import Base.Prelude Base.Words Int.IoSpec Int.IoModel Int.IoDigits.
Open Scope Z_scope.

(* ---------------------------------------------------------------- powers *)
Lemma pow256 k : 0 <= k -> 256 ^ k = 2 ^ (8 * k).
Proof. intros. rewrite Z.pow_mul_r by lia. reflexivity. Qed.

Lemma blen_nonneg v : 0 <= blen v.
Proof. unfold blen. destruct (v <=? 0); [lia|]. pose proof (Z.log2_nonneg v). lia. Qed.

Lemma blen_lt v : 0 <= v -> v < 2 ^ blen v.
Proof.
  intros Hv. unfold blen. destruct (Z.leb_spec v 0); [cbn; lia|].
  pose proof (Z.log2_spec v ltac:(lia)). replace (Z.log2 v + 1) with (Z.succ (Z.log2 v)) by lia. lia.
Qed.

Lemma blen_pos v : 0 < v -> 0 < blen v.
Proof. intros. unfold blen. destruct (Z.leb_spec v 0); [lia|]. pose proof (Z.log2_nonneg v). lia. Qed.

(* ---------------------------------------------------------------- unsigned bytes *)
Lemma le_bytes_n_value n : forall v, le_value (le_bytes_n n v) = v mod 256 ^ Z.of_nat n.
Proof.
  induction n as [|n IH]; intros v; cbn [le_bytes_n le_value].
  - cbn [Z.of_nat]. rewrite Z.pow_0_r, Z.mod_1_r. reflexivity.
  - rewrite IH, Nat2Z.inj_succ, Z.pow_succ_r by lia.
    rewrite (Z.rem_mul_r v 256 (256 ^ Z.of_nat n)); [reflexivity | lia | apply Z.pow_pos_nonneg; lia].
Qed.

Lemma le_bytes_n_length n : forall v, length (le_bytes_n n v) = n.
Proof. induction n; intros v; cbn [le_bytes_n length]; [reflexivity | now rewrite IHn]. Qed.

Definition bytes_ok (bs : list Z) : Prop := Forall (fun b => 0 <= b < 256) bs.

Lemma le_bytes_n_ok n : forall v, bytes_ok (le_bytes_n n v).
Proof. induction n; intros v; cbn [le_bytes_n]; constructor; [apply Z.mod_pos_bound; lia | apply IHn]. Qed.

Lemma le_value_bounds bs : bytes_ok bs -> 0 <= le_value bs < 256 ^ len bs.
Proof.
  induction bs as [|b t IH]; intros H; cbn [le_value].
  - unfold len. cbn. lia.
  - inversion H as [|? ? Hb Ht]; subst. specialize (IH Ht). rewrite len_cons, Z.pow_add_r, Z.pow_1_r by (try apply len_nonneg; lia). lia.
Qed.

(** decode then encode at the same length: the bytes come back *)
Theorem le_bytes_of_value bs : bytes_ok bs -> le_bytes_n (length bs) (le_value bs) = bs.
Proof.
  induction bs as [|b t IH]; intros H; cbn [le_value length le_bytes_n]; [reflexivity|].
  inversion H as [|? ? Hb Ht]; subst.
  rewrite <- (Z.mod_unique_pos (b + 256 * le_value t) 256 (le_value t) b) by lia.
  rewrite <- (Z.div_unique_pos (b + 256 * le_value t) 256 (le_value t) b) by lia.
  rewrite IH by exact Ht. reflexivity.
Qed.

Lemma byte_len_covers v : 0 <= v -> v < 256 ^ byte_len v.
Proof.
  intros Hv. pose proof (blen_nonneg v). pose proof (blen_lt v Hv).
  unfold byte_len. rewrite pow256 by (apply Z.div_pos; lia).
  apply Z.lt_le_trans with (2 ^ blen v); [lia|]. apply Z.pow_le_mono_r; [lia|].
  pose proof (Z.div_mod (blen v + 7) 8 ltac:(lia)). pose proof (Z.mod_pos_bound (blen v + 7) 8 ltac:(lia)). lia.
Qed.

(** to_le_bytes then from_le_bytes (and, reversed, the big-endian pair) *)
Theorem to_le_bytes_roundtrip v : 0 <= v -> le_value (to_le_bytes_spec v) = v.
Proof.
  intros Hv. unfold to_le_bytes_spec. rewrite le_bytes_n_value.
  assert (0 <= byte_len v) by (unfold byte_len; pose proof (blen_nonneg v); apply Z.div_pos; lia).
  rewrite Z2Nat.id by lia. apply Z.mod_small. split; [lia | apply byte_len_covers; lia].
Qed.

Theorem to_be_bytes_roundtrip v : 0 <= v -> be_value (rev (to_le_bytes_spec v)) = v.
Proof. intros. unfold be_value. rewrite rev_involutive. apply to_le_bytes_roundtrip. assumption. Qed.

Lemma le_bytes_n_last k : forall x, last (le_bytes_n (S k) x) 0 = (x / 256 ^ Z.of_nat k) mod 256.
Proof.
  induction k as [|k IH]; intros x.
  - cbn. rewrite Z.div_1_r. reflexivity.
  - change (le_bytes_n (S (S k)) x) with (x mod 256 :: le_bytes_n (S k) (x / 256)).
    change (le_bytes_n (S k) (x / 256)) with ((x / 256) mod 256 :: le_bytes_n k (x / 256 / 256)).
    change (last (x mod 256 :: (x / 256) mod 256 :: le_bytes_n k (x / 256 / 256)) 0)
      with (last ((x / 256) mod 256 :: le_bytes_n k (x / 256 / 256)) 0).
    change ((x / 256) mod 256 :: le_bytes_n k (x / 256 / 256)) with (le_bytes_n (S k) (x / 256)).
    rewrite IH, Z.div_div by (try apply Z.pow_pos_nonneg; lia).
    rewrite Nat2Z.inj_succ, Z.pow_succ_r by lia. reflexivity.
Qed.

(** the encoding is the shortest: no most significant zero byte *)
Theorem to_le_bytes_minimal v : 0 < v -> 1 <= last (to_le_bytes_spec v) 0.
Proof.
  intros Hv. unfold to_le_bytes_spec.
  pose proof (blen_pos v Hv) as Hb. pose proof (blen_lt v ltac:(lia)) as Hlt.
  assert (Hn : 1 <= byte_len v).
  { unfold byte_len. apply Z.div_le_lower_bound; lia. }
  destruct (Z.to_nat (byte_len v)) as [|n] eqn:En; [lia|].
  rewrite le_bytes_n_last.
  assert (En' : Z.of_nat n = byte_len v - 1) by lia.
  (* v >= 2^(blen-1) >= 256^(byte_len-1) *)
  assert (Hlow : 256 ^ Z.of_nat n <= v).
  { rewrite En', pow256 by lia. unfold blen in *. destruct (Z.leb_spec v 0); [lia|].
    pose proof (Z.log2_spec v Hv). apply Z.le_trans with (2 ^ Z.log2 v); [|lia].
    apply Z.pow_le_mono_r; [lia|]. unfold byte_len, blen. destruct (Z.leb_spec v 0); [lia|].
    pose proof (Z.div_mod (Z.log2 v + 1 + 7) 8 ltac:(lia)). pose proof (Z.mod_pos_bound (Z.log2 v + 1 + 7) 8 ltac:(lia)). lia. }
  assert (Hup : v < 256 * 256 ^ Z.of_nat n).
  { pose proof (byte_len_covers v ltac:(lia)) as Hc. replace (byte_len v) with (Z.succ (Z.of_nat n)) in Hc by lia.
    rewrite Z.pow_succ_r in Hc by lia. exact Hc. }
  assert (Hp : 0 < 256 ^ Z.of_nat n) by (apply Z.pow_pos_nonneg; lia).
  rewrite Z.mod_small.
  - apply Z.div_le_lower_bound; lia.
  - split; [apply Z.div_pos; lia | apply Z.div_lt_upper_bound; lia].
Qed.

(* ---------------------------------------------------------------- two's complement bytes *)
Lemma signed_byte_len_covers v : v <> 0 ->
  1 <= signed_byte_len v /\ 2 * Z.abs v < 256 ^ signed_byte_len v.
Proof.
  intros Hv. set (m := Z.abs v). assert (Hm : 0 < m) by (unfold m; lia).
  pose proof (blen_pos m Hm) as Hb. pose proof (blen_lt m ltac:(lia)) as Hlt.
  unfold signed_byte_len, byte_len. fold m.
  pose proof (Z.div_mod (blen m) 8 ltac:(lia)) as D. pose proof (Z.mod_pos_bound (blen m) 8 ltac:(lia)) as Mb.
  pose proof (Z.div_mod (blen m + 7) 8 ltac:(lia)) as D7. pose proof (Z.mod_pos_bound (blen m + 7) 8 ltac:(lia)) as M7.
  assert (Hgoal : forall n, 1 <= n -> blen m + 1 <= 8 * n -> 1 <= n /\ 2 * m < 256 ^ n).
  { intros n H1 H8. split; [exact H1|]. rewrite pow256 by lia.
    apply Z.lt_le_trans with (2 ^ (blen m + 1)); [rewrite Z.pow_add_r, Z.pow_1_r by lia; lia|].
    apply Z.pow_le_mono_r; lia. }
  destruct (Z.eqb_spec (blen m mod 8) 0) as [E|NE]; apply Hgoal; lia.
Qed.

(** to_signed_le_bytes then from_signed_le_bytes: the identity on ALL integers (in particular on
    -2^(8k), where the code before the repair of F01 answered 0) *)
Theorem to_signed_le_bytes_roundtrip v : le_signed_value (to_signed_le_bytes_spec v) = v.
Proof.
  unfold to_signed_le_bytes_spec. destruct (Z.eqb_spec v 0) as [->|NZ]; [reflexivity|].
  destruct (signed_byte_len_covers v NZ) as [Hn Hc]. set (n := signed_byte_len v) in *.
  destruct (Z.to_nat n) as [|k] eqn:En; [lia|].
  assert (Ek : Z.of_nat k = n - 1) by lia.
  unfold le_signed_value. rewrite le_bytes_n_last, le_bytes_n_value.
  unfold len. rewrite le_bytes_n_length.
  replace (Z.of_nat (S k)) with n by lia.
  assert (Hp : 0 < 256 ^ Z.of_nat k) by (apply Z.pow_pos_nonneg; lia).
  assert (EP : 256 ^ n = 256 * 256 ^ Z.of_nat k).
  { replace n with (Z.succ (Z.of_nat k)) by lia. rewrite Z.pow_succ_r by lia. reflexivity. }
  rewrite Z.mod_mod by lia. set (P := 256 ^ Z.of_nat k) in *.
  destruct (Z.lt_trichotomy v 0) as [Hneg|[?|Hpos]]; [|lia|].
  - (* negative: v mod 256^n = 256^n + v, top byte >= 128 *)
    assert (Em : v mod 256 ^ n = 256 ^ n + v).
    { symmetry. apply Z.mod_unique with (-1); lia. }
    rewrite Em. rewrite Z.mod_small.
    + destruct (Z.leb_spec 128 ((256 ^ n + v) / P)) as [_|Hc2]; [lia|].
      exfalso. assert (128 <= (256 ^ n + v) / P) by (apply Z.div_le_lower_bound; lia). lia.
    + split; [apply Z.div_pos; lia | apply Z.div_lt_upper_bound; lia].
  - rewrite (Z.mod_small v) by lia. rewrite Z.mod_small.
    + destruct (Z.leb_spec 128 (v / P)) as [Hc2|_]; [|reflexivity].
      exfalso. assert (v / P < 128) by (apply Z.div_lt_upper_bound; lia). lia.
    + split; [apply Z.div_pos; lia | apply Z.div_lt_upper_bound; lia].
Qed.

Theorem to_signed_be_bytes_roundtrip v : be_signed_value (rev (to_signed_le_bytes_spec v)) = v.
Proof. unfold be_signed_value. rewrite rev_involutive. apply to_signed_le_bytes_roundtrip. Qed.

(* ---------------------------------------------------------------- as-is: from bytes *)
Section AsIs.
Variable w : Z.
Hypothesis w_pos : 0 < w.

Lemma le_value_app a b : le_value (a ++ b) = le_value a + 256 ^ len a * le_value b.
Proof.
  induction a as [|x t IH]; cbn [app le_value].
  - unfold len. cbn [length Z.of_nat]. rewrite Z.pow_0_r. lia.
  - rewrite IH, len_cons, Z.pow_add_r, Z.pow_1_r by (try apply len_nonneg; lia). ring.
Qed.

Lemma le_value_repeat0 n : le_value (repeat 0 n) = 0.
Proof. induction n; cbn [repeat le_value]; lia. Qed.

Lemma le_value_repeat255 n : le_value (repeat 255 n) = 256 ^ Z.of_nat n - 1.
Proof.
  induction n as [|n IH]; [reflexivity|]. cbn [repeat le_value]. rewrite IH, Nat2Z.inj_succ, Z.pow_succ_r by lia. ring.
Qed.

Lemma pad0_value n bs : le_value (pad_bytes n 0 bs) = le_value bs.
Proof. unfold pad_bytes. rewrite le_value_app, le_value_repeat0. lia. Qed.

(** Repr::from_le_bytes: both paths (double word, word buffer) are the little-endian sum *)
Theorem from_le_bytes_asis_correct bs : from_le_bytes_asis w bs = le_value bs.
Proof. unfold from_le_bytes_asis. destruct (len bs <=? 2 * WBy w); apply pad0_value. Qed.

Lemma pad255_value n bs : (length bs <= n)%nat ->
  le_value (pad_bytes n 255 bs) = le_value bs + 256 ^ Z.of_nat n - 256 ^ len bs.
Proof.
  intros H. unfold pad_bytes. rewrite le_value_app, le_value_repeat255.
  replace (Z.of_nat n) with (len bs + Z.of_nat (n - length bs)) by (unfold len; lia).
  rewrite Z.pow_add_r by (try apply len_nonneg; lia). ring.
Qed.

Lemma last_ge_128_value bs : bytes_ok bs -> bs <> [] -> 128 <= last bs 0 ->
  256 ^ len bs <= 2 * le_value bs.
Proof.
  induction bs as [|b t IH]; intros Hok Hne Hl; [contradiction|].
  inversion Hok as [|? ? Hb Ht]; subst. destruct t as [|c t'].
  - change (len [b]) with 1. rewrite Z.pow_1_r. cbn [le_value last] in *. lia.
  - specialize (IH Ht ltac:(discriminate) Hl). rewrite (len_cons b), Z.pow_add_r, Z.pow_1_r by (try apply len_nonneg; lia).
    cbn [le_value] in *. lia.
Qed.

(** Repr::from_signed_le_bytes: pad with 0xff, flip, add one, negate = two's complement value.
    [w] a multiple of 8 so that words are whole bytes. *)
Theorem from_signed_le_bytes_asis_correct bs : w mod 8 = 0 -> bytes_ok bs ->
  from_signed_le_bytes_asis w bs = le_signed_value bs.
Proof.
  intros Hw8 Hok. unfold from_signed_le_bytes_asis, le_signed_value.
  destruct bs as [|b0 t0] eqn:Ebs; [reflexivity|]. rewrite <- Ebs in *.
  assert (Hne : bs <> []) by (rewrite Ebs; discriminate).
  destruct (Z.ltb_spec (last bs 0) 128) as [Hlt|Hge].
  - destruct (Z.leb_spec 128 (last bs 0)); [lia|]. apply from_le_bytes_asis_correct.
  - destruct (Z.leb_spec 128 (last bs 0)); [|lia].
    pose proof (le_value_bounds bs Hok) as Hb. pose proof (last_ge_128_value bs Hok Hne Hge) as Hh.
    assert (HW : w = 8 * WBy w) by (unfold WBy; pose proof (Z.div_mod w 8 ltac:(lia)); lia).
    assert (HWp : 0 < WBy w) by lia.
    assert (Hlen : 0 < len bs) by (rewrite Ebs, len_cons; pose proof (len_nonneg t0); lia).
    destruct (Z.leb_spec (len bs) (2 * WBy w)) as [Hs|Hl].
    + rewrite pad255_value by (unfold len in Hs; lia).
      rewrite Z2Nat.id by lia.
      assert (EB : Bw w * Bw w = 256 ^ (2 * WBy w)).
      { unfold Bw. rewrite <- Z.pow_add_r by lia. rewrite pow256 by lia. f_equal. lia. }
      rewrite EB. set (T := 256 ^ (2 * WBy w)).
      assert (256 ^ len bs <= T) by (apply Z.pow_le_mono_r; lia).
      replace (T - 1 - (le_value bs + T - 256 ^ len bs) + 1) with (256 ^ len bs - le_value bs) by ring.
      rewrite Z.mod_small by lia. ring.
    + set (nw := Z.to_nat ((len bs - 1) / WBy w + 1)).
      assert (Hq : 0 <= (len bs - 1) / WBy w) by (apply Z.div_pos; lia).
      assert (Hcap : len bs <= Z.of_nat nw * WBy w).
      { unfold nw. rewrite Z2Nat.id by lia.
        pose proof (Z.div_mod (len bs - 1) (WBy w) ltac:(lia)). pose proof (Z.mod_pos_bound (len bs - 1) (WBy w) ltac:(lia)). nia. }
      rewrite pad255_value by (unfold len in Hcap; nia).
      assert (EB : Bw w ^ Z.of_nat nw = 256 ^ Z.of_nat (nw * Z.to_nat (WBy w))).
      { unfold Bw. rewrite <- Z.pow_mul_r by lia. rewrite pow256 by lia. f_equal. nia. }
      rewrite EB. ring.
Qed.

(* ---------------------------------------------------------------- as-is: bit chunks *)
(** chunks_to_words: every chunk is shifted to bit i*chunk_bits (split into a word offset and a
    bit offset) and added: the positional sum, chunks may be wider than chunk_bits *)
Lemma from_chunks_fold cb cs : 0 <= cb -> forall acc i, 0 <= i ->
  fst (fold_left (fun '(acc, i) c => (acc + (c * 2 ^ ((i * cb) mod w)) * 2 ^ (w * ((i * cb) / w)), i + 1)) cs (acc, i))
  = acc + 2 ^ (i * cb) * from_chunks_spec cb cs.
Proof.
  intros Hcb. induction cs as [|c t IH]; intros acc i Hi; cbn [fold_left from_chunks_spec fst].
  - lia.
  - rewrite IH by lia.
    assert (E : 2 ^ ((i * cb) mod w) * 2 ^ (w * ((i * cb) / w)) = 2 ^ (i * cb)).
    { rewrite <- Z.pow_add_r.
      - f_equal. pose proof (Z.div_mod (i * cb) w ltac:(lia)). lia.
      - apply Z.mod_pos_bound. lia.
      - apply Z.mul_nonneg_nonneg; [lia|]. apply Z.div_pos; nia. }
    replace ((i + 1) * cb) with (i * cb + cb) by ring. rewrite Z.pow_add_r by nia.
    rewrite <- Z.mul_assoc, E. ring.
Qed.

Theorem from_chunks_asis_correct cb cs : 0 <= cb -> from_chunks_asis w cb cs = from_chunks_spec cb cs.
Proof. intros H. unfold from_chunks_asis. rewrite from_chunks_fold by lia. rewrite Z.mul_0_l, Z.pow_0_r. lia. Qed.

End AsIs.

(* ---------------------------------------------------------------- chunks: specification *)
Lemma from_to_chunks_gen cb v : 0 < cb -> 0 <= v -> forall k s,
  from_chunks_spec cb (map (fun i => (v / 2 ^ (Z.of_nat i * cb)) mod 2 ^ cb) (seq s k))
  = (v / 2 ^ (Z.of_nat s * cb)) mod 2 ^ (Z.of_nat k * cb).
Proof.
  intros Hcb Hv. induction k as [|k IH]; intros s; cbn [seq map from_chunks_spec].
  - cbn [Z.of_nat]. rewrite Z.mul_0_l, Z.pow_0_r, Z.mod_1_r. reflexivity.
  - rewrite IH. rewrite !Nat2Z.inj_succ.
    replace (Z.succ (Z.of_nat k) * cb) with (cb + Z.of_nat k * cb) by ring.
    replace (Z.succ (Z.of_nat s) * cb) with (Z.of_nat s * cb + cb) by ring.
    assert (H1 : 0 < 2 ^ cb) by (apply Z.pow_pos_nonneg; lia).
    assert (H2 : 0 < 2 ^ (Z.of_nat s * cb)) by (apply Z.pow_pos_nonneg; nia).
    assert (H3 : 0 < 2 ^ (Z.of_nat k * cb)) by (apply Z.pow_pos_nonneg; nia).
    rewrite (Z.pow_add_r 2 cb) by nia.
    rewrite (Z.pow_add_r 2 (Z.of_nat s * cb)) by nia.
    rewrite <- Z.div_div by lia.
    symmetry. apply Z.rem_mul_r; lia.
Qed.

(** to_chunks then from_chunks: the identity, for every chunk width *)
Theorem to_chunks_roundtrip v cb : 0 < cb -> 0 <= v -> from_chunks_spec cb (to_chunks_spec v cb) = v.
Proof.
  intros Hcb Hv. unfold to_chunks_spec. rewrite from_to_chunks_gen by lia.
  cbn [Z.of_nat]. rewrite Z.mul_0_l, Z.pow_0_r, Z.div_1_r.
  pose proof (blen_nonneg v) as Hb. pose proof (blen_lt v Hv) as Hlt.
  assert (Hc : 0 <= chunk_count v cb) by (unfold chunk_count; apply Z.div_pos; lia).
  rewrite Z2Nat.id by lia. apply Z.mod_small. split; [lia|].
  apply Z.lt_le_trans with (2 ^ blen v); [lia|]. apply Z.pow_le_mono_r; [lia|].
  unfold chunk_count. pose proof (Z.div_mod (blen v + cb - 1) cb ltac:(lia)). pose proof (Z.mod_pos_bound (blen v + cb - 1) cb ltac:(lia)). nia.
Qed.

(** every chunk is below 2^chunk_bits *)
Theorem to_chunks_range v cb : 0 < cb -> Forall (fun c => 0 <= c < 2 ^ cb) (to_chunks_spec v cb).
Proof.
  intros Hcb. unfold to_chunks_spec. apply Forall_forall. intros c Hc. apply in_map_iff in Hc.
  destruct Hc as (i & <- & _). apply Z.mod_pos_bound. apply Z.pow_pos_nonneg; lia.
Qed.

(* ---------------------------------------------------------------- the repaired defects *)
(** F01: before the repair the byte count of a negative multi-word value was taken from
    magnitude - 1: -2^128 was encoded as sixteen zero bytes, which decode as 0 *)
Theorem to_signed_le_bytes_before_fix_refuted :
  le_signed_value (to_signed_le_bytes_before_fix 64 (- 2 ^ 128)) = 0 /\
  le_signed_value (to_signed_le_bytes_asis 64 (- 2 ^ 128)) = - 2 ^ 128 /\
  to_signed_le_bytes_asis 64 (- 2 ^ 128) = to_signed_le_bytes_spec (- 2 ^ 128).
Proof. repeat split; vm_compute; reflexivity. Qed.

(** F02: before the repair the word-aligned path of to_chunks sliced a whole chunk of words for
    the top chunk: 2^130 (three words) in 128-bit chunks indexed past the end *)
Theorem to_chunks_before_fix_refuted :
  to_chunks_before_fix 64 (2 ^ 130) 128 = Panic Undocumented /\
  to_chunks_asis 64 (2 ^ 130) 128 = Ok (to_chunks_spec (2 ^ 130) 128) /\
  to_chunks_spec (2 ^ 130) 128 = [0; 4].
Proof. repeat split; vm_compute; reflexivity. Qed.
