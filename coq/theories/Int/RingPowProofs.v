(** C01 (L1): pow.rs.  The square-and-multiply loops (word base lifted to the largest power that
    fits a word, double-word base, large base), math::max_exp_in_word (its loop never runs out of
    the w iterations it can need), the shortcuts for bases 0, 1, 2, 2^k and small exponents, the
    factor-2 removal of UBig::pow and the sign rule of IBig::pow return exactly base^exp, for all
    bases and all exponents >= 0, every word size w >= 8 and every admissible threshold triple. *)
From Dashu Require Import Base.Prelude Base.Words Int.RingAdd Int.RingAddProofs Int.RingMul Int.RingMulProofs
  Int.RingKaraProofs Int.RingToomProofs Int.RingDispatchProofs Int.RingSqrProofs Int.RingOps Int.RingOpsProofs Int.RingOpsMulProofs.
Open Scope Z_scope.

(** ------------------------------------------------------------------ arithmetic of the binary method *)
Lemma testbit_split e p : 0 <= p -> e mod 2 ^ (p + 1) = Z.b2z (Z.testbit e p) * 2 ^ p + e mod 2 ^ p.
Proof.
  intros Hp. rewrite Z.pow_add_r, Z.pow_1_r by lia. assert (0 < 2 ^ p) by (apply Z.pow_pos_nonneg; lia).
  rewrite Z.rem_mul_r by lia. rewrite Z.testbit_spec' by lia. ring.
Qed.

Lemma mod_pow2_nonneg e k : 0 <= k -> 0 <= e mod 2 ^ k.
Proof. intros Hk. apply Z.mod_pos_bound, Z.pow_pos_nonneg; lia. Qed.

Lemma top_bit_split q : 0 < q -> q = 2 ^ Z.log2 q + q mod 2 ^ Z.log2 q.
Proof.
  intros Hq. destruct (Z.log2_spec q Hq) as [L U]. rewrite Z.pow_succ_r in U by apply Z.log2_nonneg.
  assert (0 < 2 ^ Z.log2 q) by (apply Z.pow_pos_nonneg; [lia | apply Z.log2_nonneg]).
  assert (q / 2 ^ Z.log2 q = 1).
  { symmetry. apply (Z.div_unique q (2 ^ Z.log2 q) 1 (q - 2 ^ Z.log2 q)); lia. }
  pose proof (Z.div_mod q (2 ^ Z.log2 q) ltac:(lia)). nia.
Qed.

Lemma sq_pow x n : 0 <= n -> (x * x) ^ n = x ^ (2 * n).
Proof. intros Hn. rewrite Z.pow_mul_r by lia. rewrite Z.pow_2_r. reflexivity. Qed.

(** one round of the loop: ((x * base^bit)^2)^(2^p') * base^(e mod 2^(p'+1)) *)
Lemma binary_step x base e (p' : nat) (b : bool) : b = Z.testbit e (Z.of_nat (S p')) ->
  ((x * base ^ Z.b2z b) * (x * base ^ Z.b2z b)) ^ (2 ^ Z.of_nat p') * base ^ (e mod 2 ^ (Z.of_nat p' + 1))
  = x ^ (2 ^ Z.of_nat (S p')) * base ^ (e mod 2 ^ (Z.of_nat (S p') + 1)).
Proof.
  intros Hb. set (N := 2 ^ Z.of_nat p'). assert (0 < N) by (apply Z.pow_pos_nonneg; lia).
  rewrite (testbit_split e (Z.of_nat (S p'))) by lia. rewrite <- Hb.
  rewrite Nat2Z.inj_succ. rewrite <- Z.add_1_r.
  set (M := e mod 2 ^ (Z.of_nat p' + 1)). assert (0 <= M) by (apply mod_pow2_nonneg; lia).
  rewrite sq_pow by lia. rewrite Z.pow_mul_l.
  replace (2 ^ (Z.of_nat p' + 1)) with (2 * N) by (subst N; rewrite Z.pow_add_r, Z.pow_1_r by lia; ring).
  destruct b; cbn [Z.b2z].
  - rewrite Z.pow_1_r, Z.mul_1_l, Z.pow_add_r by lia. ring.
  - rewrite Z.pow_0_r, Z.pow_1_l, Z.mul_0_l, Z.add_0_l by lia. ring.
Qed.

Lemma binary_last x base e (b : bool) : b = Z.testbit e 0 ->
  x * base ^ Z.b2z b = x ^ (2 ^ Z.of_nat 0) * base ^ (e mod 2 ^ (Z.of_nat 0 + 1)).
Proof.
  intros Hb. cbn [Z.of_nat Z.add]. rewrite Z.pow_0_r, !Z.pow_1_r. rewrite <- Z.bit0_mod, <- Hb. reflexivity.
Qed.

(** the whole exponent from its top bit down: base^2 is the start value, bits log2 e - 1 .. 0 follow *)
Lemma binary_total base e : 2 <= e ->
  (base * base) ^ (2 ^ Z.of_nat (Z.to_nat (Z.log2 e - 1))) * base ^ (e mod 2 ^ (Z.of_nat (Z.to_nat (Z.log2 e - 1)) + 1)) = base ^ e.
Proof.
  intros He. assert (1 <= Z.log2 e) by (apply Z.log2_le_pow2; cbn; lia).
  rewrite Z2Nat.id by lia. replace (Z.log2 e - 1 + 1) with (Z.log2 e) by ring.
  assert (0 < 2 ^ (Z.log2 e - 1)) by (apply Z.pow_pos_nonneg; lia).
  rewrite sq_pow by lia. replace (2 * 2 ^ (Z.log2 e - 1)) with (2 ^ Z.log2 e).
  2:{ replace (Z.log2 e) with (Z.log2 e - 1 + 1) at 1 by ring. rewrite Z.pow_add_r, Z.pow_1_r by lia. ring. }
  rewrite <- Z.pow_add_r; [|apply Z.pow_nonneg; lia | apply mod_pow2_nonneg; lia].
  rewrite <- top_bit_split by lia. reflexivity.
Qed.

Section PowProofs.
Variable w : Z.
Hypothesis w_ge : 8 <= w.
Let w_pos : 0 < w. Proof. lia. Qed.
Variable T_simple T_kara CHUNK SQR_SIMPLE : nat.
Hypothesis T_simple_ok : (1 <= T_simple)%nat.
Hypothesis T_kara_ok : (3 <= T_kara)%nat.
Hypothesis CHUNK_ok : (1 <= CHUNK)%nat.
Notation BB := (B w).
Notation val := (value w).
Notation wfw := (wf w).
Notation rv := (repr_value w).
Notation srv := (srepr_value w).
Notation tokw := (tok w).
Let HB : 0 < BB := B_pos w w_pos.
Let HB256 : 256 <= BB := B_ge_256 w w_ge.

Lemma bit_len_log2 e : 0 < e -> bit_len e = Z.log2 e + 1.
Proof. intros H. unfold bit_len. destruct (Z.eqb_spec e 0); lia. Qed.

(** ------------------------------------------------------------------ the loop on word lists *)
Section Loop.
Variable step : list Z -> list Z.
Variable base e : Z.
Hypothesis step_ok : forall res, wfw res -> wfw (step res) /\ val (step res) = val res * base.

Lemma pow_loop_spec : forall p res, wfw res ->
  exists r, pow_loop w T_simple T_kara SQR_SIMPLE p e step res = Ok r /\ wfw r /\
            val r = val res ^ (2 ^ Z.of_nat p) * base ^ (e mod 2 ^ (Z.of_nat p + 1)).
Proof.
  induction p as [|p' IH]; intros res Hres; cbn [pow_loop].
  - destruct (Z.testbit e (Z.of_nat 0)) eqn:Eb.
    + destruct (step_ok res Hres) as (W & V). eexists. split; [reflexivity|]. split; [exact W|].
      rewrite V. rewrite <- (binary_last (val res) base e true) by (symmetry; exact Eb). cbn [Z.b2z]. rewrite Z.pow_1_r. reflexivity.
    + eexists. split; [reflexivity|]. split; [exact Hres|].
      rewrite <- (binary_last (val res) base e false) by (symmetry; exact Eb). cbn [Z.b2z]. rewrite Z.pow_0_r. ring.
  - set (res' := if Z.testbit e (Z.of_nat (S p')) then step res else res).
    assert (H' : wfw res' /\ val res' = val res * base ^ Z.b2z (Z.testbit e (Z.of_nat (S p')))).
    { subst res'. destruct (Z.testbit e (Z.of_nat (S p'))); cbn [Z.b2z].
      - rewrite Z.pow_1_r. apply step_ok; auto.
      - rewrite Z.pow_0_r. split; [auto | ring]. }
    destruct H' as (W' & V').
    destruct (sqr_correct w w_ge T_simple T_kara CHUNK SQR_SIMPLE T_simple_ok T_kara_ok CHUNK_ok res' W') as (r1 & E1 & _ & W1 & V1).
    rewrite E1. destruct (IH r1 W1) as (r & E & Wr & Vr). exists r. split; [exact E|]. split; [exact Wr|].
    rewrite Vr, V1, V'. apply binary_step. reflexivity.
Qed.
End Loop.

(** ------------------------------------------------------------------ math::max_exp_in_word *)
Lemma max_exp_loop_spec base : 2 <= base -> forall fuel e p, p = base ^ e -> p < BB -> 1 <= e -> w <= Z.of_nat fuel + e ->
  exists e' p', max_exp_loop w fuel base e p = Ok (e', p') /\ e <= e' /\ p' = base ^ e' /\ p' < BB.
Proof.
  intros Hb. induction fuel as [|f IH]; intros e p Hp Hlt He Hf.
  - exfalso. assert (2 ^ w <= base ^ e).
    { transitivity (2 ^ e); [apply Z.pow_le_mono_r; lia | apply Z.pow_le_mono_l; lia]. }
    unfold B in Hlt. lia.
  - cbn [max_exp_loop]. destruct (Z.ltb_spec (p * base) BB) as [H|H].
    + destruct (IH (e + 1) (p * base)) as (e' & p' & E & Le & R); try lia.
      { rewrite Z.pow_add_r, Z.pow_1_r by lia. subst p. reflexivity. }
      exists e', p'. split; [exact E|]. split; [lia | exact R].
    + exists e, p. repeat split; auto. lia.
Qed.

Lemma max_exp_in_word_spec base : 2 <= base < BB ->
  exists wexp wbase, max_exp_in_word w base = Ok (wexp, wbase) /\ 1 <= wexp /\ wbase = base ^ wexp /\ wbase < BB.
Proof.
  intros Hb. unfold max_exp_in_word. destruct (Z.ltb_spec (2 ^ (w / 2) - 1) base) as [H|H].
  - exists 1, base. rewrite Z.pow_1_r. repeat split; auto; lia.
  - assert (Hw2 : 0 <= w / 2) by (apply Z.div_pos; lia).
    rewrite bit_len_log2 by lia. set (L := Z.log2 base + 1).
    assert (HL : 1 <= L) by (subst L; pose proof (Z.log2_nonneg base); lia).
    assert (HLw : L <= w / 2).
    { subst L. assert (Z.log2 base < w / 2); [|lia]. apply Z.log2_lt_pow2; lia. }
    assert (He0 : 2 <= w / L).
    { apply Z.div_le_lower_bound; [lia|]. pose proof (Z.mul_div_le w 2 ltac:(lia)). nia. }
    assert (Hbl : base < 2 ^ L) by (subst L; apply Z.log2_spec; lia).
    assert (Hp0 : base ^ (w / L) < BB).
    { unfold B. apply Z.lt_le_trans with ((2 ^ L) ^ (w / L)).
      - apply Z.pow_lt_mono_l; lia.
      - rewrite <- Z.pow_mul_r by lia. apply Z.pow_le_mono_r; [lia|]. apply Z.mul_div_le. lia. }
    destruct (max_exp_loop_spec base ltac:(lia) (Z.to_nat w) (w / L) (base ^ (w / L)) eq_refl Hp0 ltac:(lia) ltac:(lia))
      as (e' & p' & E & Le & Vp & Bp).
    exists e', p'. repeat split; auto. lia.
Qed.

(** ------------------------------------------------------------------ pow_word_base *)
Lemma pow2_to_words_spec k : 0 <= k ->
  let ws := to_words w (Z.to_nat (k / w + 1)) (2 ^ k) in wfw ws /\ val ws = 2 ^ k.
Proof.
  intros Hk ws. subst ws. split; [apply to_words_wf; exact w_pos|]. apply value_to_words; [exact w_pos|].
  assert (0 <= k / w) by (apply Z.div_pos; lia).
  split; [apply Z.pow_nonneg; lia|]. rewrite Z2Nat.id by lia. unfold B. rewrite <- Z.pow_mul_r by lia.
  apply Z.pow_lt_mono_r; [lia | nia |]. pose proof (Z.div_mod k w ltac:(lia)). pose proof (Z.mod_pos_bound k w ltac:(lia)). nia.
Qed.

Lemma pow_le_base base a b : 1 <= base -> 0 <= a <= b -> base ^ a <= base ^ b.
Proof. intros. apply Z.pow_le_mono_r; lia. Qed.

Theorem pow_word_base_correct base e : 0 <= base < BB -> 3 <= e ->
  exists r, pow_word_base w T_simple T_kara SQR_SIMPLE base e = Ok r /\ rv r = base ^ e /\ twf w r.
Proof.
  intros Hb He. unfold pow_word_base.
  destruct (Z.eqb_spec base 0) as [->|N0].
  { eexists. split; [reflexivity|]. cbn [repr_value twf]. rewrite Z.pow_0_l by lia. split; [reflexivity | nia]. }
  destruct (Z.eqb_spec base 1) as [->|N1].
  { eexists. split; [reflexivity|]. cbn [repr_value twf]. rewrite Z.pow_1_l by lia. split; [reflexivity | nia]. }
  destruct (Z.eqb_spec base 2) as [->|N2].
  { destruct (pow2_to_words_spec e ltac:(lia)) as (W & V). destruct (from_buffer_spec w w_ge _ W) as (V' & T).
    eexists. split; [reflexivity|]. split; [rewrite V', V; reflexivity | exact T]. }
  destruct (is_power_of_two base) eqn:Ep.
  { destruct (is_power_of_two_spec base Ep) as (_ & Hpow). pose proof (Z.log2_nonneg base).
    destruct (pow2_to_words_spec (e * Z.log2 base) ltac:(nia)) as (W & V). destruct (from_buffer_spec w w_ge _ W) as (V' & T).
    eexists. split; [reflexivity|]. split; [|exact T]. rewrite V', V. rewrite Hpow at 2. rewrite <- Z.pow_mul_r by lia. f_equal. ring. }
  destruct (max_exp_in_word_spec base ltac:(lia)) as (wexp & wbase & E & Hwe & Vwb & Bwb). rewrite E.
  assert (Hb1 : 1 <= base) by lia.
  assert (Hwb3 : 3 <= wbase).
  { subst wbase. transitivity (base ^ 1); [rewrite Z.pow_1_r; lia | apply pow_le_base; lia]. }
  destruct (Z.ltb_spec e wexp) as [H1|H1].
  { eexists. split; [reflexivity|]. cbn [repr_value twf]. split; [reflexivity|].
    split; [apply Z.pow_nonneg; lia|]. pose proof (pow_le_base base e wexp Hb1 ltac:(lia)). nia. }
  destruct (Z.ltb_spec e (2 * wexp)) as [H2|H2].
  { eexists. split; [reflexivity|]. cbn [repr_value twf]. rewrite Vwb, <- Z.pow_add_r by lia.
    split; [f_equal; lia|]. rewrite Z.pow_add_r by lia. rewrite <- Vwb.
    pose proof (pow_le_base base (e - wexp) wexp Hb1 ltac:(lia)). assert (0 < base ^ (e - wexp)) by (apply Z.pow_pos_nonneg; lia). nia. }
  set (q := e / wexp). set (r := e mod wexp).
  assert (Hq : 2 <= q) by (subst q; apply Z.div_le_lower_bound; lia).
  pose proof (Z.div_mod e wexp ltac:(lia)) as DM. fold q r in DM. pose proof (Z.mod_pos_bound e wexp ltac:(lia)) as Br. fold r in Br.
  set (sq := wbase * wbase).
  assert (Bsq : 0 <= sq < BB * BB) by (subst sq; nia).
  destruct (dword_split w w_pos sq Bsq) as (S1 & S2 & S3).
  assert (Winit : wfw [sq mod BB; sq / BB]) by (apply wf_cons; split; [lia|]; apply wf_cons; split; [lia | apply wf_nil]).
  assert (Vinit : val [sq mod BB; sq / BB] = wbase * wbase) by (cbn [value]; subst sq; lia).
  set (step := fun res : list Z => let '(x, c) := mul_word_in_place w res wbase in x ++ [c]).
  assert (Hstep : forall res, wfw res -> wfw (step res) /\ val (step res) = val res * wbase).
  { intros res Hres. subst step. cbv beta. destruct (mul_word_in_place w res wbase) as [x c] eqn:Em.
    destruct (mul_word_in_place_spec w w_ge res wbase Hres ltac:(lia) _ _ Em) as (Lx & Wx & Bc & Vx).
    split; [apply wf_snoc; auto|]. rewrite val_snoc, (len_eq x res Lx). lia. }
  rewrite bit_len_log2 by lia. replace (Z.log2 q + 1 - 2) with (Z.log2 q - 1) by ring.
  destruct (pow_loop_spec step wbase q Hstep (Z.to_nat (Z.log2 q - 1)) _ Winit) as (res & El & Wres & Vres).
  fold step. rewrite El. rewrite Vinit in Vres. rewrite binary_total in Vres by lia.
  assert (Bbr : 0 < base ^ r < BB).
  { split; [apply Z.pow_pos_nonneg; lia|]. pose proof (pow_le_base base r wexp Hb1 ltac:(lia)). lia. }
  destruct (mul_word_in_place w res (base ^ r)) as [x c] eqn:Em.
  destruct (mul_word_in_place_spec w w_ge res (base ^ r) Wres Bbr _ _ Em) as (Lx & Wx & Bc & Vx).
  destruct (from_buffer_spec w w_ge (x ++ [c]) (wf_snoc w x c Wx Bc)) as (V' & T).
  eexists. split; [reflexivity|]. split; [|exact T].
  rewrite V', val_snoc, (len_eq x res Lx). replace (val x + BB ^ len res * c) with (val res * base ^ r) by lia.
  rewrite Vres, Vwb, <- Z.pow_mul_r, <- Z.pow_add_r by lia. f_equal. lia.
Qed.

(** ------------------------------------------------------------------ pow_dword_base *)
Theorem pow_dword_base_correct base e : BB <= base < BB * BB -> 3 <= e ->
  exists r, pow_dword_base w T_simple T_kara SQR_SIMPLE base e = Ok r /\ rv r = base ^ e /\ twf w r.
Proof.
  intros Hb He. unfold pow_dword_base.
  destruct (mul_add_carry_dword w base base 0) as [lo hi] eqn:E.
  destruct (mul_add_carry_dword_spec w w_ge base base 0 lo hi ltac:(lia) ltac:(lia) ltac:(nia) E) as (Blo & Bhi & V).
  destruct (dword_split w w_pos lo Blo) as (L1 & L2 & L3). destruct (dword_split w w_pos hi Bhi) as (H1 & H2 & H3).
  assert (Winit : wfw [lo mod BB; lo / BB; hi mod BB; hi / BB]) by (repeat (apply wf_cons; split; [lia|]); apply wf_nil).
  assert (Vinit : val [lo mod BB; lo / BB; hi mod BB; hi / BB] = base * base) by (cbn [value]; nia).
  set (step := fun res : list Z => let '(x, c) := mul_dword_in_place w res base in if 0 <? c then x ++ [c mod BB; c / BB] else x).
  assert (Hstep : forall res, wfw res -> wfw (step res) /\ val (step res) = val res * base).
  { intros res Hres. subst step. cbv beta. destruct (mul_dword_in_place w res base) as [x c] eqn:Em.
    destruct (mul_dword_in_place_spec w w_ge res base Hres ltac:(lia) _ _ Em) as (Lx & Wx & Bc & Vx).
    destruct (Z.ltb_spec 0 c) as [Hc|Hc].
    - destruct (dword_split w w_pos c Bc) as (C1 & C2 & C3). split.
      + apply wf_app. split; [auto|]. apply wf_cons; split; [lia|]. apply wf_cons; split; [lia | apply wf_nil].
      + rewrite value_app. cbn [value]. rewrite (len_eq x res Lx). nia.
    - assert (c = 0) by lia. subst c. split; [auto | lia]. }
  rewrite bit_len_log2 by lia. replace (Z.log2 e + 1 - 2) with (Z.log2 e - 1) by ring.
  destruct (pow_loop_spec step base e Hstep (Z.to_nat (Z.log2 e - 1)) _ Winit) as (res & El & Wres & Vres).
  fold step. rewrite El. rewrite Vinit in Vres. rewrite binary_total in Vres by lia.
  destruct (from_buffer_spec w w_ge res Wres) as (V' & T). eexists. split; [reflexivity|]. split; [lia | exact T].
Qed.

(** ------------------------------------------------------------------ pow_large_base *)
Lemma as_slice_spec r : tokw r -> wfw (as_slice w r) /\ val (as_slice w r) = rv r.
Proof.
  destruct r as [d|ws]; cbn [tok as_slice repr_value]; intros H; [|auto].
  destruct (dword_split w w_pos d H) as (D1 & D2 & D3).
  assert (W : wfw [d mod BB; d / BB]) by (apply wf_cons; split; [lia|]; apply wf_cons; split; [lia | apply wf_nil]).
  destruct (pop_zeros_spec w w_ge _ W) as (W' & V' & _). split; [exact W'|]. rewrite V'. cbn [value]. lia.
Qed.

Lemma pow_large_loop_spec base e : wfw base -> forall p res, twf w res ->
  exists r, pow_large_loop w T_simple T_kara CHUNK SQR_SIMPLE p e base res = Ok r /\ twf w r /\
            rv r = rv res ^ (2 ^ Z.of_nat p) * val base ^ (e mod 2 ^ (Z.of_nat p + 1)).
Proof.
  intros Hbase. induction p as [|p' IH]; intros res Hres; cbn [pow_large_loop];
    destruct (as_slice_spec res (twf_tok w res Hres)) as (Ws & Vs).
  - destruct (Z.testbit e (Z.of_nat 0)) eqn:Eb.
    + destruct (mul_large_correct w w_ge T_simple T_kara CHUNK SQR_SIMPLE T_simple_ok T_kara_ok CHUNK_ok _ base Ws Hbase) as (r & E & V & T).
      rewrite E. eexists. split; [reflexivity|]. split; [exact T|].
      rewrite V, Vs. rewrite <- (binary_last (rv res) (val base) e true) by (symmetry; exact Eb). cbn [Z.b2z]. rewrite Z.pow_1_r. reflexivity.
    + eexists. split; [reflexivity|]. split; [exact Hres|].
      rewrite <- (binary_last (rv res) (val base) e false) by (symmetry; exact Eb). cbn [Z.b2z]. rewrite Z.pow_0_r. ring.
  - assert (H' : exists res', (if Z.testbit e (Z.of_nat (S p')) then mul_large w T_simple T_kara CHUNK SQR_SIMPLE (as_slice w res) base else Ok res) = Ok res' /\
                  twf w res' /\ rv res' = rv res * val base ^ Z.b2z (Z.testbit e (Z.of_nat (S p')))).
    { destruct (Z.testbit e (Z.of_nat (S p'))); cbn [Z.b2z].
      - destruct (mul_large_correct w w_ge T_simple T_kara CHUNK SQR_SIMPLE T_simple_ok T_kara_ok CHUNK_ok _ base Ws Hbase) as (r & E & V & T).
        exists r. rewrite Z.pow_1_r, V, Vs. auto.
      - exists res. rewrite Z.pow_0_r. repeat split; auto. ring. }
    destruct H' as (res' & E' & T' & V'). rewrite E'.
    destruct (as_slice_spec res' (twf_tok w res' T')) as (Ws' & Vs').
    destruct (square_large_correct w w_ge T_simple T_kara CHUNK SQR_SIMPLE T_simple_ok T_kara_ok CHUNK_ok _ Ws') as (r1 & E1 & V1 & T1).
    rewrite E1. destruct (IH r1 T1) as (r & E & Tr & Vr). exists r. split; [exact E|]. split; [exact Tr|].
    rewrite Vr, V1, Vs', V'. apply binary_step. reflexivity.
Qed.

Theorem pow_large_base_correct base e : wfw base -> 3 <= e ->
  exists r, pow_large_base w T_simple T_kara CHUNK SQR_SIMPLE base e = Ok r /\ rv r = val base ^ e /\ twf w r.
Proof.
  intros Hbase He. unfold pow_large_base.
  destruct (square_large_correct w w_ge T_simple T_kara CHUNK SQR_SIMPLE T_simple_ok T_kara_ok CHUNK_ok _ Hbase) as (r1 & E1 & V1 & T1).
  rewrite E1. rewrite bit_len_log2 by lia. replace (Z.log2 e + 1 - 2) with (Z.log2 e - 1) by ring.
  destruct (pow_large_loop_spec base e Hbase (Z.to_nat (Z.log2 e - 1)) r1 T1) as (r & E & Tr & Vr).
  exists r. split; [exact E|]. split; [|exact Tr]. rewrite Vr, V1. apply binary_total. lia.
Qed.

(** ------------------------------------------------------------------ TypedReprRef::pow *)
Theorem repr_pow_correct x e : tokw x -> 0 <= e ->
  exists r, repr_pow w T_simple T_kara CHUNK SQR_SIMPLE x e = Ok r /\ rv r = rv x ^ e /\ tokw r.
Proof.
  intros Hx He. unfold repr_pow.
  destruct (Z.eqb_spec e 0) as [->|N0].
  { eexists. split; [reflexivity|]. cbn [repr_value tok]. rewrite Z.pow_0_r. split; [reflexivity | nia]. }
  destruct (Z.eqb_spec e 1) as [->|N1].
  { exists x. rewrite Z.pow_1_r. auto. }
  destruct (Z.eqb_spec e 2) as [->|N2].
  { destruct (repr_sqr_correct w w_ge T_simple T_kara CHUNK SQR_SIMPLE T_simple_ok T_kara_ok CHUNK_ok x Hx) as (r & E & V & T).
    exists r. split; [exact E|]. split; [rewrite V, Z.pow_2_r; reflexivity | apply twf_tok; exact T]. }
  destruct x as [d|ws]; cbn [tok repr_value] in *.
  - destruct (Z.ltb_spec d BB).
    + destruct (pow_word_base_correct d e ltac:(lia) ltac:(lia)) as (r & E & V & T). exists r. split; [exact E|]. split; [exact V | apply twf_tok; exact T].
    + destruct (pow_dword_base_correct d e ltac:(lia) ltac:(lia)) as (r & E & V & T). exists r. split; [exact E|]. split; [exact V | apply twf_tok; exact T].
  - destruct (pow_large_base_correct ws e Hx ltac:(lia)) as (r & E & V & T). exists r. split; [exact E|]. split; [exact V | apply twf_tok; exact T].
Qed.

(** ------------------------------------------------------------------ UBig::pow / IBig::pow *)
Lemma typed_of_value_spec v : 0 <= v -> rv (typed_of_value w v) = v /\ tokw (typed_of_value w v).
Proof.
  intros Hv. unfold typed_of_value. destruct (Z.ltb_spec v (BB * BB)) as [H|H]; cbn [repr_value tok]; [lia|].
  split; [|apply to_words_wf; exact w_pos]. apply value_to_words; [exact w_pos|].
  assert (0 < v) by nia. pose proof (Z.log2_nonneg v). assert (0 <= Z.log2 v / w) by (apply Z.div_pos; lia).
  split; [lia|]. rewrite Z2Nat.id by lia. unfold B. rewrite <- Z.pow_mul_r by lia.
  apply Z.lt_le_trans with (2 ^ Z.succ (Z.log2 v)); [apply Z.log2_spec; lia|].
  apply Z.pow_le_mono_r; [lia|]. pose proof (Z.div_mod (Z.log2 v) w ltac:(lia)). pose proof (Z.mod_pos_bound (Z.log2 v) w ltac:(lia)). nia.
Qed.

Lemma tz_pos_spec p : 0 <= tz_pos p /\ exists m, Zpos p = m * 2 ^ tz_pos p.
Proof.
  induction p as [q IH|q IH|]; cbn [tz_pos].
  - split; [lia|]. exists (Zpos q~1). rewrite Z.pow_0_r. lia.
  - destruct IH as (H0 & m & Hm). split; [lia|]. exists m. rewrite Z.pow_add_r, Z.pow_1_r by lia.
    rewrite Pos2Z.inj_xO, Hm. ring.
  - split; [lia|]. exists 1. rewrite Z.pow_0_r. lia.
Qed.

Lemma trailing_zeros_spec v : 0 <= trailing_zeros v /\ Z.shiftr v (trailing_zeros v) * 2 ^ trailing_zeros v = v.
Proof.
  destruct v as [|p|p]; cbn [trailing_zeros]; try (split; [lia|]; rewrite Z.shiftr_0_r, Z.pow_0_r; ring).
  destruct (tz_pos_spec p) as (H0 & m & Hm). split; [exact H0|].
  rewrite Z.shiftr_div_pow2 by lia. rewrite Hm at 1. rewrite Z.div_mul; [symmetry; exact Hm|].
  apply Z.pow_nonzero; lia.
Qed.

Lemma tokw_nonneg r : tokw r -> 0 <= rv r.
Proof. destruct r; cbn [tok repr_value]; intros H; [lia | apply value_nonneg; [exact w_pos | exact H]]. Qed.

Theorem ubig_pow_asis_correct x e : tokw x -> 0 <= e ->
  exists r, ubig_pow_asis w T_simple T_kara CHUNK SQR_SIMPLE x e = Ok r /\ rv r = rv x ^ e /\ tokw r.
Proof.
  intros Hx He. unfold ubig_pow_asis. pose proof (tokw_nonneg x Hx) as Hv.
  destruct (trailing_zeros_spec (rv x)) as (Hs & Vs). set (s := trailing_zeros (rv x)) in *.
  destruct (Z.eqb_spec s 0) as [_|Ns]; cbn [negb]; [apply repr_pow_correct; auto|].
  assert (Hq : 0 <= Z.shiftr (rv x) s) by (apply Z.shiftr_nonneg; exact Hv).
  destruct (typed_of_value_spec _ Hq) as (Vq & Tq).
  destruct (repr_pow_correct _ e Tq He) as (r & E & V & T). rewrite E.
  pose proof (tokw_nonneg r T) as Hr.
  assert (Hsh : 0 <= Z.shiftl (rv r) (e * s)) by (apply Z.shiftl_nonneg; exact Hr).
  destruct (typed_of_value_spec _ Hsh) as (Vr & Tr).
  eexists. split; [reflexivity|]. split; [|exact Tr].
  rewrite Vr, Z.shiftl_mul_pow2 by nia. rewrite V, Vq. rewrite <- Vs at 2.
  rewrite Z.pow_mul_l. f_equal. rewrite (Z.mul_comm e s), Z.pow_mul_r by lia. reflexivity.
Qed.

Theorem ibig_pow_asis_correct s x e : tokw x -> 0 <= e ->
  exists r, ibig_pow_asis w T_simple T_kara CHUNK SQR_SIMPLE s x e = Ok r /\ srv r = signed s (rv x) ^ e.
Proof.
  intros Hx He. unfold ibig_pow_asis. destruct (ubig_pow_asis_correct x e Hx He) as (r & E & V & T). rewrite E.
  eexists. split; [reflexivity|]. rewrite (proj1 (with_sign_value w _ r)), V. unfold signed.
  destruct s; cbn [sgnz].
  - rewrite !Z.mul_1_l. reflexivity.
  - replace (-1 * rv x) with (- rv x) by ring. destruct (Z.odd e) eqn:Eo; cbn [sgnz].
    + rewrite Z.pow_opp_odd; [ring | apply Z.odd_spec; exact Eo].
    + rewrite Z.pow_opp_even; [ring | apply Z.even_spec; rewrite <- Z.negb_odd, Eo; reflexivity].
Qed.

End PowProofs.
