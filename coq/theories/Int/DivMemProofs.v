(** C02 - the scratch memory reserved by div::memory_requirement_exact is enough for the whole recursion,
    for every pair of lengths (proofs for Int/DivMemModel.v over the regenerated coq/gen/DivDispatch.v).

    mul side: the exact peak P(n) of a same-length multiplication satisfies
      n <= THRESHOLD_KARATSUBA : P(n) <= 2n + 2 ceil_log2 n                       (induction, ceil_log2 halves)
      n >  THRESHOLD_KARATSUBA : P(n) <= 4n + 20 d  with  32 * 3^d <= 2n - 5       (d = Toom-3 depth)
    and 3^20 > 2^31 turns the second into 4n + 13 ceil_log2 n (the integer form of the source's
    "20 log_3 n < 13 log_2 n").  Only inequalities between the regenerated thresholds are used. *)
From Coq Require Import ZArith List Bool Lia.
From Dashu Require Import Base.Prelude Int.DivMemBase Int.DivMemModel.
From DashuGen Require Import Params DivDispatch.
Import ListNotations.
Open Scope Z_scope.

Local Notation TS := mul_threshold_simple.
Local Notation TK := mul_threshold_karatsuba.
Local Notation TD := div_threshold_simple.

(** what the general argument needs of the regenerated constants *)
Lemma params_ok : 2 <= TS /\ TS <= TK /\ 52 <= TK /\ 2 <= TD.
Proof. unfold mul_threshold_simple, mul_threshold_karatsuba, div_threshold_simple. lia. Qed.

(** the two size dispatches of mul/mod.rs select the same kernel *)
Lemma kernel_sel_agree : forall n, g_mul_kernel n = g_mul_same_len_kernel n.
Proof. reflexivity. Qed.

(** *** ceil_log2 *)
Lemma clog_nonneg : forall x, 0 <= ceil_log2 x.
Proof. intros x. unfold ceil_log2. destruct (x <=? 1); [lia|]. pose proof (Z.log2_nonneg (x - 1)). lia. Qed.

Lemma clog_mono : forall a b, a <= b -> ceil_log2 a <= ceil_log2 b.
Proof.
  intros a b H. unfold ceil_log2.
  destruct (Z.leb_spec a 1), (Z.leb_spec b 1); try lia.
  - pose proof (Z.log2_nonneg (b - 1)). lia.
  - pose proof (Z.log2_le_mono (a - 1) (b - 1)). lia.
Qed.

Lemma clog_le_self : forall x, 0 <= x -> ceil_log2 x <= x.
Proof.
  intros x H. unfold ceil_log2. destruct (Z.leb_spec x 1); [lia|].
  pose proof (Z.log2_lt_lin (x - 1)). lia.
Qed.

Lemma clog_half : forall n, 2 <= n -> ceil_log2 ((n + 1) / 2) + 1 <= ceil_log2 n.
Proof.
  intros n H. unfold ceil_log2.
  assert (Hm : n <= 2 * ((n + 1) / 2) <= n + 1) by (Z.div_mod_to_equations; lia).
  destruct (Z.leb_spec n 1); [lia|].
  destruct (Z.leb_spec ((n + 1) / 2) 1).
  - pose proof (Z.log2_nonneg (n - 1)). lia.
  - set (a := (n + 1) / 2 - 1) in *. assert (Ha : 0 < a) by lia.
    pose proof (Z.log2_double a Ha). pose proof (Z.log2_le_mono (2 * a) (n - 1)). lia.
Qed.

Lemma clog_pow : forall n, 1 <= n -> n <= 2 ^ ceil_log2 n.
Proof.
  intros n H. unfold ceil_log2. destruct (Z.leb_spec n 1).
  - replace n with 1 by lia. cbn. lia.
  - assert (H1 : 0 < n - 1) by lia. pose proof (Z.log2_spec (n - 1) H1) as [_ Hs].
    replace (Z.log2 (n - 1) + 1) with (Z.succ (Z.log2 (n - 1))) by lia. lia.
Qed.

(** *** powers: 3^d against 2^e *)
Lemma pow3_lin : forall d, 0 <= d -> 2 * d + 1 <= 3 ^ d.
Proof.
  intros d H. pattern d. apply natlike_ind; [cbn; lia| |exact H].
  intros x Hx IH. rewrite Z.pow_succ_r by lia. lia.
Qed.

Lemma pow_compare : forall d e, 0 <= d -> 0 <= e -> 3 ^ d < 2 ^ e -> 31 * d < 20 * e.
Proof.
  intros d e Hd He H. destruct (Z.lt_ge_cases (31 * d) (20 * e)) as [|Hge]; [assumption|exfalso].
  assert (H1 : 2 ^ (20 * e) <= 2 ^ (31 * d)) by (apply Z.pow_le_mono_r; lia).
  assert (H2 : 2 ^ (31 * d) <= 3 ^ (20 * d)).
  { rewrite !Z.pow_mul_r by lia. apply Z.pow_le_mono_l. split; [lia|]. vm_compute. discriminate. }
  assert (H3 : 3 ^ (20 * d) < 2 ^ (20 * e)).
  { rewrite (Z.mul_comm 20 d), (Z.mul_comm 20 e), !Z.pow_mul_r by lia.
    apply Z.pow_lt_mono_l; [lia|]. split; [apply Z.pow_nonneg; lia|assumption]. }
  lia.
Qed.

(** the Toom-3 depth term: 20 d <= 13 ceil_log2 n *)
Lemma toom_depth : forall n d, 1 <= d -> 32 * 3 ^ d <= 2 * n - 5 -> 20 * d <= 13 * ceil_log2 n.
Proof.
  intros n d Hd H.
  pose proof (pow3_lin d ltac:(lia)) as H3.
  assert (Hn : 1 <= n) by lia.
  pose proof (clog_pow n Hn) as Hp. pose proof (clog_nonneg n) as Hc0.
  set (c := ceil_log2 n) in *.
  assert (Hc : 4 <= c).
  { destruct (Z.lt_ge_cases c 4) as [Hlt|]; [exfalso|assumption].
    assert (2 ^ c <= 2 ^ 3) by (apply Z.pow_le_mono_r; lia). change (2 ^ 3) with 8 in *. lia. }
  assert (Hs : 2 ^ c = 16 * 2 ^ (c - 4)).
  { replace c with (4 + (c - 4)) at 1 by lia. rewrite Z.pow_add_r by lia. reflexivity. }
  assert (Hlt : 3 ^ d < 2 ^ (c - 4)) by lia.
  pose proof (pow_compare d (c - 4) ltac:(lia) ltac:(lia) Hlt). lia.
Qed.

(** *** traces *)
Fixpoint trace_peakZ (P : Z -> Z) (evs : list mem_ev) (cur : Z) (stack : list Z) (peak : Z) : Z :=
  match evs with
  | [] => peak
  | EvOpen :: r => trace_peakZ P r cur (cur :: stack) peak
  | EvClose :: r => match stack with s :: st => trace_peakZ P r s st peak | [] => trace_peakZ P r cur [] peak end
  | EvAlloc n :: r => trace_peakZ P r (cur + n) stack (Z.max peak (cur + n))
  | EvCall n :: r => trace_peakZ P r cur stack (Z.max peak (cur + P n))
  end.
Definition unwrap (r : result Z) : Z := match r with Ok p => p | _ => 0 end.
Fixpoint ev_calls (evs : list mem_ev) : list Z :=
  match evs with [] => [] | EvCall n :: r => n :: ev_calls r | _ :: r => ev_calls r end.

Lemma trace_peak_eval : forall P evs, Forall (fun m => exists p, P m = Ok p) (ev_calls evs) ->
  forall cur st pk, trace_peak P evs cur st pk = Ok (trace_peakZ (fun m => unwrap (P m)) evs cur st pk).
Proof.
  intros P evs. induction evs as [|e r IH]; intros HF cur st pk; [reflexivity|].
  destruct e; cbn [trace_peak trace_peakZ ev_calls] in *.
  - apply IH, HF.
  - destruct st; apply IH, HF.
  - apply IH, HF.
  - inversion HF as [|? ? [p Hp] HF']; subst. rewrite Hp. cbn [rbind unwrap]. apply IH, HF'.
Qed.

Lemma trace_peakZ_ge : forall P evs cur st pk, pk <= trace_peakZ P evs cur st pk.
Proof.
  intros P evs. induction evs as [|e r IH]; intros cur st pk; cbn [trace_peakZ]; [lia|].
  destruct e.
  - apply IH.
  - destruct st; apply IH.
  - etransitivity; [|apply IH]. lia.
  - etransitivity; [|apply IH]. lia.
Qed.

Ltac max_lub := repeat (apply Z.max_lub); lia.

(** *** same-length multiplication *)
Definition RK (n : Z) : Z := if n <=? TS then 0 else 2 * n + 2 * ceil_log2 n.
Definition bnd (n p : Z) : Prop :=
  (n <= TK -> p <= RK n) /\
  (TK < n -> exists d, 1 <= d /\ p <= 4 * n + 20 * d /\ 32 * 3 ^ d <= 2 * n - 5).

Lemma bnd_weak : forall n p, 0 <= n -> bnd n p -> p <= 6 * n.
Proof.
  intros n p Hn [HA HB]. destruct (Z.le_gt_cases n TK) as [Hle|Hgt].
  - specialize (HA Hle). unfold RK in HA. pose proof (clog_le_self n Hn). destruct (n <=? TS); lia.
  - destruct (HB Hgt) as (d & Hd & Hp & H3). pose proof (pow3_lin d ltac:(lia)). lia.
Qed.

Lemma mul_same_peak_bnd : forall fuel n, 0 <= n < Z.of_nat fuel ->
  exists p, mul_same_peak fuel n = Ok p /\ 0 <= p /\ bnd n p.
Proof.
  pose proof params_ok as (HTS & HTSK & HTK & _).
  induction fuel as [|f IH]; intros n Hn; [lia|].
  assert (IHok : forall x, 0 <= x < n -> exists p, mul_same_peak f x = Ok p).
  { intros x Hx. destruct (IH x ltac:(lia)) as (p & E & _). eauto. }
  cbn [mul_same_peak]. unfold g_mul_same_len_kernel.
  destruct (Z.leb_spec n TS) as [Hs|Hs].
  { exists 0. cbn [kernel_same_peak]. split; [reflexivity|]. split; [lia|]. split; [|lia].
    intros _. unfold RK. destruct (Z.leb_spec n TS); lia. }
  destruct (Z.leb_spec n TK) as [Hk|Hk]; cbn [kernel_same_peak].
  - (* Karatsuba *)
    unfold g_karatsuba_events. cbv zeta.
    set (mid := (n + 1) / 2).
    assert (Hm : n <= 2 * mid <= n + 1) by (unfold mid; Z.div_mod_to_equations; lia).
    rewrite trace_peak_eval by (cbn [ev_calls]; repeat (constructor; [apply IHok; lia|]); constructor).
    eexists; split; [reflexivity|]. split; [apply trace_peakZ_ge|]. cbn [trace_peakZ].
    destruct (IH mid ltac:(lia)) as (pm & Em & Hpm & [Bm _]).
    destruct (IH (n - mid) ltac:(lia)) as (ph & Eh & Hph & [Bh _]).
    rewrite Em, Eh. cbn [unwrap].
    specialize (Bm ltac:(lia)). specialize (Bh ltac:(lia)).
    pose proof (clog_half n ltac:(lia)) as Hc. fold mid in Hc.
    pose proof (clog_mono (n - mid) mid ltac:(lia)) as Hc2.
    pose proof (clog_nonneg mid). pose proof (clog_nonneg (n - mid)).
    unfold RK in *.
    split; [|lia]. intros _. unfold RK.
    destruct (Z.leb_spec n TS); [lia|].
    destruct (Z.leb_spec mid TS), (Z.leb_spec (n - mid) TS); max_lub.
  - (* Toom-3 *)
    unfold g_toom3_events. cbv zeta.
    set (n3 := (n + 2) / 3).
    assert (H3 : n <= 3 * n3 <= n + 2) by (unfold n3; Z.div_mod_to_equations; lia).
    rewrite trace_peak_eval by (cbn [ev_calls]; repeat (constructor; [apply IHok; lia|]); constructor).
    eexists; split; [reflexivity|]. split; [apply trace_peakZ_ge|]. cbn [trace_peakZ].
    destruct (IH n3 ltac:(lia)) as (p0 & E0 & Hp0 & B0).
    destruct (IH (n3 + 1) ltac:(lia)) as (pk & Ek & Hpk & Bk).
    destruct (IH (n - n3 - n3) ltac:(lia)) as (ps & Es & Hps & Bs).
    rewrite E0, Ek, Es. cbn [unwrap].
    pose proof (bnd_weak n3 p0 ltac:(lia) B0) as W0.
    pose proof (bnd_weak (n - n3 - n3) ps ltac:(lia) Bs) as Ws.
    split; [lia|]. intros _.
    destruct Bk as [BkA BkB].
    destruct (Z.le_gt_cases (n3 + 1) TK) as [Hle|Hgt].
    + specialize (BkA Hle). unfold RK in BkA.
      pose proof (clog_le_self (n3 + 1) ltac:(lia)).
      exists 1. split; [lia|]. split; [|change (3 ^ 1) with 3; lia].
      destruct (n3 + 1 <=? TS); max_lub.
    + destruct (BkB Hgt) as (d & Hd & Hpd & Hd3).
      exists (d + 1). split; [lia|].
      replace (d + 1) with (Z.succ d) by lia. rewrite Z.pow_succ_r by lia.
      split; [max_lub|lia].
Qed.

(** the reservation of mul::memory_requirement_up_to as a function of the smaller length *)
Definition R (s : Z) : Z := g_mul_mem_up_to 0 s.
Lemma R_total : forall t s, g_mul_mem_up_to t s = R s.
Proof. reflexivity. Qed.

Lemma R_nonneg : forall s, 0 <= s -> 0 <= R s.
Proof.
  intros s Hs. unfold R, g_mul_mem_up_to, g_karatsuba_mem, g_toom3_mem. cbv zeta.
  pose proof (clog_nonneg s). destruct (s <=? TS); [lia|]. destruct (s <=? TK); lia.
Qed.

Lemma R_mono : forall a b, 0 <= a <= b -> R a <= R b.
Proof.
  pose proof params_ok as (HTS & HTSK & HTK & _).
  intros a b H. unfold R, g_mul_mem_up_to, g_karatsuba_mem, g_toom3_mem. cbv zeta.
  pose proof (clog_nonneg a). pose proof (clog_nonneg b). pose proof (clog_mono a b ltac:(lia)).
  destruct (Z.leb_spec a TS), (Z.leb_spec b TS), (Z.leb_spec a TK), (Z.leb_spec b TK); lia.
Qed.

Theorem mul_same_sufficient : forall n, 0 <= n ->
  exists p, mul_same_peak_auto n = Ok p /\ 0 <= p <= R n.
Proof.
  intros n Hn. unfold mul_same_peak_auto.
  destruct (mul_same_peak_bnd (S (Z.to_nat n)) n ltac:(lia)) as (p & E & Hp & BA & BB).
  exists p. split; [exact E|]. split; [exact Hp|].
  unfold R, g_mul_mem_up_to, g_karatsuba_mem, g_toom3_mem. cbv zeta.
  destruct (Z.leb_spec n TS) as [Hs|Hs].
  - pose proof params_ok. specialize (BA ltac:(lia)). unfold RK in BA. destruct (Z.leb_spec n TS); lia.
  - destruct (Z.leb_spec n TK) as [Hk|Hk].
    + specialize (BA Hk). unfold RK in BA. destruct (Z.leb_spec n TS); lia.
    + destruct (BB Hk) as (d & Hd & Hpd & H3). pose proof (toom_depth n d Hd H3). lia.
Qed.

(** *** mul::add_signed_mul on any two lengths *)
Theorem mul_peak_sufficient : forall fuel la lb, 0 <= la -> 0 <= lb -> Z.min la lb < Z.of_nat fuel ->
  exists p, mul_peak fuel la lb = Ok p /\ 0 <= p <= R (Z.min la lb).
Proof.
  pose proof params_ok as (HTS & HTSK & HTK & _).
  induction fuel as [|f IH]; intros la lb Ha Hb Hf; [lia|].
  cbn [mul_peak]. set (a := Z.max la lb). set (b := Z.min la lb) in *.
  assert (Hab : 0 <= b <= a) by (unfold a, b; lia).
  assert (Hcommon : g_mul_kernel b <> KSimple ->
    exists p, rbind (kernel_same_peak (mul_same_peak (Z.to_nat b)) (g_mul_kernel b) b)
                (fun p1 => if a mod b =? 0 then Ok p1 else rbind (mul_peak f b (a mod b)) (fun p2 => Ok (Z.max p1 p2))) = Ok p /\
              0 <= p <= R b).
  { intros Hk.
    assert (Hb2 : TS < b).
    { unfold g_mul_kernel in Hk. destruct (Z.leb_spec b TS); [congruence|lia]. }
    destruct (mul_same_sufficient b ltac:(lia)) as (p1 & E1 & Hp1).
    unfold mul_same_peak_auto in E1. cbn [mul_same_peak] in E1. rewrite <- kernel_sel_agree in E1.
    rewrite E1. cbn [rbind].
    pose proof (Z.mod_pos_bound a b ltac:(lia)) as Hr.
    destruct (Z.eqb_spec (a mod b) 0) as [|Hne]; [eauto|].
    destruct (IH b (a mod b) ltac:(lia) ltac:(lia) ltac:(lia)) as (p2 & E2 & Hp2).
    rewrite E2. cbn [rbind]. eexists; split; [reflexivity|].
    replace (Z.min b (a mod b)) with (a mod b) in Hp2 by lia.
    pose proof (R_mono (a mod b) b ltac:(lia)). lia. }
  destruct (g_mul_kernel b) eqn:K.
  - exists 0. split; [reflexivity|]. pose proof (R_nonneg b ltac:(lia)). lia.
  - apply Hcommon. discriminate.
  - apply Hcommon. discriminate.
Qed.

Corollary mul_peak_auto_sufficient : forall la lb, 0 <= la -> 0 <= lb ->
  exists p, mul_peak_auto la lb = Ok p /\ 0 <= p <= R (Z.min la lb).
Proof. intros la lb Ha Hb. apply mul_peak_sufficient; lia. Qed.

(** *** Burnikel-Ziegler *)
Lemma dc_small_peak_sufficient : forall fuel l n, 0 <= l - n < n -> n < Z.of_nat fuel ->
  exists p, dc_small_peak fuel l n = Ok p /\ 0 <= p <= R (Z.min (n / 2) (l - n)).
Proof.
  pose proof params_ok as (_ & _ & _ & HTD).
  induction fuel as [|f IH]; intros l n Hm Hf; [lia|].
  cbn [dc_small_peak]. set (m := l - n) in *.
  assert (Hn2 : 0 <= n / 2) by (Z.div_mod_to_equations; lia).
  destruct (Z.leb_spec m TD) as [Hs|Hs].
  { exists 0. split; [reflexivity|]. pose proof (R_nonneg (Z.min (n / 2) m) ltac:(lia)). lia. }
  set (nlo := m / 2).
  assert (Hlo : m - 1 <= 2 * nlo <= m) by (unfold nlo; Z.div_mod_to_equations; lia).
  destruct (IH (2 * m - nlo) m ltac:(lia) ltac:(lia)) as (p1 & E1 & Hp1).
  destruct (IH (m + nlo) m ltac:(lia) ltac:(lia)) as (p2 & E2 & Hp2).
  destruct (mul_peak_auto_sufficient m (n - m) ltac:(lia) ltac:(lia)) as (p3 & E3 & Hp3).
  rewrite E1. cbn [rbind]. rewrite E2. cbn [rbind]. rewrite E3. cbn [rbind].
  eexists; split; [reflexivity|].
  assert (Hh : 2 * (n / 2) <= n <= 2 * (n / 2) + 1) by (Z.div_mod_to_equations; lia).
  fold nlo in Hp1, Hp2.
  pose proof (R_mono (Z.min nlo (2 * m - nlo - m)) (Z.min (n / 2) m) ltac:(lia)).
  pose proof (R_mono (Z.min nlo (m + nlo - m)) (Z.min (n / 2) m) ltac:(lia)).
  pose proof (R_mono (Z.min m (n - m)) (Z.min (n / 2) m) ltac:(lia)).
  lia.
Qed.

Lemma dc_same_peak_sufficient : forall fuel n, 2 <= n -> n < Z.of_nat fuel ->
  exists p, dc_same_peak fuel n = Ok p /\ 0 <= p <= R (n / 2).
Proof.
  intros fuel n Hn Hf. unfold dc_same_peak. set (nlo := n / 2).
  assert (Hlo : n - 1 <= 2 * nlo <= n) by (unfold nlo; Z.div_mod_to_equations; lia).
  destruct (dc_small_peak_sufficient fuel (2 * n - nlo) n ltac:(lia) Hf) as (p1 & E1 & Hp1).
  destruct (dc_small_peak_sufficient fuel (n + nlo) n ltac:(lia) Hf) as (p2 & E2 & Hp2).
  rewrite E1. cbn [rbind]. rewrite E2. cbn [rbind]. eexists; split; [reflexivity|].
  fold nlo in Hp1, Hp2.
  replace (Z.min nlo (2 * n - nlo - n)) with nlo in Hp1 by lia.
  replace (Z.min nlo (n + nlo - n)) with nlo in Hp2 by lia. lia.
Qed.

Theorem dc_peak_sufficient : forall fuel l n, 2 <= n <= l -> n < Z.of_nat fuel ->
  exists p, dc_peak fuel l n = Ok p /\ 0 <= p <= g_dc_mem_req l n.
Proof.
  intros fuel l n Hn Hf. unfold dc_peak, g_dc_mem_req. cbv zeta. rewrite R_total.
  set (q := l / n). set (r := l mod n).
  assert (Hdm : l = n * q + r /\ 0 <= r < n) by (unfold q, r; split; [apply Z.div_mod|apply Z.mod_pos_bound]; lia).
  assert (Hq : 1 <= q) by (unfold q; apply Z.div_le_lower_bound; lia).
  clearbody q r.
  assert (Hm : l - (q - 1) * n = r + n) by (destruct Hdm as [Hl _]; rewrite Hl; ring).
  rewrite Hm.
  assert (Hh : 2 * (n / 2) <= n <= 2 * (n / 2) + 1) by (Z.div_mod_to_equations; lia).
  assert (Hln : 1 <= q - 1 -> 2 * n <= l).
  { intros Hq2. destruct Hdm as [Hl Hr]. assert (2 * n <= n * q) by nia. lia. }
  assert (Hl1 : q - 1 < 1 -> l - n = r).
  { intros Hq1. assert (Hq1' : q = 1) by lia. destruct Hdm as [Hl Hr]. rewrite Hq1' in Hl. lia. }
  destruct (Z.leb_spec 1 (q - 1)) as [Hj|Hj].
  - destruct (dc_same_peak_sufficient fuel n ltac:(lia) Hf) as (p1 & E1 & Hp1).
    rewrite E1. cbn [rbind]. specialize (Hln Hj).
    pose proof (R_mono (n / 2) (Z.min (n / 2) (l - n)) ltac:(lia)).
    destruct (Z.ltb_spec n (r + n)) as [Hr|Hr].
    + destruct (dc_small_peak_sufficient fuel (r + n) n ltac:(lia) Hf) as (p2 & E2 & Hp2).
      rewrite E2. cbn [rbind]. eexists; split; [reflexivity|].
      pose proof (R_mono (Z.min (n / 2) (r + n - n)) (Z.min (n / 2) (l - n)) ltac:(lia)). lia.
    + cbn [rbind]. eexists; split; [reflexivity|]. lia.
  - cbn [rbind]. specialize (Hl1 ltac:(lia)).
    destruct (Z.ltb_spec n (r + n)) as [Hr|Hr].
    + destruct (dc_small_peak_sufficient fuel (r + n) n ltac:(lia) Hf) as (p2 & E2 & Hp2).
      rewrite E2. cbn [rbind]. eexists; split; [reflexivity|].
      replace (r + n - n) with (l - n) in Hp2 by lia. lia.
    + cbn [rbind]. eexists; split; [reflexivity|].
      pose proof (R_nonneg (Z.min (n / 2) (l - n)) ltac:(lia)). lia.
Qed.

(** div::memory_requirement_exact(lhs_len, rhs_len) words are enough for div::div_rem_in_place on those
    lengths - under exactly the assertion the function itself makes *)
Theorem div_peak_sufficient : forall l n, g_div_mem_req_pre l n = true ->
  exists p, div_peak l n = Ok p /\ 0 <= p <= g_div_mem_req l n.
Proof.
  intros l n Hpre. unfold g_div_mem_req_pre in Hpre. apply andb_true_iff in Hpre as [H1 H2].
  apply Z.geb_le in H1. apply Z.geb_le in H2.
  unfold div_peak, g_div_mem_req.
  destruct ((n <=? TD) || (l - n <=? TD)).
  - exists 0. split; [reflexivity|lia].
  - apply dc_peak_sufficient; lia.
Qed.

(** hook level: every kernel selection of verif_hooks::div_kernel_scratch *)
Theorem hook_peak_sufficient : forall which l n, 2 <= n <= l ->
  exists p, hook_peak which l n = Ok p /\ 0 <= p <= hook_reserved which l n.
Proof.
  intros which l n H. unfold hook_peak, hook_reserved.
  destruct (which =? 1); [exists 0; split; [reflexivity|lia]|].
  destruct (which =? 2).
  - apply dc_peak_sufficient; lia.
  - apply div_peak_sufficient. unfold g_div_mem_req_pre. apply andb_true_iff. split; apply Z.geb_le; lia.
Qed.

(** non-vacuity: lengths on both sides of every threshold *)
Example div_peak_example :
  div_peak 99 66 = Ok 34 /\ g_div_mem_req 99 66 = 78 /\ div_peak 40 33 = Ok 0 /\
  div_peak 3000 1000 = Ok 1638 /\ g_div_mem_req 3000 1000 = 2117 /\ mul_same_peak_auto 1000 = Ok 3786.
Proof. vm_compute. repeat split. Qed.
