(** C02 round 4 - construction of a ConstDivisor (integer/src/div_const.rs: ConstDivisor::{new, from_word, from_dword, value},
    ConstSingleDivisor::new / divisor, ConstDoubleDivisor::new / divisor, ConstLargeDivisor::new / divisor) with the STORED fields:
    the normalised divisor, the normalisation shift and the reciprocal.  num-modular's PreMulInv2by1::new / PreMulInv3by2::new
    (barrett.rs: shift = divisor.leading_zeros(); Normalized..Divisor::new(divisor << shift)) on top of the transcribed
    invert_word / invert_double_word of Int/DivNumModular.v; the multi-word constructor uses the GENERATED div::normalize
    (coq/gen/DivKernelsGen.v).  Definitions only. *)
From Dashu Require Import Base.Prelude Base.Words Int.DivWordModel Int.DivNumModular Int.DivKernelsBase.
From DashuGen Require Import DivKernelsGen.
Open Scope Z_scope.

Section ConstNew.
Variable w : Z.
Notation B := (Words.B w).
Variable P : div_prims.      (* normalize_gen does not use it: no division happens at construction time *)

Inductive cdiv :=
| CSingle (dv : nm_div1) (shift : Z)
| CDouble (dv : nm_div2) (shift : Z)
| CLarge (normalized : list Z) (shift : Z) (top : nm_div2).

Definition premul1_new (n : Z) : cdiv := let s := lzw w 1 n in CSingle (nm_2by1_new w (Z.shiftl n s)) s.
Definition premul2_new (n : Z) : cdiv := let s := lzw w 2 n in CDouble (nm_3by2_new w (Z.shiftl n s)) s.
Definition const_large_new (ws : list Z) : cdiv :=
  let '(ws1, (s, top)) := normalize_gen P w ws in CLarge ws1 s (nm_3by2_new w top).

(** ConstDivisor::new(n: UBig): Small(0) panics, shrink_dword decides Single / Double, Large = more than two words *)
Definition const_new (n : Z) : result cdiv :=
  if n =? 0 then Panic DivideBy0
  else if n <? B * B then Ok (if n <? B then premul1_new n else premul2_new n)
  else Ok (const_large_new (words_of w n)).
Definition const_from_word (x : Z) : result cdiv := if x =? 0 then Panic DivideBy0 else Ok (premul1_new x).
Definition const_from_dword (x : Z) : result cdiv :=
  if x =? 0 then Panic DivideBy0 else Ok (if x <? B then premul1_new x else premul2_new x).

(** ConstDivisor::value: divisor() = normalised divisor >> shift (Large: shr_in_place of a copy), as a number *)
Definition const_value (c : cdiv) : Z :=
  match c with
  | CSingle dv s => Z.shiftr (n1_divisor dv) s
  | CDouble dv s => Z.shiftr (n2_divisor dv) s
  | CLarge ws s _ => Words.value w (fst (shr_in_place w ws s))
  end.

(** what `{:?}` of a ConstDivisor shows: (kind 1/2/3, shift, normalised divisor, reciprocal m; Large: + top divisor) *)
Definition const_fields (c : cdiv) : list Z :=
  match c with
  | CSingle dv s => [1; s; n1_divisor dv; n1_m dv]
  | CDouble dv s => [2; s; n2_divisor dv; n2_m dv]
  | CLarge ws s top => [3; s; Words.value w ws; n2_m top; n2_divisor top; Z.of_nat (length ws)]
  end.

End ConstNew.
