(** C05: C01's as-is models of the signed operators (Int/RingOps.v) never return a negative zero. *)
From Dashu Require Import Base.Prelude Base.Words.
From Dashu Require Import Int.RingAdd Int.RingMul Int.RingOps.
Open Scope Z_scope.

Section NoNegZero.
Variable w : Z.

(** a signed magnitude as C01's models return it never is a negative zero: every Negative sign is set by
    Repr::with_sign / Repr::neg, which keep zero positive *)
Definition snz (x : sign * trepr) : Prop := fst x = Negative -> is_zero (snd x) = false.
Definition rsnz (x : result (sign * trepr)) : Prop := forall r, x = Ok r -> snz r.

Lemma snz_with_sign s r : snz (with_sign s r).
Proof. unfold snz, with_sign. destruct (is_zero r) eqn:E; cbn [fst snd]; [discriminate | intros _; exact E]. Qed.
Lemma snz_neg x : snz (neg x).
Proof. destruct x as [s r]. apply snz_with_sign. Qed.
Lemma snz_pos r : snz (Positive, r).
Proof. unfold snz. cbn [fst]. discriminate. Qed.
Lemma rsnz_lift x : rsnz (lift x).
Proof. intros r E. destruct x; cbn [lift] in E; try discriminate. inversion E. apply snz_pos. Qed.
Lemma rsnz_rneg x : rsnz (rneg x).
Proof. intros r E. destruct x; cbn [rneg] in E; try discriminate. inversion E. apply snz_neg. Qed.
Lemma rsnz_ok x : snz x -> rsnz (Ok x).
Proof. intros H r E. inversion E. subst. exact H. Qed.

Lemma rsnz_sub_large_signed lhs rhs : rsnz (sub_large_signed w lhs rhs).
Proof.
  unfold sub_large_signed. destruct (length rhs <=? length lhs)%nat.
  - destruct (sub_in_place_with_sign w lhs rhs) as [r s]. apply rsnz_ok, snz_with_sign.
  - destruct (sub_large_ref_val w rhs lhs) as [t|p|e|]; [apply rsnz_ok, snz_with_sign | | |]; intros r E; discriminate.
Qed.

Lemma rsnz_repr_sub_signed o x y : rsnz (repr_sub_signed w o x y).
Proof.
  destruct x as [d0|b0], y as [d1|b1]; cbn [repr_sub_signed].
  - apply rsnz_ok. unfold sub_dword_signed. destruct (d0 <? d1); [apply snz_neg | apply snz_pos].
  - apply rsnz_rneg.
  - apply rsnz_lift.
  - destruct o; try destruct (length b1 <=? length b0)%nat; try apply rsnz_rneg; apply rsnz_sub_large_signed.
Qed.

Theorem ibig_add_no_negative_zero o s0 x s1 y : rsnz (ibig_add_asis w o s0 x s1 y).
Proof.
  destruct s0, s1; cbn [ibig_add_asis]; try apply rsnz_repr_sub_signed; apply rsnz_ok; [apply snz_pos | apply snz_with_sign].
Qed.

Theorem ibig_sub_no_negative_zero o s0 x s1 y : rsnz (ibig_sub_asis w o s0 x s1 y).
Proof.
  destruct s0, s1; cbn [ibig_sub_asis]; try apply rsnz_repr_sub_signed; apply rsnz_ok; [apply snz_pos | apply snz_with_sign].
Qed.

Theorem ibig_mul_no_negative_zero TS TK CH SQ s0 x s1 y : rsnz (ibig_mul_asis w TS TK CH SQ s0 x s1 y).
Proof.
  unfold ibig_mul_asis. destruct (repr_mul w TS TK CH SQ x y) as [t|p|e|]; [apply rsnz_ok, snz_with_sign | | |]; intros r E; discriminate.
Qed.

Theorem ibig_cubic_no_negative_zero TS TK CH SQ s x : rsnz (ibig_cubic_asis w TS TK CH SQ s x).
Proof.
  unfold ibig_cubic_asis. destruct (repr_sqr w TS TK SQ x) as [t|p|e|]; [apply ibig_mul_no_negative_zero | | |]; intros r E; discriminate.
Qed.

End NoNegZero.
