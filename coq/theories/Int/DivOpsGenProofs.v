(** C02 round 5 - the operator layer of div_ops.rs regenerated (coq/gen/DivOpsGen.v, from the `forward_*_binop_to_repr!` and
    `impl_binop_assign_by_taking!` invocations): the hand-written dispatch of Int/DivSpec.v - which macro body each public operator
    of UBig / IBig / mixed operands runs, with which signs - IS the regenerated table, for every form, every operand.  Together with
    C02_ibig_forms / C02_ubig_forms / C02_ubig_ibig_forms / C02_ibig_ubig_forms (table = specification) and the kernels below the
    TypedRepr operations, every level from the public operator down to the word loops is generated. *)
From Coq Require Import String.
From Dashu Require Import Base.Prelude Int.DivSpec.
From DashuGen Require Import SignTables DivOpsGen.
Open Scope Z_scope.

Definition plain (f : form) : bool := match f with FDiv | FRem | FDivRem => true | _ => false end.
Definition is_op (f : form) : bool := match f with FIsMultipleOf => false | _ => true end.

Theorem ops_ibig f a b : is_op f = true ->
  exists l, ops_form_gen KII f (sign_of a) (Z.abs a) (sign_of b) (Z.abs b) = Some l /\ ibig_form_asis f a b = mag_guard (Z.abs b) l.
Proof. destruct f; intros H; try discriminate; eexists; split; reflexivity. Qed.

Theorem ops_ubig f m0 m1 : is_op f = true ->
  exists l, ops_form_gen KUU f Positive m0 Positive m1 = Some l /\ ubig_form_asis f m0 m1 = mag_guard m1 l.
Proof. destruct f; intros H; try discriminate; eexists; split; reflexivity. Qed.

Theorem ops_ubig_ibig f m0 b : plain f = true ->
  exists l, ops_form_gen KUI f Positive m0 (sign_of b) (Z.abs b) = Some l /\ ubig_ibig_form_asis f m0 b = mag_guard (Z.abs b) l.
Proof. destruct f; intros H; try discriminate; eexists; split; reflexivity. Qed.

Theorem ops_ibig_ubig f a m1 : plain f = true ->
  exists l, ops_form_gen KIU f (sign_of a) (Z.abs a) Positive m1 = Some l /\ ibig_ubig_form_asis f a m1 = mag_guard m1 l.
Proof. destruct f; intros H; try discriminate; eexists; split; reflexivity. Qed.

(** the mixed kinds have exactly the plain operators (no Euclidean forms between UBig and IBig) *)
Theorem ops_mixed_only_plain f s0 m0 s1 m1 : plain f = false ->
  ops_form_gen KUI f s0 m0 s1 m1 = None /\ ops_form_gen KIU f s0 m0 s1 m1 = None.
Proof. destruct f; intros H; try discriminate; split; reflexivity. Qed.

(** every `op=` form takes the left operand and calls the operator of its own name *)
Definition assign_target (t : string) : string :=
  if String.eqb t "DivAssign" then "div" else if String.eqb t "RemAssign" then "rem" else if String.eqb t "DivRemAssign" then "div_rem" else "".
Theorem ops_assign_forward :
  forallb (fun '(t, _, _, m) => String.eqb (assign_target t) m) ops_assign_gen = true /\ (6 <= length ops_assign_gen)%nat.
Proof. vm_compute. split; [reflexivity | lia]. Qed.

Example ops_examples :
  ops_form_gen KII FDivRemEuclid Negative 7 Negative 2 = Some [4; 1] /\ ops_form_gen KUI FRem Positive 7 Negative 2 = Some [1] /\
  ops_form_gen KUU FDivEuclid Positive 7 Positive 2 = Some [3] /\ ops_form_gen KIU FDivEuclid Negative 7 Positive 2 = None.
Proof. repeat split. Qed.
