(** C13 (round 3) - two of the three extended-gcd branches of inv_large without a contract:
      gcd::gcd_ext_word(lhs, rhs: Word) and gcd::gcd_ext_dword(lhs, rhs: DoubleWord)   (integer/src/gcd/mod.rs)
    divide the multi-word modulus by the one- or two-word value (div_by_word_in_place / div_by_dword_in_place: C02),
    run the PRIMITIVE extended Euclid on (rhs, remainder) (C12's as-is model prim_gcd_ext_asis of
    dashu_base ExtendedGcd for Word / DoubleWord) and rebuild the cofactor of rhs as  |b| = q * |t| + |s|  with the sign
    `if s_mag == 0 { -t_sign } else { s_sign }`, asserting that no carry leaves the buffer.
    Proved here: C12's primitive algorithm returns cofactors of OPPOSITE signs bounded by the other operand over the gcd
    (a fact C12's certificate does not state), hence the rebuilt cofactor is the Bezout coefficient of rhs, it is below
    lhs (the debug assertion cannot fire) and the functions meet the contract the modular inverse needs.
    What remains by contract is gcd_ext_in_place (Lehmer) for values of three and more words. *)
From Dashu Require Import Base.Prelude Base.Words Int.GrlSpec Int.GrlModel Int.GrlGcdProof Int.ModRingSpec Int.ModRingPowModel Int.ModRingModel Int.ModRingProofs.
Open Scope Z_scope.

(** ---------------- the cofactors of C12's euclid_ext: alternating signs, bounded ---------------- *)
Definition cof_inv (a b last_r r last_s s last_t t : Z) : Prop :=
  exists sg ls' s' lt' t', (sg = 1 \/ sg = -1) /\ 0 <= ls' /\ 0 <= s' /\ 0 <= lt' /\ 0 <= t' /\
    last_s = sg * ls' /\ s = - sg * s' /\ last_t = - sg * lt' /\ t = sg * t' /\
    ls' * r + s' * last_r = b /\ lt' * r + t' * last_r = a.

Lemma euclid_ext_bounds : forall fuel a b last_r r last_s s last_t t g cs ct,
  0 < r -> 0 < last_r -> cof_inv a b last_r r last_s s last_t t ->
  euclid_ext fuel last_r r last_s s last_t t = Ok (g, cs, ct) ->
  0 < g /\ cs * ct <= 0 /\ Z.abs cs * g <= b /\ Z.abs ct * g <= a.
Proof.
  induction fuel as [|k IH]; intros a b last_r r last_s s last_t t g cs ct Hr Hl Inv H; cbn [euclid_ext] in H; [discriminate|].
  pose proof (Z.div_mod last_r r ltac:(lia)) as DM. pose proof (Z.mod_pos_bound last_r r Hr) as MB.
  assert (last_r - last_r / r * r = last_r mod r) as EM by lia. rewrite EM in H.
  assert (0 <= last_r / r) as Hq by (apply Z.div_pos; lia).
  destruct Inv as (sg & ls' & s' & lt' & t' & Hsg & H1 & H2 & H3 & H4 & E1 & E2 & E3 & E4 & Eb & Ea).
  destruct (Z.eqb_spec (last_r mod r) 0) as [R0|R0].
  - injection H as <- <- <-.
    assert (r <= last_r) as Hle by (assert (1 <= last_r / r) by nia; nia).
    assert (s' * r <= s' * last_r) as M1 by (apply Z.mul_le_mono_nonneg_l; lia).
    assert (t' * r <= t' * last_r) as M2 by (apply Z.mul_le_mono_nonneg_l; lia).
    assert (0 <= ls' * r) by (apply Z.mul_nonneg_nonneg; lia). assert (0 <= lt' * r) by (apply Z.mul_nonneg_nonneg; lia).
    assert (0 <= s' * t') by (apply Z.mul_nonneg_nonneg; lia).
    split; [exact Hr|]. destruct Hsg as [-> | ->]; subst s t.
    + replace (- 1 * s') with (- s') by lia. replace (1 * t') with t' by lia.
      rewrite Z.abs_opp, (Z.abs_eq s'), (Z.abs_eq t') by lia. split; [nia|]. split; lia.
    + replace (- -1 * s') with s' by lia. replace (-1 * t') with (- t') by lia.
      rewrite Z.abs_opp, (Z.abs_eq s'), (Z.abs_eq t') by lia. split; [nia|]. split; lia.
  - apply (IH a b) in H; [exact H | lia | exact Hr |].
    set (q := last_r / r) in *.
    exists (- sg), s', (ls' + q * s'), t', (lt' + q * t').
    split; [lia|]. split; [exact H2|]. split; [nia|]. split; [exact H4|]. split; [nia|].
    split; [subst s; ring|]. split; [subst last_s s; ring|]. split; [subst t; ring|]. split; [subst last_t t; ring|].
    rewrite <- EM. fold q. split.
    + rewrite <- Eb. ring.
    + rewrite <- Ea. ring.
Qed.

(** ExtendedGcd::gcd_ext for primitives (C12's model): gcd, Bezout identity, opposite signs, bounds *)
Theorem prim_gcd_ext_full : forall fuel a b g s t, 0 < a -> 0 < b ->
  prim_gcd_ext_asis fuel a b = Ok (g, s, t) ->
  g = Z.gcd a b /\ s * a + t * b = g /\ s * t <= 0 /\ Z.abs s * g <= b /\ Z.abs t * g <= a.
Proof.
  intros fuel a b g s t Pa Pb H. unfold prim_gcd_ext_asis in H.
  destruct (Z.eqb_spec a 0) as [A0|A0]; [lia|]. destruct (Z.eqb_spec b 0) as [B0|B0]; [lia|]. cbn [andb] in H.
  pose proof (tz_lor a b Pa Pb) as TL. destruct (strip2_spec a Pa) as [_ [_ [_ Ta]]]. destruct (strip2_spec b Pb) as [_ [_ [_ Tb]]].
  set (sh := tz (Z.lor a b)) in *.
  destruct (pow2_tz_divides a sh Pa ltac:(lia)) as [Ea Pa1]. destruct (pow2_tz_divides b sh Pb ltac:(lia)) as [Eb Pb1].
  set (a1 := a / 2 ^ sh) in *. set (b1 := b / 2 ^ sh) in *.
  assert (0 < 2 ^ sh) as P2 by (apply Z.pow_pos_nonneg; lia).
  assert (Z.gcd a b = Z.gcd a1 b1 * 2 ^ sh) as EG.
  { rewrite Ea at 1. rewrite Eb at 1. apply Z.gcd_mul_mono_r_nonneg. lia. }
  destruct (Z.leb_spec b1 a1) as [L|L].
  - destruct (Z.eqb_spec b1 1) as [B1|B1].
    + injection H as <- <- <-. rewrite EG, B1, Z.gcd_1_r. cbn [Z.abs]. repeat split; nia.
    + destruct (euclid_ext fuel a1 b1 1 0 0 1) as [[[g1 ca] cb]| | |] eqn:E; cbn [rbind] in H; try discriminate.
      injection H as <- <- <-.
      pose proof (euclid_ext_correct fuel a1 b1 a1 b1 1 0 0 1 g1 ca cb ltac:(lia) ltac:(lia) ltac:(lia) ltac:(lia) eq_refl E) as [G1 G2].
      assert (cof_inv a1 b1 a1 b1 1 0 0 1) as Inv by (exists 1, 1, 0, 0, 1; repeat split; lia).
      destruct (euclid_ext_bounds fuel a1 b1 a1 b1 1 0 0 1 g1 ca cb ltac:(lia) ltac:(lia) Inv E) as (Pg & S1 & S2 & S3).
      split; [rewrite EG, G1; reflexivity|]. split; [rewrite Ea at 1; rewrite Eb at 1; nia|]. split; [exact S1|].
      pose proof (Z.abs_nonneg ca). pose proof (Z.abs_nonneg cb). split.
      * rewrite Eb at 1. rewrite Z.mul_assoc. apply Z.mul_le_mono_nonneg_r; lia.
      * rewrite Ea at 1. rewrite Z.mul_assoc. apply Z.mul_le_mono_nonneg_r; lia.
  - destruct (Z.eqb_spec a1 1) as [A1|A1].
    + injection H as <- <- <-. rewrite EG, A1, Z.gcd_1_l. cbn [Z.abs]. repeat split; nia.
    + destruct (euclid_ext fuel b1 a1 1 0 0 1) as [[[g1 cb] ca]| | |] eqn:E; cbn [rbind] in H; try discriminate.
      injection H as <- <- <-.
      pose proof (euclid_ext_correct fuel b1 a1 b1 a1 1 0 0 1 g1 cb ca ltac:(lia) ltac:(lia) ltac:(lia) ltac:(lia) eq_refl E) as [G1 G2].
      assert (cof_inv b1 a1 b1 a1 1 0 0 1) as Inv by (exists 1, 1, 0, 0, 1; repeat split; lia).
      destruct (euclid_ext_bounds fuel b1 a1 b1 a1 1 0 0 1 g1 cb ca ltac:(lia) ltac:(lia) Inv E) as (Pg & S1 & S2 & S3).
      split; [rewrite EG, G1; apply f_equal2; [apply Z.gcd_comm | reflexivity]|].
      split; [rewrite Ea at 1; rewrite Eb at 1; nia|]. split; [lia|].
      pose proof (Z.abs_nonneg ca). pose proof (Z.abs_nonneg cb). split.
      * rewrite Eb at 1. rewrite Z.mul_assoc. apply Z.mul_le_mono_nonneg_r; lia.
      * rewrite Ea at 1. rewrite Z.mul_assoc. apply Z.mul_le_mono_nonneg_r; lia.
Qed.

(** the primitive algorithm returns with fuel above the smaller operand *)
Lemma prim_gcd_ext_total : forall fuel a b, 0 < a -> 0 < b -> a < Z.of_nat fuel -> b < Z.of_nat fuel ->
  exists res, prim_gcd_ext_asis fuel a b = Ok res.
Proof.
  intros fuel a b Pa Pb Fa Fb. unfold prim_gcd_ext_asis.
  destruct (Z.eqb_spec a 0) as [A0|A0]; [lia|]. destruct (Z.eqb_spec b 0) as [B0|B0]; [lia|]. cbn [andb].
  pose proof (tz_lor a b Pa Pb) as TL. destruct (strip2_spec a Pa) as [_ [_ [_ Ta]]]. destruct (strip2_spec b Pb) as [_ [_ [_ Tb]]].
  set (sh := tz (Z.lor a b)) in *.
  destruct (pow2_tz_divides a sh Pa ltac:(lia)) as [Ea Pa1]. destruct (pow2_tz_divides b sh Pb ltac:(lia)) as [Eb Pb1].
  set (a1 := a / 2 ^ sh) in *. set (b1 := b / 2 ^ sh) in *.
  assert (0 < 2 ^ sh) as P2 by (apply Z.pow_pos_nonneg; lia).
  assert (a1 <= a) by nia. assert (b1 <= b) by nia.
  destruct (b1 <=? a1).
  - destruct (b1 =? 1); [eauto|].
    destruct (euclid_ext_terminates fuel a1 b1 1 0 0 1 ltac:(lia) ltac:(lia)) as ([[g1 ca] cb] & ->). cbn [rbind]. eauto.
  - destruct (a1 =? 1); [eauto|].
    destruct (euclid_ext_terminates fuel b1 a1 1 0 0 1 ltac:(lia) ltac:(lia)) as ([[g1 cb] ca] & ->). cbn [rbind]. eauto.
Qed.

(** ---------------- gcd_ext_word / gcd_ext_dword ---------------- *)
(** `to_sign_magnitude` of a signed primitive: zero is Positive *)
Definition sign_mag (x : Z) : sign * Z := (sign_of x, Z.abs x).

(** value-level transcription shared by the two functions ([cap] = B^len(lhs), the size of the buffer that receives b):
      let rem = div_by_(d)word_in_place(lhs, rhs);                       lhs := quotient
      if rem == 0 { lhs = 1; (rhs, 0, Positive) }
      else { let (r, s, t) = rhs.gcd_ext(rem); b_sign = if s_mag == 0 { -t_sign } else { s_sign };
             lhs = lhs * t_mag + s_mag; debug_assert!(carry == 0 && !carry2); (r, t, b_sign) }
    result: (g, |b|, sign of b) *)
Definition gcd_ext_small_asis (pf : nat) (cap lhs rhs : Z) : result (Z * Z * sign) :=
  let q := lhs / rhs in
  let rem := lhs mod rhs in
  if rem =? 0 then Ok (rhs, 1, Positive)
  else rbind (prim_gcd_ext_asis pf rhs rem) (fun '(r, s, t) =>
    let '(s_sign, s_mag) := sign_mag s in
    let '(t_sign, t_mag) := sign_mag t in
    let b_sign := if s_mag =? 0 then sign_neg t_sign else s_sign in
    let v := q * t_mag + s_mag in
    if cap <=? v then Panic Undocumented else Ok (r, v, b_sign)).

(** enough fuel for the primitive loop *)
Definition small_fuel (rhs : Z) : nat := S (Z.to_nat rhs).

Theorem gcd_ext_small_ok cap lhs rhs : 0 < rhs < lhs -> lhs <= cap ->
  exists g b sg, gcd_ext_small_asis (small_fuel rhs) cap lhs rhs = Ok (g, b, sg) /\
    g = Z.gcd lhs rhs /\ 0 <= b < lhs /\ (g = 1 -> (rhs * signed sg b) mod lhs = 1 mod lhs).
Proof.
  intros Hr Hcap. unfold gcd_ext_small_asis.
  pose proof (Z.div_mod lhs rhs ltac:(lia)) as DM. pose proof (Z.mod_pos_bound lhs rhs ltac:(lia)) as MB.
  set (q := lhs / rhs) in *. set (rem := lhs mod rhs) in *.
  assert (0 <= q) as Hq by (apply Z.div_pos; lia).
  destruct (Z.eqb_spec rem 0) as [R0|R0].
  - exists rhs, 1, Positive. split; [reflexivity|].
    assert (Z.gcd lhs rhs = rhs) as G.
    { rewrite Z.gcd_comm. apply Z.divide_gcd_iff; [lia|]. exists q. lia. }
    split; [symmetry; exact G|]. split; [lia|]. intros ->. unfold signed, sgnz. reflexivity.
  - assert (0 < rem) as Prem by lia.
    destruct (prim_gcd_ext_total (small_fuel rhs) rhs rem ltac:(lia) Prem) as ([[r s] t] & E); try (unfold small_fuel; lia).
    rewrite E. cbn [rbind].
    destruct (prim_gcd_ext_full (small_fuel rhs) rhs rem r s t ltac:(lia) Prem E) as (G & Bz & Sg & Bs & Bt).
    assert (r = Z.gcd lhs rhs) as G'.
    { rewrite G. unfold rem. rewrite (Z.gcd_comm rhs), Z.gcd_mod by lia. apply Z.gcd_comm. }
    assert (0 < r) as Pr.
    { rewrite G'. pose proof (Z.gcd_nonneg lhs rhs). destruct (Z.eq_dec (Z.gcd lhs rhs) 0) as [E0|]; [|lia].
      apply Z.gcd_eq_0_l in E0. lia. }
    unfold sign_mag. cbv beta iota zeta.
    set (v := q * Z.abs t + Z.abs s).
    pose proof (Z.abs_nonneg s) as As. pose proof (Z.abs_nonneg t) as At.
    assert (0 <= v) as Hv0 by (unfold v; nia).
    (* the signed cofactor *)
    set (bsg := if Z.abs s =? 0 then sign_neg (sign_of t) else sign_of s).
    assert (signed bsg v = s - t * q) as Eb.
    { unfold bsg, v, signed, sign_of. destruct (Z.eqb_spec (Z.abs s) 0) as [S0|S0].
      - assert (s = 0) by lia. subst s. destruct (Z.ltb_spec t 0); cbn [sign_neg sgnz]; lia.
      - destruct (Z.ltb_spec s 0); cbn [sgnz].
        + assert (0 <= t) by nia. lia.
        + assert (t <= 0) by nia. lia. }
    (* r = t * lhs + (s - t q) * rhs *)
    assert (rhs * signed bsg v = r + (- t) * lhs) as Ebz.
    { rewrite Eb. rewrite <- Bz. unfold rem in *. nia. }
    assert (v * r <= lhs) as Hvr.
    { unfold v. assert (q * Z.abs t * r <= q * rhs) by (rewrite <- Z.mul_assoc; apply Z.mul_le_mono_nonneg_l; lia).
      rewrite Z.mul_add_distr_r. clear - H DM Bs. lia. }
    assert (v < lhs) as Hvl.
    { destruct (Z.eq_dec r 1) as [R1|R1].
      - rewrite R1 in Hvr, Ebz. destruct (Z.eq_dec v lhs) as [Ev|]; [|lia]. exfalso.
        assert ((rhs * signed bsg v) mod lhs = 1 mod lhs) as M by (rewrite Ebz, Z.mod_add by lia; reflexivity).
        assert ((rhs * signed bsg v) mod lhs = 0) as M0.
        { unfold signed. rewrite Ev. replace (rhs * (sgnz bsg * lhs)) with (rhs * sgnz bsg * lhs) by ring. apply Z.mod_mul. lia. }
        rewrite M0, Z.mod_small in M by lia. lia.
      - assert (v * 2 <= v * r) by (apply Z.mul_le_mono_nonneg_l; lia). lia. }
    replace (cap <=? v) with false by (symmetry; apply Z.leb_gt; lia).
    exists r, v, bsg. split; [reflexivity|]. split; [exact G'|]. split; [lia|].
    intros R1. rewrite Ebz, R1, Z.mod_add by lia. reflexivity.
Qed.

(** ---------------- the dispatch of inv_large with only the Lehmer branch left abstract ---------------- *)
Section Dispatch.
Variable w : Z.
Hypothesis w_ge : 2 <= w.
Variable lehmer : Z -> Z -> Z * Z * sign.     (* gcd_ext_in_place on a value of three and more words *)

(** raw_len = 1 -> gcd_ext_word, 2 -> gcd_ext_dword, otherwise gcd_ext_in_place; the buffer that receives |b| is the
    copy of the modulus: as many words as the modulus has *)
Definition gcd_ext_dispatch (lhs rhs : Z) : Z * Z * sign :=
  if rhs <? 2 ^ w * 2 ^ w then
    match gcd_ext_small_asis (small_fuel rhs) ((2 ^ w) ^ ModRingModel.nwords w lhs) lhs rhs with
    | Ok res => res
    | _ => (0, 0, Positive)      (* unreachable for 0 < rhs < lhs (gcd_ext_small_ok) *)
    end
  else lehmer lhs rhs.

Hypothesis lehmer_ok : forall lhs rhs, 2 ^ w * 2 ^ w <= rhs < lhs ->
  let '(g, b, s) := lehmer lhs rhs in
  g = Z.gcd lhs rhs /\ 0 <= b < lhs /\ (g = 1 -> (rhs * signed s b) mod lhs = 1 mod lhs).

Theorem gcd_ext_dispatch_ok lhs rhs : 0 < rhs < lhs ->
  let '(g, b, s) := gcd_ext_dispatch lhs rhs in
  g = Z.gcd lhs rhs /\ 0 <= b < lhs /\ (g = 1 -> (rhs * signed s b) mod lhs = 1 mod lhs).
Proof.
  intros Hr. unfold gcd_ext_dispatch. destruct (Z.ltb_spec rhs (2 ^ w * 2 ^ w)) as [Hs|Hl].
  - pose proof (nwords_bound w w_ge lhs ltac:(lia)) as [_ Hcap].
    destruct (gcd_ext_small_ok ((2 ^ w) ^ ModRingModel.nwords w lhs) lhs rhs Hr ltac:(lia)) as (g & b & sg & -> & H). exact H.
  - apply lehmer_ok. lia.
Qed.
End Dispatch.

(** non-vacuity / regression: the two functions on concrete operands (modulus 2^130 + 12; a one-word and a two-word value) *)
Example gcd_ext_small_examples :
  gcd_ext_small_asis (small_fuel 12) (2 ^ 192) (2 ^ 130 + 12) 12 = Ok (4, 113427455640312821154458202477256070486, Negative) /\
  gcd_ext_small_asis (small_fuel 4) (2 ^ 192) (2 ^ 130 + 12) 4 = Ok (4, 1, Positive) /\
  gcd_ext_small_asis 200 (2 ^ 192) (2 ^ 130 + 12) (2 ^ 64 + 3) = Ok (1, 141784319550391026444609981769379217409, Negative) /\
  ((2 ^ 64 + 3) * signed Negative 141784319550391026444609981769379217409) mod (2 ^ 130 + 12) = 1.
Proof. vm_compute. repeat split; reflexivity. Qed.
