(** C01 round 5: the BODIES of the multiplication stack REGENERATED from the Rust source (coq/gen/MulBodiesGen.v, written by
    tools/translate_c01_r5.py on every run: helpers::add_signed_mul_split_into_chunks, karatsuba::add_signed_mul(_same_len),
    simple::add_signed_mul(_same_len), toom_3::add_signed_mul, the dispatch mul::add_signed_mul(_same_len), mul::multiply,
    sqr::sqr and the four size constants) equal the hand-written models of Int/RingMul.v / Int/RingMulW.v, for every word
    size and every word list.
      - Karatsuba step, same-length dispatch, multiply, sqr: equalities between programs, no hypothesis;
      - chunk loop and everything that calls it: under the length contract the code debug_asserts
        (length c = length a + length b) and for chunk multipliers that keep the length of their output slice.
    The hand dispatchers [mulg_same] / [mulg_gen] satisfy the GENERATED recursion equations ([mulg_same_unfold_gen],
    [mulg_gen_unfold_gen]): one level of the real code around the hand model is the hand model.
    toom_3::add_signed_mul_same_len is not regenerated (reported `unparsed`): it is the parameter [toom]. *)
From Dashu Require Import Base.Prelude Base.Words Int.RingAdd Int.RingMul Int.RingToomW Int.DivWordModel Int.RingMulW
  Int.WordPrims Int.WordKernelsGenProofs Int.RingDispatchProofs Int.RingTop.
From DashuGen Require Import WordKernelsGen MulBodiesGen.
Open Scope Z_scope.

Ltac kernel_eq :=
  match goal with
  | |- context [add_signed_same_len_in_place_gen ?w ?x ?s ?y] => rewrite (add_signed_same_len_in_place_gen_eq w x s y)
  | |- context [add_signed_in_place_gen ?w ?x ?s ?y] => rewrite (add_signed_in_place_gen_eq w x s y)
  | |- context [add_signed_word_in_place_gen ?w ?x ?y] => rewrite (add_signed_word_in_place_gen_eq w x y)
  | |- context [sub_in_place_with_sign_gen ?w ?x ?y] => rewrite (sub_in_place_with_sign_gen_eq w x y)
  end.

Ltac pair_step :=
  match goal with
  | |- context [match ?X with pair _ _ => _ end] => destruct X as [? ?] eqn:?
  end.

Section Bodies.
Variable w : Z.

(** karatsuba::add_signed_mul_same_len: the generated body IS the hand model *)
Theorem karatsuba_same_len_gen_eq (rec_same rec_gen : mulfn) c s a b :
  karatsuba_add_signed_mul_same_len_gen w rec_same rec_gen c s a b = karatsuba_same_len w rec_same c s a b.
Proof.
  unfold karatsuba_add_signed_mul_same_len_gen, karatsuba_same_len.
  cbv zeta.
  set (mid := ((length a + 1) / 2)%nat).
  replace (3 * mid - mid)%nat with (2 * mid)%nat by lia.
  replace (3 * mid - 2 * mid)%nat with mid by lia.
  destruct (assert_zero (rec_same (repeat 0 (2 * mid)) Positive (firstn mid a) (firstn mid b))) as [c_lo|p|e|];
    cbn [rbind]; try reflexivity.
  repeat (rewrite ?Z.add_0_l; kernel_eq; pair_step).
  destruct (assert_zero (rec_same (repeat 0 (2 * (length a - mid))) Positive (skipn mid a) (skipn mid b))) as [c_hi|p|e|];
    cbn [rbind]; try reflexivity.
  repeat (rewrite ?Z.add_0_l; kernel_eq; pair_step).
  match goal with |- context [rec_same ?x ?y ?z ?t] => destruct (rec_same x y z t) as [[x4 k4]|p|e|] end;
    cbn [rbind]; try reflexivity.
  repeat (rewrite ?Z.add_0_l; kernel_eq; pair_step).
  rewrite ?Z.add_0_l. reflexivity.
Qed.

(** simple::add_signed_mul_same_len = the schoolbook chunk *)
Theorem simple_same_len_gen_eq (rec_same rec_gen : mulfn) c s a b :
  simple_add_signed_mul_same_len_gen w rec_same rec_gen c s a b = simple_chunk_fn w c s a b.
Proof.
  unfold simple_add_signed_mul_same_len_gen, simple_chunk_fn. destruct (add_signed_mul_chunk w c s a b); reflexivity.
Qed.


(** list facts behind the two renderings of a sub-slice write-back *)
Lemma slice_to_end (n : nat) (l : list Z) : slice n (length l - n) l = skipn n l.
Proof. unfold slice. apply firstn_all2. rewrite skipn_length. lia. Qed.

Lemma splice_to_end (n : nat) (x l : list Z) : length x = length (skipn n l) -> splice n x l = firstn n l ++ x.
Proof.
  intros H. unfold splice. rewrite skipn_length in H.
  rewrite (skipn_all2 l) by lia. now rewrite app_nil_r.
Qed.

Lemma splice_len_pres lo n (x l : list Z) : length x = length (slice lo n l) -> length (splice lo x l) = length l.
Proof.
  unfold splice, slice. rewrite firstn_length, skipn_length. intros H.
  rewrite !app_length, firstn_length, skipn_length. lia.
Qed.

Lemma add_one_in_place_length ws : length (fst (add_one_in_place w ws)) = length ws.
Proof.
  induction ws as [|x r IH]; cbn [add_one_in_place]; [reflexivity|].
  destruct (add_with_carry w x 1 false) as [a o]. destruct o; [|reflexivity].
  destruct (add_one_in_place w r) as [r' c]. cbn [fst length] in *. now rewrite IH.
Qed.

Lemma sub_one_in_place_length' ws : length (fst (sub_one_in_place w ws)) = length ws.
Proof.
  induction ws as [|x r IH]; cbn [sub_one_in_place]; [reflexivity|].
  destruct (sub_with_borrow w x 1 false) as [a o]. destruct o; [|reflexivity].
  destruct (sub_one_in_place w r) as [r' c]. cbn [fst length] in *. now rewrite IH.
Qed.

Lemma add_signed_word_in_place_length ws rhs : length (fst (add_signed_word_in_place w ws rhs)) = length ws.
Proof.
  unfold add_signed_word_in_place.
  destruct ((rhs =? 0) || match ws with [] => true | _ => false end)%bool; [reflexivity|].
  destruct (0 <? rhs).
  - unfold add_word_in_place. destruct ws as [|x r]; [reflexivity|].
    destruct (add_with_carry w x rhs false) as [a c]. destruct c; [|reflexivity].
    pose proof (add_one_in_place_length r) as H. destruct (add_one_in_place w r) as [r' c']. cbn [fst length] in *. now rewrite H.
  - unfold sub_word_in_place. destruct ws as [|x r]; [reflexivity|].
    destruct (sub_with_borrow w x (- rhs) false) as [a c]. destruct c; [|reflexivity].
    pose proof (sub_one_in_place_length' r) as H. destruct (sub_one_in_place w r) as [r' c']. cbn [fst length] in *. now rewrite H.
Qed.

(** a chunk multiplier keeps the length of the slice it writes to (operand lengths la, lb) *)
Definition keeps_len (f : mulfn) (la lb : nat) : Prop :=
  forall c s a b r k, length a = la -> length b = lb -> length c = (la + lb)%nat -> f c s a b = Ok (r, k) -> length r = length c.

(** helpers::add_signed_mul_split_into_chunks: the generated fuelled loop (with the code after the loop as its exit branch)
    is [chunks_loop] *)
Lemma chunks_while_gen_eq (f1 f rec_same rg1 rec_gen : mulfn) (chunk_len : nat) s b :
  (forall c s a b, length c = (length a + length b)%nat -> rg1 c s a b = rec_gen c s a b) ->
  (forall c s a b, f1 c s a b = f c s a b) ->
  keeps_len f chunk_len (length b) ->
  forall fuel c a carry_n, length c = (length a + length b)%nat ->
  add_signed_mul_split_into_chunks_while_gen w rec_same rg1 fuel c s a b chunk_len f1 (length b) carry_n
  = chunks_loop w fuel f rec_gen chunk_len c s a b carry_n.
Proof.
  intros Hrg Hext Hf. set (n := length b). assert (Hn : n = length b) by reflexivity.
  assert (Tail : forall c a carry_n, length c = (length a + length b)%nat ->
    (let '(x2, k2) := add_signed_word_in_place_gen w (slice n (length c - n) c) carry_n in
     let c4 := splice n x2 c in
     if (length b <=? length a)%nat then rbind (rg1 c4 s a b) (fun '(c5, k3) => let carry := k2 + k3 in Ok (c5, carry))
     else if (0 <? length a)%nat then rbind (rg1 c4 s b a) (fun '(c6, k4) => let carry1 := k2 + k4 in Ok (c6, carry1))
     else Ok (c4, k2))
    = (let '(hi, carry) := add_signed_word_in_place w (skipn n c) carry_n in
       let c1 := firstn n c ++ hi in
       if (length b <=? length a)%nat then match rec_gen c1 s a b with Ok (r, cf) => Ok (r, carry + cf) | e => e end
       else if (0 <? length a)%nat then match rec_gen c1 s b a with Ok (r, cf) => Ok (r, carry + cf) | e => e end
       else Ok (c1, carry))).
  { intros c a carry_n Lc. rewrite add_signed_word_in_place_gen_eq, slice_to_end.
    pose proof (add_signed_word_in_place_length (skipn n c) carry_n) as L.
    destruct (add_signed_word_in_place w (skipn n c) carry_n) as [hi carry]. cbn [fst] in L. cbv zeta.
    rewrite (splice_to_end n hi c L).
    assert (Lc1 : length (firstn n c ++ hi) = length c).
    { rewrite app_length, L, firstn_length, skipn_length. lia. }
    destruct (length b <=? length a)%nat.
    - rewrite Hrg by lia. destruct (rec_gen (firstn n c ++ hi) s a b) as [[r cf]|p|e|]; reflexivity.
    - destruct (0 <? length a)%nat; [|reflexivity].
      rewrite Hrg by lia. destruct (rec_gen (firstn n c ++ hi) s b a) as [[r cf]|p|e|]; reflexivity. }
  induction fuel as [|fuel IH]; intros c a carry_n L;
    cbn [add_signed_mul_split_into_chunks_while_gen chunks_loop]; fold n;
    destruct (chunk_len <=? length a)%nat eqn:Hc; try reflexivity; try (apply Tail; exact L).
  apply Nat.leb_le in Hc. cbv zeta.
  replace (chunk_len + n - n)%nat with chunk_len by lia.
  rewrite add_signed_word_in_place_gen_eq.
  pose proof (add_signed_word_in_place_length (slice n chunk_len c) carry_n) as L1.
  destruct (add_signed_word_in_place w (slice n chunk_len c) carry_n) as [m1 cn1]. cbn [fst] in L1.
  assert (Lc1 : length (splice n m1 c) = length c) by (apply (splice_len_pres n chunk_len); exact L1).
  set (c1 := splice n m1 c) in *.
  change (slice 0 (chunk_len + n) c1) with (firstn (chunk_len + n) c1).
  rewrite Hext.
  destruct (f (firstn (chunk_len + n) c1) s (firstn chunk_len a) b) as [[lo cf]|p|e|] eqn:Ef; cbn [rbind]; try reflexivity.
  assert (Llo : length lo = (chunk_len + n)%nat).
  { assert (E1 : length (firstn chunk_len a) = chunk_len) by (apply firstn_length_le; lia).
    assert (E2 : length (firstn (chunk_len + n) c1) = (chunk_len + n)%nat) by (apply firstn_length_le; lia).
    rewrite (Hf _ _ _ _ _ _ E1 eq_refl E2 Ef). exact E2. }
  change (splice 0 lo c1) with (lo ++ skipn (0 + length lo) c1). cbn [Nat.add]. rewrite Llo.
  set (c2 := lo ++ skipn (chunk_len + n) c1).
  assert (Lc2 : length c2 = length c) by (unfold c2; rewrite app_length, skipn_length; lia).
  rewrite IH by (rewrite !skipn_length; lia).
  destruct (chunks_loop w fuel f rec_gen chunk_len (skipn chunk_len c2) s (skipn chunk_len a) b (cn1 + cf)) as [[r cy]|p|e|];
    reflexivity.
Qed.

Theorem split_into_chunks_gen_eq (f1 f rec_same rg1 rec_gen : mulfn) (chunk_len : nat) c s a b :
  (forall c s a b, length c = (length a + length b)%nat -> rg1 c s a b = rec_gen c s a b) ->
  (forall c s a b, f1 c s a b = f c s a b) ->
  keeps_len f chunk_len (length b) -> length c = (length a + length b)%nat ->
  add_signed_mul_split_into_chunks_gen w rec_same rg1 c s a b chunk_len f1 = split_into_chunks w f rec_gen chunk_len c s a b.
Proof.
  intros Hrg Hext Hf L. unfold add_signed_mul_split_into_chunks_gen, split_into_chunks. cbv zeta. now apply chunks_while_gen_eq.
Qed.

End Bodies.

(** the four size constants read from the source are the ones the hand models are instantiated with *)
Lemma gen_constants :
  THRESHOLD_SIMPLE_gen = src_T_simple /\ THRESHOLD_KARATSUBA_gen = src_T_kara /\ CHUNK_LEN_gen = src_CHUNK /\
  MAX_LEN_SIMPLE_gen = src_SQR.
Proof. repeat split; reflexivity. Qed.

Section Dispatch.
Variable w : Z.
Variable toom : mulfn -> mulfn.
Notation TS := THRESHOLD_SIMPLE_gen.
Notation TK := THRESHOLD_KARATSUBA_gen.
Notation CH := CHUNK_LEN_gen.
Notation SQ := MAX_LEN_SIMPLE_gen.

(** mul::add_signed_mul_same_len: one level of the generated dispatch around the hand dispatcher is the hand dispatcher *)
Theorem mulg_same_unfold_gen f (rec_gen : mulfn) c s a b :
  mulg_same w toom TS TK (S f) c s a b
  = mul_add_signed_mul_same_len_body_gen w toom (mulg_same w toom TS TK f) rec_gen c s a b.
Proof.
  cbn [mulg_same]. unfold mul_add_signed_mul_same_len_body_gen. cbv zeta.
  destruct (length a <=? TS)%nat; [now rewrite simple_same_len_gen_eq|].
  destruct (length a <=? TK)%nat; [now rewrite karatsuba_same_len_gen_eq|reflexivity].
Qed.

(** mul::add_signed_mul: operand swap, the three multipliers with their chunk loops *)
Theorem mulg_gen_unfold_gen f c s a b :
  (forall n, keeps_len (simple_chunk_fn w) CH n) ->
  (forall n, (TS < n)%nat -> keeps_len (karatsuba_same_len w (mulg_same w toom TS TK f)) n n) ->
  (forall n, (TK < n)%nat -> keeps_len (toom (mulg_same w toom TS TK f)) n n) ->
  length c = (length a + length b)%nat ->
  mulg_gen w toom TS TK CH (S f) c s a b
  = mul_add_signed_mul_body_gen w toom (mulg_same w toom TS TK f) (mulg_gen w toom TS TK CH f) c s a b.
Proof.
  intros H1 H2 H3 L. cbn [mulg_gen]. unfold mul_add_signed_mul_body_gen.
  assert (L' : forall a1 b1, (a1, b1) = (if (length a <? length b)%nat then (b, a) else (a, b)) ->
                             length c = (length a1 + length b1)%nat).
  { intros a1 b1 E. destruct (length a <? length b)%nat; inversion E; subst; lia. }
  destruct (if (length a <? length b)%nat then (b, a) else (a, b)) as [a1 b1]. specialize (L' a1 b1 eq_refl).
  unfold simple_add_signed_mul_gen, karatsuba_add_signed_mul_gen, toom_3_add_signed_mul_gen.
  destruct (length b1 <=? TS)%nat eqn:E1.
  - destruct (length a1 <=? CH)%nat.
    + unfold simple_chunk_fn. destruct (add_signed_mul_chunk w c s a1 b1); reflexivity.
    + symmetry; apply split_into_chunks_gen_eq; auto.
  - apply Nat.leb_gt in E1. destruct (length b1 <=? TK)%nat eqn:E2.
    + symmetry; apply split_into_chunks_gen_eq; auto. intros; apply karatsuba_same_len_gen_eq.
    + apply Nat.leb_gt in E2. symmetry; apply split_into_chunks_gen_eq; auto.
Qed.

(** mul::multiply and sqr::sqr on the zero-filled buffer their callers allocate *)
Theorem multiply_gen_eq (rec_same : mulfn) a b :
  mul_multiply_gen (mul_add_signed_mul_same_len_gen w toom) (add_signed_mul_g w toom TS TK CH)
                   (repeat 0 (length a + length b)) a b
  = multiply_g w toom TS TK CH a b.
Proof.
  unfold mul_multiply_gen, multiply_g.
  destruct (assert_zero (add_signed_mul_g w toom TS TK CH (repeat 0 (length a + length b)) Positive a b)); reflexivity.
Qed.

Theorem sqr_gen_eq (rec_gen : mulfn) a :
  sqr_sqr_gen w (add_signed_mul_same_len_g w toom TS TK) rec_gen (repeat 0 (2 * length a)) a = sqr_g w toom TS TK SQ a.
Proof.
  unfold sqr_sqr_gen, sqr_g. cbv zeta. destruct (length a <=? SQ)%nat; [reflexivity|].
  destruct (assert_zero (add_signed_mul_same_len_g w toom TS TK (repeat 0 (2 * length a)) Positive a a)); reflexivity.
Qed.

End Dispatch.
