(** C12 - AS-IS models of the algorithms anchored by the property (definitions only).
    Transcribed from integer/src/root_ops.rs, integer/src/log.rs, integer/src/remove.rs,
    base/src/ring/gcd.rs (after the repairs F01-F08; the pre-repair variants are kept as [*_prefix]). *)
From Dashu Require Import Base.Prelude Int.GrlSpec.
Open Scope Z_scope.

Definition bit_len (x : Z) : Z := if x =? 0 then 0 else Z.log2 x + 1.

(** * TypedReprRef::nth_root : Newton iteration "first up, then down" *)
Definition newton_next (x n g : Z) : Z := (x / g ^ (n - 1) + g * (n - 1)) / n.

(** [while fixpoint > guess { guess = fixpoint; fixpoint = next(guess) }] *)
Fixpoint newton_up (fuel : nat) (x n g f : Z) : result (Z * Z) :=
  match fuel with
  | O => OutOfFuel
  | S k => if g <? f then newton_up k x n f (newton_next x n f) else Ok (g, f)
  end.

(** [while fixpoint < guess { guess = fixpoint; fixpoint = next(guess) }] *)
Fixpoint newton_down (fuel : nat) (x n g f : Z) : result Z :=
  match fuel with
  | O => OutOfFuel
  | S k => if f <? g then newton_down k x n f (newton_next x n f) else Ok g
  end.

Definition newton_root_from (fuel : nat) (x n g0 : Z) : result Z :=
  rbind (newton_up fuel x n g0 (newton_next x n g0)) (fun gf => newton_down fuel x n (fst gf) (snd gf)).

(** the first guess [1 << ((bits - 1) / n + 1)] = 2^ceil(bits/n), an overestimate (repair F08) *)
Definition newton_g0 (x n : Z) : Z := 2 ^ ((bit_len x - 1) / n + 1).
(** before repair F08 the first guess was [1 << (bits / n)], usually below the root: the first step
    then overshoots by about (root/guess)^(n-1) and the descent only gains a factor 1 - 1/n per step *)
Definition newton_g0_prefix (x n : Z) : Z := 2 ^ (bit_len x / n).

Definition newton_root (fuel : nat) (x n : Z) : result Z := newton_root_from fuel x n (newton_g0 x n).
Definition newton_root_prefix (fuel : nat) (x n : Z) : result Z := newton_root_from fuel x n (newton_g0_prefix x n).

Definition nth_root_asis (fuel : nat) (x n : Z) : result Z :=
  if n =? 0 then Panic RootZeroth
  else if n =? 1 then Ok x
  else if n =? 2 then Ok (Z.sqrt x)
  else if bit_len x =? 0 then Ok 0
  else if bit_len x <=? n then Ok 1
  else newton_root fuel x n.

(** before repair F01 the zero test was missing: bit_len 0 = 0 <= n gave 1 *)
Definition nth_root_prefix (fuel : nat) (x n : Z) : result Z :=
  if n =? 0 then Panic RootZeroth
  else if n =? 1 then Ok x
  else if n =? 2 then Ok (Z.sqrt x)
  else if bit_len x <=? n then Ok 1
  else newton_root fuel x n.

(** IBig::nth_root / IBig::cbrt *)
Definition inth_root_asis (fuel : nat) (x n : Z) : result Z :=
  if n =? 0 then Panic RootZeroth
  else if (x <? 0) && Z.even n then Panic RootNegative
  else rbind (nth_root_asis fuel (Z.abs x) n) (fun r => Ok (Z.sgn x * r)).

Definition icbrt_asis (fuel : nat) (x : Z) : result Z :=
  rbind (nth_root_asis fuel (Z.abs x) 3) (fun r => Ok (Z.sgn x * r)).
(** before repair F02: copy of sqrt's sign check *)
Definition icbrt_prefix (fuel : nat) (x : Z) : result Z :=
  if x <? 0 then Panic RootNegative else rbind (nth_root_asis fuel (Z.abs x) 3) (fun r => Ok (Z.sgn x * r)).

(** * sqrt_rem_large: pre-shift / post-shift around the Karatsuba kernel (root_ops.rs)
    [w] word bits, [len] number of words of x, kernel contract: (s', r') with s'^2 + r' = x * 2^shift. *)
Definition sqrt_shift (w len lz : Z) : Z := w * (len mod 2) + 2 * (lz / 2).

Definition sqrt_rem_post_gen (ge : bool) (w n shift s' r' : Z) : Z * Z :=
  if shift =? 0 then (s', r')
  else
    let h := shift / 2 in
    let s0 := s' mod 2 ^ h in
    let R := (r' + 2 * s0 * s' - s0 * s0) mod (2 ^ w) ^ (n + 1) in
    let buf := if (if ge then w <=? shift else w <? shift) then (R / 2 ^ w) mod (2 ^ w) ^ n else R in
    (Z.shiftr s' h, Z.shiftr buf (shift mod w)).

Definition sqrt_rem_post := sqrt_rem_post_gen true.       (* repaired: shift >= WORD_BITS *)
Definition sqrt_rem_post_prefix := sqrt_rem_post_gen false. (* before F03: shift > WORD_BITS *)

(** the whole of sqrt_rem_large with the kernel replaced by its contract (Z.sqrt of the shifted input) *)
Definition sqrt_rem_large_gen (ge : bool) (w x : Z) : Z * Z :=
  let len := Z.log2 x / w + 1 in
  let lz := w * len - (Z.log2 x + 1) in
  let shift := sqrt_shift w len lz in
  let n := (len + 1) / 2 in
  let y := x * 2 ^ shift in
  let s' := Z.sqrt y in
  sqrt_rem_post_gen ge w n shift s' (y - s' * s').

(** * integer logarithm: estimate, then correct by trial multiplication (log.rs) *)
(** log_large: [loop { next = est_pow * base; if next <= target {accept}; if next >= target {break} }] *)
Fixpoint log_large_loop (fuel : nat) (target base est est_pow : Z) : result (Z * Z) :=
  match fuel with
  | O => OutOfFuel
  | S k =>
      let next_pow := est_pow * base in
      if next_pow <? target then log_large_loop k target base (est + 1) next_pow
      else if next_pow =? target then Ok (est + 1, next_pow)
      else Ok (est, est_pow)
  end.

(** [est0] is the floating-point estimate floor(log2_lb(target) / log2_ub(base)) *)
Definition log_large_asis (fuel : nat) (est0 target base : Z) : result (Z * Z) :=
  let est := Z.max est0 1 in
  let est_pow := base ^ est in
  if target <? est_pow then Panic Undocumented   (* assert!(est_pow <= target) *)
  else log_large_loop fuel target base est est_pow.

(** log_dword: the same loop on double words, ended by [checked_mul] overflow; [D] = 2^(2w) *)
Fixpoint log_dword_loop (fuel : nat) (D target base est est_pow : Z) : result (Z * Z) :=
  match fuel with
  | O => OutOfFuel
  | S k =>
      let next_pow := est_pow * base in
      if D <=? next_pow then Ok (est, est_pow)
      else if next_pow <? target then log_dword_loop k D target base (est + 1) next_pow
      else if next_pow =? target then Ok (est + 1, next_pow)
      else Ok (est, est_pow)
  end.

Definition log_dword_asis (fuel : nat) (D est target base : Z) : result (Z * Z) :=
  if target =? 0 then Panic LogOperand
  else if target =? 1 then Ok (0, 1)
  else if target <? base then Ok (0, 1)
  else if target =? base then Ok (1, base)
  else
    let est_pow := base ^ est in
    if target <? est_pow then Panic Undocumented else log_dword_loop fuel D target base est est_pow.

(** log_word_base: stage A multiplies by wbase = base^wexp while the estimate is words shorter, stage B
    multiplies by base until the target is reached or passed, and divides once if it was passed. *)
Definition wlen (w v : Z) : Z := if v =? 0 then 0 else Z.log2 v / w + 1.
Definition top_word (w v : Z) : Z := v / 2 ^ (w * (wlen w v - 1)).
Definition highest_dword (w v : Z) : Z := v / 2 ^ (w * (wlen w v - 2)).

Fixpoint lwb_stage_a (fuel : nat) (w target wbase wexp est est_pow : Z) : result (Z * Z) :=
  match fuel with
  | O => OutOfFuel
  | S k =>
      if wlen w est_pow <? wlen w target then
        if (wlen w est_pow =? wlen w target - 1) && (highest_dword w target <? (top_word w est_pow + 1) * wbase)
        then Ok (est, est_pow)
        else lwb_stage_a k w target wbase wexp (est + wexp) (est_pow * wbase)
      else Ok (est, est_pow)
  end.

Fixpoint lwb_stage_b (fuel : nat) (target base est est_pow : Z) : result (Z * Z) :=
  match fuel with
  | O => OutOfFuel
  | S k =>
      if est_pow <? target then lwb_stage_b k target base (est + 1) (est_pow * base)
      else if est_pow =? target then Ok (est, est_pow)
      else Ok (est - 1, est_pow / base)
  end.

Definition log_word_base_asis (fuel : nat) (w est wexp target base : Z) : result (Z * Z) :=
  let est_pow := base ^ est in
  if target <? est_pow then Panic Undocumented
  else rbind (lwb_stage_a fuel w target (base ^ wexp) wexp est est_pow)
             (fun ep => lwb_stage_b fuel target base (fst ep) (snd ep)).

(** the entry TypedReprRef::log: zero operand (repair F06), bases 0/1, powers of two *)
Definition is_pow2 (b : Z) : bool := (0 <? b) && (b =? 2 ^ Z.log2 b).

Definition ilog_shortcuts (x b : Z) : option (result Z) :=
  if x =? 0 then Some (Panic LogOperand)
  else if b <? 2 then Some (Panic LogOperand)
  else if b =? 2 then Some (Ok (bit_len x - 1))
  else if is_pow2 b then Some (Ok ((bit_len x - 1) / Z.log2 b))
  else None.

(** * UBig::remove (remove.rs) *)
Fixpoint remove_stage1 (fuel : nat) (q exp : Z) (pows : list Z) : result (Z * Z * list Z) :=
  match fuel with
  | O => OutOfFuel
  | S k =>
      match pows with
      | [] => Err 0
      | last :: _ =>
          if q mod last =? 0 then remove_stage1 k (q / last) (exp + 2 ^ len pows) (last * last :: pows)
          else Ok (q, exp, pows)
      end
  end.

Fixpoint remove_stage2 (q exp : Z) (pows : list Z) : Z * Z :=
  match pows with
  | [] => (q, exp)
  | last :: rest =>
      if q mod last =? 0 then remove_stage2 (q / last) (exp + 2 ^ (len rest + 1)) rest
      else remove_stage2 q exp rest
  end.

(** trailing zeros of a non-zero integer, by scanning (value-level meaning of trailing_zeros) *)
Fixpoint tz_scan (fuel : nat) (x k : Z) : Z :=
  match fuel with O => k | S f => if Z.odd x then k else tz_scan f (x / 2) (k + 1) end.
Definition tz (x : Z) : Z := tz_scan (Z.to_nat (Z.log2 x + 1)) x 0.

(** result: None, or Some (exponent, what is left in self) *)
Definition remove_asis (fuel : nat) (x f : Z) : result (option (Z * Z)) :=
  if (x =? 0) || (f =? 0) || (f =? 1) then Ok None
  else if is_pow2 f then
    let bits := Z.log2 f in
    let exp := tz x / bits in
    Ok (Some (exp, Z.shiftr x (exp * bits)))
  else if negb (x mod f =? 0) then Ok (Some (0, x))
  else
    match remove_stage1 fuel (x / f) 1 [f * f] with
    | Ok (q, exp, pows) =>
        let '(q2, exp2) := remove_stage2 q exp pows in
        if q2 mod f =? 0 then Ok (Some (exp2 + 1, q2 / f)) else Ok (Some (exp2, q2))
    | Panic r => Panic r
    | Err e => Err e
    | OutOfFuel => OutOfFuel
    end.

(** * primitive gcd (base/src/ring/gcd.rs) *)
(** UncheckedGcd::unchecked_gcd : the binary algorithm on two odd numbers *)
Definition strip2 (x : Z) : Z := x / 2 ^ tz x.     (* x >> x.trailing_zeros() *)

Fixpoint binary_gcd (fuel : nat) (a b : Z) : result Z :=
  match fuel with
  | O => OutOfFuel
  | S k =>
      if a =? b then Ok a
      else if b <? a then binary_gcd k (strip2 (a - b)) b
      else binary_gcd k a (strip2 (b - a))
  end.

(** Gcd::gcd for a primitive type of [bits] bits ([lz x = bits - bit_len x]) *)
Definition prim_gcd_asis (fuel : nat) (bits a b : Z) : result Z :=
  if (a =? 0) || (b =? 0) then
    (if (a =? 0) && (b =? 0) then Panic GcdZeroZero else Ok (Z.lor a b))
  else
    let shift := tz (Z.lor a b) in
    let a1 := strip2 a in
    let b1 := strip2 b in
    let za := bits - bit_len a1 in
    let zb := bits - bit_len b1 in
    if zb + 3 <? za then
      let r := b1 mod a1 in
      if r =? 0 then Ok (a1 * 2 ^ shift)
      else rbind (binary_gcd fuel a1 (strip2 r)) (fun g => Ok (g * 2 ^ shift))
    else if za + 4 <? zb then
      let r := a1 mod b1 in
      if r =? 0 then Ok (b1 * 2 ^ shift)
      else rbind (binary_gcd fuel (strip2 r) b1) (fun g => Ok (g * 2 ^ shift))
    else rbind (binary_gcd fuel a1 b1) (fun g => Ok (g * 2 ^ shift)).

(** UncheckedExtendedGcd::unchecked_gcd_ext : Euclid with cofactors, r = self*s + rhs*t *)
Fixpoint euclid_ext (fuel : nat) (last_r r last_s s last_t t : Z) : result (Z * Z * Z) :=
  match fuel with
  | O => OutOfFuel
  | S k =>
      let quo := last_r / r in
      let new_r := last_r - quo * r in
      if new_r =? 0 then Ok (r, s, t)
      else euclid_ext k r new_r s (last_s - quo * s) t (last_t - quo * t)
  end.

Definition prim_gcd_ext_asis (fuel : nat) (a b : Z) : result (Z * Z * Z) :=
  if (a =? 0) && (b =? 0) then Panic GcdZeroZero
  else if a =? 0 then Ok (b, 0, 1)
  else if b =? 0 then Ok (a, 1, 0)
  else
    let shift := tz (Z.lor a b) in
    let a1 := a / 2 ^ shift in
    let b1 := b / 2 ^ shift in
    if b1 <=? a1 then
      if b1 =? 1 then Ok (2 ^ shift, 0, 1)
      else rbind (euclid_ext fuel a1 b1 1 0 0 1) (fun gst => let '(g, ca, cb) := gst in Ok (g * 2 ^ shift, ca, cb))
    else
      if a1 =? 1 then Ok (2 ^ shift, 1, 0)
      else rbind (euclid_ext fuel b1 a1 1 0 0 1) (fun gst => let '(g, cb, ca) := gst in Ok (g * 2 ^ shift, ca, cb)).
