(** C12 - gcd, integer roots, integer logarithms, log2 bounds, remove: SPECIFICATIONS (definitions only).
    Everything here is executable and is what the oracle evaluates; the theorems that give these
    definitions their meaning are in GrlSpecProof.v. *)
From Dashu Require Import Base.Prelude.
Open Scope Z_scope.

(** * gcd *)
Definition gcd_spec (a b : Z) : result Z :=
  if (a =? 0) && (b =? 0) then Panic GcdZeroZero else Ok (Z.gcd a b).

(** complete certificate of an extended gcd answer [(g, s, t)] *)
Definition gcd_ext_cert (a b g s t : Z) : bool :=
  (0 <=? g) && (a mod g =? 0) && (b mod g =? 0) && (s * a + t * b =? g).

(** * roots *)
(** [r] is the [n]-th root of [x] truncated toward zero (x >= 0) *)
Definition root_cert (n x r : Z) : bool := (0 <=? r) && (r ^ n <=? x) && (x <? (r + 1) ^ n).

(** signed version: the root of the magnitude carrying the sign of [x] *)
Definition iroot_cert (n x r : Z) : bool := root_cert n (Z.abs x) (Z.abs r) && (r =? Z.sgn x * Z.abs r).

Definition root_panic (n x : Z) : option reason :=
  if n =? 0 then Some RootZeroth else if (x <? 0) && Z.even n then Some RootNegative else None.

Definition sqrt_rem_spec (x : Z) : Z * Z := let s := Z.sqrt x in (s, x - s * s).

(** root with remainder: value - root^n *)
Definition root_rem_cert (n x r e : Z) : bool := root_cert n x r && (e =? x - r ^ n).

(** * integer logarithm *)
Definition ilog_panic (x b : Z) : bool := (x =? 0) || (b <? 2).
Definition ilog_cert (x b e : Z) : bool := (0 <=? e) && (b ^ e <=? Z.abs x) && (Z.abs x <? b ^ (e + 1)).

(** * remove *)
Definition remove_cert (x f e rest : Z) : bool :=
  (0 <=? e) && (rest * f ^ e =? x) && negb (rest mod f =? 0).
Definition remove_none (x f : Z) : bool := (x =? 0) || (f <=? 1).

(** executable multiplicity, by repeated division (fuel = bit length of x) *)
Fixpoint remove_loop (fuel : nat) (x f e : Z) : Z * Z :=
  match fuel with
  | O => (e, x)
  | S k => if x mod f =? 0 then remove_loop k (x / f) f (e + 1) else (e, x)
  end.
Definition remove_spec (x f : Z) : option (Z * Z) :=
  if remove_none x f then None else Some (remove_loop (Z.to_nat (Z.log2 x + 1)) x f 0).

(** * enclosures of the binary logarithm, decided with brackets
    A bracket [(lo, hi, e)] of a non-negative integer [X]:  lo * 2^e <= X <= hi * 2^e. *)
Definition bracket := (Z * Z * Z)%type.

Definition bk_trunc (prec : Z) (b : bracket) : bracket :=
  let '(lo, hi, e) := b in
  let s := Z.log2 hi + 1 - prec in
  if s <=? 0 then b
  else
    let h := Z.shiftr hi s in
    (Z.shiftr lo s, (if Z.shiftl h s =? hi then h else h + 1), e + s).

Definition bk_sqr (prec : Z) (b : bracket) : bracket :=
  let '(lo, hi, e) := b in bk_trunc prec (lo * lo, hi * hi, 2 * e).

Fixpoint bk_pow2k (prec : Z) (k : nat) (b : bracket) : bracket :=
  match k with O => b | S k' => bk_pow2k prec k' (bk_sqr prec b) end.

Definition bk_of (prec x : Z) : bracket := bk_trunc prec (x, x, 0).

(** a * 2^ea <= b * 2^eb for non-negative a, b, ea, eb - without materialising huge powers *)
Definition scaled_le (a ea b eb : Z) : bool :=
  if ea <=? eb then
    let d := eb - ea in
    if b =? 0 then a =? 0
    else if Z.log2 a <? d then true
    else a <=? Z.shiftl b d
  else
    let d := ea - eb in
    if a =? 0 then true
    else if Z.log2 b <? d then false
    else Z.shiftl a d <=? b.

(** the statement  m / 2^k <= log2 (p / q)  for positive integers p, q, any integer m, written with
    integers only:  2^max(m,0) * q^(2^k) <= 2^max(-m,0) * p^(2^k) *)
Definition log2_lb_holds (m : Z) (k : nat) (p q : Z) : Prop :=
  2 ^ Z.max m 0 * q ^ (2 ^ Z.of_nat k) <= 2 ^ Z.max (- m) 0 * p ^ (2 ^ Z.of_nat k).
(** log2 (p / q) <= m / 2^k  is the same statement about q / p and -m *)
Definition log2_ub_holds (m : Z) (k : nat) (p q : Z) : Prop := log2_lb_holds (- m) k q p.

(** exact decision (only feasible for small k) *)
Definition log2_lb_exact (m : Z) (k : nat) (p q : Z) : bool :=
  2 ^ Z.max m 0 * q ^ (2 ^ Z.of_nat k) <=? 2 ^ Z.max (- m) 0 * p ^ (2 ^ Z.of_nat k).

(** bracket decision: Some true = holds, Some false = does not hold, None = precision too small *)
Definition log2_lb_dec (prec m : Z) (k : nat) (p q : Z) : option bool :=
  let '(pl, ph, pe) := bk_pow2k prec k (bk_of prec p) in
  let '(ql, qh, qe) := bk_pow2k prec k (bk_of prec q) in
  let mp := Z.max m 0 in
  let mn := Z.max (- m) 0 in
  if scaled_le qh (qe + mp) pl (pe + mn) then Some true
  else if negb (scaled_le ql (qe + mp) ph (pe + mn)) then Some false
  else None.

(** * IEEE single precision bit patterns (the answers of log2_bounds) *)
Inductive f32v := FNan | FInf (neg : bool) | FFin (m e : Z).   (* FFin m e = m * 2^e *)

Definition f32_decode (bits : Z) : f32v :=
  let s := Z.testbit bits 31 in
  let ex := (bits / 2 ^ 23) mod 256 in
  let fr := bits mod 2 ^ 23 in
  if ex =? 255 then (if fr =? 0 then FInf s else FNan)
  else
    let m := if ex =? 0 then fr else fr + 2 ^ 23 in
    let e := (if ex =? 0 then 1 else ex) - 150 in
    FFin (if s then - m else m) e.

Definition f64_decode (bits : Z) : f32v :=
  let s := Z.testbit bits 63 in
  let ex := (bits / 2 ^ 52) mod 2048 in
  let fr := bits mod 2 ^ 52 in
  if ex =? 2047 then (if fr =? 0 then FInf s else FNan)
  else
    let m := if ex =? 0 then fr else fr + 2 ^ 52 in
    let e := (if ex =? 0 then 1 else ex) - 1075 in
    FFin (if s then - m else m) e.

(** m * 2^e as a dyadic fraction  m' / 2^k  with m' odd or k = 0 *)
Fixpoint dy_norm (fuel : nat) (m e : Z) : Z * Z :=
  match fuel with
  | O => (m, e)
  | S f => if (e <? 0) && Z.even m && negb (m =? 0) then dy_norm f (m / 2) (e + 1) else (m, e)
  end.

Definition dyadic (m e : Z) : Z * nat :=
  if m =? 0 then (0, O)
  else if 0 <=? e then (m * 2 ^ e, O)
  else let '(m', e') := dy_norm 2000 m e in (m', Z.to_nat (- e')).

(** verdict on one bound: 1 = holds, 0 = violated, 2 = undecided at this precision.
    [lower = true]: the bound must be <= log2(p/q); otherwise >= . *)
Definition log2_bound_check (prec : Z) (lower : bool) (bound : f32v) (p q : Z) : Z :=
  match bound with
  | FNan => 0
  | FInf neg => if Bool.eqb neg lower then 1 else 0
  | FFin m e =>
      let '(m', k) := dyadic m e in
      let r := if lower then log2_lb_dec prec m' k p q else log2_lb_dec prec (- m') k q p in
      match r with Some true => 1 | Some false => 0 | None => 2 end
  end.

Definition log2_bound_exact (lower : bool) (bound : f32v) (p q : Z) : Z :=
  match bound with
  | FNan => 0
  | FInf neg => if Bool.eqb neg lower then 1 else 0
  | FFin m e =>
      let '(m', k) := dyadic m e in
      if (if lower then log2_lb_exact m' k p q else log2_lb_exact (- m') k q p) then 1 else 0
  end.

(** number of squarings the check of this bound needs (to choose exact vs bracket) *)
Definition log2_bound_k (bound : f32v) : Z :=
  match bound with FFin m e => Z.of_nat (snd (dyadic m e)) | _ => 0 end.
